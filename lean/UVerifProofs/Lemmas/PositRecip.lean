/-
  UVerifProofs.Lemmas.PositRecip — `posit::reciprocal`: the power-of-two shortcut (two's complement of
  the magnitude) is exact; otherwise the reciprocal truncated at 2·fbits+3 bits rounds like the exact one.
-/
import UVerifProofs.Lemmas.PositDiv

namespace UVerif.Posit

theorem lo_neg (k : ℤ) : lo k + lo (-k) = 1 := by
  unfold lo
  rcases lt_trichotomy k 0 with h | h | h
  · rw [if_neg (by omega), if_pos (by omega)]
    have : -(-k + 1) = k - 1 := by ring
    rw [this]; ring
  · subst h; norm_num
  · rw [if_pos (by omega), if_neg (by omega)]
    have : -(k + 1) = -k - 1 := by ring
    rw [this]; ring

theorem step_neg (k : ℤ) : step (-k - 1) = step k := by
  unfold step
  by_cases h : 0 ≤ k
  · rw [if_pos h, if_neg (by omega)]; congr 1; ring
  · rw [if_neg h, if_pos (by omega)]; congr 1; ring

/-- two's complement of the magnitude of a power of two is the magnitude of its reciprocal -/
theorem encS_recip (n es : ℕ) (s : ℤ) :
    encS n es s 0 + encS n es (-s) 0 = 2 ^ (n - 1) := by
  unfold encS Benc
  rw [← mul_add]
  have hP : (0 : ℤ) < ((2 ^ es : ℕ) : ℤ) := by positivity
  have hp : (0 : ℚ) < 2 ^ es := by positivity
  suffices h : enc0 es (kOf es s) ((eOf es s : ℚ) + 0) + enc0 es (kOf es (-s)) ((eOf es (-s) : ℚ) + 0) = 1 by
    rw [h, mul_one]
  rw [add_zero, add_zero, enc0_eq, enc0_eq]
  have hks := kOf_eOf es s
  have he0 := eOf_nonneg es s
  have he1 := eOf_lt es s
  by_cases hz : eOf es s = 0
  · -- exponent field zero: -s = (-k)·2^es
    have hk : kOf es (-s) = -kOf es s ∧ eOf es (-s) = 0 := by
      have : -s = (-kOf es s) * ((2 ^ es : ℕ) : ℤ) + ((0 : ℕ) : ℤ) := by
        rw [hz] at hks; push_cast at hks ⊢; linarith
      rw [this]; exact kOf_eq es (-kOf es s) 0 (by positivity)
    rw [hk.1, hk.2, hz]
    have := lo_neg (kOf es s)
    simp only [Int.cast_zero, zero_div, mul_zero, add_zero]
    linarith
  · -- -s = (-k-1)·2^es + (2^es - e)
    obtain ⟨e, he⟩ : ∃ e : ℕ, eOf es s = (e : ℤ) := ⟨(eOf es s).toNat, by omega⟩
    have helt : e < 2 ^ es := by
      have : (e : ℤ) < ((2 ^ es : ℕ) : ℤ) := by rw [← he]; exact he1
      exact_mod_cast this
    have hepos : 0 < e := by
      rcases Nat.eq_zero_or_pos e with h | h
      · exfalso; apply hz; rw [he, h]; rfl
      · exact h
    have hk : kOf es (-s) = -kOf es s - 1 ∧ eOf es (-s) = ((2 ^ es - e : ℕ) : ℤ) := by
      have : -s = (-kOf es s - 1) * ((2 ^ es : ℕ) : ℤ) + ((2 ^ es - e : ℕ) : ℤ) := by
        rw [he] at hks; rw [Nat.cast_sub (le_of_lt helt)]; push_cast at hks ⊢; linarith
      rw [this]; exact kOf_eq es (-kOf es s - 1) (2 ^ es - e) (by omega)
    rw [hk.1, hk.2, he, step_neg]
    have h1 := lo_neg (kOf es s)
    have h2 := lo_succ (-kOf es s - 1)
    rw [show -kOf es s - 1 + 1 = -kOf es s by ring, step_neg] at h2
    have hc : (((2 ^ es - e : ℕ) : ℤ) : ℚ) = 2 ^ es - (e : ℚ) := by
      push_cast [Nat.cast_sub (le_of_lt helt)]; ring
    rw [hc]
    have hdiv : ((2 : ℚ) ^ es - (e : ℚ)) / 2 ^ es = 1 - (e : ℚ) / 2 ^ es := by field_simp
    rw [hdiv]
    push_cast
    linarith

theorem recip_pow2 (n es y : ℕ) (hn : 2 ≤ n) (hy0 : 0 < y) (hy : y < 2 ^ (n - 1)) (s : ℤ)
    (hv : posVal n es y = valS s 0) :
    posVal n es (2 ^ (n - 1) - y) = valS (-s) 0 := by
  have hye := (posVal_eq_valS_iff n es y hn hy0 hy (le_refl 0) (by norm_num)).mp hv
  rw [posVal_eq_valS_iff n es _ hn (by omega) (by omega) (le_refl 0) (by norm_num)]
  have := encS_recip n es s
  rw [← hye] at this
  push_cast [Nat.cast_sub (le_of_lt hy)]
  linarith


/-- components of `decode` on a non-special encoding, in terms of the Standard's fields of the magnitude -/
theorem decode_parts (N es a : ℕ) (ha : a < 2 ^ (N + 2)) (h0 : a ≠ 0) (hnar : a ≠ 2 ^ (N + 1)) :
    ∃ y, 0 < y ∧ y < 2 ^ (N + 1) ∧ y = (if 2 ^ (N + 1) ≤ a then 2 ^ (N + 2) - a else a) ∧
      a.testBit (N + 1) = decide (2 ^ (N + 1) ≤ a) ∧
      decode (N + 2) es a =
        { sign := decide (2 ^ (N + 1) ≤ a), scale := (fields (N + 2) es y).scale es,
          frac := (fields (N + 2) es y).f <<< (fbitsOf (N + 2) es - (fields (N + 2) es y).nf),
          fb := fbitsOf (N + 2) es } ∧
      (fields (N + 2) es y).nf ≤ fbitsOf (N + 2) es ∧
      (fields (N + 2) es y).f < 2 ^ (fields (N + 2) es y).nf ∧
      posVal (N + 2) es y = valS ((fields (N + 2) es y).scale es)
        (((fields (N + 2) es y).f : ℚ) / 2 ^ (fields (N + 2) es y).nf) := by
  have hp : 2 ^ (N + 2) = 2 * 2 ^ (N + 1) := by rw [pow_succ]; ring
  have hpos : 0 < 2 ^ (N + 1) := by positivity
  have htb := testBit_top N a ha
  have hyv : (if a.testBit (N + 1) then twosComp (N + 2) a else a) =
      if 2 ^ (N + 1) ≤ a then 2 ^ (N + 2) - a else a := by
    rw [htb]; unfold twosComp
    by_cases h : 2 ^ (N + 1) ≤ a
    · simp only [h, decide_true, if_true]
      rw [Nat.mod_eq_of_lt ha, Nat.mod_eq_of_lt (by omega)]
    · simp only [h, decide_false, Bool.false_eq_true, if_false]
  have hy0 : 0 < (if a.testBit (N + 1) then twosComp (N + 2) a else a) := by
    rw [hyv]; split <;> omega
  have hy : (if a.testBit (N + 1) then twosComp (N + 2) a else a) < 2 ^ (N + 1) := by
    rw [hyv]; split <;> omega
  obtain ⟨hex, hnf⟩ := extract_spec N es a hy0 hy
  obtain ⟨_, f2, _, _, _⟩ := fields_spec N es _ hy0 hy
  have hdec : decode (N + 2) es a = extractFields (N + 2) es a := by
    unfold decode
    simp only [Nat.mod_eq_of_lt ha, show N + 2 - 1 = N + 1 from rfl, if_neg h0, if_neg hnar]
  refine ⟨_, hy0, hy, hyv, htb, ?_, hnf, f2, ?_⟩
  · rw [hdec, hex, htb]
  · unfold posVal valS; simp only []; rw [pow2_eq_zpow]; push_cast; ring


theorem log2_eq_of_bounds (x h : ℕ) (h1 : 2 ^ h ≤ x) (h2 : x < 2 ^ (h + 1)) : x.log2 = h := by
  have hx : 0 < x := lt_of_lt_of_le (Nat.two_pow_pos _) h1
  obtain ⟨l1, l2⟩ := log2_bounds x hx
  have a : h < x.log2 + 1 := (Nat.pow_lt_pow_iff_right (by norm_num : 1 < 2)).mp (lt_of_le_of_lt h1 l2)
  have b : x.log2 < h + 1 := (Nat.pow_lt_pow_iff_right (by norm_num : 1 < 2)).mp (lt_of_le_of_lt l1 h2)
  omega

/-- integer part of the reciprocal computation -/
theorem recip_int (fb fr : ℕ) (hfr0 : 0 < fr) (hfr : fr < 2 ^ fb) :
    2 ^ (2 * fb + 2) ≤ 2 ^ fb * 2 ^ (2 * fb + 3) / (2 ^ fb + fr) ∧
    2 ^ fb * 2 ^ (2 * fb + 3) / (2 ^ fb + fr) < 2 ^ (2 * fb + 3) ∧
    ((2 ^ fb * 2 ^ (2 * fb + 3) / (2 ^ fb + fr)) <<< fb) % 2 ^ (3 * fb + 4)
      = 2 ^ fb * 2 ^ (2 * fb + 3) / (2 ^ fb + fr) * 2 ^ fb ∧
    (2 ^ fb * 2 ^ (2 * fb + 3) / (2 ^ fb + fr) * 2 ^ fb).log2 = 3 * fb + 2 := by
  have hxa : 0 < 2 ^ fb + fr := by positivity
  set q := 2 ^ fb * 2 ^ (2 * fb + 3) / (2 ^ fb + fr) with hq
  have hqlo : 2 ^ (2 * fb + 2) ≤ q := by
    rw [hq, Nat.le_div_iff_mul_le hxa]
    calc 2 ^ (2 * fb + 2) * (2 ^ fb + fr) ≤ 2 ^ (2 * fb + 2) * (2 * 2 ^ fb) :=
          Nat.mul_le_mul_left _ (by omega)
      _ = 2 ^ fb * 2 ^ (2 * fb + 3) := by rw [pow_succ 2 (2 * fb + 2)]; ring
  have hqhi : q < 2 ^ (2 * fb + 3) := by
    rw [hq, Nat.div_lt_iff_lt_mul hxa]
    calc 2 ^ fb * 2 ^ (2 * fb + 3) < (2 ^ fb + fr) * 2 ^ (2 * fb + 3) :=
          Nat.mul_lt_mul_of_pos_right (by omega) (Nat.two_pow_pos _)
      _ = 2 ^ (2 * fb + 3) * (2 ^ fb + fr) := by ring
  have e1 : 2 ^ (3 * fb + 2) = 2 ^ (2 * fb + 2) * 2 ^ fb := by rw [← pow_add]; congr 1; ring
  have e2 : 2 ^ (3 * fb + 3) = 2 ^ (2 * fb + 3) * 2 ^ fb := by rw [← pow_add]; congr 1; ring
  have hlo : 2 ^ (3 * fb + 2) ≤ q * 2 ^ fb := by rw [e1]; exact Nat.mul_le_mul_right _ hqlo
  have hhi : q * 2 ^ fb < 2 ^ (3 * fb + 3) := by
    rw [e2]; exact Nat.mul_lt_mul_of_pos_right hqhi (Nat.two_pow_pos _)
  refine ⟨hqlo, hqhi, ?_, log2_eq_of_bounds _ _ hlo hhi⟩
  rw [Nat.shiftLeft_eq, Nat.mod_eq_of_lt]
  calc q * 2 ^ fb < 2 ^ (3 * fb + 3) := hhi
    _ ≤ 2 ^ (3 * fb + 4) := Nat.pow_le_pow_right (by norm_num) (by omega)


theorem positVal_pos_enc (N es y : ℕ) (hy0 : 0 < y) (hy : y < 2 ^ (N + 1)) :
    positVal (N + 2) es y = some (posVal (N + 2) es y) := by
  have hp : 2 ^ (N + 2) = 2 * 2 ^ (N + 1) := by rw [pow_succ]; ring
  unfold positVal
  simp only [Nat.mod_eq_of_lt (show y < 2 ^ (N + 2) by omega), show N + 2 - 1 = N + 1 from rfl]
  rw [if_neg (by omega), if_neg (by omega), if_pos hy]

theorem positVal_neg_enc (N es y : ℕ) (hy0 : 0 < y) (hy : y < 2 ^ (N + 1)) :
    positVal (N + 2) es (2 ^ (N + 2) - y) = some (-(posVal (N + 2) es y)) := by
  have hp : 2 ^ (N + 2) = 2 * 2 ^ (N + 1) := by rw [pow_succ]; ring
  unfold positVal
  simp only [Nat.mod_eq_of_lt (show 2 ^ (N + 2) - y < 2 ^ (N + 2) by omega), show N + 2 - 1 = N + 1 from rfl]
  rw [if_neg (by omega), if_neg (by omega), if_neg (by omega)]
  rw [show 2 ^ (N + 2) - (2 ^ (N + 2) - y) = y by omega]

theorem or_two_pow (t k : ℕ) (h : t < 2 ^ k) : t ||| 2 ^ k = 2 ^ k + t := by
  have := Nat.shiftLeft_add_eq_or_of_lt h 1
  rw [Nat.shiftLeft_eq, Nat.one_mul] at this
  rw [Nat.or_comm, ← this]

/-- `reciprocal` is the correctly rounded 1/x (exact for powers of two) -/
theorem reciprocal_correct (N es a : ℕ) (ha : a < 2 ^ (N + 2)) (h0 : a ≠ 0) (hnar : a ≠ 2 ^ (N + 1)) :
    ∃ x, positVal (N + 2) es a = some x ∧ x ≠ 0 ∧
      nearestB (N + 2) es (1 / x) (reciprocal (N + 2) es a) = true := by
  have hn : 2 ≤ N + 2 := by omega
  have hp : 2 ^ (N + 2) = 2 * 2 ^ (N + 1) := by rw [pow_succ]; ring
  have hpos : 0 < 2 ^ (N + 1) := by positivity
  obtain ⟨y, hy0, hy, hyv, htb, hdec, hnf, hflt, hpv⟩ := decode_parts N es a ha h0 hnar
  have hia : isNaR (N + 2) a = false := by
    rw [← Bool.not_eq_true, isNaR_iff (N + 2) a ha]; exact hnar
  -- the value
  set F := fields (N + 2) es y with hF
  set fb := fbitsOf (N + 2) es with hfb
  set σ := decide (2 ^ (N + 1) ≤ a) with hσ
  have hx : positVal (N + 2) es a = some (sgn σ * posVal (N + 2) es y) := by
    by_cases h : 2 ^ (N + 1) ≤ a
    · have e : a = 2 ^ (N + 2) - y := by rw [hyv, if_pos h]; omega
      have hs : σ = true := by rw [hσ]; simp [h]
      rw [hs]; conv_lhs => rw [e]
      rw [positVal_neg_enc N es y hy0 hy]; unfold sgn; simp
    · have e : a = y := by rw [hyv, if_neg h]
      have hs : σ = false := by rw [hσ]; simp [h]
      rw [hs]; conv_lhs => rw [e]
      rw [positVal_pos_enc N es y hy0 hy]; unfold sgn; simp
  have hvpos := posVal_pos (N + 2) es y hn hy0 hy
  have hsg := sgn_ne_zero σ
  refine ⟨_, hx, mul_ne_zero hsg (ne_of_gt hvpos), ?_⟩
  unfold reciprocal
  simp only [Nat.mod_eq_of_lt ha, hia, Bool.false_eq_true, if_false, if_neg h0,
    show N + 2 - 1 = N + 1 from rfl, htb, hdec]
  by_cases hfz : F.f <<< (fb - F.nf) = 0
  · -- power of two
    rw [if_pos hfz]
    have hf0 : F.f = 0 := by
      rw [Nat.shiftLeft_eq] at hfz
      rcases Nat.mul_eq_zero.mp hfz with h | h
      · exact h
      · exact absurd h (by positivity)
    have hpv0 : posVal (N + 2) es y = valS (F.scale es) 0 := by rw [hpv, hf0]; simp
    have hrec := recip_pow2 (N + 2) es y hn hy0 hy (F.scale es) hpv0
    simp only [show N + 2 - 1 = N + 1 from rfl] at hrec
    have hinv : (1 : ℚ) / (sgn σ * posVal (N + 2) es y)
        = sgn σ * posVal (N + 2) es (2 ^ (N + 1) - y) := by
      rw [hrec, hpv0]; unfold valS
      rw [zpow_neg]
      have := two_zpow_pos (F.scale es)
      unfold sgn; cases σ <;> simp
    rw [hinv]
    have htc : twosComp (N + 2) a = 2 ^ (N + 2) - a := by
      unfold twosComp
      have e0 : a % 2 ^ (N + 2) = a := Nat.mod_eq_of_lt ha
      rw [e0, Nat.mod_eq_of_lt (by omega)]
    rw [htc]
    by_cases h : 2 ^ (N + 1) ≤ a
    · have hs : σ = true := by rw [hσ]; simp [h]
      have e : y = 2 ^ (N + 2) - a := by rw [hyv, if_pos h]
      rw [hs]; simp only [if_true]
      rw [or_two_pow _ _ (by omega)]
      have e2 : 2 ^ (N + 1) + (2 ^ (N + 2) - a) = 2 ^ (N + 2) - (2 ^ (N + 1) - y) := by omega
      rw [e2]
      apply nearestB_self (N + 2) es _ hn (by omega)
      rw [positVal_neg_enc N es _ (by omega) (by omega)]
      unfold sgn; simp
    · have hs : σ = false := by rw [hσ]; simp [h]
      have e : y = a := by rw [hyv, if_neg h]
      rw [hs]; simp only [Bool.false_eq_true, if_false]
      have e2 : (2 ^ (N + 2) - a) % 2 ^ (N + 1) = 2 ^ (N + 1) - y := by
        have : 2 ^ (N + 2) - a = (2 ^ (N + 1) - a) + 2 ^ (N + 1) := by omega
        rw [this, Nat.add_mod_right, Nat.mod_eq_of_lt (by omega), e]
      rw [e2]
      apply nearestB_self (N + 2) es _ hn (by omega)
      rw [positVal_pos_enc N es _ (by omega) (by omega)]
      unfold sgn; simp
  · rw [if_neg hfz]
    have hfrlt : F.f <<< (fb - F.nf) < 2 ^ fb := by
      obtain ⟨d, hd⟩ : ∃ d, fb = F.nf + d := ⟨fb - F.nf, by omega⟩
      rw [hd, Nat.add_sub_cancel_left, Nat.shiftLeft_eq, pow_add]
      exact Nat.mul_lt_mul_of_pos_right hflt (Nat.two_pow_pos _)
    have hvq : posVal (N + 2) es y
        = valS (F.scale es) (((F.f <<< (fb - F.nf) : ℕ) : ℚ) / 2 ^ fb) := by
      rw [hpv]
      obtain ⟨d, hd⟩ : ∃ d, fb = F.nf + d := ⟨fb - F.nf, by omega⟩
      rw [hd, Nat.add_sub_cancel_left, Nat.shiftLeft_eq, pow_add]
      push_cast
      congr 1
      field_simp
    rw [hvq]
    generalize F.f <<< (fb - F.nf) = fr at *
    generalize F.scale es = s at *
    simp only [← hfb]
    have hfr0 : 0 < fr := Nat.pos_of_ne_zero hfz
    obtain ⟨hqlo, hqhi, hrc, hlog⟩ := recip_int fb fr hfr0 hfrlt
    simp only [show fb + 1 - 1 = fb by omega, show 3 * fb + 4 - (fb + 1) = 2 * fb + 3 by omega, hrc, hlog]
    set q := 2 ^ fb * 2 ^ (2 * fb + 3) / (2 ^ fb + fr) with hq
    have hq0 : 0 < q := lt_of_lt_of_le (Nat.two_pow_pos _) hqlo
    have hcond : q * 2 ^ fb ≠ 0 ∧ 3 * fb + 2 > 0 := ⟨by positivity, by omega⟩
    rw [if_pos hcond]
    simp only [show 3 * fb + 4 - (3 * fb + 2) = 2 by omega]
    -- the rounded triple
    have e1 : 2 ^ (3 * fb + 2) = 2 ^ (2 * fb + 2) * 2 ^ fb := by rw [← pow_add]; congr 1; ring
    have e2 : 2 ^ (3 * fb + 2 + 1) = 2 ^ (2 * fb + 3) * 2 ^ fb := by rw [← pow_add]; congr 1; ring
    have hlo : 2 ^ (3 * fb + 2) ≤ q * 2 ^ fb := by rw [e1]; exact Nat.mul_le_mul_right _ hqlo
    have hhi : q * 2 ^ fb < 2 ^ (3 * fb + 2 + 1) := by
      rw [e2]; exact Nat.mul_lt_mul_of_pos_right hqhi (Nat.two_pow_pos _)
    have hfrac : ((q * 2 ^ fb) <<< 2) % 2 ^ (3 * fb + 4) = q * 2 ^ fb * 2 ^ 2 - 2 ^ (3 * fb + 4) := by
      rw [Nat.shiftLeft_eq]
      have h4 : 2 ^ (3 * fb + 4) = 2 ^ (3 * fb + 2) * 4 := by
        rw [show 3 * fb + 4 = 3 * fb + 2 + 2 by ring, pow_add (2 : ℕ) (3 * fb + 2) 2]; norm_num
      have h3 : 2 ^ (3 * fb + 2 + 1) = 2 ^ (3 * fb + 2) * 2 := by rw [pow_succ]
      have e3 : q * 2 ^ fb * 2 ^ 2 = (q * 2 ^ fb * 2 ^ 2 - 2 ^ (3 * fb + 4)) + 2 ^ (3 * fb + 4) := by omega
      rw [e3, Nat.add_mod_right, Nat.mod_eq_of_lt (by omega)]
      omega
    rw [hfrac]
    obtain ⟨nfin, nval⟩ := norm_value_gen (3 * fb + 4) (-s - (((2 : ℕ) : ℤ) - 1)) (q * 2 ^ fb)
      (3 * fb + 2) 2 σ (by ring) hlo hhi
    have hcc := convert_correct (N + 2) es hn σ (-s - (((2 : ℕ) : ℤ) - 1)) (3 * fb + 4)
      (q * 2 ^ fb * 2 ^ 2 - 2 ^ (3 * fb + 4)) nfin.lt
    rw [toRat_eq_tripleVal _ rfl] at nval
    have nval' : tripleVal σ (-s - (((2 : ℕ) : ℤ) - 1)) (3 * fb + 4) (q * 2 ^ fb * 2 ^ 2 - 2 ^ (3 * fb + 4))
        = sgn σ * ((q : ℚ) * 2 ^ (-s - ((2 * fb + 3 : ℕ) : ℤ))) := by
      rw [show tripleVal σ (-s - (((2 : ℕ) : ℤ) - 1)) (3 * fb + 4) (q * 2 ^ fb * 2 ^ 2 - 2 ^ (3 * fb + 4)) = _ from nval]
      congr 1
      push_cast
      rw [mul_assoc, ← zpow_natCast, ← zpow_add₀ (by norm_num)]
      congr 2
      ring
    rw [nval'] at hcc
    -- the exact reciprocal in the same unit
    have hxaq : (0 : ℚ) < ((2 ^ fb + fr : ℕ) : ℚ) := by
      have : 0 < 2 ^ fb + fr := by positivity
      exact_mod_cast this
    have hE : (1 : ℚ) / (sgn σ * valS s ((fr : ℚ) / 2 ^ fb))
        = sgn σ * ((((2 ^ fb * 2 ^ (2 * fb + 3) : ℕ) : ℚ) / ((2 ^ fb + fr : ℕ) : ℚ)) *
            2 ^ (-s - ((2 * fb + 3 : ℕ) : ℤ))) := by
      unfold valS
      have hp : (0 : ℚ) < 2 ^ fb := by positivity
      have hz := two_zpow_pos s
      rw [show -s - ((2 * fb + 3 : ℕ) : ℤ) = -s + (-((2 * fb + 3 : ℕ) : ℤ)) by ring,
        zpow_add₀ (by norm_num), zpow_neg, zpow_neg, zpow_natCast]
      push_cast at hxaq ⊢
      unfold sgn; cases σ <;> simp <;> field_simp
    rw [hE]
    have hcuts := trunc_sameCuts (N + 2) es hn (fb + 1) (2 ^ fb * 2 ^ (2 * fb + 3)) (2 ^ fb + fr)
      (by positivity) (by rw [pow_succ]; omega)
      (by rw [← pow_add]; exact pow_dvd_pow 2 (by omega))
      (by rw [← hfb, show fb + 1 + (fb + 1) = 2 * fb + 2 by ring]; exact hqlo)
      (-s - ((2 * fb + 3 : ℕ) : ℤ))
    have hg := two_zpow_pos (-s - ((2 * fb + 3 : ℕ) : ℤ))
    have hq0q : (0 : ℚ) < (q : ℚ) := by exact_mod_cast hq0
    have hnum : (0 : ℚ) < ((2 ^ fb * 2 ^ (2 * fb + 3) : ℕ) : ℚ) := by
      have : 0 < 2 ^ fb * 2 ^ (2 * fb + 3) := by positivity
      exact_mod_cast this
    rw [nearestB_transfer (N + 2) es hn σ _ _ (by positivity) (by positivity) hcuts]
    exact hcc

end UVerif.Posit
