/-
  UVerifProofs.Lemmas.PositRound — the Standard's rounding relation `nearestMagB` expressed on the
  unbounded encoding: it is round-to-nearest-even of `Benc` at the integer position, clamped to
  [1, maxpos]. Consequences: uniqueness of the rounding result; `rne` of the encoding is the answer.
-/
import UVerifProofs.Lemmas.PositOrder
import Mathlib.Data.Rat.Floor
import Mathlib.Algebra.Order.Floor.Ring

namespace UVerif.Posit

/-- `R` is a round-to-nearest, ties-to-even integer of `B` -/
def IsRne (B : ℚ) (R : ℕ) : Prop :=
  ((R : ℚ) - 1 / 2 < B ∧ B < (R : ℚ) + 1 / 2) ∨ ((B = (R : ℚ) + 1 / 2 ∨ B = (R : ℚ) - 1 / 2) ∧ R % 2 = 0)

/-- the Standard's rounding rule on unbounded encodings: clamp to [1, maxpos], else RNE -/
def RneClamp (n : ℕ) (B : ℚ) (R : ℕ) : Prop :=
  1 ≤ R ∧ R ≤ maxposEnc n ∧ ((maxposEnc n : ℚ) ≤ B → R = maxposEnc n) ∧ (B ≤ 1 → R = 1) ∧
  (1 < B → B < (maxposEnc n : ℚ) → IsRne B R)

theorem nearestMagB_iff (n es R : ℕ) (hn : 2 ≤ n) {s : ℤ} {f : ℚ} (hf : 0 ≤ f) (hf1 : f < 1) :
    nearestMagB n es (valS s f) R = true ↔ RneClamp n (encS n es s f) R := by
  have hp := two_pow_pred n (by omega)
  have h3 : 2 ≤ 2 ^ (n - 1) := by
    calc 2 = 2 ^ 1 := rfl
      _ ≤ 2 ^ (n - 1) := Nat.pow_le_pow_right (by norm_num) (by omega)
  have hmx : maxposEnc n < 2 ^ (n - 1) := by unfold maxposEnc; omega
  have hmx0 : 0 < maxposEnc n := by unfold maxposEnc; omega
  have hmxe : maxposEnc n + 1 = 2 ^ (n - 1) := by unfold maxposEnc; omega
  have T1 : ∀ y, 0 < y → y < 2 ^ (n - 1) → (valS s f < posVal n es y ↔ encS n es s f < (y : ℚ)) :=
    fun y a b => valS_lt_posVal_iff n es y hn a b hf hf1
  have T2 : ∀ y, 0 < y → y < 2 ^ (n - 1) → (posVal n es y < valS s f ↔ (y : ℚ) < encS n es s f) :=
    fun y a b => posVal_lt_valS_iff n es y hn a b hf hf1
  have T3 : ∀ y, 0 < y → y < 2 ^ (n - 1) → (posVal n es y = valS s f ↔ (y : ℚ) = encS n es s f) :=
    fun y a b => posVal_eq_valS_iff n es y hn a b hf hf1
  have M1 : ∀ y, y < 2 ^ (n - 1) →
      (valS s f < posVal (n + 1) es (2 * y + 1) ↔ encS n es s f < (y : ℚ) + 1 / 2) :=
    fun y a => valS_lt_mid_iff n es y hn (by omega) hf hf1
  have M2 : ∀ y, y < 2 ^ (n - 1) →
      (valS s f = posVal (n + 1) es (2 * y + 1) ↔ encS n es s f = (y : ℚ) + 1 / 2) :=
    fun y a => valS_eq_mid_iff n es y hn (by omega) hf hf1
  generalize encS n es s f = B at *
  generalize valS s f = X at *
  unfold nearestMagB RneClamp
  simp only []
  by_cases hR : R = 0 ∨ R > maxposEnc n
  · rw [if_pos hR]
    simp only [Bool.false_eq_true, false_iff]
    rintro ⟨a, b, _⟩; omega
  rw [if_neg hR]
  have hR1 : 1 ≤ R := by omega
  have hR2 : R ≤ maxposEnc n := by omega
  have hRq : (1 : ℚ) ≤ (R : ℚ) := by exact_mod_cast hR1
  have hRq2 : (R : ℚ) ≤ (maxposEnc n : ℚ) := by exact_mod_cast hR2
  by_cases h1 : X ≥ posVal n es (maxposEnc n)
  · rw [if_pos h1]
    have h1' : (maxposEnc n : ℚ) ≤ B := by
      rw [ge_iff_le, ← not_lt, T1 _ hmx0 hmx, not_lt] at h1; exact h1
    simp only [beq_iff_eq]
    constructor
    · intro h
      refine ⟨hR1, hR2, fun _ => h, fun hb => ?_, fun _ hb => absurd hb (not_lt.mpr h1')⟩
      have : (maxposEnc n : ℚ) ≤ 1 := le_trans h1' hb
      have : maxposEnc n ≤ 1 := by exact_mod_cast this
      omega
    · intro h; exact h.2.2.1 h1'
  rw [if_neg h1]
  have h1' : B < (maxposEnc n : ℚ) := by
    rw [ge_iff_le, ← not_lt, T1 _ hmx0 hmx, not_lt, not_le] at h1; exact h1
  by_cases h2 : X ≤ posVal n es 1
  · rw [if_pos h2]
    have h2' : B ≤ 1 := by
      rw [← not_lt, T2 1 (by omega) (by omega), not_lt] at h2; exact_mod_cast h2
    simp only [beq_iff_eq]
    constructor
    · intro h
      refine ⟨hR1, hR2, fun hb => absurd hb (not_le.mpr h1'), fun _ => h,
        fun hb _ => absurd hb (not_lt.mpr h2')⟩
    · intro h; exact h.2.2.2.1 h2'
  rw [if_neg h2]
  have h2' : 1 < B := by
    rw [← not_lt, T2 1 (by omega) (by omega), not_lt, not_le] at h2; exact_mod_cast h2
  have hRv : R < 2 ^ (n - 1) := by omega
  have hrhs : (1 ≤ R ∧ R ≤ maxposEnc n ∧ ((maxposEnc n : ℚ) ≤ B → R = maxposEnc n) ∧ (B ≤ 1 → R = 1) ∧
      (1 < B → B < (maxposEnc n : ℚ) → IsRne B R)) ↔ IsRne B R :=
    ⟨fun h => h.2.2.2.2 h2' h1', fun h => ⟨hR1, hR2, fun hb => absurd hb (not_le.mpr h1'),
      fun hb => absurd hb (not_le.mpr h2'), fun _ _ => h⟩⟩
  rw [hrhs]
  unfold IsRne
  by_cases h3 : posVal n es R = X
  · rw [if_pos h3]
    have : (R : ℚ) = B := (T3 R hR1 hRv).mp h3
    simp only [true_iff]
    left; constructor <;> linarith
  rw [if_neg h3]
  have h3' : (R : ℚ) ≠ B := fun h => h3 ((T3 R hR1 hRv).mpr h)
  by_cases h4 : posVal n es R < X
  · rw [if_pos h4]
    have h4' : (R : ℚ) < B := (T2 R hR1 hRv).mp h4
    have hRlt : R < maxposEnc n := by
      have : (R : ℚ) < (maxposEnc n : ℚ) := lt_trans h4' h1'
      exact_mod_cast this
    simp only [Bool.and_eq_true, Bool.or_eq_true, decide_eq_true_eq, beq_iff_eq]
    rw [T1 (R + 1) (by omega) (by omega), M1 R hRv, M2 R hRv]
    push_cast
    constructor
    · rintro ⟨⟨_, hb⟩, hc⟩
      rcases hc with hc | ⟨hc, he⟩
      · left; constructor <;> linarith
      · right; exact ⟨Or.inl hc, he⟩
    · rintro (⟨ha, hb⟩ | ⟨hc | hc, he⟩)
      · exact ⟨⟨hRlt, by linarith⟩, Or.inl hb⟩
      · exact ⟨⟨hRlt, by linarith⟩, Or.inr ⟨hc, he⟩⟩
      · exfalso; linarith
  rw [if_neg h4]
  have h4' : B < (R : ℚ) := by
    rcases lt_trichotomy B (R : ℚ) with h | h | h
    · exact h
    · exact absurd h.symm h3'
    · exact absurd ((T2 R hR1 hRv).mpr h) h4
  have hRgt : 1 < R := by
    have : (1 : ℚ) < (R : ℚ) := lt_trans h2' h4'
    exact_mod_cast this
  simp only [Bool.and_eq_true, decide_eq_true_eq, Bool.not_eq_true',
    Bool.or_eq_false_iff, Bool.and_eq_false_iff, decide_eq_false_iff_not, beq_eq_false_iff_ne, ne_eq]
  have hU : ((R - 1 : ℕ) : ℚ) = (R : ℚ) - 1 := by push_cast [Nat.cast_sub hR1]; ring
  rw [T2 (R - 1) (by omega) (by omega), M1 (R - 1) (by omega), M2 (R - 1) (by omega), hU]
  have hpar : (R - 1) % 2 = 0 ↔ ¬ R % 2 = 0 := by omega
  constructor
  · rintro ⟨⟨_, hb⟩, hc, hd⟩
    rcases lt_or_eq_of_le (not_lt.mp hc) with hc' | hc'
    · left; constructor <;> linarith
    · right
      refine ⟨Or.inr (by linarith), ?_⟩
      rcases hd with hd | hd
      · exact absurd (by linarith) hd
      · by_contra hne
        exact absurd (hpar.mpr hne) hd
  · rintro (⟨ha, hb⟩ | ⟨hc | hc, he⟩)
    · refine ⟨⟨hRgt, by linarith⟩, by intro h; linarith, Or.inl (by intro h; linarith)⟩
    · exfalso; linarith
    · refine ⟨⟨hRgt, by linarith⟩, by intro h; linarith, Or.inr ?_⟩
      exact fun h => (hpar.mp h) he

/-! ### round-to-nearest-even on bit strings -/

theorem isRne_rneShr (x j : ℕ) : IsRne ((x : ℚ) / 2 ^ j) (rneShr x j) := by
  unfold rneShr IsRne
  simp only [Nat.shiftRight_eq_div_pow]
  have hp : (0 : ℚ) < 2 ^ j := by positivity
  have hdm := Nat.div_add_mod x (2 ^ j)
  have hx : (x : ℚ) / 2 ^ j = ((x / 2 ^ j : ℕ) : ℚ) + ((x % 2 ^ j : ℕ) : ℚ) / 2 ^ j := by
    have : (x : ℚ) = 2 ^ j * ((x / 2 ^ j : ℕ) : ℚ) + ((x % 2 ^ j : ℕ) : ℚ) := by exact_mod_cast hdm.symm
    conv_lhs => rw [this]
    field_simp
  rw [hx]
  generalize x / 2 ^ j = q
  generalize hr : x % 2 ^ j = r
  have hrlt : r < 2 ^ j := by rw [← hr]; exact Nat.mod_lt _ (by positivity)
  have hrq : ((r : ℕ) : ℚ) < 2 ^ j := by exact_mod_cast hrlt
  have h0 : (0 : ℚ) ≤ (r : ℚ) / 2 ^ j := by positivity
  have h1 : (r : ℚ) / 2 ^ j < 1 := by rw [div_lt_one hp]; exact hrq
  by_cases c1 : 2 * r < 2 ^ j
  · rw [if_pos c1]
    have : (r : ℚ) / 2 ^ j < 1 / 2 := by
      rw [div_lt_div_iff₀ hp (by norm_num)]
      have : ((2 * r : ℕ) : ℚ) < ((2 ^ j : ℕ) : ℚ) := by exact_mod_cast c1
      push_cast at this; linarith
    left; constructor <;> linarith
  · rw [if_neg c1]
    by_cases c2 : 2 * r > 2 ^ j
    · rw [if_pos c2]
      have : 1 / 2 < (r : ℚ) / 2 ^ j := by
        rw [div_lt_div_iff₀ (by norm_num) hp]
        have : ((2 ^ j : ℕ) : ℚ) < ((2 * r : ℕ) : ℚ) := by exact_mod_cast c2
        push_cast at this; linarith
      left; push_cast; constructor <;> linarith
    · rw [if_neg c2]
      have c3 : 2 * r = 2 ^ j := by omega
      have : (r : ℚ) / 2 ^ j = 1 / 2 := by
        rw [div_eq_div_iff (ne_of_gt hp) (by norm_num)]
        have : ((2 * r : ℕ) : ℚ) = ((2 ^ j : ℕ) : ℚ) := by exact_mod_cast c3
        push_cast at this; linarith
      rw [this]
      by_cases c4 : q % 2 = 0
      · rw [if_pos c4]; right; exact ⟨Or.inl rfl, c4⟩
      · rw [if_neg c4]; right
        refine ⟨Or.inr (by push_cast; ring), by omega⟩

theorem rneShr_bits (x j : ℕ) (hj : 1 ≤ j) :
    (x >>> j) + (if (x.testBit j && x.testBit (j - 1)) ||
        (x.testBit (j - 1) && decide (x % 2 ^ (j - 1) ≠ 0)) then 1 else 0) = rneShr x j := by
  unfold rneShr
  simp only [Nat.shiftRight_eq_div_pow, Nat.testBit_eq_decide_div_mod_eq]
  obtain ⟨i, rfl⟩ : ∃ i, j = i + 1 := ⟨j - 1, by omega⟩
  simp only [Nat.add_sub_cancel]
  have hpow : 2 ^ (i + 1) = 2 * 2 ^ i := by rw [pow_succ]; ring
  have hpi : 0 < 2 ^ i := by positivity
  rw [hpow]
  generalize 2 ^ i = H at *
  -- decompose x = q·2H + b·H + t
  obtain ⟨q, b, t, hb, ht, rfl⟩ : ∃ q b t, b < 2 ∧ t < H ∧ x = q * (2 * H) + b * H + t := by
    refine ⟨x / H / 2, x / H % 2, x % H, Nat.mod_lt _ (by norm_num), Nat.mod_lt _ hpi, ?_⟩
    have h1 := Nat.div_add_mod x H
    have h2 := Nat.div_add_mod (x / H) 2
    calc x = H * (x / H) + x % H := h1.symm
      _ = H * (2 * (x / H / 2) + x / H % 2) + x % H := by rw [h2]
      _ = _ := by ring
  have f1 : (q * (2 * H) + b * H + t) / (2 * H) = q ∧ (q * (2 * H) + b * H + t) % (2 * H) = b * H + t := by
    rw [Nat.div_mod_unique (by omega)]
    constructor
    · ring
    · rcases (show b = 0 ∨ b = 1 by omega) with rfl | rfl <;> omega
  have f2 : (q * (2 * H) + b * H + t) / H = 2 * q + b ∧ (q * (2 * H) + b * H + t) % H = t := by
    rw [Nat.div_mod_unique hpi]
    constructor
    · ring
    · exact ht
  rw [f1.1, f1.2, f2.1, f2.2]
  clear f1 f2
  rcases (show b = 0 ∨ b = 1 by omega) with rfl | rfl
  · have e1 : (2 * q + 0) % 2 = 0 := by omega
    simp only [e1]
    simp
    intro h; omega
  · have e1 : (2 * q + 1) % 2 = 1 := by omega
    simp only [e1, decide_true, Bool.and_true, Bool.true_and]
    have n1 : ¬ (2 * (1 * H + t) < 2 * H) := by omega
    rw [if_neg n1]
    by_cases c : t = 0
    · subst c
      have n2 : ¬ (2 * (1 * H + 0) > 2 * H) := by omega
      rw [if_neg n2]
      by_cases c4 : q % 2 = 0
      · simp [c4]
      · have : q % 2 = 1 := by omega
        simp [this]
    · have n2 : 2 * (1 * H + t) > 2 * H := by omega
      rw [if_pos n2]
      simp [c]

/-! ### uniqueness, sticky bit -/

theorem isRne_unique (B : ℚ) (R R' : ℕ) (h : IsRne B R) (h' : IsRne B R') : R = R' := by
  unfold IsRne at h h'
  have key : ∀ a b : ℕ, (a : ℚ) < (b : ℚ) + 1 → a ≤ b := by
    intro a b hab
    have : (a : ℚ) < ((b + 1 : ℕ) : ℚ) := by push_cast; exact hab
    have : a < b + 1 := by exact_mod_cast this
    omega
  have keq : ∀ a b : ℕ, (a : ℚ) = (b : ℚ) + 1 → a = b + 1 := by
    intro a b hab
    have : (a : ℚ) = ((b + 1 : ℕ) : ℚ) := by push_cast; exact hab
    exact_mod_cast this
  rcases h with ⟨h1, h2⟩ | ⟨h1 | h1, he⟩ <;> rcases h' with ⟨h1', h2'⟩ | ⟨h1' | h1', he'⟩
  · have := key R R' (by linarith); have := key R' R (by linarith); omega
  · have := key R R' (by linarith); have := key (R' + 1) R (by push_cast; linarith); omega
  · have := key R' R (by linarith); have := key (R + 1) R' (by push_cast; linarith); omega
  · have := key R' R (by linarith); have := key (R + 1) R' (by push_cast; linarith); omega
  · have : (R : ℚ) = R' := by linarith
    exact_mod_cast this
  · have := keq R' R (by linarith); omega
  · have := key R R' (by linarith); have := key (R' + 1) R (by push_cast; linarith); omega
  · have := keq R R' (by linarith); omega
  · have : (R : ℚ) = R' := by linarith
    exact_mod_cast this

/-- uniqueness of the Standard's rounding result -/
theorem rneClamp_unique (n : ℕ) (B : ℚ) (R R' : ℕ) (h : RneClamp n B R) (h' : RneClamp n B R') :
    R = R' := by
  obtain ⟨_, _, a3, a4, a5⟩ := h
  obtain ⟨_, _, b3, b4, b5⟩ := h'
  by_cases c1 : (maxposEnc n : ℚ) ≤ B
  · rw [a3 c1, b3 c1]
  · by_cases c2 : B ≤ 1
    · rw [a4 c2, b4 c2]
    · exact isRne_unique B R R' (a5 (not_le.mp c2) (not_le.mp c1)) (b5 (not_le.mp c2) (not_le.mp c1))

/-- `pt` is the sticky image of the real `P`: the even integer `P`, or the odd integer between the
    two even integers enclosing `P`. -/
def Sticky (P : ℚ) (pt : ℕ) : Prop :=
  ∃ A : ℕ, (P = 2 * (A : ℚ) ∧ pt = 2 * A) ∨ (2 * (A : ℚ) < P ∧ P < 2 * (A : ℚ) + 2 ∧ pt = 2 * A + 1)

theorem sticky_cmp {P : ℚ} {pt : ℕ} (h : Sticky P pt) (T : ℤ) :
    (P < 2 * (T : ℚ) ↔ (pt : ℚ) < 2 * (T : ℚ)) ∧ (P = 2 * (T : ℚ) ↔ (pt : ℚ) = 2 * (T : ℚ)) ∧
    (2 * (T : ℚ) < P ↔ 2 * (T : ℚ) < (pt : ℚ)) := by
  obtain ⟨A, ⟨h1, h2⟩ | ⟨h1, h2, h3⟩⟩ := h
  · have : (pt : ℚ) = P := by rw [h1, h2]; push_cast; ring
    rw [this]; exact ⟨Iff.rfl, Iff.rfl, Iff.rfl⟩
  · have hpt : (pt : ℚ) = 2 * (A : ℚ) + 1 := by rw [h3]; push_cast; ring
    rw [hpt]
    have c1 : ∀ x y : ℤ, (x : ℚ) < (y : ℚ) → (x : ℚ) + 1 ≤ (y : ℚ) := by
      intro x y hxy; have : x < y := by exact_mod_cast hxy
      have : x + 1 ≤ y := by omega
      exact_mod_cast this
    refine ⟨⟨fun h => ?_, fun h => ?_⟩, ⟨fun h => ?_, fun h => ?_⟩, ⟨fun h => ?_, fun h => ?_⟩⟩
    · have := c1 (A : ℤ) T (by push_cast; linarith)
      push_cast at this; linarith
    · have := c1 (A : ℤ) T (by push_cast; linarith)
      push_cast at this; linarith
    · exfalso
      have := c1 (A : ℤ) T (by push_cast; linarith)
      push_cast at this; linarith
    · exfalso
      have : ((2 * (A : ℤ) + 1 : ℤ) : ℚ) = ((2 * T : ℤ) : ℚ) := by push_cast; exact h
      have : 2 * (A : ℤ) + 1 = 2 * T := by exact_mod_cast this
      omega
    · have := c1 T ((A : ℤ) + 1) (by push_cast; linarith)
      push_cast at this; linarith
    · have := c1 T ((A : ℤ) + 1) (by push_cast; linarith)
      push_cast at this; linarith

/-- rounding the sticky image at any position ≥ 2 is rounding the real itself -/
theorem isRne_sticky {P : ℚ} {pt : ℕ} (h : Sticky P pt) (j : ℕ) (hj : 2 ≤ j) (R : ℕ) :
    IsRne ((pt : ℚ) / 2 ^ j) R ↔ IsRne (P / 2 ^ j) R := by
  obtain ⟨i, rfl⟩ : ∃ i, j = i + 2 := ⟨j - 2, by omega⟩
  have hD : (0 : ℚ) < 2 ^ (i + 2) := by positivity
  have e1 : ((R : ℚ) - 1 / 2) * 2 ^ (i + 2) = 2 * (((2 * (R : ℤ) - 1) * 2 ^ i : ℤ) : ℚ) := by
    push_cast; rw [pow_add]; ring
  have e2 : ((R : ℚ) + 1 / 2) * 2 ^ (i + 2) = 2 * (((2 * (R : ℤ) + 1) * 2 ^ i : ℤ) : ℚ) := by
    push_cast; rw [pow_add]; ring
  obtain ⟨a1, a2, a3⟩ := sticky_cmp h ((2 * (R : ℤ) - 1) * 2 ^ i)
  obtain ⟨b1, b2, b3⟩ := sticky_cmp h ((2 * (R : ℤ) + 1) * 2 ^ i)
  unfold IsRne
  rw [lt_div_iff₀ hD, lt_div_iff₀ hD, div_lt_iff₀ hD, div_lt_iff₀ hD, div_eq_iff (ne_of_gt hD),
    div_eq_iff (ne_of_gt hD), div_eq_iff (ne_of_gt hD), div_eq_iff (ne_of_gt hD), e1, e2,
    a3, b1, a2, b2]

/-! ### the executable `rne` -/

/-- `UVerif.rne` is a round-to-nearest-even integer -/
theorem isRne_rne (B : ℚ) (hB : 0 ≤ B) : IsRne B (rne B).toNat ∧ 0 ≤ rne B := by
  have h1 : ((B.floor : ℤ) : ℚ) ≤ B := Int.floor_le B
  have h2 : B < ((B.floor : ℤ) : ℚ) + 1 := Int.lt_floor_add_one B
  have h0 : 0 ≤ B.floor := Int.floor_nonneg.mpr hB
  unfold rne IsRne
  simp only []
  generalize B.floor = z at *
  have hz : ((z.toNat : ℕ) : ℚ) = (z : ℚ) := by
    have := Int.toNat_of_nonneg h0
    exact_mod_cast this
  have hz1 : (((z + 1).toNat : ℕ) : ℚ) = (z : ℚ) + 1 := by
    have := Int.toNat_of_nonneg (show 0 ≤ z + 1 by omega)
    have h' : ((((z + 1).toNat : ℕ) : ℤ) : ℚ) = ((z + 1 : ℤ) : ℚ) := by rw [this]
    push_cast at h'; exact h'
  by_cases c1 : B - (z : ℚ) < 1 / 2
  · rw [if_pos c1]
    refine ⟨Or.inl ?_, h0⟩
    rw [hz]; constructor <;> linarith
  · rw [if_neg c1]
    by_cases c2 : B - (z : ℚ) > 1 / 2
    · rw [if_pos c2]
      refine ⟨Or.inl ?_, by omega⟩
      rw [hz1]; constructor <;> linarith
    · rw [if_neg c2]
      have c3 : B = (z : ℚ) + 1 / 2 := by linarith
      by_cases c4 : z % 2 = 0
      · rw [if_pos c4]
        refine ⟨Or.inr ⟨Or.inl (by rw [hz]; exact c3), by omega⟩, h0⟩
      · rw [if_neg c4]
        refine ⟨Or.inr ⟨Or.inr (by rw [hz1]; linarith), by omega⟩, by omega⟩

/-- clamp an integer to the magnitude range [1, maxpos] -/
def clampMag (n : ℕ) (z : ℤ) : ℕ :=
  if z ≤ 1 then 1 else if (maxposEnc n : ℤ) ≤ z then maxposEnc n else z.toNat

/-- the Standard's rounding of 2^s(1+f) is `rne` of its unbounded encoding, clamped -/
theorem nearest_of_rne (n es : ℕ) (hn : 2 ≤ n) (s : ℤ) (f : ℚ) (hf : 0 ≤ f) (hf1 : f < 1) :
    nearestMagB n es (valS s f) (clampMag n (rne (encS n es s f))) = true := by
  rw [nearestMagB_iff n es _ hn hf hf1]
  have hBpos : 0 < encS n es s f := by
    unfold encS Benc
    have : 0 < enc0 es (kOf es s) ((eOf es s : ℚ) + f) := by
      rw [enc0_eq]
      have := lo_pos (kOf es s)
      have := step_pos (kOf es s)
      have h3 : (0 : ℚ) ≤ (eOf es s : ℚ) := by exact_mod_cast eOf_nonneg es s
      have : 0 ≤ ((eOf es s : ℚ) + f) / 2 ^ es := by positivity
      positivity
    positivity
  obtain ⟨hr, hr0⟩ := isRne_rne _ (le_of_lt hBpos)
  generalize encS n es s f = B at *
  generalize rne B = z at *
  have hz : ((z.toNat : ℕ) : ℚ) = (z : ℚ) := by
    have := Int.toNat_of_nonneg hr0
    exact_mod_cast this
  have hlo : (z : ℚ) - 1 / 2 ≤ B := by
    rw [← hz]; rcases hr with ⟨a, _⟩ | ⟨a | a, _⟩ <;> linarith
  have hhi : B ≤ (z : ℚ) + 1 / 2 := by
    rw [← hz]; rcases hr with ⟨_, a⟩ | ⟨a | a, _⟩ <;> linarith
  have h3 : 2 ≤ 2 ^ (n - 1) := by
    calc 2 = 2 ^ 1 := rfl
      _ ≤ 2 ^ (n - 1) := Nat.pow_le_pow_right (by norm_num) (by omega)
  have hmx1 : 1 ≤ maxposEnc n := by unfold maxposEnc; omega
  have key : ∀ a b : ℤ, (a : ℚ) < (b : ℚ) + 1 → a ≤ b := by
    intro a b hab
    have : (a : ℚ) < ((b + 1 : ℤ) : ℚ) := by push_cast; exact hab
    have : a < b + 1 := by exact_mod_cast this
    omega
  have hmq : (((maxposEnc n : ℕ) : ℤ) : ℚ) = ((maxposEnc n : ℕ) : ℚ) := by norm_cast
  unfold clampMag RneClamp
  by_cases c1 : z ≤ 1
  · rw [if_pos c1]
    have hzq : (z : ℚ) ≤ 1 := by exact_mod_cast c1
    refine ⟨le_refl _, hmx1, fun hb => ?_, fun _ => rfl, fun hb1 hb2 => ?_⟩
    · have : ((maxposEnc n : ℕ) : ℤ) ≤ 1 := key _ _ (by rw [hmq]; push_cast; linarith)
      omega
    · have : (1 : ℤ) ≤ z := key _ _ (by push_cast; linarith)
      have : z = 1 := by omega
      subst this; simpa using hr
  · rw [if_neg c1]
    by_cases c2 : (maxposEnc n : ℤ) ≤ z
    · rw [if_pos c2]
      have hzq : ((maxposEnc n : ℕ) : ℚ) ≤ (z : ℚ) := by rw [← hmq]; exact_mod_cast c2
      refine ⟨hmx1, le_refl _, fun _ => rfl, fun hb => ?_, fun hb1 hb2 => ?_⟩
      · have : z ≤ 1 := key _ _ (by push_cast; linarith)
        omega
      · have : z ≤ ((maxposEnc n : ℕ) : ℤ) := key _ _ (by rw [hmq]; linarith)
        have : z = ((maxposEnc n : ℕ) : ℤ) := by omega
        subst this; simpa using hr
    · rw [if_neg c2]
      have hzq1 : (1 : ℚ) < (z : ℚ) := by
        have : (1 : ℤ) < z := by omega
        exact_mod_cast this
      have hzq2 : (z : ℚ) < ((maxposEnc n : ℕ) : ℚ) := by
        rw [← hmq]; have : z < ((maxposEnc n : ℕ) : ℤ) := by omega
        exact_mod_cast this
      refine ⟨by omega, by omega, fun hb => ?_, fun hb => ?_, fun _ _ => hr⟩
      · exfalso
        have : ((maxposEnc n : ℕ) : ℤ) ≤ z := key _ _ (by rw [hmq]; linarith)
        omega
      · exfalso
        have : z ≤ 1 := key _ _ (by push_cast; linarith)
        omega

end UVerif.Posit
