/-
  UVerifProofs.Lemmas.PositSticky — more facts about the sticky image (UVerif.stickyShr, sums and
  differences with an even integer).
-/
import UVerifProofs.Lemmas.PositArith

namespace UVerif.Posit

theorem sticky_int (p : ℕ) : Sticky (p : ℚ) p := by
  refine ⟨p / 2, ?_⟩
  rcases Nat.mod_two_eq_zero_or_one p with h | h
  · left
    have : p = 2 * (p / 2) := by omega
    refine ⟨?_, this⟩
    have h2 : (p : ℚ) = ((2 * (p / 2) : ℕ) : ℚ) := by rw [← this]
    rw [h2]; push_cast; ring
  · right
    have : p = 2 * (p / 2) + 1 := by omega
    have h2 : (p : ℚ) = ((2 * (p / 2) + 1 : ℕ) : ℚ) := by rw [← this]
    refine ⟨?_, ?_, this⟩
    · rw [h2]; push_cast; linarith
    · rw [h2]; push_cast; linarith

theorem sticky_zero {S : ℚ} (h : Sticky S 0) : S = 0 := by
  obtain ⟨A, ⟨h1, h2⟩ | ⟨_, _, h3⟩⟩ := h
  · have : A = 0 := by omega
    rw [h1, this]; simp
  · omega

theorem sticky_pos {S : ℚ} {p : ℕ} (h : Sticky S p) (hp : 0 < p) : 0 < S := by
  obtain ⟨A, ⟨h1, h2⟩ | ⟨h1, _, _⟩⟩ := h
  · have : 0 < A := by omega
    rw [h1]; have : (0 : ℚ) < (A : ℚ) := by exact_mod_cast this
    linarith
  · have : (0 : ℚ) ≤ (A : ℚ) := by positivity
    linarith

/-- sticky right shift is the sticky image of the exact quotient -/
theorem stickyShr_sticky (x k : ℕ) : Sticky ((x : ℚ) / 2 ^ k) (stickyShr x k) := by
  unfold stickyShr
  rw [Nat.shiftRight_eq_div_pow]
  have hp : (0 : ℚ) < 2 ^ k := by positivity
  have hdm := Nat.div_add_mod x (2 ^ k)
  have hx : (x : ℚ) / 2 ^ k = ((x / 2 ^ k : ℕ) : ℚ) + ((x % 2 ^ k : ℕ) : ℚ) / 2 ^ k := by
    have : (x : ℚ) = 2 ^ k * ((x / 2 ^ k : ℕ) : ℚ) + ((x % 2 ^ k : ℕ) : ℚ) := by exact_mod_cast hdm.symm
    conv_lhs => rw [this]
    field_simp
  rw [hx]
  generalize x / 2 ^ k = q
  generalize hr : x % 2 ^ k = r
  have hrlt : r < 2 ^ k := by rw [← hr]; exact Nat.mod_lt _ (by positivity)
  by_cases hz : r = 0
  · subst hz
    simp only [ne_eq, not_true_eq_false, if_false, Nat.or_zero, Nat.cast_zero, zero_div, add_zero]
    exact sticky_int q
  · rw [if_pos hz]
    have h0 : (0 : ℚ) < (r : ℚ) / 2 ^ k := by
      have : (0 : ℚ) < (r : ℚ) := by exact_mod_cast Nat.pos_of_ne_zero hz
      positivity
    have h1 : (r : ℚ) / 2 ^ k < 1 := by
      rw [div_lt_one hp]; exact_mod_cast hrlt
    refine ⟨q / 2, Or.inr ?_⟩
    rcases Nat.mod_two_eq_zero_or_one q with h | h
    · have hq : q = 2 * (q / 2) := by omega
      have hor : q ||| 1 = q + 1 := by
        have := Nat.shiftLeft_add_eq_or_of_lt (show 1 < 2 ^ 1 by norm_num) (q / 2)
        rw [Nat.shiftLeft_eq, pow_one] at this
        rw [show q / 2 * 2 = q by omega] at this
        exact this.symm
      have hq2 : (q : ℚ) = 2 * ((q / 2 : ℕ) : ℚ) := by
        have : (q : ℚ) = ((2 * (q / 2) : ℕ) : ℚ) := by rw [← hq]
        rw [this]; push_cast; ring
      refine ⟨by linarith, by linarith, by omega⟩
    · have hq : q = 2 * (q / 2) + 1 := by omega
      have hor : q ||| 1 = q := by
        apply Nat.eq_of_testBit_eq
        intro i
        rw [Nat.testBit_or]
        rcases Nat.eq_zero_or_pos i with rfl | hi
        · simp [Nat.testBit_zero, h]
        · have : Nat.testBit 1 i = false := by
            rw [Nat.testBit_eq_decide_div_mod_eq]
            have : 1 / 2 ^ i = 0 := Nat.div_eq_of_lt (Nat.one_lt_two_pow (by omega))
            simp [this]
          simp [this]
      have hq2 : (q : ℚ) = 2 * ((q / 2 : ℕ) : ℚ) + 1 := by
        have : (q : ℚ) = ((2 * (q / 2) + 1 : ℕ) : ℚ) := by rw [← hq]
        rw [this]; push_cast; ring
      refine ⟨by linarith, by linarith, by omega⟩

theorem sticky_add_even {P : ℚ} {p : ℕ} (E : ℕ) (hE : E % 2 = 0) (h : Sticky P p) :
    Sticky ((E : ℚ) + P) (E + p) := by
  obtain ⟨A, hA⟩ := h
  have hEq : (E : ℚ) = 2 * ((E / 2 : ℕ) : ℚ) := by
    have : (E : ℚ) = ((2 * (E / 2) : ℕ) : ℚ) := by congr 1; omega
    rw [this]; push_cast; ring
  refine ⟨E / 2 + A, ?_⟩
  rcases hA with ⟨h1, h2⟩ | ⟨h1, h2, h3⟩
  · left; constructor
    · rw [h1]; push_cast; linarith
    · omega
  · right; refine ⟨?_, ?_, by omega⟩
    · push_cast; linarith
    · push_cast; linarith

theorem sticky_even_sub {P : ℚ} {p : ℕ} (E : ℕ) (hE : E % 2 = 0) (h : Sticky P p) (hle : p ≤ E) :
    Sticky ((E : ℚ) - P) (E - p) := by
  obtain ⟨A, hA⟩ := h
  have hEq : (E : ℚ) = 2 * ((E / 2 : ℕ) : ℚ) := by
    have : (E : ℚ) = ((2 * (E / 2) : ℕ) : ℚ) := by congr 1; omega
    rw [this]; push_cast; ring
  rcases hA with ⟨h1, h2⟩ | ⟨h1, h2, h3⟩
  · refine ⟨E / 2 - A, Or.inl ⟨?_, by omega⟩⟩
    have : A ≤ E / 2 := by omega
    rw [h1]; push_cast [Nat.cast_sub this]; linarith
  · refine ⟨E / 2 - A - 1, Or.inr ⟨?_, ?_, by omega⟩⟩
    · have : A + 1 ≤ E / 2 := by omega
      have e : ((E / 2 - A - 1 : ℕ) : ℚ) = ((E / 2 : ℕ) : ℚ) - (A : ℚ) - 1 := by
        rw [Nat.sub_sub, Nat.cast_sub this]; push_cast; ring
      rw [e]; linarith
    · have : A + 1 ≤ E / 2 := by omega
      have e : ((E / 2 - A - 1 : ℕ) : ℚ) = ((E / 2 : ℕ) : ℚ) - (A : ℚ) - 1 := by
        rw [Nat.sub_sub, Nat.cast_sub this]; push_cast; ring
      rw [e]; linarith

/-- an even bound passes through the sticky image -/
theorem sticky_lt_even {P : ℚ} {p : ℕ} (h : Sticky P p) (T : ℕ) (hlt : P < 2 * (T : ℚ)) : p < 2 * T := by
  have := (sticky_cmp h (T : ℤ)).1.mp (by push_cast; exact hlt)
  have h2 : (p : ℚ) < ((2 * T : ℕ) : ℚ) := by push_cast at this ⊢; exact this
  exact_mod_cast h2

theorem sticky_ge_even {P : ℚ} {p : ℕ} (h : Sticky P p) (T : ℕ) (hge : 2 * (T : ℚ) ≤ P) : 2 * T ≤ p := by
  by_contra hc
  have hlt : (p : ℚ) < 2 * ((T : ℤ) : ℚ) := by
    have : p < 2 * T := by omega
    have h2 : (p : ℚ) < ((2 * T : ℕ) : ℚ) := by exact_mod_cast this
    push_cast at h2 ⊢; exact h2
  have := (sticky_cmp h (T : ℤ)).1.mpr hlt
  push_cast at this; linarith

end UVerif.Posit
