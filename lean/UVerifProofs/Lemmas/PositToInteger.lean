/-
  UVerifProofs.Lemmas.PositToInteger — `to_integer<Int>()` (posit → native integer after the repair of D23):
  the magnitude built by the bit loop is the truncated magnitude of the decoded triple, and the shape of the
  model's result in terms of that magnitude.
-/
import UVerif.Model.PositConv
import UVerifProofs.Lemmas.PositDecode
import UVerifProofs.Lemmas.ConvPosIntP2I

namespace UVerif.Posit
open UVerif UVerif.ConvPosInt

/-- the loop's magnitude (significand shifted right by fb − s, or left by s − fb) is ⌊(2^fb + frac)·2^s / 2^fb⌋ -/
theorem intMagnitude_eq (fb frac s : ℕ) :
    intMagnitude fb frac s = (2 ^ fb + frac) * 2 ^ s / 2 ^ fb := by
  unfold intMagnitude
  split
  · rename_i h
    rw [Nat.shiftRight_eq_div_pow]
    have : 2 ^ fb = 2 ^ (fb - s) * 2 ^ s := by rw [← Nat.pow_add]; congr 1; omega
    rw [this, Nat.mul_div_mul_right _ _ (Nat.two_pow_pos _)]
  · rename_i h
    rw [Nat.shiftLeft_eq]
    have : 2 ^ s = 2 ^ (s - fb) * 2 ^ fb := by rw [← Nat.pow_add]; congr 1; omega
    rw [this, ← Nat.mul_assoc, Nat.mul_div_cancel _ (Nat.two_pow_pos _)]

/-- for a non-negative scale the loop's magnitude is the truncated magnitude of the triple -/
theorem intMagnitude_eq_truncMag {sc : ℤ} (fb frac : ℕ) (hs : 0 ≤ sc) :
    intMagnitude fb frac sc.toNat = truncMag sc fb frac := by
  rw [intMagnitude_eq, truncMag_pos hs]

/-- 2^s ≤ ⌊(2^fb + frac)·2^s / 2^fb⌋ < 2^(s+1) for frac < 2^fb -/
theorem truncMag_bounds {sc : ℤ} {fb frac : ℕ} (hs : 0 ≤ sc) (hf : frac < 2 ^ fb) :
    2 ^ sc.toNat ≤ truncMag sc fb frac ∧ truncMag sc fb frac < 2 ^ (sc.toNat + 1) := by
  rw [truncMag_pos hs]
  have hp : 0 < 2 ^ fb := Nat.two_pow_pos _
  constructor
  · rw [Nat.le_div_iff_mul_le hp]
    rw [Nat.mul_comm]
    exact Nat.mul_le_mul_right _ (by omega)
  · rw [Nat.div_lt_iff_lt_mul hp]
    have : 2 ^ (sc.toNat + 1) * 2 ^ fb = (2 * 2 ^ fb) * 2 ^ sc.toNat := by rw [Nat.pow_succ]; ring
    rw [this]
    exact Nat.mul_lt_mul_of_pos_right (by omega) (Nat.two_pow_pos _)

/-- `toInteger` on a real-valued non-zero encoding, in terms of the decoded sign / scale and the truncated magnitude -/
theorem toInteger_shape (n es digits : ℕ) (sgn : Bool) (a : ℕ) (ha : a < 2 ^ n) (h0 : a ≠ 0) (hnar : a ≠ 2 ^ (n - 1)) :
    toInteger n es digits sgn a =
      some (if (decode n es a).scale < 0 then 0
        else if (decode n es a).scale ≥ (digits : ℤ) then
          (if (decode n es a).sign then (if sgn then -((2 ^ digits : ℕ) : ℤ) else 0) else ((2 ^ digits : ℕ) : ℤ) - 1)
        else
          (if (decode n es a).sign then
             (if sgn then -((truncMag (decode n es a).scale (decode n es a).fb (decode n es a).frac : ℕ) : ℤ)
              else ((2 ^ digits : ℕ) : ℤ) - ((truncMag (decode n es a).scale (decode n es a).fb (decode n es a).frac : ℕ) : ℤ))
           else ((truncMag (decode n es a).scale (decode n es a).fb (decode n es a).frac : ℕ) : ℤ))) := by
  unfold toInteger
  simp only [Nat.mod_eq_of_lt ha, if_neg h0, if_neg hnar]
  by_cases hneg : (decode n es a).scale < 0
  · simp only [if_pos hneg]
  · simp only [if_neg hneg]
    rw [intMagnitude_eq_truncMag _ _ (by omega)]
    split <;> rfl

end UVerif.Posit
