import UVerif.Basic
import Mathlib.Tactic.Ring
import Mathlib.Tactic.Linarith
import Mathlib.Tactic.FieldSimp
import Mathlib.Tactic.NormNum
import Mathlib.Algebra.Order.Field.Basic
import Mathlib.Data.Rat.Defs
import Mathlib.Tactic.Positivity

namespace UVerif

theorem pow2_eq_zpow (e : Int) : pow2 e = (2 : ℚ) ^ e := by
  unfold pow2
  split
  · rename_i h
    obtain ⟨k, rfl⟩ := Int.eq_ofNat_of_zero_le h
    simp [zpow_natCast]
  · rename_i h
    have : e = -((-e).toNat : Int) := by omega
    conv_rhs => rw [this]
    rw [zpow_neg, zpow_natCast]
    simp

theorem pow2_pos (e : Int) : 0 < pow2 e := by
  rw [pow2_eq_zpow]; exact zpow_pos (by norm_num) e

theorem pow2_add (a b : Int) : pow2 (a + b) = pow2 a * pow2 b := by
  simp only [pow2_eq_zpow]; exact zpow_add₀ (by norm_num) a b

theorem pow2_natCast (k : Nat) : pow2 (k : Int) = ((2 ^ k : Nat) : ℚ) := by
  rw [pow2_eq_zpow, zpow_natCast]; push_cast; rfl

theorem pow2_zero : pow2 0 = 1 := by rw [pow2_eq_zpow]; simp

end UVerif
