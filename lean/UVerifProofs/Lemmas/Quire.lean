import UVerif.Model.Quire
import Mathlib.Tactic.Ring
import Mathlib.Tactic.Linarith

namespace UVerif.Quire

/-- mixed-radix digits of a number below H·U·C -/
theorem split3 (H U C x : Nat) :
    x % (H * U * C) = x % H + H * ((x / H) % U) + H * U * ((x / (H * U)) % C) := by
  have h1 : x % (H * U * C) = x % (H * U) + H * U * ((x / (H * U)) % C) := by
    rw [Nat.mod_mul]
  have h2 : x % (H * U) = x % H + H * ((x / H) % U) := by
    rw [Nat.mod_mul]
  rw [h1, h2]

theorem mag_lt (L : Layout) (q : QState) (h : q.WF L) : q.mag L < 2 ^ L.tot := by
  obtain ⟨h0, h1, h2⟩ := h
  unfold QState.mag Layout.tot
  have e : 2 ^ (L.hr + L.ur + L.cap) = 2 ^ L.hr * 2 ^ L.ur * 2 ^ L.cap := by
    rw [Nat.pow_add, Nat.pow_add]
  have e2 : 2 ^ (L.hr + L.ur) = 2 ^ L.hr * 2 ^ L.ur := Nat.pow_add ..
  rw [e, e2]
  have hH : 0 < 2 ^ L.hr := Nat.two_pow_pos _
  have hU : 0 < 2 ^ L.ur := Nat.two_pow_pos _
  generalize 2 ^ L.hr = H at *
  generalize 2 ^ L.ur = U at *
  generalize 2 ^ L.cap = C at *
  have a1 : q.upper + 1 ≤ U := h1
  have a2 : q.capa + 1 ≤ C := h2
  have b1 : H * (q.upper + 1) ≤ H * U := Nat.mul_le_mul_left H a1
  have b2 : H * U * (q.capa + 1) ≤ H * U * C := Nat.mul_le_mul_left _ a2
  nlinarith

end UVerif.Quire

namespace UVerif.Quire

theorem pow_tot (L : Layout) : 2 ^ L.tot = 2 ^ L.hr * 2 ^ L.ur * 2 ^ L.cap := by
  unfold Layout.tot; rw [Nat.pow_add, Nat.pow_add]

/-- `add_value` refines integer addition modulo the accumulator width. -/
theorem addMag_mag (L : Layout) (q : QState) (A : Nat) (hq : q.WF L) (hA : A < 2 ^ (L.hr + L.ur)) :
    (addMag L q A).mag L = (q.mag L + A) % 2 ^ L.tot ∧ (addMag L q A).WF L := by
  obtain ⟨h0, h1, h2⟩ := hq
  have hH : 0 < 2 ^ L.hr := Nat.two_pow_pos _
  have hU : 0 < 2 ^ L.ur := Nat.two_pow_pos _
  have hC : 0 < 2 ^ L.cap := Nat.two_pow_pos _
  have e2 : 2 ^ (L.hr + L.ur) = 2 ^ L.hr * 2 ^ L.ur := Nat.pow_add ..
  rw [pow_tot]
  unfold addMag QState.mag QState.WF
  simp only []
  rw [e2] at hA ⊢
  generalize 2 ^ L.hr = H at *
  generalize 2 ^ L.ur = U at *
  generalize 2 ^ L.cap = C at *
  have ha1 : A / H < U := (Nat.div_lt_iff_lt_mul hH).2 (by rw [Nat.mul_comm]; exact hA)
  rw [Nat.mod_eq_of_lt ha1]
  have hAdec : A = A % H + H * (A / H) := (Nat.mod_add_div A H).symm
  set a0 := A % H with ha0
  set a1 := A / H with ha1'
  set s0 := q.lower + a0 with hs0
  set s1 := q.upper + a1 + s0 / H with hs1
  set s2 := q.capa + s1 / U with hs2
  have hx : q.lower + H * q.upper + H * U * q.capa + A = s0 + H * (q.upper + a1 + U * q.capa) := by
    rw [hAdec]; ring
  have m0 : (q.lower + H * q.upper + H * U * q.capa + A) % H = s0 % H := by
    rw [hx, Nat.add_mul_mod_self_left]
  have d0 : (q.lower + H * q.upper + H * U * q.capa + A) / H = s1 + U * q.capa := by
    rw [hx, Nat.add_mul_div_left _ _ hH]; ring
  have m1 : ((q.lower + H * q.upper + H * U * q.capa + A) / H) % U = s1 % U := by
    rw [d0, Nat.add_mul_mod_self_left]
  have d1 : (q.lower + H * q.upper + H * U * q.capa + A) / (H * U) = s2 := by
    rw [← Nat.div_div_eq_div_mul, d0, Nat.add_mul_div_left _ _ hU]; ring
  refine ⟨?_, Nat.mod_lt _ hH, Nat.mod_lt _ hU, Nat.mod_lt _ hC⟩
  rw [split3, m0, m1, d1]

end UVerif.Quire

namespace UVerif.Quire

theorem mod_of_lt_two (x H : Nat) (h : x < 2 * H) : x % H = if x < H then x else x - H := by
  split
  · exact Nat.mod_eq_of_lt ‹_›
  · have h1 : H ≤ x := Nat.le_of_not_lt ‹_›
    rw [Nat.mod_eq_sub_mod h1, Nat.mod_eq_of_lt (by omega)]

/-- `subtract_value` refines integer subtraction when the subtrahend is not larger. -/
theorem subMag_mag (L : Layout) (q : QState) (A : Nat) (hq : q.WF L) (hA : A < 2 ^ (L.hr + L.ur))
    (hle : A ≤ q.mag L) :
    (subMag L q A).mag L = q.mag L - A ∧ (subMag L q A).WF L := by
  obtain ⟨h0, h1, h2⟩ := hq
  have hH : 0 < 2 ^ L.hr := Nat.two_pow_pos _
  have hU : 0 < 2 ^ L.ur := Nat.two_pow_pos _
  have hC : 0 < 2 ^ L.cap := Nat.two_pow_pos _
  have e2 : 2 ^ (L.hr + L.ur) = 2 ^ L.hr * 2 ^ L.ur := Nat.pow_add ..
  unfold subMag QState.mag QState.WF at *
  simp only []
  rw [e2] at hA hle ⊢
  generalize 2 ^ L.hr = H at *
  generalize 2 ^ L.ur = U at *
  generalize 2 ^ L.cap = C at *
  have ha1 : A / H < U := (Nat.div_lt_iff_lt_mul hH).2 (by rw [Nat.mul_comm]; exact hA)
  rw [Nat.mod_eq_of_lt ha1]
  have hAdec : A = A % H + H * (A / H) := (Nat.mod_add_div A H).symm
  have ha0 : A % H < H := Nat.mod_lt _ hH
  generalize A % H = a0 at *
  generalize A / H = a1 at *
  generalize q.lower = l at *
  generalize q.upper = u at *
  generalize q.capa = c at *
  subst hAdec
  -- closed forms of the three differences
  have hd0 : (l + H - a0) % H = if l < a0 then l + H - a0 else l - a0 := by
    rw [mod_of_lt_two _ _ (by omega)]; split <;> split <;> omega
  -- borrow out of the upper segment forces a capacity bit
  have hcap : (if u < a1 + (if l < a0 then 1 else 0) then 1 else 0) ≤ c := by
    by_cases hl : l < a0
    · simp only [hl, if_true]
      by_cases hb : u < a1 + 1
      · simp only [hb, if_true]
        rcases Nat.eq_zero_or_pos c with rfl | hc
        · exfalso
          have : H * u ≤ H * a1 := Nat.mul_le_mul_left H (by omega)
          simp at hle
          omega
        · omega
      · simp [hb]
    · simp only [hl, if_false, Nat.add_zero]
      by_cases hb : u < a1
      · simp only [hb, if_true]
        rcases Nat.eq_zero_or_pos c with rfl | hc
        · exfalso
          have : H * (u + 1) ≤ H * a1 := Nat.mul_le_mul_left H (by omega)
          simp at hle
          rw [Nat.mul_add] at this
          omega
        · omega
      · simp [hb]
  generalize hb0 : (if l < a0 then 1 else 0) = b0 at *
  have hb0' : b0 ≤ 1 := by subst hb0; split <;> omega
  have hd1 : (u + U - a1 - b0) % U = if u < a1 + b0 then u + U - a1 - b0 else u - a1 - b0 := by
    rw [mod_of_lt_two _ _ (by omega)]; split <;> split <;> omega
  generalize hb1 : (if u < a1 + b0 then 1 else 0) = b1 at *
  have hb1' : b1 ≤ 1 := by subst hb1; split <;> omega
  have hd2 : (c + C - b1) % C = c - b1 := by
    rw [mod_of_lt_two _ _ (by omega)]; split <;> omega
  rw [hd0, hd1, hd2]
  refine ⟨?_, ?_, ?_, ?_⟩
  · -- the value identity, in ℤ
    have key : ((if l < a0 then l + H - a0 else l - a0 : Nat) : Int) = l - a0 + H * b0 := by
      subst hb0; split <;> push_cast [Nat.cast_sub] <;> omega
    have key1 : ((if u < a1 + b0 then u + U - a1 - b0 else u - a1 - b0 : Nat) : Int) = u - a1 - b0 + U * b1 := by
      subst hb1; split <;> omega
    have key2 : ((c - b1 : Nat) : Int) = c - b1 := by omega
    have goalZ : (((if l < a0 then l + H - a0 else l - a0) + H * (if u < a1 + b0 then u + U - a1 - b0 else u - a1 - b0)
        + H * U * (c - b1) : Nat) : Int) = ((l + H * u + H * U * c : Nat) : Int) - ((a0 + H * a1 : Nat) : Int) := by
      push_cast [key, key1, key2]; ring
    omega
  · split <;> omega
  · split <;> omega
  · omega

end UVerif.Quire

namespace UVerif.Quire

theorem tot_eq (L : Layout) : L.tot = L.qbits + 1 := by
  unfold Layout.tot Layout.qbits Layout.ur; omega

/-- `to_value()` followed by re-alignment returns the magnitude: the swap path loses nothing. -/
theorem aligned_toValue (L : Layout) (q : QState) (hq : q.WF L) (hM : q.mag L ≠ 0) :
    let sv := toValue L q
    sv.zero = false ∧ aligned L sv.fb sv.frac sv.scale = q.mag L := by
  have hlt := mag_lt L q hq
  rw [tot_eq] at hlt
  unfold toValue
  simp only [hM, if_false]
  refine ⟨trivial, ?_⟩
  generalize q.mag L = M at *
  have hlo : 2 ^ M.log2 ≤ M := Nat.log2_self_le hM
  have hhi : M < 2 ^ (M.log2 + 1) := Nat.lt_log2_self
  have hmsb : M.log2 ≤ L.qbits := by
    by_contra hc
    have : L.qbits + 1 ≤ M.log2 := by omega
    have := Nat.pow_le_pow_right (show 0 < 2 by decide) this
    omega
  generalize M.log2 = m at *
  unfold aligned
  simp only [Nat.shiftLeft_eq, Nat.shiftRight_eq_div_pow]
  have hF : 2 ^ L.qbits + (M - 2 ^ m) * 2 ^ (L.qbits - m) = M * 2 ^ (L.qbits - m) := by
    have : 2 ^ L.qbits = 2 ^ m * 2 ^ (L.qbits - m) := by rw [← Nat.pow_add]; congr 1; omega
    rw [this, Nat.sub_mul, ← Nat.add_sub_assoc (Nat.mul_le_mul_right _ hlo)]; omega
  rw [hF]
  have hl : (L.hr : Int) + ((m : Int) - L.hr) - (L.qbits : Int) = (m : Int) - L.qbits := by ring
  rw [hl]
  split
  · have : m = L.qbits := by omega
    subst this; simp
  · have : (-((m : Int) - (L.qbits : Int))).toNat = L.qbits - m := by omega
    rw [this, Nat.mul_div_cancel _ (Nat.two_pow_pos _)]

end UVerif.Quire

namespace UVerif.Quire

def QState.Canon (L : Layout) (q : QState) : Prop := q.mag L = 0 → q.sign = false

theorem assignMag_mag (L : Layout) (s : Bool) (A : Nat) (hA : A < 2 ^ (L.hr + L.ur)) :
    (assignMag L s A).mag L = A ∧ (assignMag L s A).WF L ∧ (assignMag L s A).sign = s := by
  have hH : 0 < 2 ^ L.hr := Nat.two_pow_pos _
  have hU : 0 < 2 ^ L.ur := Nat.two_pow_pos _
  have e2 : 2 ^ (L.hr + L.ur) = 2 ^ L.hr * 2 ^ L.ur := Nat.pow_add ..
  rw [e2] at hA
  have ha1 : A / 2 ^ L.hr < 2 ^ L.ur := (Nat.div_lt_iff_lt_mul hH).2 (by rw [Nat.mul_comm]; exact hA)
  unfold assignMag QState.mag QState.WF
  simp only [Nat.mod_eq_of_lt ha1, Nat.mul_zero, Nat.add_zero]
  exact ⟨Nat.mod_add_div A _, ⟨Nat.mod_lt _ hH, ha1, Nat.two_pow_pos _⟩, trivial⟩

theorem toValue_zero (L : Layout) (q : QState) (hM : q.mag L = 0) : (toValue L q).zero = true := by
  unfold toValue; simp [hM]

theorem subMag_sign (L : Layout) (q : QState) (A : Nat) : (subMag L q A).sign = q.sign := rfl
theorem addMag_sign (L : Layout) (q : QState) (A : Nat) : (addMag L q A).sign = q.sign := rfl

theorem toInt_setSign (L : Layout) (r : QState) (s : Bool) :
    ({ r with sign := s } : QState).toInt L = if s then -(r.mag L : Int) else (r.mag L : Int) := rfl
theorem mag_setSign (L : Layout) (r : QState) (s : Bool) : ({ r with sign := s } : QState).mag L = r.mag L := rfl
theorem WF_setSign (L : Layout) (r : QState) (s : Bool) : ({ r with sign := s } : QState).WF L ↔ r.WF L := Iff.rfl

/-- One `operator+=` refines exact signed integer addition (units 2^-hr) and keeps the state well formed
    and canonical (zero carries sign `false`). -/
theorem accumulate_spec (L : Layout) (q : QState) (s : Bool) (A : Nat)
    (hq : q.WF L) (hc : q.Canon L) (hA : A < 2 ^ (L.hr + L.ur))
    (hfit : q.sign = s → q.mag L + A < 2 ^ L.tot) :
    (accumulate L q s A).toInt L = q.toInt L + (if s then -(A : Int) else (A : Int)) ∧
    (accumulate L q s A).WF L ∧ (accumulate L q s A).Canon L := by
  unfold accumulate
  by_cases hs : q.sign = s
  · -- same sign: add_value
    simp only [hs, if_true]
    obtain ⟨hm, hw⟩ := addMag_mag L q A hq hA
    rw [Nat.mod_eq_of_lt (hfit hs)] at hm
    refine ⟨?_, hw, ?_⟩
    · unfold QState.toInt; rw [addMag_sign, hm, hs]; cases s <;> simp <;> omega
    · intro h0; rw [addMag_sign]; apply hc; omega
  · simp only [hs, if_false]
    by_cases h1 : q.mag L < A
    · -- swap path
      simp only [h1, if_true]
      obtain ⟨am, aw, as⟩ := assignMag_mag L s A hA
      have hS : (if (toValue L q).zero then 0 else aligned L (toValue L q).fb (toValue L q).frac (toValue L q).scale) = q.mag L := by
        by_cases hM : q.mag L = 0
        · rw [toValue_zero L q hM]; simp [hM]
        · obtain ⟨hz, ha⟩ := aligned_toValue L q hq hM
          rw [hz]; simpa using ha
      rw [hS]
      have hMlt : q.mag L < 2 ^ (L.hr + L.ur) := Nat.lt_trans h1 hA
      obtain ⟨sm, sw⟩ := subMag_mag L (assignMag L s A) (q.mag L) aw hMlt (by rw [am]; omega)
      rw [am] at sm
      refine ⟨?_, (WF_setSign L _ s).2 sw, ?_⟩
      · rw [toInt_setSign, sm]
        have : q.sign = !s := by cases s <;> cases hq' : q.sign <;> simp_all
        unfold QState.toInt
        rw [this]; cases s <;> simp <;> omega
      · intro h0
        exfalso
        rw [mag_setSign] at h0
        omega
    · simp only [h1, if_false]
      have hle : A ≤ q.mag L := Nat.le_of_not_lt h1
      obtain ⟨sm, sw⟩ := subMag_mag L q A hq hA hle
      have hsg : q.sign = !s := by cases s <;> cases hq' : q.sign <;> simp_all
      by_cases h2 : q.mag L > A
      · simp only [h2, if_true]
        refine ⟨?_, sw, ?_⟩
        · unfold QState.toInt; rw [subMag_sign, sm, hsg]; cases s <;> simp <;> omega
        · intro h0; omega
      · simp only [h2, if_false]
        have heq : q.mag L = A := by omega
        refine ⟨?_, (WF_setSign L _ false).2 sw, fun _ => rfl⟩
        · rw [toInt_setSign, sm]
          unfold QState.toInt
          rw [hsg]; cases s <;> simp <;> omega

end UVerif.Quire

namespace UVerif.Quire

/-- a well-formed state is determined by its magnitude (mixed-radix digits are unique) -/
theorem mag_inj (L : Layout) (q r : QState) (hq : q.WF L) (hr : r.WF L) (h : q.mag L = r.mag L) :
    q.lower = r.lower ∧ q.upper = r.upper ∧ q.capa = r.capa := by
  obtain ⟨a0, a1, a2⟩ := hq
  obtain ⟨b0, b1, b2⟩ := hr
  have hH : 0 < 2 ^ L.hr := Nat.two_pow_pos _
  have hU : 0 < 2 ^ L.ur := Nat.two_pow_pos _
  have e2 : 2 ^ (L.hr + L.ur) = 2 ^ L.hr * 2 ^ L.ur := Nat.pow_add ..
  unfold QState.mag at h
  rw [e2] at h
  generalize 2 ^ L.hr = H at *
  generalize 2 ^ L.ur = U at *
  have dig : ∀ l u c : Nat, l < H → u < U →
      (l + H * u + H * U * c) % H = l ∧ ((l + H * u + H * U * c) / H) % U = u ∧ (l + H * u + H * U * c) / H / U = c := by
    intro l u c hl hu
    have e : l + H * u + H * U * c = l + H * (u + U * c) := by ring
    rw [e, Nat.add_mul_mod_self_left, Nat.mod_eq_of_lt hl, Nat.add_mul_div_left _ _ hH, Nat.div_eq_of_lt hl,
      Nat.zero_add, Nat.add_mul_mod_self_left, Nat.mod_eq_of_lt hu, Nat.add_mul_div_left _ _ hU, Nat.div_eq_of_lt hu,
      Nat.zero_add]
    exact ⟨rfl, rfl, rfl⟩
  obtain ⟨p0, p1, p2⟩ := dig _ _ q.capa a0 a1
  obtain ⟨r0, r1, r2⟩ := dig _ _ r.capa b0 b1
  rw [h] at p0 p1 p2
  exact ⟨p0.symm.trans r0, p1.symm.trans r1, p2.symm.trans r2⟩

/-- well-formed canonical states are equal as soon as their signed contents are equal -/
theorem state_ext (L : Layout) (q r : QState) (hq : q.WF L) (hr : r.WF L) (cq : q.Canon L) (cr : r.Canon L)
    (h : q.toInt L = r.toInt L) : q = r := by
  unfold QState.toInt at h
  have hm : q.mag L = r.mag L := by
    cases hs : q.sign <;> cases ht : r.sign <;> simp [hs, ht] at h <;> omega
  obtain ⟨e0, e1, e2⟩ := mag_inj L q r hq hr hm
  have hsgn : q.sign = r.sign := by
    by_cases hz : q.mag L = 0
    · rw [cq hz, cr (hm ▸ hz)]
    · cases hs : q.sign <;> cases ht : r.sign <;> simp [hs, ht] at h <;> first | rfl | omega
  cases q; cases r; simp_all

end UVerif.Quire
