/-
  UVerifProofs.Lemmas.QuireOperand — the operands the quire is fed with (posits and exact posit products)
  lose nothing when they are aligned to the quire's radix point: every posit is an integer multiple of
  2^-(hr/2) (hr/2 = (n-2)·2^es, i.e. of minpos), every product of 2^-hr, and their scales lie within ±hr.
-/
import UVerifProofs.Lemmas.Quire
import UVerifProofs.Lemmas.PositRecip

namespace UVerif.Quire
open UVerif UVerif.Posit

/-- if (2^fb+frac)·2^(hr+scale-fb) is a natural number, `aligned` is that number (nothing is dropped) -/
theorem aligned_exact (L : Layout) (fb frac : ℕ) (scale : ℤ) (I : ℕ)
    (hI : (I : ℚ) = ((2 ^ fb + frac : ℕ) : ℚ) * 2 ^ ((L.hr : ℤ) + scale - (fb : ℤ))) :
    aligned L fb frac scale = I := by
  unfold aligned
  simp only []
  split
  · rename_i h
    obtain ⟨k, hk⟩ : ∃ k : ℕ, (L.hr : ℤ) + scale - (fb : ℤ) = k := ⟨_, (Int.toNat_of_nonneg h).symm⟩
    rw [hk] at hI ⊢
    rw [zpow_natCast] at hI
    simp only [Int.toNat_natCast, Nat.shiftLeft_eq]
    have : ((I : ℕ) : ℚ) = (((2 ^ fb + frac) * 2 ^ k : ℕ) : ℚ) := by rw [hI]; push_cast; ring
    exact (Nat.cast_injective this).symm
  · rename_i h
    obtain ⟨k, hk⟩ : ∃ k : ℕ, (L.hr : ℤ) + scale - (fb : ℤ) = -(k : ℤ) :=
      ⟨(-((L.hr : ℤ) + scale - (fb : ℤ))).toNat, by omega⟩
    rw [hk] at hI ⊢
    rw [zpow_neg, zpow_natCast] at hI
    simp only [neg_neg, Int.toNat_natCast, Nat.shiftRight_eq_div_pow]
    have hp : (0 : ℚ) < 2 ^ k := by positivity
    have : (((2 ^ fb + frac : ℕ)) : ℚ) = ((I * 2 ^ k : ℕ) : ℚ) := by
      rw [Nat.cast_mul, hI]; push_cast; field_simp
    have h2 : 2 ^ fb + frac = I * 2 ^ k := Nat.cast_injective this
    rw [h2, Nat.mul_div_cancel _ (Nat.two_pow_pos k)]

/-- the half range of the quire: (n-2)·2^es; hr is twice that -/
theorem layoutOf_hr (N es cap : ℕ) : (layoutOf (N + 2) es cap).hr = 2 * (N * 2 ^ es) := by
  unfold layoutOf
  simp only []
  have : 2 ^ es * (4 * (N + 2) - 8) = 2 * (2 * (N * 2 ^ es)) := by
    have : 4 * (N + 2) - 8 = 4 * N := by omega
    rw [this]; ring
  rw [this, Nat.mul_div_cancel_left _ (by norm_num)]

/-- magnitude of a finite triple -/
theorem abs_toRat (v : Val) (hz : v.zero = false) :
    |v.toRat| = ((2 ^ v.fb + v.frac : ℕ) : ℚ) * 2 ^ (v.scale - (v.fb : ℤ)) := by
  rw [toRat_eq_sgn v hz]
  have hv : 0 < valS v.scale ((v.frac : ℚ) / 2 ^ v.fb) := valS_pos (by positivity)
  have : |sgn v.sign * valS v.scale ((v.frac : ℚ) / 2 ^ v.fb)| = valS v.scale ((v.frac : ℚ) / 2 ^ v.fb) := by
    unfold sgn; cases v.sign <;> simp [abs_of_pos hv]
  rw [this]
  unfold valS
  rw [zpow_sub₀ (by norm_num), zpow_natCast]
  have hp : (0 : ℚ) < 2 ^ v.fb := by positivity
  push_cast; field_simp

/-- a finite triple whose magnitude is a whole number of quire units is aligned without loss -/
theorem aligned_of_int (L : Layout) (v : Val) (hz : v.zero = false) (I : ℕ)
    (hI : (I : ℚ) = |v.toRat| * 2 ^ (L.hr : ℤ)) :
    ((aligned L v.fb v.frac v.scale : ℕ) : ℚ) * 2 ^ (-(L.hr : ℤ)) = |v.toRat| := by
  have h := aligned_exact L v.fb v.frac v.scale I (by
    rw [hI, abs_toRat v hz, mul_assoc, ← zpow_add₀ (by norm_num)]
    congr 2; ring)
  rw [h, hI, mul_assoc, ← zpow_add₀ (by norm_num)]
  simp

/-- scale of a finite triple from bounds on its magnitude -/
theorem scale_bounds (v : Val) (hv : v.Fin) (lo hi : ℤ) (h1 : (2 : ℚ) ^ lo ≤ |v.toRat|)
    (h2 : |v.toRat| ≤ (2 : ℚ) ^ hi) : lo ≤ v.scale ∧ v.scale ≤ hi := by
  rw [toRat_eq_sgn v hv.nz] at h1 h2
  have hp : (0 : ℚ) < 2 ^ v.fb := by positivity
  have hf0 : (0 : ℚ) ≤ (v.frac : ℚ) / 2 ^ v.fb := by positivity
  have hf1 : (v.frac : ℚ) / 2 ^ v.fb < 1 := by
    rw [div_lt_one hp]; exact_mod_cast hv.lt
  have hvpos : 0 < valS v.scale ((v.frac : ℚ) / 2 ^ v.fb) := valS_pos hf0
  have habs : |sgn v.sign * valS v.scale ((v.frac : ℚ) / 2 ^ v.fb)| = valS v.scale ((v.frac : ℚ) / 2 ^ v.fb) := by
    unfold sgn; cases v.sign <;> simp [abs_of_pos hvpos]
  rw [habs] at h1 h2
  unfold valS at h1 h2
  have hz := two_zpow_pos v.scale
  constructor
  · by_contra hc
    have : v.scale + 1 ≤ lo := by omega
    have h3 : (2 : ℚ) ^ (v.scale + 1) ≤ 2 ^ lo := zpow_le_zpow_right₀ (by norm_num) this
    rw [two_zpow_succ] at h3
    nlinarith
  · by_contra hc
    have : hi + 1 ≤ v.scale := by omega
    have h3 : (2 : ℚ) ^ (hi + 1) ≤ 2 ^ v.scale := zpow_le_zpow_right₀ (by norm_num) this
    rw [two_zpow_succ] at h3
    have := two_zpow_pos hi
    nlinarith


/-- the fraction field of a magnitude is never longer than (k + n - 2) bits -/
theorem fields_nf_le (N es y : ℕ) (hy0 : 0 < y) (hy : y < 2 ^ (N + 1)) :
    ((fields (N + 2) es y).nf : ℤ) ≤ (fields (N + 2) es y).k + N := by
  obtain ⟨_, fnf, _⟩ := fields_parts N es y
  rw [fnf]
  have hm1 := runLen_pos_top y N
  have hk : (fields (N + 2) es y).k =
      if y.testBit N then (runLen y (y.testBit N) (N + 1) : ℤ) - 1
      else -(runLen y (y.testBit N) (N + 1) : ℤ) := by
    unfold fields; simp only [show N + 2 - 2 = N from rfl, show N + 2 - 1 = N + 1 from rfl]
  rw [hk]
  cases ht : y.testBit N
  · have := runLen_zero_le y N hy0 hy ht
    rw [ht] at hm1
    simp only [Bool.false_eq_true, if_false]
    omega
  · rw [ht] at hm1
    simp only [if_true]
    omega

/-- every posit magnitude is a whole multiple of minpos = 2^-((n-2)·2^es) -/
theorem posVal_int (N es y : ℕ) (hy0 : 0 < y) (hy : y < 2 ^ (N + 1)) :
    ∃ I : ℕ, (I : ℚ) = posVal (N + 2) es y * 2 ^ ((N * 2 ^ es : ℕ) : ℤ) := by
  obtain ⟨f1, f2, k1, k2, _⟩ := fields_spec N es y hy0 hy
  have hnf := fields_nf_le N es y hy0 hy
  generalize hF : fields (N + 2) es y = F at *
  have hpos : (1 : ℤ) ≤ ((2 ^ es : ℕ) : ℤ) := by
    have : 1 ≤ 2 ^ es := Nat.one_le_two_pow
    exact_mod_cast this
  have hexp : 0 ≤ F.scale es + ((N * 2 ^ es : ℕ) : ℤ) - (F.nf : ℤ) := by
    unfold Fields.scale
    push_cast
    have h1 : 0 ≤ F.k + (N : ℤ) := by omega
    have h2 : F.k + (N : ℤ) ≤ (F.k + (N : ℤ)) * ((2 ^ es : ℕ) : ℤ) := by nlinarith
    push_cast at h2
    have h3 : (0 : ℤ) ≤ (F.e : ℤ) := by positivity
    nlinarith
  obtain ⟨d, hd⟩ : ∃ d : ℕ, F.scale es + ((N * 2 ^ es : ℕ) : ℤ) - (F.nf : ℤ) = d := ⟨_, (Int.toNat_of_nonneg hexp).symm⟩
  refine ⟨(2 ^ F.nf + F.f) * 2 ^ d, ?_⟩
  unfold posVal
  simp only [hF]
  rw [Posit.pow2_eq_zpow]
  have e : (2 : ℚ) ^ (F.scale es) * 2 ^ ((N * 2 ^ es : ℕ) : ℤ) = 2 ^ (F.nf : ℤ) * 2 ^ (d : ℤ) := by
    rw [← zpow_add₀ (by norm_num), ← zpow_add₀ (by norm_num)]
    congr 1; omega
  rw [mul_assoc, e, zpow_natCast, zpow_natCast]
  have hp : (0 : ℚ) < 2 ^ F.nf := by positivity
  push_cast; field_simp

/-- minpos ≤ posit magnitude ≤ maxpos -/
theorem posVal_range (N es y : ℕ) (hy0 : 0 < y) (hy : y < 2 ^ (N + 1)) :
    (2 : ℚ) ^ (-((N * 2 ^ es : ℕ) : ℤ)) ≤ posVal (N + 2) es y ∧
    posVal (N + 2) es y ≤ (2 : ℚ) ^ ((N * 2 ^ es : ℕ) : ℤ) := by
  have hn : 2 ≤ N + 2 := by omega
  have hmax := posVal_maxpos (N + 2) es hn
  have hmin := posVal_minpos (N + 2) es hn
  have e1 : (((N + 2 : ℕ) : ℤ) - 2) * ((2 ^ es : ℕ) : ℤ) = ((N * 2 ^ es : ℕ) : ℤ) := by push_cast; ring
  have e2 : -(((N + 2 : ℕ) : ℤ) - 2) * ((2 ^ es : ℕ) : ℤ) = -((N * 2 ^ es : ℕ) : ℤ) := by push_cast; ring
  rw [e1] at hmax; rw [e2] at hmin
  have h2 : 2 ≤ 2 ^ (N + 1) := by
    calc 2 = 2 ^ 1 := rfl
      _ ≤ 2 ^ (N + 1) := Nat.pow_le_pow_right (by norm_num) (by omega)
  constructor
  · rw [← hmin]
    rcases Nat.lt_or_eq_of_le (show 1 ≤ y by omega) with h | h
    · exact le_of_lt (posVal_strictMono (N + 2) es 1 y hn (by norm_num) h hy)
    · rw [← h]
  · rw [← hmax]
    have hmx : y ≤ maxposEnc (N + 2) := by unfold maxposEnc; simp only [show N + 2 - 1 = N + 1 from rfl]; omega
    rcases Nat.lt_or_eq_of_le hmx with h | h
    · exact le_of_lt (posVal_strictMono (N + 2) es y _ hn hy0 h (by unfold maxposEnc; simp))
    · rw [h]

/-- the decoded triple of a non-special encoding: finite, and its magnitude is the value of a magnitude encoding -/
theorem decode_abs (N es a : ℕ) (ha : a < 2 ^ (N + 2)) (h0 : a ≠ 0) (hnar : a ≠ 2 ^ (N + 1)) :
    (decode (N + 2) es a).Fin ∧ (decode (N + 2) es a).fb = fbitsOf (N + 2) es ∧
    positVal (N + 2) es a = some (decode (N + 2) es a).toRat ∧
    ∃ y, 0 < y ∧ y < 2 ^ (N + 1) ∧ |(decode (N + 2) es a).toRat| = posVal (N + 2) es y := by
  have hn : 2 ≤ N + 2 := by omega
  have hp : 2 ^ (N + 2) = 2 * 2 ^ (N + 1) := by rw [pow_succ]; ring
  obtain ⟨hfin, hfb, hv⟩ := decode_fin (N + 2) es a hn ha h0 hnar
  refine ⟨hfin, hfb, hv, ?_⟩
  by_cases h : a < 2 ^ (N + 1)
  · refine ⟨a, by omega, h, ?_⟩
    rw [positVal_pos_enc N es a (by omega) h] at hv
    rw [← Option.some.inj hv]
    exact abs_of_pos (posVal_pos (N + 2) es a hn (by omega) h)
  · refine ⟨2 ^ (N + 2) - a, by omega, by omega, ?_⟩
    have := positVal_neg_enc N es (2 ^ (N + 2) - a) (by omega) (by omega)
    rw [show 2 ^ (N + 2) - (2 ^ (N + 2) - a) = a by omega, hv] at this
    rw [Option.some.inj this, abs_neg]
    exact abs_of_pos (posVal_pos (N + 2) es _ hn (by omega) (by simp only [show N + 2 - 1 = N + 1 from rfl]; omega))


theorem hr_cast (N es cap : ℕ) :
    (((layoutOf (N + 2) es cap).hr : ℕ) : ℤ) = ((N * 2 ^ es : ℕ) : ℤ) + ((N * 2 ^ es : ℕ) : ℤ) := by
  rw [layoutOf_hr]; push_cast; ring

/-- a posit operand lands in the quire without loss and within the accepted scale range -/
theorem posit_operand_exact (N es cap a : ℕ) (ha : a < 2 ^ (N + 2)) (h0 : a ≠ 0)
    (hnar : a ≠ 2 ^ (N + 1)) :
    ((aligned (layoutOf (N + 2) es cap) (decode (N + 2) es a).fb (decode (N + 2) es a).frac
        (decode (N + 2) es a).scale : ℕ) : ℚ) * 2 ^ (-((layoutOf (N + 2) es cap).hr : ℤ))
      = |(decode (N + 2) es a).toRat| ∧
    -((layoutOf (N + 2) es cap).hr : ℤ) ≤ (decode (N + 2) es a).scale ∧
    (decode (N + 2) es a).scale ≤ ((layoutOf (N + 2) es cap).hr : ℤ) := by
  obtain ⟨hfin, _, _, y, hy0, hy, habs⟩ := decode_abs N es a ha h0 hnar
  obtain ⟨I, hI⟩ := posVal_int N es y hy0 hy
  obtain ⟨r1, r2⟩ := posVal_range N es y hy0 hy
  rw [← habs] at hI r1 r2
  have hH : (0 : ℤ) ≤ ((N * 2 ^ es : ℕ) : ℤ) := by positivity
  obtain ⟨s1, s2⟩ := scale_bounds _ hfin _ _ r1 r2
  refine ⟨?_, by rw [hr_cast]; omega, by rw [hr_cast]; omega⟩
  apply aligned_of_int _ _ hfin.nz (I * 2 ^ (N * 2 ^ es))
  have e : ((2 ^ (N * 2 ^ es) : ℕ) : ℚ) = (2 : ℚ) ^ ((N * 2 ^ es : ℕ) : ℤ) := by
    rw [zpow_natCast, Nat.cast_pow]; norm_num
  rw [Nat.cast_mul, e, hI, hr_cast, zpow_add₀ (by norm_num)]
  ring

/-- an exact posit product (`quire_mul`) lands in the quire without loss: it is a whole multiple of
    2^-hr = minpos², and its scale lies within ±hr -/
theorem product_operand_exact (N es cap a b : ℕ) (ha : a < 2 ^ (N + 2)) (ha0 : a ≠ 0)
    (hanar : a ≠ 2 ^ (N + 1)) (hb : b < 2 ^ (N + 2)) (hb0 : b ≠ 0) (hbnar : b ≠ 2 ^ (N + 1)) :
    quireMul (N + 2) es a b
      = moduleMul (fbitsOf (N + 2) es) (decode (N + 2) es a) (decode (N + 2) es b) ∧
    (quireMul (N + 2) es a b).Fin ∧
    (quireMul (N + 2) es a b).toRat = (decode (N + 2) es a).toRat * (decode (N + 2) es b).toRat ∧
    ((aligned (layoutOf (N + 2) es cap) (quireMul (N + 2) es a b).fb (quireMul (N + 2) es a b).frac
        (quireMul (N + 2) es a b).scale : ℕ) : ℚ) * 2 ^ (-((layoutOf (N + 2) es cap).hr : ℤ))
      = |(quireMul (N + 2) es a b).toRat| ∧
    -((layoutOf (N + 2) es cap).hr : ℤ) ≤ (quireMul (N + 2) es a b).scale ∧
    (quireMul (N + 2) es a b).scale ≤ ((layoutOf (N + 2) es cap).hr : ℤ) := by
  have hia : isNaR (N + 2) a = false := by
    rw [← Bool.not_eq_true, isNaR_iff (N + 2) a ha]; exact hanar
  have hib : isNaR (N + 2) b = false := by
    rw [← Bool.not_eq_true, isNaR_iff (N + 2) b hb]; exact hbnar
  have hq : quireMul (N + 2) es a b
      = moduleMul (fbitsOf (N + 2) es) (decode (N + 2) es a) (decode (N + 2) es b) := by
    unfold quireMul
    simp only [hia, hib, Nat.mod_eq_of_lt ha, Nat.mod_eq_of_lt hb, Bool.or_self, Bool.false_eq_true,
      if_false, ha0, hb0, decide_false]
  obtain ⟨fa, fba, _, ya, hya0, hya, habsa⟩ := decode_abs N es a ha ha0 hanar
  obtain ⟨fb', fbb, _, yb, hyb0, hyb, habsb⟩ := decode_abs N es b hb hb0 hbnar
  obtain ⟨fm, vm⟩ := moduleMul_exact (fbitsOf (N + 2) es) _ _ fa fb' fba fbb
  rw [hq]
  refine ⟨rfl, fm, vm, ?_⟩
  obtain ⟨Ia, hIa⟩ := posVal_int N es ya hya0 hya
  obtain ⟨Ib, hIb⟩ := posVal_int N es yb hyb0 hyb
  obtain ⟨a1, a2⟩ := posVal_range N es ya hya0 hya
  obtain ⟨b1, b2⟩ := posVal_range N es yb hyb0 hyb
  have hva := posVal_pos (N + 2) es ya (by omega) hya0 hya
  have hvb := posVal_pos (N + 2) es yb (by omega) hyb0 hyb
  have habs : |(moduleMul (fbitsOf (N + 2) es) (decode (N + 2) es a) (decode (N + 2) es b)).toRat|
      = posVal (N + 2) es ya * posVal (N + 2) es yb := by
    rw [vm, abs_mul, habsa, habsb]
  have hlo : (2 : ℚ) ^ (-(((layoutOf (N + 2) es cap).hr : ℕ) : ℤ)) ≤
      posVal (N + 2) es ya * posVal (N + 2) es yb := by
    rw [hr_cast, neg_add, zpow_add₀ (by norm_num)]
    have := two_zpow_pos (-((N * 2 ^ es : ℕ) : ℤ))
    exact mul_le_mul a1 b1 (le_of_lt this) (le_of_lt hva)
  have hhi : posVal (N + 2) es ya * posVal (N + 2) es yb ≤
      (2 : ℚ) ^ ((((layoutOf (N + 2) es cap).hr : ℕ) : ℤ)) := by
    rw [hr_cast, zpow_add₀ (by norm_num)]
    have := two_zpow_pos (((N * 2 ^ es : ℕ) : ℤ))
    exact mul_le_mul a2 b2 (le_of_lt hvb) (le_of_lt this)
  rw [← habs] at hlo hhi
  obtain ⟨s1, s2⟩ := scale_bounds _ fm _ _ hlo hhi
  refine ⟨?_, s1, s2⟩
  apply aligned_of_int _ _ fm.nz (Ia * Ib)
  rw [habs, hr_cast, zpow_add₀ (by norm_num), Nat.cast_mul, hIa, hIb]
  ring


/-! ### operands given by arbitrary (unreduced) encodings -/

theorem decode_mod (n es a : ℕ) : decode n es (a % 2 ^ n) = decode n es a := by
  unfold decode; simp only [Nat.mod_mod]

theorem positVal_mod (n es a : ℕ) : positVal n es (a % 2 ^ n) = positVal n es a := by
  unfold positVal; simp only [Nat.mod_mod]

theorem isNaR_mod (n a : ℕ) : isNaR n (a % 2 ^ n) = isNaR n a := by
  unfold isNaR; simp only [Nat.mod_mod]

/-- what the quire needs to know about an operand triple `v` whose exact value is `r` -/
def OperandOK (L : Layout) (v : Val) (r : ℚ) : Prop :=
  v.inf = false ∧ v.toRat = r ∧
  (v.zero = false →
    ((aligned L v.fb v.frac v.scale : ℕ) : ℚ) * 2 ^ (-(L.hr : ℤ)) = |r| ∧
    (r = if v.sign then -|r| else |r|) ∧ 0 < |r| ∧
    -(L.hr : ℤ) ≤ v.scale ∧ v.scale ≤ (L.hr : ℤ) ∧ v.frac < 2 ^ v.fb)

theorem toRat_sign (v : Val) (hz : v.zero = false) :
    v.toRat = (if v.sign then -|v.toRat| else |v.toRat|) ∧ 0 < |v.toRat| := by
  rw [toRat_eq_sgn v hz]
  have hv : 0 < valS v.scale ((v.frac : ℚ) / 2 ^ v.fb) := valS_pos (by positivity)
  unfold sgn
  cases v.sign <;> simp [abs_of_pos hv, hv]

theorem decode_operand (N es cap a : ℕ) (x : ℚ) (hx : positVal (N + 2) es a = some x) :
    OperandOK (layoutOf (N + 2) es cap) (decode (N + 2) es a) x := by
  have hlt : a % 2 ^ (N + 2) < 2 ^ (N + 2) := Nat.mod_lt _ (by positivity)
  rw [← positVal_mod] at hx
  rw [← decode_mod]
  generalize a % 2 ^ (N + 2) = a' at *
  have hnar : a' ≠ 2 ^ (N + 1) := fun h => by
    rw [(positVal_none_iff (N + 2) es a' hlt).mpr h] at hx; exact absurd hx (by simp)
  by_cases h0 : a' = 0
  · subst h0
    rw [(positVal_zero_iff (N + 2) es 0 (by omega) hlt).mpr rfl] at hx
    rw [← Option.some.inj hx]
    refine ⟨?_, ?_, ?_⟩ <;> simp [decode, Val.toRat]
  · obtain ⟨hfin, _, hv, _⟩ := decode_abs N es a' hlt h0 hnar
    obtain ⟨e1, e2, e3⟩ := posit_operand_exact N es cap a' hlt h0 hnar
    rw [hx] at hv
    have hxv := Option.some.inj hv
    rw [hxv]
    obtain ⟨t1, t2⟩ := toRat_sign _ hfin.nz
    exact ⟨hfin.ni, rfl, fun _ => ⟨e1, t1, t2, e2, e3, hfin.lt⟩⟩

theorem quireMul_mod (n es a b : ℕ) :
    quireMul n es (a % 2 ^ n) (b % 2 ^ n) = quireMul n es a b := by
  unfold quireMul
  simp only [isNaR_mod, Nat.mod_mod, decode_mod]

theorem quireMul_operand (N es cap a b : ℕ) (x y : ℚ) (hx : positVal (N + 2) es a = some x)
    (hy : positVal (N + 2) es b = some y) :
    OperandOK (layoutOf (N + 2) es cap) (quireMul (N + 2) es a b) (x * y) := by
  have hlta : a % 2 ^ (N + 2) < 2 ^ (N + 2) := Nat.mod_lt _ (by positivity)
  have hltb : b % 2 ^ (N + 2) < 2 ^ (N + 2) := Nat.mod_lt _ (by positivity)
  rw [← positVal_mod] at hx hy
  rw [← quireMul_mod]
  generalize a % 2 ^ (N + 2) = a' at *
  generalize b % 2 ^ (N + 2) = b' at *
  have hanar : a' ≠ 2 ^ (N + 1) := fun h => by
    rw [(positVal_none_iff (N + 2) es a' hlta).mpr h] at hx; exact absurd hx (by simp)
  have hbnar : b' ≠ 2 ^ (N + 1) := fun h => by
    rw [(positVal_none_iff (N + 2) es b' hltb).mpr h] at hy; exact absurd hy (by simp)
  have hia : isNaR (N + 2) a' = false := by
    rw [← Bool.not_eq_true, isNaR_iff (N + 2) a' hlta]; exact hanar
  have hib : isNaR (N + 2) b' = false := by
    rw [← Bool.not_eq_true, isNaR_iff (N + 2) b' hltb]; exact hbnar
  by_cases hz : a' = 0 ∨ b' = 0
  · have hxy : x * y = 0 := by
      rcases hz with rfl | rfl
      · rw [(positVal_zero_iff (N + 2) es 0 (by omega) hlta).mpr rfl] at hx
        rw [← Option.some.inj hx]; ring
      · rw [(positVal_zero_iff (N + 2) es 0 (by omega) hltb).mpr rfl] at hy
        rw [← Option.some.inj hy]; ring
    have hq : quireMul (N + 2) es a' b' = { fb := 2 * (fbitsOf (N + 2) es + 1), zero := true } := by
      unfold quireMul
      simp only [hia, hib, Nat.mod_eq_of_lt hlta, Nat.mod_eq_of_lt hltb, Bool.or_self, Bool.false_eq_true, if_false]
      have : (decide (a' = 0) || decide (b' = 0)) = true := by simpa using hz
      rw [if_pos this]
    rw [hq, hxy]
    refine ⟨rfl, ?_, ?_⟩ <;> simp [Val.toRat]
  · rw [not_or] at hz
    obtain ⟨_, hfin, hval, e1, e2, e3⟩ :=
      product_operand_exact N es cap a' b' hlta hz.1 hanar hltb hz.2 hbnar
    obtain ⟨_, _, hva, _⟩ := decode_abs N es a' hlta hz.1 hanar
    obtain ⟨_, _, hvb, _⟩ := decode_abs N es b' hltb hz.2 hbnar
    rw [hx] at hva; rw [hy] at hvb
    rw [Option.some.inj hva, Option.some.inj hvb, ← hval]
    obtain ⟨t1, t2⟩ := toRat_sign _ hfin.nz
    exact ⟨hfin.ni, rfl, fun _ => ⟨e1, t1, t2, e2, e3, hfin.lt⟩⟩

theorem negVal_operand (L : Layout) (v : Val) (r : ℚ) (h : OperandOK L v r) :
    OperandOK L (negVal v) (-r) := by
  obtain ⟨h1, h2, h3⟩ := h
  refine ⟨h1, ?_, ?_⟩
  · rw [← h2]; unfold negVal Val.toRat
    cases hz : v.zero <;> cases hs : v.sign <;> simp
  · intro hz
    obtain ⟨a1, a2, a3, a4, a5, a6⟩ := h3 hz
    refine ⟨by rw [abs_neg]; exact a1, ?_, by rw [abs_neg]; exact a3, a4, a5, a6⟩
    rw [abs_neg]
    show -r = if (!v.sign) = true then -|r| else |r|
    cases hs : v.sign
    · rw [hs] at a2; simp at a2 ⊢; linarith
    · rw [hs] at a2; simp at a2 ⊢; linarith

/-- exact real value of one accumulation step (`none` when an operand is NaR) -/
def opReal (n es : ℕ) : Op → Option ℚ
  | .addP a => positVal n es a
  | .subP a => (positVal n es a).map fun x => -x
  | .addM a b => (positVal n es a).bind fun x => (positVal n es b).map fun y => x * y
  | .subM a b => (positVal n es a).bind fun x => (positVal n es b).map fun y => -(x * y)

theorem opValue_operand (N es cap : ℕ) (op : Op) (r : ℚ) (hr : opReal (N + 2) es op = some r) :
    OperandOK (layoutOf (N + 2) es cap) (opValue (N + 2) es op) r := by
  cases op with
  | addP a => exact decode_operand N es cap a r hr
  | subP a =>
    simp only [opReal, Option.map_eq_some_iff] at hr
    obtain ⟨x, hx, rfl⟩ := hr
    exact negVal_operand _ _ _ (decode_operand N es cap a x hx)
  | addM a b =>
    simp only [opReal, Option.bind_eq_some_iff, Option.map_eq_some_iff] at hr
    obtain ⟨x, hx, y, hy, rfl⟩ := hr
    exact quireMul_operand N es cap a b x y hx hy
  | subM a b =>
    simp only [opReal, Option.bind_eq_some_iff, Option.map_eq_some_iff] at hr
    obtain ⟨x, hx, y, hy, rfl⟩ := hr
    exact negVal_operand _ _ _ (quireMul_operand N es cap a b x y hx hy)


/-- exact rational content of a quire state (units 2^-hr) -/
def qRat (L : Layout) (q : QState) : ℚ := (q.toInt L : ℚ) * 2 ^ (-(L.hr : ℤ))

theorem aligned_lt_range (L : Layout) (fb frac : Nat) (scale : Int) (hf : frac < 2 ^ fb)
    (hs : scale ≤ (L.hr : Int)) : aligned L fb frac scale < 2 ^ (L.hr + L.ur) := by
  unfold aligned
  simp only [Nat.shiftLeft_eq, Nat.shiftRight_eq_div_pow]
  have hF : 2 ^ fb + frac < 2 ^ (fb + 1) := by rw [Nat.pow_succ]; omega
  split
  · rename_i h
    have hk : ((L.hr : Int) + scale - (fb : Int)).toNat + (fb + 1) ≤ L.hr + L.ur := by unfold Layout.ur; omega
    calc (2 ^ fb + frac) * 2 ^ ((L.hr : Int) + scale - (fb : Int)).toNat
        < 2 ^ (fb + 1) * 2 ^ ((L.hr : Int) + scale - (fb : Int)).toNat :=
          Nat.mul_lt_mul_of_pos_right hF (Nat.two_pow_pos _)
      _ = 2 ^ (((L.hr : Int) + scale - (fb : Int)).toNat + (fb + 1)) := by rw [← Nat.pow_add, Nat.add_comm]
      _ ≤ 2 ^ (L.hr + L.ur) := Nat.pow_le_pow_right (by decide) hk
  · rename_i h
    have hk : fb + 1 ≤ (-((L.hr : Int) + scale - (fb : Int))).toNat + (L.hr + L.ur) := by unfold Layout.ur; omega
    apply (Nat.div_lt_iff_lt_mul (Nat.two_pow_pos _)).2
    calc 2 ^ fb + frac < 2 ^ (fb + 1) := hF
      _ ≤ 2 ^ ((-((L.hr : Int) + scale - (fb : Int))).toNat + (L.hr + L.ur)) := Nat.pow_le_pow_right (by decide) hk
      _ = 2 ^ (L.hr + L.ur) * 2 ^ (-((L.hr : Int) + scale - (fb : Int))).toNat := by rw [← Nat.pow_add, Nat.add_comm]

/-- one step of a history on real-valued operands: accepted, exact, invariant preserved -/
theorem step_spec (N es cap : ℕ) (q : QState) (hq : q.WF (layoutOf (N + 2) es cap))
    (hc : q.Canon (layoutOf (N + 2) es cap)) (op : Op) (r : ℚ)
    (hr : opReal (N + 2) es op = some r)
    (hfit : |qRat (layoutOf (N + 2) es cap) q + r|
      < 2 ^ (((layoutOf (N + 2) es cap).ur + (layoutOf (N + 2) es cap).cap : ℕ) : ℤ)) :
    ∃ q', step (N + 2) es (layoutOf (N + 2) es cap) q op = .ok q' ∧
      q'.WF (layoutOf (N + 2) es cap) ∧ q'.Canon (layoutOf (N + 2) es cap) ∧
      qRat (layoutOf (N + 2) es cap) q' = qRat (layoutOf (N + 2) es cap) q + r := by
  obtain ⟨hinf, hval, hnz⟩ := opValue_operand N es cap op r hr
  generalize layoutOf (N + 2) es cap = L at *
  unfold step
  simp only [hinf, Bool.false_eq_true, if_false]
  generalize opValue (N + 2) es op = v at *
  unfold addValue
  by_cases hz : v.zero = true
  · rw [if_pos hz]
    have : r = 0 := by rw [← hval]; unfold Val.toRat; simp [hz]
    exact ⟨q, rfl, hq, hc, by rw [this, add_zero]⟩
  · have hz' : v.zero = false := by simpa using hz
    obtain ⟨hA, hsg, hpos, hs1, hs2, hfr⟩ := hnz hz'
    simp only [hz', Bool.false_eq_true, if_false]
    rw [if_neg (by omega), if_neg (by omega)]
    set A := aligned L v.fb v.frac v.scale with hAdef
    have hAr := aligned_lt_range L v.fb v.frac v.scale hfr hs2
    have hu := two_zpow_pos (-(L.hr : ℤ))
    -- r in units
    have hrz : r = ((if v.sign then -(A : ℤ) else (A : ℤ) : ℤ) : ℚ) * 2 ^ (-(L.hr : ℤ)) := by
      rw [hsg, ← hA]
      cases v.sign <;> simp
    have hfitN : q.sign = v.sign → q.mag L + A < 2 ^ L.tot := by
      intro hs
      have hsum : qRat L q + r = ((if v.sign then -((q.mag L + A : ℕ) : ℤ) else ((q.mag L + A : ℕ) : ℤ) : ℤ) : ℚ)
          * 2 ^ (-(L.hr : ℤ)) := by
        rw [hrz]; unfold qRat QState.toInt; rw [hs]
        cases v.sign <;> simp <;> ring
      rw [hsum] at hfit
      have habs : |((if v.sign then -((q.mag L + A : ℕ) : ℤ) else ((q.mag L + A : ℕ) : ℤ) : ℤ) : ℚ)
          * 2 ^ (-(L.hr : ℤ))| = ((q.mag L + A : ℕ) : ℚ) * 2 ^ (-(L.hr : ℤ)) := by
        rw [abs_mul, abs_of_pos hu]
        have hnn : (0 : ℚ) ≤ (((q.mag L + A : ℕ) : ℤ) : ℚ) := by positivity
        have hcast : (((q.mag L + A : ℕ) : ℤ) : ℚ) = ((q.mag L + A : ℕ) : ℚ) := by norm_cast
        cases v.sign
        · simp only [Bool.false_eq_true, if_false]; rw [abs_of_nonneg hnn, hcast]
        · simp only [if_true]; rw [Int.cast_neg, abs_neg, abs_of_nonneg hnn, hcast]
      rw [habs] at hfit
      have h2 : ((q.mag L + A : ℕ) : ℚ) < 2 ^ ((L.ur + L.cap : ℕ) : ℤ) * 2 ^ ((L.hr : ℕ) : ℤ) := by
        have := mul_lt_mul_of_pos_right hfit (two_zpow_pos ((L.hr : ℕ) : ℤ))
        rw [mul_assoc, ← zpow_add₀ (by norm_num)] at this
        simpa using this
      rw [← zpow_add₀ (by norm_num), ← Nat.cast_add, zpow_natCast] at h2
      have h3 : ((q.mag L + A : ℕ) : ℚ) < ((2 ^ (L.ur + L.cap + L.hr) : ℕ) : ℚ) := by
        push_cast at h2 ⊢; exact h2
      have h4 : q.mag L + A < 2 ^ (L.ur + L.cap + L.hr) := by exact_mod_cast h3
      unfold Layout.tot
      rw [show L.hr + L.ur + L.cap = L.ur + L.cap + L.hr by ring]; exact h4
    obtain ⟨e, w, c⟩ := accumulate_spec L q v.sign A hq hc hAr hfitN
    refine ⟨_, rfl, w, c, ?_⟩
    unfold qRat
    rw [e, hrz]; push_cast; ring


/-- every prefix sum of the exact values, started from `z`, stays strictly below the bound `B` -/
def FitsQ (B : ℚ) : ℚ → List ℚ → Prop
  | _, [] => True
  | z, r :: rest => |z + r| < B ∧ FitsQ B (z + r) rest

/-- the operations of a history are real-valued with exact values `rs` -/
def RealOps (n es : ℕ) (ops : List Op) (rs : List ℚ) : Prop :=
  List.Forall₂ (fun op r => opReal n es op = some r) ops rs

theorem history_spec (N es cap : ℕ) (ops : List Op) (rs : List ℚ)
    (h : RealOps (N + 2) es ops rs) :
    ∀ q : QState, q.WF (layoutOf (N + 2) es cap) → q.Canon (layoutOf (N + 2) es cap) →
      FitsQ (2 ^ (((layoutOf (N + 2) es cap).ur + (layoutOf (N + 2) es cap).cap : ℕ) : ℤ))
        (qRat (layoutOf (N + 2) es cap) q) rs →
      ∃ q', ops.foldlM (step (N + 2) es (layoutOf (N + 2) es cap)) q = .ok q' ∧
        q'.WF (layoutOf (N + 2) es cap) ∧ q'.Canon (layoutOf (N + 2) es cap) ∧
        qRat (layoutOf (N + 2) es cap) q' = qRat (layoutOf (N + 2) es cap) q + rs.sum := by
  unfold RealOps at h
  induction h with
  | nil =>
    intro q hq hc _
    exact ⟨q, rfl, hq, hc, by simp⟩
  | cons hr _ ih =>
    intro q hq hc hf
    obtain ⟨hf1, hf2⟩ := hf
    obtain ⟨q1, e1, w1, c1, v1⟩ := step_spec N es cap q hq hc _ _ hr hf1
    rw [← v1] at hf2
    obtain ⟨q2, e2, w2, c2, v2⟩ := ih q1 w1 c1 hf2
    refine ⟨q2, ?_, w2, c2, ?_⟩
    · rw [List.foldlM_cons, e1]; exact e2
    · rw [v2, v1, List.sum_cons]; ring

end UVerif.Quire
