/-
  Round-half-to-even (UVerif.rne on Rat) of an integer quotient, in integer terms.
-/
import UVerif.Basic
import Mathlib.Data.Rat.Floor
import Mathlib.Tactic.Ring
import Mathlib.Tactic.Linarith
import Mathlib.Tactic.FieldSimp

namespace UVerif

/-- round-half-even of an integer divided by a positive natural, in integer terms:
    floor quotient, plus one when the remainder is above half, or exactly half with an odd quotient -/
theorem rne_int_div (p : Int) (D : Nat) (hD : 0 < D) :
    rne ((p : Rat) / (D : Rat)) =
      p / (D : Int) + (if 2 * (p % (D : Int)) > (D : Int) ∨ (2 * (p % (D : Int)) = (D : Int) ∧ (p / (D : Int)) % 2 ≠ 0) then 1 else 0) := by
  have hDq : (0 : Rat) < (D : Rat) := by exact_mod_cast hD
  have hfl : ((p : Rat) / (D : Rat)).floor = p / (D : Int) := by
    show ⌊(p : Rat) / (D : Rat)⌋ = _
    exact Rat.floor_intCast_div_natCast p D
  have hdm := Int.mul_ediv_add_emod p (D : Int)
  have hfrac : (p : Rat) / (D : Rat) - ((p / (D : Int) : Int) : Rat) = ((p % (D : Int) : Int) : Rat) / (D : Rat) := by
    have : (p : Rat) = (D : Rat) * ((p / (D : Int) : Int) : Rat) + ((p % (D : Int) : Int) : Rat) := by
      have h' : (((D : Int) * (p / (D : Int)) + p % (D : Int) : Int) : Rat) = (p : Rat) := by rw [hdm]
      push_cast at h'
      linarith
    field_simp
    linarith
  unfold rne
  simp only
  rw [hfl, hfrac]
  generalize hR : p % (D : Int) = R
  generalize hQ : p / (D : Int) = Q
  have hlt : ((R : Rat) / (D : Rat) < 1 / 2) ↔ 2 * R < (D : Int) := by
    rw [div_lt_iff₀ hDq]
    constructor
    · intro h
      have : (2 : Rat) * (R : Rat) < (D : Rat) := by linarith
      exact_mod_cast this
    · intro h
      have : (2 : Rat) * (R : Rat) < (D : Rat) := by exact_mod_cast h
      linarith
  have hgt : ((R : Rat) / (D : Rat) > 1 / 2) ↔ 2 * R > (D : Int) := by
    rw [gt_iff_lt, lt_div_iff₀ hDq]
    constructor
    · intro h
      have : (D : Rat) < (2 : Rat) * (R : Rat) := by linarith
      exact_mod_cast this
    · intro h
      have : (D : Rat) < (2 : Rat) * (R : Rat) := by exact_mod_cast h
      linarith
  by_cases h1 : 2 * R < (D : Int)
  · rw [if_pos (hlt.mpr h1), if_neg (by omega)]; simp
  · rw [if_neg (fun h => h1 (hlt.mp h))]
    by_cases h2 : 2 * R > (D : Int)
    · rw [if_pos (hgt.mpr h2), if_pos (Or.inl h2)]
    · rw [if_neg (fun h => h2 (hgt.mp h))]
      have h3 : 2 * R = (D : Int) := by omega
      by_cases h4 : Q % 2 = 0
      · rw [if_pos h4, if_neg (by omega)]; simp
      · rw [if_neg h4, if_pos (Or.inr ⟨h3, h4⟩)]

/-- the integer form of the RNE increment -/
def rneInc (rem D q : Int) : Int := if 2 * rem > D ∨ (2 * rem = D ∧ q % 2 ≠ 0) then 1 else 0

theorem rne_int_div' (p : Int) (D : Nat) (hD : 0 < D) :
    rne ((p : Rat) / (D : Rat)) = p / (D : Int) + rneInc (p % (D : Int)) D (p / (D : Int)) := rne_int_div p D hD

/-- no-tie lemma of the fixpnt division: with `n` extra quotient bits the truncated quotient `Q = ⌊T·2^n / Y⌋`
    decides round-to-nearest-even of `T / Y` correctly, because `Y ≤ 2^(n-1)` -/
theorem div_no_tie (T Y n : Nat) (hY : 0 < Y) (hn : 0 < n) (hYn : Y ≤ 2 ^ (n - 1)) :
    let Q := T * 2 ^ n / Y
    Q / 2 ^ n = T / Y ∧
    rneInc ((Q % 2 ^ n : Nat) : Int) ((2 ^ n : Nat) : Int) ((Q / 2 ^ n : Nat) : Int) = rneInc ((T % Y : Nat) : Int) (Y : Int) ((T / Y : Nat) : Int) := by
  intro Q
  have hp : 2 ^ n = 2 ^ (n - 1) * 2 := by rw [← Nat.pow_succ]; congr 1; omega
  have hP := Nat.two_pow_pos (n - 1)
  have hdm := Nat.div_add_mod T Y
  set f := T / Y with hf
  set ρ := T % Y with hρ
  have hρlt : ρ < Y := Nat.mod_lt _ hY
  -- Q = f·2^n + g with g = ⌊ρ·2^n / Y⌋ < 2^n
  have hQ : Q = f * 2 ^ n + ρ * 2 ^ n / Y := by
    show T * 2 ^ n / Y = _
    rw [← hdm, Nat.add_mul, Nat.mul_assoc, Nat.mul_add_div hY]
  set g := ρ * 2 ^ n / Y with hg
  have hglt : g < 2 ^ n := by
    apply Nat.div_lt_of_lt_mul
    exact Nat.mul_lt_mul_of_pos_right hρlt (Nat.two_pow_pos n)
  have hQdiv : Q / 2 ^ n = f := by
    rw [hQ, Nat.add_comm, Nat.add_mul_div_right _ _ (Nat.two_pow_pos n), Nat.div_eq_of_lt hglt, Nat.zero_add]
  have hQmod : Q % 2 ^ n = g := by
    rw [hQ, Nat.add_comm, Nat.add_mul_mod_self_right, Nat.mod_eq_of_lt hglt]
  refine ⟨hQdiv, ?_⟩
  rw [hQdiv, hQmod]
  -- g·Y ≤ ρ·2^n < (g+1)·Y
  have hg1 : g * Y ≤ ρ * 2 ^ n := Nat.div_mul_le_self _ _
  have hg2 : ρ * 2 ^ n < (g + 1) * Y := by
    rw [Nat.mul_comm (g + 1) Y]; exact Nat.lt_mul_div_succ (ρ * 2 ^ n) hY
  unfold rneInc
  have c1 : (2 * ((g : Nat) : Int) > ((2 ^ n : Nat) : Int)) ↔ 2 * g > 2 ^ n := by
    constructor <;> (intro h; exact_mod_cast h)
  have c2 : (2 * ((g : Nat) : Int) = ((2 ^ n : Nat) : Int)) ↔ 2 * g = 2 ^ n := by
    constructor <;> (intro h; exact_mod_cast h)
  have c3 : (2 * ((ρ : Nat) : Int) > (Y : Int)) ↔ 2 * ρ > Y := by
    constructor <;> (intro h; exact_mod_cast h)
  have c4 : (2 * ((ρ : Nat) : Int) = (Y : Int)) ↔ 2 * ρ = Y := by
    constructor <;> (intro h; exact_mod_cast h)
  -- trichotomy on 2ρ vs Y transfers to 2g vs 2^n
  rcases Nat.lt_trichotomy (2 * ρ) Y with hlt | heq | hgt
  · have h2g : 2 * g < 2 ^ n := by
      by_contra hc
      have hge : 2 ^ n ≤ 2 * g := Nat.le_of_not_lt hc
      have : 2 ^ n * Y ≤ 2 * g * Y := Nat.mul_le_mul_right _ hge
      have h3 : 2 * g * Y ≤ 2 * (ρ * 2 ^ n) := by rw [Nat.mul_assoc]; exact Nat.mul_le_mul_left _ hg1
      have h4 : 2 * (ρ * 2 ^ n) = 2 * ρ * 2 ^ n := by ring
      have h5 : 2 * ρ * 2 ^ n < Y * 2 ^ n := Nat.mul_lt_mul_of_pos_right hlt (Nat.two_pow_pos n)
      have h6 : 2 ^ n * Y = Y * 2 ^ n := Nat.mul_comm _ _
      omega
    rw [if_neg, if_neg]
    · rintro (h | ⟨h, _⟩)
      · have := c3.mp h; omega
      · have := c4.mp h; omega
    · rintro (h | ⟨h, _⟩)
      · have := c1.mp h; omega
      · have := c2.mp h; omega
  · have hgv : g = 2 ^ (n - 1) := by
      rw [hg]
      have : ρ * 2 ^ n = 2 ^ (n - 1) * Y := by rw [← heq, hp]; ring
      rw [this, Nat.mul_div_cancel _ hY]
    have h2g : 2 * g = 2 ^ n := by rw [hgv, hp]; ring
    by_cases hpar : ((f : Nat) : Int) % 2 ≠ 0
    · rw [if_pos (Or.inr ⟨c2.mpr h2g, hpar⟩), if_pos (Or.inr ⟨c4.mpr heq, hpar⟩)]
    · rw [if_neg, if_neg]
      · rintro (h | ⟨_, h⟩)
        · have := c3.mp h; omega
        · exact hpar h
      · rintro (h | ⟨_, h⟩)
        · have := c1.mp h; omega
        · exact hpar h
  · have h2g : 2 * g > 2 ^ n := by
      -- ρ·2^n ≥ (Y+1)·2^(n-1) ≥ Y·(2^(n-1)+1), so g ≥ 2^(n-1)+1
      have h1 : (Y + 1) * 2 ^ (n - 1) ≤ ρ * 2 ^ n := by
        rw [hp, ← Nat.mul_assoc]
        have : Y + 1 ≤ ρ * 2 := by omega
        calc (Y + 1) * 2 ^ (n - 1) ≤ ρ * 2 * 2 ^ (n - 1) := Nat.mul_le_mul_right _ this
          _ = ρ * 2 ^ (n - 1) * 2 := by ring
      have h2 : Y * (2 ^ (n - 1) + 1) ≤ (Y + 1) * 2 ^ (n - 1) := by
        have e1 : Y * (2 ^ (n - 1) + 1) = Y * 2 ^ (n - 1) + Y := by ring
        have e2 : (Y + 1) * 2 ^ (n - 1) = Y * 2 ^ (n - 1) + 2 ^ (n - 1) := by ring
        omega
      have h3 : 2 ^ (n - 1) + 1 ≤ g := by
        rw [hg, Nat.le_div_iff_mul_le hY, Nat.mul_comm]
        exact Nat.le_trans h2 h1
      omega
    rw [if_pos (Or.inl (c1.mpr h2g)), if_pos (Or.inl (c3.mpr hgt))]

/-- round-half-even is odd: negating the numerator negates the result -/
theorem rne_neg_div (T Y : Nat) (hY : 0 < Y) :
    rne (((-(T : Int) : Int) : Rat) / (Y : Rat)) = -rne (((T : Int) : Rat) / (Y : Rat)) := by
  rw [rne_int_div' _ Y hY, rne_int_div' _ Y hY]
  have hYi : (0 : Int) < (Y : Int) := by exact_mod_cast hY
  have hdm := Int.mul_ediv_add_emod (T : Int) (Y : Int)
  have hr0 := Int.emod_nonneg (T : Int) (ne_of_gt hYi)
  have hr1 := Int.emod_lt_of_pos (T : Int) hYi
  generalize hf : (T : Int) / (Y : Int) = f at *
  generalize hρ : (T : Int) % (Y : Int) = ρ at *
  by_cases h0 : ρ = 0
  · have hq : (-(T : Int)) / (Y : Int) = -f ∧ (-(T : Int)) % (Y : Int) = 0 := by
      rw [Int.ediv_emod_unique hYi]
      refine ⟨by rw [← hdm, h0]; ring, le_refl _, hYi⟩
    rw [hq.1, hq.2, h0]
    unfold rneInc
    rw [if_neg (by omega), if_neg (by omega)]; ring
  · have hq : (-(T : Int)) / (Y : Int) = -f - 1 ∧ (-(T : Int)) % (Y : Int) = (Y : Int) - ρ := by
      rw [Int.ediv_emod_unique hYi]
      refine ⟨by rw [← hdm]; ring, by omega, by omega⟩
    rw [hq.1, hq.2]
    rcases lt_trichotomy (2 * ρ) (Y : Int) with hlt | heq | hgt
    · have e1 : rneInc ((Y : Int) - ρ) (Y : Int) (-f - 1) = 1 := by unfold rneInc; rw [if_pos (Or.inl (by omega))]
      have e2 : rneInc ρ (Y : Int) f = 0 := by
        unfold rneInc; rw [if_neg]; rintro (h | ⟨h, _⟩) <;> omega
      rw [e1, e2]; ring
    · by_cases hpar : f % 2 ≠ 0
      · have e1 : rneInc ((Y : Int) - ρ) (Y : Int) (-f - 1) = 0 := by
          unfold rneInc; rw [if_neg]; rintro (h | ⟨_, h⟩) <;> omega
        have e2 : rneInc ρ (Y : Int) f = 1 := by unfold rneInc; rw [if_pos (Or.inr ⟨heq, hpar⟩)]
        rw [e1, e2]; ring
      · have e1 : rneInc ((Y : Int) - ρ) (Y : Int) (-f - 1) = 1 := by
          unfold rneInc; rw [if_pos (Or.inr ⟨by omega, by omega⟩)]
        have e2 : rneInc ρ (Y : Int) f = 0 := by
          unfold rneInc; rw [if_neg]; rintro (h | ⟨_, h⟩)
          · omega
          · exact hpar h
        rw [e1, e2]; ring
    · have e1 : rneInc ((Y : Int) - ρ) (Y : Int) (-f - 1) = 0 := by
        unfold rneInc; rw [if_neg]; rintro (h | ⟨h, _⟩) <;> omega
      have e2 : rneInc ρ (Y : Int) f = 1 := by unfold rneInc; rw [if_pos (Or.inl hgt)]
      rw [e1, e2]; ring

end UVerif
