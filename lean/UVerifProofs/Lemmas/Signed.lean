import UVerif.Basic
import Mathlib.Tactic.Ring
import Mathlib.Tactic.Linarith
import Mathlib.Data.Int.ModEq

namespace UVerif

/-- the signed reading is the pattern (reduced) plus a multiple of 2^n -/
theorem toSigned_decomp (n A : Nat) : ∃ k : Int, toSigned n A = ((A % 2 ^ n : Nat) : Int) + k * ((2 ^ n : Nat) : Int) := by
  unfold toSigned
  by_cases hn : n = 0
  · subst hn; exact ⟨0, by simp [Nat.mod_one]⟩
  · rw [if_neg hn]
    simp only
    split
    · exact ⟨0, by simp⟩
    · exact ⟨-1, by ring⟩

theorem ofSigned_lt (n : Nat) (x : Int) : ofSigned n x < 2 ^ n := by
  unfold ofSigned
  have hm : (0 : Int) < ((2 ^ n : Nat) : Int) := by exact_mod_cast Nat.two_pow_pos n
  have h1 := Int.emod_nonneg x (ne_of_gt hm)
  have h2 := Int.emod_lt_of_pos x hm
  omega

/-- `ofSigned` only depends on the residue -/
theorem ofSigned_congr (n : Nat) {x y : Int} (h : (((2 ^ n : Nat) : Int)) ∣ x - y) : ofSigned n x = ofSigned n y := by
  unfold ofSigned
  rw [(Int.emod_eq_emod_iff_emod_sub_eq_zero).mpr (Int.emod_eq_zero_of_dvd h)]

theorem ofSigned_natCast (n A : Nat) : ofSigned n (A : Int) = A % 2 ^ n := by
  unfold ofSigned
  rw [← Int.natCast_mod, Int.toNat_natCast]

theorem natCast_mod_decomp (A m : Nat) : ∃ q : Int, (A : Int) = ((A % m : Nat) : Int) + q * (m : Int) :=
  ⟨((A / m : Nat) : Int), by exact_mod_cast (Nat.mod_add_div' A m).symm⟩

theorem ofSigned_toSigned (n A : Nat) : ofSigned n (toSigned n A) = A % 2 ^ n := by
  rw [← ofSigned_natCast]
  apply ofSigned_congr
  obtain ⟨k, hk⟩ := toSigned_decomp n A
  obtain ⟨q, hq⟩ := natCast_mod_decomp A (2 ^ n)
  exact ⟨k - q, by rw [hk, hq]; ring⟩

theorem ofSigned_add (n A B : Nat) : ofSigned n (toSigned n A + toSigned n B) = (A + B) % 2 ^ n := by
  rw [← ofSigned_natCast]
  apply ofSigned_congr
  obtain ⟨k, hk⟩ := toSigned_decomp n A
  obtain ⟨q, hq⟩ := natCast_mod_decomp A (2 ^ n)
  obtain ⟨k', hk'⟩ := toSigned_decomp n B
  obtain ⟨q', hq'⟩ := natCast_mod_decomp B (2 ^ n)
  exact ⟨k - q + k' - q', by push_cast; rw [hk, hk', hq, hq']; push_cast; ring⟩


theorem ofSigned_mul (n A B : Nat) : ofSigned n (toSigned n A * toSigned n B) = (A * B) % 2 ^ n := by
  rw [← ofSigned_natCast]
  apply ofSigned_congr
  obtain ⟨k, hk⟩ := toSigned_decomp n A
  obtain ⟨q, hq⟩ := natCast_mod_decomp A (2 ^ n)
  obtain ⟨k', hk'⟩ := toSigned_decomp n B
  obtain ⟨q', hq'⟩ := natCast_mod_decomp B (2 ^ n)
  generalize ((A % 2 ^ n : Nat) : Int) = a at *
  generalize ((B % 2 ^ n : Nat) : Int) = b at *
  generalize ((2 ^ n : Nat) : Int) = m at *
  refine ⟨a * (k' - q') + (k - q) * b + (k * k' - q * q') * m, ?_⟩
  push_cast; rw [hk, hk', hq, hq']; ring

theorem ofSigned_neg (n A : Nat) : ofSigned n (-(toSigned n A)) = (2 ^ n - A % 2 ^ n) % 2 ^ n := by
  rw [← ofSigned_natCast]
  apply ofSigned_congr
  obtain ⟨k, hk⟩ := toSigned_decomp n A
  have hlt : A % 2 ^ n ≤ 2 ^ n := le_of_lt (Nat.mod_lt _ (Nat.two_pow_pos n))
  refine ⟨-k - 1, ?_⟩
  rw [hk, Nat.cast_sub hlt]; ring

theorem ofSigned_sub (n A B : Nat) : ofSigned n (toSigned n A - toSigned n B) = (A + (2 ^ n - B % 2 ^ n)) % 2 ^ n := by
  rw [← ofSigned_natCast]
  apply ofSigned_congr
  obtain ⟨k, hk⟩ := toSigned_decomp n A
  obtain ⟨q, hq⟩ := natCast_mod_decomp A (2 ^ n)
  obtain ⟨k', hk'⟩ := toSigned_decomp n B
  have hlt : B % 2 ^ n ≤ 2 ^ n := le_of_lt (Nat.mod_lt _ (Nat.two_pow_pos n))
  refine ⟨k - q - k' - 1, ?_⟩
  rw [Nat.cast_add, Nat.cast_sub hlt, hk, hk', hq]; ring

theorem ofSigned_add_const (n A : Nat) (c : Int) : ofSigned n (toSigned n A + c) = ofSigned n ((A : Int) + c) := by
  apply ofSigned_congr
  obtain ⟨k, hk⟩ := toSigned_decomp n A
  obtain ⟨q, hq⟩ := natCast_mod_decomp A (2 ^ n)
  exact ⟨k - q, by rw [hk, hq]; ring⟩

/-- a pattern below 2^n read as signed and wrapped again is itself -/
theorem ofSigned_toSigned_of_lt {n A : Nat} (h : A < 2 ^ n) : ofSigned n (toSigned n A) = A := by
  rw [ofSigned_toSigned, Nat.mod_eq_of_lt h]

/-- modulus 2^n as an integer -/
abbrev M2 (n : Nat) : Int := ((2 ^ n : Nat) : Int)

theorem M2_pos (n : Nat) : 0 < M2 n := by unfold M2; exact_mod_cast Nat.two_pow_pos n

theorem M2_succ (n : Nat) : M2 (n + 1) = 2 * M2 n := by unfold M2; push_cast; ring

theorem modEq_toSigned (n A : Nat) : toSigned n A ≡ (A : Int) [ZMOD M2 n] := by
  obtain ⟨k, hk⟩ := toSigned_decomp n A
  obtain ⟨q, hq⟩ := natCast_mod_decomp A (2 ^ n)
  rw [Int.modEq_iff_dvd]
  exact ⟨q - k, by rw [hk, hq]; unfold M2; ring⟩

theorem modEq_natMod (X n : Nat) : ((X % 2 ^ n : Nat) : Int) ≡ (X : Int) [ZMOD M2 n] := by
  obtain ⟨q, hq⟩ := natCast_mod_decomp X (2 ^ n)
  rw [Int.modEq_iff_dvd]
  exact ⟨q, by rw [hq]; unfold M2; ring⟩

theorem modEq_ofSigned (n : Nat) (z : Int) : ((ofSigned n z : Nat) : Int) ≡ z [ZMOD M2 n] := by
  unfold ofSigned
  rw [Int.toNat_of_nonneg (Int.emod_nonneg _ (ne_of_gt (M2_pos n)))]
  exact Int.mod_modEq _ _

theorem eq_ofSigned_of_modEq {r n : Nat} {z : Int} (hr : r < 2 ^ n) (h : (r : Int) ≡ z [ZMOD M2 n]) : r = ofSigned n z := by
  unfold ofSigned
  have : z % M2 n = (r : Int) := by
    rw [← h]
    exact Int.emod_eq_of_lt (by omega) (by unfold M2; exact_mod_cast hr)
  show r = (z % M2 n).toNat
  rw [this, Int.toNat_natCast]

theorem modEq_of_le {n m : Nat} (h : n ≤ m) {a b : Int} (hab : a ≡ b [ZMOD M2 m]) : a ≡ b [ZMOD M2 n] := by
  apply Int.ModEq.of_dvd _ hab
  unfold M2
  exact_mod_cast Nat.pow_dvd_pow 2 h

theorem toSigned_ofSigned_fits {N : Nat} {x : Int} (hN : 0 < N) (h1 : -(M2 (N - 1)) ≤ x) (h2 : x < M2 (N - 1)) :
    toSigned N (ofSigned N x) = x := by
  have hM : M2 N = 2 * M2 (N - 1) := by
    have := M2_succ (N - 1); rwa [Nat.sub_add_cancel hN] at this
  have hp := M2_pos (N - 1)
  unfold toSigned
  rw [if_neg (by omega)]
  have hlt := ofSigned_lt N x
  rw [Nat.mod_eq_of_lt hlt]
  simp only
  have hcast : ((2 ^ (N - 1) : Nat) : Int) = M2 (N - 1) := rfl
  have hcastN : ((2 ^ N : Nat) : Int) = M2 N := rfl
  by_cases hx : 0 ≤ x
  · have e : ofSigned N x = x.toNat := by
      unfold ofSigned
      show (x % M2 N).toNat = x.toNat
      rw [Int.emod_eq_of_lt hx (by omega)]
    rw [e]
    have : x.toNat < 2 ^ (N - 1) := by
      have : ((x.toNat : Nat) : Int) < ((2 ^ (N - 1) : Nat) : Int) := by rw [Int.toNat_of_nonneg hx]; exact h2
      exact_mod_cast this
    rw [if_pos this, Int.toNat_of_nonneg hx]
  · have e : ((ofSigned N x : Nat) : Int) = x + M2 N := by
      unfold ofSigned
      show (((x % M2 N).toNat : Nat) : Int) = x + M2 N
      rw [Int.toNat_of_nonneg (Int.emod_nonneg _ (ne_of_gt (M2_pos N)))]
      rw [← Int.add_mul_emod_self_left x (M2 N) 1, Int.mul_one]
      exact Int.emod_eq_of_lt (by omega) (by omega)
    have : ¬ (ofSigned N x < 2 ^ (N - 1)) := by
      intro hc
      have : ((ofSigned N x : Nat) : Int) < ((2 ^ (N - 1) : Nat) : Int) := by exact_mod_cast hc
      rw [e, hcast] at this; omega
    rw [if_neg this, e, hcastN]; ring

/-- range of the signed reading -/
theorem toSigned_range {n : Nat} (hn : 0 < n) (A : Nat) : -(M2 (n - 1)) ≤ toSigned n A ∧ toSigned n A < M2 (n - 1) := by
  have hM : M2 n = 2 * M2 (n - 1) := by
    have := M2_succ (n - 1); rwa [Nat.sub_add_cancel hn] at this
  have hlt : ((A % 2 ^ n : Nat) : Int) < M2 n := by unfold M2; exact_mod_cast Nat.mod_lt _ (Nat.two_pow_pos n)
  unfold toSigned
  rw [if_neg (by omega)]
  simp only
  have hcast : ((2 ^ (n - 1) : Nat) : Int) = M2 (n - 1) := rfl
  have hcastN : ((2 ^ n : Nat) : Int) = M2 n := rfl
  split
  · rename_i h
    have : ((A % 2 ^ n : Nat) : Int) < ((2 ^ (n - 1) : Nat) : Int) := by exact_mod_cast h
    rw [hcast] at this
    constructor <;> omega
  · rename_i h
    have : ((2 ^ (n - 1) : Nat) : Int) ≤ ((A % 2 ^ n : Nat) : Int) := by exact_mod_cast (Nat.le_of_not_lt h)
    rw [hcast] at this
    rw [hcastN]
    constructor <;> omega

end UVerif
