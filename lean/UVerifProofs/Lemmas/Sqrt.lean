/-
  Lemmas for C17: the loop invariant of integer floor_sqrt.
-/
import Mathlib.Tactic.Linarith
import UVerif.Model.Sqrt
import UVerif.Spec.Sqrt
import UVerifProofs.Lemmas.Fast

namespace UVerif.Sqrt

theorem sq_le_sq_of_le {a b : Nat} (h : a ≤ b) : a * a ≤ b * b := Nat.mul_le_mul h h

/-- Loop invariant of `floor_sqrt`: start = root + 1, root² ≤ a < (stop+1)², and the fuel covers the remaining interval. -/
theorem floorSqrtLoop_spec (a : Nat) :
    ∀ (fuel start stop root : Nat),
      start = root + 1 → root * root ≤ a → a < (stop + 1) * (stop + 1) → stop + 1 - start < fuel →
      (floorSqrtLoop a fuel start stop root) * (floorSqrtLoop a fuel start stop root) ≤ a ∧
      a < (floorSqrtLoop a fuel start stop root + 1) * (floorSqrtLoop a fuel start stop root + 1) := by
  intro fuel
  induction fuel with
  | zero => intro start stop root _ _ _ h; omega
  | succ fuel ih =>
    intro start stop root hs hr hu hf
    unfold floorSqrtLoop
    by_cases hle : start ≤ stop
    · simp only [hle, if_true]
      -- mid
      have hmid1 : start ≤ start + (stop - start) / 2 := Nat.le_add_right _ _
      have hmid2 : start + (stop - start) / 2 ≤ stop := by omega
      have hpos : 0 < start + (stop - start) / 2 := by omega
      generalize hm : start + (stop - start) / 2 = mid at *
      have hq1 : mid * (a / mid) ≤ a := Nat.mul_div_le a mid
      have hq2 : a < mid * (a / mid + 1) := by
        have := Nat.lt_mul_div_succ a hpos
        simpa [Nat.mul_comm] using this
      generalize hqd : a / mid = q at *
      by_cases heq : mid = q
      · simp only [heq, if_true]
        subst heq
        refine ⟨hq1, ?_⟩
        have : mid * (mid + 1) ≤ (mid + 1) * (mid + 1) := Nat.mul_le_mul_right _ (Nat.le_succ _)
        omega
      · simp only [heq, if_false]
        by_cases hlt : mid < q
        · simp only [hlt, if_true]
          apply ih (mid + 1) stop mid rfl
          · have : mid * mid ≤ mid * q := Nat.mul_le_mul_left _ (Nat.le_of_lt hlt)
            omega
          · exact hu
          · omega
        · simp only [hlt, if_false]
          have hgt : q + 1 ≤ mid := by omega
          have hsub : mid - 1 + 1 = mid := by omega
          apply ih start (mid - 1) root hs hr
          · rw [hsub]
            have : mid * (q + 1) ≤ mid * mid := Nat.mul_le_mul_left _ hgt
            omega
          · omega
    · simp only [hle, if_false]
      refine ⟨hr, ?_⟩
      have h1 : stop + 1 ≤ root + 1 := by omega
      have := sq_le_sq_of_le h1
      omega

/-- floor_sqrt on naturals: r² ≤ a < (r+1)² for every a -/
theorem intSqrt_bounds (a : Nat) : intSqrt a * intSqrt a ≤ a ∧ a < (intSqrt a + 1) * (intSqrt a + 1) := by
  unfold intSqrt
  by_cases h : a ≤ 1
  · have : a = 0 ∨ a = 1 := by omega
    rcases this with rfl | rfl <;> decide
  · simp only [h, if_false]
    exact floorSqrtLoop_spec a (a + 1) 1 a 0 rfl (by omega)
      (by have : a * a + 2 * a + 1 = (a + 1) * (a + 1) := by
            rw [Nat.add_mul, Nat.mul_add, Nat.mul_add]; omega
          omega)
      (by omega)

/-- the top bit of a (k+1)-bit number that is at least 2^k -/
theorem and_top_bit (k a : Nat) (h1 : 2 ^ k ≤ a) (h2 : a < 2 ^ (k + 1)) : a &&& 2 ^ k = 2 ^ k := by
  have hb : a.testBit k = true := by
    rw [Nat.testBit_eq_decide_div_mod_eq]
    have hq : a / 2 ^ k = 1 := by
      apply Nat.div_eq_of_lt_le
      · omega
      · rw [Nat.pow_succ] at h2; omega
    simp [hq]
  apply Nat.eq_of_testBit_eq
  intro i
  rw [Nat.testBit_and, Nat.testBit_two_pow]
  by_cases h : k = i
  · subst h; simp [hb]
  · simp [h]


theorem toSigned_one (n : Nat) (hn : 2 ≤ n) : toSigned n 1 = 1 := by
  unfold toSigned
  have h0 : n ≠ 0 := by omega
  have hp := two_pow_pred n (by omega)
  have hp2 : 2 ≤ 2 ^ (n - 1) := by
    have := two_pow_pred (n - 1) (by omega)
    have := Nat.two_pow_pos (n - 1 - 1)
    omega
  have hm : 1 % 2 ^ n = 1 := Nat.mod_eq_of_lt (by omega)
  simp only [h0, if_false, hm]
  have : (1:Nat) < 2 ^ (n - 1) := by omega
  simp [this]

theorem toSigned_allones (n : Nat) (hn : 2 ≤ n) : toSigned n (2 ^ n - 1) = -1 := by
  unfold toSigned
  have h0 : n ≠ 0 := by omega
  have hp := two_pow_pred n (by omega)
  have hpos := Nat.two_pow_pos (n - 1)
  have hm : (2 ^ n - 1) % 2 ^ n = 2 ^ n - 1 := Nat.mod_eq_of_lt (by omega)
  simp only [h0, if_false, hm]
  have : ¬ (2 ^ n - 1 < 2 ^ (n - 1)) := by omega
  simp only [this, if_false]
  have : ((2 ^ n - 1 : Nat) : Int) = (2 ^ n : Nat) - 1 := by
    have := Nat.two_pow_pos n
    omega
  omega

theorem fixSqrt_one (n rb : Nat) (hn : 2 ≤ n) : fixSqrt n rb 1 = 0 := by
  have hp := two_pow_pred n (by omega)
  have hpos := Nat.two_pow_pos (n - 1)
  have h1 : 1 % 2 ^ n = 1 := Nat.mod_eq_of_lt (by omega)
  have hx0 : fxShr1 n 1 = 0 := by
    unfold fxShr1
    rw [toSigned_one n hn]
    have : Int.fdiv 1 2 = 0 := by decide
    rw [this]
    simp [ofSigned]
  have hmul : fxMul n rb 0 0 = 0 := by
    unfold fxMul roundingMode
    simp [toSigned, ofSigned]
  have htc : twosComp n 1 = 2 ^ n - 1 := by
    unfold twosComp
    rw [h1]
    exact Nat.mod_eq_of_lt (by omega)
  have hd0 : fxSub n 0 1 = 2 ^ n - 1 := by
    unfold fxSub
    rw [htc, Nat.zero_add]
    exact Nat.mod_eq_of_lt (by omega)
  have habs : fxAbs n (2 ^ n - 1) = 1 := by
    unfold fxAbs
    rw [toSigned_allones n hn]
    simp only [show ((-1 : Int) < 0) by decide, if_true]
    unfold twosComp
    have hm : (2 ^ n - 1) % 2 ^ n = 2 ^ n - 1 := Nat.mod_eq_of_lt (by omega)
    rw [hm]
    have : 2 ^ n - (2 ^ n - 1) = 1 := by omega
    rw [this, h1]
  unfold fixSqrt
  simp only [h1, hx0, hmul, hd0]
  unfold fixSqrtLoop
  simp only [habs]
  unfold fxGt
  simp

end UVerif.Sqrt
