/-
  UVerifProofs.Lemmas.SqrtFP — the executable IEEE helpers of Model/PositConvFP.lean:
    `ratLog2_spec`        2^e ≤ q < 2^(e+1)
    `decode_encodeMag64`  decode (encodeMag 11 52 v) is the dyadic R·2^(e-52) with R = rne (v/2^(e-52)), in the normal range
    `sqrtBits_spec`       the binary64 datum produced by `sqrtBits 11 52 x` is R·2^(e-52) with R the RNE integer of
                          √(x·4^(52-e)) (IsRneSq, on squares) and 2^52 ≤ √(x·4^(52-e))
-/
import UVerif.Model.PositConvFP
import UVerifProofs.Lemmas.Pow2
import UVerifProofs.Lemmas.PositRound
import UVerifProofs.Lemmas.SqrtRN
import Mathlib.Data.Nat.Sqrt

namespace UVerif.FP
open UVerif UVerif.Posit UVerif.Sqrt

theorem two_zpow_pos' (e : ℤ) : (0 : ℚ) < (2 : ℚ) ^ e := zpow_pos (by norm_num) e

theorem ratLog2_spec (q : ℚ) (hq : 0 < q) : (2 : ℚ) ^ (ratLog2 q) ≤ q ∧ q < (2 : ℚ) ^ (ratLog2 q + 1) := by
  have hnum : 0 < q.num := Rat.num_pos.mpr hq
  have hden : 0 < q.den := q.den_pos
  obtain ⟨a, ha⟩ : ∃ a : ℕ, q.num = (a : ℤ) := ⟨q.num.toNat, by omega⟩
  have ha0 : a ≠ 0 := by omega
  have hqe : q = (a : ℚ) / (q.den : ℚ) := by
    have h := Rat.num_div_den q
    rw [ha, Int.cast_natCast] at h
    exact h.symm
  have hb0 : q.den ≠ 0 := by omega
  unfold ratLog2
  simp only [ha, Int.toNat_natCast]
  have la1 := Nat.log2_self_le ha0
  have la2 := @Nat.lt_log2_self a
  have lb1 := Nat.log2_self_le hb0
  have lb2 := @Nat.lt_log2_self q.den
  generalize a.log2 = la at *
  generalize q.den.log2 = lb at *
  generalize q.den = b at *
  have hbq : (0 : ℚ) < (b : ℚ) := by exact_mod_cast hden
  have la1q : (2 : ℚ) ^ la ≤ (a : ℚ) := by exact_mod_cast la1
  have la2q : (a : ℚ) < (2 : ℚ) ^ (la + 1) := by exact_mod_cast la2
  have lb1q : (2 : ℚ) ^ lb ≤ (b : ℚ) := by exact_mod_cast lb1
  have lb2q : (b : ℚ) < (2 : ℚ) ^ (lb + 1) := by exact_mod_cast lb2
  -- 2^(la-lb-1) < q < 2^(la-lb+1)
  have hup : q < (2 : ℚ) ^ ((la : ℤ) - (lb : ℤ) + 1) := by
    rw [hqe, div_lt_iff₀ hbq]
    have e1 : (2 : ℚ) ^ ((la : ℤ) - (lb : ℤ) + 1) = 2 ^ (la + 1) / 2 ^ lb := by
      rw [show (la : ℤ) - (lb : ℤ) + 1 = ((la + 1 : ℕ) : ℤ) - ((lb : ℕ) : ℤ) by push_cast; ring,
        zpow_sub₀ (by norm_num), zpow_natCast, zpow_natCast]
    rw [e1, div_mul_eq_mul_div, lt_div_iff₀ (by positivity)]
    calc (a : ℚ) * 2 ^ lb < 2 ^ (la + 1) * 2 ^ lb := by
          apply mul_lt_mul_of_pos_right la2q; positivity
      _ ≤ 2 ^ (la + 1) * (b : ℚ) := by
          apply mul_le_mul_of_nonneg_left lb1q; positivity
  have hlo : (2 : ℚ) ^ ((la : ℤ) - (lb : ℤ) - 1) ≤ q := by
    rw [hqe, le_div_iff₀ hbq]
    have e1 : (2 : ℚ) ^ ((la : ℤ) - (lb : ℤ) - 1) = 2 ^ la / 2 ^ (lb + 1) := by
      rw [show (la : ℤ) - (lb : ℤ) - 1 = ((la : ℕ) : ℤ) - ((lb + 1 : ℕ) : ℤ) by push_cast; ring,
        zpow_sub₀ (by norm_num), zpow_natCast, zpow_natCast]
    rw [e1, div_mul_eq_mul_div, div_le_iff₀ (by positivity)]
    calc (2 : ℚ) ^ la * (b : ℚ) ≤ 2 ^ la * 2 ^ (lb + 1) := by
          apply mul_le_mul_of_nonneg_left (le_of_lt lb2q); positivity
      _ ≤ (a : ℚ) * 2 ^ (lb + 1) := by
          apply mul_le_mul_of_nonneg_right la1q; positivity
  rw [pow2_eq_zpow]
  split
  · rename_i h
    exact ⟨h, hup⟩
  · rename_i h
    rw [not_le] at h
    refine ⟨hlo, ?_⟩
    rw [show (la : ℤ) - (lb : ℤ) - 1 + 1 = (la : ℤ) - (lb : ℤ) by ring]
    exact h

/-- RNE of a number in [2^52, 2^53) is in [2^52, 2^53] -/
theorem isRne_binade (B : ℚ) (R : ℕ) (h : IsRne B R) (h1 : (2 : ℚ) ^ 52 ≤ B) (h2 : B < (2 : ℚ) ^ 53) :
    2 ^ 52 ≤ R ∧ R ≤ 2 ^ 53 := by
  have hlo : (R : ℚ) - 1 / 2 ≤ B := by rcases h with ⟨a, _⟩ | ⟨a | a, _⟩ <;> linarith
  have hhi : B ≤ (R : ℚ) + 1 / 2 := by rcases h with ⟨_, a⟩ | ⟨a | a, _⟩ <;> linarith
  constructor
  · by_contra hc
    have : R + 1 ≤ 2 ^ 52 := by omega
    have : (R : ℚ) + 1 ≤ 2 ^ 52 := by exact_mod_cast this
    linarith
  · by_contra hc
    have : 2 ^ 53 + 1 ≤ R := by omega
    have : (2 : ℚ) ^ 53 + 1 ≤ (R : ℚ) := by exact_mod_cast this
    linarith

/-- decode ∘ encodeMag for binary64 in the normal range: the datum is R·2^(e-52), R = rne(v / 2^(e-52)) -/
theorem decode_encodeMag64 (v : ℚ) (hv : 0 < v) (e : ℤ) (he : e = ratLog2 v) (h1 : -1022 ≤ e) (h2 : e ≤ 1022) :
    ∃ (m : ℕ) (e' : ℤ) (R : ℕ), decode 11 52 (encodeMag 11 52 v) = .fin false m e' ∧ 0 < m ∧
      (m : ℚ) * 2 ^ e' = (R : ℚ) * 2 ^ (e - 52) ∧ 2 ^ 52 ≤ R ∧ R ≤ 2 ^ 53 ∧ IsRne (v / 2 ^ (e - 52)) R := by
  obtain ⟨hl, hu⟩ := ratLog2_spec v hv
  rw [← he] at hl hu
  have hpe : (0 : ℚ) < 2 ^ (e - 52) := two_zpow_pos' _
  have hB1 : (2 : ℚ) ^ 52 ≤ v / 2 ^ (e - 52) := by
    rw [le_div_iff₀ hpe, ← zpow_natCast, ← zpow_add₀ (by norm_num)]
    simpa using hl
  have hB2 : v / 2 ^ (e - 52) < (2 : ℚ) ^ 53 := by
    rw [div_lt_iff₀ hpe, ← zpow_natCast, ← zpow_add₀ (by norm_num)]
    have : ((53 : ℕ) : ℤ) + (e - 52) = e + 1 := by push_cast; ring
    rw [this]; exact hu
  obtain ⟨hr, hr0⟩ := isRne_rne (v / 2 ^ (e - 52)) (le_of_lt (lt_of_lt_of_le (by positivity) hB1))
  obtain ⟨hR1, hR2⟩ := isRne_binade _ _ hr hB1 hB2
  -- unfold the encoder
  have henc : encodeMag 11 52 v = ((e + 1022).toNat <<< 52) + (rne (v / 2 ^ (e - 52))).toNat := by
    unfold encodeMag
    simp only [← he]
    have hb : ((2 ^ (11 - 1) - 1 : ℕ) : ℤ) = 1023 := by norm_num
    simp only [hb]
    have hee : (if e < 1 - 1023 then (1 - 1023 : ℤ) else e) = e := by
      split <;> omega
    rw [hee, pow2_eq_zpow]
    have hk : (e - (1 - 1023 : ℤ)).toNat = (e + 1022).toNat := by congr 1
    rw [hk]
    have hcast : ((52 : ℕ) : ℤ) = 52 := rfl
    simp only [hcast]
    generalize (rne (v / 2 ^ (e - 52))).toNat = R at *
    have hK : (e + 1022).toNat ≤ 2044 := by omega
    generalize (e + 1022).toNat = K at *
    rw [Nat.shiftLeft_eq, Nat.shiftLeft_eq]
    have : ¬ (K * 2 ^ 52 + R ≥ (2 ^ 11 - 1) * 2 ^ 52) := by
      norm_num at hR2 ⊢; omega
    rw [if_neg this]
  rw [henc]
  generalize (rne (v / 2 ^ (e - 52))).toNat = R at *
  obtain ⟨K, hK⟩ : ∃ K : ℕ, e + 1022 = (K : ℤ) := ⟨(e + 1022).toNat, by omega⟩
  have hKt : (e + 1022).toNat = K := by omega
  have hK2 : K ≤ 2044 := by omega
  rw [hKt, Nat.shiftLeft_eq]
  unfold decode
  have hneg : (K * 2 ^ 52 + R).testBit (11 + 52) = false := by
    apply Nat.testBit_lt_two_pow
    norm_num at hR2 ⊢; omega
  have hb : ((2 ^ (11 - 1) - 1 : ℕ) : ℤ) = 1023 := by norm_num
  simp only [hneg, hb, Nat.shiftRight_eq_div_pow]
  by_cases hc : R = 2 ^ 53
  · -- rounded up to the next binade
    have hE : (K * 2 ^ 52 + R) / 2 ^ 52 % 2 ^ 11 = K + 2 := by
      rw [hc]; norm_num; omega
    have hF : (K * 2 ^ 52 + R) % 2 ^ 52 = 0 := by rw [hc]; norm_num
    rw [hE, hF]
    have n1 : ¬ (K + 2 = 2 ^ 11 - 1) := by norm_num; omega
    have n2 : ¬ (K + 2 = 0) := by omega
    rw [if_neg n1, if_neg n2]
    refine ⟨2 ^ 52 + 0, ((K + 2 : ℕ) : ℤ) - 1023 - ((52 : ℕ) : ℤ), R, rfl, by norm_num, ?_, hR1, hR2, hr⟩
    rw [hc]
    have : ((K + 2 : ℕ) : ℤ) - 1023 - ((52 : ℕ) : ℤ) = (e - 52) + 1 := by push_cast; omega
    rw [this, zpow_add₀ (by norm_num)]
    push_cast; ring
  · have hlt : R < 2 ^ 53 := by omega
    have hE : (K * 2 ^ 52 + R) / 2 ^ 52 % 2 ^ 11 = K + 1 := by
      norm_num at hR1 hlt ⊢; omega
    have hF : (K * 2 ^ 52 + R) % 2 ^ 52 = R - 2 ^ 52 := by
      norm_num at hR1 hlt ⊢; omega
    rw [hE, hF]
    have n1 : ¬ (K + 1 = 2 ^ 11 - 1) := by norm_num; omega
    have n2 : ¬ (K + 1 = 0) := by omega
    rw [if_neg n1, if_neg n2]
    refine ⟨2 ^ 52 + (R - 2 ^ 52), ((K + 1 : ℕ) : ℤ) - 1023 - ((52 : ℕ) : ℤ), R, rfl, Nat.add_pos_left (Nat.two_pow_pos 52) _, ?_, hR1, hR2, hr⟩
    have : ((K + 1 : ℕ) : ℤ) - 1023 - ((52 : ℕ) : ℤ) = e - 52 := by push_cast; omega
    rw [this]
    have : 2 ^ 52 + (R - 2 ^ 52) = R := by omega
    rw [this]

/-! ### `sqrtBits` -/

/-- the even scaling shift chosen by `sqrtBits` (fb = 52) -/
def sqS (a b : ℕ) : ℕ :=
  let want := 2 * (52 + 4) + b.log2 + 2
  let s0 := if a.log2 ≥ want then 0 else want - a.log2
  if s0 % 2 = 0 then s0 else s0 + 1

/-- the rational handed to `encodeMag` by `sqrtBits` -/
def sqV (a b : ℕ) : ℚ :=
  let s := sqS a b
  let num := a <<< s
  let q := num / b
  let r := Nat.sqrt q
  let exact := decide (r * r = q) && decide (num % b = 0)
  ((r : ℚ) + (if exact then 0 else 1 / 4)) * pow2 (-((s / 2 : ℕ) : ℤ))

theorem sqrtBits_eq (x : ℚ) (hx : 0 < x) : sqrtBits 11 52 x = encodeMag 11 52 (sqV x.num.toNat x.den) := by
  unfold sqrtBits
  rw [if_neg (not_le.mpr hx)]
  rfl

theorem sqS_spec (a b : ℕ) : sqS a b % 2 = 0 ∧ 114 + b.log2 ≤ a.log2 + sqS a b := by
  unfold sqS
  simp only []
  split <;> split <;> omega

/-- integer facts about r = ⌊√⌊a·2^s / b⌋⌋ -/
theorem sq_int_facts (a b s : ℕ) (ha : a ≠ 0) (hb : b ≠ 0) (hs : 114 + b.log2 ≤ a.log2 + s) :
    let num := a * 2 ^ s
    let q := num / b
    let r := Nat.sqrt q
    q * b ≤ num ∧ num < (q + 1) * b ∧ r * r ≤ q ∧ q < (r + 1) * (r + 1) ∧ 2 ^ 56 ≤ r := by
  intro num q r
  have hbpos : 0 < b := Nat.pos_of_ne_zero hb
  have h1 : q * b ≤ num := Nat.div_mul_le_self num b
  have h2 : num < (q + 1) * b := by
    have := Nat.lt_mul_div_succ num hbpos
    rw [Nat.mul_comm] at this; exact this
  have h3 : r * r ≤ q := by have := Nat.sqrt_le' q; rwa [sq] at this
  have h4 : q < (r + 1) * (r + 1) := by have := Nat.lt_succ_sqrt' q; rwa [sq] at this
  refine ⟨h1, h2, h3, h4, ?_⟩
  -- q ≥ 2^113
  have la := Nat.log2_self_le ha
  have lb := @Nat.lt_log2_self b
  have hq : 2 ^ 113 ≤ q := by
    rw [Nat.le_div_iff_mul_le hbpos]
    calc 2 ^ 113 * b ≤ 2 ^ 113 * 2 ^ (b.log2 + 1) := Nat.mul_le_mul_left _ (le_of_lt lb)
      _ = 2 ^ (114 + b.log2) := by rw [← pow_add]; congr 1; omega
      _ ≤ 2 ^ (a.log2 + s) := Nat.pow_le_pow_right (by norm_num) hs
      _ = 2 ^ a.log2 * 2 ^ s := pow_add _ _ _
      _ ≤ a * 2 ^ s := Nat.mul_le_mul_right _ la
  by_contra hc
  have hr : r + 1 ≤ 2 ^ 56 := by omega
  have : (r + 1) * (r + 1) ≤ 2 ^ 56 * 2 ^ 56 := Nat.mul_le_mul hr hr
  have e : (2 : ℕ) ^ 56 * 2 ^ 56 = 2 ^ 112 := by norm_num
  have : (2 : ℕ) ^ 112 < 2 ^ 113 := by norm_num
  omega


theorem quarter_cmp (r A : ℕ) (θ : ℚ) (hθ : θ = 0 ∨ θ = 1 / 4) :
    ((A : ℚ) < (r : ℚ) + θ → A ≤ r) ∧ ((r : ℚ) + θ < (A : ℚ) → r + 1 ≤ A) ∧
    ((r : ℚ) + θ = (A : ℚ) → θ = 0 ∧ r = A) := by
  refine ⟨fun h => ?_, fun h => ?_, fun h => ?_⟩
  · by_contra hc
    have : (r : ℚ) + 1 ≤ (A : ℚ) := by exact_mod_cast (show r + 1 ≤ A by omega)
    rcases hθ with rfl | rfl <;> linarith
  · by_contra hc
    have : (A : ℚ) ≤ (r : ℚ) := by exact_mod_cast (show A ≤ r by omega)
    rcases hθ with rfl | rfl <;> linarith
  · rcases hθ with rfl | rfl
    · refine ⟨rfl, ?_⟩
      have : (r : ℚ) = (A : ℚ) := by linarith
      exact_mod_cast this
    · exfalso
      rcases Nat.lt_trichotomy r A with h1 | h1 | h1
      · have : (r : ℚ) + 1 ≤ (A : ℚ) := by exact_mod_cast h1
        linarith
      · rw [h1] at h; linarith
      · have : (A : ℚ) + 1 ≤ (r : ℚ) := by exact_mod_cast h1
        linarith

/-- RNE of (r+θ)/2^k transfers to RNE of √(W/4^k) when r = ⌊√W⌋ and θ marks inexactness -/
theorem sqrt_transfer (r k' R : ℕ) (W θ : ℚ) (hθ : θ = 0 ∨ θ = 1 / 4)
    (h0 : θ = 0 → W = (r : ℚ) ^ 2) (h1 : θ = 1 / 4 → (r : ℚ) ^ 2 < W) (h2 : W < ((r : ℚ) + 1) ^ 2)
    (hR : 1 ≤ R) (hrne : IsRne (((r : ℚ) + θ) / (2 * 2 ^ k')) R)
    (hB : (2 : ℚ) ^ 52 ≤ ((r : ℚ) + θ) / (2 * 2 ^ k')) :
    IsRneSq (W / (4 * (2 ^ k') ^ 2)) R ∧ ((2 : ℚ) ^ 52) ^ 2 ≤ W / (4 * (2 ^ k') ^ 2) := by
  have hP : (0 : ℚ) < 2 ^ k' := by positivity
  have hP2 : (0 : ℚ) < 2 * 2 ^ k' := by positivity
  have hD : (0 : ℚ) < 4 * (2 ^ k') ^ 2 := by positivity
  have hr0 : (0 : ℚ) ≤ (r : ℚ) := by positivity
  have hWlo : (r : ℚ) ^ 2 ≤ W := by
    rcases hθ with h | h
    · rw [h0 h]
    · exact le_of_lt (h1 h)
  -- the two midpoints as naturals
  set Mp : ℕ := (2 * R + 1) * 2 ^ k' with hMp
  set Mm : ℕ := (2 * R - 1) * 2 ^ k' with hMm
  have hMpq : (Mp : ℚ) = (2 * (R : ℚ) + 1) * 2 ^ k' := by rw [hMp]; push_cast; ring
  have hMmq : (Mm : ℚ) = (2 * (R : ℚ) - 1) * 2 ^ k' := by
    rw [hMm]; push_cast [Nat.cast_sub (show 1 ≤ 2 * R by omega)]; ring
  obtain ⟨p1, p2, p3⟩ := quarter_cmp r Mp θ hθ
  obtain ⟨m1, m2, m3⟩ := quarter_cmp r Mm θ hθ
  -- B vs R ± 1/2  ⇔  r+θ vs Mp / Mm
  have eP : ∀ z : ℚ, (z / (2 * 2 ^ k') < (R : ℚ) + 1 / 2 ↔ z < (Mp : ℚ)) ∧ (z / (2 * 2 ^ k') = (R : ℚ) + 1 / 2 ↔ z = (Mp : ℚ)) := by
    intro z
    rw [hMpq, div_lt_iff₀ hP2, div_eq_iff (ne_of_gt hP2)]
    have : ((R : ℚ) + 1 / 2) * (2 * 2 ^ k') = (2 * (R : ℚ) + 1) * 2 ^ k' := by ring
    rw [this]
    exact ⟨Iff.rfl, Iff.rfl⟩
  have eM : ∀ z : ℚ, ((R : ℚ) - 1 / 2 < z / (2 * 2 ^ k') ↔ (Mm : ℚ) < z) ∧ (z / (2 * 2 ^ k') = (R : ℚ) - 1 / 2 ↔ z = (Mm : ℚ)) := by
    intro z
    rw [hMmq, lt_div_iff₀ hP2, div_eq_iff (ne_of_gt hP2)]
    have : ((R : ℚ) - 1 / 2) * (2 * 2 ^ k') = (2 * (R : ℚ) - 1) * 2 ^ k' := by ring
    rw [this]
    exact ⟨Iff.rfl, Iff.rfl⟩
  -- 4Y vs (2R±1)²  ⇔  W vs Mp² / Mm²
  have sP : (2 * (R : ℚ) + 1) ^ 2 = (Mp : ℚ) ^ 2 / (2 ^ k') ^ 2 := by rw [hMpq]; field_simp
  have sM : (2 * (R : ℚ) - 1) ^ 2 = (Mm : ℚ) ^ 2 / (2 ^ k') ^ 2 := by rw [hMmq]; field_simp
  have sY : 4 * (W / (4 * (2 ^ k') ^ 2)) = W / (2 ^ k') ^ 2 := by field_simp
  have hPP : (0 : ℚ) < (2 ^ k') ^ 2 := by positivity
  have hMp0 : (0 : ℚ) ≤ (Mp : ℚ) := by positivity
  have hMm0 : (0 : ℚ) ≤ (Mm : ℚ) := by positivity
  constructor
  · unfold IsRneSq
    rw [sY, sP, sM, div_lt_div_iff_of_pos_right hPP, div_lt_div_iff_of_pos_right hPP,
      div_left_inj' (ne_of_gt hPP), div_left_inj' (ne_of_gt hPP)]
    rcases hrne with ⟨a, b⟩ | ⟨a | a, ev⟩
    · left
      have a' := m1 ((eM _).1.mp a)
      have b' := p2 ((eP _).1.mp b)
      have a'q : (Mm : ℚ) ≤ (r : ℚ) := by exact_mod_cast a'
      have b'q : (r : ℚ) + 1 ≤ (Mp : ℚ) := by exact_mod_cast b'
      constructor
      · rcases hθ with h | h
        · -- exact: Mm < r strictly
          have : (Mm : ℚ) < (r : ℚ) := by have := (eM ((r : ℚ) + θ)).1.mp a; rw [h] at this; linarith
          rw [h0 h]; nlinarith
        · have := h1 h; nlinarith
      · nlinarith
    · right
      refine ⟨Or.inl ?_, ev⟩
      obtain ⟨t0, tr⟩ := p3 ((eP _).2.mp a)
      rw [h0 t0, tr]
    · right
      refine ⟨Or.inr ?_, ev⟩
      obtain ⟨t0, tr⟩ := m3 ((eM _).2.mp a)
      rw [h0 t0, tr]
  · -- 2^52·2^(k'+1) ≤ r + θ  ⇒  (2^52·2^(k'+1))² ≤ W
    set L : ℕ := 2 ^ 52 * (2 * 2 ^ k') with hL
    have hLq : (L : ℚ) = 2 ^ 52 * (2 * 2 ^ k') := by rw [hL]; push_cast; ring
    have hle : (L : ℚ) ≤ (r : ℚ) + θ := by rw [hLq]; rwa [le_div_iff₀ hP2] at hB
    have hLr : (L : ℚ) ≤ (r : ℚ) := by
      rcases lt_or_eq_of_le hle with h | h
      · have := (quarter_cmp r L θ hθ).1 h; exact_mod_cast this
      · have := ((quarter_cmp r L θ hθ).2.2 h.symm).2; rw [this]
    rw [le_div_iff₀ hD]
    have hL0 : (0 : ℚ) ≤ (L : ℚ) := by positivity
    have : (L : ℚ) ^ 2 ≤ W := by nlinarith
    calc ((2 : ℚ) ^ 52) ^ 2 * (4 * (2 ^ k') ^ 2) = (L : ℚ) ^ 2 := by rw [hLq]; ring
      _ ≤ W := this


theorem sqV_spec (a b : ℕ) (ha : a ≠ 0) (hb : b ≠ 0) (x : ℚ) (hx : x = (a : ℚ) / (b : ℚ)) :
    ∃ (r h : ℕ) (θ : ℚ), sqV a b = ((r : ℚ) + θ) / 2 ^ h ∧ (θ = 0 ∨ θ = 1 / 4) ∧
      (θ = 0 → x * 4 ^ h = (r : ℚ) ^ 2) ∧ (θ = 1 / 4 → (r : ℚ) ^ 2 < x * 4 ^ h) ∧
      x * 4 ^ h < ((r : ℚ) + 1) ^ 2 ∧ 2 ^ 56 ≤ r := by
  obtain ⟨hev, hs⟩ := sqS_spec a b
  obtain ⟨f1, f2, f3, f4, f5⟩ := sq_int_facts a b (sqS a b) ha hb hs
  unfold sqV
  simp only [Nat.shiftLeft_eq]
  generalize sqS a b = s at *
  obtain ⟨h, rfl⟩ : ∃ h, s = 2 * h := ⟨s / 2, by omega⟩
  have hh : 2 * h / 2 = h := by omega
  rw [hh]
  generalize hnum : a * 2 ^ (2 * h) = num at *
  generalize hq : num / b = q at *
  generalize hr : Nat.sqrt q = r at *
  have hbq : (0 : ℚ) < (b : ℚ) := by exact_mod_cast Nat.pos_of_ne_zero hb
  have hW : x * 4 ^ h = (num : ℚ) / (b : ℚ) := by
    rw [hx, ← hnum]; push_cast
    rw [show (2 : ℚ) ^ (2 * h) = 4 ^ h by rw [pow_mul]; norm_num]; ring
  have f1q : (q : ℚ) ≤ x * 4 ^ h := by
    rw [hW, le_div_iff₀ hbq]; exact_mod_cast f1
  have f2q : x * 4 ^ h < (q : ℚ) + 1 := by
    rw [hW, div_lt_iff₀ hbq]; exact_mod_cast f2
  have f3q : (r : ℚ) ^ 2 ≤ (q : ℚ) := by rw [sq]; exact_mod_cast f3
  have f4q : (q : ℚ) + 1 ≤ ((r : ℚ) + 1) ^ 2 := by
    rw [sq]; exact_mod_cast (show q + 1 ≤ (r + 1) * (r + 1) by omega)
  refine ⟨r, h, if (decide (r * r = q) && decide (num % b = 0)) = true then 0 else 1 / 4, ?_, ?_, ?_, ?_, ?_, f5⟩
  · rw [pow2_eq_zpow, zpow_neg, zpow_natCast]; ring
  · split <;> simp
  · intro hθ
    split at hθ
    · rename_i hex
      simp only [Bool.and_eq_true, decide_eq_true_eq] at hex
      obtain ⟨e1, e2⟩ := hex
      have hdiv : q * b = num := by
        rw [← hq]; exact Nat.div_mul_cancel (Nat.dvd_of_mod_eq_zero e2)
      rw [hW, ← hdiv]; push_cast
      rw [mul_div_assoc, div_self (ne_of_gt hbq), mul_one, ← e1]; push_cast; ring
    · norm_num at hθ
  · intro hθ
    split at hθ
    · norm_num at hθ
    · rename_i hex
      simp only [Bool.and_eq_true, decide_eq_true_eq, not_and_or] at hex
      rcases hex with e1 | e2
      · have : r * r < q := by omega
        have : (r : ℚ) ^ 2 < (q : ℚ) := by rw [sq]; exact_mod_cast this
        linarith
      · have hne : q * b ≠ num := by
          intro hc
          apply e2
          rw [← hc]; exact Nat.mul_mod_left q b
        have hlt : q * b < num := by omega
        have : (q : ℚ) < x * 4 ^ h := by
          rw [hW, lt_div_iff₀ hbq]; exact_mod_cast hlt
        linarith
  · linarith


theorem sq_lt_of_le_zpow {v : ℚ} (hv : 0 < v) (t : ℤ) (h : v ^ 2 < (2 : ℚ) ^ (2 * t)) : v < (2 : ℚ) ^ t := by
  by_contra hc
  rw [not_lt] at hc
  have : ((2 : ℚ) ^ t) ^ 2 ≤ v ^ 2 := pow_le_pow_left₀ (le_of_lt (two_zpow_pos' t)) hc 2
  have e : ((2 : ℚ) ^ t) ^ 2 = 2 ^ (2 * t) := by
    rw [← zpow_natCast, ← zpow_mul]; congr 1; push_cast; ring
  rw [e] at this
  linarith

theorem sq_gt_of_ge_zpow {v : ℚ} (hv : 0 < v) (t : ℤ) (h : (2 : ℚ) ^ (2 * t) < v ^ 2) : (2 : ℚ) ^ t < v := by
  by_contra hc
  rw [not_lt] at hc
  have : v ^ 2 ≤ ((2 : ℚ) ^ t) ^ 2 := pow_le_pow_left₀ (le_of_lt hv) hc 2
  have e : ((2 : ℚ) ^ t) ^ 2 = 2 ^ (2 * t) := by
    rw [← zpow_natCast, ← zpow_mul]; congr 1; push_cast; ring
  rw [e] at this
  linarith

/-- the binary64 datum of `sqrtBits 11 52 x`: R·2^(e-52) with R the RNE integer of √(x·4^(52-e)) -/
theorem sqrtBits_spec (x : ℚ) (hx : 0 < x) (hlo : (2 : ℚ) ^ (-2040 : ℤ) ≤ x) (hhi : x ≤ (2 : ℚ) ^ (2040 : ℤ)) :
    ∃ (m : ℕ) (e' e : ℤ) (R : ℕ), decode 11 52 (sqrtBits 11 52 x) = .fin false m e' ∧ 0 < m ∧
      (m : ℚ) * 2 ^ e' = (R : ℚ) * 2 ^ (e - 52) ∧ 2 ^ 52 ≤ R ∧ R ≤ 2 ^ 53 ∧
      IsRneSq (x * 2 ^ (2 * (52 - e))) R ∧ ((2 : ℚ) ^ 52) ^ 2 ≤ x * 2 ^ (2 * (52 - e)) := by
  have hnum : 0 < x.num := Rat.num_pos.mpr hx
  obtain ⟨a, ha⟩ : ∃ a : ℕ, x.num = (a : ℤ) := ⟨x.num.toNat, by omega⟩
  have ha0 : a ≠ 0 := by omega
  have hb0 : x.den ≠ 0 := x.den_nz
  have hxe : x = (a : ℚ) / (x.den : ℚ) := by
    have h := Rat.num_div_den x
    rw [ha, Int.cast_natCast] at h
    exact h.symm
  rw [sqrtBits_eq x hx, ha, Int.toNat_natCast]
  obtain ⟨r, h, θ, hv, hθ, t0, t1, t2, hr56⟩ := sqV_spec a x.den ha0 hb0 x hxe
  generalize sqV a x.den = v at *
  have hr56q : (2 : ℚ) ^ 56 ≤ (r : ℚ) := by exact_mod_cast hr56
  have hθ0 : 0 ≤ θ := by rcases hθ with h | h <;> rw [h] <;> norm_num
  have hθ1 : θ ≤ 1 / 4 := by rcases hθ with h | h <;> rw [h] <;> norm_num
  have h2h : (0 : ℚ) < 2 ^ h := by positivity
  have h4h : (0 : ℚ) < 4 ^ h := by positivity
  have e44 : (4 : ℚ) ^ h = (2 ^ h) ^ 2 := by rw [← pow_mul, mul_comm, pow_mul]; norm_num
  have hvpos : 0 < v := by rw [hv]; apply div_pos _ h2h; linarith [show (0:ℚ) < 2 ^ 56 by positivity]
  have hWlo : (r : ℚ) ^ 2 ≤ x * 4 ^ h := by
    rcases hθ with hh | hh
    · rw [t0 hh]
    · exact le_of_lt (t1 hh)
  -- v² bounds in terms of x
  have hv2 : v ^ 2 = ((r : ℚ) + θ) ^ 2 / 4 ^ h := by rw [hv, div_pow, e44]
  have hvlo : x < 4 * v ^ 2 := by
    rw [hv2, ← mul_div_assoc, lt_div_iff₀ h4h]
    have : ((r : ℚ) + 1) ^ 2 ≤ 4 * ((r : ℚ) + θ) ^ 2 := by nlinarith [show (1:ℚ) ≤ (r:ℚ) by linarith [show (1:ℚ) ≤ 2 ^ 56 by norm_num]]
    linarith
  have hvhi : v ^ 2 ≤ 2 * x := by
    rw [hv2, div_le_iff₀ h4h]
    have : ((r : ℚ) + θ) ^ 2 ≤ 2 * (r : ℚ) ^ 2 := by nlinarith [show (1:ℚ) ≤ (r:ℚ) by linarith [show (1:ℚ) ≤ 2 ^ 56 by norm_num]]
    nlinarith
  -- exponent of v
  obtain ⟨el, eu⟩ := ratLog2_spec v hvpos
  generalize he : ratLog2 v = e at *
  have he1 : -1022 ≤ e := by
    have h1 : (2 : ℚ) ^ (2 * (-1021 : ℤ)) < v ^ 2 := by
      have : (2 : ℚ) ^ (2 * (-1021 : ℤ)) = 2 ^ (-2040 : ℤ) / 4 := by
        rw [show (2 * (-1021 : ℤ)) = -2040 - 2 by norm_num, zpow_sub₀ (by norm_num)]; congr 1
      rw [this]; linarith
    have h2 := sq_gt_of_ge_zpow hvpos _ h1
    have h3 : (2 : ℚ) ^ (-1021 : ℤ) < 2 ^ (e + 1) := lt_trans h2 eu
    rw [zpow_lt_zpow_iff_right₀ (by norm_num)] at h3
    omega
  have he2 : e ≤ 1022 := by
    have h1 : v ^ 2 < (2 : ℚ) ^ (2 * (1021 : ℤ)) := by
      have key : (2 : ℚ) ^ (2 * (1021 : ℤ)) = 2 ^ (2040 : ℤ) * 4 := by
        rw [show (2 * (1021 : ℤ)) = 2040 + 2 by norm_num, zpow_add₀ (by norm_num)]; congr 1
      have hA : (0:ℚ) < 2 ^ (2040 : ℤ) := two_zpow_pos' _
      rw [key]
      generalize (2 : ℚ) ^ (2040 : ℤ) = A at hhi hA
      linarith
    have h2 := sq_lt_of_le_zpow hvpos _ h1
    have h3 : (2 : ℚ) ^ e < 2 ^ (1021 : ℤ) := lt_of_le_of_lt el h2
    rw [zpow_lt_zpow_iff_right₀ (by norm_num)] at h3
    omega
  clear hlo hhi
  -- k = h + e - 52 ≥ 4
  have hk : 56 ≤ (h : ℤ) + e := by
    have h1 : (2 : ℚ) ^ ((56 : ℤ) - h) ≤ v := by
      rw [hv, zpow_sub₀ (by norm_num), zpow_natCast, le_div_iff₀ h2h, div_mul_cancel₀ _ (ne_of_gt h2h)]
      have : (2 : ℚ) ^ (56 : ℤ) = 2 ^ 56 := by norm_num
      rw [this]; linarith
    have h3 : (2 : ℚ) ^ ((56 : ℤ) - h) < 2 ^ (e + 1) := lt_of_le_of_lt h1 eu
    rw [zpow_lt_zpow_iff_right₀ (by norm_num)] at h3
    omega
  obtain ⟨k', hk'⟩ : ∃ k' : ℕ, (h : ℤ) + e - 52 = (k' : ℤ) + 1 := ⟨((h : ℤ) + e - 53).toNat, by omega⟩
  obtain ⟨m, e', R, hdec, hm, hval, hR1, hR2, hrne⟩ := decode_encodeMag64 v hvpos e he.symm he1 he2
  have hnc : (2 : ℚ) ^ h = 2 ^ (h : ℤ) := (zpow_natCast 2 h).symm
  have hkc : (2 : ℚ) ^ ((k' : ℤ) + 1) = 2 * 2 ^ k' := by
    rw [zpow_add₀ (by norm_num), zpow_natCast, zpow_one]; ring
  have hB : v / 2 ^ (e - 52) = ((r : ℚ) + θ) / (2 * 2 ^ k') := by
    rw [hv, div_div]
    congr 1
    rw [hnc, ← zpow_add₀ (by norm_num), show (h : ℤ) + (e - 52) = (k' : ℤ) + 1 by omega, hkc]
  have hY : x * 2 ^ (2 * (52 - e)) = x * 4 ^ h / (4 * (2 ^ k') ^ 2) := by
    have sqz : ∀ t : ℤ, (2 : ℚ) ^ (2 * t) = (2 ^ t) ^ 2 := by
      intro t
      rw [← zpow_natCast ((2 : ℚ) ^ t) 2, ← zpow_mul]; congr 1; push_cast; ring
    have e1 : (4 : ℚ) * (2 ^ k') ^ 2 = 2 ^ (2 * ((k' : ℤ) + 1)) := by
      rw [sqz, hkc]; ring
    have e2 : (4 : ℚ) ^ h = 2 ^ (2 * (h : ℤ)) := by
      rw [sqz, ← hnc, ← pow_mul, mul_comm, pow_mul]; norm_num
    rw [e1, e2, mul_div_assoc, ← zpow_sub₀ (by norm_num)]
    congr 2; omega
  have hB52 : (2 : ℚ) ^ 52 ≤ v / 2 ^ (e - 52) := by
    rw [le_div_iff₀ (two_zpow_pos' _), ← zpow_natCast, ← zpow_add₀ (by norm_num)]
    simpa using el
  rw [hB] at hrne hB52
  obtain ⟨s1, s2⟩ := sqrt_transfer r k' R (x * 4 ^ h) θ hθ t0 t1 t2 (by omega) hrne hB52
  rw [← hY] at s1 s2
  exact ⟨m, e', e, R, hdec, hm, hval, hR1, hR2, s1, s2⟩


end UVerif.FP
