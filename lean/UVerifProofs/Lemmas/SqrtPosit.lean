/-
  UVerifProofs.Lemmas.SqrtPosit — the generic posit sqrt  posit(std::sqrt(double(a)))  satisfies C17:
    `SqrtDouble x D`            D = RN53(√x), stated on squares; produced by `sqrtBits 11 52` (Lemmas/SqrtFP.lean)
    `SqrtDouble.mono`           D is monotone / exact against every 53-bit float
    `SqrtDouble.cuts25`         no double rounding: D and √x compare alike with every cut of ≤ 25 significant bits
    `nearestIdx_of_nearestMag`  Standard rounding of D ⇒ correctly rounded root (midpoint test by squaring)
    `faithfulIdx_of_nearestMag` Standard rounding of D ⇒ one of the two posits bracketing the root
    `positSqrt_generic_ok`      assembly for every configuration with (nbits-2)·2^es ≤ 2040 and fbits ≤ 51
    `sqrtDouble_mono`, `nearestMag_mono`, `positSqrt_generic_mono`   monotone composition of monotone roundings
-/
import UVerifProofs.Lemmas.SqrtFP
import UVerifProofs.Lemmas.PositCuts
import UVerifProofs.Lemmas.PositConvert
import UVerif.Spec.Sqrt
import UVerif.Model.Sqrt

namespace UVerif.Sqrt
open UVerif UVerif.Posit UVerif.FP

/-- D is the binary64 round-to-nearest-even image of √x (x > 0, normal range), stated on squares -/
def SqrtDouble (x D : ℚ) : Prop :=
  ∃ (e : ℤ) (R : ℕ), D = (R : ℚ) * 2 ^ (e - 52) ∧ 2 ^ 52 ≤ R ∧ R ≤ 2 ^ 53 ∧
    IsRneSq (x * 2 ^ (2 * (52 - e))) R ∧ ((2 : ℚ) ^ 52) ^ 2 ≤ x * 2 ^ (2 * (52 - e))

theorem SqrtDouble.pos {x D : ℚ} (h : SqrtDouble x D) : 0 < D := by
  obtain ⟨e, R, hD, h1, _⟩ := h
  rw [hD]
  have : (0 : ℚ) < (R : ℚ) := by
    have : 0 < R := lt_of_lt_of_le (by positivity) h1
    exact_mod_cast this
  exact mul_pos this (two_zpow_pos' _)

theorem scale_sq (e : ℤ) : (2 : ℚ) ^ (2 * (52 - e)) = (2 ^ (52 - e)) ^ 2 := by
  rw [← zpow_natCast ((2 : ℚ) ^ (52 - e)) 2, ← zpow_mul]; congr 1; push_cast; ring

/-- comparisons with a 53-bit float T = N·2^j -/
theorem SqrtDouble.mono {x D : ℚ} (h : SqrtDouble x D) (N : ℕ) (j : ℤ) (hN : N < 2 ^ 53)
    (hT : 0 < (N : ℚ) * 2 ^ j) :
    (x < ((N : ℚ) * 2 ^ j) ^ 2 → D ≤ (N : ℚ) * 2 ^ j) ∧ (((N : ℚ) * 2 ^ j) ^ 2 < x → (N : ℚ) * 2 ^ j ≤ D) ∧
    (x = ((N : ℚ) * 2 ^ j) ^ 2 → (N : ℚ) * 2 ^ j = D) := by
  obtain ⟨e, R, hD, h1, h2, hr, hy⟩ := h
  have hs : (0 : ℚ) < 2 ^ (52 - e) := two_zpow_pos' _
  have hs2 : (0 : ℚ) < (2 ^ (52 - e)) ^ 2 := by positivity
  -- scaled float T' = N·2^(j + 52 - e)
  have hT' : (N : ℚ) * 2 ^ (j + (52 - e)) = (N : ℚ) * 2 ^ j * 2 ^ (52 - e) := by
    rw [zpow_add₀ (by norm_num)]; ring
  have hT'pos : 0 < (N : ℚ) * 2 ^ (j + (52 - e)) := by rw [hT']; positivity
  have hDs : D * 2 ^ (52 - e) = (R : ℚ) := by
    rw [hD, mul_assoc, ← zpow_add₀ (by norm_num)]; simp
  have sqT : ((N : ℚ) * 2 ^ (j + (52 - e))) ^ 2 = ((N : ℚ) * 2 ^ j) ^ 2 * (2 ^ (52 - e)) ^ 2 := by
    rw [hT']; ring
  rw [scale_sq] at hr hy
  refine ⟨fun hlt => ?_, fun hgt => ?_, fun heq => ?_⟩
  · have := rnSq_le_of_lt hr hy h1 N (j + (52 - e)) hN hT'pos (by rw [sqT]; exact mul_lt_mul_of_pos_right hlt hs2)
    rw [hT', ← hDs] at this
    exact le_of_mul_le_mul_right this hs
  · have := rnSq_ge_of_gt hr hy h1 N (j + (52 - e)) hN hT'pos (by rw [sqT]; exact mul_lt_mul_of_pos_right hgt hs2)
    rw [hT', ← hDs] at this
    exact le_of_mul_le_mul_right this hs
  · have := rnSq_eq_of_eq hr hy h1 N (j + (52 - e)) hN hT'pos (by rw [sqT, heq])
    rw [hT', ← hDs] at this
    exact mul_right_cancel₀ (ne_of_gt hs) this

/-- full agreement of comparisons with a cut of at most 25 significant bits, when x has at most 25 significant bits -/
theorem SqrtDouble.cuts25 {x D : ℚ} (h : SqrtDouble x D) (mx : ℕ) (kx : ℤ) (hmx : mx < 2 ^ 25)
    (hx : x = (mx : ℚ) * 2 ^ kx) (mc : ℕ) (jc : ℤ) (hmc : mc < 2 ^ 25) (hT : 0 < (mc : ℚ) * 2 ^ jc) :
    (D < (mc : ℚ) * 2 ^ jc ↔ x < ((mc : ℚ) * 2 ^ jc) ^ 2) ∧ (D = (mc : ℚ) * 2 ^ jc ↔ x = ((mc : ℚ) * 2 ^ jc) ^ 2) := by
  obtain ⟨m1, m2, m3⟩ := h.mono mc jc (lt_trans hmc (by norm_num)) hT
  have hgap : D = (mc : ℚ) * 2 ^ jc → x = ((mc : ℚ) * 2 ^ jc) ^ 2 := by
    intro hDT
    obtain ⟨e, R, hD, h1, h2, hr, hy⟩ := h
    have hs : (0 : ℚ) < 2 ^ (52 - e) := two_zpow_pos' _
    have hRc : (R : ℚ) = (mc : ℚ) * 2 ^ (jc + (52 - e)) := by
      have : (R : ℚ) = D * 2 ^ (52 - e) := by
        rw [hD, mul_assoc, ← zpow_add₀ (by norm_num)]; simp
      rw [this, hDT, zpow_add₀ (by norm_num)]; ring
    have hYx : x * 2 ^ (2 * (52 - e)) = (mx : ℚ) * 2 ^ (kx + 2 * (52 - e)) := by
      rw [hx, zpow_add₀ (by norm_num)]; ring
    have := rnSq_gap hr h1 h2 mx (kx + 2 * (52 - e)) hmx hYx mc (jc + (52 - e)) hmc hRc
    rw [scale_sq] at this
    have hR2 : (R : ℚ) ^ 2 = ((mc : ℚ) * 2 ^ jc) ^ 2 * (2 ^ (52 - e)) ^ 2 := by
      rw [hRc, zpow_add₀ (by norm_num)]; ring
    rw [hR2] at this
    exact mul_right_cancel₀ (ne_of_gt (by positivity)) this
  constructor
  · constructor
    · intro hlt
      rcases lt_trichotomy x (((mc : ℚ) * 2 ^ jc) ^ 2) with c | c | c
      · exact c
      · have := m3 c; linarith
      · have := m2 c; linarith
    · intro hlt
      rcases lt_or_eq_of_le (m1 hlt) with c | c
      · exact c
      · have := hgap c; linarith
  · exact ⟨hgap, fun heq => (m3 heq).symm⟩


theorem maxpos_lt (n : ℕ) (hn : 2 ≤ n) : 0 < maxposEnc n ∧ maxposEnc n < 2 ^ (n - 1) := by
  have hp := two_pow_pred n (by omega)
  have h3 : 2 ≤ 2 ^ (n - 1) := by
    calc 2 = 2 ^ 1 := rfl
      _ ≤ 2 ^ (n - 1) := Nat.pow_le_pow_right (by norm_num) (by omega)
  unfold maxposEnc; omega

/-- the Standard's rounding of D, read on squares: nearest for √x when D and √x agree on every (n+1)-bit cut -/
theorem nearestIdx_of_nearestMag (n es : ℕ) (hn : 2 ≤ n) (x D : ℚ) (hD : 0 < D) (R : ℕ)
    (hR : nearestMagB n es D R = true)
    (H : ∀ c, 0 < c → c < 2 ^ n →
      (D < posVal (n + 1) es c ↔ x < (posVal (n + 1) es c) ^ 2) ∧ (D = posVal (n + 1) es c ↔ x = (posVal (n + 1) es c) ^ 2)) :
    nearestIdx (posVal n es) (fun U => posVal (n + 1) es (2 * U + 1)) 1 (maxposEnc n) x R = true := by
  obtain ⟨hm0, hm1⟩ := maxpos_lt n hn
  have hp := two_pow_pred n (by omega)
  -- comparisons with n-bit values
  have V : ∀ y, 0 < y → y < 2 ^ (n - 1) →
      (D < posVal n es y ↔ x < posVal n es y * posVal n es y) ∧ (D = posVal n es y ↔ x = posVal n es y * posVal n es y) ∧
      (posVal n es y < D ↔ posVal n es y * posVal n es y < x) := by
    intro y h0 h1
    obtain ⟨a, b⟩ := H (2 * y) (by omega) (by omega)
    rw [posVal_double n es y hn h0 h1, sq] at a b
    refine ⟨a, b, ?_⟩
    constructor
    · intro h
      rcases lt_trichotomy x (posVal n es y * posVal n es y) with c | c | c
      · have := a.mpr c; linarith
      · have := b.mpr c; linarith
      · exact c
    · intro h
      rcases lt_trichotomy D (posVal n es y) with c | c | c
      · have := a.mp c; linarith
      · have := b.mp c; linarith
      · exact c
  -- comparisons with midpoints
  have M : ∀ U, U < 2 ^ (n - 1) →
      (D < posVal (n + 1) es (2 * U + 1) ↔ x < posVal (n + 1) es (2 * U + 1) * posVal (n + 1) es (2 * U + 1)) ∧
      (D = posVal (n + 1) es (2 * U + 1) ↔ x = posVal (n + 1) es (2 * U + 1) * posVal (n + 1) es (2 * U + 1)) := by
    intro U h1
    obtain ⟨a, b⟩ := H (2 * U + 1) (by omega) (by omega)
    rw [sq] at a b
    exact ⟨a, b⟩
  unfold nearestMagB at hR
  simp only [] at hR
  by_cases c0 : R = 0 ∨ R > maxposEnc n
  · rw [if_pos c0] at hR; exact absurd hR (by simp)
  rw [if_neg c0] at hR
  have hR1 : 1 ≤ R := by omega
  have hR2 : R ≤ maxposEnc n := by omega
  obtain ⟨vlt, veq, vgt⟩ := V R (by omega) (by omega)
  unfold nearestIdx
  simp only []
  have g0 : ¬ (R < 1 ∨ R > maxposEnc n) := by omega
  rw [if_neg g0]
  by_cases c1 : D ≥ posVal n es (maxposEnc n)
  · rw [if_pos c1] at hR
    have hRm : R = maxposEnc n := by simpa using hR
    subst hRm
    rcases lt_or_eq_of_le c1 with c | c
    · have := vgt.mp c
      rw [if_neg (ne_of_lt this), if_pos this, if_pos rfl]
    · have := veq.mp c.symm
      rw [if_pos this.symm]
  rw [if_neg c1] at hR
  by_cases c2 : D ≤ posVal n es 1
  · rw [if_pos c2] at hR
    have hR1' : R = 1 := by simpa using hR
    subst hR1'
    rcases lt_or_eq_of_le c2 with c | c
    · have := vlt.mp c
      rw [if_neg (ne_of_gt this), if_neg (not_lt.mpr (le_of_lt this)), if_pos rfl]
    · have := veq.mp c
      rw [if_pos this.symm]
  rw [if_neg c2] at hR
  by_cases c3 : posVal n es R = D
  · have := veq.mp c3.symm
    rw [if_pos this.symm]
  rw [if_neg c3] at hR
  have g3 : ¬ (posVal n es R * posVal n es R = x) := fun h => c3 (veq.mpr h.symm).symm
  rw [if_neg g3]
  by_cases c4 : posVal n es R < D
  · rw [if_pos c4] at hR
    rw [if_pos (vgt.mp c4)]
    simp only [Bool.and_eq_true, Bool.or_eq_true, decide_eq_true_eq, beq_iff_eq] at hR
    obtain ⟨⟨h1, h2⟩, h3⟩ := hR
    have g4 : ¬ (R = maxposEnc n) := by omega
    rw [if_neg g4]
    obtain ⟨wlt, _, _⟩ := V (R + 1) (by omega) (by omega)
    obtain ⟨mlt, meq⟩ := M R (by omega)
    simp only [Bool.and_eq_true, Bool.or_eq_true, decide_eq_true_eq, beq_iff_eq]
    refine ⟨wlt.mp h2, ?_⟩
    rcases h3 with h3 | ⟨h3, h4⟩
    · exact Or.inl (mlt.mp h3)
    · exact Or.inr ⟨meq.mp h3, h4⟩
  · rw [if_neg c4] at hR
    have c5 : D < posVal n es R := lt_of_le_of_ne (not_lt.mp c4) (fun h => c3 h.symm)
    have g5 : ¬ (posVal n es R * posVal n es R < x) := by
      intro h; have := vgt.mpr h; linarith
    rw [if_neg g5]
    simp only [Bool.and_eq_true, Bool.or_eq_true, decide_eq_true_eq, beq_iff_eq, Bool.not_eq_true',
      Bool.or_eq_false_iff, decide_eq_false_iff_not, Bool.and_eq_false_iff] at hR
    obtain ⟨⟨h1, h2⟩, h3⟩ := hR
    have g6 : ¬ (R = 1) := by omega
    rw [if_neg g6]
    obtain ⟨_, _, ugt⟩ := V (R - 1) (by omega) (by omega)
    obtain ⟨mlt, meq⟩ := M (R - 1) (by omega)
    simp only [Bool.and_eq_true, Bool.or_eq_true, decide_eq_true_eq, beq_iff_eq, Bool.not_eq_true',
      Bool.or_eq_false_iff, decide_eq_false_iff_not, Bool.and_eq_false_iff]
    refine ⟨ugt.mp h2, ?_⟩
    obtain ⟨h3a, h3b⟩ := h3
    refine ⟨fun h => h3a (mlt.mpr h), ?_⟩
    rcases h3b with h | h
    · left
      simpa using fun hh => (by simpa using h : ¬ D = _) (meq.mpr hh)
    · right; exact h


/-- the Standard's rounding of D is one of the two posits bracketing √x when D is monotone/exact against posit values -/
theorem faithfulIdx_of_nearestMag (n es : ℕ) (hn : 2 ≤ n) (x D : ℚ) (R : ℕ)
    (hR : nearestMagB n es D R = true)
    (H : ∀ y, 0 < y → y < 2 ^ (n - 1) →
      (x < posVal n es y * posVal n es y → D ≤ posVal n es y) ∧ (posVal n es y * posVal n es y < x → posVal n es y ≤ D) ∧
      (x = posVal n es y * posVal n es y → posVal n es y = D)) :
    faithfulIdx (posVal n es) 1 (maxposEnc n) x R = true := by
  obtain ⟨hm0, hm1⟩ := maxpos_lt n hn
  unfold nearestMagB at hR
  simp only [] at hR
  by_cases c0 : R = 0 ∨ R > maxposEnc n
  · rw [if_pos c0] at hR; exact absurd hR (by simp)
  rw [if_neg c0] at hR
  have hR1 : 1 ≤ R := by omega
  have hR2 : R ≤ maxposEnc n := by omega
  obtain ⟨r1, r2, r3⟩ := H R (by omega) (by omega)
  unfold faithfulIdx
  simp only []
  have g0 : ¬ (R < 1 ∨ R > maxposEnc n) := by omega
  rw [if_neg g0]
  by_cases e0 : posVal n es R * posVal n es R = x
  · rw [if_pos e0]
  rw [if_neg e0]
  by_cases e1 : posVal n es R * posVal n es R < x
  · rw [if_pos e1]
    have hvD := r2 e1
    by_cases e2 : R = maxposEnc n
    · rw [if_pos e2]
    rw [if_neg e2]
    simp only [decide_eq_true_eq]
    by_contra hc
    rw [not_lt] at hc
    obtain ⟨w1, w2, w3⟩ := H (R + 1) (by omega) (by omega)
    have hwD : posVal n es (R + 1) ≤ D := by
      rcases lt_or_eq_of_le hc with c | c
      · exact w2 c
      · exact le_of_eq (w3 c.symm)
    have hmono : posVal n es R < posVal n es (R + 1) := posVal_strictMono n es R (R + 1) hn (by omega) (by omega) (by omega)
    have hmax : posVal n es (R + 1) ≤ posVal n es (maxposEnc n) := by
      rcases Nat.lt_or_ge (R + 1) (maxposEnc n) with c | c
      · exact le_of_lt (posVal_strictMono n es (R + 1) (maxposEnc n) hn (by omega) c hm1)
      · have : R + 1 = maxposEnc n := by omega
        rw [this]
    have hmin : posVal n es 1 < posVal n es (R + 1) := posVal_strictMono n es 1 (R + 1) hn (by omega) (by omega) (by omega)
    by_cases c1 : D ≥ posVal n es (maxposEnc n)
    · rw [if_pos c1] at hR
      exact e2 (by simpa using hR)
    rw [if_neg c1] at hR
    by_cases c2 : D ≤ posVal n es 1
    · linarith
    rw [if_neg c2] at hR
    by_cases c3 : posVal n es R = D
    · linarith
    rw [if_neg c3] at hR
    by_cases c4 : posVal n es R < D
    · rw [if_pos c4] at hR
      simp only [Bool.and_eq_true, decide_eq_true_eq] at hR
      linarith [hR.1.2]
    · exact c4 (lt_of_le_of_ne hvD c3)
  · rw [if_neg e1]
    have e1' : x < posVal n es R * posVal n es R := lt_of_le_of_ne (not_lt.mp e1) (fun h => e0 h.symm)
    have hDv := r1 e1'
    by_cases e2 : R = 1
    · rw [if_pos e2]
    rw [if_neg e2]
    simp only [decide_eq_true_eq]
    by_contra hc
    rw [not_lt] at hc
    obtain ⟨u1, u2, u3⟩ := H (R - 1) (by omega) (by omega)
    have hDu : D ≤ posVal n es (R - 1) := by
      rcases lt_or_eq_of_le hc with c | c
      · exact u1 c
      · exact le_of_eq (u3 c).symm
    have hmono : posVal n es (R - 1) < posVal n es R := posVal_strictMono n es (R - 1) R hn (by omega) (by omega) (by omega)
    have hmax : posVal n es (R - 1) < posVal n es (maxposEnc n) := posVal_strictMono n es (R - 1) (maxposEnc n) hn (by omega) (by omega) hm1
    by_cases c1 : D ≥ posVal n es (maxposEnc n)
    · linarith
    rw [if_neg c1] at hR
    by_cases c2 : D ≤ posVal n es 1
    · rw [if_pos c2] at hR
      exact e2 (by simpa using hR)
    rw [if_neg c2] at hR
    by_cases c3 : posVal n es R = D
    · linarith
    rw [if_neg c3] at hR
    by_cases c4 : posVal n es R < D
    · linarith
    rw [if_neg c4] at hR
    simp only [Bool.and_eq_true, decide_eq_true_eq] at hR
    linarith [hR.1.2]


/-- `convert(value, posit)` of the positive dyadic m·2^e: a magnitude in [1, maxpos] that the Standard prescribes -/
theorem convertDyadic_spec (n es : ℕ) (hn : 2 ≤ n) (m : ℕ) (e : ℤ) (hm : 0 < m) :
    1 ≤ convertDyadic n es false m e ∧ convertDyadic n es false m e ≤ maxposEnc n ∧
    nearestMagB n es ((m : ℚ) * 2 ^ e) (convertDyadic n es false m e) = true := by
  obtain ⟨N, rfl⟩ : ∃ N, n = N + 2 := ⟨n - 2, by omega⟩
  unfold convertDyadic
  rw [if_neg (by omega)]
  simp only []
  have l1 := Nat.log2_self_le (show m ≠ 0 by omega)
  have l2 := @Nat.lt_log2_self m
  generalize m.log2 = L at *
  have hfrac : m - 2 ^ L < 2 ^ L := by rw [pow_succ] at l2; omega
  have hmag := convert_mag N es ((L : ℤ) + e) L (m - 2 ^ L) hfrac
  have hfp : (0 : ℚ) < 2 ^ L := by positivity
  have hf0 : (0 : ℚ) ≤ ((m - 2 ^ L : ℕ) : ℚ) / 2 ^ L := by positivity
  have hf1 : ((m - 2 ^ L : ℕ) : ℚ) / 2 ^ L < 1 := by
    rw [div_lt_one hfp]; exact_mod_cast hfrac
  have hnm := (nearestMagB_iff (N + 2) es _ (by omega) hf0 hf1).mpr hmag
  obtain ⟨hR1, hR2, _⟩ := hmag
  refine ⟨hR1, hR2, ?_⟩
  have hval : valS ((L : ℤ) + e) (((m - 2 ^ L : ℕ) : ℚ) / 2 ^ L) = (m : ℚ) * 2 ^ e := by
    unfold valS
    rw [zpow_add₀ (by norm_num), zpow_natCast]
    push_cast [Nat.cast_sub l1]
    field_simp
    ring
  rw [← hval]; exact hnm

/-- every positive posit value lies in [2^-L, 2^L], L = (nbits-2)·2^es -/
theorem posVal_range (n es y : ℕ) (hn : 2 ≤ n) (hy0 : 0 < y) (hy : y < 2 ^ (n - 1)) :
    (2 : ℚ) ^ (-(((n - 2) * 2 ^ es : ℕ) : ℤ)) ≤ posVal n es y ∧ posVal n es y ≤ (2 : ℚ) ^ ((((n - 2) * 2 ^ es : ℕ)) : ℤ) := by
  obtain ⟨hm0, hm1⟩ : 0 < maxposEnc n ∧ maxposEnc n < 2 ^ (n - 1) := by
    have hp := two_pow_pred n (by omega)
    have h3 : 2 ≤ 2 ^ (n - 1) := by
      calc 2 = 2 ^ 1 := rfl
        _ ≤ 2 ^ (n - 1) := Nat.pow_le_pow_right (by norm_num) (by omega)
    unfold maxposEnc; omega
  have e1 : ((((n - 2) * 2 ^ es : ℕ)) : ℤ) = ((n : ℤ) - 2) * ((2 ^ es : ℕ) : ℤ) := by
    push_cast [Nat.cast_sub hn]; ring
  constructor
  · rw [e1, ← neg_mul, ← posVal_minpos n es hn]
    rcases Nat.eq_or_lt_of_le (show 1 ≤ y by omega) with h | h
    · rw [← h]
    · exact le_of_lt (posVal_strictMono n es 1 y hn (by omega) h hy)
  · rw [e1, ← posVal_maxpos n es hn]
    rcases Nat.lt_or_ge y (maxposEnc n) with h | h
    · exact le_of_lt (posVal_strictMono n es y (maxposEnc n) hn hy0 h hm1)
    · have : y = maxposEnc n := by unfold maxposEnc at *; omega
      rw [this]


/-- the binary64 square root of a positive posit value, as computed by the model -/
theorem sqrtDouble_of_posVal (n es y : ℕ) (hn : 2 ≤ n) (hy0 : 0 < y) (hy : y < 2 ^ (n - 1))
    (hrange : (n - 2) * 2 ^ es ≤ 2040) :
    ∃ (m : ℕ) (e' : ℤ), FP.decode 11 52 (sqrtBits 11 52 (posVal n es y)) = .fin false m e' ∧ 0 < m ∧
      SqrtDouble (posVal n es y) ((m : ℚ) * 2 ^ e') := by
  obtain ⟨r1, r2⟩ := posVal_range n es y hn hy0 hy
  have hpos := posVal_pos n es y hn hy0 hy
  have hL : ((((n - 2) * 2 ^ es : ℕ)) : ℤ) ≤ 2040 := by exact_mod_cast hrange
  have h1 : (2 : ℚ) ^ (-2040 : ℤ) ≤ posVal n es y :=
    le_trans (zpow_le_zpow_right₀ (by norm_num) (by omega)) r1
  have h2 : posVal n es y ≤ (2 : ℚ) ^ (2040 : ℤ) :=
    le_trans r2 (zpow_le_zpow_right₀ (by norm_num) hL)
  obtain ⟨m, e', e, R, hdec, hm, hval, hR1, hR2, hr, hyy⟩ := sqrtBits_spec (posVal n es y) hpos h1 h2
  exact ⟨m, e', hdec, hm, e, R, hval, hR1, hR2, hr, hyy⟩

theorem positVal_pos_enc (n es a : ℕ) (hn : 2 ≤ n) (ha0 : 0 < a) (ha : a < 2 ^ (n - 1)) :
    positVal n es a = some (posVal n es a) := by
  have hp := two_pow_pred n (by omega)
  unfold positVal
  simp only []
  have hm : a % 2 ^ n = a := Nat.mod_eq_of_lt (by omega)
  rw [hm, if_neg (by omega), if_neg (by omega), if_pos ha]

theorem fbitsOf_le (n es : ℕ) : fbitsOf n es ≤ n - 3 := by
  unfold fbitsOf; split <;> omega

/-- C17 for the generic double detour: correctly rounded for nbits ≤ 16, faithful above — every configuration whose
    scale range fits binary64 and whose (n+1)-bit cuts fit 53 bits -/
theorem positSqrt_generic_ok (n es a : ℕ) (hn : 2 ≤ n) (hrange : (n - 2) * 2 ^ es ≤ 2040)
    (hfb : fbitsOf n es ≤ 51) (ha : a < 2 ^ (n - 1)) (ht : rootsTable n es = none) :
    (positSqrtOk n es a (positSqrtGeneric n es a)).1 = true := by
  have hp := two_pow_pred n (by omega)
  have hpos2 : 0 < 2 ^ (n - 1) := Nat.two_pow_pos _
  have hmod : a % 2 ^ n = a := Nat.mod_eq_of_lt (by omega)
  have hbit : a.testBit (n - 1) = false := Nat.testBit_lt_two_pow ha
  rcases Nat.eq_zero_or_pos a with rfl | ha0
  · -- sqrt(0) = 0
    have hv : positVal n es 0 = some 0 := by unfold positVal; simp
    have hg : positSqrtGeneric n es 0 = 0 := by
      unfold positSqrtGeneric
      simp only [Nat.zero_mod, ht, Nat.zero_testBit, hv]
      simp
    rw [hg]
    unfold positSqrtOk
    simp only [Nat.zero_mod, hv]
    simp
  · have hv := positVal_pos_enc n es a hn ha0 ha
    have hxpos := posVal_pos n es a hn ha0 ha
    obtain ⟨m, e', hdec, hm, hsd⟩ := sqrtDouble_of_posVal n es a hn ha0 ha hrange
    obtain ⟨hR1, hR2, hnm⟩ := convertDyadic_spec n es hn m e' hm
    have hg : positSqrtGeneric n es a = convertDyadic n es false m e' := by
      unfold positSqrtGeneric
      simp only [hmod, ht, hbit, hv]
      rw [if_neg (ne_of_gt hxpos)]
      unfold fromDouble fromFP sqrtDoubleOfVal
      rw [hdec]
      simp
    rw [hg]
    generalize convertDyadic n es false m e' = R at *
    have hmx : maxposEnc n < 2 ^ (n - 1) := by unfold maxposEnc; omega
    unfold positSqrtOk
    simp only [hmod, hv]
    rw [if_neg (by omega), if_neg (not_lt.mpr (le_of_lt hxpos)), if_neg (ne_of_gt hxpos)]
    -- (n+1)-bit cut form of x
    have hxform : ∃ (mx : ℕ) (kx : ℤ), mx < 2 ^ (fbitsOf n es + 2) ∧ posVal n es a = (mx : ℚ) * 2 ^ kx := by
      obtain ⟨s, mm, _, h2, h3⟩ := cut_form n es (2 * a) hn (by omega) (by omega)
      rw [posVal_double n es a hn ha0 ha] at h3
      exact ⟨mm, _, h2, h3⟩
    by_cases h16 : n ≤ 16
    · simp only [h16, if_true]
      have hfb13 : fbitsOf n es + 2 ≤ 25 := by have := fbitsOf_le n es; omega
      obtain ⟨mx, kx, hmx1, hxf⟩ := hxform
      have hmx25 : mx < 2 ^ 25 := lt_of_lt_of_le hmx1 (Nat.pow_le_pow_right (by norm_num) hfb13)
      apply nearestIdx_of_nearestMag n es hn _ _ hsd.pos R hnm
      intro c hc0 hc
      obtain ⟨s, mc, _, h2, h3⟩ := cut_form n es c hn hc0 hc
      have hmc25 : mc < 2 ^ 25 := lt_of_lt_of_le h2 (Nat.pow_le_pow_right (by norm_num) hfb13)
      have hcpos : 0 < posVal (n + 1) es c := posVal_pos (n + 1) es c (by omega) hc0 (by simpa using hc)
      rw [h3] at hcpos ⊢
      exact hsd.cuts25 mx kx hmx25 hxf mc _ hmc25 hcpos
    · simp only [h16, if_false]
      apply faithfulIdx_of_nearestMag n es hn _ _ R hnm
      intro y hy0 hy
      obtain ⟨s, my, _, h2, h3⟩ := cut_form n es (2 * y) hn (by omega) (by omega)
      rw [posVal_double n es y hn hy0 hy] at h3
      have hmy53 : my < 2 ^ 53 := lt_of_lt_of_le h2 (Nat.pow_le_pow_right (by norm_num) (by omega))
      have hypos := posVal_pos n es y hn hy0 hy
      have := hsd.mono my _ hmy53 (by rw [← h3]; exact hypos)
      rw [← h3, sq] at this
      exact this


/-! ### monotonicity -/

/-- the bounds on x that `SqrtDouble x D` gives, in the unit u = 2^(e-52): with X = x/u²,
    (R-½)² ≤ X, (2^52)² ≤ X, X ≤ (R+½)², and equality with a midpoint forces R even -/
theorem SqrtDouble.bounds {x D : ℚ} (h : SqrtDouble x D) :
    ∃ (e : ℤ) (R : ℕ), D = (R : ℚ) * 2 ^ (e - 52) ∧ 2 ^ 52 ≤ R ∧ R ≤ 2 ^ 53 ∧
      ((R : ℚ) - 1 / 2) ^ 2 ≤ x / (2 ^ (e - 52)) ^ 2 ∧ ((2 : ℚ) ^ 52) ^ 2 ≤ x / (2 ^ (e - 52)) ^ 2 ∧
      x / (2 ^ (e - 52)) ^ 2 ≤ ((R : ℚ) + 1 / 2) ^ 2 ∧
      (x / (2 ^ (e - 52)) ^ 2 = ((R : ℚ) - 1 / 2) ^ 2 → R % 2 = 0) ∧
      (x / (2 ^ (e - 52)) ^ 2 = ((R : ℚ) + 1 / 2) ^ 2 → R % 2 = 0) := by
  obtain ⟨e, R, hD, h1, h2, hr, hy⟩ := h
  have hY : x * 2 ^ (2 * (52 - e)) = x / (2 ^ (e - 52)) ^ 2 := by
    rw [scale_sq, show (52 - e) = -(e - 52) by ring, zpow_neg, inv_pow, div_eq_mul_inv]
  rw [hY] at hr hy
  refine ⟨e, R, hD, h1, h2, ?_⟩
  generalize x / (2 ^ (e - 52)) ^ 2 = X at *
  have hlo := hr.lo
  have hhi := hr.hi
  refine ⟨by nlinarith, hy, by nlinarith, ?_, ?_⟩
  · intro hX
    rcases hr with ⟨a, _⟩ | ⟨a | a, ev⟩
    · exfalso; rw [hX] at a; nlinarith
    · exfalso
      rw [hX] at a
      have : (0 : ℚ) ≤ (R : ℚ) := by positivity
      nlinarith
    · exact ev
  · intro hX
    rcases hr with ⟨_, b⟩ | ⟨a | a, ev⟩
    · exfalso; rw [hX] at b; nlinarith
    · exact ev
    · exfalso
      rw [hX] at a
      have : (0 : ℚ) ≤ (R : ℚ) := by positivity
      nlinarith


/-- RN53 ∘ √ is monotone -/
theorem sqrtDouble_mono {x x' D D' : ℚ} (h : SqrtDouble x D) (h' : SqrtDouble x' D') (hxx : x ≤ x') : D ≤ D' := by
  obtain ⟨e, R, hD, r1, r2, lo1, lo2, _, tlo, _⟩ := h.bounds
  obtain ⟨e', R', hD', r1', r2', _, _, hi', _, thi'⟩ := h'.bounds
  by_contra hc
  rw [not_le] at hc
  have hu : (0 : ℚ) < 2 ^ (e - 52) := two_zpow_pos' _
  have hu2 : (0 : ℚ) < (2 ^ (e - 52)) ^ 2 := by positivity
  -- t = u'/u
  have ht : (2 : ℚ) ^ (e' - 52) = 2 ^ (e - 52) * 2 ^ (e' - e) := by
    rw [← zpow_add₀ (by norm_num)]; congr 1; ring
  have htpos : (0 : ℚ) < 2 ^ (e' - e) := two_zpow_pos' _
  set t : ℚ := 2 ^ (e' - e) with htdef
  set A : ℚ := x / (2 ^ (e - 52)) ^ 2 with hA
  have hB : x' / (2 ^ (e' - 52)) ^ 2 * t ^ 2 = x' / (2 ^ (e - 52)) ^ 2 := by
    rw [ht]; field_simp
  set B : ℚ := x' / (2 ^ (e - 52)) ^ 2 with hBdef
  have hAB : A ≤ B := by rw [hA, hBdef]; exact div_le_div_of_nonneg_right hxx (le_of_lt hu2)
  have hBhi : B ≤ (((R' : ℚ) + 1 / 2) * t) ^ 2 := by
    rw [← hB, mul_pow]; exact mul_le_mul_of_nonneg_right hi' (by positivity)
  have hRt : (R' : ℚ) * t < (R : ℚ) := by
    rw [hD, hD', ht] at hc
    have : (R' : ℚ) * (2 ^ (e - 52) * t) = ((R' : ℚ) * t) * 2 ^ (e - 52) := by ring
    rw [this] at hc
    exact lt_of_mul_lt_mul_right hc (le_of_lt hu)
  have q1 : (2 : ℚ) ^ 52 ≤ (R : ℚ) := by exact_mod_cast r1
  have q2 : (R : ℚ) ≤ 2 ^ 53 := by exact_mod_cast r2
  have q1' : (2 : ℚ) ^ 52 ≤ (R' : ℚ) := by exact_mod_cast r1'
  have q2' : (R' : ℚ) ≤ 2 ^ 53 := by exact_mod_cast r2'
  have p52 : (2 : ℚ) ^ 52 = 4503599627370496 := by norm_num
  have p53 : (2 : ℚ) ^ 53 = 9007199254740992 := by norm_num
  rw [p52] at q1 q1' lo2
  rw [p53] at q2 q2'
  rcases lt_trichotomy e' e with hlt | heq | hgt
  · -- e' < e
    by_cases h2 : e' ≤ e - 2
    · have tle : t ≤ 1 / 4 := by
        have : t ≤ (2 : ℚ) ^ (-2 : ℤ) := zpow_le_zpow_right₀ (by norm_num) (by omega)
        have e2 : (2 : ℚ) ^ (-2 : ℤ) = 1 / 4 := by norm_num
        rwa [e2] at this
      have b1 : ((R' : ℚ) + 1 / 2) * t < 4503599627370496 := by
        have h0 : (0 : ℚ) ≤ (R' : ℚ) + 1 / 2 := by positivity
        have : ((R' : ℚ) + 1 / 2) * t ≤ ((R' : ℚ) + 1 / 2) * (1 / 4) := mul_le_mul_of_nonneg_left tle h0
        linarith
      have b2 : (((R' : ℚ) + 1 / 2) * t) ^ 2 < (4503599627370496 : ℚ) ^ 2 :=
        pow_lt_pow_left₀ b1 (by positivity) (by norm_num)
      linarith
    · have he1 : e' - e = -1 := by omega
      have teq : t = 1 / 2 := by rw [htdef, he1]; norm_num
      by_cases h53 : R' = 2 ^ 53
      · have hR'q : (R' : ℚ) = 9007199254740992 := by rw [h53]; norm_num
        rw [hR'q, teq] at hRt hBhi
        have hRge : (4503599627370496 : ℚ) + 1 ≤ (R : ℚ) := by
          have : 2 ^ 52 + 1 ≤ R := by
            have : (2 ^ 52 : ℚ) < (R : ℚ) := by rw [p52]; linarith
            have : 2 ^ 52 < R := by exact_mod_cast this
            omega
          have := (Nat.cast_le (α := ℚ)).mpr this
          push_cast at this; linarith
        have b1 : ((9007199254740992 : ℚ) + 1 / 2) * (1 / 2) < (R : ℚ) - 1 / 2 := by linarith
        have b2 : (((9007199254740992 : ℚ) + 1 / 2) * (1 / 2)) ^ 2 < ((R : ℚ) - 1 / 2) ^ 2 :=
          pow_lt_pow_left₀ b1 (by norm_num) (by norm_num)
        linarith
      · have hR'le : (R' : ℚ) ≤ 9007199254740992 - 1 := by
          have : R' ≤ 2 ^ 53 - 1 := by omega
          have := (Nat.cast_le (α := ℚ)).mpr this
          push_cast [Nat.cast_sub (show 1 ≤ 2 ^ 53 by norm_num)] at this
          linarith
        rw [teq] at hBhi
        have b1 : ((R' : ℚ) + 1 / 2) * (1 / 2) < 4503599627370496 := by linarith
        have b2 : (((R' : ℚ) + 1 / 2) * (1 / 2)) ^ 2 < (4503599627370496 : ℚ) ^ 2 :=
          pow_lt_pow_left₀ b1 (by positivity) (by norm_num)
        linarith
  · -- same binade
    have teq : t = 1 := by rw [htdef, heq]; simp
    rw [teq, mul_one] at hRt hBhi
    have hRR : R' + 1 ≤ R := by
      have : R' < R := by exact_mod_cast hRt
      omega
    have hRRq : (R' : ℚ) + 1 ≤ (R : ℚ) := by exact_mod_cast hRR
    have b1 : (R' : ℚ) + 1 / 2 ≤ (R : ℚ) - 1 / 2 := by linarith
    have b2 : ((R' : ℚ) + 1 / 2) ^ 2 ≤ ((R : ℚ) - 1 / 2) ^ 2 := pow_le_pow_left₀ (by positivity) b1 2
    -- all equalities
    have eA : A = ((R : ℚ) - 1 / 2) ^ 2 := by linarith
    have eB : B = ((R' : ℚ) + 1 / 2) ^ 2 := by linarith
    have eRR : ((R' : ℚ) + 1 / 2) ^ 2 = ((R : ℚ) - 1 / 2) ^ 2 := by linarith
    have ev := tlo eA
    have ev' : R' % 2 = 0 := by
      apply thi'
      rw [heq]; rw [hBdef] at eB; exact eB
    have : (R' : ℚ) + 1 / 2 = (R : ℚ) - 1 / 2 := by
      have h0 : (0 : ℚ) ≤ (R' : ℚ) + 1 / 2 := by positivity
      have h1 : (0 : ℚ) ≤ (R : ℚ) - 1 / 2 := by linarith
      exact (sq_eq_sq₀ h0 h1).mp eRR
    have : (R' : ℚ) + 1 = (R : ℚ) := by linarith
    have : R' + 1 = R := by exact_mod_cast this
    omega
  · -- e' > e : D' ≥ 2^53·u ≥ D
    have tge : 2 ≤ t := by
      have : (2 : ℚ) ^ (1 : ℤ) ≤ t := zpow_le_zpow_right₀ (by norm_num) (by omega)
      simpa using this
    have : (4503599627370496 : ℚ) * 2 ≤ (R' : ℚ) * t := mul_le_mul q1' tge (by norm_num) (by positivity)
    linarith


/-- clamped round-to-nearest-even is monotone -/
theorem rneClamp_mono (n : ℕ) (B B' : ℚ) (R R' : ℕ) (h : RneClamp n B R) (h' : RneClamp n B' R') (hBB : B ≤ B') :
    R ≤ R' := by
  obtain ⟨a1, a2, a3, a4, a5⟩ := h
  obtain ⟨b1, b2, b3, b4, b5⟩ := h'
  by_contra hc
  have hlt : R' + 1 ≤ R := by omega
  have hltq : (R' : ℚ) + 1 ≤ (R : ℚ) := by exact_mod_cast hlt
  by_cases c1 : ((maxposEnc n : ℕ) : ℚ) ≤ B'
  · have := b3 c1; omega
  by_cases c2 : B ≤ 1
  · have := a4 c2; omega
  rw [not_le] at c1 c2
  have r := a5 c2 (lt_of_le_of_lt hBB c1)
  have r' := b5 (lt_of_lt_of_le c2 hBB) c1
  rcases r with ⟨x1, _⟩ | ⟨x1 | x1, ev⟩
  · rcases r' with ⟨_, y2⟩ | ⟨y | y, _⟩ <;> linarith
  · rcases r' with ⟨_, y2⟩ | ⟨y | y, _⟩ <;> linarith
  · rcases r' with ⟨_, y2⟩ | ⟨y | y, ev'⟩
    · linarith
    · have : (R' : ℚ) + 1 = (R : ℚ) := by linarith
      have : R' + 1 = R := by exact_mod_cast this
      omega
    · linarith

/-- the Standard's rounding is monotone in the real being rounded -/
theorem nearestMag_mono (n es : ℕ) (hn : 2 ≤ n) (X X' : ℚ) (hX : 0 < X) (hXX : X ≤ X') (R R' : ℕ)
    (h : nearestMagB n es X R = true) (h' : nearestMagB n es X' R' = true) : R ≤ R' := by
  obtain ⟨s, f, hf0, hf1, rfl⟩ := exists_coords X hX
  obtain ⟨s', f', hf0', hf1', rfl⟩ := exists_coords X' (lt_of_lt_of_le hX hXX)
  rw [nearestMagB_iff n es R hn hf0 hf1] at h
  rw [nearestMagB_iff n es R' hn hf0' hf1'] at h'
  exact rneClamp_mono n _ _ R R' h h' ((encS_le_iff_valS_le n es hf0 hf1 hf0' hf1').mpr hXX)

/-- C17 monotonicity of the generic double detour on non-negative arguments a ≤ b -/
theorem positSqrt_generic_mono (n es a b : ℕ) (hn : 2 ≤ n) (hrange : (n - 2) * 2 ^ es ≤ 2040)
    (hab : a ≤ b) (hb : b < 2 ^ (n - 1)) (ht : rootsTable n es = none) :
    positMonoOk n es a b (positSqrtGeneric n es a) (positSqrtGeneric n es b) = true := by
  have hp := two_pow_pred n (by omega)
  have hmx : maxposEnc n < 2 ^ (n - 1) := by unfold maxposEnc; omega
  -- the result of a positive argument
  have key : ∀ y, 0 < y → y < 2 ^ (n - 1) → ∃ (D : ℚ) (R : ℕ), positSqrtGeneric n es y = R ∧ 1 ≤ R ∧ R ≤ maxposEnc n ∧
      SqrtDouble (posVal n es y) D ∧ nearestMagB n es D R = true := by
    intro y hy0 hy
    have hmod : y % 2 ^ n = y := Nat.mod_eq_of_lt (by omega)
    have hbit : y.testBit (n - 1) = false := Nat.testBit_lt_two_pow hy
    have hv := positVal_pos_enc n es y hn hy0 hy
    have hxpos := posVal_pos n es y hn hy0 hy
    obtain ⟨m, e', hdec, hm, hsd⟩ := sqrtDouble_of_posVal n es y hn hy0 hy hrange
    obtain ⟨hR1, hR2, hnm⟩ := convertDyadic_spec n es hn m e' hm
    refine ⟨_, convertDyadic n es false m e', ?_, hR1, hR2, hsd, hnm⟩
    unfold positSqrtGeneric
    simp only [hmod, ht, hbit, hv]
    rw [if_neg (ne_of_gt hxpos)]
    unfold fromDouble fromFP sqrtDoubleOfVal
    rw [hdec]
    simp
  have hzero : positSqrtGeneric n es 0 = 0 := by
    have hv : positVal n es 0 = some 0 := by unfold positVal; simp
    unfold positSqrtGeneric
    simp only [Nat.zero_mod, ht, Nat.zero_testBit, hv]
    simp
  have hv0 : positVal n es 0 = some 0 := by unfold positVal; simp
  unfold positMonoOk
  rcases Nat.eq_zero_or_pos a with rfl | ha0
  · rw [hzero, hv0]
    rcases Nat.eq_zero_or_pos b with rfl | hb0
    · rw [hzero, hv0]; simp
    · obtain ⟨D, R, hg, hR1, hR2, _, _⟩ := key b hb0 hb
      rw [hg, positVal_pos_enc n es b hn hb0 hb, positVal_pos_enc n es R hn (by omega) (by omega)]
      simp only []
      have := posVal_pos n es R hn (by omega) (by omega)
      split
      · simpa using le_of_lt this
      · rfl
  · have hb0 : 0 < b := by omega
    obtain ⟨Da, Ra, hga, ha1, ha2, hsa, hna⟩ := key a ha0 (by omega)
    obtain ⟨Db, Rb, hgb, hb1, hb2, hsb, hnb⟩ := key b hb0 hb
    have hxy : posVal n es a ≤ posVal n es b := by
      rcases Nat.eq_or_lt_of_le hab with h | h
      · rw [h]
      · exact le_of_lt (posVal_strictMono n es a b hn ha0 h hb)
    have hDD := sqrtDouble_mono hsa hsb hxy
    have hRR := nearestMag_mono n es hn Da Db hsa.pos hDD Ra Rb hna hnb
    rw [hga, hgb, positVal_pos_enc n es a hn ha0 (by omega), positVal_pos_enc n es b hn hb0 hb,
      positVal_pos_enc n es Ra hn (by omega) (by omega), positVal_pos_enc n es Rb hn (by omega) (by omega)]
    simp only []
    split
    · have : posVal n es Ra ≤ posVal n es Rb := by
        rcases Nat.eq_or_lt_of_le hRR with h | h
        · rw [h]
        · exact le_of_lt (posVal_strictMono n es Ra Rb hn (by omega) h (by omega))
      simpa using this
    · rfl


end UVerif.Sqrt
