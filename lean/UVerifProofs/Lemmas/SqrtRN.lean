/-
  UVerifProofs.Lemmas.SqrtRN — round-to-nearest-even of a square root, stated on squares (√Y is never formed).
  `IsRneSq Y R` : R is the RNE integer of √Y.  With 2^52 ≤ √Y (one binade of binary64 scaled to integers) this gives
    * monotonicity / exactness against every 53-bit float T  (`rnSq_le_of_lt`, `rnSq_ge_of_gt`, `rnSq_eq_of_eq`);
    * no double rounding: if R coincides with a cut that has at most 25 significant bits while Y itself has at most 25
      significant bits, then Y is exactly the square of the cut (`rnSq_gap`).
-/
import Mathlib.Tactic.Ring
import Mathlib.Tactic.Linarith
import Mathlib.Tactic.NormNum
import Mathlib.Tactic.Positivity
import Mathlib.Tactic.FieldSimp
import Mathlib.Algebra.Order.Field.Basic
import Mathlib.Data.Rat.Defs
import Mathlib.Data.Rat.Floor

namespace UVerif.Sqrt

/-- R is the round-to-nearest, ties-to-even integer of √Y — decided on squares -/
def IsRneSq (Y : ℚ) (R : ℕ) : Prop :=
  (((2 * (R : ℚ) - 1) ^ 2 < 4 * Y) ∧ (4 * Y < (2 * (R : ℚ) + 1) ^ 2)) ∨
  ((4 * Y = (2 * (R : ℚ) + 1) ^ 2 ∨ 4 * Y = (2 * (R : ℚ) - 1) ^ 2) ∧ R % 2 = 0)

theorem IsRneSq.lo {Y : ℚ} {R : ℕ} (h : IsRneSq Y R) : (2 * (R : ℚ) - 1) ^ 2 ≤ 4 * Y := by
  rcases h with ⟨a, b⟩ | ⟨a | a, _⟩
  · exact le_of_lt a
  · rw [a]; nlinarith [show (0 : ℚ) ≤ (R : ℚ) from by positivity]
  · rw [a]

theorem IsRneSq.hi {Y : ℚ} {R : ℕ} (h : IsRneSq Y R) : 4 * Y ≤ (2 * (R : ℚ) + 1) ^ 2 := by
  rcases h with ⟨a, b⟩ | ⟨a | a, _⟩
  · exact le_of_lt b
  · rw [a]
  · rw [a]; nlinarith [show (0 : ℚ) ≤ (R : ℚ) from by positivity]

/-- a 53-bit float N·2^j that is at least 2^52 is a natural number -/
theorem float_ge_is_nat (N : ℕ) (j : ℤ) (hN : N < 2 ^ 53) (h : (2 : ℚ) ^ 52 ≤ (N : ℚ) * 2 ^ j) :
    ∃ t : ℕ, (N : ℚ) * 2 ^ j = (t : ℚ) := by
  have hj : 0 ≤ j := by
    by_contra hc
    have hj' : j ≤ -1 := by omega
    have h1 : (2 : ℚ) ^ j ≤ 2 ^ (-1 : ℤ) := zpow_le_zpow_right₀ (by norm_num) hj'
    have h2 : (N : ℚ) < 2 ^ 53 := by exact_mod_cast hN
    have : (N : ℚ) * 2 ^ j < 2 ^ 53 * 2 ^ (-1 : ℤ) := by
      calc (N : ℚ) * 2 ^ j ≤ (N : ℚ) * 2 ^ (-1 : ℤ) := by
            apply mul_le_mul_of_nonneg_left h1; positivity
        _ < 2 ^ 53 * 2 ^ (-1 : ℤ) := by
            apply mul_lt_mul_of_pos_right h2; exact zpow_pos (by norm_num) _
    norm_num at this h
    linarith
  obtain ⟨k, rfl⟩ := Int.eq_ofNat_of_zero_le hj
  exact ⟨N * 2 ^ k, by push_cast; rw [zpow_natCast]⟩

section mono
set_option linter.unusedSectionVars false
variable {Y : ℚ} {R : ℕ} (hR : IsRneSq Y R) (hY : ((2 : ℚ) ^ 52) ^ 2 ≤ Y) (hR52 : 2 ^ 52 ≤ R)
  (N : ℕ) (j : ℤ) (hN : N < 2 ^ 53) (hT : 0 < (N : ℚ) * 2 ^ j)
include hR hY hR52 hN hT

/-- √Y < T ⇒ RN(√Y) ≤ T for every 53-bit float T -/
theorem rnSq_le_of_lt (h : Y < ((N : ℚ) * 2 ^ j) ^ 2) : (R : ℚ) ≤ (N : ℚ) * 2 ^ j := by
  have hge : (2 : ℚ) ^ 52 ≤ (N : ℚ) * 2 ^ j := by
    by_contra hc
    rw [not_le] at hc
    have : ((N : ℚ) * 2 ^ j) ^ 2 < ((2 : ℚ) ^ 52) ^ 2 := by
      apply pow_lt_pow_left₀ hc (le_of_lt hT) (by norm_num)
    linarith
  obtain ⟨t, ht⟩ := float_ge_is_nat N j hN hge
  rw [ht] at h ⊢
  by_contra hc
  rw [not_le] at hc
  have htR : t + 1 ≤ R := by exact_mod_cast hc
  have htq : (t : ℚ) + 1 ≤ (R : ℚ) := by exact_mod_cast htR
  have hlo := hR.lo
  have ht0 : (0 : ℚ) ≤ (t : ℚ) := by positivity
  nlinarith

/-- T < √Y ⇒ T ≤ RN(√Y) -/
theorem rnSq_ge_of_gt (h : ((N : ℚ) * 2 ^ j) ^ 2 < Y) : (N : ℚ) * 2 ^ j ≤ (R : ℚ) := by
  by_contra hc
  rw [not_le] at hc
  have hR52q : (2 : ℚ) ^ 52 ≤ (R : ℚ) := by exact_mod_cast hR52
  obtain ⟨t, ht⟩ := float_ge_is_nat N j hN (by linarith)
  rw [ht] at h hc
  have htR : R + 1 ≤ t := by exact_mod_cast hc
  have htq : (R : ℚ) + 1 ≤ (t : ℚ) := by exact_mod_cast htR
  have hhi := hR.hi
  have hr0 : (0 : ℚ) ≤ (R : ℚ) := by positivity
  nlinarith

/-- √Y = T ⇒ RN(√Y) = T -/
theorem rnSq_eq_of_eq (h : Y = ((N : ℚ) * 2 ^ j) ^ 2) : (N : ℚ) * 2 ^ j = (R : ℚ) := by
  have hge : (2 : ℚ) ^ 52 ≤ (N : ℚ) * 2 ^ j := by
    by_contra hc
    rw [not_le] at hc
    have : ((N : ℚ) * 2 ^ j) ^ 2 < ((2 : ℚ) ^ 52) ^ 2 := by
      apply pow_lt_pow_left₀ hc (le_of_lt hT) (by norm_num)
    linarith
  obtain ⟨t, ht⟩ := float_ge_is_nat N j hN hge
  rw [ht] at h ⊢
  have hlo := hR.lo
  have hhi := hR.hi
  have ht0 : (0 : ℚ) ≤ (t : ℚ) := by positivity
  have hr0 : (0 : ℚ) ≤ (R : ℚ) := by positivity
  rcases Nat.lt_trichotomy t R with hlt | heq | hgt
  · exfalso
    have : (t : ℚ) + 1 ≤ (R : ℚ) := by exact_mod_cast hlt
    nlinarith
  · rw [heq]
  · exfalso
    have : (R : ℚ) + 1 ≤ (t : ℚ) := by exact_mod_cast hgt
    nlinarith

end mono

/-- no double rounding: Y = mx·2^ky and R = mc·2^jc with mx, mc < 2^25 and R ≤ 2^53 the RNE of √Y ⇒ Y = R² -/
theorem rnSq_gap {Y : ℚ} {R : ℕ} (hR : IsRneSq Y R) (hR52 : 2 ^ 52 ≤ R) (hR53 : R ≤ 2 ^ 53)
    (mx : ℕ) (ky : ℤ) (hmx : mx < 2 ^ 25) (hY : Y = (mx : ℚ) * 2 ^ ky)
    (mc : ℕ) (jc : ℤ) (hmc : mc < 2 ^ 25) (hc : (R : ℚ) = (mc : ℚ) * 2 ^ jc) : Y = (R : ℚ) ^ 2 := by
  have hlo := hR.lo
  have hhi := hR.hi
  have hR52q : (2 : ℚ) ^ 52 ≤ (R : ℚ) := by exact_mod_cast hR52
  have hR53q : (R : ℚ) ≤ 2 ^ 53 := by exact_mod_cast hR53
  -- jc ≥ 28
  have hjc : 28 ≤ jc := by
    by_contra hcn
    have hj' : jc ≤ 27 := by omega
    have h1 : (2 : ℚ) ^ jc ≤ 2 ^ (27 : ℤ) := zpow_le_zpow_right₀ (by norm_num) hj'
    have h2 : (mc : ℚ) < 2 ^ 25 := by exact_mod_cast hmc
    have : (mc : ℚ) * 2 ^ jc < 2 ^ 25 * 2 ^ (27 : ℤ) := by
      calc (mc : ℚ) * 2 ^ jc ≤ (mc : ℚ) * 2 ^ (27 : ℤ) := by
            apply mul_le_mul_of_nonneg_left h1; positivity
        _ < 2 ^ 25 * 2 ^ (27 : ℤ) := by
            apply mul_lt_mul_of_pos_right h2; exact zpow_pos (by norm_num) _
    rw [← hc] at this
    norm_num at this hR52q
    linarith
  -- ky ≥ 79
  have hYlo : ((2 : ℚ) ^ 52 - 1 / 2) ^ 2 ≤ Y := by
    have h1 : (2 : ℚ) ^ 53 - 1 ≤ 2 * (R : ℚ) - 1 := by
      have e : (2 : ℚ) ^ 53 = 2 * 2 ^ 52 := by norm_num
      rw [e]; linarith
    have h2 : ((2 : ℚ) ^ 53 - 1) ^ 2 ≤ (2 * (R : ℚ) - 1) ^ 2 := pow_le_pow_left₀ (by norm_num) h1 2
    have h3 : ((2 : ℚ) ^ 52 - 1 / 2) ^ 2 = ((2 : ℚ) ^ 53 - 1) ^ 2 / 4 := by norm_num
    rw [h3]; linarith
  have hky : 78 ≤ ky := by
    by_contra hcn
    have hk' : ky ≤ 77 := by omega
    have h1 : (2 : ℚ) ^ ky ≤ 2 ^ (77 : ℤ) := zpow_le_zpow_right₀ (by norm_num) hk'
    have h2 : (mx : ℚ) < 2 ^ 25 := by exact_mod_cast hmx
    have : (mx : ℚ) * 2 ^ ky < 2 ^ 25 * 2 ^ (77 : ℤ) := by
      calc (mx : ℚ) * 2 ^ ky ≤ (mx : ℚ) * 2 ^ (77 : ℤ) := by
            apply mul_le_mul_of_nonneg_left h1; positivity
        _ < 2 ^ 25 * 2 ^ (77 : ℤ) := by
            apply mul_lt_mul_of_pos_right h2; exact zpow_pos (by norm_num) _
    rw [← hY] at this
    norm_num at this hYlo
    linarith
  obtain ⟨j', hj'⟩ : ∃ j' : ℕ, jc = (j' : ℤ) + 28 := ⟨(jc - 28).toNat, by omega⟩
  obtain ⟨k', hk'⟩ : ∃ k' : ℕ, ky = (k' : ℤ) + 56 := ⟨(ky - 56).toNat, by omega⟩
  -- Y = A·2^56, R² = B·2^56 with integers A, B
  have hYA : Y = ((mx * 2 ^ k' : ℕ) : ℚ) * 2 ^ 56 := by
    rw [hY, hk', zpow_add₀ (by norm_num), zpow_natCast]; push_cast; norm_num; ring
  have hRB : (R : ℚ) ^ 2 = ((mc * mc * 2 ^ (2 * j') : ℕ) : ℚ) * 2 ^ 56 := by
    rw [hc, hj', zpow_add₀ (by norm_num), zpow_natCast]; push_cast
    rw [show (2 : ℚ) ^ (2 * j') = (2 ^ j') ^ 2 by rw [← pow_mul, mul_comm]]
    norm_num; ring
  generalize (mx * 2 ^ k' : ℕ) = A at hYA
  generalize (mc * mc * 2 ^ (2 * j') : ℕ) = B at hRB
  have hAB : A = B := by
    have e1 : (2 * (R : ℚ) - 1) ^ 2 = 4 * (R : ℚ) ^ 2 - 4 * (R : ℚ) + 1 := by ring
    have e2 : (2 * (R : ℚ) + 1) ^ 2 = 4 * (R : ℚ) ^ 2 + 4 * (R : ℚ) + 1 := by ring
    rw [e1, hRB, hYA] at hlo
    rw [e2, hRB, hYA] at hhi
    have hp : (2 : ℚ) ^ 56 = 72057594037927936 := by norm_num
    have hq : (2 : ℚ) ^ 53 = 9007199254740992 := by norm_num
    rw [hp] at hlo hhi
    rw [hq] at hR53q
    rcases Nat.lt_trichotomy A B with hlt | heq | hgt
    · exfalso
      have : (A : ℚ) + 1 ≤ (B : ℚ) := by exact_mod_cast hlt
      nlinarith
    · exact heq
    · exfalso
      have : (B : ℚ) + 1 ≤ (A : ℚ) := by exact_mod_cast hgt
      nlinarith
  rw [hYA, hRB, hAB]

end UVerif.Sqrt
