/-
  Lemmas/TextBits — bit-level facts behind the binary text round trips (cfloat / fixpnt `to_binary` ↔ `assign`).
-/
import Mathlib.Tactic.Ring
import Mathlib.Tactic.Linarith
import UVerif.Model.TextCore
import UVerif.Model.TextFloat

namespace UVerif.Text

theorem bitChar_ne_dot (b : Bool) : bitChar b ≠ '.' := by cases b <;> decide
theorem bitChar_ne_b (b : Bool) : bitChar b ≠ 'b' := by cases b <;> decide
theorem bitChar_ne_tick (b : Bool) : bitChar b ≠ '\'' := by cases b <;> decide
theorem bitChar_eq_one (b : Bool) : (bitChar b = '1') ↔ b = true := by cases b <;> decide
theorem bitChar_eq_zero (b : Bool) : (bitChar b = '0') ↔ b = false := by cases b <;> decide
theorem bitChar_cases (b : Bool) : bitChar b = '0' ∨ bitChar b = '1' := by cases b <;> decide

theorem pow_succ_two (b : Nat) : 2 ^ (b + 1) = 2 ^ b * 2 := Nat.pow_succ 2 b

/-- the pattern "`v` with its low `b+1` bits cleared" has bit `b` clear. -/
theorem testBit_clearLow (v b : Nat) : (v / 2 ^ (b + 1) * 2 ^ (b + 1)).testBit b = false := by
  rw [Nat.testBit_eq_decide_div_mod_eq]
  have hp : 0 < 2 ^ b := Nat.two_pow_pos b
  have : v / 2 ^ (b + 1) * 2 ^ (b + 1) / 2 ^ b = v / 2 ^ (b + 1) * 2 := by
    rw [pow_succ_two, ← Nat.mul_assoc, Nat.mul_comm (v / (2 ^ b * 2) * 2 ^ b) 2, ← Nat.mul_assoc,
      Nat.mul_div_cancel _ hp, Nat.mul_comm]
  rw [this]
  simp [Nat.mul_mod_left]

/-- setting bit `b` of "`v` with its low `b+1` bits cleared" to `v`'s own bit gives "`v` with its low `b` bits cleared". -/
theorem clearLow_step (v b : Nat) :
    v / 2 ^ (b + 1) * 2 ^ (b + 1) + (if v.testBit b then 2 ^ b else 0) = v / 2 ^ b * 2 ^ b := by
  rw [Nat.testBit_eq_decide_div_mod_eq]
  have h1 : v / 2 ^ (b + 1) = v / 2 ^ b / 2 := by rw [pow_succ_two, Nat.div_div_eq_div_mul]
  rw [h1, pow_succ_two]
  generalize v / 2 ^ b = q
  generalize 2 ^ b = P
  have hq := Nat.div_add_mod q 2
  rcases Nat.mod_two_eq_zero_or_one q with h | h
  · simp [h]
    have : q = 2 * (q / 2) := by omega
    calc q / 2 * (P * 2) = (2 * (q / 2)) * P := by ring
      _ = q * P := by rw [← this]
  · simp [h]
    have : q = 2 * (q / 2) + 1 := by omega
    calc q / 2 * (P * 2) + P = (2 * (q / 2) + 1) * P := by ring
      _ = q * P := by rw [← this]

/-- `setBit` on a pattern whose bits at and below `b` are clear. -/
theorem setBit_clearLow (v b : Nat) :
    setBit (v / 2 ^ (b + 1) * 2 ^ (b + 1)) b (v.testBit b) = v / 2 ^ b * 2 ^ b := by
  unfold setBit
  rw [testBit_clearLow]
  simp only [Bool.false_eq_true, if_false, Nat.sub_zero]
  exact clearLow_step v b

/-- low `p+1` bits = low `p` bits plus bit `p`. -/
theorem mod_two_pow_succ' (v p : Nat) :
    v % 2 ^ (p + 1) = v % 2 ^ p + (if v.testBit p then 2 ^ p else 0) := by
  rw [Nat.testBit_eq_decide_div_mod_eq, pow_succ_two, Nat.mod_mul]
  rcases Nat.mod_two_eq_zero_or_one (v / 2 ^ p) with h | h <;> simp [h]

/-- `setBit` at position `p` of the low `p` bits of `v`. -/
theorem setBit_lowBits (v p : Nat) : setBit (v % 2 ^ p) p (v.testBit p) = v % 2 ^ (p + 1) := by
  unfold setBit
  rw [Nat.testBit_lt_two_pow (Nat.mod_lt _ (Nat.two_pow_pos p)), mod_two_pow_succ']
  simp

end UVerif.Text
