/-
  Lemmas/TextBlocks — the "blocks of 10^k" decimal printers (`integer` / `einteger` `operator<<`):
  peeling `k` digits at a time into a fixed buffer and stripping the leading zeros prints the decimal numeral.
-/
import UVerifProofs.Lemmas.TextDecimal
import UVerif.Model.TextInteger

namespace UVerif.Text

/-- the `m` least significant decimal digits of `t`, little endian. -/
def padLE : Nat → Nat → List Nat
  | _, 0 => []
  | t, m + 1 => t % 10 :: padLE (t / 10) m

theorem length_padLE : ∀ (t m : Nat), (padLE t m).length = m
  | _, 0 => rfl
  | t, m + 1 => by simp [padLE, length_padLE (t / 10) m]

theorem blockDigitsLE_eq : ∀ (v k cap : Nat), blockDigitsLE v k cap = padLE v (min k cap)
  | _, 0, _ => by simp [blockDigitsLE, padLE]
  | _, k + 1, 0 => by simp [blockDigitsLE, padLE]
  | v, k + 1, cap + 1 => by
    rw [blockDigitsLE, blockDigitsLE_eq (v / 10) k cap, show min (k + 1) (cap + 1) = min k cap + 1 by omega, padLE]

theorem padLE_append : ∀ (t a b : Nat), padLE t (a + b) = padLE (t % 10 ^ a) a ++ padLE (t / 10 ^ a) b
  | t, 0, b => by simp [padLE]
  | t, a + 1, b => by
    rw [show a + 1 + b = (a + b) + 1 by omega, padLE, padLE, padLE_append (t / 10) a b]
    have h1 : t % 10 ^ (a + 1) % 10 = t % 10 := by
      rw [Nat.pow_succ, Nat.mul_comm, Nat.mod_mul_right_mod]
    have h2 : t % 10 ^ (a + 1) / 10 = t / 10 % 10 ^ a := by
      rw [Nat.pow_succ, Nat.mul_comm, Nat.mod_mul_right_div_self]
    have h3 : t / 10 ^ (a + 1) = t / 10 / 10 ^ a := by
      rw [Nat.pow_succ, Nat.mul_comm, Nat.div_div_eq_div_mul]
    rw [h1, h2, h3]
    rfl

theorem padLE_mod : ∀ (t k j : Nat), j ≤ k → padLE (t % 10 ^ k) j = padLE t j
  | _, _, 0, _ => rfl
  | t, k, j + 1, h => by
    obtain ⟨k', rfl⟩ : ∃ k', k = k' + 1 := ⟨k - 1, by omega⟩
    have h1 : t % 10 ^ (k' + 1) % 10 = t % 10 := by
      rw [Nat.pow_succ, Nat.mul_comm, Nat.mod_mul_right_mod]
    have h2 : t % 10 ^ (k' + 1) / 10 = t / 10 % 10 ^ k' := by
      rw [Nat.pow_succ, Nat.mul_comm, Nat.mod_mul_right_div_self]
    rw [padLE, padLE, h1, h2, padLE_mod (t / 10) k' j (by omega)]

/-- the printing loop on natural numbers: peel `min k cap` digits of `T mod 10^k`, continue with `T / 10^k`. -/
def natLoop (k : Nat) : Nat → Nat → Nat → List Nat
  | 0, _, _ => []
  | fuel + 1, T, cap =>
    if T = 0 ∨ cap = 0 then []
    else
      let ds := padLE (T % 10 ^ k) (min k cap)
      ds ++ natLoop k fuel (T / 10 ^ k) (cap - ds.length)

/-- what the loop leaves in the buffer: the `L` low digits of `T`, where `L` is the whole buffer or enough for `T`. -/
theorem natLoop_spec (k : Nat) (hk : 0 < k) : ∀ (fuel T cap : Nat), cap ≤ fuel →
    natLoop k fuel T cap = padLE T (natLoop k fuel T cap).length ∧ (natLoop k fuel T cap).length ≤ cap ∧
      (T < 10 ^ (natLoop k fuel T cap).length ∨ (natLoop k fuel T cap).length = cap)
  | 0, T, cap, h => by
    have : cap = 0 := by omega
    subst this
    simp [natLoop, padLE]
  | fuel + 1, T, cap, h => by
    unfold natLoop
    by_cases hstop : T = 0 ∨ cap = 0
    · simp only [hstop, if_true, List.length_nil, padLE, Nat.pow_zero, true_and, Nat.zero_le]
      rcases hstop with h0 | h0
      · left; omega
      · right; omega
    · simp only [hstop, if_false, length_padLE]
      have hcap : cap ≠ 0 := fun h0 => hstop (Or.inr h0)
      by_cases hkc : k ≤ cap
      · have hmin : min k cap = k := by omega
        obtain ⟨i1, i2, i3⟩ := natLoop_spec k hk fuel (T / 10 ^ k) (cap - k) (by omega)
        rw [hmin]
        generalize hR : natLoop k fuel (T / 10 ^ k) (cap - k) = R at *
        refine ⟨?_, by simp [length_padLE]; omega, ?_⟩
        · rw [List.length_append, length_padLE, padLE_append, ← i1]
        · rw [List.length_append, length_padLE]
          rcases i3 with h3 | h3
          · left
            rw [Nat.pow_add, Nat.mul_comm]
            exact (Nat.div_lt_iff_lt_mul (Nat.pow_pos (by decide))).mp h3
          · right; omega
      · have hmin : min k cap = cap := by omega
        rw [hmin, Nat.sub_self]
        have hnil : natLoop k fuel (T / 10 ^ k) 0 = [] := by
          cases fuel <;> simp [natLoop]
        rw [hnil, List.append_nil, length_padLE]
        exact ⟨padLE_mod T k cap (by omega), Nat.le_refl _, Or.inr rfl⟩

/-! ### from the buffer to the numeral -/

theorem padLE_of_lt : ∀ (L t : Nat), t < 10 ^ L → padLE t L = natDigitsLE t ++ List.replicate (L - (natDigitsLE t).length) 0
  | 0, t, h => by
    have : t = 0 := by simpa using h
    subst this; rfl
  | L + 1, t, h => by
    by_cases h0 : t = 0
    · subst h0
      have hz : ∀ m, padLE 0 m = List.replicate m 0 := by
        intro m; induction m with
        | zero => rfl
        | succ m ih => simp [padLE, ih, List.replicate_succ]
      simp [hz, natDigitsLE_zero]
    · have hlt : t / 10 < 10 ^ L := by rw [Nat.pow_succ] at h; omega
      rw [padLE, padLE_of_lt L (t / 10) hlt, natDigitsLE_pos t h0]
      simp

theorem stripZeros_zeros (k : Nat) (s : List Char) : stripZeros (List.replicate k '0' ++ s) = stripZeros s := by
  induction k with
  | zero => rfl
  | succ k ih => simp [List.replicate_succ, stripZeros, ih]

theorem stripZeros_natToDec (t : Nat) (h : t ≠ 0) : stripZeros (natToDec t) = natToDec t := by
  unfold natToDec
  have hne := natDigits_ne_nil t
  have hhead := natDigits_head t h
  have hall := natDigits_allDigits t
  cases hd : natDigits t with
  | nil => exact absurd hd hne
  | cons d ds =>
    rw [hd] at hhead hall
    have hd0 : d ≠ 0 := by simpa using hhead
    have hd10 : d < 10 := hall d (List.mem_cons_self ..)
    simp [stripZeros, digitChar_ne_zero d hd10 hd0]

/-- the final steps of the printers: zero-filled buffer, leading zeros erased, `"0"` if nothing is left. -/
theorem buffer_to_numeral (T L cap : Nat) (hT : T < 10 ^ L) :
    (let buf := List.replicate (cap - L) '0' ++ ((padLE T L).reverse.map digitChar)
     let s := stripZeros buf
     if s.isEmpty then ['0'] else s) = natToDec T := by
  simp only
  rw [stripZeros_zeros, padLE_of_lt L T hT]
  simp only [List.reverse_append, List.reverse_replicate, List.map_append, List.map_replicate, digitChar_zero]
  rw [stripZeros_zeros]
  by_cases h0 : T = 0
  · subst h0; simp [natDigitsLE_zero, stripZeros, natToDec_zero]
  · have : (natDigitsLE T).reverse.map digitChar = natToDec T := by
      simp [natToDec, natDigits, h0]
    rw [this, stripZeros_natToDec T h0]
    have hne := natToDec_ne_nil T
    cases hh : natToDec T with
    | nil => exact absurd hh hne
    | cons _ _ => rfl

end UVerif.Text
