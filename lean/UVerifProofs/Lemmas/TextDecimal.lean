/-
  Lemmas/TextDecimal — `support::decimal` addition on canonical digit vectors, and the "add and double"
  binary-to-decimal conversion built on it.
-/
import UVerifProofs.Lemmas.TextDigits
import UVerif.Model.TextDecimal
import UVerif.Basic

namespace UVerif.Text

/-! ### padding -/

theorem decVal_append_zeros (l : List Nat) (k : Nat) : decVal (l ++ List.replicate k 0) = decVal l := by
  induction l with
  | nil =>
    induction k with
    | zero => rfl
    | succ k ih => simp only [List.nil_append] at ih; simp [List.replicate_succ, decVal, ih]
  | cons d ds ih => simp only [List.cons_append, decVal, ih]

theorem decVal_padTo (l : List Nat) (n : Nat) : decVal (padTo l n) = decVal l := decVal_append_zeros l _

theorem allDigits_padTo (l : List Nat) (n : Nat) (h : AllDigits l) : AllDigits (padTo l n) := by
  intro d hd
  unfold padTo at hd
  rcases List.mem_append.mp hd with h1 | h1
  · exact h d h1
  · rw [List.mem_replicate] at h1; omega

theorem length_padTo (l : List Nat) (n : Nat) (h : l.length ≤ n) : (padTo l n).length = n := by
  unfold padTo; simp; omega

theorem padTo_self (l : List Nat) : padTo l l.length = l := by unfold padTo; simp

/-! ### the carry loop -/

theorem decAddLoop_spec : ∀ (a b : List Nat) (c : Nat), a.length = b.length → AllDigits a → AllDigits b → c ≤ 1 →
    decVal (decAddLoop a b c) = decVal a + decVal b + c ∧ AllDigits (decAddLoop a b c)
  | [], [], c, _, _, _, hc => by
    unfold decAddLoop
    by_cases h : c ≠ 0
    · have : c = 1 := by omega
      subst this
      refine ⟨by simp [decVal], ?_⟩
      intro d hd; simp at hd; omega
    · have : c = 0 := by omega
      subst this
      refine ⟨by simp [decVal], ?_⟩
      intro d hd; simp at hd
  | [], _ :: _, _, h, _, _, _ => by simp at h
  | _ :: _, [], _, h, _, _, _ => by simp at h
  | x :: as, y :: bs, c, hl, ha, hb, hc => by
    have hx : x < 10 := ha x (List.mem_cons_self ..)
    have hy : y < 10 := hb y (List.mem_cons_self ..)
    have has : AllDigits as := fun d hd => ha d (List.mem_cons_of_mem _ hd)
    have hbs : AllDigits bs := fun d hd => hb d (List.mem_cons_of_mem _ hd)
    have hl' : as.length = bs.length := by simpa using hl
    unfold decAddLoop
    by_cases h9 : x + y + c > 9
    · simp only [h9, if_true]
      obtain ⟨iv, id⟩ := decAddLoop_spec as bs 1 hl' has hbs (by omega)
      refine ⟨by simp only [decVal, iv]; omega, ?_⟩
      intro d hd
      rcases List.mem_cons.mp hd with rfl | h
      · omega
      · exact id d h
    · simp only [h9, if_false]
      obtain ⟨iv, id⟩ := decAddLoop_spec as bs 0 hl' has hbs (by omega)
      refine ⟨by simp only [decVal, iv]; omega, ?_⟩
      intro d hd
      rcases List.mem_cons.mp hd with rfl | h
      · omega
      · exact id d h

/-- the most significant digit of the sum is non-zero as soon as one operand's is. -/
theorem decAddLoop_last : ∀ (a b : List Nat) (c : Nat), a.length = b.length → a ≠ [] →
    (a.getLast? ≠ some 0 ∨ b.getLast? ≠ some 0) → (decAddLoop a b c).getLast? ≠ some 0 ∧ decAddLoop a b c ≠ []
  | [], _, _, _, h, _ => absurd rfl h
  | _ :: _, [], _, h, _, _ => by simp at h
  | [x], [y], c, _, _, hlast => by
    unfold decAddLoop
    by_cases h9 : x + y + c > 9
    · simp [h9, decAddLoop]
    · simp only [h9, if_false, decAddLoop]
      by_cases hc : c ≠ 0
      · simp [hc]
      · simp only [List.getLast?_singleton, ne_eq, Option.some.injEq] at hlast
        have : c = 0 := by omega
        subst this
        simp; omega
  | [_], _ :: _ :: _, _, h, _, _ => by simp at h
  | _ :: _ :: _, [_], _, h, _, _ => by simp at h
  | x :: x' :: as, y :: y' :: bs, c, hl, _, hlast => by
    have hl' : (x' :: as).length = (y' :: bs).length := by simpa using hl
    have hlast' : (x' :: as).getLast? ≠ some 0 ∨ (y' :: bs).getLast? ≠ some 0 := by
      simpa [List.getLast?_cons_cons] using hlast
    unfold decAddLoop
    by_cases h9 : x + y + c > 9
    · simp only [h9, if_true]
      obtain ⟨i1, i2⟩ := decAddLoop_last (x' :: as) (y' :: bs) 1 hl' (by simp) hlast'
      refine ⟨?_, by simp⟩
      rw [List.getLast?_cons_of_ne_nil i2]
      exact i1
    · simp only [h9, if_false]
      obtain ⟨i1, i2⟩ := decAddLoop_last (x' :: as) (y' :: bs) 0 hl' (by simp) hlast'
      refine ⟨?_, by simp⟩
      rw [List.getLast?_cons_of_ne_nil i2]
      exact i1

/-! ### canonical vectors -/

theorem decOfNat_zero : decOfNat 0 = [0] := rfl
theorem decOfNat_pos (x : Nat) (h : x ≠ 0) : decOfNat x = natDigitsLE x := by simp [decOfNat, h]

theorem decVal_decOfNat (x : Nat) : decVal (decOfNat x) = x := by
  by_cases h : x = 0
  · subst h; rfl
  · rw [decOfNat_pos x h, decVal_natDigitsLE]

theorem allDigits_decOfNat (x : Nat) : AllDigits (decOfNat x) := by
  by_cases h : x = 0
  · subst h; intro d hd; simp [decOfNat] at hd; omega
  · rw [decOfNat_pos x h]; exact allDigits_natDigitsLE x

theorem decOfNat_ne_nil (x : Nat) : decOfNat x ≠ [] := by
  by_cases h : x = 0
  · subst h; simp [decOfNat]
  · rw [decOfNat_pos x h]; exact natDigitsLE_ne_nil x h

theorem decOfNat_last (x : Nat) (h : x ≠ 0) : (decOfNat x).getLast? ≠ some 0 := by
  rw [decOfNat_pos x h]; exact noLeadingZero_natDigitsLE x

theorem decOfNat_length_one_of_zero : (decOfNat 0).length = 1 := rfl

/-- **`support::add` on canonical operands is addition**: the result is the canonical vector of the sum. -/
theorem decAdd_canon (x y : Nat) : decAdd (decOfNat x) (decOfNat y) = decOfNat (x + y) := by
  by_cases hxy : x = 0 ∧ y = 0
  · obtain ⟨rfl, rfl⟩ := hxy; rfl
  · have hsum : x + y ≠ 0 := by omega
    set a := decOfNat x with ha
    set b := decOfNat y with hb
    set n := max a.length b.length with hn
    have hla : (padTo a n).length = n := length_padTo a n (by omega)
    have hlb : (padTo b n).length = n := length_padTo b n (by omega)
    have hda : AllDigits (padTo a n) := allDigits_padTo a n (allDigits_decOfNat x)
    have hdb : AllDigits (padTo b n) := allDigits_padTo b n (allDigits_decOfNat y)
    obtain ⟨hval, hdig⟩ := decAddLoop_spec (padTo a n) (padTo b n) 0 (by rw [hla, hlb]) hda hdb (by omega)
    rw [decVal_padTo, decVal_padTo, ha, hb, decVal_decOfNat, decVal_decOfNat] at hval
    have hane : a ≠ [] := decOfNat_ne_nil x
    have hbne : b ≠ [] := decOfNat_ne_nil y
    have hpne : padTo a n ≠ [] := by
      intro h; have := congrArg List.length h; rw [hla] at this
      have : a.length = 0 := by simp at this; omega
      exact hane (List.length_eq_zero_iff.mp this)
    -- one of the padded operands has a non-zero most significant digit
    have hlast : (padTo a n).getLast? ≠ some 0 ∨ (padTo b n).getLast? ≠ some 0 := by
      by_cases hab : b.length ≤ a.length
      · have hna : n = a.length := by omega
        by_cases hx : x = 0
        · -- a = [0], so b has length 1 and is unpadded, and y ≠ 0
          have hal : a.length = 1 := by rw [ha, hx]; rfl
          have hbl : b.length = 1 := by
            have : b.length ≠ 0 := fun h => hbne (List.length_eq_zero_iff.mp h)
            omega
          right
          rw [show n = b.length by omega, padTo_self]
          exact decOfNat_last y (by omega)
        · left
          rw [hna, padTo_self]
          exact decOfNat_last x hx
      · have hnb : n = b.length := by omega
        by_cases hy : y = 0
        · have hbl : b.length = 1 := by rw [hb, hy]; rfl
          have hal : a.length = 1 := by
            have : a.length ≠ 0 := fun h => hane (List.length_eq_zero_iff.mp h)
            omega
          omega
        · right
          rw [hnb, padTo_self]
          exact decOfNat_last y hy
    obtain ⟨hnz, _⟩ := decAddLoop_last (padTo a n) (padTo b n) 0 (by rw [hla, hlb]) hpne hlast
    have huniq := natDigitsLE_unique (decAddLoop (padTo a n) (padTo b n) 0) hdig hnz
    rw [hval, Nat.add_zero] at huniq
    unfold decAdd
    rw [← hn, huniq, decOfNat_pos _ hsum]

theorem decOfNat_one : decOfNat 1 = [1] := by decide

/-! ### add and double -/

/-- the fixed-count loop converts bits `i … i+cnt-1` of `v`. -/
theorem addDouble_canon (v : Nat) : ∀ (cnt i p m : Nat),
    addDouble v cnt i (decOfNat p) (decOfNat m) = decOfNat (p + m * (v / 2 ^ i % 2 ^ cnt))
  | 0, i, p, m => by simp [addDouble, Nat.mod_one]
  | cnt + 1, i, p, m => by
    have hdiv : v / 2 ^ (i + 1) = v / 2 ^ i / 2 := by rw [Nat.pow_succ, Nat.div_div_eq_div_mul]
    have hmod : v / 2 ^ i % 2 ^ (cnt + 1) = v / 2 ^ i % 2 + 2 * (v / 2 ^ i / 2 % 2 ^ cnt) := by
      rw [Nat.pow_succ, Nat.mul_comm (2 ^ cnt) 2, Nat.mod_mul]
    unfold addDouble
    rw [decAdd_canon m m]
    by_cases hb : v.testBit i
    · have hb1 : v / 2 ^ i % 2 = 1 := by
        rw [Nat.testBit_eq_decide_div_mod_eq] at hb; simpa using hb
      simp only [hb, if_true]
      rw [decAdd_canon p m, addDouble_canon v cnt (i + 1) (p + m) (m + m), hdiv, hmod, hb1]
      congr 1; ring
    · have hb0 : v / 2 ^ i % 2 = 0 := by
        rw [Nat.testBit_eq_decide_div_mod_eq] at hb
        have := Nat.mod_two_eq_zero_or_one (v / 2 ^ i)
        simp at hb; omega
      simp only [hb, Bool.false_eq_true, if_false]
      rw [addDouble_canon v cnt (i + 1) p (m + m), hdiv, hmod, hb0]
      congr 1; ring

/-- the `while (v)` variant used by edecimal. -/
theorem addDoubleWhile_canon : ∀ (fuel v p m : Nat), v < 2 ^ fuel →
    addDoubleWhile fuel v (decOfNat p) (decOfNat m) = decOfNat (p + m * v)
  | 0, v, p, m, h => by
    have : v = 0 := by simpa using h
    subst this; simp [addDoubleWhile]
  | fuel + 1, v, p, m, h => by
    unfold addDoubleWhile
    by_cases hv : v = 0
    · subst hv; simp
    · simp only [hv, if_false]
      rw [decAdd_canon m m]
      have hlt : v / 2 < 2 ^ fuel := by rw [Nat.pow_succ] at h; omega
      have hv2 := Nat.div_add_mod v 2
      by_cases hb : v % 2 = 1
      · simp only [hb, if_true]
        rw [decAdd_canon p m, addDoubleWhile_canon fuel (v / 2) (p + m) (m + m) hlt]
        congr 1
        calc p + m + (m + m) * (v / 2) = p + m * (2 * (v / 2) + 1) := by ring
          _ = p + m * v := by rw [show 2 * (v / 2) + 1 = v by omega]
      · simp only [hb, if_false]
        rw [addDoubleWhile_canon fuel (v / 2) p (m + m) hlt]
        congr 1
        calc p + (m + m) * (v / 2) = p + m * (2 * (v / 2)) := by ring
          _ = p + m * v := by rw [show 2 * (v / 2) = v by omega]

/-- printing a canonical vector gives the decimal numeral. -/
theorem decChars_decOfNat (x : Nat) : decChars (decOfNat x) = natToDec x := by
  unfold decChars natToDec natDigits decOfNat
  by_cases h : x = 0 <;> simp [h]


/-! ### integer `to_string`, edecimal -/

theorem testBit_top (n v : Nat) (hn : 0 < n) (hv : v < 2 ^ n) : v.testBit (n - 1) = decide (2 ^ (n - 1) ≤ v) := by
  obtain ⟨k, rfl⟩ : ∃ k, n = k + 1 := ⟨n - 1, by omega⟩
  simp only [Nat.add_sub_cancel]
  rw [Nat.testBit_eq_decide_div_mod_eq]
  have hP : 0 < 2 ^ k := Nat.two_pow_pos k
  rw [Nat.pow_succ] at hv
  have hq : v / 2 ^ k < 2 := Nat.div_lt_of_lt_mul (by omega)
  by_cases hle : 2 ^ k ≤ v
  · have : v / 2 ^ k = 1 := by
      have : 1 ≤ v / 2 ^ k := (Nat.le_div_iff_mul_le hP).mpr (by omega)
      omega
    simp [this, hle]
  · have : v / 2 ^ k = 0 := Nat.div_eq_of_lt (by omega)
    simp [this, hle]

theorem natToDec_zero : natToDec 0 = ['0'] := by decide

/-- the sign and magnitude the printers work with are those of the two's complement value. -/
theorem magnitude_toSigned (n v : Nat) (hn : 0 < n) (hv : v < 2 ^ n) :
    (magnitudePattern n v : Int) = ((UVerif.toSigned n v).natAbs : Int) ∧
    (v.testBit (n - 1) = true ↔ UVerif.toSigned n v < 0) := by
  have hP : 0 < 2 ^ (n - 1) := Nat.two_pow_pos _
  have h2 : 2 ^ n = 2 * 2 ^ (n - 1) := by
    obtain ⟨k, rfl⟩ : ∃ k, n = k + 1 := ⟨n - 1, by omega⟩
    rw [Nat.add_sub_cancel, Nat.pow_succ]; omega
  unfold magnitudePattern UVerif.toSigned
  rw [testBit_top n v hn hv, Nat.mod_eq_of_lt hv]
  have hn0 : n ≠ 0 := by omega
  simp only [hn0, if_false]
  by_cases hle : 2 ^ (n - 1) ≤ v
  · have hnlt : ¬ (v < 2 ^ (n - 1)) := by omega
    have hmod : (2 ^ n - v) % 2 ^ n = 2 ^ n - v := Nat.mod_eq_of_lt (by omega)
    simp only [hle, decide_true, if_true, hnlt, if_false, hmod]
    constructor
    · have : ((v : Int) - ((2 ^ n : Nat) : Int)) = -(((2 ^ n - v : Nat)) : Int) := by omega
      rw [this, Int.natAbs_neg, Int.natAbs_natCast]
    · refine ⟨fun _ => ?_, fun _ => trivial⟩
      have : (v : Int) < ((2 ^ n : Nat) : Int) := by exact_mod_cast hv
      omega
  · have hlt : v < 2 ^ (n - 1) := by omega
    simp only [hle, decide_false, Bool.false_eq_true, if_false, hlt, if_true, Int.natAbs_natCast]
    constructor
    · trivial
    · simp

/-- **integer `to_string` / `convert_to_decimal_string` prints the exact decimal expansion**, every width. -/
theorem integerToDecimalString_exact (n v : Nat) (hn : 0 < n) (hv : v < 2 ^ n) :
    integerToDecimalString n v = intToDec (UVerif.toSigned n v) := by
  obtain ⟨hmag, hsign⟩ := magnitude_toSigned n v hn hv
  unfold integerToDecimalString intToDec
  rw [Nat.mod_eq_of_lt hv]
  by_cases h0 : v = 0
  · subst h0
    have : UVerif.toSigned n 0 = 0 := by
      unfold UVerif.toSigned
      have : (0 : Nat) < 2 ^ (n - 1) := Nat.two_pow_pos _
      simp [this]
    simp [this, natToDec_zero]
  · simp only [h0, if_false]
    have hadd := addDouble_canon (magnitudePattern n v) n 0 0 1
    rw [decOfNat_zero, decOfNat_one] at hadd
    have hmlt : magnitudePattern n v < 2 ^ n := by
      unfold magnitudePattern
      split <;> exact Nat.mod_lt _ (Nat.two_pow_pos n)
    rw [hadd, Nat.pow_zero, Nat.div_one, Nat.mod_eq_of_lt hmlt, Nat.zero_add, Nat.one_mul, decChars_decOfNat]
    have hnat : magnitudePattern n v = (UVerif.toSigned n v).natAbs := by exact_mod_cast hmag
    rw [hnat]
    by_cases hs : v.testBit (n - 1) = true
    · simp [hs, hsign.mp hs]
    · have : ¬ (UVerif.toSigned n v < 0) := fun h => hs (hsign.mpr h)
      simp [hs, this]

/-- **edecimal from a native integer prints the exact decimal expansion** (magnitudes below 2^64). -/
theorem edecOfInt_exact (x : Int) (hx : x.natAbs < 2 ^ 64) : edecOfInt x = intToDec x := by
  unfold edecOfInt intToDec
  by_cases h0 : x = 0
  · subst h0; simp [natToDec_zero]
  · simp only [h0, if_false]
    have h := addDoubleWhile_canon 64 x.natAbs 0 1 hx
    rw [decOfNat_zero, decOfNat_one] at h
    rw [h, Nat.zero_add, Nat.one_mul, decChars_decOfNat]

end UVerif.Text
