/-
  Lemmas/TextDigits — decimal / hexadecimal digit lists: the printed digits of a natural number denote it, are
  digits, carry no leading zero, and are the ONLY such list.
-/
import Mathlib.Tactic.Ring
import Mathlib.Tactic.Linarith
import UVerif.Model.TextCore

namespace UVerif.Text

/-! ### characters -/

theorem digitVal_digitChar : ∀ d, d < 10 → digitVal (digitChar d) = d := by decide
theorem isDigit_digitChar : ∀ d, d < 10 → isDigit (digitChar d) = true := by decide
theorem digitChar_ne_dot : ∀ d, d < 10 → digitChar d ≠ '.' := by decide
theorem digitChar_zero : digitChar 0 = '0' := by decide
theorem digitChar_ne_zero : ∀ d, d < 10 → d ≠ 0 → digitChar d ≠ '0' := by decide
theorem hexVal_hexLowerChar : ∀ d, d < 16 → hexVal? (hexLowerChar d) = some d := by decide
theorem hexVal_hexUpperChar : ∀ d, d < 16 → hexVal? (hexUpperChar d) = some d := by decide
theorem isHexDigit_hexLowerChar : ∀ d, d < 16 → isHexDigit (hexLowerChar d) = true := by decide
theorem isHexDigit_hexUpperChar : ∀ d, d < 16 → isHexDigit (hexUpperChar d) = true := by decide
theorem isWord_hexLowerChar : ∀ d, d < 16 → isWord (hexLowerChar d) = true := by decide
theorem hexLowerChar_ne_p : ∀ d, d < 16 → hexLowerChar d ≠ 'p' := by decide
theorem hexUpperChar_ne_tick : ∀ d, d < 16 → hexUpperChar d ≠ '\'' := by decide
theorem hexUpperChar_ne_x : ∀ d, d < 16 → hexUpperChar d ≠ 'x' ∧ hexUpperChar d ≠ 'X' := by decide

/-! ### little-endian decimal digits -/

/-- every element is a decimal digit. -/
def AllDigits (l : List Nat) : Prop := ∀ d ∈ l, d < 10

/-- no most-significant zero (the empty list, denoting 0, is normal). -/
def NoLeadingZero (l : List Nat) : Prop := l.getLast? ≠ some 0

theorem natDigitsLEAux_fuel : ∀ (f1 f2 n : Nat), n ≤ f1 → n ≤ f2 → natDigitsLEAux f1 n = natDigitsLEAux f2 n
  | 0, f2, n, h1, _ => by
    have : n = 0 := by omega
    subst this
    cases f2 <;> simp [natDigitsLEAux]
  | f1 + 1, 0, n, _, h2 => by
    have : n = 0 := by omega
    subst this
    simp [natDigitsLEAux]
  | f1 + 1, f2 + 1, n, h1, h2 => by
    simp only [natDigitsLEAux]
    by_cases hn : n = 0
    · simp [hn]
    · simp only [hn, if_false]
      rw [natDigitsLEAux_fuel f1 f2 (n / 10) (by omega) (by omega)]

theorem natDigitsLE_zero : natDigitsLE 0 = [] := rfl

theorem natDigitsLE_pos (n : Nat) (hn : n ≠ 0) : natDigitsLE n = n % 10 :: natDigitsLE (n / 10) := by
  unfold natDigitsLE
  obtain ⟨m, rfl⟩ : ∃ m, n = m + 1 := ⟨n - 1, by omega⟩
  simp only [natDigitsLEAux, hn, if_false]
  rw [natDigitsLEAux_fuel m ((m + 1) / 10) ((m + 1) / 10) (by omega) (Nat.le_refl _)]

/-- strong induction principle following the digits. -/
theorem digits_induction {P : Nat → Prop} (h0 : P 0) (hs : ∀ n, n ≠ 0 → P (n / 10) → P n) : ∀ n, P n := by
  intro n
  induction n using Nat.strong_induction_on with
  | _ n ih =>
    by_cases hn : n = 0
    · subst hn; exact h0
    · exact hs n hn (ih (n / 10) (by omega))

theorem decVal_natDigitsLE (n : Nat) : decVal (natDigitsLE n) = n := by
  induction n using digits_induction with
  | h0 => rfl
  | hs n hn ih => rw [natDigitsLE_pos n hn, decVal, ih]; omega

theorem allDigits_natDigitsLE (n : Nat) : AllDigits (natDigitsLE n) := by
  induction n using digits_induction with
  | h0 => intro d hd; cases hd
  | hs n hn ih =>
    rw [natDigitsLE_pos n hn]
    intro d hd
    rcases List.mem_cons.mp hd with rfl | h
    · omega
    · exact ih d h

theorem natDigitsLE_ne_nil (n : Nat) (hn : n ≠ 0) : natDigitsLE n ≠ [] := by
  rw [natDigitsLE_pos n hn]; simp

theorem noLeadingZero_natDigitsLE (n : Nat) : NoLeadingZero (natDigitsLE n) := by
  induction n using digits_induction with
  | h0 => simp [NoLeadingZero, natDigitsLE_zero]
  | hs n hn ih =>
    rw [natDigitsLE_pos n hn]
    unfold NoLeadingZero at *
    by_cases h10 : n / 10 = 0
    · rw [h10, natDigitsLE_zero]
      simp only [List.getLast?_singleton, ne_eq, Option.some.injEq]
      omega
    · have hne := natDigitsLE_ne_nil (n / 10) h10
      rw [List.getLast?_cons_of_ne_nil hne] at *
      exact ih

/-- a normal digit list is determined by its value. -/
theorem natDigitsLE_unique : ∀ (l : List Nat), AllDigits l → NoLeadingZero l → l = natDigitsLE (decVal l)
  | [], _, _ => rfl
  | d :: ds, hd, hz => by
    have hd0 : d < 10 := hd d (List.mem_cons_self ..)
    have hds : AllDigits ds := fun x hx => hd x (List.mem_cons_of_mem _ hx)
    have hzs : NoLeadingZero ds := by
      unfold NoLeadingZero at *
      cases ds with
      | nil => simp
      | cons e es => rwa [List.getLast?_cons_cons] at hz
    have ih := natDigitsLE_unique ds hds hzs
    have hpos : decVal (d :: ds) ≠ 0 := by
      simp only [decVal]
      cases ds with
      | nil =>
        simp only [NoLeadingZero, List.getLast?_singleton, ne_eq, Option.some.injEq] at hz
        simp [decVal]; omega
      | cons e es =>
        have : decVal (e :: es) ≠ 0 := by
          intro h0
          rw [h0, natDigitsLE_zero] at ih
          cases ih
        omega
    rw [natDigitsLE_pos _ hpos]
    simp only [decVal]
    have h1 : (d + 10 * decVal ds) % 10 = d := by omega
    have h2 : (d + 10 * decVal ds) / 10 = decVal ds := by omega
    rw [h1, h2, ← ih]

/-! ### most-significant-first digits -/

theorem digitsToNatBase_eq (b : Nat) : ∀ (l : List Nat) (acc : Nat),
    digitsToNatBase b acc l = acc * b ^ l.length + digitsToNatBase b 0 l
  | [], acc => by simp [digitsToNatBase]
  | d :: ds, acc => by
    simp only [digitsToNatBase, List.length_cons]
    rw [digitsToNatBase_eq b ds (acc * b + d), digitsToNatBase_eq b ds (0 * b + d)]
    ring

theorem digitsToNat_reverse : ∀ (l : List Nat), digitsToNat l.reverse = decVal l
  | [] => rfl
  | d :: ds => by
    have ih := digitsToNat_reverse ds
    unfold digitsToNat at *
    rw [List.reverse_cons]
    have happ : ∀ (a c : List Nat) (acc : Nat), digitsToNatBase 10 acc (a ++ c) = digitsToNatBase 10 (digitsToNatBase 10 acc a) c := by
      intro a
      induction a with
      | nil => intros; rfl
      | cons x xs ihx => intro c acc; simp [digitsToNatBase, ihx]
    rw [happ, ih]
    simp [digitsToNatBase, decVal]; omega

/-- **the printed digits denote the number** -/
theorem digitsToNat_natDigits (n : Nat) : digitsToNat (natDigits n) = n := by
  unfold natDigits
  by_cases hn : n = 0
  · simp [hn, digitsToNat, digitsToNatBase]
  · simp only [hn, if_false]
    rw [digitsToNat_reverse, decVal_natDigitsLE]

/-- **no leading zero** (except the single digit of zero itself) -/
theorem natDigits_head (n : Nat) (hn : n ≠ 0) : (natDigits n).head? ≠ some 0 := by
  unfold natDigits
  simp only [hn, if_false, List.head?_reverse]
  exact noLeadingZero_natDigitsLE n

theorem natDigits_allDigits (n : Nat) : ∀ d ∈ natDigits n, d < 10 := by
  unfold natDigits
  by_cases hn : n = 0
  · simp [hn]
  · simp only [hn, if_false, List.mem_reverse]
    exact allDigits_natDigitsLE n

theorem natDigits_ne_nil (n : Nat) : natDigits n ≠ [] := by
  unfold natDigits
  by_cases hn : n = 0
  · simp [hn]
  · simp [hn, natDigitsLE_ne_nil n hn]

/-! ### strings -/

theorem decStrVal_natToDec (n : Nat) : decStrVal (natToDec n) = n := by
  unfold decStrVal natToDec
  rw [List.map_map]
  have : (natDigits n).map (digitVal ∘ digitChar) = (natDigits n).map id :=
    List.map_congr_left (fun d hd => digitVal_digitChar d (natDigits_allDigits n d hd))
  rw [this, List.map_id, digitsToNat_natDigits]

theorem natToDec_allDigit (n : Nat) : ∀ c ∈ natToDec n, isDigit c = true := by
  intro c hc
  unfold natToDec at hc
  obtain ⟨d, hd, rfl⟩ := List.mem_map.mp hc
  exact isDigit_digitChar d (natDigits_allDigits n d hd)

theorem natToDec_ne_nil (n : Nat) : natToDec n ≠ [] := by
  unfold natToDec
  simp [natDigits_ne_nil]

theorem natToDec_lt_ten (n : Nat) (hn : n < 10) : natToDec n = [digitChar n] := by
  unfold natToDec natDigits
  by_cases h0 : n = 0
  · simp [h0]
  · simp only [h0, if_false]
    rw [natDigitsLE_pos n h0, show n / 10 = 0 by omega, natDigitsLE_zero, show n % 10 = n by omega]
    rfl

end UVerif.Text
