/-
  Lemmas/TextEdec — edecimal `parse` followed by `operator<<` on a fresh object returns a canonical decimal text
  unchanged.
-/
import UVerifProofs.Lemmas.TextDecimal

namespace UVerif.Text

theorem digitChar_digitVal (c : Char) (h : isDigit c = true) : digitChar (digitVal c) = c := by
  unfold isDigit at h
  unfold digitChar digitVal
  have h1 : 48 ≤ c.toNat := by simp at h; omega
  have h2 : c.toNat ≤ 57 := by simp at h; omega
  rw [show 48 + (c.toNat - 48) = c.toNat by omega]
  exact Char.ofNat_toNat c

theorem map_digit_id (l : List Char) (h : ∀ c ∈ l, isDigit c = true) :
    l.map (fun c => if isDigit c then digitChar (digitVal c) else '0') = l := by
  induction l with
  | nil => rfl
  | cons c cs ih =>
    have hc := h c (List.mem_cons_self ..)
    simp only [List.map_cons, hc, if_true, digitChar_digitVal c hc]
    rw [ih (fun d hd => h d (List.mem_cons_of_mem _ hd))]

theorem dropSigns_digits (l : List Char) (hne : l ≠ []) (h : ∀ c ∈ l, isDigit c = true) : dropSigns l = l := by
  cases l with
  | nil => exact absurd rfl hne
  | cons c cs =>
    have hc := h c (List.mem_cons_self ..)
    have h1 : c ≠ '-' := by intro e; subst e; revert hc; decide
    have h2 : c ≠ '+' := by intro e; subst e; revert hc; decide
    simp [dropSigns, h1, h2]

/-- on a freshly constructed edecimal, `parse` of the exact decimal expansion of `x` prints back the same text. -/
theorem edecParsePrint_canonical (x : Int) : edecParsePrint false (intToDec x) = some (intToDec x) := by
  have hdig := natToDec_allDigit x.natAbs
  have hne := natToDec_ne_nil x.natAbs
  have hall : allB isDigit (natToDec x.natAbs) = true := by
    have : ∀ (l : List Char), (∀ c ∈ l, isDigit c = true) → allB isDigit l = true := by
      intro l; induction l with
      | nil => intro _; rfl
      | cons c cs ih =>
        intro h
        simp only [allB, h c (List.mem_cons_self ..), Bool.true_and]
        exact ih (fun d hd => h d (List.mem_cons_of_mem _ hd))
    exact this _ hdig
  have hemp : (natToDec x.natAbs).isEmpty = false := by
    cases h : natToDec x.natAbs with
    | nil => exact absurd h hne
    | cons _ _ => rfl
  unfold edecParsePrint intToDec
  by_cases hx : x < 0
  · simp only [hx, if_true, List.cons_append, List.nil_append]
    have hds : dropSigns ('-' :: natToDec x.natAbs) = natToDec x.natAbs := by
      simp [dropSigns, dropSigns_digits _ hne hdig]
    simp [hds, hemp, hall, map_digit_id _ hdig]
  · simp only [hx, if_false, List.nil_append]
    rw [dropSigns_digits _ hne hdig]
    simp only [hemp, hall, Bool.not_true, Bool.or_self, Bool.false_eq_true, if_false]
    cases hd : natToDec x.natAbs with
    | nil => exact absurd hd hne
    | cons c cs =>
      have hc : isDigit c = true := hdig c (by rw [hd]; exact List.mem_cons_self ..)
      have h1 : c ≠ '-' := by intro e; subst e; revert hc; decide
      have h2 : c ≠ '+' := by intro e; subst e; revert hc; decide
      have hmap := map_digit_id (c :: cs) (by rw [← hd]; exact hdig)
      split
      · rename_i heq; injection heq with e _; exact absurd e h1
      · rename_i heq; injection heq with e _; exact absurd e h2
      · simp [hmap]

end UVerif.Text
