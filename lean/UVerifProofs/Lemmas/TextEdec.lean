/-
  Lemmas/TextEdec — edecimal `parse` followed by `operator<<` (as repaired: sign flag reset, `unpad()`, unsigned
  zero) prints the exact decimal expansion of the value denoted by the text.
-/
import UVerifProofs.Lemmas.TextDecimal

namespace UVerif.Text

theorem digitChar_digitVal (c : Char) (h : isDigit c = true) : digitChar (digitVal c) = c := by
  unfold isDigit at h
  unfold digitChar digitVal
  have h1 : 48 ≤ c.toNat := by simp at h; omega
  have h2 : c.toNat ≤ 57 := by simp at h; omega
  rw [show 48 + (c.toNat - 48) = c.toNat by omega]
  exact Char.ofNat_toNat c

theorem map_digit_id (l : List Char) (h : ∀ c ∈ l, isDigit c = true) :
    l.map (fun c => if isDigit c then digitChar (digitVal c) else '0') = l := by
  induction l with
  | nil => rfl
  | cons c cs ih =>
    have hc := h c (List.mem_cons_self ..)
    simp only [List.map_cons, hc, if_true, digitChar_digitVal c hc]
    rw [ih (fun d hd => h d (List.mem_cons_of_mem _ hd))]

theorem dropSigns_digits (l : List Char) (hne : l ≠ []) (h : ∀ c ∈ l, isDigit c = true) : dropSigns l = l := by
  cases l with
  | nil => exact absurd rfl hne
  | cons c cs =>
    have hc := h c (List.mem_cons_self ..)
    have h1 : c ≠ '-' := by intro e; subst e; revert hc; decide
    have h2 : c ≠ '+' := by intro e; subst e; revert hc; decide
    simp [dropSigns, h1, h2]

theorem allB_isDigit_of (l : List Char) (h : ∀ c ∈ l, isDigit c = true) : allB isDigit l = true := by
  induction l with
  | nil => rfl
  | cons c cs ih =>
    simp only [allB, h c (List.mem_cons_self ..), Bool.true_and]
    exact ih (fun d hd => h d (List.mem_cons_of_mem _ hd))

/-- `unpad()` leaves a canonical digit list alone … -/
theorem edecUnpadMsd_natDigits (m : Nat) : edecUnpadMsd (natDigits m) = natDigits m := by
  by_cases h0 : m = 0
  · subst h0; decide
  · have hhead := natDigits_head m h0
    cases hd : natDigits m with
    | nil => rfl
    | cons d ds =>
      rw [hd] at hhead
      have hd0 : d ≠ 0 := by simpa using hhead
      cases ds with
      | nil => rfl
      | cons e es => simp [edecUnpadMsd, hd0]

/-- … and strips any number of leading zeros in front of it. -/
theorem edecUnpadMsd_padded (m : Nat) : ∀ k, edecUnpadMsd (List.replicate k 0 ++ natDigits m) = natDigits m
  | 0 => by simpa using edecUnpadMsd_natDigits m
  | k + 1 => by
    have ih := edecUnpadMsd_padded m k
    have hne : List.replicate k 0 ++ natDigits m ≠ [] := by
      intro h
      exact natDigits_ne_nil m (List.append_eq_nil_iff.mp h).2
    cases hl : List.replicate k 0 ++ natDigits m with
    | nil => exact absurd hl hne
    | cons e es =>
      rw [hl] at ih
      simp only [List.replicate_succ, List.cons_append, hl, edecUnpadMsd, if_true]
      exact ih

theorem natDigits_all_zero (m : Nat) : (natDigits m).all (· == 0) = decide (m = 0) := by
  by_cases h0 : m = 0
  · subst h0; decide
  · have hhead := natDigits_head m h0
    cases hd : natDigits m with
    | nil => exact absurd hd (natDigits_ne_nil m)
    | cons d ds =>
      rw [hd] at hhead
      have hd0 : d ≠ 0 := by simpa using hhead
      simp [hd0, h0]

theorem map_digitVal_padded (k m : Nat) :
    (List.replicate k '0' ++ natToDec m).map (fun c => if isDigit c then digitVal c else 0)
      = List.replicate k 0 ++ natDigits m := by
  rw [List.map_append, List.map_replicate]
  congr 1
  unfold natToDec
  rw [List.map_map]
  have : ∀ (l : List Nat), (∀ d ∈ l, d < 10) →
      l.map ((fun c => if isDigit c then digitVal c else 0) ∘ digitChar) = l := by
    intro l; induction l with
    | nil => intro _; rfl
    | cons d ds ih =>
      intro h
      have hd := h d (List.mem_cons_self ..)
      rw [List.map_cons, ih (fun e he => h e (List.mem_cons_of_mem _ he))]
      simp only [Function.comp, isDigit_digitChar d hd, if_true, digitVal_digitChar d hd]
  exact this _ (natDigits_allDigits m)

/-- **edecimal parse → print** of a decimal text with an optional sign and ANY number of redundant leading zeros,
    into an object whose sign flag was `neg0`: the exact decimal expansion of the value denoted (no padding, no
    negative zero, the old flag forgotten). -/
theorem edecParsePrint_text (neg0 neg plus : Bool) (k m : Nat) :
    edecParsePrint neg0 ((if neg then ['-'] else if plus then ['+'] else []) ++ (List.replicate k '0' ++ natToDec m))
      = some (intToDec (if neg then -(m : Int) else (m : Int))) := by
  set D := List.replicate k '0' ++ natToDec m with hD
  have hdig : ∀ c ∈ D, isDigit c = true := by
    intro c hc
    rcases List.mem_append.mp hc with h | h
    · rw [List.eq_of_mem_replicate h]; decide
    · exact natToDec_allDigit m c h
  have hne : D ≠ [] := by
    intro h
    exact natToDec_ne_nil m (List.append_eq_nil_iff.mp h).2
  have hall := allB_isDigit_of D hdig
  have hemp : D.isEmpty = false := by
    cases h : D with
    | nil => exact absurd h hne
    | cons _ _ => rfl
  have hmap := map_digitVal_padded k m
  rw [← hD] at hmap
  have hunpad := edecUnpadMsd_padded m k
  have hzero := natDigits_all_zero m
  -- the printed result, whatever the flag decided by the sign character
  have hout : ∀ flag : Bool,
      ((if (if (natDigits m).all (· == 0) = true then false else flag) = true then ['-'] else []) ++ (natDigits m).map digitChar)
        = intToDec (if flag then -(m : Int) else (m : Int)) := by
    intro flag
    rw [hzero]
    unfold intToDec
    by_cases h0 : m = 0
    · subst h0; cases flag <;> simp [natToDec]
    · have hpos : 0 < m := Nat.pos_of_ne_zero h0
      cases flag
      · simp [h0, natToDec]
      · simp [h0, hpos, natToDec]
  unfold edecParsePrint
  cases neg with
  | true =>
    simp only [if_true, List.cons_append, List.nil_append]
    have hds : dropSigns ('-' :: D) = D := by simp [dropSigns, dropSigns_digits _ hne hdig]
    simp only [hds, hemp, hall, Bool.not_true, Bool.or_self, Bool.false_eq_true, if_false, hmap, hunpad]
    exact congrArg some (hout true)
  | false =>
    cases plus with
    | true =>
      simp only [Bool.false_eq_true, if_false, if_true, List.cons_append, List.nil_append]
      have hds : dropSigns ('+' :: D) = D := by simp [dropSigns, dropSigns_digits _ hne hdig]
      simp only [hds, hemp, hall, Bool.not_true, Bool.or_self, Bool.false_eq_true, if_false, hmap, hunpad]
      exact congrArg some (hout false)
    | false =>
      simp only [Bool.false_eq_true, if_false, List.nil_append]
      rw [dropSigns_digits _ hne hdig]
      simp only [hemp, hall, Bool.not_true, Bool.or_self, Bool.false_eq_true, if_false]
      cases hd : D with
      | nil => exact absurd hd hne
      | cons c cs =>
        have hc : isDigit c = true := hdig c (by rw [hd]; exact List.mem_cons_self ..)
        have h1 : c ≠ '-' := by intro e; subst e; revert hc; decide
        have h2 : c ≠ '+' := by intro e; subst e; revert hc; decide
        rw [hd] at hmap
        split
        · rename_i heq; injection heq with e _; exact absurd e h1
        · rename_i heq; injection heq with e _; exact absurd e h2
        · simp only [hmap, hunpad]
          exact congrArg some (hout false)

/-- `parse` of the exact decimal expansion of `x` prints back the same text — whatever the object held before. -/
theorem edecParsePrint_canonical (neg0 : Bool) (x : Int) : edecParsePrint neg0 (intToDec x) = some (intToDec x) := by
  have h := edecParsePrint_text neg0 (decide (x < 0)) false 0 x.natAbs
  simp only [List.replicate_zero, List.nil_append, Bool.false_eq_true, if_false, decide_eq_true_eq] at h
  have hx : (if x < 0 then -(x.natAbs : Int) else (x.natAbs : Int)) = x := by
    split <;> omega
  rw [hx] at h
  unfold intToDec at h ⊢
  exact h

end UVerif.Text
