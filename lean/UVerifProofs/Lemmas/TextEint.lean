/-
  Lemmas/TextEint — `operator<<` of `einteger<bt>`: long division of the limb vector by the single limb 10^k,
  `k` digits per round, prints the exact decimal expansion (normalised limb vectors).
-/
import UVerifProofs.Lemmas.TextOstream

namespace UVerif.Text

/-- value of little-endian limbs in base `B`. -/
def leVal (B : Nat) : List Nat → Nat
  | [] => 0
  | l :: ls => l + B * leVal B ls

/-- value of most-significant-first limbs in base `B`. -/
def msVal (B : Nat) : List Nat → Nat
  | [] => 0
  | a :: as => a * B ^ as.length + msVal B as

theorem leVal_append_singleton (B : Nat) (l : List Nat) (a : Nat) : leVal B (l ++ [a]) = leVal B l + a * B ^ l.length := by
  induction l with
  | nil => simp [leVal]
  | cons x xs ih => simp only [List.cons_append, leVal, ih, List.length_cons]; ring

theorem leVal_reverse (B : Nat) : ∀ (l : List Nat), leVal B l.reverse = msVal B l
  | [] => rfl
  | a :: as => by
    rw [List.reverse_cons, leVal_append_singleton, leVal_reverse B as, List.length_reverse, msVal]; ring

theorem msVal_reverse (B : Nat) (l : List Nat) : msVal B l.reverse = leVal B l := by
  have := leVal_reverse B l.reverse
  rw [List.reverse_reverse] at this
  exact this.symm

/-- the single-limb long division loop: `rem·B^len + value = d·quotient + r`, `r < d`, quotient limbs `< B`. -/
theorem limbLongDiv_spec (B d : Nat) (hd : 0 < d) (hB : 0 < B) :
    ∀ (ms : List Nat) (rem : Nat), rem < d → (∀ a ∈ ms, a < B) →
      rem * B ^ ms.length + msVal B ms = d * msVal B (limbLongDiv B d ms rem).1 + (limbLongDiv B d ms rem).2 ∧
      (limbLongDiv B d ms rem).2 < d ∧ (limbLongDiv B d ms rem).1.length = ms.length ∧
      (∀ q ∈ (limbLongDiv B d ms rem).1, q < B)
  | [], rem, hr, _ => by simp [limbLongDiv, msVal, hr]
  | a :: as, rem, hr, hms => by
    have ha : a < B := hms a (List.mem_cons_self ..)
    have has : ∀ x ∈ as, x < B := fun x hx => hms x (List.mem_cons_of_mem _ hx)
    have hdm := Nat.div_add_mod (rem * B + a) d
    have hr1 : rem * B + a - (rem * B + a) / d * d = (rem * B + a) % d := by
      have : (rem * B + a) / d * d = d * ((rem * B + a) / d) := Nat.mul_comm _ _
      omega
    have hr1lt : (rem * B + a) % d < d := Nat.mod_lt _ hd
    have hqlt : (rem * B + a) / d < B := by
      apply Nat.div_lt_of_lt_mul
      have : rem * B + a < (rem + 1) * B := by nlinarith
      have : (rem + 1) * B ≤ d * B := Nat.mul_le_mul_right B (by omega)
      omega
    obtain ⟨i1, i2, i3, i4⟩ := limbLongDiv_spec B d hd hB as ((rem * B + a) % d) hr1lt has
    simp only [limbLongDiv, hr1]
    generalize hres : limbLongDiv B d as ((rem * B + a) % d) = res at *
    obtain ⟨qs, r⟩ := res
    simp only at i1 i2 i3 i4 ⊢
    refine ⟨?_, i2, by simp [i3], ?_⟩
    · rw [Nat.mod_eq_of_lt hqlt, msVal, msVal, i3, List.length_cons, Nat.pow_succ]
      have e1 : rem * (B ^ as.length * B) + (a * B ^ as.length + msVal B as)
          = (rem * B + a) * B ^ as.length + msVal B as := by ring
      have e2 : (rem * B + a) * B ^ as.length
          = (d * ((rem * B + a) / d)) * B ^ as.length + (rem * B + a) % d * B ^ as.length := by
        rw [← Nat.add_mul, hdm]
      rw [e1, e2, Nat.add_assoc, i1]
      ring
    · intro q hq
      rcases List.mem_cons.mp hq with rfl | h
      · exact Nat.mod_lt _ hB
      · exact i4 q h

theorem msVal_stripTopZerosRev (B : Nat) : ∀ (l : List Nat), msVal B (stripTopZerosRev l) = msVal B l
  | [] => rfl
  | d :: ds => by
    unfold stripTopZerosRev
    by_cases h : d = 0
    · subst h; simp [msVal, msVal_stripTopZerosRev B ds]
    · simp [h]

theorem stripTopZerosRev_head : ∀ (l : List Nat), (stripTopZerosRev l).head? ≠ some 0
  | [] => by simp [stripTopZerosRev]
  | d :: ds => by
    unfold stripTopZerosRev
    by_cases h : d = 0
    · simp only [h, if_true]; exact stripTopZerosRev_head ds
    · simp [h]

theorem stripTopZerosRev_mem : ∀ (l : List Nat) (x : Nat), x ∈ stripTopZerosRev l → x ∈ l
  | [], _, h => by simp [stripTopZerosRev] at h
  | d :: ds, x, h => by
    unfold stripTopZerosRev at h
    by_cases hd : d = 0
    · simp only [hd, if_true] at h
      exact List.mem_cons_of_mem _ (stripTopZerosRev_mem ds x h)
    · simpa [hd] using h

theorem stripTopZerosRev_id (l : List Nat) (h : l.head? ≠ some 0) : stripTopZerosRev l = l := by
  cases l with
  | nil => rfl
  | cons d ds =>
    have : d ≠ 0 := by simpa using h
    simp [stripTopZerosRev, this]

/-- a normalised limb vector: limbs below the base, no most-significant zero limb. -/
def NormLimbs (B : Nat) (l : List Nat) : Prop := (∀ x ∈ l, x < B) ∧ l.getLast? ≠ some 0

theorem leVal_pos (B : Nat) (hB : 0 < B) : ∀ (l : List Nat), l ≠ [] → l.getLast? ≠ some 0 → 0 < leVal B l
  | [], h, _ => absurd rfl h
  | [x], _, hl => by
    have : x ≠ 0 := by simpa using hl
    simp [leVal]; omega
  | x :: y :: ys, _, hl => by
    have ih := leVal_pos B hB (y :: ys) (by simp) (by simpa [List.getLast?_cons_cons] using hl)
    simp only [leVal] at ih ⊢
    have : 0 < B * (y + B * leVal B ys) := Nat.mul_pos hB ih
    omega

theorem leVal_lt (B : Nat) : ∀ (l : List Nat), (∀ x ∈ l, x < B) → leVal B l < B ^ l.length
  | [], _ => by simp [leVal]
  | x :: xs, h => by
    have hx : x < B := h x (List.mem_cons_self ..)
    have ih := leVal_lt B xs (fun y hy => h y (List.mem_cons_of_mem _ hy))
    simp only [leVal, List.length_cons, Nat.pow_succ]
    nlinarith

/-- `reduce` by the single limb `d` on a normalised, non-zero limb vector: quotient (normalised) and remainder. -/
theorem eintReduce1_spec (B d : Nat) (hd : 0 < d) (hB : 1 < B) (t : List Nat) (ht : NormLimbs B t) (hne : t ≠ []) :
    NormLimbs B (eintReduce1 B d t).1 ∧ leVal B (eintReduce1 B d t).1 = leVal B t / d ∧
      (eintReduce1 B d t).2 = leVal B t % d := by
  obtain ⟨hlim, hlast⟩ := ht
  have hB0 : 0 < B := by omega
  have hnz : eintIsZero t = false := by
    unfold eintIsZero
    cases t with
    | nil => exact absurd rfl hne
    | cons a as =>
      cases as with
      | nil =>
        have : a ≠ 0 := by simpa using hlast
        simp [this]
      | cons b bs => simp
  unfold eintReduce1
  simp only [hnz, Bool.false_eq_true, if_false]
  match t, hlim, hlast, hne with
  | [a0], hlim, hlast, _ =>
    have ha0 : a0 < B := hlim a0 (List.mem_cons_self ..)
    simp only [leVal, Nat.mul_zero, Nat.add_zero]
    by_cases hq : a0 / d = 0
    · simp [hq, NormLimbs, leVal]
    · simp only [hq, if_false, leVal, Nat.mul_zero, Nat.add_zero, and_true]
      refine ⟨?_, by simpa using hq⟩
      intro x hx
      have : x = a0 / d := by simpa using hx
      rw [this]
      exact lt_of_le_of_lt (Nat.div_le_self _ _) ha0
  | a :: b :: cs, hlim, hlast, _ =>
    simp only
    have hhead : ((a :: b :: cs).reverse).head? ≠ some 0 := by rw [List.head?_reverse]; exact hlast
    rw [stripTopZerosRev_id _ hhead]
    have hmem : ∀ x ∈ (a :: b :: cs).reverse, x < B := fun x hx => hlim x (List.mem_reverse.mp hx)
    obtain ⟨i1, i2, _, i4⟩ := limbLongDiv_spec B d hd hB0 (a :: b :: cs).reverse 0 hd hmem
    generalize hres : limbLongDiv B d (a :: b :: cs).reverse 0 = res at *
    obtain ⟨qs, r⟩ := res
    simp only at i1 i2 i4 ⊢
    rw [Nat.zero_mul, Nat.zero_add, msVal_reverse] at i1
    have huniq := (Nat.div_mod_unique hd).mpr ⟨by rw [Nat.add_comm, ← i1], i2⟩
    refine ⟨⟨?_, ?_⟩, ?_, huniq.2.symm⟩
    · intro x hx
      exact i4 x (stripTopZerosRev_mem qs x (List.mem_reverse.mp hx))
    · rw [List.getLast?_reverse]; exact stripTopZerosRev_head qs
    · rw [leVal_reverse, msVal_stripTopZerosRev]; exact huniq.1.symm

/-- on normalised limb vectors the einteger loop is the loop on naturals. -/
theorem eintOstreamLoop_eq_natLoop (B k : Nat) (hB : 1 < B) :
    ∀ (fuel : Nat) (t : List Nat) (cap : Nat), NormLimbs B t →
      eintOstreamLoop B (10 ^ k) k fuel t cap = natLoop k fuel (leVal B t) cap
  | 0, _, _, _ => rfl
  | fuel + 1, t, cap, ht => by
    unfold eintOstreamLoop natLoop
    have hd : 0 < 10 ^ k := Nat.pow_pos (by decide)
    by_cases hnil : t = []
    · subst hnil; simp [eintIsZero, leVal]
    · have hpos := leVal_pos B (by omega) t hnil ht.2
      have hz : eintIsZero t = false := by
        unfold eintIsZero
        cases t with
        | nil => exact absurd rfl hnil
        | cons a as =>
          cases as with
          | nil =>
            have : a ≠ 0 := by simpa using ht.2
            simp [this]
          | cons b bs => simp
      have hT0 : ¬ (leVal B t = 0) := by omega
      simp only [hz, Bool.false_eq_true, false_or, hT0]
      by_cases hcap : cap = 0
      · simp [hcap]
      · simp only [hcap, if_false]
        obtain ⟨r1, r2, r3⟩ := eintReduce1_spec B (10 ^ k) hd hB t ht hnil
        generalize hres : eintReduce1 B (10 ^ k) t = res at *
        obtain ⟨q, rv⟩ := res
        simp only at r1 r2 r3 ⊢
        rw [r3, blockDigitsLE_eq, eintOstreamLoop_eq_natLoop B k hB fuel q _ r1, r2]

/-- **einteger `operator<<` prints the exact decimal expansion**, for every limb width 8/16/32 and every normalised
    limb vector (limbs below 2^w, no most-significant zero limb) of any length. -/
theorem eintOstream_exact (w : Nat) (hw : w = 8 ∨ w = 16 ∨ w = 32) (neg : Bool) (limbs : List Nat)
    (hnorm : NormLimbs (2 ^ w) limbs) :
    eintOstream w neg limbs
      = intToDec (if neg then -((leVal (2 ^ w) limbs : Nat) : Int) else ((leVal (2 ^ w) limbs : Nat) : Int)) := by
  have hw0 : 0 < w := by omega
  have hB : 1 < 2 ^ w := Nat.one_lt_two_pow (by omega)
  unfold eintOstream
  by_cases hnil : limbs = []
  · subst hnil
    cases neg <;> simp [leVal, intToDec, natToDec_zero]
  · have hemp : limbs.isEmpty = false := by cases limbs <;> simp_all
    simp only [hemp, Bool.false_eq_true, if_false]
    set k := digitsInBlock10 w with hk
    set T := leVal (2 ^ w) limbs with hT
    have hTpos : 0 < T := leVal_pos (2 ^ w) (by omega) limbs hnil hnorm.2
    rw [eintOstreamLoop_eq_natLoop (2 ^ w) k hB _ limbs _ hnorm]
    set cap := limbs.length * w / 3 + 1 with hcap
    obtain ⟨s1, s2, s3⟩ := natLoop_spec k (by rw [hk]; exact digitsInBlock10_pos w) (cap + 1) T cap (by omega)
    rw [← hT]
    generalize hL : (natLoop k (cap + 1) T cap).length = L at *
    have hTlt : T < 10 ^ cap := by
      have h1 : T < (2 ^ w) ^ limbs.length := leVal_lt (2 ^ w) limbs hnorm.1
      rw [← Nat.pow_mul, Nat.mul_comm] at h1
      exact lt_trans h1 (two_pow_lt_ten_pow (limbs.length * w))
    have hTL : T < 10 ^ L := by
      rcases s3 with h | h
      · exact h
      · rw [h]; exact hTlt
    have hbuf := buffer_to_numeral T L cap hTL
    simp only at hbuf
    rw [s1, hbuf]
    unfold intToDec
    cases neg
    · simp
    · simp [hTpos]

end UVerif.Text
