/-
  Lemmas/TextFixpntDec — fixpnt `convert_to_decimal_string`: the text is the exact finite decimal expansion of
  raw / 2^rbits: sign, integer part, `.` and exactly `rbits` fraction digits (those of frac·5^rbits).
-/
import UVerifProofs.Lemmas.TextEint

namespace UVerif.Text
open UVerif

/-! ### general addition (operands need not be canonical) -/

theorem decAdd_value (a b : List Nat) (ha : AllDigits a) (hb : AllDigits b) :
    decVal (decAdd a b) = decVal a + decVal b ∧ AllDigits (decAdd a b) := by
  unfold decAdd
  set n := max a.length b.length
  have hla : (padTo a n).length = n := length_padTo a n (by omega)
  have hlb : (padTo b n).length = n := length_padTo b n (by omega)
  obtain ⟨h1, h2⟩ := decAddLoop_spec (padTo a n) (padTo b n) 0 (by rw [hla, hlb])
    (allDigits_padTo a n ha) (allDigits_padTo b n hb) (by omega)
  rw [decVal_padTo, decVal_padTo] at h1
  exact ⟨by omega, h2⟩

theorem decAddLoop_ne_nil : ∀ (a b : List Nat) (c : Nat), a ≠ [] → a.length = b.length → decAddLoop a b c ≠ []
  | [], _, _, h, _ => absurd rfl h
  | _ :: _, [], _, _, h => by simp at h
  | x :: as, y :: bs, c, _, _ => by
    unfold decAddLoop
    dsimp only
    split <;> simp

theorem decAdd_ne_nil (a b : List Nat) (ha : a ≠ []) : decAdd a b ≠ [] := by
  unfold decAdd
  set n := max a.length b.length
  have hla : (padTo a n).length = n := length_padTo a n (by omega)
  have hlb : (padTo b n).length = n := length_padTo b n (by omega)
  apply decAddLoop_ne_nil _ _ _ _ (by rw [hla, hlb])
  intro h
  have := congrArg List.length h
  rw [hla] at this
  have hl0 : a.length = 0 := by simp at this; omega
  exact ha (List.length_eq_zero_iff.mp hl0)

/-! ### unpad -/

theorem leVal_ten (l : List Nat) : leVal 10 l = decVal l := by
  induction l with
  | nil => rfl
  | cons d ds ih => simp [leVal, decVal, ih]

theorem decUnpadRev_spec : ∀ (l : List Nat), l ≠ [] →
    msVal 10 (decUnpadRev l) = msVal 10 l ∧ decUnpadRev l ≠ [] ∧
      ((decUnpadRev l).head? ≠ some 0 ∨ decUnpadRev l = [0]) ∧ (∀ x ∈ decUnpadRev l, x ∈ l)
  | [], h => absurd rfl h
  | [d], _ => by
    refine ⟨rfl, by simp [decUnpadRev], ?_, by simp [decUnpadRev]⟩
    by_cases h : d = 0
    · right; simp [decUnpadRev, h]
    · left; simp [decUnpadRev, h]
  | d :: e :: es, _ => by
    unfold decUnpadRev
    by_cases h : d = 0
    · subst h
      simp only [if_true]
      obtain ⟨i1, i2, i3, i4⟩ := decUnpadRev_spec (e :: es) (by simp)
      refine ⟨?_, i2, i3, fun x hx => List.mem_cons_of_mem _ (i4 x hx)⟩
      rw [i1]; simp [msVal]
    · simp only [h, if_false]
      exact ⟨by trivial, by simp, Or.inl (by simpa using h), fun x hx => hx⟩

/-- `unpad()` of a non-empty digit vector is the canonical vector of its value. -/
theorem decUnpad_canon (l : List Nat) (hne : l ≠ []) (hd : AllDigits l) : decUnpad l = decOfNat (decVal l) := by
  unfold decUnpad
  have hrne : l.reverse ≠ [] := by simpa using hne
  obtain ⟨i1, i2, i3, i4⟩ := decUnpadRev_spec l.reverse hrne
  rw [msVal_reverse, leVal_ten] at i1
  set u := decUnpadRev l.reverse with hu
  have hval : decVal u.reverse = decVal l := by rw [← leVal_ten, ← msVal_reverse, List.reverse_reverse, i1]
  have hdig : AllDigits u.reverse := fun x hx => hd x (List.mem_reverse.mp (i4 x (List.mem_reverse.mp hx)))
  rcases i3 with h | h
  · have hnlz : NoLeadingZero u.reverse := by unfold NoLeadingZero; rw [List.getLast?_reverse]; exact h
    have huniq := natDigitsLE_unique u.reverse hdig hnlz
    rw [hval] at huniq
    have hpos : decVal l ≠ 0 := by
      intro h0
      rw [h0, natDigitsLE_zero] at huniq
      exact i2 (by simpa using huniq)
    rw [huniq, decOfNat_pos _ hpos]
  · rw [h] at hval ⊢
    have : decVal l = 0 := by simpa [decVal] using hval.symm
    rw [this]; rfl

/-! ### multiplication -/

theorem decMulRow_spec (s : Nat) (hs : s < 10) : ∀ (big : List Nat) (c : Nat), AllDigits big → c < 10 →
    decVal (decMulRow s big c) = s * decVal big + c ∧ AllDigits (decMulRow s big c)
  | [], c, _, hc => by
    by_cases h : c = 0
    · subst h
      exact ⟨by simp [decMulRow, decVal], fun x hx => by simp [decMulRow] at hx⟩
    · exact ⟨by simp [decMulRow, h, decVal], fun x hx => by simp [decMulRow, h] at hx; omega⟩
  | b :: bs, c, hb, hc => by
    have hb0 : b < 10 := hb b (List.mem_cons_self ..)
    have hd : s * b + c < 100 := by nlinarith
    obtain ⟨i1, i2⟩ := decMulRow_spec s hs bs ((s * b + c) / 10) (fun x hx => hb x (List.mem_cons_of_mem _ hx)) (by omega)
    unfold decMulRow
    refine ⟨?_, ?_⟩
    · simp only [decVal, i1]
      have := Nat.div_add_mod (s * b + c) 10
      calc (s * b + c) % 10 + 10 * (s * decVal bs + (s * b + c) / 10)
          = 10 * (s * decVal bs) + (10 * ((s * b + c) / 10) + (s * b + c) % 10) := by ring
        _ = 10 * (s * decVal bs) + (s * b + c) := by rw [this]
        _ = s * (b + 10 * decVal bs) + c := by ring
    · intro x hx
      rcases List.mem_cons.mp hx with rfl | h
      · omega
      · exact i2 x h

theorem decVal_zeros_append (k : Nat) (l : List Nat) : decVal (List.replicate k 0 ++ l) = 10 ^ k * decVal l := by
  induction k with
  | zero => simp
  | succ k ih => simp only [List.replicate_succ, List.cons_append, decVal, ih, Nat.pow_succ]; ring

theorem decMulRows_spec (big : List Nat) (hbig : AllDigits big) : ∀ (small : List Nat) (pos : Nat) (product : List Nat),
    AllDigits small → AllDigits product → product ≠ [] →
      decVal (decMulRows big small pos product) = decVal product + 10 ^ pos * (decVal small * decVal big) ∧
      AllDigits (decMulRows big small pos product) ∧ decMulRows big small pos product ≠ []
  | [], pos, product, _, hp, hne => by simp [decMulRows, decVal, hp, hne]
  | s :: ss, pos, product, hs, hp, hne => by
    have hs0 : s < 10 := hs s (List.mem_cons_self ..)
    obtain ⟨r1, r2⟩ := decMulRow_spec s hs0 big 0 hbig (by omega)
    have hps : AllDigits (List.replicate pos 0 ++ decMulRow s big 0) := by
      intro x hx
      rcases List.mem_append.mp hx with h | h
      · rw [List.mem_replicate] at h; omega
      · exact r2 x h
    obtain ⟨a1, a2⟩ := decAdd_value product _ hp hps
    obtain ⟨i1, i2, i3⟩ := decMulRows_spec big hbig ss (pos + 1) (decAdd product (List.replicate pos 0 ++ decMulRow s big 0))
      (fun x hx => hs x (List.mem_cons_of_mem _ hx)) a2 (decAdd_ne_nil _ _ hne)
    unfold decMulRows
    refine ⟨?_, i2, i3⟩
    rw [i1, a1, decVal_zeros_append, r1]
    simp only [decVal, Nat.pow_succ]
    ring

theorem decIsZero_decOfNat (x : Nat) : decIsZero (decOfNat x) = decide (x = 0) := by
  by_cases h : x = 0
  · subst h; rfl
  · unfold decIsZero
    rw [decOfNat_pos x h, natDigitsLE_pos x h]
    simp only [h, decide_false]
    by_cases h10 : x / 10 = 0
    · rw [h10, natDigitsLE_zero]
      have : x % 10 ≠ 0 := by omega
      simp [this]
    · have := natDigitsLE_ne_nil (x / 10) h10
      cases hh : natDigitsLE (x / 10) with
      | nil => exact absurd hh this
      | cons _ _ => simp

/-- **`support::mul` on canonical operands is multiplication.** -/
theorem decMul_canon (x y : Nat) : decMul (decOfNat x) (decOfNat y) = decOfNat (x * y) := by
  unfold decMul
  rw [decIsZero_decOfNat, decIsZero_decOfNat]
  by_cases hx : x = 0
  · subst hx; simp [decOfNat]
  · by_cases hy : y = 0
    · subst hy; simp [decOfNat]
    · simp only [hx, hy, decide_false, Bool.or_self, Bool.false_eq_true, if_false]
      have hz : AllDigits [0] := fun d hd => by simp at hd; omega
      split
      · obtain ⟨i1, i2, i3⟩ := decMulRows_spec (decOfNat y) (allDigits_decOfNat y) (decOfNat x) 0 [0]
          (allDigits_decOfNat x) hz (by simp)
        rw [decUnpad_canon _ i3 i2, i1, decVal_decOfNat, decVal_decOfNat]
        simp [decVal]
      · obtain ⟨i1, i2, i3⟩ := decMulRows_spec (decOfNat x) (allDigits_decOfNat x) (decOfNat y) 0 [0]
          (allDigits_decOfNat y) hz (by simp)
        rw [decUnpad_canon _ i3 i2, i1, decVal_decOfNat, decVal_decOfNat]
        simp [decVal, Nat.mul_comm]


/-! ### the fixpnt printer -/

/-- the exact finite decimal expansion of `raw / 2^rbits`: sign, integer part, and (when `rbits > 0`) a point
    followed by exactly `rbits` digits — those of `frac · 5^rbits`. -/
def fixpntDecimalSpec (n r v : Nat) : List Char :=
  let x := toSigned n v
  let mag := x.natAbs
  (if x < 0 then ['-'] else []) ++ natToDec (mag / 2 ^ r) ++
    (if r > 0 then '.' :: ((padLE (mag % 2 ^ r * 5 ^ r) r).reverse.map digitChar) else [])

/-- the digits of the specification denote `mag / 2^r`: (integer part)·10^r + (fraction digits) = mag·5^r, and the
    fraction digits fit in `r` places. -/
theorem fixpntDecimalSpec_value (mag r : Nat) :
    mag / 2 ^ r * 10 ^ r + mag % 2 ^ r * 5 ^ r = mag * 5 ^ r ∧ mag % 2 ^ r * 5 ^ r < 10 ^ r := by
  have h10 : (10 : Nat) ^ r = 2 ^ r * 5 ^ r := by rw [← Nat.mul_pow]
  have hdm := Nat.div_add_mod mag (2 ^ r)
  constructor
  · rw [h10]
    calc mag / 2 ^ r * (2 ^ r * 5 ^ r) + mag % 2 ^ r * 5 ^ r = (2 ^ r * (mag / 2 ^ r) + mag % 2 ^ r) * 5 ^ r := by ring
      _ = mag * 5 ^ r := by rw [hdm]
  · rw [h10]
    exact Nat.mul_lt_mul_of_pos_right (Nat.mod_lt _ (Nat.two_pow_pos r)) (Nat.pow_pos (by decide))

theorem natDigitsLE_ten_pow : ∀ r, natDigitsLE (10 ^ r) = List.replicate r 0 ++ [1]
  | 0 => by decide
  | r + 1 => by
    have hne : 10 ^ (r + 1) ≠ 0 := by positivity
    rw [natDigitsLE_pos _ hne, Nat.pow_succ, Nat.mul_mod_left, Nat.mul_div_cancel _ (by decide), natDigitsLE_ten_pow r]
    rfl

theorem decOfNat_ten_pow (r : Nat) : decOfNat (10 ^ r) = List.replicate r 0 ++ [1] := by
  rw [decOfNat_pos _ (by positivity), natDigitsLE_ten_pow]

theorem decDoubleN_canon : ∀ (k m : Nat), decDoubleN k (decOfNat m) = decOfNat (m * 2 ^ k)
  | 0, m => by simp [decDoubleN]
  | k + 1, m => by
    rw [decDoubleN, decAdd_canon, decDoubleN_canon k (m + m), Nat.pow_succ]
    congr 1; ring

theorem length_natDigitsLE_le : ∀ (k x : Nat), x < 10 ^ k → (natDigitsLE x).length ≤ k
  | 0, x, h => by
    have : x = 0 := by simpa using h
    subst this; simp [natDigitsLE_zero]
  | k + 1, x, h => by
    by_cases h0 : x = 0
    · subst h0; simp [natDigitsLE_zero]
    · rw [natDigitsLE_pos x h0, List.length_cons]
      have := length_natDigitsLE_le k (x / 10) (by rw [Nat.pow_succ] at h; omega)
      omega

theorem decDiv_range_levels (r : Nat) : decDiv (decOfNat (10 ^ r)) (decOfNat (2 ^ r)) = decOfNat (5 ^ r) := by
  unfold decDiv
  have hless : decLess (decOfNat (10 ^ r)) (decOfNat (2 ^ r)) = false := by
    unfold decLess
    rw [decOfNat_ten_pow]
    by_cases hr : r = 0
    · subst hr; decide
    · have h2 : (2 : Nat) ^ r < 10 ^ r := Nat.pow_lt_pow_left (by decide) hr
      have hl := length_natDigitsLE_le r (2 ^ r) h2
      rw [decOfNat_pos _ (by positivity)]
      have h1 : ¬ ((List.replicate r 0 ++ [1]).length < (natDigitsLE (2 ^ r)).length) := by simp; omega
      have h' : (List.replicate r 0 ++ [1]).length > (natDigitsLE (2 ^ r)).length := by simp; omega
      rw [if_neg h1, if_pos h']
  rw [hless]
  simp only [Bool.false_eq_true, if_false, decVal_decOfNat]
  congr 1
  have h10 : (10 : Nat) ^ r = 5 ^ r * 2 ^ r := by rw [← Nat.mul_pow]
  rw [h10, Nat.mul_div_cancel _ (Nat.two_pow_pos r)]

/-- fraction digits: leading zeros, the canonical vector, (no) trailing zeros = the `r` digits of `F`. -/
theorem fracDigits_eq (r F : Nat) (hr : 0 < r) (hF : F < 10 ^ r) :
    List.replicate (r + 1 - (decOfNat F).length - 1) '0' ++ decChars (decOfNat F)
        ++ List.replicate (r - (r + 1 - (decOfNat F).length - 1 + (decOfNat F).length)) '0'
      = (padLE F r).reverse.map digitChar := by
  by_cases h0 : F = 0
  · subst h0
    have hz : ∀ m, padLE 0 m = List.replicate m 0 := by
      intro m; induction m with
      | zero => rfl
      | succ m ih => simp [padLE, ih, List.replicate_succ]
    obtain ⟨q, rfl⟩ : ∃ q, r = q + 1 := ⟨r - 1, by omega⟩
    simp only [decOfNat_zero, List.length_singleton, hz, List.reverse_replicate, List.map_replicate, digitChar_zero]
    rw [show q + 1 + 1 - 1 - 1 = q by omega, show q + 1 - (q + 1) = 0 by omega]
    simp [decChars, digitChar_zero, List.replicate_succ']
  · have hlen := length_natDigitsLE_le r F hF
    rw [decOfNat_pos F h0, padLE_of_lt r F hF]
    rw [show r + 1 - (natDigitsLE F).length - 1 = r - (natDigitsLE F).length by omega,
      show r - (r - (natDigitsLE F).length + (natDigitsLE F).length) = 0 by omega]
    simp [decChars, digitChar_zero]

/-- **fixpnt `convert_to_decimal_string` / `operator<<` prints the exact decimal expansion**, every configuration. -/
theorem fixpntToDecimalString_exact (n r v : Nat) (hr : r ≤ n) (hn : 0 < n) (hv : v < 2 ^ n) :
    fixpntToDecimalString n r v = fixpntDecimalSpec n r v := by
  obtain ⟨hmag, hsign⟩ := magnitude_toSigned n v hn hv
  have hnat : magnitudePattern n v = (toSigned n v).natAbs := by exact_mod_cast hmag
  have hmlt : magnitudePattern n v < 2 ^ n := by
    unfold magnitudePattern; split <;> exact Nat.mod_lt _ (Nat.two_pow_pos n)
  unfold fixpntToDecimalString fixpntDecimalSpec
  rw [Nat.mod_eq_of_lt hv]
  simp only
  by_cases h0 : v = 0
  · subst h0
    have hts : toSigned n 0 = 0 := by
      unfold toSigned
      have : (0 : Nat) < 2 ^ (n - 1) := Nat.two_pow_pos _
      simp [this]
    have hz : ∀ m, padLE 0 m = List.replicate m 0 := by
      intro m; induction m with
      | zero => rfl
      | succ m ih => simp [padLE, ih, List.replicate_succ]
    simp [hts, natToDec_zero, hz, digitChar_zero]
  · simp only [h0, if_false]
    set M := (toSigned n v).natAbs with hM
    rw [hnat]
    -- sign
    have hsg : (if v.testBit (n - 1) = true then ['-'] else []) = (if toSigned n v < 0 then ['-'] else []) := by
      by_cases hs : v.testBit (n - 1) = true
      · simp [hs, hsign.mp hs]
      · have : ¬ (toSigned n v < 0) := fun h => hs (hsign.mpr h)
        simp [hs, this]
    rw [hsg]
    have hMlt : M < 2 ^ n := by rw [← hnat]; exact hmlt
    -- integer part
    have hint : (if n > r then decChars (addDouble M (n - r) r [0] [1]) else ['0']) = natToDec (M / 2 ^ r) := by
      by_cases hnr : n > r
      · simp only [hnr, if_true]
        have h := addDouble_canon M (n - r) r 0 1
        rw [decOfNat_zero, decOfNat_one] at h
        have hq : M / 2 ^ r < 2 ^ (n - r) := by
          apply Nat.div_lt_of_lt_mul
          rw [← Nat.pow_add, show r + (n - r) = n by omega]; exact hMlt
        rw [h, Nat.zero_add, Nat.one_mul, Nat.mod_eq_of_lt hq, decChars_decOfNat]
      · have : n = r := by omega
        subst this
        simp only [Nat.lt_irrefl, if_false, gt_iff_lt]
        rw [Nat.div_eq_of_lt hMlt, natToDec_zero]
    rw [hint]
    -- fraction part
    by_cases hr0 : r > 0
    · simp only [hr0, if_true]
      have hlev := decDoubleN_canon r 1
      rw [decOfNat_one, Nat.one_mul] at hlev
      have hpart := addDouble_canon M r 0 0 1
      rw [decOfNat_zero, decOfNat_one, Nat.pow_zero, Nat.div_one, Nat.zero_add, Nat.one_mul] at hpart
      rw [← decOfNat_ten_pow r, hlev, decDiv_range_levels, hpart, decMul_canon]
      obtain ⟨_, hF⟩ := fixpntDecimalSpec_value M r
      have hfd := fracDigits_eq r (M % 2 ^ r * 5 ^ r) hr0 hF
      rw [decOfNat_ten_pow r]
      simp only [List.length_append, List.length_replicate, List.length_singleton]
      simp only [List.append_assoc, List.cons_append, List.nil_append] at hfd ⊢
      rw [hfd]
    · simp [hr0]

end UVerif.Text
