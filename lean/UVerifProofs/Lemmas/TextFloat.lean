/-
  Lemmas/TextFloat — the scanning loops of cfloat / fixpnt `assign` run over the output of `to_binary`.
-/
import UVerifProofs.Lemmas.TextBits

namespace UVerif.Text

/-! ### cfloat -/

/-- characters of `to_binary` survive the filtering loop unchanged. -/
def BinDot (l : List Char) : Prop := ∀ c ∈ l, c = '0' ∨ c = '1' ∨ c = '.'

theorem cfFilter_of_binDot : ∀ l, BinDot l → cfFilter l = some l
  | [], _ => rfl
  | c :: cs, h => by
    have hc : c = '0' ∨ c = '1' ∨ c = '.' := h c (List.mem_cons_self ..)
    have ih := cfFilter_of_binDot cs (fun d hd => h d (List.mem_cons_of_mem _ hd))
    simp [cfFilter, hc, ih]

theorem binDot_bitCharsFrom (v lo : Nat) : ∀ k, BinDot (bitCharsFrom v lo k)
  | 0 => by intro c hc; cases hc
  | k + 1 => by
    intro c hc
    simp only [bitCharsFrom, List.mem_cons] at hc
    rcases hc with rfl | hc
    · rcases bitChar_cases (v.testBit (lo + k)) with h | h <;> simp [h]
    · exact binDot_bitCharsFrom v lo k c hc

theorem binDot_append {a b : List Char} (ha : BinDot a) (hb : BinDot b) : BinDot (a ++ b) := by
  intro c hc
  rcases List.mem_append.mp hc with h | h
  · exact ha c h
  · exact hb c h

theorem binDot_cons {c : Char} {l : List Char} (hc : c = '0' ∨ c = '1' ∨ c = '.') (hl : BinDot l) : BinDot (c :: l) := by
  intro d hd
  rcases List.mem_cons.mp hd with rfl | h
  · exact hc
  · exact hl d h

theorem countBits_append (a b : List Char) : countBits (a ++ b) = countBits a + countBits b := by
  induction a with
  | nil => simp [countBits]
  | cons c cs ih => simp [countBits, ih]; omega

theorem countDots_append (a b : List Char) : countDots (a ++ b) = countDots a + countDots b := by
  induction a with
  | nil => simp [countDots]
  | cons c cs ih => simp [countDots, ih]; omega

theorem countBits_bitCharsFrom (v lo : Nat) : ∀ k, countBits (bitCharsFrom v lo k) = k
  | 0 => rfl
  | k + 1 => by
    simp only [bitCharsFrom, countBits, bitChar_ne_dot, if_false, countBits_bitCharsFrom v lo k]
    omega

theorem countDots_bitCharsFrom (v lo : Nat) : ∀ k, countDots (bitCharsFrom v lo k) = 0
  | 0 => rfl
  | k + 1 => by
    simp only [bitCharsFrom, countDots, bitChar_ne_dot, if_false, countDots_bitCharsFrom v lo k]

/-- a run of `k` bit characters (bits `lo+k-1 … lo` of `v`) consumed by the assignment loop: the accumulated
    pattern goes from "`v` without its low `lo+k` bits" to "`v` without its low `lo` bits". -/
theorem cfAssignLoop_bits (es v lo : Nat) (rest : List Char) (field : Nat) :
    ∀ (k : Nat) (nrExp : Int),
      cfAssignLoop es (bitCharsFrom v lo k ++ rest) field nrExp (lo + k) (v / 2 ^ (lo + k) * 2 ^ (lo + k))
        = cfAssignLoop es rest field (if field = 1 then nrExp + k else nrExp) lo (v / 2 ^ lo * 2 ^ lo)
  | 0, nrExp => by simp [bitCharsFrom]
  | k + 1, nrExp => by
    have hb : lo + (k + 1) - 1 = lo + k := by omega
    simp only [bitCharsFrom, List.cons_append, cfAssignLoop, bitChar_ne_dot, if_false, hb]
    have hv : setBit (v / 2 ^ (lo + (k + 1)) * 2 ^ (lo + (k + 1))) (lo + k) (decide (bitChar (v.testBit (lo + k)) = '1'))
        = v / 2 ^ (lo + k) * 2 ^ (lo + k) := by
      have : decide (bitChar (v.testBit (lo + k)) = '1') = v.testBit (lo + k) := by
        cases h : v.testBit (lo + k) <;> simp [bitChar]
      rw [this, show lo + (k + 1) = (lo + k) + 1 by omega]
      exact setBit_clearLow v (lo + k)
    rw [hv, cfAssignLoop_bits es v lo rest field k]
    by_cases hf : field = 1
    · simp [hf]; congr 1; omega
    · simp [hf]


/-- `assign(to_binary(x)) = x` for every cfloat configuration with `es + 1 ≤ nbits`. -/
theorem cfloatAssign_toBinary (n es v : Nat) (hn : es + 1 ≤ n) (hv : v < 2 ^ n) :
    cfloatAssign n es (cfloatToBinary n es v) = v := by
  obtain ⟨f, rfl⟩ : ∃ f, n = f + es + 1 := ⟨n - es - 1, by omega⟩
  have hfb : f + es + 1 - 1 - es = f := by omega
  have hsb : f + es + 1 - 1 = f + es := by omega
  have hlist : cfloatToBinary (f + es + 1) es v
      = '0' :: 'b' :: (bitChar (v.testBit (f + es)) :: '.' :: (bitCharsFrom v f es ++ '.' :: bitCharsFrom v 0 f)) := by
    unfold cfloatToBinary
    rw [hfb, hsb]
    simp
  rw [hlist]
  generalize hS : bitChar (v.testBit (f + es)) = S
  generalize hE : bitCharsFrom v f es = E
  generalize hF : bitCharsFrom v 0 f = F
  have hlen : ('0' :: 'b' :: (S :: '.' :: (E ++ '.' :: F))).length > 2 := by simp
  have hBD : BinDot (S :: '.' :: (E ++ '.' :: F)) := by
    refine binDot_cons ?_ (binDot_cons (Or.inr (Or.inr rfl)) (binDot_append ?_
      (binDot_cons (Or.inr (Or.inr rfl)) ?_)))
    · rcases bitChar_cases (v.testBit (f + es)) with h | h <;> simp [← hS, h]
    · rw [← hE]; exact binDot_bitCharsFrom v f es
    · rw [← hF]; exact binDot_bitCharsFrom v 0 f
  have hcb : countBits (S :: '.' :: (E ++ '.' :: F)) = f + es + 1 := by
    simp only [countBits, countBits_append, ← hS, bitChar_ne_dot, if_false, if_true, ← hE, ← hF, countBits_bitCharsFrom]
    omega
  have hcd : countDots (S :: '.' :: (E ++ '.' :: F)) = 2 := by
    simp only [countDots, countDots_append, ← hS, bitChar_ne_dot, if_false, if_true, ← hE, ← hF, countDots_bitCharsFrom]
  unfold cfloatAssign
  rw [if_pos hlen]
  simp only [cfFilter_of_binDot _ hBD, hcb, hcd, ne_eq, not_true_eq_false, if_false]
  -- the sign bit: a run of one bit at position f + es
  have h0 : (0 : Nat) = v / 2 ^ (f + es + 1) * 2 ^ (f + es + 1) := by
    rw [Nat.div_eq_of_lt hv]; simp
  have hsign := cfAssignLoop_bits es v (f + es) ('.' :: (E ++ '.' :: F)) 0 1 (-1)
  simp only [bitCharsFrom, List.cons_append, List.nil_append, Nat.add_zero, hS] at hsign
  rw [show cfAssignLoop es (S :: '.' :: (E ++ '.' :: F)) 0 (-1) (f + es + 1) 0
        = cfAssignLoop es (S :: '.' :: (E ++ '.' :: F)) 0 (-1) (f + es + 1) (v / 2 ^ (f + es + 1) * 2 ^ (f + es + 1)) by
        rw [← h0]]
  rw [hsign]
  simp only [Nat.zero_ne_one, if_false]
  -- first dot: field 0 → 1, the exponent counter goes from -1 to 0
  rw [cfAssignLoop]
  simp only [if_true, Nat.zero_add, Nat.reduceEqDiff, false_and, if_false]
  -- exponent run
  have hexp := cfAssignLoop_bits es v f ('.' :: F) 1 es (-1 + 1)
  rw [← hE, hexp]
  simp only [if_true]
  -- second dot: field 1 → 2, exponent counter must equal es
  have he : (-1 + 1 + (es : Int)) = es := by omega
  rw [he, cfAssignLoop]
  -- fraction run
  have hfrac := cfAssignLoop_bits es v 0 [] 2 f (es : Int)
  simp only [List.append_nil, Nat.zero_add] at hfrac
  simp [← hF, hfrac, cfAssignLoop]


/-! ### fixpnt -/

/-- one bit character at position `p < nbits` consumed by the reverse scan of fixpnt `assign`. -/
theorem fxLoop_bit (n r v p : Nat) (rest : List Char) (hp : p < n) :
    fxLoop n r (bitChar (v.testBit p) :: rest) p (v % 2 ^ p) = fxLoop n r rest (p + 1) (v % 2 ^ (p + 1)) := by
  rw [fxLoop]
  simp only [bitChar_ne_b, bitChar_ne_tick, bitChar_ne_dot, if_false, hp, if_true]
  cases h : v.testBit p
  · have : bitChar false = '0' := rfl
    simp only [this, if_true]
    rw [← h, setBit_lowBits]
  · have : bitChar true ≠ '0' := by decide
    simp only [this, if_false]
    rw [← h, setBit_lowBits]

/-- a run of bit characters (bits `lo … lo+k-1`, least significant first) consumed by the reverse scan. -/
theorem fxLoop_bits (n r v lo : Nat) :
    ∀ (k : Nat) (rest : List Char), lo + k ≤ n →
      fxLoop n r ((bitCharsFrom v lo k).reverse ++ rest) lo (v % 2 ^ lo) = fxLoop n r rest (lo + k) (v % 2 ^ (lo + k))
  | 0, rest, _ => by simp [bitCharsFrom]
  | k + 1, rest, h => by
    simp only [bitCharsFrom, List.reverse_cons, List.append_assoc, List.singleton_append]
    rw [fxLoop_bits n r v lo k _ (by omega), fxLoop_bit n r v (lo + k) rest (by omega)]
    rfl

theorem length_bitCharsFrom (v lo : Nat) : ∀ k, (bitCharsFrom v lo k).length = k
  | 0 => rfl
  | k + 1 => by simp [bitCharsFrom, length_bitCharsFrom v lo k]

/-- `assign(to_binary(x)) = x` for every fixpnt configuration `rbits ≤ nbits`, `0 < nbits`. -/
theorem fixpntAssign_toBinary (n r v : Nat) (hr : r ≤ n) (hv : v < 2 ^ n) :
    fixpntAssign n r (fixpntToBinary n r v) = some v := by
  unfold fixpntAssign fixpntToBinary
  by_cases hnr : n > r
  · -- integer bits present
    simp only [hnr, if_true]
    have hlen : ¬ ((['0', 'b'] ++ bitCharsFrom v r (n - r) ++ ['.'] ++ bitCharsFrom v 0 r).length < 3) := by
      simp [length_bitCharsFrom]; omega
    rw [if_neg hlen]
    simp only [List.cons_append, List.nil_append]
    have hrev : ('0' :: 'b' :: (bitCharsFrom v r (n - r) ++ ['.'] ++ bitCharsFrom v 0 r)).reverse
        = (bitCharsFrom v 0 r).reverse ++ ('.' :: ((bitCharsFrom v r (n - r)).reverse ++ ['b', '0'])) := by
      simp
    rw [hrev]
    have h1 := fxLoop_bits n r v 0 r ('.' :: ((bitCharsFrom v r (n - r)).reverse ++ ['b', '0'])) (by omega)
    simp only [Nat.pow_zero, Nat.mod_one, Nat.zero_add] at h1
    rw [h1, fxLoop]
    simp only [show ('.' : Char) ≠ 'b' by decide, show ('.' : Char) ≠ '\'' by decide, if_false, if_true, ne_eq,
      not_true_eq_false]
    rw [fxLoop_bits n r v r (n - r) ['b', '0'] (by omega), fxLoop]
    simp only [if_true]
    rw [show r + (n - r) = n by omega, Nat.mod_eq_of_lt hv]
  · -- nbits = rbits: the integer part is the single character '0'
    have hnr' : n = r := by omega
    subst hnr'
    simp only [Nat.lt_irrefl, if_false, gt_iff_lt]
    have hlen : ¬ ((['0', 'b'] ++ ['0'] ++ ['.'] ++ bitCharsFrom v 0 n).length < 3) := by simp
    rw [if_neg hlen]
    simp only [List.cons_append, List.nil_append]
    have hrev : ('0' :: 'b' :: '0' :: '.' :: bitCharsFrom v 0 n).reverse
        = (bitCharsFrom v 0 n).reverse ++ ['.', '0', 'b', '0'] := by simp
    rw [hrev]
    have h1 := fxLoop_bits n n v 0 n ['.', '0', 'b', '0'] (by omega)
    simp only [Nat.pow_zero, Nat.mod_one, Nat.zero_add] at h1
    rw [h1]
    simp [fxLoop, Nat.mod_eq_of_lt hv]

end UVerif.Text
