/-
  Lemmas/TextHexNeg — a leading `-` of a hexadecimal text is honoured exactly when the digit string is shorter
  than the width (fewer than 2·(nbits/8) nibbles), because only then does the right-to-left scanner reach it.
-/
import UVerifProofs.Lemmas.TextIntRoundtrip

namespace UVerif.Text

theorem leHex_lt : ∀ (C : List Char), (∀ c ∈ C, isHexDigit c = true) → leHex C < 16 ^ C.length
  | [], _ => by simp [leHex]
  | c :: cs, h => by
    obtain ⟨_, _, _, _, h5⟩ := isHexDigit_facts c (h c (List.mem_cons_self ..))
    have ih := leHex_lt cs (fun d hd => h d (List.mem_cons_of_mem _ hd))
    simp only [leHex, List.length_cons, Nat.pow_succ]
    omega

theorem intHexLoop_neg (n mb : Nat) :
    ∀ (k : Nat) (C : List Char), C.length ≤ k → (∀ c ∈ C, isHexDigit c = true) →
      ∀ (idx value byte : Nat), C.length < 2 * (mb - idx) → value < 2 ^ (8 * idx) →
        intHexLoop n mb (C ++ ['x', '0', '-']) byte idx false value
          = (negN n (value + leHex C * 2 ^ (8 * idx)), true) := by
  intro k
  induction k with
  | zero =>
    intro C hk _ idx value byte hidx _
    have : C = [] := List.length_eq_zero_iff.mp (by omega)
    subst this
    have hlt : ¬ (idx ≥ mb) := by simp at hidx; omega
    simp [intHexLoop, hlt, leHex]
  | succ k ih =>
    intro C hk hC idx value byte hidx hval
    have hlt : ¬ (idx ≥ mb) := by omega
    match C, hk, hC, hidx with
    | [], _, _, _ => simp [intHexLoop, hlt, leHex]
    | [c], _, hC, _ =>
      obtain ⟨h1, h2, h3, h4, h5⟩ := isHexDigit_facts c (hC c (List.mem_cons_self ..))
      simp only [List.cons_append, List.nil_append]
      rw [intHexLoop]
      simp only [hlt, if_false, h1, h2, h3, or_self, h4, Option.getD_some, Bool.false_eq_true]
      rw [intHexLoop]
      simp only [hlt, if_false, show ('x' : Char) ≠ '\'' by decide, true_or, if_true]
      rw [setByte_fresh value idx (hv c) hval (by omega)]
      simp [leHex]
    | c0 :: c1 :: C', hk, hC, hidx =>
      obtain ⟨a1, a2, a3, a4, a5⟩ := isHexDigit_facts c0 (hC c0 (List.mem_cons_self ..))
      obtain ⟨b1, b2, b3, b4, b5⟩ := isHexDigit_facts c1 (hC c1 (List.mem_cons_of_mem _ (List.mem_cons_self ..)))
      simp only [List.cons_append]
      rw [intHexLoop]
      simp only [hlt, if_false, a1, a2, a3, or_self, a4, Option.getD_some, Bool.false_eq_true]
      rw [intHexLoop]
      simp only [hlt, if_false, b1, b2, b3, or_self, b4, Option.getD_some, if_true]
      have hbyte : hv c0 + hv c1 * 16 < 256 := by omega
      rw [setByte_fresh value idx _ hval hbyte]
      have hval' : value + (hv c0 + hv c1 * 16) * 2 ^ (8 * idx) < 2 ^ (8 * (idx + 1)) := by
        rw [show 8 * (idx + 1) = 8 * idx + 8 by omega, Nat.pow_add]
        generalize 2 ^ (8 * idx) = P at *
        nlinarith
      rw [ih C' (by simp at hk; omega) (fun c hc => hC c (List.mem_cons_of_mem _ (List.mem_cons_of_mem _ hc)))
        (idx + 1) _ _ (by simp at hidx; omega) hval']
      congr 2
      have hP : (2 : Nat) ^ (8 * (idx + 1)) = 2 ^ (8 * idx) * 256 := by
        rw [show 8 * (idx + 1) = 8 * idx + 8 by omega, Nat.pow_add]
      rw [hP]
      simp only [leHex]
      ring

theorem negN_lt (n a : Nat) : negN n a < 2 ^ n := Nat.mod_lt _ (Nat.two_pow_pos n)

/-- **a negative hexadecimal text shorter than the width** parses to the two's complement of its magnitude. -/
theorem integerParse_hex_neg (n : Nat) (hs : List Char) (V : Nat) (h8 : 8 ∣ n) (hne : hs ≠ [])
    (hh : ∀ c ∈ hs, isHexDigit c = true) (hshort : hs.length < 2 * (n / 8)) (hV : hexStrVal? hs 0 = some V) :
    integerParse n ('-' :: '0' :: 'x' :: hs) = some (negN n V) := by
  obtain ⟨j, rfl⟩ := h8
  rw [hexStrVal_eq hs 0 hh] at hV
  simp only [Nat.zero_mul, Nat.zero_add, Option.some.injEq] at hV
  unfold integerParse
  rw [integerForm_neg, integerForm_toHex hs hne hh]
  simp only
  have hrev : ('-' :: '0' :: 'x' :: hs).reverse = hs.reverse ++ ['x', '0', '-'] := by simp
  rw [hrev, show 8 * j / 8 = j by omega] at *
  rw [intHexLoop_neg (8 * j) j hs.reverse.length hs.reverse (Nat.le_refl _)
    (fun c hc => hh c (List.mem_reverse.mp hc)) 0 0 0 (by simpa using hshort) (by simp)]
  simp only [Nat.zero_add, Nat.mul_zero, Nat.pow_zero, Nat.mul_one, hV]
  rw [Nat.mod_eq_of_lt (negN_lt _ _)]
  simp

end UVerif.Text
