/-
  Lemmas/TextHexNeg — a leading sign of a hexadecimal text is honoured for digit strings of ANY length: the repaired
  right-to-left scanner skips the digits above the width and always reaches the `x`, the `0` and the sign.
-/
import UVerifProofs.Lemmas.TextIntRoundtrip

namespace UVerif.Text

theorem leHex_lt : ∀ (C : List Char), (∀ c ∈ C, isHexDigit c = true) → leHex C < 16 ^ C.length
  | [], _ => by simp [leHex]
  | c :: cs, h => by
    obtain ⟨_, _, _, _, h5⟩ := isHexDigit_facts c (h c (List.mem_cons_self ..))
    have ih := leHex_lt cs (fun d hd => h d (List.mem_cons_of_mem _ hd))
    simp only [leHex, List.length_cons, Nat.pow_succ]
    omega

theorem integerForm_pos (t : List Char) : integerForm ('+' :: t) = integerForm t := by
  unfold integerForm
  simp [dropSigns]

/-- **a negative hexadecimal text** `-0x…` of ANY length, ANY width, parses to the two's complement of its
    magnitude (mod 2^nbits). -/
theorem integerParse_hex_neg (n : Nat) (hs : List Char) (V : Nat) (hne : hs ≠ [])
    (hh : ∀ c ∈ hs, isHexDigit c = true) (hV : hexStrVal? hs 0 = some V) :
    integerParse n ('-' :: '0' :: 'x' :: hs) = some (negN n V) := by
  unfold integerParse
  rw [integerForm_neg, integerForm_toHex hs hne hh]
  simp only
  have hrev : ('-' :: '0' :: 'x' :: hs).reverse = hs.reverse ++ 'x' :: ['0', '-'] := by simp
  rw [hrev, intHexLoop_text n hs V ['0', '-'] hh hV]
  simp [hexTail, negN_mod, Nat.mod_eq_of_lt (negN_lt _ _)]

/-- an explicit `+` changes nothing. -/
theorem integerParse_hex_pos (n : Nat) (hs : List Char) (V : Nat) (hne : hs ≠ [])
    (hh : ∀ c ∈ hs, isHexDigit c = true) (hV : hexStrVal? hs 0 = some V) :
    integerParse n ('+' :: '0' :: 'x' :: hs) = some (V % 2 ^ n) := by
  unfold integerParse
  rw [integerForm_pos, integerForm_toHex hs hne hh]
  simp only
  have hrev : ('+' :: '0' :: 'x' :: hs).reverse = hs.reverse ++ 'x' :: ['0', '+'] := by simp
  rw [hrev, intHexLoop_text n hs V ['0', '+'] hh hV]
  simp [hexTail]

end UVerif.Text
