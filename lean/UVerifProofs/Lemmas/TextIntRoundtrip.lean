/-
  Lemmas/TextIntRoundtrip — integer decimal round trip: `parse(to_string(x)) = x` for every width.
-/
import UVerifProofs.Lemmas.TextInteger
import UVerifProofs.Lemmas.TextDecimal

namespace UVerif.Text
open UVerif

theorem integerForm_neg (t : List Char) : integerForm ('-' :: t) = integerForm t := by
  unfold integerForm
  simp [dropSigns]

theorem integerForm_natToDec (m : Nat) : integerForm (natToDec m) = .decimal := by
  by_cases h0 : m = 0
  · subst h0; decide
  · have hne := natDigits_ne_nil m
    have hhead := natDigits_head m h0
    have hall := natDigits_allDigits m
    unfold natToDec
    cases hd : natDigits m with
    | nil => exact absurd hd hne
    | cons d ds =>
      rw [hd] at hhead hall
      have hd0 : d ≠ 0 := by simpa using hhead
      have hd10 : d < 10 := hall d (List.mem_cons_self ..)
      simp only [List.map_cons]
      apply integerForm_decimal
      · exact isDigit_digitChar d hd10
      · exact digitChar_ne_zero d hd10 hd0
      · intro c hc
        obtain ⟨e, he, rfl⟩ := List.mem_map.mp hc
        exact isDigit_digitChar e (hall e (List.mem_cons_of_mem _ he))

/-- **integer decimal round trip**: the text printed by `to_string` parses back to the same encoding — every width. -/
theorem integerParse_toDecimalString (n v : Nat) (hn : 0 < n) (hv : v < 2 ^ n) :
    integerParse n (integerToDecimalString n v) = some v := by
  rw [integerToDecimalString_exact n v hn hv]
  obtain ⟨hmag, hsign⟩ := magnitude_toSigned n v hn hv
  have hnat : magnitudePattern n v = (toSigned n v).natAbs := by exact_mod_cast hmag
  unfold intToDec
  by_cases hs : toSigned n v < 0
  · simp only [hs, if_true, List.cons_append, List.nil_append]
    rw [integerParse_decimal_neg n _ (natToDec_allDigit _) (by rw [integerForm_neg]; exact integerForm_natToDec _),
      decStrVal_natToDec, ← hnat]
    have htb : v.testBit (n - 1) = true := hsign.mpr hs
    have hle : 2 ^ (n - 1) ≤ v := by
      rw [testBit_top n v hn hv] at htb; simpa using htb
    have hP : 0 < 2 ^ (n - 1) := Nat.two_pow_pos _
    unfold magnitudePattern negN
    rw [htb, if_pos rfl, Nat.mod_eq_of_lt hv]
    have h1 : (2 ^ n - v) % 2 ^ n = 2 ^ n - v := Nat.mod_eq_of_lt (by omega)
    simp only [h1]
    rw [show 2 ^ n - (2 ^ n - v) = v by omega, Nat.mod_eq_of_lt hv]
  · simp only [hs, if_false, List.nil_append]
    rw [integerParse_decimal n _ (natToDec_allDigit _) (integerForm_natToDec _), decStrVal_natToDec, ← hnat]
    have htb : ¬ (v.testBit (n - 1) = true) := fun h => hs (hsign.mp h)
    unfold magnitudePattern
    simp only [htb, if_false, Bool.false_eq_true]
    rw [Nat.mod_eq_of_lt hv, Nat.mod_eq_of_lt hv]

end UVerif.Text
