/-
  Lemmas/TextInteger — integer `to_hex` ↔ `parse`, and the decimal / hexadecimal scanners of `parse`.
-/
import UVerifProofs.Lemmas.TextPosit
import UVerif.Model.TextInteger

namespace UVerif.Text

theorem two_pow_eight_mul (j : Nat) : (2 : Nat) ^ (8 * j) = 16 ^ (2 * j) := by
  rw [show 8 * j = 4 * (2 * j) by omega, Nat.pow_mul]

/-- storing the byte made of nibbles `2j` and `2j+1` of `v` on top of the low `j` bytes of `v`. -/
theorem setByte_low (v j : Nat) :
    setByte (v % 2 ^ (8 * j)) j (v / 16 ^ (2 * j) % 16 + v / 16 ^ (2 * j + 1) % 16 * 16) = v % 2 ^ (8 * (j + 1)) := by
  unfold setByte
  have hP : 0 < 2 ^ (8 * j) := Nat.two_pow_pos _
  have e1 : (2 : Nat) ^ (8 * j + 8) = 2 ^ (8 * j) * 256 := by rw [Nat.pow_add]
  have e2 : 16 ^ (2 * j) = 2 ^ (8 * j) := (two_pow_eight_mul j).symm
  have e3 : 16 ^ (2 * j + 1) = 2 ^ (8 * j) * 16 := by rw [Nat.pow_succ, e2]
  rw [show 8 * (j + 1) = 8 * j + 8 by omega, e1, e2, e3]
  generalize 2 ^ (8 * j) = P at *
  have hw : v % P < P := Nat.mod_lt _ hP
  have h1 : v % P % P = v % P := Nat.mod_eq_of_lt hw
  have h2 : v % P / (P * 256) = 0 := Nat.div_eq_of_lt (by nlinarith)
  have h3 : v / (P * 16) = v / P / 16 := by rw [Nat.div_div_eq_div_mul]
  rw [h1, h2, h3, Nat.mod_mul]
  generalize v / P = X
  have hb : (X % 16 + X / 16 % 16 * 16) % 256 = X % 256 := by omega
  rw [hb]
  ring

theorem reverse_hexDigits_succ (v k : Nat) : (hexDigits v (k + 1)).reverse = (hexDigits v k).reverse ++ [v / 16 ^ k % 16] := by
  simp [hexDigits]

/-- the hexadecimal scanner over the `2j` low nibbles (as produced by `to_hex`), `j ≤ nbits/8` whole bytes. -/
theorem intHexLoop_bytes (n mb v : Nat) :
    ∀ (j : Nat) (rest : List Char) (byte0 : Nat), j ≤ mb →
      ∃ byte', intHexLoop n mb (((hexDigits v (2 * j)).map hexUpperChar).reverse ++ rest) byte0 0 false 0
        = intHexLoop n mb rest byte' j false (v % 2 ^ (8 * j))
  | 0, rest, byte0, _ => ⟨byte0, by simp [hexDigits, Nat.mod_one]⟩
  | j + 1, rest, byte0, hj => by
    have hlt : j < mb := by omega
    have hd0 : v / 16 ^ (2 * j) % 16 < 16 := Nat.mod_lt _ (by decide)
    have hd1 : v / 16 ^ (2 * j + 1) % 16 < 16 := Nat.mod_lt _ (by decide)
    obtain ⟨b', hb'⟩ := intHexLoop_bytes n mb v j
      (hexUpperChar (v / 16 ^ (2 * j) % 16) :: hexUpperChar (v / 16 ^ (2 * j + 1) % 16) :: rest) byte0 (by omega)
    refine ⟨v / 16 ^ (2 * j) % 16 + v / 16 ^ (2 * j + 1) % 16 * 16, ?_⟩
    have hlist : ((hexDigits v (2 * (j + 1))).map hexUpperChar).reverse ++ rest
        = ((hexDigits v (2 * j)).map hexUpperChar).reverse ++
            (hexUpperChar (v / 16 ^ (2 * j) % 16) :: hexUpperChar (v / 16 ^ (2 * j + 1) % 16) :: rest) := by
      rw [show 2 * (j + 1) = 2 * j + 1 + 1 by omega]
      simp [hexDigits]
    rw [hlist, hb']
    -- first nibble of the byte
    rw [intHexLoop]
    have hnlt : ¬ (j ≥ mb) := by omega
    simp only [hnlt, if_false, hexUpperChar_ne_tick _ hd0, (hexUpperChar_ne_x _ hd0).1, (hexUpperChar_ne_x _ hd0).2,
      or_self, hexVal_hexUpperChar _ hd0, Option.getD_some, Bool.false_eq_true]
    -- second nibble completes it
    rw [intHexLoop]
    simp only [hnlt, if_false, hexUpperChar_ne_tick _ hd1, (hexUpperChar_ne_x _ hd1).1, (hexUpperChar_ne_x _ hd1).2,
      or_self, hexVal_hexUpperChar _ hd1, Option.getD_some, if_true]
    rw [setByte_low]

/-- once `nbits/8` bytes are complete the scanner stops, whatever follows. -/
theorem intHexLoop_full (n mb : Nat) (rest : List Char) (byte value : Nat) (odd : Bool) :
    intHexLoop n mb rest byte mb odd value = (value, true) := by
  cases rest with
  | nil => rfl
  | cons c cs => rw [intHexLoop]; simp

theorem integerForm_toHex (H : List Char) (hne : H ≠ []) (hH : ∀ c ∈ H, isHexDigit c = true) :
    integerForm ('0' :: 'x' :: H) = .hex := by
  unfold integerForm
  have hds : dropSigns ('0' :: 'x' :: H) = '0' :: 'x' :: H := by simp [dropSigns]
  rw [hds]
  have hall : allB (fun c => isHexDigit c || c == '\'') H = true :=
    allB_of_forall _ H (fun c hc => by simp [hH c hc])
  have hemp : H.isEmpty = false := by cases H <;> simp_all
  simp [hall, hemp]

/-- **integer hex round trip**: `parse(to_hex(x)) = x` whenever the width is a whole number of bytes. -/
theorem integerParse_toHex (n v : Nat) (h8 : 8 ∣ n) (hn : 0 < n) (hv : v < 2 ^ n) :
    integerParse n (integerToHex n v) = some v := by
  obtain ⟨j, rfl⟩ := h8
  have hj : 1 ≤ j := by omega
  have hnib : 1 + (8 * j - 1) / 4 = 2 * j := by omega
  unfold integerToHex
  rw [Nat.mod_eq_of_lt hv, hnib]
  simp only [List.cons_append, List.nil_append]
  have hH : ∀ c ∈ (hexDigits v (2 * j)).map hexUpperChar, isHexDigit c = true := by
    intro c hc
    obtain ⟨d, hd, rfl⟩ := List.mem_map.mp hc
    exact isHexDigit_hexUpperChar d (hexDigits_lt v _ d hd)
  have hne : (hexDigits v (2 * j)).map hexUpperChar ≠ [] := by
    intro h
    have := congrArg List.length h
    simp [length_hexDigits] at this
    omega
  unfold integerParse
  rw [integerForm_toHex _ hne hH]
  simp only
  have hrev : ('0' :: 'x' :: (hexDigits v (2 * j)).map hexUpperChar).reverse
      = ((hexDigits v (2 * j)).map hexUpperChar).reverse ++ ['x', '0'] := by simp
  rw [hrev, show 8 * j / 8 = j by omega]
  obtain ⟨b', hb'⟩ := intHexLoop_bytes (8 * j) j v j ['x', '0'] 0 (Nat.le_refl _)
  rw [hb', intHexLoop_full]
  simp [Nat.mod_eq_of_lt hv]


/-! ### the decimal scanner -/

theorem mod_helper (A B L m : Nat) : (A % m + B % m * L) % m = (A + B * L) % m := by
  conv_lhs => rw [Nat.add_mod, Nat.mul_mod, Nat.mod_mod, Nat.mod_mod]
  conv_rhs => rw [Nat.add_mod, Nat.mul_mod]

theorem isDigit_ne_sign (c : Char) (h : isDigit c = true) : c ≠ '-' ∧ c ≠ '+' := by
  constructor <;> (intro hc; subst hc; revert h; decide)

/-- little-endian value of a list of digit characters. -/
def leDec (l : List Char) : Nat := decVal (l.map digitVal)

/-- the decimal scanner over a run of digit characters, least significant first. -/
theorem intDecLoop_digits (n : Nat) :
    ∀ (l rest : List Char) (value scale : Nat), (∀ c ∈ l, isDigit c = true) → value < 2 ^ n → scale < 2 ^ n →
      intDecLoop n (l ++ rest) value scale
        = intDecLoop n rest ((value + scale * leDec l) % 2 ^ n) (scale * 10 ^ l.length % 2 ^ n)
  | [], rest, value, scale, _, hv, hs => by
    simp [leDec, decVal, Nat.mod_eq_of_lt hv, Nat.mod_eq_of_lt hs]
  | c :: cs, rest, value, scale, hd, hv, hs => by
    have hc := hd c (List.mem_cons_self ..)
    have hm : 0 < 2 ^ n := Nat.two_pow_pos n
    simp only [List.cons_append, intDecLoop, (isDigit_ne_sign c hc).1, (isDigit_ne_sign c hc).2, if_false]
    rw [intDecLoop_digits n cs rest _ _ (fun d hd' => hd d (List.mem_cons_of_mem _ hd')) (Nat.mod_lt _ hm) (Nat.mod_lt _ hm)]
    congr 1
    · rw [mod_helper]
      simp only [leDec, List.map_cons, decVal]
      congr 1; ring
    · rw [Nat.mul_mod, Nat.mod_mod, ← Nat.mul_mod]
      simp only [List.length_cons]
      congr 1; ring

theorem leDec_reverse (s : List Char) : leDec s.reverse = decStrVal s := by
  unfold leDec decStrVal
  rw [List.map_reverse, ← digitsToNat_reverse, List.reverse_reverse]

/-- **parsing an unsigned decimal digit string**: the value of the string reduced mod 2^nbits.
    (`integerForm s = .decimal` excludes the texts that the octal regex captures first.) -/
theorem integerParse_decimal (n : Nat) (s : List Char) (hd : ∀ c ∈ s, isDigit c = true)
    (hform : integerForm s = .decimal) : integerParse n s = some (decStrVal s % 2 ^ n) := by
  unfold integerParse
  rw [hform]
  simp only
  have hm : 0 < 2 ^ n := Nat.two_pow_pos n
  have h := intDecLoop_digits n s.reverse [] 0 (1 % 2 ^ n) (fun c hc => hd c (List.mem_reverse.mp hc)) hm (Nat.mod_lt _ hm)
  rw [List.append_nil] at h
  rw [h, intDecLoop, leDec_reverse]
  congr 1
  rw [Nat.zero_add, Nat.mul_mod, Nat.mod_mod, ← Nat.mul_mod, Nat.one_mul]

/-- a text of digits that does not start with `0` is a decimal text. -/
theorem integerForm_decimal (c : Char) (cs : List Char) (hc : isDigit c = true) (hc0 : c ≠ '0')
    (hd : ∀ d ∈ cs, isDigit d = true) : integerForm (c :: cs) = .decimal := by
  unfold integerForm
  have hs := isDigit_ne_sign c hc
  have hds : dropSigns (c :: cs) = c :: cs := by simp [dropSigns, hs.1, hs.2]
  rw [hds]
  have hall : allB isDigit (c :: cs) = true :=
    allB_of_forall _ _ (fun d hd' => by rcases List.mem_cons.mp hd' with rfl | h; exact hc; exact hd d h)
  dsimp only
  split
  · rename_i heq
    injection heq with h1 _
    exact absurd h1 hc0
  · simp [hall]

/-- a leading `-`: the two's complement negation of the magnitude. -/
theorem integerParse_decimal_neg (n : Nat) (s : List Char) (hd : ∀ c ∈ s, isDigit c = true)
    (hform : integerForm ('-' :: s) = .decimal) : integerParse n ('-' :: s) = some (negN n (decStrVal s % 2 ^ n)) := by
  unfold integerParse
  rw [hform]
  simp only
  have hm : 0 < 2 ^ n := Nat.two_pow_pos n
  have h := intDecLoop_digits n s.reverse ['-'] 0 (1 % 2 ^ n) (fun c hc => hd c (List.mem_reverse.mp hc)) hm (Nat.mod_lt _ hm)
  rw [List.reverse_cons, h]
  simp only [intDecLoop, if_true, leDec_reverse]
  congr 2
  rw [Nat.zero_add, Nat.mul_mod, Nat.mod_mod, ← Nat.mul_mod, Nat.one_mul]

/-- `negN` is the additive inverse mod 2^nbits. -/
theorem negN_add_self (n a : Nat) : (negN n a + a) % 2 ^ n = 0 := by
  unfold negN
  have hm : 0 < 2 ^ n := Nat.two_pow_pos n
  have hlt : a % 2 ^ n < 2 ^ n := Nat.mod_lt _ hm
  rw [Nat.add_mod, Nat.mod_mod]
  by_cases h0 : a % 2 ^ n = 0
  · simp [h0]
  · have : (2 ^ n - a % 2 ^ n) % 2 ^ n = 2 ^ n - a % 2 ^ n := Nat.mod_eq_of_lt (by omega)
    rw [this, show 2 ^ n - a % 2 ^ n + a % 2 ^ n = 2 ^ n by omega, Nat.mod_self]


/-! ### the hexadecimal scanner on arbitrary digit strings -/

/-- nibble value of a character (0 for non-hex characters). -/
def hv (c : Char) : Nat := (hexVal? c).getD 0

/-- little-endian value of a list of hex digit characters. -/
def leHex : List Char → Nat
  | [] => 0
  | c :: cs => hv c + 16 * leHex cs

theorem hexVal_lt (c : Char) (d : Nat) (h : hexVal? c = some d) : d < 16 := by
  unfold hexVal? at h
  simp only at h
  split at h
  · injection h with h; omega
  · split at h
    · injection h with h; omega
    · split at h
      · injection h with h; omega
      · cases h

theorem isHexDigit_facts (c : Char) (h : isHexDigit c = true) :
    c ≠ '\'' ∧ c ≠ 'x' ∧ c ≠ 'X' ∧ hexVal? c = some (hv c) ∧ hv c < 16 := by
  refine ⟨?_, ?_, ?_, ?_, ?_⟩
  · intro hc; subst hc; revert h; decide
  · intro hc; subst hc; revert h; decide
  · intro hc; subst hc; revert h; decide
  · unfold isHexDigit at h
    unfold hv
    cases hx : hexVal? c with
    | none => simp [hx] at h
    | some d => simp
  · unfold isHexDigit at h
    unfold hv
    cases hx : hexVal? c with
    | none => simp [hx] at h
    | some d => simpa using hexVal_lt c d hx

theorem setByte_fresh (value idx b : Nat) (hv' : value < 2 ^ (8 * idx)) (hb : b < 256) :
    setByte value idx b = value + b * 2 ^ (8 * idx) := by
  unfold setByte
  have hP : 0 < 2 ^ (8 * idx) := Nat.two_pow_pos _
  have e1 : (2 : Nat) ^ (8 * idx + 8) = 2 ^ (8 * idx) * 256 := by rw [Nat.pow_add]
  rw [e1]
  generalize 2 ^ (8 * idx) = P at *
  rw [Nat.mod_eq_of_lt hv', Nat.mod_eq_of_lt hb, Nat.div_eq_of_lt (by nlinarith)]
  simp

theorem intHexLoop_general (n mb : Nat) :
    ∀ (k : Nat) (C : List Char), C.length ≤ k → (∀ c ∈ C, isHexDigit c = true) →
      ∀ (idx value byte : Nat), idx ≤ mb → value < 2 ^ (8 * idx) →
        intHexLoop n mb (C ++ ['x', '0']) byte idx false value
          = (value + leHex C % 2 ^ (8 * (mb - idx)) * 2 ^ (8 * idx), true) := by
  intro k
  induction k with
  | zero =>
    intro C hk _ idx value byte hidx hval
    have : C = [] := List.length_eq_zero_iff.mp (by omega)
    subst this
    by_cases hfull : idx = mb
    · subst hfull
      simp [intHexLoop, leHex]
    · have hlt : ¬ (idx ≥ mb) := by omega
      simp [intHexLoop, hlt, leHex]
  | succ k ih =>
    intro C hk hC idx value byte hidx hval
    by_cases hfull : idx = mb
    · subst hfull
      have : C ++ ['x', '0'] = (C ++ ['x', '0']).head (by simp) :: (C ++ ['x', '0']).tail := by simp
      rw [this, intHexLoop]
      simp [Nat.mod_one]
    · have hlt : ¬ (idx ≥ mb) := by omega
      match C, hk, hC with
      | [], _, _ => simp [intHexLoop, hlt, leHex]
      | [c], _, hC =>
        obtain ⟨h1, h2, h3, h4, h5⟩ := isHexDigit_facts c (hC c (List.mem_cons_self ..))
        simp only [List.cons_append, List.nil_append]
        rw [intHexLoop]
        simp only [hlt, if_false, h1, h2, h3, or_self, h4, Option.getD_some, Bool.false_eq_true]
        rw [intHexLoop]
        simp only [hlt, if_false, show ('x' : Char) ≠ '\'' by decide, true_or, if_true]
        rw [setByte_fresh value idx (hv c) hval (by omega)]
        have hM : hv c < 2 ^ (8 * (mb - idx)) := by
          have : (2 : Nat) ^ 8 ≤ 2 ^ (8 * (mb - idx)) := Nat.pow_le_pow_right (by decide) (by omega)
          omega
        simp [leHex, Nat.mod_eq_of_lt hM]
      | c0 :: c1 :: C', hk, hC =>
        obtain ⟨a1, a2, a3, a4, a5⟩ := isHexDigit_facts c0 (hC c0 (List.mem_cons_self ..))
        obtain ⟨b1, b2, b3, b4, b5⟩ := isHexDigit_facts c1 (hC c1 (List.mem_cons_of_mem _ (List.mem_cons_self ..)))
        simp only [List.cons_append]
        rw [intHexLoop]
        simp only [hlt, if_false, a1, a2, a3, or_self, a4, Option.getD_some, Bool.false_eq_true]
        rw [intHexLoop]
        simp only [hlt, if_false, b1, b2, b3, or_self, b4, Option.getD_some, if_true]
        have hbyte : hv c0 + hv c1 * 16 < 256 := by omega
        rw [setByte_fresh value idx _ hval hbyte]
        have hval' : value + (hv c0 + hv c1 * 16) * 2 ^ (8 * idx) < 2 ^ (8 * (idx + 1)) := by
          rw [show 8 * (idx + 1) = 8 * idx + 8 by omega, Nat.pow_add]
          generalize 2 ^ (8 * idx) = P at *
          nlinarith
        rw [ih C' (by simp at hk; omega) (fun c hc => hC c (List.mem_cons_of_mem _ (List.mem_cons_of_mem _ hc)))
          (idx + 1) _ _ (by omega) hval']
        congr 1
        have hM : (2 : Nat) ^ (8 * (mb - idx)) = 256 * 2 ^ (8 * (mb - (idx + 1))) := by
          rw [show 8 * (mb - idx) = 8 + 8 * (mb - (idx + 1)) by omega, Nat.pow_add]
        have hP : (2 : Nat) ^ (8 * (idx + 1)) = 2 ^ (8 * idx) * 256 := by
          rw [show 8 * (idx + 1) = 8 * idx + 8 by omega, Nat.pow_add]
        rw [hM, hP]
        simp only [leHex]
        generalize 2 ^ (8 * (mb - (idx + 1))) = M
        generalize 2 ^ (8 * idx) = P
        generalize leHex C' = L
        rw [Nat.mod_mul]
        have e1 : (hv c0 + 16 * (hv c1 + 16 * L)) % 256 = hv c0 + hv c1 * 16 := by omega
        have e2 : (hv c0 + 16 * (hv c1 + 16 * L)) / 256 = L := by omega
        rw [e1, e2]
        ring

theorem leHex_append_singleton (A : List Char) (c : Char) : leHex (A ++ [c]) = leHex A + 16 ^ A.length * hv c := by
  induction A with
  | nil => simp [leHex]
  | cons a as ih => simp only [List.cons_append, leHex, ih, List.length_cons]; ring

theorem hexStrVal_eq : ∀ (hs : List Char) (acc : Nat), (∀ c ∈ hs, isHexDigit c = true) →
    hexStrVal? hs acc = some (acc * 16 ^ hs.length + leHex hs.reverse)
  | [], acc, _ => by simp [hexStrVal?, leHex]
  | c :: cs, acc, h => by
    obtain ⟨_, _, _, h4, _⟩ := isHexDigit_facts c (h c (List.mem_cons_self ..))
    simp only [hexStrVal?, h4]
    rw [hexStrVal_eq cs _ (fun d hd => h d (List.mem_cons_of_mem _ hd)), List.reverse_cons, leHex_append_singleton]
    simp only [List.length_cons, List.length_reverse]
    congr 1; ring

/-- **parsing an unsigned hexadecimal digit string** `0x…` of ANY length into a width that is a whole number of
    bytes: the value of the digit string reduced mod 2^nbits. -/
theorem integerParse_hex (n : Nat) (hs : List Char) (V : Nat) (h8 : 8 ∣ n) (hne : hs ≠ [])
    (hh : ∀ c ∈ hs, isHexDigit c = true) (hV : hexStrVal? hs 0 = some V) :
    integerParse n ('0' :: 'x' :: hs) = some (V % 2 ^ n) := by
  obtain ⟨j, rfl⟩ := h8
  rw [hexStrVal_eq hs 0 hh] at hV
  simp only [Nat.zero_mul, Nat.zero_add, Option.some.injEq] at hV
  unfold integerParse
  rw [integerForm_toHex hs hne hh]
  simp only
  have hrev : ('0' :: 'x' :: hs).reverse = hs.reverse ++ ['x', '0'] := by simp
  rw [hrev, show 8 * j / 8 = j by omega]
  rw [intHexLoop_general (8 * j) j hs.reverse.length hs.reverse (Nat.le_refl _)
    (fun c hc => hh c (List.mem_reverse.mp hc)) 0 0 0 (Nat.zero_le _) (by simp)]
  simp only [Nat.zero_add, Nat.sub_zero, Nat.mul_zero, Nat.pow_zero, Nat.mul_one, hV]
  simp

/-- the `0x…` text of `to_hex` (integer, cfloat, fixpnt: one nibble loop) is lossless: its digits read back as the
    encoding — every width. -/
theorem toHex_lossless (n v : Nat) (hn : 0 < n) (hv : v < 2 ^ n) :
    hexStrVal? ((integerToHex n v).drop 2) 0 = some v := by
  unfold integerToHex
  simp only [List.cons_append, List.nil_append, List.drop_succ_cons, List.drop_zero]
  rw [Nat.mod_eq_of_lt hv, hexStrVal_hexDigits hexUpperChar hexVal_hexUpperChar]
  have hpow : v < 16 ^ (1 + (n - 1) / 4) := by
    have h1 : (2 : Nat) ^ n ≤ 2 ^ (4 * (1 + (n - 1) / 4)) := Nat.pow_le_pow_right (by decide) (by omega)
    have h2 : (2 : Nat) ^ (4 * (1 + (n - 1) / 4)) = 16 ^ (1 + (n - 1) / 4) := by rw [Nat.pow_mul]
    omega
  simp [Nat.mod_eq_of_lt hpow]

end UVerif.Text
