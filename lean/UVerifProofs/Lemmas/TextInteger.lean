/-
  Lemmas/TextInteger — integer `to_hex` ↔ `parse`, and the decimal / hexadecimal scanners of `parse`
  (the hexadecimal scanner as repaired: ⌈nbits/8⌉ bytes, clipped top byte, scan up to the sign).
-/
import UVerifProofs.Lemmas.TextPosit
import UVerif.Model.TextInteger

namespace UVerif.Text

theorem integerForm_toHex (H : List Char) (hne : H ≠ []) (hH : ∀ c ∈ H, isHexDigit c = true) :
    integerForm ('0' :: 'x' :: H) = .hex := by
  unfold integerForm
  have hds : dropSigns ('0' :: 'x' :: H) = '0' :: 'x' :: H := by simp [dropSigns]
  rw [hds]
  have hall : allB (fun c => isHexDigit c || c == '\'') H = true :=
    allB_of_forall _ H (fun c hc => by simp [hH c hc])
  have hemp : H.isEmpty = false := by cases H <;> simp_all
  simp [hall, hemp]


/-! ### the decimal scanner -/

theorem mod_helper (A B L m : Nat) : (A % m + B % m * L) % m = (A + B * L) % m := by
  conv_lhs => rw [Nat.add_mod, Nat.mul_mod, Nat.mod_mod, Nat.mod_mod]
  conv_rhs => rw [Nat.add_mod, Nat.mul_mod]

theorem isDigit_ne_sign (c : Char) (h : isDigit c = true) : c ≠ '-' ∧ c ≠ '+' := by
  constructor <;> (intro hc; subst hc; revert h; decide)

/-- little-endian value of a list of digit characters. -/
def leDec (l : List Char) : Nat := decVal (l.map digitVal)

/-- the decimal scanner over a run of digit characters, least significant first. -/
theorem intDecLoop_digits (n : Nat) :
    ∀ (l rest : List Char) (value scale : Nat), (∀ c ∈ l, isDigit c = true) → value < 2 ^ n → scale < 2 ^ n →
      intDecLoop n (l ++ rest) value scale
        = intDecLoop n rest ((value + scale * leDec l) % 2 ^ n) (scale * 10 ^ l.length % 2 ^ n)
  | [], rest, value, scale, _, hv, hs => by
    simp [leDec, decVal, Nat.mod_eq_of_lt hv, Nat.mod_eq_of_lt hs]
  | c :: cs, rest, value, scale, hd, hv, hs => by
    have hc := hd c (List.mem_cons_self ..)
    have hm : 0 < 2 ^ n := Nat.two_pow_pos n
    simp only [List.cons_append, intDecLoop, (isDigit_ne_sign c hc).1, (isDigit_ne_sign c hc).2, if_false]
    rw [intDecLoop_digits n cs rest _ _ (fun d hd' => hd d (List.mem_cons_of_mem _ hd')) (Nat.mod_lt _ hm) (Nat.mod_lt _ hm)]
    congr 1
    · rw [mod_helper]
      simp only [leDec, List.map_cons, decVal]
      congr 1; ring
    · rw [Nat.mul_mod, Nat.mod_mod, ← Nat.mul_mod]
      simp only [List.length_cons]
      congr 1; ring

theorem leDec_reverse (s : List Char) : leDec s.reverse = decStrVal s := by
  unfold leDec decStrVal
  rw [List.map_reverse, ← digitsToNat_reverse, List.reverse_reverse]

/-- **parsing an unsigned decimal digit string**: the value of the string reduced mod 2^nbits.
    (`integerForm s = .decimal` excludes the texts that the octal regex captures first.) -/
theorem integerParse_decimal (n : Nat) (s : List Char) (hd : ∀ c ∈ s, isDigit c = true)
    (hform : integerForm s = .decimal) : integerParse n s = some (decStrVal s % 2 ^ n) := by
  unfold integerParse
  rw [hform]
  simp only
  have hm : 0 < 2 ^ n := Nat.two_pow_pos n
  have h := intDecLoop_digits n s.reverse [] 0 (1 % 2 ^ n) (fun c hc => hd c (List.mem_reverse.mp hc)) hm (Nat.mod_lt _ hm)
  rw [List.append_nil] at h
  rw [h, intDecLoop, leDec_reverse]
  congr 1
  rw [Nat.zero_add, Nat.mul_mod, Nat.mod_mod, ← Nat.mul_mod, Nat.one_mul]

/-- a text of digits that does not start with `0` is a decimal text. -/
theorem integerForm_decimal (c : Char) (cs : List Char) (hc : isDigit c = true) (hc0 : c ≠ '0')
    (hd : ∀ d ∈ cs, isDigit d = true) : integerForm (c :: cs) = .decimal := by
  unfold integerForm
  have hs := isDigit_ne_sign c hc
  have hds : dropSigns (c :: cs) = c :: cs := by simp [dropSigns, hs.1, hs.2]
  rw [hds]
  have hall : allB isDigit (c :: cs) = true :=
    allB_of_forall _ _ (fun d hd' => by rcases List.mem_cons.mp hd' with rfl | h; exact hc; exact hd d h)
  dsimp only
  split
  · rename_i heq
    injection heq with h1 _
    exact absurd h1 hc0
  · simp [hall]

/-- a leading `-`: the two's complement negation of the magnitude. -/
theorem integerParse_decimal_neg (n : Nat) (s : List Char) (hd : ∀ c ∈ s, isDigit c = true)
    (hform : integerForm ('-' :: s) = .decimal) : integerParse n ('-' :: s) = some (negN n (decStrVal s % 2 ^ n)) := by
  unfold integerParse
  rw [hform]
  simp only
  have hm : 0 < 2 ^ n := Nat.two_pow_pos n
  have h := intDecLoop_digits n s.reverse ['-'] 0 (1 % 2 ^ n) (fun c hc => hd c (List.mem_reverse.mp hc)) hm (Nat.mod_lt _ hm)
  rw [List.reverse_cons, h]
  simp only [intDecLoop, if_true, leDec_reverse]
  congr 2
  rw [Nat.zero_add, Nat.mul_mod, Nat.mod_mod, ← Nat.mul_mod, Nat.one_mul]

/-- `negN` is the additive inverse mod 2^nbits. -/
theorem negN_add_self (n a : Nat) : (negN n a + a) % 2 ^ n = 0 := by
  unfold negN
  have hm : 0 < 2 ^ n := Nat.two_pow_pos n
  have hlt : a % 2 ^ n < 2 ^ n := Nat.mod_lt _ hm
  rw [Nat.add_mod, Nat.mod_mod]
  by_cases h0 : a % 2 ^ n = 0
  · simp [h0]
  · have : (2 ^ n - a % 2 ^ n) % 2 ^ n = 2 ^ n - a % 2 ^ n := Nat.mod_eq_of_lt (by omega)
    rw [this, show 2 ^ n - a % 2 ^ n + a % 2 ^ n = 2 ^ n by omega, Nat.mod_self]


/-! ### the hexadecimal scanner on arbitrary digit strings -/

/-- nibble value of a character (0 for non-hex characters). -/
def hv (c : Char) : Nat := (hexVal? c).getD 0

/-- little-endian value of a list of hex digit characters. -/
def leHex : List Char → Nat
  | [] => 0
  | c :: cs => hv c + 16 * leHex cs

theorem hexVal_lt (c : Char) (d : Nat) (h : hexVal? c = some d) : d < 16 := by
  unfold hexVal? at h
  simp only at h
  split at h
  · injection h with h; omega
  · split at h
    · injection h with h; omega
    · split at h
      · injection h with h; omega
      · cases h

theorem isHexDigit_facts (c : Char) (h : isHexDigit c = true) :
    c ≠ '\'' ∧ c ≠ 'x' ∧ c ≠ 'X' ∧ hexVal? c = some (hv c) ∧ hv c < 16 := by
  refine ⟨?_, ?_, ?_, ?_, ?_⟩
  · intro hc; subst hc; revert h; decide
  · intro hc; subst hc; revert h; decide
  · intro hc; subst hc; revert h; decide
  · unfold isHexDigit at h
    unfold hv
    cases hx : hexVal? c with
    | none => simp [hx] at h
    | some d => simp
  · unfold isHexDigit at h
    unfold hv
    cases hx : hexVal? c with
    | none => simp [hx] at h
    | some d => simpa using hexVal_lt c d hx

/-- storing into a byte position above everything written so far: the (clipped) byte is simply added. -/
theorem setByte_fresh (n value idx b : Nat) (hv' : value < 2 ^ (8 * idx)) :
    setByte n value idx b = value + b % 2 ^ (min (8 * idx + 8) n - 8 * idx) * 2 ^ (8 * idx) := by
  unfold setByte
  simp only
  generalize min (8 * idx + 8) n - 8 * idx = cnt
  have hle : (2 : Nat) ^ (8 * idx) ≤ 2 ^ (8 * idx + cnt) := Nat.pow_le_pow_right (by decide) (by omega)
  rw [Nat.mod_eq_of_lt hv', Nat.div_eq_of_lt (by omega)]
  simp

/-- a byte clipped at the width is the byte reduced to the bits that are left. -/
theorem byte_clip (b lo n : Nat) (hb : b < 256) : b % 2 ^ (min (lo + 8) n - lo) = b % 2 ^ (n - lo) := by
  by_cases h : lo + 8 ≤ n
  · rw [Nat.min_eq_left h, show lo + 8 - lo = 8 by omega]
    have : (2 : Nat) ^ 8 ≤ 2 ^ (n - lo) := Nat.pow_le_pow_right (by decide) (by omega)
    rw [Nat.mod_eq_of_lt (by omega), Nat.mod_eq_of_lt (by omega)]
  · rw [Nat.min_eq_right (by omega)]

/-- the guarded store of the repaired scanner (`if (byteIndex < maxByteIndex) setbyte(…)`, maxByteIndex = ⌈n/8⌉):
    whatever the index, the byte contributes exactly its bits below the width. -/
theorem store_byte (n value idx b : Nat) (hv' : value < 2 ^ (8 * idx)) (hb : b < 256) :
    (if idx < (n + 7) / 8 then setByte n value idx b else value) = value + b % 2 ^ (n - 8 * idx) * 2 ^ (8 * idx) := by
  by_cases h : idx < (n + 7) / 8
  · rw [if_pos h, setByte_fresh n value idx b hv', byte_clip b (8 * idx) n hb]
  · rw [if_neg h, show n - 8 * idx = 0 by omega]
    simp [Nat.mod_one]

/-- what the scanner does after the `x`: the obligatory `0`, then nothing / `+` / `-`. -/
def hexTail (n : Nat) (cs : List Char) (value : Nat) : Nat × Bool :=
  match cs with
  | '0' :: rest =>
    match rest with
    | [] => (value, true)
    | '+' :: _ => (value, true)
    | '-' :: _ => (negN n value, true)
    | _ => (value, false)
  | _ => (value, false)

theorem intHexLoop_x (n mb : Nat) (cs : List Char) (byte idx value : Nat) :
    intHexLoop n mb ('x' :: cs) byte idx false value = hexTail n cs value := by
  rw [intHexLoop]
  simp only [show ('x' : Char) ≠ '\'' by decide, if_false, true_or, if_true, Bool.false_eq_true, false_and]
  rfl

theorem intHexLoop_x_odd (n mb : Nat) (cs : List Char) (byte idx value : Nat) :
    intHexLoop n mb ('x' :: cs) byte idx true value
      = hexTail n cs (if idx < mb then setByte n value idx byte else value) := by
  rw [intHexLoop]
  simp only [show ('x' : Char) ≠ '\'' by decide, if_false, true_or, if_true, true_and]
  rfl

/-- the repaired hexadecimal scanner over ANY run of hex digits (least significant first) followed by `x0` and
    the sign part: every digit below the width is stored, the rest is skipped, and the scan always reaches the `x`. -/
theorem intHexLoop_general (n : Nat) (tail : List Char) :
    ∀ (k : Nat) (C : List Char), C.length ≤ k → (∀ c ∈ C, isHexDigit c = true) →
      ∀ (idx value byte : Nat), value < 2 ^ (8 * idx) →
        intHexLoop n ((n + 7) / 8) (C ++ 'x' :: tail) byte idx false value
          = hexTail n tail (value + leHex C % 2 ^ (n - 8 * idx) * 2 ^ (8 * idx)) := by
  intro k
  induction k with
  | zero =>
    intro C hk _ idx value byte _
    have : C = [] := List.length_eq_zero_iff.mp (by omega)
    subst this
    simp [intHexLoop_x, leHex]
  | succ k ih =>
    intro C hk hC idx value byte hval
    match C, hk, hC with
    | [], _, _ => simp [intHexLoop_x, leHex]
    | [c], _, hC =>
      obtain ⟨h1, h2, h3, h4, h5⟩ := isHexDigit_facts c (hC c (List.mem_cons_self ..))
      simp only [List.cons_append, List.nil_append]
      rw [intHexLoop]
      simp only [if_false, h1, h2, h3, or_self, h4, Option.getD_some, Bool.false_eq_true]
      rw [intHexLoop_x_odd, store_byte n value idx (hv c) hval (by omega)]
      simp [leHex]
    | c0 :: c1 :: C', hk, hC =>
      obtain ⟨a1, a2, a3, a4, a5⟩ := isHexDigit_facts c0 (hC c0 (List.mem_cons_self ..))
      obtain ⟨b1, b2, b3, b4, b5⟩ := isHexDigit_facts c1 (hC c1 (List.mem_cons_of_mem _ (List.mem_cons_self ..)))
      simp only [List.cons_append]
      rw [intHexLoop]
      simp only [if_false, a1, a2, a3, or_self, a4, Option.getD_some, Bool.false_eq_true]
      rw [intHexLoop]
      simp only [if_false, b1, b2, b3, or_self, b4, Option.getD_some, if_true]
      have hbyte : hv c0 + hv c1 * 16 < 256 := by omega
      rw [store_byte n value idx _ hval hbyte]
      have hP : (2 : Nat) ^ (8 * (idx + 1)) = 2 ^ (8 * idx) * 256 := by
        rw [show 8 * (idx + 1) = 8 * idx + 8 by omega, Nat.pow_add]
      have hval' : value + (hv c0 + hv c1 * 16) % 2 ^ (n - 8 * idx) * 2 ^ (8 * idx) < 2 ^ (8 * (idx + 1)) := by
        rw [hP]
        have : (hv c0 + hv c1 * 16) % 2 ^ (n - 8 * idx) ≤ hv c0 + hv c1 * 16 := Nat.mod_le _ _
        generalize (hv c0 + hv c1 * 16) % 2 ^ (n - 8 * idx) = r at *
        generalize 2 ^ (8 * idx) = P at *
        nlinarith
      rw [ih C' (by simp at hk; omega) (fun c hc => hC c (List.mem_cons_of_mem _ (List.mem_cons_of_mem _ hc)))
        (idx + 1) _ _ hval']
      congr 1
      rw [hP]
      simp only [leHex]
      generalize leHex C' = L
      generalize 2 ^ (8 * idx) = P
      obtain ⟨m, hm⟩ : ∃ m, m = n - 8 * idx := ⟨_, rfl⟩
      rw [show n - 8 * (idx + 1) = m - 8 by omega, ← hm]
      by_cases h8 : 8 ≤ m
      · have hM : (2 : Nat) ^ m = 256 * 2 ^ (m - 8) := by
          rw [show m = 8 + (m - 8) by omega, Nat.pow_add, show 8 + (m - 8) - 8 = m - 8 by omega]
        have hMpos : 0 < 2 ^ (m - 8) := Nat.two_pow_pos _
        rw [hM]
        generalize 2 ^ (m - 8) = M at *
        have e0 : (hv c0 + 16 * (hv c1 + 16 * L)) % (256 * M)
            = (hv c0 + 16 * (hv c1 + 16 * L)) % 256 + 256 * ((hv c0 + 16 * (hv c1 + 16 * L)) / 256 % M) := Nat.mod_mul
        have e1 : (hv c0 + 16 * (hv c1 + 16 * L)) % 256 = hv c0 + hv c1 * 16 := by omega
        have e2 : (hv c0 + 16 * (hv c1 + 16 * L)) / 256 = L := by omega
        have e3 : (hv c0 + hv c1 * 16) % (256 * M) = hv c0 + hv c1 * 16 := Nat.mod_eq_of_lt (by nlinarith)
        rw [e0, e1, e2, e3]
        ring
      · have hm8 : m < 8 := by omega
        rw [show m - 8 = 0 by omega]
        simp only [Nat.pow_zero, Nat.mod_one, Nat.zero_mul, Nat.add_zero]
        congr 2
        have h256 : 256 = 2 ^ m * 2 ^ (8 - m) := by
          rw [← Nat.pow_add, show m + (8 - m) = 8 by omega]
        have hsplit : hv c0 + 16 * (hv c1 + 16 * L) = (hv c0 + hv c1 * 16) + 2 ^ m * (2 ^ (8 - m) * L) := by
          rw [← Nat.mul_assoc, ← h256]; ring
        rw [hsplit, Nat.add_mul_mod_self_left]

theorem leHex_append_singleton (A : List Char) (c : Char) : leHex (A ++ [c]) = leHex A + 16 ^ A.length * hv c := by
  induction A with
  | nil => simp [leHex]
  | cons a as ih => simp only [List.cons_append, leHex, ih, List.length_cons]; ring

theorem hexStrVal_eq : ∀ (hs : List Char) (acc : Nat), (∀ c ∈ hs, isHexDigit c = true) →
    hexStrVal? hs acc = some (acc * 16 ^ hs.length + leHex hs.reverse)
  | [], acc, _ => by simp [hexStrVal?, leHex]
  | c :: cs, acc, h => by
    obtain ⟨_, _, _, h4, _⟩ := isHexDigit_facts c (h c (List.mem_cons_self ..))
    simp only [hexStrVal?, h4]
    rw [hexStrVal_eq cs _ (fun d hd => h d (List.mem_cons_of_mem _ hd)), List.reverse_cons, leHex_append_singleton]
    simp only [List.length_cons, List.length_reverse]
    congr 1; ring

theorem negN_mod (n a : Nat) : negN n (a % 2 ^ n) = negN n a := by
  unfold negN; rw [Nat.mod_mod]

theorem negN_lt (n a : Nat) : negN n a < 2 ^ n := Nat.mod_lt _ (Nat.two_pow_pos n)

/-- the scanner on `[sign]0x<digits>`: value of the digit string mod 2^nbits, then the sign part. -/
theorem intHexLoop_text (n : Nat) (hs : List Char) (V : Nat) (tail : List Char)
    (hh : ∀ c ∈ hs, isHexDigit c = true) (hV : hexStrVal? hs 0 = some V) :
    intHexLoop n ((n + 7) / 8) (hs.reverse ++ 'x' :: tail) 0 0 false 0 = hexTail n tail (V % 2 ^ n) := by
  rw [hexStrVal_eq hs 0 hh] at hV
  simp only [Nat.zero_mul, Nat.zero_add, Option.some.injEq] at hV
  rw [intHexLoop_general n tail hs.reverse.length hs.reverse (Nat.le_refl _)
    (fun c hc => hh c (List.mem_reverse.mp hc)) 0 0 0 (by simp)]
  simp [hV]

/-- **parsing an unsigned hexadecimal digit string** `0x…` of ANY length into ANY width: the value of the digit
    string reduced mod 2^nbits. -/
theorem integerParse_hex (n : Nat) (hs : List Char) (V : Nat) (hne : hs ≠ [])
    (hh : ∀ c ∈ hs, isHexDigit c = true) (hV : hexStrVal? hs 0 = some V) :
    integerParse n ('0' :: 'x' :: hs) = some (V % 2 ^ n) := by
  unfold integerParse
  rw [integerForm_toHex hs hne hh]
  simp only
  have hrev : ('0' :: 'x' :: hs).reverse = hs.reverse ++ 'x' :: ['0'] := by simp
  rw [hrev, intHexLoop_text n hs V ['0'] hh hV]
  simp [hexTail]

/-- the `0x…` text of `to_hex` (integer, cfloat, fixpnt: one nibble loop) is lossless: its digits read back as the
    encoding — every width. -/
theorem toHex_lossless (n v : Nat) (hn : 0 < n) (hv : v < 2 ^ n) :
    hexStrVal? ((integerToHex n v).drop 2) 0 = some v := by
  unfold integerToHex
  simp only [List.cons_append, List.nil_append, List.drop_succ_cons, List.drop_zero]
  rw [Nat.mod_eq_of_lt hv, hexStrVal_hexDigits hexUpperChar hexVal_hexUpperChar]
  have hpow : v < 16 ^ (1 + (n - 1) / 4) := by
    have h1 : (2 : Nat) ^ n ≤ 2 ^ (4 * (1 + (n - 1) / 4)) := Nat.pow_le_pow_right (by decide) (by omega)
    have h2 : (2 : Nat) ^ (4 * (1 + (n - 1) / 4)) = 16 ^ (1 + (n - 1) / 4) := by rw [Nat.pow_mul]
    omega
  simp [Nat.mod_eq_of_lt hpow]

/-- **integer hex round trip**: `parse(to_hex(x)) = x` for EVERY width (a whole number of bytes or not). -/
theorem integerParse_toHex (n v : Nat) (hn : 0 < n) (hv : v < 2 ^ n) :
    integerParse n (integerToHex n v) = some v := by
  have hl := toHex_lossless n v hn hv
  unfold integerToHex at hl ⊢
  simp only [List.cons_append, List.nil_append, List.drop_succ_cons, List.drop_zero] at hl ⊢
  have hH : ∀ c ∈ (hexDigits (v % 2 ^ n) (1 + (n - 1) / 4)).map hexUpperChar, isHexDigit c = true := by
    intro c hc
    obtain ⟨d, hd, rfl⟩ := List.mem_map.mp hc
    exact isHexDigit_hexUpperChar d (hexDigits_lt _ _ d hd)
  have hne : (hexDigits (v % 2 ^ n) (1 + (n - 1) / 4)).map hexUpperChar ≠ [] := by
    intro h
    have := congrArg List.length h
    simp [length_hexDigits] at this
  rw [integerParse_hex n _ v hne hH hl, Nat.mod_eq_of_lt hv]

end UVerif.Text
