/-
  Lemmas/TextMarked — the nibble markers (`'`) that `to_binary(x, true)` inserts are consumed by both `assign`
  scanners, so the marked texts round-trip as well.
-/
import UVerifProofs.Lemmas.TextFloat

namespace UVerif.Text

/-- remove the nibble markers. -/
def untick (s : List Char) : List Char := s.filter (fun c => c != '\'')

theorem untick_cons_tick (s : List Char) : untick ('\'' :: s) = untick s := by simp [untick]
theorem untick_cons_other (c : Char) (s : List Char) (h : c ≠ '\'') : untick (c :: s) = c :: untick s := by
  simp [untick, h]
theorem untick_append (a b : List Char) : untick (a ++ b) = untick a ++ untick b := by simp [untick]
theorem untick_reverse (a : List Char) : untick a.reverse = (untick a).reverse := by simp [untick]

theorem fxLoop_untick (n r : Nat) : ∀ (s : List Char) (pos value : Nat),
    fxLoop n r s pos value = fxLoop n r (untick s) pos value
  | [], _, _ => rfl
  | c :: cs, pos, value => by
    by_cases ht : c = '\''
    · subst ht
      rw [untick_cons_tick, fxLoop]
      simp only [show ('\'' : Char) ≠ 'b' by decide, if_false, if_true]
      exact fxLoop_untick n r cs pos value
    · rw [untick_cons_other c cs ht, fxLoop, fxLoop]
      simp only [ht, if_false]
      split
      · rfl
      · split
        · split
          · rfl
          · exact fxLoop_untick n r cs pos value
        · split
          · exact fxLoop_untick n r cs _ _
          · exact fxLoop_untick n r cs _ _

theorem cfFilter_untick : ∀ (s : List Char), cfFilter s = cfFilter (untick s)
  | [] => rfl
  | c :: cs => by
    by_cases ht : c = '\''
    · subst ht
      rw [untick_cons_tick, cfFilter]
      simp only [show ¬ (('\'' : Char) = '0' ∨ ('\'' : Char) = '1' ∨ ('\'' : Char) = '.') by decide, if_false, if_true]
      exact cfFilter_untick cs
    · rw [untick_cons_other c cs ht, cfFilter, cfFilter, cfFilter_untick cs]

theorem untick_bitCharsMarked (v lo : Nat) : ∀ k, untick (bitCharsMarked v lo k) = bitCharsFrom v lo k
  | 0 => rfl
  | k + 1 => by
    rw [bitCharsMarked, bitCharsFrom, untick_cons_other _ _ (bitChar_ne_tick _), untick_append, untick_bitCharsMarked v lo k]
    split <;> simp [untick]

theorem untick_fxIntMarked (v rb : Nat) : ∀ k, untick (fxIntMarked v rb k) = bitCharsFrom v rb k
  | 0 => rfl
  | k + 1 => by
    rw [fxIntMarked, bitCharsFrom, untick_cons_other _ _ (bitChar_ne_tick _), untick_append, untick_fxIntMarked v rb k]
    split <;> simp [untick]

theorem untick_fxFracMarked (v rb : Nat) : ∀ k, untick (fxFracMarked v rb k) = bitCharsFrom v 0 k
  | 0 => rfl
  | k + 1 => by
    rw [fxFracMarked, bitCharsFrom, untick_cons_other _ _ (bitChar_ne_tick _), untick_append, untick_fxFracMarked v rb k]
    simp only [Nat.zero_add]
    split <;> simp [untick]

theorem untick_bitCharsFrom (v lo k : Nat) : untick (bitCharsFrom v lo k) = bitCharsFrom v lo k := by
  induction k with
  | zero => rfl
  | succ k ih => rw [bitCharsFrom, untick_cons_other _ _ (bitChar_ne_tick _), ih]

theorem untick_cfloatMarked (n es v : Nat) : untick (cfloatToBinaryMarked n es v) = cfloatToBinary n es v := by
  unfold cfloatToBinaryMarked cfloatToBinary
  simp only [untick_append, untick_bitCharsMarked]
  simp [untick, bitChar_ne_tick]

theorem untick_fixpntMarked (n r v : Nat) : untick (fixpntToBinaryMarked n r v) = fixpntToBinary n r v := by
  unfold fixpntToBinaryMarked fixpntToBinary
  simp only [untick_append, untick_fxFracMarked]
  split
  · simp [untick]; exact untick_fxIntMarked v r (n - r)
  · simp [untick]

/-- `cfloat::assign` ignores nibble markers anywhere after the `0b` prefix. -/
theorem cfloatAssign_untick (n es : Nat) (r : List Char) (h : (untick r).length > 0) :
    cfloatAssign n es ('0' :: 'b' :: r) = cfloatAssign n es ('0' :: 'b' :: untick r) := by
  have hlen : r.length > 0 := by
    have : (untick r).length ≤ r.length := List.length_filter_le _ _
    omega
  unfold cfloatAssign
  have h1 : ('0' :: 'b' :: r).length > 2 := by simp; omega
  have h2 : ('0' :: 'b' :: untick r).length > 2 := by simp; omega
  rw [if_pos h1, if_pos h2]
  simp only
  rw [cfFilter_untick r]

theorem cfloatAssign_toBinaryMarked (n es v : Nat) (hn : es + 1 ≤ n) (hv : v < 2 ^ n) :
    cfloatAssign n es (cfloatToBinaryMarked n es v) = v := by
  have hu := untick_cfloatMarked n es v
  have hform : ∃ r, cfloatToBinaryMarked n es v = '0' :: 'b' :: r :=
    ⟨(cfloatToBinaryMarked n es v).drop 2, by unfold cfloatToBinaryMarked; simp⟩
  obtain ⟨r, hr⟩ := hform
  have hform2 : ∃ r', cfloatToBinary n es v = '0' :: 'b' :: r' ∧ r'.length > 0 :=
    ⟨(cfloatToBinary n es v).drop 2, by unfold cfloatToBinary; simp, by unfold cfloatToBinary; simp⟩
  obtain ⟨r', hr', hl'⟩ := hform2
  rw [hr] at hu
  have hur : untick r = r' := by
    have : untick ('0' :: 'b' :: r) = '0' :: 'b' :: untick r := by simp [untick]
    rw [this, hr'] at hu
    simpa using hu
  rw [hr, cfloatAssign_untick n es r (by rw [hur]; exact hl'), hur, ← hr']
  exact cfloatAssign_toBinary n es v hn hv

theorem fixpntAssign_toBinaryMarked (n r v : Nat) (hr : r ≤ n) (hv : v < 2 ^ n) :
    fixpntAssign n r (fixpntToBinaryMarked n r v) = some v := by
  have hu := untick_fixpntMarked n r v
  have h0 := fixpntAssign_toBinary n r v hr hv
  have hlenU : ¬ ((fixpntToBinary n r v).length < 3) := by
    unfold fixpntToBinary; split <;> simp [length_bitCharsFrom]
    omega
  have hlenM : ¬ ((fixpntToBinaryMarked n r v).length < 3) := by
    have : (untick (fixpntToBinaryMarked n r v)).length ≤ (fixpntToBinaryMarked n r v).length := List.length_filter_le _ _
    rw [hu] at this
    omega
  obtain ⟨t, ht⟩ : ∃ t, fixpntToBinaryMarked n r v = '0' :: 'b' :: t :=
    ⟨(fixpntToBinaryMarked n r v).drop 2, by unfold fixpntToBinaryMarked; simp⟩
  obtain ⟨t', ht'⟩ : ∃ t', fixpntToBinary n r v = '0' :: 'b' :: t' :=
    ⟨(fixpntToBinary n r v).drop 2, by unfold fixpntToBinary; simp⟩
  unfold fixpntAssign at h0 ⊢
  rw [if_neg hlenU] at h0
  rw [if_neg hlenM]
  rw [ht'] at h0
  rw [ht]
  simp only at h0 ⊢
  rw [fxLoop_untick, untick_reverse, ← ht, hu, ht']
  exact h0

end UVerif.Text
