/-
  Lemmas/TextOstream — `operator<<` of `integer<nbits,bt>`: the printed text is the exact decimal expansion, for
  every width and block width (the working type is wide enough for block10 since the D19 repair).
-/
import UVerifProofs.Lemmas.TextBlocks

namespace UVerif.Text
open UVerif

theorem ofSigned_natCast (W q : Nat) (h : q < 2 ^ W) : ofSigned W (q : Int) = q := by
  unfold ofSigned
  rw [Int.emod_eq_of_lt (by omega) (by exact_mod_cast h), Int.toNat_natCast]

theorem toSigned_small (W q : Nat) (hW : 0 < W) (h : q < 2 ^ (W - 1)) : toSigned W q = q := by
  unfold toSigned
  have hW0 : W ≠ 0 := by omega
  have h2 : 2 ^ W = 2 * 2 ^ (W - 1) := by
    obtain ⟨k, rfl⟩ : ∃ k, W = k + 1 := ⟨W - 1, by omega⟩
    rw [Nat.add_sub_cancel, Nat.pow_succ]; omega
  have : q % 2 ^ W = q := Nat.mod_eq_of_lt (by omega)
  simp [hW0, this, h]

theorem pow10_le_word (w : Nat) (hw : w = 8 ∨ w = 16 ∨ w = 32 ∨ w = 64) : 10 ^ digitsInBlock10 w ≤ 2 ^ w := by
  rcases hw with rfl | rfl | rfl | rfl <;> decide

theorem digitsInBlock10_pos (w : Nat) : 0 < digitsInBlock10 w := by
  unfold digitsInBlock10; split <;> (try split) <;> (try split) <;> omega

theorem pow10_lt_half_word (w : Nat) (hw : w = 8 ∨ w = 16 ∨ w = 32 ∨ w = 64) : 10 ^ digitsInBlock10 w < 2 ^ (w - 1) := by
  rcases hw with rfl | rfl | rfl | rfl <;> decide

/-- the working width holds nbits+1 bits … -/
theorem ostreamWidth_ge (n w : Nat) : n + 1 ≤ ostreamWidth n w := by
  unfold ostreamWidth; split <;> omega

/-- … and block10 as a positive signed number. -/
theorem pow10_lt_ostreamWidth (n w : Nat) (hw : w = 8 ∨ w = 16 ∨ w = 32 ∨ w = 64) :
    10 ^ digitsInBlock10 w < 2 ^ (ostreamWidth n w - 1) := by
  have h1 := pow10_lt_half_word w hw
  unfold ostreamWidth
  split
  · exact h1
  · have : (2 : Nat) ^ (w - 1) ≤ 2 ^ (n + 1 - 1) := Nat.pow_le_pow_right (by decide) (by omega)
    omega

/-- on non-negative values below 2^nbits with `block10 = 10^k` the loop on `integer<W>` (any `W > nbits`) is the
    loop on naturals. -/
theorem intOstreamLoop_eq_natLoop (n W w k : Nat) (hW : n + 1 ≤ W) (hk : 10 ^ k ≤ 2 ^ w) :
    ∀ (fuel T cap : Nat), T < 2 ^ n →
      intOstreamLoop W w k ((10 ^ k : Nat) : Int) fuel (T : Int) cap = natLoop k fuel T cap
  | 0, _, _, _ => rfl
  | fuel + 1, T, cap, hT => by
    unfold intOstreamLoop natLoop
    have hB : 0 < 10 ^ k := Nat.pow_pos (by decide)
    have hT0 : ((T : Int) = 0) ↔ T = 0 := by omega
    simp only [hT0]
    by_cases hstop : T = 0 ∨ cap = 0
    · simp [hstop]
    · simp only [hstop, if_false]
      have hq : Int.tdiv (T : Int) ((10 ^ k : Nat) : Int) = ((T / 10 ^ k : Nat) : Int) := by
        rw [Int.tdiv_eq_ediv_of_nonneg (by omega)]; norm_cast
      have hr : Int.tmod (T : Int) ((10 ^ k : Nat) : Int) = ((T % 10 ^ k : Nat) : Int) := by
        rw [Int.tmod_eq_emod_of_nonneg (by omega)]; norm_cast
      have hnW : (2 : Nat) ^ n ≤ 2 ^ (W - 1) := Nat.pow_le_pow_right (by decide) (by omega)
      have hWW : (2 : Nat) ^ (W - 1) ≤ 2 ^ W := Nat.pow_le_pow_right (by decide) (by omega)
      have hqlt : T / 10 ^ k < 2 ^ n := lt_of_le_of_lt (Nat.div_le_self _ _) hT
      have hrlt : T % 10 ^ k < 2 ^ W := by
        have : T % 10 ^ k ≤ T := Nat.mod_le _ _
        omega
      have hrw : T % 10 ^ k % 2 ^ w = T % 10 ^ k := Nat.mod_eq_of_lt (lt_of_lt_of_le (Nat.mod_lt _ hB) hk)
      have hqW : T / 10 ^ k < 2 ^ W := by omega
      have hqW1 : T / 10 ^ k < 2 ^ (W - 1) := by omega
      rw [hq, hr, ofSigned_natCast W (T / 10 ^ k) hqW,
        toSigned_small W (T / 10 ^ k) (by omega) hqW1, ofSigned_natCast W (T % 10 ^ k) hrlt, hrw, blockDigitsLE_eq]
      simp only [length_padLE]
      rw [intOstreamLoop_eq_natLoop n W w k hW hk fuel (T / 10 ^ k) _ hqlt]

theorem two_pow_lt_ten_pow (n : Nat) : 2 ^ n < 10 ^ (n / 3 + 1) := by
  have h1 : 2 ^ n ≤ 2 ^ (3 * (n / 3) + 2) := Nat.pow_le_pow_right (by decide) (by omega)
  have h2 : (2 : Nat) ^ (3 * (n / 3) + 2) = 8 ^ (n / 3) * 4 := by rw [Nat.pow_add, Nat.pow_mul]
  have h3 : (8 : Nat) ^ (n / 3) ≤ 10 ^ (n / 3) := Nat.pow_le_pow_left (by decide) _
  have h4 : 0 < (10 : Nat) ^ (n / 3) := Nat.pow_pos (by decide)
  rw [Nat.pow_succ]
  omega

/-- **integer `operator<<` prints the exact decimal expansion** for EVERY width, block width and value
    (k = 2, 4, 9, 18 digits per 8/16/32/64-bit block; the working type always holds `10^k`). -/
theorem integerOstream_exact (n w v : Nat) (hw : w = 8 ∨ w = 16 ∨ w = 32 ∨ w = 64) (hn : 0 < n)
    (hv : v < 2 ^ n) :
    integerOstream n w v = some (intToDec (toSigned n v)) := by
  obtain ⟨hmag, hsign⟩ := magnitude_toSigned n v hn hv
  set k := digitsInBlock10 w with hk
  have hWge := ostreamWidth_ge n w
  have hfitW := pow10_lt_ostreamWidth n w hw
  have hb10 : block10Value n w = ((10 ^ k : Nat) : Int) := by
    unfold block10Value
    rw [← hk] at hfitW ⊢
    have hWW : (2 : Nat) ^ (ostreamWidth n w - 1) ≤ 2 ^ ostreamWidth n w := Nat.pow_le_pow_right (by decide) (by omega)
    rw [Nat.mod_eq_of_lt (by omega)]
    exact toSigned_small (ostreamWidth n w) _ (by omega) hfitW
  have hb10ne : block10Value n w ≠ 0 := by
    rw [hb10]
    have : 0 < 10 ^ k := Nat.pow_pos (by decide)
    omega
  -- the magnitude
  set T := (toSigned n v).natAbs with hT
  have hTlt : T < 2 ^ n := by
    have hm : magnitudePattern n v < 2 ^ n := by
      unfold magnitudePattern; split <;> exact Nat.mod_lt _ (Nat.two_pow_pos n)
    have : (magnitudePattern n v : Int) = (T : Int) := hmag
    omega
  unfold integerOstream
  simp only [hb10, ← hk, ← hT]
  rw [intOstreamLoop_eq_natLoop n (ostreamWidth n w) w k hWge (by rw [hk]; exact pow10_le_word w hw) _ T _ hTlt]
  obtain ⟨s1, s2, s3⟩ := natLoop_spec k (by rw [hk]; exact digitsInBlock10_pos w) (n / 3 + 1 + 1) T (n / 3 + 1) (by omega)
  generalize hL : (natLoop k (n / 3 + 1 + 1) T (n / 3 + 1)).length = L at *
  have hTL : T < 10 ^ L := by
    rcases s3 with h | h
    · exact h
    · rw [h]; exact lt_trans hTlt (two_pow_lt_ten_pow n)
  have hbuf := buffer_to_numeral T L (n / 3 + 1) hTL
  simp only at hbuf
  have h10 : ¬ (((10 ^ k : Nat) : Int) = 0) := by rw [← hb10]; exact hb10ne
  rw [s1, hbuf, if_neg h10]
  unfold intToDec
  by_cases hs : v.testBit (n - 1) = true
  · simp [hs, hsign.mp hs, hT]
  · have : ¬ (toSigned n v < 0) := fun h => hs (hsign.mpr h)
    simp [hs, this, hT]

end UVerif.Text
