/-
  Lemmas/TextPosit — `parse` run over the output of `hex_format`.
-/
import UVerifProofs.Lemmas.TextDigits
import UVerif.Model.TextPosit

namespace UVerif.Text

theorem length_hexDigits (v : Nat) : ∀ k, (hexDigits v k).length = k
  | 0 => rfl
  | k + 1 => by simp [hexDigits, length_hexDigits v k]

theorem hexDigits_lt (v : Nat) : ∀ k, ∀ d ∈ hexDigits v k, d < 16
  | 0 => by intro d hd; cases hd
  | k + 1 => by
    intro d hd
    simp only [hexDigits, List.mem_cons] at hd
    rcases hd with rfl | h
    · exact Nat.mod_lt _ (by decide)
    · exact hexDigits_lt v k d h

/-- reading back the `k` hexits of `v` (either case) gives `v mod 16^k` appended to the accumulator. -/
theorem hexStrVal_hexDigits (f : Nat → Char) (hf : ∀ d, d < 16 → hexVal? (f d) = some d) (v : Nat) :
    ∀ (k acc : Nat), hexStrVal? ((hexDigits v k).map f) acc = some (acc * 16 ^ k + v % 16 ^ k)
  | 0, acc => by simp [hexDigits, hexStrVal?, Nat.mod_one]
  | k + 1, acc => by
    simp only [hexDigits, List.map_cons, hexStrVal?, hf _ (Nat.mod_lt _ (by decide : 16 > 0))]
    rw [hexStrVal_hexDigits f hf v k]
    congr 1
    rw [Nat.pow_succ, Nat.mod_mul]
    ring

theorem takeWhile_all {α : Type} (p : α → Bool) (l : List α) (h : ∀ a ∈ l, p a = true) : l.takeWhile p = l := by
  induction l with
  | nil => rfl
  | cons a as ih =>
    simp only [List.takeWhile, h a (List.mem_cons_self ..)]
    rw [ih (fun b hb => h b (List.mem_cons_of_mem _ hb))]

theorem allB_of_forall (p : Char → Bool) : ∀ (l : List Char), (∀ c ∈ l, p c = true) → allB p l = true
  | [], _ => rfl
  | c :: cs, h => by
    simp only [allB, h c (List.mem_cons_self ..), Bool.true_and]
    exact allB_of_forall p cs (fun d hd => h d (List.mem_cons_of_mem _ hd))

theorem isDigit_dot : isDigit '.' = false := by decide

/-- the number of hexits printed for widths ≥ 4 is ⌈n/4⌉. -/
theorem positNrHexits_eq (n : Nat) : positNrHexits n = (n + 3) / 4 := by
  unfold positNrHexits
  rw [Nat.shiftRight_eq_div_pow]
  split <;> omega

/-- **posit hex round trip**, for EVERY width up to the 64 bits `parse` can extract (multiple of 4 or not)
    and every `es` that prints as one digit. -/
theorem positRoundTrip_le64 (n es v : Nat) (hn0 : 0 < n) (hn : n ≤ 64) (hes : es ≤ 9)
    (hv : v < 2 ^ n) : positRoundTrip n es v = some v := by
  -- K = ⌈n/4⌉ hexits are printed, for the widths 1, 2, 3 (one hexit) as well
  obtain ⟨K, hK⟩ : ∃ K, K = (n + 3) / 4 := ⟨_, rfl⟩
  have hK1 : 1 ≤ K := by omega
  have hKn : n ≤ 4 * K := by omega
  -- the text
  have hvm : v % 2 ^ n = v := Nat.mod_eq_of_lt hv
  set H := (hexDigits v K).map hexLowerChar with hH
  have hHhex : ∀ c ∈ H, isHexDigit c = true := by
    intro c hc
    obtain ⟨d, hd, rfl⟩ := List.mem_map.mp hc
    exact isHexDigit_hexLowerChar d (hexDigits_lt v _ d hd)
  have hHword : ∀ c ∈ H, isWord c = true := by
    intro c hc
    obtain ⟨d, hd, rfl⟩ := List.mem_map.mp hc
    exact isWord_hexLowerChar d (hexDigits_lt v _ d hd)
  have hHp : ∀ c ∈ H, (c != 'p') = true := by
    intro c hc
    obtain ⟨d, hd, rfl⟩ := List.mem_map.mp hc
    simpa using hexLowerChar_ne_p d (hexDigits_lt v _ d hd)
  have htxt : positHexFormat n es v
      = natToDec n ++ ('.' :: digitChar es :: 'x' :: ('0' :: 'x' :: (H ++ ['p']))) := by
    unfold positHexFormat positToHex
    have hbody : (if n = 1 ∨ n = 2 ∨ n = 3 then [hexLowerChar v]
        else (hexDigits v (positNrHexits n)).map hexLowerChar) = H := by
      by_cases h123 : n = 1 ∨ n = 2 ∨ n = 3
      · have hK' : K = 1 := by omega
        have hv16 : v < 16 := by
          have : (2 : Nat) ^ n ≤ 2 ^ 3 := Nat.pow_le_pow_right (by decide) (by omega)
          omega
        rw [if_pos h123, hH, hK']
        simp [hexDigits, Nat.mod_eq_of_lt hv16]
      · rw [if_neg h123, positNrHexits_eq, ← hK]
    simp only [hvm, hbody, natToDec_lt_ten es (by omega)]
    simp
  unfold positRoundTrip
  rw [htxt]
  -- the regular expression accepts it
  have hND := natToDec_allDigit n
  have hgram : positGrammar (natToDec n ++ ('.' :: digitChar es :: 'x' :: ('0' :: 'x' :: (H ++ ['p'])))) = true := by
    unfold positGrammar
    have htw : (natToDec n ++ ('.' :: digitChar es :: 'x' :: ('0' :: 'x' :: (H ++ ['p'])))).takeWhile isDigit = natToDec n := by
      rw [List.takeWhile_append_of_pos hND]
      simp [List.takeWhile, isDigit_dot]
    have hdw : (natToDec n ++ ('.' :: digitChar es :: 'x' :: ('0' :: 'x' :: (H ++ ['p'])))).dropWhile isDigit
        = '.' :: digitChar es :: 'x' :: ('0' :: 'x' :: (H ++ ['p'])) := by
      rw [List.dropWhile_append_of_pos hND]
      simp [List.dropWhile, isDigit_dot]
    simp only [htw, hdw]
    have hne : (natToDec n).isEmpty = false := by
      cases h : natToDec n with
      | nil => exact absurd h (natToDec_ne_nil _)
      | cons _ _ => rfl
    have hall : allB isWord ('0' :: 'x' :: (H ++ ['p'])) = true := by
      apply allB_of_forall
      intro c hc
      simp only [List.mem_cons, List.mem_append] at hc
      rcases hc with rfl | rfl | hc | hc
      · decide
      · decide
      · exact hHword c hc
      · rcases hc with rfl | hc
        · decide
        · cases hc
    simp [hne, isDigit_digitChar es (by omega), hall]
  unfold positParse
  rw [if_pos hgram]
  -- the scanning loops recover the fields
  have hnd : ∀ c ∈ natToDec n, (decide (c ≠ '.')) = true := by
    intro c hc
    have := hND c hc
    simp only [decide_eq_true_eq]
    intro h; subst h; simp [isDigit_dot] at this
  have hfields : positFields (natToDec n ++ ('.' :: digitChar es :: 'x' :: ('0' :: 'x' :: (H ++ ['p']))))
      = (natToDec n, [digitChar es], '0' :: 'x' :: H) := by
    unfold positFields
    rw [List.takeWhile_append_of_pos hnd, List.dropWhile_append_of_pos hnd]
    have hdx : ∀ d, d < 10 → (!(digitChar d == 'x') && !(digitChar d == 'X')) = true := by decide
    have hH' : (H ++ ['p']).takeWhile (fun x => !decide (x = 'p')) = H := by
      rw [List.takeWhile_append_of_pos (by intro c hc; simpa using hHp c hc)]
      simp [List.takeWhile]
    simp [List.takeWhile, List.dropWhile, hdx es (by omega), hH']
  rw [hfields]
  simp only
  -- the two extractions
  have hdec : decExtract32 (natToDec n) = n := by
    unfold decExtract32
    simp only [takeWhile_all _ _ hND, decStrVal_natToDec]
    split <;> omega
  have hpow : v < 16 ^ K := by
    have h1 : (2 : Nat) ^ n ≤ 2 ^ (4 * K) := Nat.pow_le_pow_right (by decide) hKn
    have h2 : (2 : Nat) ^ (4 * K) = 16 ^ K := by rw [Nat.pow_mul]
    omega
  have hv64 : v < 2 ^ 64 := lt_of_lt_of_le hv (Nat.pow_le_pow_right (by decide) hn)
  have hhex : hexExtract64 ('0' :: 'x' :: H) = v := by
    unfold hexExtract64
    simp only [true_or, if_true]
    rw [takeWhile_all _ _ hHhex, hH, hexStrVal_hexDigits hexLowerChar hexVal_hexLowerChar v K 0]
    simp only [Nat.zero_mul, Nat.zero_add, Option.getD_some, Nat.mod_eq_of_lt hpow]
    split <;> omega
  rw [hdec, hhex]
  simp [hvm]

end UVerif.Text
