/-
  Lemmas/TextPosit — `parse` run over the output of `hex_format`.
-/
import UVerifProofs.Lemmas.TextDigits
import UVerif.Model.TextPosit

namespace UVerif.Text

theorem length_hexDigits (v : Nat) : ∀ k, (hexDigits v k).length = k
  | 0 => rfl
  | k + 1 => by simp [hexDigits, length_hexDigits v k]

theorem hexDigits_lt (v : Nat) : ∀ k, ∀ d ∈ hexDigits v k, d < 16
  | 0 => by intro d hd; cases hd
  | k + 1 => by
    intro d hd
    simp only [hexDigits, List.mem_cons] at hd
    rcases hd with rfl | h
    · exact Nat.mod_lt _ (by decide)
    · exact hexDigits_lt v k d h

/-- reading back the `k` hexits of `v` (either case) gives `v mod 16^k` appended to the accumulator. -/
theorem hexStrVal_hexDigits (f : Nat → Char) (hf : ∀ d, d < 16 → hexVal? (f d) = some d) (v : Nat) :
    ∀ (k acc : Nat), hexStrVal? ((hexDigits v k).map f) acc = some (acc * 16 ^ k + v % 16 ^ k)
  | 0, acc => by simp [hexDigits, hexStrVal?, Nat.mod_one]
  | k + 1, acc => by
    simp only [hexDigits, List.map_cons, hexStrVal?, hf _ (Nat.mod_lt _ (by decide : 16 > 0))]
    rw [hexStrVal_hexDigits f hf v k]
    congr 1
    rw [Nat.pow_succ, Nat.mod_mul]
    ring

theorem takeWhile_all {α : Type} (p : α → Bool) (l : List α) (h : ∀ a ∈ l, p a = true) : l.takeWhile p = l := by
  induction l with
  | nil => rfl
  | cons a as ih =>
    simp only [List.takeWhile, h a (List.mem_cons_self ..)]
    rw [ih (fun b hb => h b (List.mem_cons_of_mem _ hb))]

theorem allB_of_forall (p : Char → Bool) : ∀ (l : List Char), (∀ c ∈ l, p c = true) → allB p l = true
  | [], _ => rfl
  | c :: cs, h => by
    simp only [allB, h c (List.mem_cons_self ..), Bool.true_and]
    exact allB_of_forall p cs (fun d hd => h d (List.mem_cons_of_mem _ hd))

theorem isDigit_dot : isDigit '.' = false := by decide

/-- **posit hex round trip**, for every width that is a multiple of 4 up to the 64 bits `parse` can extract
    and every `es` that prints as one digit. -/
theorem positRoundTrip_aligned (n es v : Nat) (h4 : 4 ∣ n) (hn0 : 0 < n) (hn : n ≤ 64) (hes : es ≤ 9)
    (hv : v < 2 ^ n) : positRoundTrip n es v = some v := by
  obtain ⟨m, rfl⟩ := h4
  have hm : 1 ≤ m := by omega
  have hm16 : m ≤ 16 := by omega
  -- the text
  have hvm : v % 2 ^ (4 * m) = v := Nat.mod_eq_of_lt hv
  have hnr : positNrHexits (4 * m) = m + 1 := by
    unfold positNrHexits
    rw [Nat.shiftRight_eq_div_pow]
    have : 4 * m % 4 = 0 := by omega
    simp [this]
  set H := (hexDigits v (m + 1)).map hexLowerChar with hH
  have hHhex : ∀ c ∈ H, isHexDigit c = true := by
    intro c hc
    obtain ⟨d, hd, rfl⟩ := List.mem_map.mp hc
    exact isHexDigit_hexLowerChar d (hexDigits_lt v _ d hd)
  have hHword : ∀ c ∈ H, isWord c = true := by
    intro c hc
    obtain ⟨d, hd, rfl⟩ := List.mem_map.mp hc
    exact isWord_hexLowerChar d (hexDigits_lt v _ d hd)
  have hHp : ∀ c ∈ H, (c != 'p') = true := by
    intro c hc
    obtain ⟨d, hd, rfl⟩ := List.mem_map.mp hc
    simpa using hexLowerChar_ne_p d (hexDigits_lt v _ d hd)
  have htxt : positHexFormat (4 * m) es v
      = natToDec (4 * m) ++ ('.' :: digitChar es :: 'x' :: ('0' :: 'x' :: (H ++ ['p']))) := by
    unfold positHexFormat positToHex
    have h123 : ¬ (4 * m = 1 ∨ 4 * m = 2 ∨ 4 * m = 3) := by omega
    simp only [hvm, h123, if_false, hnr, natToDec_lt_ten es (by omega)]
    simp [hH]
  unfold positRoundTrip
  rw [htxt]
  -- the regular expression accepts it
  have hND := natToDec_allDigit (4 * m)
  have hgram : positGrammar (natToDec (4 * m) ++ ('.' :: digitChar es :: 'x' :: ('0' :: 'x' :: (H ++ ['p'])))) = true := by
    unfold positGrammar
    have htw : (natToDec (4 * m) ++ ('.' :: digitChar es :: 'x' :: ('0' :: 'x' :: (H ++ ['p'])))).takeWhile isDigit = natToDec (4 * m) := by
      rw [List.takeWhile_append_of_pos hND]
      simp [List.takeWhile, isDigit_dot]
    have hdw : (natToDec (4 * m) ++ ('.' :: digitChar es :: 'x' :: ('0' :: 'x' :: (H ++ ['p'])))).dropWhile isDigit
        = '.' :: digitChar es :: 'x' :: ('0' :: 'x' :: (H ++ ['p'])) := by
      rw [List.dropWhile_append_of_pos hND]
      simp [List.dropWhile, isDigit_dot]
    simp only [htw, hdw]
    have hne : (natToDec (4 * m)).isEmpty = false := by
      cases h : natToDec (4 * m) with
      | nil => exact absurd h (natToDec_ne_nil _)
      | cons _ _ => rfl
    have hall : allB isWord ('0' :: 'x' :: (H ++ ['p'])) = true := by
      apply allB_of_forall
      intro c hc
      simp only [List.mem_cons, List.mem_append] at hc
      rcases hc with rfl | rfl | hc | hc
      · decide
      · decide
      · exact hHword c hc
      · rcases hc with rfl | hc
        · decide
        · cases hc
    simp [hne, isDigit_digitChar es (by omega), hall]
  unfold positParse
  rw [if_pos hgram]
  -- the scanning loops recover the fields
  have hnd : ∀ c ∈ natToDec (4 * m), (decide (c ≠ '.')) = true := by
    intro c hc
    have := hND c hc
    simp only [decide_eq_true_eq]
    intro h; subst h; simp [isDigit_dot] at this
  have hfields : positFields (natToDec (4 * m) ++ ('.' :: digitChar es :: 'x' :: ('0' :: 'x' :: (H ++ ['p']))))
      = (natToDec (4 * m), [digitChar es], '0' :: 'x' :: H) := by
    unfold positFields
    rw [List.takeWhile_append_of_pos hnd, List.dropWhile_append_of_pos hnd]
    have hdx : ∀ d, d < 10 → (!(digitChar d == 'x') && !(digitChar d == 'X')) = true := by decide
    have hH' : (H ++ ['p']).takeWhile (fun x => !decide (x = 'p')) = H := by
      rw [List.takeWhile_append_of_pos (by intro c hc; simpa using hHp c hc)]
      simp [List.takeWhile]
    simp [List.takeWhile, List.dropWhile, hdx es (by omega), hH']
  rw [hfields]
  simp only
  -- the two extractions
  have hdec : decExtract32 (natToDec (4 * m)) = 4 * m := by
    unfold decExtract32
    simp only [takeWhile_all _ _ hND, decStrVal_natToDec]
    split <;> omega
  have hpow : v < 16 ^ (m + 1) := by
    have : (2 : Nat) ^ (4 * m) = 16 ^ m := by rw [Nat.pow_mul]
    rw [this] at hv
    calc v < 16 ^ m := hv
      _ ≤ 16 ^ (m + 1) := Nat.pow_le_pow_right (by decide) (by omega)
  have hv64 : v < 2 ^ 64 := lt_of_lt_of_le hv (Nat.pow_le_pow_right (by decide) hn)
  have hhex : hexExtract64 ('0' :: 'x' :: H) = v := by
    unfold hexExtract64
    simp only [true_or, if_true]
    rw [takeWhile_all _ _ hHhex, hH, hexStrVal_hexDigits hexLowerChar hexVal_hexLowerChar v (m + 1) 0]
    simp only [Nat.zero_mul, Nat.zero_add, Option.getD_some, Nat.mod_eq_of_lt hpow]
    split <;> omega
  rw [hdec, hhex]
  simp [hvm]

end UVerif.Text
