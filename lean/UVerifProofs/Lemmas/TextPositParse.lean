/-
  Lemmas/TextPositParse — `parse` on ANY text of the posit form written for the same width:
  `<nbits>.<es>x[0x]<hex digits>p` yields the value of the hex digits (below 2^64) reduced to nbits bits.
-/
import UVerifProofs.Lemmas.TextPosit
import UVerifProofs.Lemmas.TextInteger

namespace UVerif.Text

theorem isHexDigit_isWord (c : Char) (h : isHexDigit c = true) : isWord c = true := by
  unfold isHexDigit hexVal? at h
  unfold isWord
  simp only at h ⊢
  split at h
  · rename_i h1; simp; omega
  · split at h
    · rename_i h1 h2; simp; omega
    · split at h
      · rename_i h1 h2 h3; simp; omega
      · simp at h

theorem isHexDigit_ne_p (c : Char) (h : isHexDigit c = true) : c ≠ 'p' := by
  intro e; subst e; revert h; decide

theorem hexExtract64_prefixed (hs : List Char) (V : Nat) (hh : ∀ c ∈ hs, isHexDigit c = true)
    (hV : hexStrVal? hs 0 = some V) (hfit : V < 2 ^ 64) : hexExtract64 ('0' :: 'x' :: hs) = V := by
  unfold hexExtract64
  simp only [true_or, if_true, takeWhile_all _ _ hh, hV, Option.getD_some]
  split <;> omega

theorem hexExtract64_plain (hs : List Char) (V : Nat) (hh : ∀ c ∈ hs, isHexDigit c = true)
    (hV : hexStrVal? hs 0 = some V) (hfit : V < 2 ^ 64) : hexExtract64 hs = V := by
  unfold hexExtract64
  split
  · rename_i x rest
    have hx := hh x (by simp)
    obtain ⟨_, h2, h3, _, _⟩ := isHexDigit_facts x hx
    simp only [h2, h3, or_self, if_false, takeWhile_all _ _ hh, hV, Option.getD_some]
    split <;> omega
  · simp only [takeWhile_all _ _ hh, hV, Option.getD_some]
    split <;> omega

/-- **posit `parse` of a same-width text**: any non-empty hex digit string (value below 2^64), with or without a
    `0x` prefix, lower or upper case, read into `posit<nbits,es>` gives that value mod 2^nbits. -/
theorem positParse_text (n es : Nat) (hs : List Char) (V : Nat) (pfx : Bool) (hn : n < 2 ^ 32) (hes : es ≤ 9)
    (hne : hs ≠ []) (hh : ∀ c ∈ hs, isHexDigit c = true) (hV : hexStrVal? hs 0 = some V) (hfit : V < 2 ^ 64) :
    positParse n (natToDec n ++ ('.' :: digitChar es :: 'x' :: ((if pfx then ['0', 'x'] else []) ++ hs ++ ['p'])))
      = some (V % 2 ^ n) := by
  obtain ⟨W, hW⟩ : ∃ W, W = (if pfx then ['0', 'x'] else []) ++ hs := ⟨_, rfl⟩
  rw [← hW]
  have hWword : ∀ c ∈ W, isWord c = true := by
    intro c hc
    rw [hW] at hc
    rcases List.mem_append.mp hc with h | h
    · cases pfx
      · simp at h
      · simp at h; rcases h with rfl | rfl <;> decide
    · exact isHexDigit_isWord c (hh c h)
  have hWp : ∀ c ∈ W, (!decide (c = 'p')) = true := by
    intro c hc
    rw [hW] at hc
    rcases List.mem_append.mp hc with h | h
    · cases pfx
      · simp at h
      · simp at h; rcases h with rfl | rfl <;> decide
    · simpa using isHexDigit_ne_p c (hh c h)
  have hWne : W ≠ [] := by
    rw [hW]; intro h
    exact hne (List.append_eq_nil_iff.mp h).2
  have hND := natToDec_allDigit n
  -- grammar
  have hgram : positGrammar (natToDec n ++ ('.' :: digitChar es :: 'x' :: (W ++ ['p']))) = true := by
    unfold positGrammar
    have htw : (natToDec n ++ ('.' :: digitChar es :: 'x' :: (W ++ ['p']))).takeWhile isDigit = natToDec n := by
      rw [List.takeWhile_append_of_pos hND]
      simp [List.takeWhile, isDigit_dot]
    have hdw : (natToDec n ++ ('.' :: digitChar es :: 'x' :: (W ++ ['p']))).dropWhile isDigit
        = '.' :: digitChar es :: 'x' :: (W ++ ['p']) := by
      rw [List.dropWhile_append_of_pos hND]
      simp [List.dropWhile, isDigit_dot]
    simp only [htw, hdw]
    have hne' : (natToDec n).isEmpty = false := by
      cases h : natToDec n with
      | nil => exact absurd h (natToDec_ne_nil _)
      | cons _ _ => rfl
    have hall : allB isWord (W ++ ['p']) = true := by
      apply allB_of_forall
      intro c hc
      rcases List.mem_append.mp hc with h | h
      · exact hWword c h
      · simp at h; subst h; decide
    have hwne : (W ++ ['p']).isEmpty = false := by cases W <;> simp
    simp [hne', isDigit_digitChar es (by omega), hall, hwne]
  unfold positParse
  rw [if_pos hgram]
  have hnd : ∀ c ∈ natToDec n, (decide (c ≠ '.')) = true := by
    intro c hc
    have := hND c hc
    simp only [decide_eq_true_eq]
    intro h; subst h; simp [isDigit_dot] at this
  have hfields : positFields (natToDec n ++ ('.' :: digitChar es :: 'x' :: (W ++ ['p'])))
      = (natToDec n, [digitChar es], W) := by
    unfold positFields
    rw [List.takeWhile_append_of_pos hnd, List.dropWhile_append_of_pos hnd]
    have hdx : ∀ d, d < 10 → (!(digitChar d == 'x') && !(digitChar d == 'X')) = true := by decide
    have hH' : (W ++ ['p']).takeWhile (fun x => !decide (x = 'p')) = W := by
      rw [List.takeWhile_append_of_pos hWp]
      simp [List.takeWhile]
    simp [List.takeWhile, List.dropWhile, hdx es (by omega), hH']
  rw [hfields]
  simp only
  have hdec : decExtract32 (natToDec n) = n := by
    unfold decExtract32
    simp only [takeWhile_all _ _ hND, decStrVal_natToDec]
    split <;> omega
  have hhex : hexExtract64 W = V := by
    cases pfx
    · have hWhs : W = hs := by simp [hW]
      rw [hWhs]; exact hexExtract64_plain hs V hh hV hfit
    · have hWhs : W = '0' :: 'x' :: hs := by simp [hW]
      rw [hWhs]; exact hexExtract64_prefixed hs V hh hV hfit
  rw [hdec, hhex]
  simp

end UVerif.Text
