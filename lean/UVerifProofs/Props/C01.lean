/-
  C01 — posit arithmetic is correctly rounded, for every nbits ≥ 2, every es, every operand.

  Structure of the proof (helpers in UVerifProofs/Lemmas/Posit*.lean):
    PositEnc     unbounded encoding `Benc`, strictly monotone like the value
    PositFields  a magnitude IS the unbounded encoding of its value (bit-level identity)
    PositOrder   monotonicity of posVal, (n+1)-bit midpoints, signed order
    PositRound   `nearestMagB` = round-to-nearest-even of `Benc`, clamped; uniqueness; sticky lemma
    PositConvert `convert_` rounds correctly (all sign, scale, fraction widths)
    PositDecode  `decode` returns the Standard's value
    PositArith   `module_multiply` exact; special encodings
    PositSticky / PositCuts / PositAdd   sticky images keep all comparisons with (n+1)-bit posits;
                 `module_add`, `module_subtract`
    PositDiv     `module_divide`: truncated quotient keeps all comparisons
    PositRecip   `reciprocal`: power-of-two shortcut exact, truncated reciprocal otherwise
-/
import UVerif.Model.Posit
import UVerifProofs.Lemmas.PositArith
import UVerifProofs.Lemmas.PositAdd
import UVerifProofs.Lemmas.PositDiv
import UVerifProofs.Lemmas.PositRecip
open UVerif UVerif.Posit

/-- negation is an involution on encodings (two's complement twice), for every width. -/
theorem C01_neg_involutive (n a : Nat) (h : a < 2 ^ n) : neg n (neg n a) = a := by
  unfold neg twosComp
  rcases Nat.eq_zero_or_pos a with rfl | hp
  · simp
  · have h1 : a % 2 ^ n = a := Nat.mod_eq_of_lt h
    have h2 : (2 ^ n - a) < 2 ^ n := by omega
    rw [h1, Nat.mod_eq_of_lt h2, Nat.mod_eq_of_lt h2]
    have : 2 ^ n - (2 ^ n - a) = a := by omega
    rw [this, h1]

/-! ### decode / convert -/

/-- decoding: the (sign, scale, fraction) triple of a non-special encoding has the Standard's value -/
theorem C01_decode_value (n es a : ℕ) (hn : 2 ≤ n) (ha : a < 2 ^ n) (h0 : a ≠ 0)
    (hnar : a ≠ 2 ^ (n - 1)) : positVal n es a = some (decode n es a).toRat :=
  (decode_value n es a hn ha h0 hnar).1

example : positVal 16 2 0x7ff3 = some (decode 16 2 0x7ff3).toRat :=
  C01_decode_value 16 2 0x7ff3 (by decide) (by decide) (by decide) (by decide)

/-- `convert_` (regime/exponent/fraction assembly, blast/bafter/bsticky rounding, projection clamp)
    returns the posit the Standard selects for ±2^scale·(1+frac/2^fb): all n ≥ 2, es, fb. -/
theorem C01_convert_correct (n es : ℕ) (hn : 2 ≤ n) (sign : Bool) (scale : ℤ) (fb frac : ℕ)
    (hfrac : frac < 2 ^ fb) :
    PositNearest n es ((if sign then -1 else 1) * ((2 : ℚ) ^ scale * (1 + (frac : ℚ) / 2 ^ fb)))
      (convert_ n es sign scale fb frac) :=
  convert_correct n es hn sign scale fb frac hfrac

/-- non-vacuity: posit<16,2>, scale 25 → regime of 7 ones, only 5 bits left, the 2-bit exponent is
    followed by 4 of the 9 fraction bits; the rest is rounded. -/
example : PositNearest 16 2 ((2 : ℚ) ^ (25 : ℤ) * (1 + (0x155 : ℕ) / 2 ^ 9))
    (convert_ 16 2 false 25 9 0x155) := by
  have := C01_convert_correct 16 2 (by decide) false 25 9 0x155 (by decide)
  simpa using this

/-- the rounding relation has exactly one solution -/
theorem C01_nearest_unique (n es : ℕ) (hn : 2 ≤ n) (sign : Bool) (s : ℤ) (f : ℚ) (hf : 0 ≤ f)
    (hf1 : f < 1) (r r' : ℕ) (hr : r < 2 ^ n) (hr' : r' < 2 ^ n)
    (h : PositNearest n es ((if sign then -1 else 1) * ((2 : ℚ) ^ s * (1 + f))) r)
    (h' : PositNearest n es ((if sign then -1 else 1) * ((2 : ℚ) ^ s * (1 + f))) r') : r = r' :=
  nearestB_unique n es hn sign s f hf hf1 r r' hr hr' h h'

/-- a real-valued posit is the correct rounding of its own value -/
theorem C01_exact_fixed (n es a : ℕ) (hn : 2 ≤ n) (ha : a < 2 ^ n) (x : ℚ)
    (hx : positVal n es a = some x) : PositNearest n es x a :=
  nearestB_self n es a hn ha x hx

/-! ### multiplication -/

/-- multiplication of two real-valued posits is correctly rounded (every nbits ≥ 2, es, operands) -/
theorem C01_mul (n es a b : ℕ) (hn : 2 ≤ n) (ha : a < 2 ^ n) (hb : b < 2 ^ n) (x y : ℚ)
    (hx : positVal n es a = some x) (hy : positVal n es b = some y) :
    PositNearest n es (x * y) (mul n es a b) := by
  have hna : a ≠ 2 ^ (n - 1) := fun h => by
    rw [(positVal_none_iff n es a ha).mpr h] at hx; exact absurd hx (by simp)
  have hnb : b ≠ 2 ^ (n - 1) := fun h => by
    rw [(positVal_none_iff n es b hb).mpr h] at hy; exact absurd hy (by simp)
  have hia : isNaR n a = false := by
    rw [← Bool.not_eq_true, isNaR_iff n a ha]; exact hna
  have hib : isNaR n b = false := by
    rw [← Bool.not_eq_true, isNaR_iff n b hb]; exact hnb
  unfold PositNearest mul
  simp only [Nat.mod_eq_of_lt ha, Nat.mod_eq_of_lt hb, hia, hib, Bool.or_self, Bool.false_eq_true,
    if_false]
  by_cases hz : a = 0 ∨ b = 0
  · have : (decide (a = 0) || decide (b = 0)) = true := by simpa using hz
    rw [if_pos this]
    have hxy : x * y = 0 := by
      rcases hz with rfl | rfl
      · rw [(positVal_zero_iff n es 0 hn ha).mpr rfl] at hx
        rw [← Option.some.inj hx]; ring
      · rw [(positVal_zero_iff n es 0 hn hb).mpr rfl] at hy
        rw [← Option.some.inj hy]; ring
    rw [hxy]; unfold nearestB; simp
  · have : (decide (a = 0) || decide (b = 0)) = false := by simpa using hz
    rw [if_neg (by rw [this]; simp)]
    rw [not_or] at hz
    obtain ⟨fa, fba, va⟩ := decode_fin n es a hn ha hz.1 hna
    obtain ⟨fb', fbb, vb⟩ := decode_fin n es b hn hb hz.2 hnb
    obtain ⟨fm, vm⟩ := moduleMul_exact (fbitsOf n es) _ _ fa fb' fba fbb
    rw [hx] at va; rw [hy] at vb
    rw [Option.some.inj va, Option.some.inj vb, ← vm]
    exact convert_val_correct n es hn _ fm

/-- non-vacuity: posit<16,2>, 0x7a31 · 0x7b05 has a truncated exponent field in the result -/
example : PositNearest 16 2 ((3 / 2 : ℚ) * (5 / 4)) (mul 16 2 0x4400 0x4200) :=
  C01_mul 16 2 0x4400 0x4200 (by decide) (by decide) (by decide) _ _ (by decide +kernel)
    (by decide +kernel)

example : ∃ x y, positVal 16 2 0x7a31 = some x ∧ positVal 16 2 0x7b05 = some y ∧
    PositNearest 16 2 (x * y) (mul 16 2 0x7a31 0x7b05) := by
  have h1 : positVal 16 2 0x7a31 ≠ none := by decide
  have h2 : positVal 16 2 0x7b05 ≠ none := by decide
  obtain ⟨x, hx⟩ := Option.ne_none_iff_exists'.mp h1
  obtain ⟨y, hy⟩ := Option.ne_none_iff_exists'.mp h2
  exact ⟨x, y, hx, hy, C01_mul 16 2 _ _ (by decide) (by decide) (by decide) x y hx hy⟩


/-! ### negation, absolute value -/

/-- unary minus is exact: the value is negated, NaR stays NaR -/
theorem C01_neg_exact (n es a : ℕ) (hn : 2 ≤ n) (ha : a < 2 ^ n) :
    positVal n es (neg n a) = (positVal n es a).map (fun x => -x) := by
  have hp := two_pow_pred n (by omega)
  have hpos : 0 < 2 ^ (n - 1) := by positivity
  unfold neg twosComp
  rw [Nat.mod_eq_of_lt ha]
  by_cases h0 : a = 0
  · subst h0; simp [positVal]
  · have e : (2 ^ n - a) % 2 ^ n = 2 ^ n - a := Nat.mod_eq_of_lt (by omega)
    rw [e]
    unfold positVal
    simp only [Nat.mod_eq_of_lt ha, Nat.mod_eq_of_lt (show 2 ^ n - a < 2 ^ n by omega)]
    rw [if_neg (by omega), if_neg h0]
    by_cases h1 : a = 2 ^ (n - 1)
    · rw [if_pos (by omega), if_pos h1]; rfl
    · rw [if_neg (by omega), if_neg h1]
      by_cases h2 : a < 2 ^ (n - 1)
      · rw [if_neg (by omega), if_pos h2]
        simp only [Option.map_some]
        rw [show 2 ^ n - (2 ^ n - a) = a by omega]
      · rw [if_pos (by omega), if_neg h2]
        simp

example : positVal 16 2 (neg 16 0x7a31) = (positVal 16 2 0x7a31).map (fun x => -x) :=
  C01_neg_exact 16 2 0x7a31 (by decide) (by decide)

/-- abs is exact: the value is replaced by its absolute value, NaR stays NaR -/
theorem C01_abs_exact (n es a : ℕ) (hn : 2 ≤ n) (ha : a < 2 ^ n) :
    positVal n es (Posit.abs n a) = (positVal n es a).map (fun x => |x|) := by
  obtain ⟨N, rfl⟩ : ∃ N, n = N + 2 := ⟨n - 2, by omega⟩
  have hp : 2 ^ (N + 2) = 2 * 2 ^ (N + 1) := by rw [pow_succ]; ring
  have hpos : 0 < 2 ^ (N + 1) := by positivity
  unfold Posit.abs
  simp only [Nat.mod_eq_of_lt ha, show N + 2 - 1 = N + 1 from rfl]
  rw [testBit_top N a ha]
  by_cases h : 2 ^ (N + 1) ≤ a
  · simp only [h, decide_true, if_true]
    have := C01_neg_exact (N + 2) es a hn ha
    unfold neg at this
    rw [this]
    by_cases h1 : a = 2 ^ (N + 1)
    · rw [(positVal_none_iff (N + 2) es a ha).mpr h1]; rfl
    · unfold positVal
      simp only [Nat.mod_eq_of_lt ha, show N + 2 - 1 = N + 1 from rfl]
      rw [if_neg (by omega), if_neg h1, if_neg (by omega)]
      have hv := posVal_pos (N + 2) es (2 ^ (N + 2) - a) hn (by omega) (by simp only [show N + 2 - 1 = N + 1 from rfl]; omega)
      simp only [Option.map_some, neg_neg, abs_neg, abs_of_pos hv]
  · simp only [h, decide_false, Bool.false_eq_true, if_false]
    by_cases h0 : a = 0
    · subst h0; simp [positVal]
    · unfold positVal
      simp only [Nat.mod_eq_of_lt ha, show N + 2 - 1 = N + 1 from rfl]
      rw [if_neg h0, if_neg (by omega), if_pos (by omega)]
      have hv := posVal_pos (N + 2) es a hn (by omega) (by simp only [show N + 2 - 1 = N + 1 from rfl]; omega)
      simp only [Option.map_some, abs_of_pos hv]

example : positVal 16 2 (Posit.abs 16 0xc400) = (positVal 16 2 0xc400).map (fun x => |x|) :=
  C01_abs_exact 16 2 0xc400 (by decide) (by decide)

/-! ### NaR / zero rows -/

/-- special rows of the operator tables: NaR propagates, x/0 = NaR, 0 is neutral / absorbing -/
theorem C01_special (n es a b : ℕ) (hn : 2 ≤ n) (ha : a < 2 ^ n) (hb : b < 2 ^ n) :
    ((a = 2 ^ (n - 1) ∨ b = 2 ^ (n - 1)) →
        add n es a b = 2 ^ (n - 1) ∧ sub n es a b = 2 ^ (n - 1) ∧ mul n es a b = 2 ^ (n - 1) ∧
        div n es a b = 2 ^ (n - 1)) ∧
    (b = 0 → div n es a b = 2 ^ (n - 1)) ∧
    (a ≠ 2 ^ (n - 1) → add n es a 0 = a ∧ sub n es a 0 = a ∧ mul n es a 0 = 0 ∧ mul n es 0 a = 0 ∧
        add n es 0 a = a ∧ sub n es 0 a = neg n a) ∧
    (b ≠ 0 → b ≠ 2 ^ (n - 1) → div n es 0 b = 0) ∧
    positVal n es (2 ^ (n - 1)) = none ∧ positVal n es 0 = some 0 := by
  have hp := two_pow_pred n (by omega)
  have hpos : 0 < 2 ^ (n - 1) := by positivity
  have hnarlt : 2 ^ (n - 1) < 2 ^ n := by omega
  have hn0 : isNaR n 0 = false := by
    rw [← Bool.not_eq_true, isNaR_iff n 0 (by omega)]; omega
  have hnn : isNaR n (2 ^ (n - 1)) = true := (isNaR_iff n _ hnarlt).mpr rfl
  refine ⟨?_, ?_, ?_, ?_, (positVal_none_iff n es _ hnarlt).mpr rfl, (positVal_zero_iff n es 0 hn (by omega)).mpr rfl⟩
  · intro h
    have hor : (isNaR n a || isNaR n b) = true := by
      rcases h with h | h
      · rw [(isNaR_iff n a ha).mpr h]; rfl
      · rw [(isNaR_iff n b hb).mpr h]; simp
    unfold add sub mul div
    simp only [Nat.mod_eq_of_lt ha, Nat.mod_eq_of_lt hb, hor, if_true, true_and]
    by_cases hb0 : b = 0
    · rw [if_pos hb0]
    · rw [if_neg hb0]
      by_cases hbn : isNaR n b = true
      · rw [if_pos hbn]
      · rw [if_neg hbn]
        have han : isNaR n a = true := by
          rcases h with h | h
          · exact (isNaR_iff n a ha).mpr h
          · exact absurd ((isNaR_iff n b hb).mpr h) hbn
        have : (decide (a = 0) || isNaR n a) = true := by rw [han]; simp
        rw [if_pos this]; exact (isNaR_iff n a ha).mp han
  · intro h
    subst h
    unfold div
    simp
  · intro h
    have han : isNaR n a = false := by
      rw [← Bool.not_eq_true, isNaR_iff n a ha]; exact h
    have hm : a % 2 ^ n = a := Nat.mod_eq_of_lt ha
    refine ⟨?_, ?_, ?_, ?_, ?_, ?_⟩
    · unfold add; simp only [hm, Nat.zero_mod, han, hn0, Bool.or_self, Bool.false_eq_true, if_false, if_true]
      split <;> simp_all
    · unfold sub; simp only [hm, Nat.zero_mod, han, hn0, Bool.or_self, Bool.false_eq_true, if_false, if_true]
      split <;> simp_all [negEnc, twosComp]
    · unfold mul; simp [hm, han, hn0]
    · unfold mul; simp [hm, han, hn0]
    · unfold add; simp [hm, han, hn0]
    · unfold sub negEnc neg; simp [hm, han, hn0]
  · intro h0 hnar
    have hbn : isNaR n b = false := by
      rw [← Bool.not_eq_true, isNaR_iff n b hb]; exact hnar
    unfold div
    simp only [Nat.mod_eq_of_lt hb, Nat.zero_mod, h0, hbn, if_false, Bool.false_eq_true, decide_true,
      Bool.true_or, if_true]


/-! ### addition, subtraction -/

/-- addition of two real-valued posits is correctly rounded (every nbits ≥ 2, es, operands) -/
theorem C01_add (n es a b : ℕ) (hn : 2 ≤ n) (ha : a < 2 ^ n) (hb : b < 2 ^ n) (x y : ℚ)
    (hx : positVal n es a = some x) (hy : positVal n es b = some y) :
    PositNearest n es (x + y) (add n es a b) := by
  have hna : a ≠ 2 ^ (n - 1) := fun h => by
    rw [(positVal_none_iff n es a ha).mpr h] at hx; exact absurd hx (by simp)
  have hnb : b ≠ 2 ^ (n - 1) := fun h => by
    rw [(positVal_none_iff n es b hb).mpr h] at hy; exact absurd hy (by simp)
  have hia : isNaR n a = false := by
    rw [← Bool.not_eq_true, isNaR_iff n a ha]; exact hna
  have hib : isNaR n b = false := by
    rw [← Bool.not_eq_true, isNaR_iff n b hb]; exact hnb
  unfold PositNearest add
  simp only [Nat.mod_eq_of_lt ha, Nat.mod_eq_of_lt hb, hia, hib, Bool.or_self, Bool.false_eq_true,
    if_false]
  by_cases ha0 : a = 0
  · rw [if_pos ha0]
    subst ha0
    rw [(positVal_zero_iff n es 0 hn ha).mpr rfl] at hx
    rw [← Option.some.inj hx, zero_add]
    exact nearestB_self n es b hn hb y hy
  · rw [if_neg ha0]
    by_cases hb0 : b = 0
    · rw [if_pos hb0]
      subst hb0
      rw [(positVal_zero_iff n es 0 hn hb).mpr rfl] at hy
      rw [← Option.some.inj hy, add_zero]
      exact nearestB_self n es a hn ha x hx
    · rw [if_neg hb0]
      obtain ⟨fa, fba, va⟩ := decode_fin n es a hn ha ha0 hna
      obtain ⟨fb', fbb, vb⟩ := decode_fin n es b hn hb hb0 hnb
      rw [hx] at va; rw [hy] at vb
      rw [Option.some.inj va, Option.some.inj vb]
      exact moduleAdd_correct n es hn _ _ fa fb' fba fbb

/-- non-vacuity: posit<16,2>, 0x7a31 + 0x0203: scale gap far above abits (pure sticky operand) -/
example : ∃ x y, positVal 16 2 0x7a31 = some x ∧ positVal 16 2 0x0203 = some y ∧
    PositNearest 16 2 (x + y) (add 16 2 0x7a31 0x0203) := by
  have h1 : positVal 16 2 0x7a31 ≠ none := by decide
  have h2 : positVal 16 2 0x0203 ≠ none := by decide
  obtain ⟨x, hx⟩ := Option.ne_none_iff_exists'.mp h1
  obtain ⟨y, hy⟩ := Option.ne_none_iff_exists'.mp h2
  exact ⟨x, y, hx, hy, C01_add 16 2 _ _ (by decide) (by decide) (by decide) x y hx hy⟩

/-- subtraction of two real-valued posits is correctly rounded (every nbits ≥ 2, es, operands) -/
theorem C01_sub (n es a b : ℕ) (hn : 2 ≤ n) (ha : a < 2 ^ n) (hb : b < 2 ^ n) (x y : ℚ)
    (hx : positVal n es a = some x) (hy : positVal n es b = some y) :
    PositNearest n es (x - y) (sub n es a b) := by
  have hna : a ≠ 2 ^ (n - 1) := fun h => by
    rw [(positVal_none_iff n es a ha).mpr h] at hx; exact absurd hx (by simp)
  have hnb : b ≠ 2 ^ (n - 1) := fun h => by
    rw [(positVal_none_iff n es b hb).mpr h] at hy; exact absurd hy (by simp)
  have hia : isNaR n a = false := by
    rw [← Bool.not_eq_true, isNaR_iff n a ha]; exact hna
  have hib : isNaR n b = false := by
    rw [← Bool.not_eq_true, isNaR_iff n b hb]; exact hnb
  unfold PositNearest sub
  simp only [Nat.mod_eq_of_lt ha, Nat.mod_eq_of_lt hb, hia, hib, Bool.or_self, Bool.false_eq_true,
    if_false]
  by_cases ha0 : a = 0
  · rw [if_pos ha0]
    subst ha0
    rw [(positVal_zero_iff n es 0 hn ha).mpr rfl] at hx
    rw [← Option.some.inj hx, zero_sub]
    have hneg := C01_neg_exact n es b hn hb
    rw [hy] at hneg
    have hlt : neg n b < 2 ^ n := by unfold neg twosComp; exact Nat.mod_lt _ (by positivity)
    exact nearestB_self n es (negEnc n b) hn hlt (-y) hneg
  · rw [if_neg ha0]
    by_cases hb0 : b = 0
    · rw [if_pos hb0]
      subst hb0
      rw [(positVal_zero_iff n es 0 hn hb).mpr rfl] at hy
      rw [← Option.some.inj hy, sub_zero]
      exact nearestB_self n es a hn ha x hx
    · rw [if_neg hb0]
      obtain ⟨fa, fba, va⟩ := decode_fin n es a hn ha ha0 hna
      obtain ⟨fb', fbb, vb⟩ := decode_fin n es b hn hb hb0 hnb
      rw [hx] at va; rw [hy] at vb
      rw [Option.some.inj va, Option.some.inj vb]
      exact moduleSub_correct n es hn _ _ fa fb' fba fbb

/-- non-vacuity: near-cancellation a − (a + 1ulp) in posit<16,2> -/
example : ∃ x y, positVal 16 2 0x5a31 = some x ∧ positVal 16 2 0x5a32 = some y ∧
    PositNearest 16 2 (x - y) (sub 16 2 0x5a31 0x5a32) := by
  have h1 : positVal 16 2 0x5a31 ≠ none := by decide
  have h2 : positVal 16 2 0x5a32 ≠ none := by decide
  obtain ⟨x, hx⟩ := Option.ne_none_iff_exists'.mp h1
  obtain ⟨y, hy⟩ := Option.ne_none_iff_exists'.mp h2
  exact ⟨x, y, hx, hy, C01_sub 16 2 _ _ (by decide) (by decide) (by decide) x y hx hy⟩

/-- x − x = 0 exactly -/
theorem C01_sub_self (n es a : ℕ) (hn : 2 ≤ n) (ha : a < 2 ^ n) (hna : a ≠ 2 ^ (n - 1)) :
    sub n es a a = 0 := by
  have hia : isNaR n a = false := by
    rw [← Bool.not_eq_true, isNaR_iff n a ha]; exact hna
  unfold sub
  simp only [Nat.mod_eq_of_lt ha, hia, Bool.or_self, Bool.false_eq_true, if_false]
  by_cases ha0 : a = 0
  · rw [if_pos ha0]; subst ha0; unfold negEnc twosComp; simp
  · rw [if_neg ha0, if_neg ha0]
    obtain ⟨fa, fba, _⟩ := decode_fin n es a hn ha ha0 hna
    generalize decode n es a = v at *
    unfold moduleSub
    simp only [fa.ni, Bool.or_self, Bool.false_eq_true, if_false]
    rcases addCore_spec (fbitsOf n es) v v fa fa fba fba v.sign (!v.sign) (absLt v v)
        (fun _ => rfl) with ⟨hz, _⟩ | ⟨σ, g, S, hout, hE⟩
    · unfold convert; rw [if_pos hz]
    · exfalso
      obtain ⟨_, S0, S', hst, _, hpos, hS, _⟩ := hout
      have hSpos : 0 < S0 := sticky_pos hst hpos
      rw [sgn_not] at hE
      have h0 : sgn σ * (S * 2 ^ g) = 0 := by rw [← hE]; ring
      have hg := two_zpow_pos g
      have : sgn σ ≠ 0 := by unfold sgn; cases σ <;> simp
      rw [← hS] at h0
      have : S0 * 2 ^ g = 0 := by
        rcases mul_eq_zero.mp h0 with h | h
        · exact absurd h this
        · exact h
      have : 0 < S0 * 2 ^ g := by positivity
      linarith


/-! ### division -/

/-- division of two real-valued posits (divisor ≠ 0) is correctly rounded (every nbits ≥ 2, es,
    operands): the quotient truncated at 2·fhbits+4 bits rounds like the exact quotient. -/
theorem C01_div (n es a b : ℕ) (hn : 2 ≤ n) (ha : a < 2 ^ n) (hb : b < 2 ^ n) (x y : ℚ)
    (hx : positVal n es a = some x) (hy : positVal n es b = some y) (hy0 : y ≠ 0) :
    PositNearest n es (x / y) (div n es a b) := by
  have hna : a ≠ 2 ^ (n - 1) := fun h => by
    rw [(positVal_none_iff n es a ha).mpr h] at hx; exact absurd hx (by simp)
  have hnb : b ≠ 2 ^ (n - 1) := fun h => by
    rw [(positVal_none_iff n es b hb).mpr h] at hy; exact absurd hy (by simp)
  have hia : isNaR n a = false := by
    rw [← Bool.not_eq_true, isNaR_iff n a ha]; exact hna
  have hib : isNaR n b = false := by
    rw [← Bool.not_eq_true, isNaR_iff n b hb]; exact hnb
  have hb0 : b ≠ 0 := fun h => by
    subst h
    rw [(positVal_zero_iff n es 0 hn hb).mpr rfl] at hy
    exact hy0 (Option.some.inj hy).symm
  unfold PositNearest div
  simp only [Nat.mod_eq_of_lt ha, Nat.mod_eq_of_lt hb, hia, hib, Bool.false_eq_true, if_false, if_neg hb0,
    Bool.or_false]
  by_cases ha0 : a = 0
  · subst ha0
    rw [(positVal_zero_iff n es 0 hn ha).mpr rfl] at hx
    rw [← Option.some.inj hx]
    simp only [decide_true, if_true, zero_div]
    exact nearestB_zero n es
  · simp only [ha0, decide_false, Bool.false_eq_true, if_false]
    obtain ⟨fa, fba, va⟩ := decode_fin n es a hn ha ha0 hna
    obtain ⟨fb', fbb, vb⟩ := decode_fin n es b hn hb hb0 hnb
    rw [hx] at va; rw [hy] at vb
    rw [Option.some.inj va, Option.some.inj vb]
    exact moduleDiv_correct n es hn _ _ fa fb' fba fbb

/-- non-vacuity: posit<16,2> 0x5a31 / 0x4c07 -/
example : ∃ x y, positVal 16 2 0x5a31 = some x ∧ positVal 16 2 0x4c07 = some y ∧ y ≠ 0 ∧
    PositNearest 16 2 (x / y) (div 16 2 0x5a31 0x4c07) := by
  have h1 : positVal 16 2 0x5a31 ≠ none := by decide
  have h2 : positVal 16 2 0x4c07 ≠ none := by decide
  obtain ⟨x, hx⟩ := Option.ne_none_iff_exists'.mp h1
  obtain ⟨y, hy⟩ := Option.ne_none_iff_exists'.mp h2
  have hy0 : y ≠ 0 := by
    intro h; rw [h] at hy
    have := (positVal_zero_iff 16 2 0x4c07 (by decide) (by decide)).mp hy
    exact absurd this (by decide)
  exact ⟨x, y, hx, hy, hy0, C01_div 16 2 _ _ (by decide) (by decide) (by decide) x y hx hy hy0⟩

/-! ### reciprocal -/

/-- `reciprocal` of a non-zero real-valued posit is the correctly rounded 1/x (every nbits ≥ 2, es) -/
theorem C01_reciprocal (n es a : ℕ) (hn : 2 ≤ n) (ha : a < 2 ^ n) (x : ℚ)
    (hx : positVal n es a = some x) (hx0 : x ≠ 0) :
    PositNearest n es (1 / x) (reciprocal n es a) := by
  obtain ⟨N, rfl⟩ : ∃ N, n = N + 2 := ⟨n - 2, by omega⟩
  have hna : a ≠ 2 ^ (N + 1) := fun h => by
    rw [(positVal_none_iff (N + 2) es a ha).mpr h] at hx; exact absurd hx (by simp)
  have ha0 : a ≠ 0 := fun h => by
    subst h
    rw [(positVal_zero_iff (N + 2) es 0 hn ha).mpr rfl] at hx
    exact hx0 (Option.some.inj hx).symm
  obtain ⟨x', h1, _, h3⟩ := reciprocal_correct N es a ha ha0 hna
  rw [hx] at h1
  rw [Option.some.inj h1]; exact h3

/-- reciprocal of 0 and of NaR is NaR -/
theorem C01_reciprocal_special (n es : ℕ) (hn : 2 ≤ n) :
    reciprocal n es 0 = 2 ^ (n - 1) ∧ reciprocal n es (2 ^ (n - 1)) = 2 ^ (n - 1) := by
  have hp := two_pow_pred n (by omega)
  have hpos : 0 < 2 ^ (n - 1) := by positivity
  have hn0 : isNaR n 0 = false := by
    rw [← Bool.not_eq_true, isNaR_iff n 0 (by omega)]; omega
  have hnn : isNaR n (2 ^ (n - 1)) = true := (isNaR_iff n _ (by omega)).mpr rfl
  constructor
  · unfold reciprocal; simp [hn0]
  · unfold reciprocal
    simp only [Nat.mod_eq_of_lt (show 2 ^ (n - 1) < 2 ^ n by omega), hnn, if_true]

/-- non-vacuity: posit<16,2>: a power of two (shortcut branch) and a general operand -/
example : ∃ x, positVal 16 2 0x7000 = some x ∧ x ≠ 0 ∧ PositNearest 16 2 (1 / x) (reciprocal 16 2 0x7000) := by
  obtain ⟨x, h1, h2, h3⟩ := reciprocal_correct 14 2 0x7000 (by decide) (by decide) (by decide)
  exact ⟨x, h1, h2, h3⟩

example : ∃ x, positVal 16 2 0x5a31 = some x ∧ x ≠ 0 ∧ PositNearest 16 2 (1 / x) (reciprocal 16 2 0x5a31) := by
  obtain ⟨x, h1, h2, h3⟩ := reciprocal_correct 14 2 0x5a31 (by decide) (by decide) (by decide)
  exact ⟨x, h1, h2, h3⟩

/-! ### structure of the rounding relation -/

/-- appending a zero bit to an encoding keeps the value (n-bit posits are (n+1)-bit posits) -/
theorem C01_posVal_double (n es y : ℕ) (hn : 2 ≤ n) (hy0 : 0 < y) (hy : y < 2 ^ (n - 1)) :
    posVal (n + 1) es (2 * y) = posVal n es y := posVal_double n es y hn hy0 hy

/-- the (n+1)-bit posit 2y+1 (the Standard's rounding boundary) lies strictly between y and y+1 -/
theorem C01_posVal_midpoint (n es y : ℕ) (hn : 2 ≤ n) (hy0 : 0 < y) (hy : y + 1 < 2 ^ (n - 1)) :
    posVal n es y < posVal (n + 1) es (2 * y + 1) ∧
    posVal (n + 1) es (2 * y + 1) < posVal n es (y + 1) := posVal_midpoint n es y hn hy0 hy

/-- the Standard's rule is round-to-nearest-even of the unbounded encoding, clamped to [minpos, maxpos] -/
theorem C01_nearest_of_rne (n es : ℕ) (hn : 2 ≤ n) (s : ℤ) (f : ℚ) (hf : 0 ≤ f) (hf1 : f < 1) :
    nearestMagB n es ((2 : ℚ) ^ s * (1 + f)) (clampMag n (rne (encS n es s f))) = true :=
  nearest_of_rne n es hn s f hf hf1

/-- a non-zero real never rounds to 0 or NaR -/
theorem C01_never_zero_nor_nar (n es : ℕ) (hn : 2 ≤ n) (x : ℚ) (r : ℕ) (hx : x ≠ 0)
    (h : PositNearest n es x r) : r % 2 ^ n ≠ 0 ∧ r % 2 ^ n ≠ 2 ^ (n - 1) := by
  have hp := two_pow_pred n (by omega)
  have hpos : 0 < 2 ^ (n - 1) := by positivity
  have hlt : r % 2 ^ n < 2 ^ n := Nat.mod_lt _ (by positivity)
  unfold PositNearest nearestB at h
  simp only [if_neg hx] at h
  by_cases hp0 : x > 0
  · rw [if_pos hp0] at h
    simp only [Bool.and_eq_true, decide_eq_true_eq] at h
    obtain ⟨h1, h2⟩ := h
    unfold nearestMagB at h2
    simp only [] at h2
    by_cases hz : r % 2 ^ n = 0 ∨ r % 2 ^ n > maxposEnc n
    · rw [if_pos hz] at h2; exact absurd h2 (by simp)
    · exact ⟨fun h0 => hz (Or.inl h0), by omega⟩
  · rw [if_neg hp0] at h
    simp only [Bool.and_eq_true, decide_eq_true_eq] at h
    obtain ⟨h1, h2⟩ := h
    exact ⟨by omega, by omega⟩

/-- C01 in one statement: for every nbits ≥ 2, every es and every pair of real-valued operands the
    five arithmetic operators return the posit the Standard's rounding rule selects for the exact result. -/
theorem C01_arith (n es a b : ℕ) (hn : 2 ≤ n) (ha : a < 2 ^ n) (hb : b < 2 ^ n) (x y : ℚ)
    (hx : positVal n es a = some x) (hy : positVal n es b = some y) :
    PositNearest n es (x + y) (add n es a b) ∧ PositNearest n es (x - y) (sub n es a b) ∧
    PositNearest n es (x * y) (mul n es a b) ∧ (y ≠ 0 → PositNearest n es (x / y) (div n es a b)) ∧
    (x ≠ 0 → PositNearest n es (1 / x) (reciprocal n es a)) :=
  ⟨C01_add n es a b hn ha hb x y hx hy, C01_sub n es a b hn ha hb x y hx hy,
   C01_mul n es a b hn ha hb x y hx hy, C01_div n es a b hn ha hb x y hx hy,
   C01_reciprocal n es a hn ha x hx⟩
