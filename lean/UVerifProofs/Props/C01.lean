import UVerif.Model.Posit
open UVerif UVerif.Posit

/-- negation is an involution on encodings (two's complement twice), for every width. -/
theorem C01_neg_involutive (n a : Nat) (h : a < 2 ^ n) : neg n (neg n a) = a := by
  unfold neg twosComp
  rcases Nat.eq_zero_or_pos a with rfl | hp
  · simp
  · have h1 : a % 2 ^ n = a := Nat.mod_eq_of_lt h
    have h2 : (2 ^ n - a) < 2 ^ n := by omega
    rw [h1, Nat.mod_eq_of_lt h2, Nat.mod_eq_of_lt h2]
    have : 2 ^ n - (2 ^ n - a) = a := by omega
    rw [this, h1]
