/-
  C02 — cfloat arithmetic correctly rounded IEEE-style: property theorems about Model.Cfloat vs Spec.Cfloat.
  Helpers live in UVerifProofs/Lemmas/Cfloat*.lean.
-/
import UVerifProofs.Lemmas.CfloatVal
import UVerifProofs.Lemmas.CfloatRound
import UVerifProofs.Lemmas.CfloatMul
import UVerifProofs.Lemmas.CfloatOverflow
import UVerifProofs.Lemmas.CfloatAdd
import UVerifProofs.Lemmas.CfloatSubCore
import UVerifProofs.Lemmas.CfloatArith
import UVerifProofs.Lemmas.CfloatDivCore
import UVerifProofs.Lemmas.CfloatUnderflow
import UVerifProofs.Lemmas.CfloatAll
import UVerifProofs.Lemmas.CfloatDegenerate
open UVerif UVerif.Cfloat

/-- an operand the operator prologues decide: NaN, infinity or a (signed) zero -/
def C02_isSpecial : Val → Bool
  | .nan _ => true
  | .inf _ => true
  | .fin _ m => m == 0

/-- the expectation is one of the special-value rows (not an exact real to be rounded) -/
def C02_notReal : Expect → Bool
  | .real _ => false
  | _ => true

/-- special-value table of `+` : every row decided by the prologue of operator+= (NaN in ⇒ NaN out, inf−inf ⇒ NaN,
    inf ± x ⇒ inf, 0 + 0 ⇒ 0), all configurations, all operands -/
theorem C02_special_add (c : Cfg) (hv : c.valid = true) (a b : Nat) (ha : a < 2 ^ c.nbits) (hb : b < 2 ^ c.nbits)
    (hsp : C02_isSpecial (cfVal c a) = true ∨ C02_isSpecial (cfVal c b) = true)
    (hnr : C02_notReal (expectOp "add" (cfVal c a) (cfVal c b)) = true) :
    satisfies c (expectOp "add" (cfVal c a) (cfVal c b)) (add c a b) = true := by
  have hq := qnan_facts c hv
  have hs := snan_facts c hv
  have nanT : ∀ x, isNan c x = true → (isNanT c x true = true ∨ isNanT c x false = true) := by
    intro x hx; unfold isNanT; rw [hx]; cases c.signOf x <;> simp
  have nanTf : ∀ x t, isNan c x = false → isNanT c x t = false := by
    intro x t hx; unfold isNanT; rw [hx]; rfl
  have resNan : ∀ x y, (isNan c x = true ∨ isNan c y = true) →
      satisfies c .nan (add c x y) = true := by
    intro x y hxy
    unfold add
    by_cases h1 : (isNanT c x true || isNanT c y true) = true
    · rw [if_pos h1]; exact sat_nan c hv _ hs.1 (isNan_of_isNanEnc c hv _ hs.2.1)
    · rw [if_neg h1]
      have h2 : (isNanT c x false || isNanT c y false) = true := by
        simp only [Bool.or_eq_true, not_or, Bool.not_eq_true] at h1 ⊢
        rcases hxy with hx | hy
        · rcases nanT x hx with h | h
          · rw [h] at h1; exact absurd h1.1 (by simp)
          · left; exact h
        · rcases nanT y hy with h | h
          · rw [h] at h1; exact absurd h1.2 (by simp)
          · right; exact h
      rw [if_pos h2]; exact sat_nan c hv _ hq.1 (isNan_of_isNanEnc c hv _ hq.2.1)
  rcases cfVal_view c hv a with ⟨ea, na⟩ | ⟨ea, na, ia, za⟩ | ⟨ma, ea, na, ia, za⟩
  · -- a is NaN
    rw [ea]; exact resNan a b (Or.inl na)
  · rcases cfVal_view c hv b with ⟨eb, nb⟩ | ⟨eb, nb, ib, zb⟩ | ⟨mb, eb, nb, ib, zb⟩
    · rw [ea, eb]; exact resNan a b (Or.inr nb)
    · -- inf + inf
      rw [ea, eb]
      unfold add
      rw [nanTf a true na, nanTf b true nb, nanTf a false na, nanTf b false nb]
      simp only [Bool.or_self, Bool.false_eq_true, if_false, ia, ib, if_true, Bool.true_and]
      by_cases hss : c.signOf a = c.signOf b
      · have : expectOp "add" (Val.inf (c.signOf a)) (Val.inf (c.signOf b)) = .inf (c.signOf a) := by
          simp [expectOp, hss]
        rw [this]
        simp only [hss, bne_self_eq_false, Bool.false_eq_true, if_false]
        exact sat_inf c hv a _ ha ia hss
      · have : expectOp "add" (Val.inf (c.signOf a)) (Val.inf (c.signOf b)) = .nan := by
          simp [expectOp, hss]
        rw [this]
        have : (c.signOf a != c.signOf b) = true := by simpa using hss
        rw [this, if_pos rfl]
        exact sat_nan c hv _ hs.1 (isNan_of_isNanEnc c hv _ hs.2.1)
    · -- inf + finite
      rw [ea, eb]
      unfold add
      rw [nanTf a true na, nanTf b true nb, nanTf a false na, nanTf b false nb]
      simp only [Bool.or_self, Bool.false_eq_true, if_false, ia, ib, if_true, Bool.false_and]
      exact sat_inf c hv a _ ha ia rfl
  · rcases cfVal_view c hv b with ⟨eb, nb⟩ | ⟨eb, nb, ib, zb⟩ | ⟨mb, eb, nb, ib, zb⟩
    · rw [ea, eb]; exact resNan a b (Or.inr nb)
    · -- finite + inf
      rw [ea, eb]
      unfold add
      rw [nanTf a true na, nanTf b true nb, nanTf a false na, nanTf b false nb]
      simp only [Bool.or_self, Bool.false_eq_true, if_false, ia, ib, if_true]
      exact sat_inf c hv b _ hb ib rfl
    · -- finite + finite: only 0 + 0 is a special row
      rw [ea, eb] at hsp hnr ⊢
      by_cases hma : ma = 0
      · by_cases hmb : mb = 0
        · subst hma; subst hmb
          have e0 : expectOp "add" (Val.fin (c.signOf a) 0) (Val.fin (c.signOf b) 0) = .zero none := by
            simp [expectOp]
          rw [e0]
          unfold add
          rw [nanTf a true na, nanTf b true nb, nanTf a false na, nanTf b false nb]
          have za' : isZero c a = true := by rw [za]; simp
          have zb' : isZero c b = true := by rw [zb]; simp
          simp only [Bool.or_self, Bool.false_eq_true, if_false, ia, ib, za', if_true]
          exact sat_zero_any c hv b hb zb'
        · exfalso
          subst hma
          have : expectOp "add" (Val.fin (c.signOf a) 0) (Val.fin (c.signOf b) mb) = .real (if c.signOf b then -mb else mb) := by
            simp only [expectOp]
            cases c.signOf a <;> cases c.signOf b <;> simp [hmb]
          rw [this] at hnr; cases hnr
      · exfalso
        by_cases hmb : mb = 0
        · subst hmb
          have : expectOp "add" (Val.fin (c.signOf a) ma) (Val.fin (c.signOf b) 0) = .real (if c.signOf a then -ma else ma) := by
            simp only [expectOp]
            cases c.signOf a <;> cases c.signOf b <;> simp [hma]
          rw [this] at hnr; cases hnr
        · rcases hsp with h | h
          · simp [C02_isSpecial, hma] at h
          · simp [C02_isSpecial, hmb] at h

/-- special-value table of `*` : NaN in ⇒ NaN out, 0·inf ⇒ NaN, inf·x ⇒ ±inf, zero products carry the xor of the signs -/
theorem C02_special_mul (c : Cfg) (hv : c.valid = true) (a b : Nat) (ha : a < 2 ^ c.nbits) (hb : b < 2 ^ c.nbits)
    (hnr : C02_notReal (expectOp "mul" (cfVal c a) (cfVal c b)) = true) :
    satisfies c (expectOp "mul" (cfVal c a) (cfVal c b)) (mul c a b) = true := by
  have hq := qnan_facts c hv
  have qn : satisfies c .nan (qnan c) = true := sat_nan c hv _ hq.1 (isNan_of_isNanEnc c hv _ hq.2.1)
  rcases cfVal_view c hv a with ⟨ea, na⟩ | ⟨ea, na, ia, za⟩ | ⟨ma, ea, na, ia, za⟩
  · rw [ea]; unfold mul; exact prologue_nan c hv a b _ (Or.inl na)
  · rcases cfVal_view c hv b with ⟨eb, nb⟩ | ⟨eb, nb, ib, zb⟩ | ⟨mb, eb, nb, ib, zb⟩
    · rw [ea, eb]; unfold mul; exact prologue_nan c hv a b _ (Or.inr nb)
    · -- inf * inf
      rw [ea, eb]; unfold mul; rw [prologue_skip c a b _ na nb]
      simp only [ia, zb, if_true, Bool.false_eq_true, if_false]
      have sf := setSign_facts c hv a (c.signOf a != c.signOf b)
      exact sat_inf c hv _ _ sf.1 (isInf_setSign c hv a _ ia) sf.2.2
    · -- inf * finite
      rw [ea, eb]; unfold mul; rw [prologue_skip c a b _ na nb]
      simp only [ia, if_true]
      by_cases hmb : mb = 0
      · subst hmb
        have zb' : isZero c b = true := by rw [zb]; simp
        simp only [zb', if_true]
        simpa [expectOp] using qn
      · have zb' : isZero c b = false := by rw [zb]; simp [hmb]
        simp only [zb', Bool.false_eq_true, if_false]
        have sf := setSign_facts c hv a (c.signOf a != c.signOf b)
        have : expectOp "mul" (Val.inf (c.signOf a)) (Val.fin (c.signOf b) mb) = .inf (c.signOf a != c.signOf b) := by
          simp [expectOp, hmb]
        rw [this]
        exact sat_inf c hv _ _ sf.1 (isInf_setSign c hv a _ ia) sf.2.2
  · rcases cfVal_view c hv b with ⟨eb, nb⟩ | ⟨eb, nb, ib, zb⟩ | ⟨mb, eb, nb, ib, zb⟩
    · rw [ea, eb]; unfold mul; exact prologue_nan c hv a b _ (Or.inr nb)
    · -- finite * inf
      rw [ea, eb]; unfold mul; rw [prologue_skip c a b _ na nb]
      simp only [ia, ib, Bool.false_eq_true, if_false, if_true]
      by_cases hma : ma = 0
      · subst hma
        have za' : isZero c a = true := by rw [za]; simp
        simp only [za', if_true]
        simpa [expectOp] using qn
      · have za' : isZero c a = false := by rw [za]; simp [hma]
        simp only [za', Bool.false_eq_true, if_false]
        have sf := setInf_facts c hv (c.signOf a != c.signOf b)
        have : expectOp "mul" (Val.fin (c.signOf a) ma) (Val.inf (c.signOf b)) = .inf (c.signOf a != c.signOf b) := by
          simp [expectOp, hma]
        rw [this]
        exact sat_inf c hv _ _ sf.1 sf.2.1 sf.2.2
    · -- finite * finite: a zero factor
      rw [ea, eb] at hnr ⊢
      unfold mul; rw [prologue_skip c a b _ na nb]
      simp only [ia, ib, Bool.false_eq_true, if_false]
      by_cases hz : ma = 0 ∨ mb = 0
      · have zz : (isZero c a || isZero c b) = true := by
          rw [za, zb]; rcases hz with h | h <;> simp [h]
        simp only [zz, if_true]
        have : expectOp "mul" (Val.fin (c.signOf a) ma) (Val.fin (c.signOf b) mb) = .zero (some (c.signOf a != c.signOf b)) := by
          simp only [expectOp]; rw [if_pos hz]
        rw [this]
        have sf := signBit_facts c hv (c.signOf a != c.signOf b)
        exact sat_zero c hv _ _ sf.1 (isZero_of_isZeroEnc c hv _ sf.2.1) sf.2.2
      · exfalso
        have : expectOp "mul" (Val.fin (c.signOf a) ma) (Val.fin (c.signOf b) mb)
            = .real ((if (c.signOf a != c.signOf b) = true then -1 else 1) * (ma * mb)) := by
          simp only [expectOp]; rw [if_neg hz]
        rw [this] at hnr; cases hnr

/-- special-value table of `/` : NaN in ⇒ NaN out, 0/0 and inf/inf ⇒ NaN, x/0 ⇒ ±inf, inf/x ⇒ ±inf,
    x/inf and 0/x ⇒ zero with the xor of the signs -/
theorem C02_special_div (c : Cfg) (hv : c.valid = true) (a b : Nat) (ha : a < 2 ^ c.nbits) (hb : b < 2 ^ c.nbits)
    (hnr : C02_notReal (expectOp "div" (cfVal c a) (cfVal c b)) = true) :
    satisfies c (expectOp "div" (cfVal c a) (cfVal c b)) (div c a b) = true := by
  have hq := qnan_facts c hv
  have qn : satisfies c .nan (qnan c) = true := sat_nan c hv _ hq.1 (isNan_of_isNanEnc c hv _ hq.2.1)
  have sfi := setInf_facts c hv (c.signOf a != c.signOf b)
  have sfz := signBit_facts c hv (c.signOf a != c.signOf b)
  have sfs := setSign_facts c hv a (c.signOf a != c.signOf b)
  rcases cfVal_view c hv a with ⟨ea, na⟩ | ⟨ea, na, ia, za⟩ | ⟨ma, ea, na, ia, za⟩
  · rw [ea]; unfold div; exact prologue_nan c hv a b _ (Or.inl na)
  · rcases cfVal_view c hv b with ⟨eb, nb⟩ | ⟨eb, nb, ib, zb⟩ | ⟨mb, eb, nb, ib, zb⟩
    · rw [ea, eb]; unfold div; exact prologue_nan c hv a b _ (Or.inr nb)
    · -- inf / inf
      rw [ea, eb]; unfold div; rw [prologue_skip c a b _ na nb]
      simp only [ia, ib, zb, if_true, Bool.false_eq_true, if_false]
      simpa [expectOp] using qn
    · -- inf / finite
      rw [ea, eb]; unfold div; rw [prologue_skip c a b _ na nb]
      have : expectOp "div" (Val.inf (c.signOf a)) (Val.fin (c.signOf b) mb) = .inf (c.signOf a != c.signOf b) := by
        simp [expectOp]
      rw [this]
      by_cases hmb : mb = 0
      · have zb' : isZero c b = true := by rw [zb]; simp [hmb]
        simp only [zb', za, if_true, Bool.false_eq_true, if_false]
        exact sat_inf c hv _ _ sfi.1 sfi.2.1 sfi.2.2
      · have zb' : isZero c b = false := by rw [zb]; simp [hmb]
        simp only [zb', ia, ib, if_true, Bool.false_eq_true, if_false]
        exact sat_inf c hv _ _ sfs.1 (isInf_setSign c hv a _ ia) sfs.2.2
  · rcases cfVal_view c hv b with ⟨eb, nb⟩ | ⟨eb, nb, ib, zb⟩ | ⟨mb, eb, nb, ib, zb⟩
    · rw [ea, eb]; unfold div; exact prologue_nan c hv a b _ (Or.inr nb)
    · -- finite / inf
      rw [ea, eb]; unfold div; rw [prologue_skip c a b _ na nb]
      simp only [zb, ia, ib, if_true, Bool.false_eq_true, if_false]
      have : expectOp "div" (Val.fin (c.signOf a) ma) (Val.inf (c.signOf b)) = .zero (some (c.signOf a != c.signOf b)) := by
        simp [expectOp]
      rw [this]
      exact sat_zero c hv _ _ sfz.1 (isZero_of_isZeroEnc c hv _ sfz.2.1) sfz.2.2
    · -- finite / finite
      rw [ea, eb] at hnr ⊢
      unfold div; rw [prologue_skip c a b _ na nb]
      by_cases hmb : mb = 0
      · have zb' : isZero c b = true := by rw [zb]; simp [hmb]
        simp only [zb', if_true]
        by_cases hma : ma = 0
        · have za' : isZero c a = true := by rw [za]; simp [hma]
          simp only [za', if_true]
          have : expectOp "div" (Val.fin (c.signOf a) ma) (Val.fin (c.signOf b) mb) = .nan := by
            simp [expectOp, hma, hmb]
          rw [this]; exact qn
        · have za' : isZero c a = false := by rw [za]; simp [hma]
          simp only [za', Bool.false_eq_true, if_false]
          have : expectOp "div" (Val.fin (c.signOf a) ma) (Val.fin (c.signOf b) mb) = .inf (c.signOf a != c.signOf b) := by
            simp [expectOp, hma, hmb]
          rw [this]
          exact sat_inf c hv _ _ sfi.1 sfi.2.1 sfi.2.2
      · have zb' : isZero c b = false := by rw [zb]; simp [hmb]
        simp only [zb', ia, ib, Bool.false_eq_true, if_false]
        by_cases hma : ma = 0
        · have za' : isZero c a = true := by rw [za]; simp [hma]
          simp only [za', if_true]
          have : expectOp "div" (Val.fin (c.signOf a) ma) (Val.fin (c.signOf b) mb) = .zero (some (c.signOf a != c.signOf b)) := by
            simp [expectOp, hma, hmb]
          rw [this]
          exact sat_zero c hv _ _ sfz.1 (isZero_of_isZeroEnc c hv _ sfz.2.1) sfz.2.2
        · exfalso
          have : expectOp "div" (Val.fin (c.signOf a) ma) (Val.fin (c.signOf b) mb)
              = .real ((if (c.signOf a != c.signOf b) = true then -1 else 1) * (ma / mb)) := by
            simp only [expectOp]; rw [if_neg hmb, if_neg hma]
          rw [this] at hnr; cases hnr

/-- subtraction is addition of the negated operand, also in the special-value table -/
theorem C02_expect_sub_eq_add_neg (va vb : Val) : expectOp "sub" va vb = expectOp "add" va (negVal vb) :=
  expect_sub_eq_add_neg va vb

/-- special-value table of `-` (through `+` of the negated operand; a NaN subtrahend is passed on unchanged) -/
theorem C02_special_sub (c : Cfg) (hv : c.valid = true) (a b : Nat) (ha : a < 2 ^ c.nbits) (hb : b < 2 ^ c.nbits)
    (hsp : C02_isSpecial (cfVal c a) = true ∨ C02_isSpecial (cfVal c b) = true)
    (hnr : C02_notReal (expectOp "sub" (cfVal c a) (cfVal c b)) = true) :
    satisfies c (expectOp "sub" (cfVal c a) (cfVal c b)) (sub c a b) = true := by
  unfold sub
  by_cases hn : isNan c b = true
  · rw [if_pos hn]
    have e1 : (cfVal c b).isNan = true := by rw [cfVal_isNan c hv, hn]
    have : expectOp "sub" (cfVal c a) (cfVal c b) = expectOp "add" (cfVal c a) (cfVal c b) := by
      cases hb' : cfVal c b with
      | nan t => cases cfVal c a <;> simp [expectOp]
      | inf t => rw [hb'] at e1; cases e1
      | fin t y => rw [hb'] at e1; cases e1
    rw [this] at hnr ⊢
    exact C02_special_add c hv a b ha hb hsp hnr
  · rw [if_neg hn]
    have nf := negate_facts c hv b
    rw [C02_expect_sub_eq_add_neg, ← cfVal_negate c hv] at hnr ⊢
    refine C02_special_add c hv a (negate c b) ha nf.1 ?_ hnr
    rcases hsp with h | h
    · left; exact h
    · right; rw [cfVal_negate c hv]; cases hv' : cfVal c b <;> rw [hv'] at h <;> simpa [negVal, C02_isSpecial] using h

/-- the special-value decision table of C02 for all four operators, every valid configuration (any nbits, es,
    block type, flags) and all operand encodings: whenever the property's table (not the rounding rule) decides
    the result, the model's result satisfies it. For + and − the rows with two finite non-zero operands whose
    exact sum is zero go through the arithmetic path and are not part of this theorem. -/
theorem C02_special (c : Cfg) (hv : c.valid = true) (a b : Nat) (ha : a < 2 ^ c.nbits) (hb : b < 2 ^ c.nbits) :
    ((C02_isSpecial (cfVal c a) = true ∨ C02_isSpecial (cfVal c b) = true) →
      C02_notReal (expectOp "add" (cfVal c a) (cfVal c b)) = true →
      satisfies c (expectOp "add" (cfVal c a) (cfVal c b)) (add c a b) = true) ∧
    ((C02_isSpecial (cfVal c a) = true ∨ C02_isSpecial (cfVal c b) = true) →
      C02_notReal (expectOp "sub" (cfVal c a) (cfVal c b)) = true →
      satisfies c (expectOp "sub" (cfVal c a) (cfVal c b)) (sub c a b) = true) ∧
    (C02_notReal (expectOp "mul" (cfVal c a) (cfVal c b)) = true →
      satisfies c (expectOp "mul" (cfVal c a) (cfVal c b)) (mul c a b) = true) ∧
    (C02_notReal (expectOp "div" (cfVal c a) (cfVal c b)) = true →
      satisfies c (expectOp "div" (cfVal c a) (cfVal c b)) (div c a b) = true) :=
  ⟨C02_special_add c hv a b ha hb, C02_special_sub c hv a b ha hb,
   C02_special_mul c hv a b ha hb, C02_special_div c hv a b ha hb⟩

/-- non-vacuity: 0 · inf in cfloat<8,2> with subnormals is a row of the table and yields a NaN -/
example : let c : Cfg := { nbits := 8, es := 2, sub := true }
    c.valid = true ∧ C02_notReal (expectOp "mul" (cfVal c 0) (cfVal c 0x7e)) = true ∧ isNan c (mul c 0 0x7e) = true := by
  decide +kernel

/-! ### tables regenerated from native/subnormal.hpp -/

/-- `subnormal_reciprocal_shift[es]` = 2^(es-1) − 2 = −MIN_EXP_NORMAL for every es the class allows (1…20) -/
theorem C02_tables_reciprocal_shift :
    ∀ es : Fin 21, 1 ≤ es.val → UVerif.Generated.subnormalReciprocalShift.getD es.val 0 = ((2 ^ (es.val - 1) : Nat) : Int) - 2 :=
  tables_reciprocal_shift

/-- hence the subnormal right-shift adjustment of convert() is MIN_EXP_NORMAL − exponent -/
theorem C02_srs_eq (c : Cfg) (h1 : 1 ≤ c.es) (h2 : c.es ≤ 20) : c.srs = - c.minExpNormal := by
  have := C02_tables_reciprocal_shift ⟨c.es, by omega⟩ h1
  unfold Cfg.srs Cfg.minExpNormal Cfg.bias
  simp only at this
  rw [this]; omega

/-! ### full statements, and where the pinned code falsifies them -/

/-- full statement of C02 for one operator: every result satisfies the table / the rounding relation -/
def C02_op_full (op : String) (f : Cfg → Nat → Nat → Nat) : Prop :=
  ∀ (c : Cfg) (a b : Nat), c.valid = true → a < 2 ^ c.nbits → b < 2 ^ c.nbits →
    satisfies c (expectOp op (cfVal c a) (cfVal c b)) (f c a b) = true

def C02_add_full : Prop := C02_op_full "add" add
def C02_sub_full : Prop := C02_op_full "sub" sub
def C02_mul_full : Prop := C02_op_full "mul" mul
def C02_div_full : Prop := C02_op_full "div" div

/-- D4: saturating without supernormals, 2.0 + 3.5 in cfloat<5,2>: the model (like the code) returns the infinity
    encoding 0b01110; the property demands maxpos 0b01011. -/
theorem C02_add_sat_nosup_counterexample :
    let c : Cfg := { nbits := 5, es := 2, sat := true }
    add c 0x8 0xb = 0xe ∧ ¬ IeeeNearest c (11 / 2) (add c 0x8 0xb) ∧ IeeeNearest c (11 / 2) 0xb := by
  decide +kernel

theorem C02_add_full_false : ¬ C02_add_full := by
  intro h
  have := h { nbits := 5, es := 2, sat := true } 0x8 0xb (by decide) (by decide) (by decide)
  revert this
  decide +kernel

/-- D5: single precision 2^67 / (2^67·(1−3·2^-24)): the > 64-bit branch of convert truncates: 0x3f800001, RNE is 0x3f800002 -/
theorem C02_div_wide_counterexample :
    let c : Cfg := { nbits := 32, es := 8, bt := 32, sub := true }
    div c 0x61000000 0x60fffffd = 0x3f800001 ∧
    ¬ IeeeNearest c (16777216 / 16777213) (div c 0x61000000 0x60fffffd) ∧ IeeeNearest c (16777216 / 16777213) 0x3f800002 := by
  decide +kernel

theorem C02_div_full_false : ¬ C02_div_full := by
  intro h
  have := h { nbits := 32, es := 8, bt := 32, sub := true } 0x61000000 0x60fffffd (by decide) (by decide) (by decide)
  revert this
  decide +kernel

/-- D5 for multiplication needs fbits ≥ 32: cfloat<40,8> has fbits = 31 (64-bit triple, rounded), duble has 52. -/
theorem C02_mul_wide_counterexample :
    let c : Cfg := { nbits := 64, es := 11, bt := 32, sub := true }
    mul c 0xc9377e5b5f3fffff 0xc9377e5b5f400000 = 0x52813f96497efed6 ∧
    satisfies c (expectOp "mul" (cfVal c 0xc9377e5b5f3fffff) (cfVal c 0xc9377e5b5f400000)) 0x52813f96497efed6 = false ∧
    satisfies c (expectOp "mul" (cfVal c 0xc9377e5b5f3fffff) (cfVal c 0xc9377e5b5f400000)) 0x52813f96497efed7 = true := by
  decide +kernel

theorem C02_mul_full_false : ¬ C02_mul_full := by
  intro h
  have := h { nbits := 64, es := 11, bt := 32, sub := true } 0xc9377e5b5f3fffff 0xc9377e5b5f400000 (by decide) (by decide) (by decide)
  revert this
  decide +kernel

/-- saturating with supernormals: 1.0 + 5.0 in cfloat<5,2,sup,sat> saturates to 0b01110, the encoding that
    `isinf` (and the spec) read as +infinity; the largest finite value is 0b01101 = 5.0 -/
theorem C02_add_sat_sup_counterexample :
    let c : Cfg := { nbits := 5, es := 2, sup := true, sat := true }
    add c 0x4 0xd = 0xe ∧ isInf c 0xe = true ∧ ¬ IeeeNearest c 6 (add c 0x4 0xd) ∧ IeeeNearest c 6 0xd := by
  decide +kernel

/-- D5 as a theorem about the model: on the > 64-bit path (normal range, no early underflow/overflow exit) the
    stored fraction is ⌊sig / 2^t⌋ mod 2^fbits — the discarded bits `sig mod 2^t` never influence the result, i.e.
    the exact value is truncated toward zero instead of rounded (so the result is within one ulp, below in magnitude). -/
theorem C02_wide_truncates_partial (c : Cfg) (o : Op) (sign : Bool) (scale : Int) (sig : Nat)
    (hw : 65 ≤ o.bfbits c.fbits)
    (hlo : c.minExpNormal ≤ scale + sigScale (o.radix c.fbits) sig)
    (hhi : scale + sigScale (o.radix c.fbits) sig ≤ c.maxExp) :
    convertFinite c o sign scale sig =
      signBit c sign
        + (((scale + sigScale (o.radix c.fbits) sig + c.bias).toNat % 2 ^ c.es) <<< c.fbits)
        + ((sig >>> (sigScale (o.radix c.fbits) sig + o.radix c.fbits - c.fbits))
              % 2 ^ (min ((1 + (c.fbits - 1) / c.bt) * c.bt) (c.nrBlocks * c.bt))) % 2 ^ c.fbits := by
  have hb : c.bias = c.bias := rfl
  have h1 : ¬ (scale + sigScale (o.radix c.fbits) sig < c.minExpSubnormal) := by
    unfold Cfg.minExpSubnormal; unfold Cfg.minExpNormal at hlo; omega
  have h2 : ¬ (scale + sigScale (o.radix c.fbits) sig + c.bias ≤ 0) := by
    unfold Cfg.minExpNormal at hlo; omega
  have h3 : ¬ (scale + sigScale (o.radix c.fbits) sig > c.maxExp) := by omega
  have h4 : ¬ (scale + sigScale (o.radix c.fbits) sig < c.minExpNormal) := by omega
  have h5 : ¬ (o.bfbits c.fbits < 65) := by omega
  unfold convertFinite
  simp only [h1, h2, h3, h4, h5, and_false, if_false, Nat.add_zero]
  unfold assembleWide
  simp only [h1, h3, h4, or_self, if_false]


/-! ### rounding correctness -/

/-- guard/round/sticky + increment of `convert` is round-half-even of sig / 2^t, every width -/
theorem C02_round_step (sig t : Nat) :
    (sig >>> t) + (if roundingDirection sig t then 1 else 0) = rneShr sig t :=
  shift_round_eq_rneShr sig t

/-- **rounding correctness of convert(blocktriple → cfloat)** on the ≤ 64-bit path in the normal range, for every
    configuration (nbits, es, block type, flags), every operator's triple layout, every sign/scale/significant:
    the produced encoding is in range and satisfies the IEEE rounding relation for ± sig · 2^(scale − radix).
    Side conditions (all decidable): the triple fits 64 bits, the significant is normalised, and the exponent
    scale + significantscale lies in [MIN_EXP_NORMAL, MAX_EXP − 2] (so neither the subnormal shift nor the
    overflow cusp next to the inf/NaN encodings is involved — those regions are open, see `C02_convert_full`). -/
theorem C02_convert_round_normal (c : Cfg) (hv : c.valid = true) (o : Op) (sign : Bool) (scale : Int) (sig : Nat)
    (hnarrow : o.bfbits c.fbits < 65)
    (hsig : 2 ^ (o.radix c.fbits) ≤ sig)
    (hlo : c.minExpNormal ≤ scale + sigScale (o.radix c.fbits) sig)
    (hhi : scale + sigScale (o.radix c.fbits) sig + c.bias + 1 < c.emax) :
    convertFinite c o sign scale sig < 2 ^ c.nbits ∧
    IeeeNearest c ((if sign then -1 else 1) * ((sig : ℚ) * pow2 (scale - (o.radix c.fbits : Int))))
      (convertFinite c o sign scale sig) := by
  have hrad : c.fbits ≤ o.radix c.fbits := by cases o <;> simp [Op.radix] <;> omega
  obtain ⟨h1, h2⟩ := convert_round_normal c hv o sign scale sig hnarrow hsig hrad hlo hhi
  refine ⟨h1, ?_⟩
  unfold IeeeNearest
  have hne : ¬ ((if sign = true then (-1 : ℚ) else 1) * ((sig : ℚ) * pow2 (scale - (o.radix c.fbits : Int))) = 0) := by
    have hs : (0 : ℚ) < (sig : ℚ) := by
      have : 0 < sig := lt_of_lt_of_le (two_pow_pos _) hsig
      exact_mod_cast this
    have hp := pow2_pos (scale - (o.radix c.fbits : Int))
    have h0 : (if sign = true then (-1 : ℚ) else 1) ≠ 0 := by cases sign <;> simp
    exact mul_ne_zero h0 (mul_ne_zero (ne_of_gt hs) (ne_of_gt hp))
  rw [if_neg hne]; exact h2

/-- full statement of convert's correctness for every finite non-zero triple (false on the > 64-bit path — D5 — and
    for saturating configurations — D4, sat∧sup; outside those classes it is `C02_convert_partial` below) -/
def C02_convert_full : Prop :=
  ∀ (c : Cfg) (o : Op) (sign : Bool) (scale : Int) (sig : Nat), c.valid = true →
    2 ^ (o.radix c.fbits) ≤ sig → sig < 2 ^ (o.bfbits c.fbits) →
    IeeeNearest c ((if sign then -1 else 1) * ((sig : ℚ) * pow2 (scale - (o.radix c.fbits : Int))))
      (convertFinite c o sign scale sig)

/-- decidable side condition of `C02_mul_normal_partial`: the product's exponent stays in the normal range, at least two
    below the all-ones exponent -/
def C02_mul_inRange (c : Cfg) (a b : Nat) : Bool :=
  let sc : Int := ((c.expOf a : Int) - c.bias) + ((c.expOf b : Int) - c.bias)
  let p := (2 ^ c.fbits + c.fracOf a) * (2 ^ c.fbits + c.fracOf b)
  let E := sc + sigScale (2 * c.fbits) p
  decide (c.minExpNormal ≤ E) && decide (E + c.bias + 1 < c.emax)

/-- **C02 for multiplication** (partial): for every configuration with fbits ≤ 31 (the product triple fits 64
    bits) and all finite operands with non-zero exponent field (normals, and supernormals when present) whose
    product lands in the normal range below the overflow cusp, operator* returns an encoding that satisfies the
    IEEE rounding relation for the exact product — exact product, one rounding. -/
theorem C02_mul_normal_partial (c : Cfg) (hv : c.valid = true) (a b : Nat)
    (hnarrow : 2 * c.fbits + 2 < 65)
    (hna : normalOperand c a = true) (hnb : normalOperand c b = true)
    (hr : C02_mul_inRange c a b = true) :
    satisfies c (expectOp "mul" (cfVal c a) (cfVal c b)) (mul c a b) = true := by
  unfold C02_mul_inRange at hr
  simp only [Bool.and_eq_true, decide_eq_true_eq] at hr
  obtain ⟨hlo, hhi⟩ := hr
  obtain ⟨hmul, hexp, hp⟩ := mul_normal_operands c hv a b hna hnb
  obtain ⟨hb1, hb2⟩ := convert_round_normal c hv .mul _ _ _
      (by simp only [Op.bfbits]; exact hnarrow) hp (by simp only [Op.radix]; omega)
      (by simp only [Op.radix]; exact hlo) (by simp only [Op.radix]; exact hhi)
  rw [hexp, hmul]
  unfold satisfies
  simp only [Bool.and_eq_true, decide_eq_true_eq]
  exact ⟨hb1, hb2⟩

/-- side condition of `C02_mul_subnormal_partial`: the product's exponent lies in the subnormal range -/
def C02_mul_inSubnormalRange (c : Cfg) (a b : Nat) : Bool :=
  let sc : Int := ((c.expOf a : Int) - c.bias) + ((c.expOf b : Int) - c.bias)
  let p := (2 ^ c.fbits + c.fracOf a) * (2 ^ c.fbits + c.fracOf b)
  let E := sc + sigScale (2 * c.fbits) p
  decide (c.minExpSubnormal ≤ E) && decide (E < c.minExpNormal)

/-- rounding correctness of convert for **subnormal results** (configurations with subnormals, 2 ≤ es ≤ 20,
    ≤ 64-bit path): exponent in [MIN_EXP_SUBNORMAL, MIN_EXP_NORMAL) ⇒ nearest subnormal / smallest normal, ties to even -/
theorem C02_convert_round_subnormal (c : Cfg) (hv : c.valid = true) (hsub : c.sub = true) (hes2 : 2 ≤ c.es) (hes20 : c.es ≤ 20)
    (o : Op) (sign : Bool) (scale : Int) (sig : Nat)
    (hnarrow : o.bfbits c.fbits < 65)
    (hsig : 2 ^ (o.radix c.fbits) ≤ sig)
    (hlo : c.minExpSubnormal ≤ scale + sigScale (o.radix c.fbits) sig)
    (hhi : scale + sigScale (o.radix c.fbits) sig < c.minExpNormal) :
    convertFinite c o sign scale sig < 2 ^ c.nbits ∧
    IeeeNearest c ((if sign then -1 else 1) * ((sig : ℚ) * pow2 (scale - (o.radix c.fbits : Int))))
      (convertFinite c o sign scale sig) := by
  have hrad : c.fbits ≤ o.radix c.fbits := by cases o <;> simp [Op.radix] <;> omega
  obtain ⟨h1, h2⟩ := convert_round_subnormal c hv hsub hes2 hes20 o sign scale sig hnarrow hsig hrad hlo hhi
  refine ⟨h1, ?_⟩
  unfold IeeeNearest
  have hne : ¬ ((if sign = true then (-1 : ℚ) else 1) * ((sig : ℚ) * pow2 (scale - (o.radix c.fbits : Int))) = 0) := by
    have hs : (0 : ℚ) < (sig : ℚ) := by
      have : 0 < sig := lt_of_lt_of_le (two_pow_pos _) hsig
      exact_mod_cast this
    have hp := pow2_pos (scale - (o.radix c.fbits : Int))
    have h0 : (if sign = true then (-1 : ℚ) else 1) ≠ 0 := by cases sign <;> simp
    exact mul_ne_zero h0 (mul_ne_zero (ne_of_gt hs) (ne_of_gt hp))
  rw [if_neg hne]; exact h2

/-- **C02 for multiplication, gradual underflow**: with subnormals (2 ≤ es ≤ 20, fbits ≤ 31) a product of two
    normal operands whose exponent falls in the subnormal range is rounded to the nearest subnormal (or to the
    smallest normal), ties to even. -/
theorem C02_mul_subnormal_partial (c : Cfg) (hv : c.valid = true) (hsub : c.sub = true) (hes2 : 2 ≤ c.es) (hes20 : c.es ≤ 20)
    (a b : Nat) (hnarrow : 2 * c.fbits + 2 < 65)
    (hna : normalOperand c a = true) (hnb : normalOperand c b = true)
    (hr : C02_mul_inSubnormalRange c a b = true) :
    satisfies c (expectOp "mul" (cfVal c a) (cfVal c b)) (mul c a b) = true := by
  unfold C02_mul_inSubnormalRange at hr
  simp only [Bool.and_eq_true, decide_eq_true_eq] at hr
  obtain ⟨hlo, hhi⟩ := hr
  obtain ⟨hmul, hexp, hp⟩ := mul_normal_operands c hv a b hna hnb
  obtain ⟨hb1, hb2⟩ := convert_round_subnormal c hv hsub hes2 hes20 .mul _ _ _
      (by simp only [Op.bfbits]; exact hnarrow) hp (by simp only [Op.radix]; omega)
      (by simp only [Op.radix]; exact hlo) (by simp only [Op.radix]; exact hhi)
  rw [hexp, hmul]
  unfold satisfies
  simp only [Bool.and_eq_true, decide_eq_true_eq]
  exact ⟨hb1, hb2⟩

/-- non-vacuity: 0.3125 × 0.28125 in cfloat<8,3,sub> lands in the subnormal range (5.625 ulp) and is rounded up to 6 ulp -/
example : let c : Cfg := { nbits := 8, es := 3, sub := true }
    normalOperand c 0x14 = true ∧ normalOperand c 0x12 = true ∧ C02_mul_inSubnormalRange c 0x14 0x12 = true ∧
    mul c 0x14 0x12 = 0x06 := by
  decide +kernel

/-- non-vacuity: 1.3125 × 1.75 in cfloat<8,3,sub> satisfies every hypothesis (and the product 2.296875 is inexact) -/
example : let c : Cfg := { nbits := 8, es := 3, sub := true }
    c.valid = true ∧ 2 * c.fbits + 2 < 65 ∧ normalOperand c 0x35 = true ∧ normalOperand c 0x3c = true ∧
    C02_mul_inRange c 0x35 0x3c = true ∧ mul c 0x35 0x3c = 0x42 := by
  decide +kernel


/-! ### overflow -/

/-- **results beyond the range**: when the exponent of the exact value exceeds MAX_EXP, convert returns ±infinity in
    non-saturating configurations and ±maxFinite in saturating configurations without supernormals — for every
    es ≥ 2, every width, both the ≤ 64-bit and the > 64-bit path (the test precedes the split). The saturating +
    supernormal combination is excluded: there maxpos() is the infinity encoding (known finding). -/
theorem C02_convert_overflow (c : Cfg) (hv : c.valid = true) (hes2 : 2 ≤ c.es) (hcfg : c.sat = false ∨ c.sup = false)
    (o : Op) (sign : Bool) (scale : Int) (sig : Nat)
    (hsig : 2 ^ (o.radix c.fbits) ≤ sig)
    (hhi : c.maxExp < scale + sigScale (o.radix c.fbits) sig) :
    convertFinite c o sign scale sig < 2 ^ c.nbits ∧
    IeeeNearest c ((if sign then -1 else 1) * ((sig : ℚ) * pow2 (scale - (o.radix c.fbits : Int))))
      (convertFinite c o sign scale sig) := by
  obtain ⟨h1, h2⟩ := convert_overflow c hv hes2 hcfg o sign scale sig hsig hhi
  refine ⟨h1, ?_⟩
  unfold IeeeNearest
  have hne : ¬ ((if sign = true then (-1 : ℚ) else 1) * ((sig : ℚ) * pow2 (scale - (o.radix c.fbits : Int))) = 0) := by
    have hs : (0 : ℚ) < (sig : ℚ) := by
      have : 0 < sig := lt_of_lt_of_le (two_pow_pos _) hsig
      exact_mod_cast this
    have hp := pow2_pos (scale - (o.radix c.fbits : Int))
    have h0 : (if sign = true then (-1 : ℚ) else 1) ≠ 0 := by cases sign <;> simp
    exact mul_ne_zero h0 (mul_ne_zero (ne_of_gt hs) (ne_of_gt hp))
  rw [if_neg hne]; exact h2

/-- side condition: the product's exponent exceeds MAX_EXP -/
def C02_mul_overflows (c : Cfg) (a b : Nat) : Bool :=
  let sc : Int := ((c.expOf a : Int) - c.bias) + ((c.expOf b : Int) - c.bias)
  let p := (2 ^ c.fbits + c.fracOf a) * (2 ^ c.fbits + c.fracOf b)
  decide (c.maxExp < sc + sigScale (2 * c.fbits) p)

/-- **C02 for multiplication, overflow**: products of finite operands whose exponent exceeds MAX_EXP give ±inf
    (non-saturating) or ±maxFinite (saturating, no supernormals) — every width incl. single and duble -/
theorem C02_mul_overflow_partial (c : Cfg) (hv : c.valid = true) (hes2 : 2 ≤ c.es) (hcfg : c.sat = false ∨ c.sup = false)
    (a b : Nat) (hna : normalOperand c a = true) (hnb : normalOperand c b = true)
    (hr : C02_mul_overflows c a b = true) :
    satisfies c (expectOp "mul" (cfVal c a) (cfVal c b)) (mul c a b) = true := by
  unfold C02_mul_overflows at hr
  simp only [decide_eq_true_eq] at hr
  obtain ⟨hmul, hexp, hp⟩ := mul_normal_operands c hv a b hna hnb
  obtain ⟨hb1, hb2⟩ := convert_overflow c hv hes2 hcfg .mul _ _ _ hp (by simp only [Op.radix]; exact hr)
  rw [hexp, hmul]
  unfold satisfies
  simp only [Bool.and_eq_true, decide_eq_true_eq]
  exact ⟨hb1, hb2⟩

/-- non-vacuity: 3e38 × 3e38 in single precision (wide path) overflows to +inf -/
example : let c : Cfg := { nbits := 32, es := 8, bt := 32, sub := true }
    normalOperand c 0x7f61b1e6 = true ∧ C02_mul_overflows c 0x7f61b1e6 0x7f61b1e6 = true ∧ mul c 0x7f61b1e6 0x7f61b1e6 = 0x7ffffffe := by
  decide +kernel


/-! ### addition -/

/-- guard/round/sticky soundness (`add_sticky_sound` of DESIGN.md): the sticky right shift used by
    blocktriple::add is a round-to-odd image of N / 2^d, and every rounding decision taken at a position t ≥ 2
    above it is the decision for the exact value — any shift distance d, any width. -/
theorem C02_add_sticky_sound (N d t R : Nat) (ht : 2 ≤ t) (hR1 : 1 ≤ R)
    (h : (-(1:ℚ)/2 < (stickyShr N d : ℚ) / ((2 ^ t : Nat) : ℚ) - (R : ℚ) ∧ (stickyShr N d : ℚ) / ((2 ^ t : Nat) : ℚ) - (R : ℚ) < 1/2) ∨
         (((stickyShr N d : ℚ) / ((2 ^ t : Nat) : ℚ) - (R : ℚ) = 1/2 ∨ (stickyShr N d : ℚ) / ((2 ^ t : Nat) : ℚ) - (R : ℚ) = -(1:ℚ)/2) ∧ R % 2 = 0)) :
    (-(1:ℚ)/2 < (N : ℚ) / ((2 ^ d : Nat) : ℚ) / ((2 ^ t : Nat) : ℚ) - (R : ℚ) ∧ (N : ℚ) / ((2 ^ d : Nat) : ℚ) / ((2 ^ t : Nat) : ℚ) - (R : ℚ) < 1/2) ∨
    (((N : ℚ) / ((2 ^ d : Nat) : ℚ) / ((2 ^ t : Nat) : ℚ) - (R : ℚ) = 1/2 ∨ (N : ℚ) / ((2 ^ d : Nat) : ℚ) / ((2 ^ t : Nat) : ℚ) - (R : ℚ) = -(1:ℚ)/2) ∧ R % 2 = 0) :=
  sticky_nearest_transfer N d t R ht hR1 h

/-- side condition of `C02_add_same_sign_partial`: the sum's exponent lies in the normal range, at least two below
    the all-ones exponent (the sum significant is formed with the operand of the larger exponent unshifted, as
    blocktriple::add does) -/
def C02_add_inRange (c : Cfg) (a b : Nat) : Bool := addInRange c a b

/-- **C02 for addition, operands of the same sign** (partial): every configuration with fbits ≤ 58 (the sum triple
    fits 64 bits), all finite operands with non-zero exponent field and equal signs, in EITHER order and with ANY
    exponent difference (the alignment shift may discard arbitrarily many bits into the sticky bit), result in the
    normal range below the top binades: operator+ returns the IEEE rounding of the exact sum. -/
theorem C02_add_same_sign_partial (c : Cfg) (hv : c.valid = true) (a b : Nat)
    (hnarrow : c.fbits + 6 < 65)
    (hna : normalOperand c a = true) (hnb : normalOperand c b = true)
    (hsign : c.signOf a = c.signOf b)
    (hr : C02_add_inRange c a b = true) :
    satisfies c (expectOp "add" (cfVal c a) (cfVal c b)) (add c a b) = true :=
  add_same_sign_partial c hv a b hnarrow hna hnb hsign hr

/-- non-vacuity: 5.25 + 0.4375 in cfloat<8,3,sub> (exponent difference 4: bits of the smaller operand go into the
    sticky bit; 22.75 ulp rounds to 23 ulp = 5.75 = 0x57) -/
example : let c : Cfg := { nbits := 8, es := 3, sub := true }
    normalOperand c 0x55 = true ∧ normalOperand c 0x1c = true ∧ c.signOf 0x55 = c.signOf 0x1c ∧
    C02_add_inRange c 0x55 0x1c = true ∧ add c 0x55 0x1c = 0x57 ∧
    C02_add_inRange c 0x1c 0x55 = true ∧ add c 0x1c 0x55 = 0x57 := by
  decide +kernel


/-! ### addition of operands of opposite sign, subtraction -/

/-- side condition for operands of opposite sign: either the aligned significants cancel exactly, or the exponent of
    the renormalised difference lies in the normal range, at least two below the all-ones exponent -/
def C02_add_opp_inRange (c : Cfg) (a b : Nat) : Bool := addOppInRange c a b

/-- **C02 for addition, operands of opposite sign** (cancellation): fbits ≤ 58, finite operands with non-zero
    exponent field, either order, any exponent difference, any amount of cancellation (the renormalising left
    shift), result zero or in the normal range below the top binades: exact cancellation gives a zero, otherwise the
    result is the IEEE rounding of the exact difference and carries the sign of the larger operand. -/
theorem C02_add_opp_sign_partial (c : Cfg) (hv : c.valid = true) (a b : Nat)
    (hnarrow : c.fbits + 6 < 65)
    (hna : normalOperand c a = true) (hnb : normalOperand c b = true)
    (hsign : c.signOf b = !c.signOf a)
    (hr : C02_add_opp_inRange c a b = true) :
    satisfies c (expectOp "add" (cfVal c a) (cfVal c b)) (add c a b) = true :=
  add_opp_sign_partial c hv a b hnarrow hna hnb hsign hr

/-- side condition of `C02_add_normal_partial` for any combination of signs -/
def C02_add_inRange_all (c : Cfg) (a b : Nat) : Bool := addInRangeAll c a b

/-- **C02 for addition** (partial, all sign combinations): every configuration with fbits ≤ 58 (≤ 64-bit path), all
    finite operands with non-zero exponent fields (normals, supernormals), result zero (exact cancellation) or in
    the normal range at least two below the all-ones exponent: operator+ satisfies the property's expectation.
    Open: subnormal operands / results, the two top binades (overflow cusp), the > 64-bit path (false there, D5). -/
theorem C02_add_normal_partial (c : Cfg) (hv : c.valid = true) (a b : Nat)
    (hnarrow : c.fbits + 6 < 65)
    (hna : normalOperand c a = true) (hnb : normalOperand c b = true)
    (hr : C02_add_inRange_all c a b = true) :
    satisfies c (expectOp "add" (cfVal c a) (cfVal c b)) (add c a b) = true :=
  add_partial c hv a b hnarrow hna hnb hr

/-- **C02 for subtraction** (partial): a − b is a + (−b) in the code and in the property's table
    (`C02_expect_sub_eq_add_neg`), so the addition theorem carries over with the side condition evaluated on the
    negated subtrahend. -/
theorem C02_sub_normal_partial (c : Cfg) (hv : c.valid = true) (a b : Nat)
    (hnarrow : c.fbits + 6 < 65)
    (hna : normalOperand c a = true) (hnb : normalOperand c b = true)
    (hr : C02_add_inRange_all c a (negate c b) = true) :
    satisfies c (expectOp "sub" (cfVal c a) (cfVal c b)) (sub c a b) = true :=
  sub_partial c hv a b hnarrow hna hnb hr

/-- non-vacuity: 5.25 − 5.0 in cfloat<8,3,sub> (three leading bits cancel, exact), 5.25 + (−0.4375) (sticky bits, one
    rounding), and x − x = +0 -/
example : let c : Cfg := { nbits := 8, es := 3, sub := true }
    normalOperand c 0x55 = true ∧ normalOperand c 0x54 = true ∧
    C02_add_inRange_all c 0x55 (negate c 0x54) = true ∧ sub c 0x55 0x54 = 0x10 ∧
    C02_add_inRange_all c 0x55 0x9c = true ∧ add c 0x55 0x9c = 0x53 ∧
    C02_add_inRange_all c 0x55 (negate c 0x55) = true ∧ sub c 0x55 0x55 = 0x00 := by
  decide +kernel


/-! ### division -/

/-- the quotient bits computed by `blocksignificant::div` for normalised operands: upper 2fb+5 bits exact, low fb
    bits arbitrary (truncated dividers), zero when the division is exact -/
theorem C02_div_quotient_spec (fb A B : Nat) (hfb : 1 ≤ fb) (hA1 : 2 ^ fb ≤ A) (hA2 : A < 2 ^ (fb + 1)) (hB1 : 2 ^ fb ≤ B) (hB2 : B < 2 ^ (fb + 1)) :
    (A * 2 ^ (2 * fb + 4) / B) * 2 ^ fb ≤ divLoop (3 * fb + 4) (2 * ((3 * fb + 4) / 2) + 1) 0 (A * 2 ^ (2 * fb + 4)) (B * 2 ^ (2 * fb + 4)) 0 ∧
    divLoop (3 * fb + 4) (2 * ((3 * fb + 4) / 2) + 1) 0 (A * 2 ^ (2 * fb + 4)) (B * 2 ^ (2 * fb + 4)) 0
      < (A * 2 ^ (2 * fb + 4) / B) * 2 ^ fb + 2 ^ fb ∧
    ((A * 2 ^ (2 * fb + 4)) % B = 0 →
      divLoop (3 * fb + 4) (2 * ((3 * fb + 4) / 2) + 1) 0 (A * 2 ^ (2 * fb + 4)) (B * 2 ^ (2 * fb + 4)) 0
        = (A * 2 ^ (2 * fb + 4) / B) * 2 ^ fb) :=
  divq_spec fb A B hfb hA1 hA2 hB1 hB2

/-- **no tie without equality** (`div_truncation_sound` of DESIGN.md for cfloat): the computed quotient and the exact
    quotient A·2^(3fb+4)/B lie on the same side of every multiple of 2^(2fb+2), and meet one only together -/
theorem C02_div_no_tie_without_equality (fb A B q e : Nat) (hB1 : 2 ^ fb ≤ B) (hB2 : B < 2 ^ (fb + 1))
    (h1 : (A * 2 ^ (2 * fb + 4) / B) * 2 ^ fb ≤ q) (h2 : q < (A * 2 ^ (2 * fb + 4) / B) * 2 ^ fb + 2 ^ fb)
    (h3 : (A * 2 ^ (2 * fb + 4)) % B = 0 → q = (A * 2 ^ (2 * fb + 4) / B) * 2 ^ fb) :
    (q < e * 2 ^ (2 * fb + 2) ↔ A * 2 ^ (3 * fb + 4) < e * 2 ^ (2 * fb + 2) * B) ∧
    (e * 2 ^ (2 * fb + 2) < q ↔ e * 2 ^ (2 * fb + 2) * B < A * 2 ^ (3 * fb + 4)) :=
  div_side fb A B q e hB1 hB2 h1 h2 h3

/-- side condition of `C02_div_normal_partial`: the quotient's exponent (the difference of the operand exponents, minus one
    when the significand quotient is below 1) stays in the normal range, at least two below the all-ones exponent -/
def C02_div_inRange (c : Cfg) (a b : Nat) : Bool :=
  let sc : Int := ((c.expOf a : Int) - c.bias) - ((c.expOf b : Int) - c.bias)
  decide (c.minExpNormal ≤ sc - 1) && decide (sc + c.bias + 1 < c.emax)

/-- **C02 for division** (partial): every configuration with fbits ≤ 19 (the quotient triple fits 64 bits), all
    finite operands with non-zero exponent fields, quotient exponent in the normal range below the top binades:
    operator/ returns the IEEE rounding of the exact quotient — one rounding, although the restoring loop's low
    quotient bits are computed with truncated dividers. -/
theorem C02_div_normal_partial (c : Cfg) (hv : c.valid = true) (a b : Nat)
    (hnarrow : 3 * c.fbits + 6 < 65)
    (hna : normalOperand c a = true) (hnb : normalOperand c b = true)
    (hr : C02_div_inRange c a b = true) :
    satisfies c (expectOp "div" (cfVal c a) (cfVal c b)) (div c a b) = true := by
  unfold C02_div_inRange at hr
  simp only [Bool.and_eq_true, decide_eq_true_eq] at hr
  refine div_normal_round c hv a b hnarrow hna hnb ?_
  intro sh hsh
  exact ⟨hr.1, by omega⟩

/-- non-vacuity: 1.3125 / 1.75 = 0.75 exactly, and 1.0 / 1.1875 (inexact, quotient below 1) in cfloat<8,3,sub> -/
example : let c : Cfg := { nbits := 8, es := 3, sub := true }
    3 * c.fbits + 6 < 65 ∧ normalOperand c 0x35 = true ∧ normalOperand c 0x3c = true ∧ C02_div_inRange c 0x35 0x3c = true ∧
    div c 0x35 0x3c = 0x28 ∧ C02_div_inRange c 0x30 0x33 = true ∧ div c 0x30 0x33 = 0x2b := by
  decide +kernel


/-! ### underflow -/

private theorem C02_signed_value_ne_zero (sign : Bool) (sig radix : Nat) (scale : Int) (hsig : 2 ^ radix ≤ sig) :
    ¬ ((if sign = true then (-1 : ℚ) else 1) * ((sig : ℚ) * pow2 (scale - (radix : Int))) = 0) := by
  have hs : (0 : ℚ) < (sig : ℚ) := by
    have : 0 < sig := lt_of_lt_of_le (two_pow_pos _) hsig
    exact_mod_cast this
  have hp := pow2_pos (scale - (radix : Int))
  have h0 : (if sign = true then (-1 : ℚ) else 1) ≠ 0 := by cases sign <;> simp
  exact mul_ne_zero h0 (mul_ne_zero (ne_of_gt hs) (ne_of_gt hp))

/-- **flush to zero**: without subnormals every result whose exponent is below MIN_EXP_NORMAL becomes a zero with
    the sign of the exact result (every width, both convert paths) -/
theorem C02_convert_flush (c : Cfg) (hv : c.valid = true) (hsub : c.sub = false)
    (o : Op) (sign : Bool) (scale : Int) (sig : Nat)
    (hsig : 2 ^ (o.radix c.fbits) ≤ sig)
    (hhi : scale + sigScale (o.radix c.fbits) sig < c.minExpNormal) :
    convertFinite c o sign scale sig < 2 ^ c.nbits ∧
    IeeeNearest c ((if sign then -1 else 1) * ((sig : ℚ) * pow2 (scale - (o.radix c.fbits : Int))))
      (convertFinite c o sign scale sig) := by
  obtain ⟨h1, h2⟩ := convert_flush c hv hsub o sign scale sig hsig hhi
  refine ⟨h1, ?_⟩
  unfold IeeeNearest
  rw [if_neg (C02_signed_value_ne_zero sign sig _ scale hsig)]; exact h2

/-- **underflow with subnormals** incl. the half-minpos special case of convert: exponent below MIN_EXP_SUBNORMAL ⇒
    signed zero, or the smallest subnormal when the value exceeds half of it (a tie goes to zero); 2 ≤ es ≤ 20,
    every width, both convert paths -/
theorem C02_convert_underflow (c : Cfg) (hv : c.valid = true) (hsub : c.sub = true) (hes2 : 2 ≤ c.es) (hes20 : c.es ≤ 20)
    (o : Op) (sign : Bool) (scale : Int) (sig : Nat)
    (hsig : 2 ^ (o.radix c.fbits) ≤ sig)
    (hhi : scale + sigScale (o.radix c.fbits) sig < c.minExpSubnormal) :
    convertFinite c o sign scale sig < 2 ^ c.nbits ∧
    IeeeNearest c ((if sign then -1 else 1) * ((sig : ℚ) * pow2 (scale - (o.radix c.fbits : Int))))
      (convertFinite c o sign scale sig) := by
  have hrad : c.fbits ≤ o.radix c.fbits := by cases o <;> simp [Op.radix] <;> omega
  obtain ⟨h1, h2⟩ := convert_underflow c hv hsub hes2 hes20 o sign scale sig hsig hrad hhi
  refine ⟨h1, ?_⟩
  unfold IeeeNearest
  rw [if_neg (C02_signed_value_ne_zero sign sig _ scale hsig)]; exact h2

/-- side condition: the product's exponent is below the smallest representable binade -/
def C02_mul_underflows (c : Cfg) (a b : Nat) : Bool :=
  let sc : Int := ((c.expOf a : Int) - c.bias) + ((c.expOf b : Int) - c.bias)
  let p := (2 ^ c.fbits + c.fracOf a) * (2 ^ c.fbits + c.fracOf b)
  decide (sc + sigScale (2 * c.fbits) p < (if c.sub then c.minExpSubnormal else c.minExpNormal))

/-- **C02 for multiplication, underflow**: tiny products become a signed zero (or the smallest subnormal above the
    half-minpos threshold); every width incl. the > 64-bit path -/
theorem C02_mul_underflow_partial (c : Cfg) (hv : c.valid = true) (hes2 : 2 ≤ c.es) (hes20 : c.es ≤ 20)
    (a b : Nat) (hna : normalOperand c a = true) (hnb : normalOperand c b = true)
    (hr : C02_mul_underflows c a b = true) :
    satisfies c (expectOp "mul" (cfVal c a) (cfVal c b)) (mul c a b) = true := by
  unfold C02_mul_underflows at hr
  simp only [decide_eq_true_eq] at hr
  obtain ⟨hmul, hexp, hp⟩ := mul_normal_operands c hv a b hna hnb
  rw [hexp, hmul]
  unfold satisfies
  simp only [Bool.and_eq_true, decide_eq_true_eq]
  cases hs : c.sub
  · rw [hs] at hr; simp only [Bool.false_eq_true, if_false] at hr
    exact convert_flush c hv hs .mul _ _ _ hp (by simp only [Op.radix]; exact hr)
  · rw [hs] at hr; simp only [if_true] at hr
    exact convert_underflow c hv hs hes2 hes20 .mul _ _ _ hp (by simp only [Op.radix]; omega) (by simp only [Op.radix]; exact hr)


/-! ### all four operators, all operands, all result ranges -/

/-- every configuration except es = 1 with a single fraction bit: cfloat<3,1,bt,1,1,·> has the encodings 0, the
    subnormal 1, inf and NaN only — no normal and no finite supernormal value -/
def C02_notDegenerate (c : Cfg) : Prop := Gen c


/-- a non-special operand is a finite non-zero one -/
theorem C02_special_or_finite (c : Cfg) (hv : c.valid = true) (a : Nat) :
    finiteNZ c a = true ∨ (C02_isSpecial (cfVal c a) = true ∧
      ((∃ s, cfVal c a = .nan s) ∨ (∃ s, cfVal c a = .inf s) ∨ cfVal c a = .fin (c.signOf a) 0)) := by
  by_cases h : finiteNZ c a = true
  · exact Or.inl h
  · right
    have hs := special_of_not_finiteNZ c hv a h
    refine ⟨?_, hs⟩
    rcases hs with ⟨s, e⟩ | ⟨s, e⟩ | e <;> rw [e] <;> simp [C02_isSpecial]

/-- **C02 for addition, every operand pair** (es ≤ 20): special rows, a zero operand, and for
    two finite non-zero operands (normal, supernormal, subnormal) every result range, outside the recorded classes -/
theorem C02_add_partial (c : Cfg) (hv : c.valid = true) (hg : C02_notDegenerate c) (hes20 : c.es ≤ 20) (a b : Nat)
    (ha : a < 2 ^ c.nbits) (hb : b < 2 ^ c.nbits) (hbt : 0 < c.bt)
    (hcls : arithClass c "add" a b (expectOp "add" (cfVal c a) (cfVal c b)) = "") :
    satisfies c (expectOp "add" (cfVal c a) (cfVal c b)) (add c a b) = true := by
  rcases C02_special_or_finite c hv a with hfa | ⟨hsa, hca⟩
  · rcases C02_special_or_finite c hv b with hfb | ⟨hsb, hcb⟩
    · obtain ⟨T, v, hexp, hadd, hT⟩ := add_stage c hv a b hfa hfb
      rw [hexp] at hcls ⊢
      rw [hadd]
      refine finish_triple c hv hg hes20 hbt .add T v (by simp only [Op.radix]; omega) hT ?_ ?_ ?_
      · intro hne; rw [if_neg hne] at hcls; exact (arithClass_real c "add" a b v hfa hfb hcls).1
      · intro hne; rw [if_neg hne] at hcls; exact (arithClass_real c "add" a b v hfa hfb hcls).2.1
      · intro hne; rw [if_neg hne] at hcls; exact (arithClass_real c "add" a b v hfa hfb hcls).2.2
    · rcases hcb with ⟨s, e⟩ | ⟨s, e⟩ | e
      · refine C02_special_add c hv a b ha hb (Or.inr hsb) ?_
        rw [e]; cases cfVal c a <;> simp [expectOp, C02_notReal]
      · refine C02_special_add c hv a b ha hb (Or.inr hsb) ?_
        rw [e]; cases cfVal c a <;> simp [expectOp, C02_notReal]
        split_ifs <;> rfl
      · exact add_zero_right c hv hg a b ha hfa e
  · rcases hca with ⟨s, e⟩ | ⟨s, e⟩ | e
    · refine C02_special_add c hv a b ha hb (Or.inl hsa) ?_
      rw [e]; simp [expectOp, C02_notReal]
    · refine C02_special_add c hv a b ha hb (Or.inl hsa) ?_
      rw [e]; cases cfVal c b <;> simp [expectOp, C02_notReal]
      split_ifs <;> rfl
    · rcases C02_special_or_finite c hv b with hfb | ⟨hsb, hcb⟩
      · exact add_zero_left c hv hg a b hb e hfb
      · refine C02_special_add c hv a b ha hb (Or.inl hsa) ?_
        rcases hcb with ⟨s, e'⟩ | ⟨s, e'⟩ | e'
        · rw [e, e']; simp [expectOp, C02_notReal]
        · rw [e, e']; simp [expectOp, C02_notReal]
        · rw [e, e']; simp [expectOp, C02_notReal]

/-- **C02 for subtraction, every operand pair**: a − b is a + (−b) in the code and in the property's table -/
theorem C02_sub_partial (c : Cfg) (hv : c.valid = true) (hg : C02_notDegenerate c) (hes20 : c.es ≤ 20) (a b : Nat)
    (ha : a < 2 ^ c.nbits) (hb : b < 2 ^ c.nbits) (hbt : 0 < c.bt)
    (hcls : arithClass c "sub" a b (expectOp "sub" (cfVal c a) (cfVal c b)) = "") :
    satisfies c (expectOp "sub" (cfVal c a) (cfVal c b)) (sub c a b) = true := by
  by_cases hn : isNan c b = true
  · have e1 : (cfVal c b).isNan = true := by rw [cfVal_isNan c hv, hn]
    refine C02_special_sub c hv a b ha hb (Or.inr ?_) ?_
    · cases hb' : cfVal c b <;> rw [hb'] at e1 <;> simp_all [C02_isSpecial, Val.isNan]
    · cases hb' : cfVal c b <;> rw [hb'] at e1 <;> simp_all [Val.isNan]
      cases cfVal c a <;> simp [expectOp, C02_notReal]
  · have hsub : sub c a b = add c a (negate c b) := by unfold sub; rw [if_neg hn]
    have nf := negate_facts c hv b
    rw [arithClass_sub c hv] at hcls
    rw [C02_expect_sub_eq_add_neg, ← cfVal_negate c hv] at hcls ⊢
    rw [hsub]
    exact C02_add_partial c hv hg hes20 a (negate c b) ha nf.1 hbt hcls

/-- a real (to be rounded) expectation of × or ÷ needs two finite non-zero operands -/
theorem C02_real_needs_finite (c : Cfg) (hv : c.valid = true) (a b : Nat) :
    (C02_notReal (expectOp "mul" (cfVal c a) (cfVal c b)) = false → finiteNZ c a = true ∧ finiteNZ c b = true) ∧
    (C02_notReal (expectOp "div" (cfVal c a) (cfVal c b)) = false → finiteNZ c a = true ∧ finiteNZ c b = true) := by
  rcases C02_special_or_finite c hv a with hfa | ⟨_, hca⟩
  · rcases C02_special_or_finite c hv b with hfb | ⟨_, hcb⟩
    · exact ⟨fun _ => ⟨hfa, hfb⟩, fun _ => ⟨hfa, hfb⟩⟩
    · obtain ⟨_, _, _, _, _, va, _⟩ := operand_facts c hv a hfa
      rw [va]
      rcases hcb with ⟨s, e⟩ | ⟨s, e⟩ | e <;> rw [e] <;> constructor <;> intro h <;> exfalso <;>
        simp [expectOp, C02_notReal] at h <;> (try split_ifs at h) <;> simp_all
  · rcases hca with ⟨s, e⟩ | ⟨s, e⟩ | e <;> rw [e] <;> constructor <;> intro h <;> exfalso <;>
      (cases hb' : cfVal c b <;> rw [hb'] at h <;> simp [expectOp, C02_notReal] at h <;> (try split_ifs at h) <;> simp_all)

/-- **C02 for multiplication, every operand pair** -/
theorem C02_mul_partial (c : Cfg) (hv : c.valid = true) (hg : C02_notDegenerate c) (hes20 : c.es ≤ 20) (a b : Nat)
    (ha : a < 2 ^ c.nbits) (hb : b < 2 ^ c.nbits) (hbt : 0 < c.bt)
    (hcls : arithClass c "mul" a b (expectOp "mul" (cfVal c a) (cfVal c b)) = "") :
    satisfies c (expectOp "mul" (cfVal c a) (cfVal c b)) (mul c a b) = true := by
  by_cases hnr : C02_notReal (expectOp "mul" (cfVal c a) (cfVal c b)) = true
  · exact C02_special_mul c hv a b ha hb hnr
  · obtain ⟨hfa, hfb⟩ := (C02_real_needs_finite c hv a b).1 (by simpa using hnr)
    obtain ⟨_, hfb1, _, _⟩ := valid_facts c hv
    obtain ⟨T, v, hne, hexp, hmul, hT⟩ := mul_stage c hv a b hfa hfb
    rw [hexp] at hcls ⊢
    rw [hmul]
    obtain ⟨k0, k1, k2⟩ := arithClass_real c "mul" a b v hfa hfb hcls
    have := finish_triple c hv hg hes20 hbt .mul T v (by simp only [Op.radix]; omega) hT (fun _ => k0) (fun _ => k1) (fun _ => k2)
    rwa [if_neg hne] at this

/-- **C02 for division, every operand pair** -/
theorem C02_div_partial (c : Cfg) (hv : c.valid = true) (hg : C02_notDegenerate c) (hes20 : c.es ≤ 20) (a b : Nat)
    (ha : a < 2 ^ c.nbits) (hb : b < 2 ^ c.nbits) (hbt : 0 < c.bt)
    (hcls : arithClass c "div" a b (expectOp "div" (cfVal c a) (cfVal c b)) = "") :
    satisfies c (expectOp "div" (cfVal c a) (cfVal c b)) (div c a b) = true := by
  by_cases hnr : C02_notReal (expectOp "div" (cfVal c a) (cfVal c b)) = true
  · exact C02_special_div c hv a b ha hb hnr
  · obtain ⟨hfa, hfb⟩ := (C02_real_needs_finite c hv a b).2 (by simpa using hnr)
    obtain ⟨T, v, hne, hexp, hdiv, hT⟩ := div_stage c hv a b hfa hfb
    rw [hexp] at hcls ⊢
    rw [hdiv]
    obtain ⟨k0, k1, k2⟩ := arithClass_real c "div" a b v hfa hfb hcls
    have := finish_triple c hv hg hes20 hbt .div T v (by simp only [Op.radix]; omega) hT (fun _ => k0) (fun _ => k1) (fun _ => k2)
    rwa [if_neg hne] at this

/-- **convert(blocktriple → cfloat), every exponent range, both branches**: for every finite non-zero triple (leading
    bit at or above the radix point) the encoding is in range and satisfies the rounding relation for the exact value
    ± sig·2^(scale − radix) — underflow incl. the half-minpos case, flush to zero, subnormal, normal, the two binades
    next to the inf/NaN encodings, overflow — provided (D5) on the > 64-bit branch the value is exactly representable,
    (sat∧sup) a saturating configuration with supernormals does not overflow, and (D4) a saturating configuration
    without supernormals does not round onto the inf pattern. `C02_convert_full` without these three classes. -/
theorem C02_convert_partial (c : Cfg) (hv : c.valid = true) (hg : C02_notDegenerate c) (hes20 : c.es ≤ 20) (hbt : 0 < c.bt)
    (o : Op) (sign : Bool) (scale : Int) (sig : Nat) (hsig : 2 ^ (o.radix c.fbits) ≤ sig)
    (hw : ¬ o.bfbits c.fbits < 65 → exactlyRepresentable c ((sig : ℚ) * pow2 (scale - (o.radix c.fbits : Int))) = true)
    (hss : c.sat = true → c.sup = true → overflows c ((sig : ℚ) * pow2 (scale - (o.radix c.fbits : Int))) = false)
    (hsn : c.sat = true → c.sup = false → roundsToInfPattern c ((sig : ℚ) * pow2 (scale - (o.radix c.fbits : Int))) = false) :
    convertFinite c o sign scale sig < 2 ^ c.nbits ∧
    IeeeNearest c ((if sign then -1 else 1) * ((sig : ℚ) * pow2 (scale - (o.radix c.fbits : Int))))
      (convertFinite c o sign scale sig) := by
  obtain ⟨_, hfb, _, _⟩ := valid_facts c hv
  have hrad : c.fbits + 1 ≤ o.radix c.fbits := by cases o <;> simp only [Op.radix] <;> omega
  have hRL := roundsLike_of_sameSide c.fbits (o.radix c.fbits) scale sig (sig : ℚ) 0 hsig (sameSide_exact sig 0) (by omega)
  obtain ⟨r1, r2⟩ := convert_master_all c hv hg hes20 hbt o sign scale sig _ hsig (by omega) hRL hw hss hsn
  refine ⟨r1, ?_⟩
  have hXpos : 0 < (sig : ℚ) * pow2 (scale - (o.radix c.fbits : Int)) := lt_of_lt_of_le (pow2_pos _) hRL.1
  unfold IeeeNearest
  rw [if_neg (absR_pos_mul sign _ hXpos).2.2]
  exact r2

/-- the statement of `C02_arith_partial` for one configuration with 3-bit encodings, as a decidable proposition -/
def C02_arith_stmt3 (c : Cfg) : Prop :=
  ∀ a < 8, ∀ b < 8, ∀ op ∈ ["add", "sub", "mul", "div"],
    arithClass c op a b (expectOp op (cfVal c a) (cfVal c b)) = "" →
    satisfies c (expectOp op (cfVal c a) (cfVal c b)) (arithOp op c a b) = true

instance (c : Cfg) : Decidable (C02_arith_stmt3 c) := by unfold C02_arith_stmt3; infer_instance

/-- the one configuration shape outside `C02_notDegenerate`: cfloat<3,1,·,sub,sup,sat> (encodings ±0, ±1, ±inf, NaN),
    by enumeration of all 8 × 8 × 4 operand/operator combinations for both values of `sat` -/
theorem C02_arith_degenerate :
    C02_arith_stmt3 ⟨3, 1, 8, true, true, false⟩ ∧ C02_arith_stmt3 ⟨3, 1, 8, true, true, true⟩ := by
  decide +kernel

/-- **C02, all four operators in one statement** (es ≤ 20 — es < 21 is a static_assert of the class —, a block type
    of at least one bit): for every valid configuration, every pair of encodings — NaNs, infinities, zeros, normals,
    supernormals and subnormals — and every result range (underflow, flush, subnormal, normal, the two binades next
    to the inf/NaN encodings, overflow; both branches of convert), the model's result satisfies the property's
    expectation, under ONE decidable side condition on the inputs: `arithClass … = ""`, i.e. the operands are outside
    the three recorded input classes of known_findings.json — cfloat.convert.wide_path (D5),
    cfloat.convert.sat_nosup_cusp (D4) and cfloat.sat_sup.maxpos_is_inf. `arithClass` is the function the driver
    classifies transcript lines with. -/
theorem C02_arith_partial (c : Cfg) (hv : c.valid = true) (hes20 : c.es ≤ 20) (hbt : 0 < c.bt)
    (op : String) (hop : op = "add" ∨ op = "sub" ∨ op = "mul" ∨ op = "div") (a b : Nat)
    (ha : a < 2 ^ c.nbits) (hb : b < 2 ^ c.nbits)
    (hcls : arithClass c op a b (expectOp op (cfVal c a) (cfVal c b)) = "") :
    satisfies c (expectOp op (cfVal c a) (cfVal c b)) (arithOp op c a b) = true := by
  by_cases hg : C02_notDegenerate c
  · rcases hop with rfl | rfl | rfl | rfl
    · exact C02_add_partial c hv hg hes20 a b ha hb hbt hcls
    · exact C02_sub_partial c hv hg hes20 a b ha hb hbt hcls
    · exact C02_mul_partial c hv hg hes20 a b ha hb hbt hcls
    · exact C02_div_partial c hv hg hes20 a b ha hb hbt hcls
  · -- es = 1 with one fraction bit: nbits = 3, subnormals and supernormals present; the block type is never read
    obtain ⟨hes, hfb, h3, _⟩ := valid_facts c hv
    have hes1 : c.es = 1 := by unfold C02_notDegenerate Gen at hg; omega
    have hfb1 : c.fbits = 1 := by unfold C02_notDegenerate Gen at hg; omega
    obtain ⟨hsub, hsup, _, _⟩ := es1_facts c hv hes1
    have hn3 : c.nbits = 3 := by omega
    have hmem : op ∈ ["add", "sub", "mul", "div"] := by rcases hop with rfl | rfl | rfl | rfl <;> simp
    obtain ⟨nbits, es, bt, sub, sup, sat⟩ := c
    simp only at hes1 hsub hsup hn3
    subst hes1 hsub hsup hn3
    have ha8 : a < 8 := by simpa using ha
    have hb8 : b < 8 := by simpa using hb
    rw [deg_cfVal_bt, deg_cfVal_bt, deg_arithClass_bt] at hcls
    rw [deg_cfVal_bt, deg_cfVal_bt, deg_arithOp_bt, deg_satisfies_bt]
    cases sat
    · exact C02_arith_degenerate.1 a ha8 b hb8 op hmem hcls
    · exact C02_arith_degenerate.2 a ha8 b hb8 op hmem hcls

/-- non-vacuity: in cfloat<8,3,sub> the side condition holds for a subnormal × normal product that stays subnormal,
    for a sum in the top binade, and for an overflowing quotient; in cfloat<5,2,sat> (no supernormals) it fails
    exactly on the D4 witness 2.0 + 3.5 -/
example : let c : Cfg := { nbits := 8, es := 3, sub := true }
    c.valid = true ∧
    arithClass c "mul" 0x03 0x35 (expectOp "mul" (cfVal c 0x03) (cfVal c 0x35)) = "" ∧
    arithClass c "add" 0x6c 0x68 (expectOp "add" (cfVal c 0x6c) (cfVal c 0x68)) = "" ∧
    arithClass c "div" 0x6c 0x03 (expectOp "div" (cfVal c 0x6c) (cfVal c 0x03)) = "" ∧
    (let d : Cfg := { nbits := 5, es := 2, sat := true }
     arithClass d "add" 0x8 0xb (expectOp "add" (cfVal d 0x8) (cfVal d 0xb)) = "cfloat.convert.sat_nosup_cusp") := by
  decide +kernel

/-- non-vacuity, es = 1 (cfloat<6,1,sub,sup>: subnormals 0 … 15/8, then supernormals from 2; no normal binade):
    the hypotheses hold for 0.75 + 0.875 = 1.625 (subnormal operands and result) and for 1.875 + 1.875 = 3.75, which
    rounds onto the inf pattern of the supernormal binade and overflows to +inf; on the > 64-bit path of single
    precision the exactly representable quotient 1.0 / 2.0 is outside the class cfloat.convert.wide_path, 1.0 / 3.0
    is inside -/
example : let c : Cfg := { nbits := 6, es := 1, sub := true, sup := true }
    c.valid = true ∧ (2 ≤ c.es ∨ 2 ≤ c.fbits) ∧
    arithClass c "add" 0x06 0x07 (expectOp "add" (cfVal c 0x06) (cfVal c 0x07)) = "" ∧ add c 0x06 0x07 = 0x0d ∧
    arithClass c "add" 0x0f 0x0f (expectOp "add" (cfVal c 0x0f) (cfVal c 0x0f)) = "" ∧ add c 0x0f 0x0f = 0x1e ∧
    (let s : Cfg := { nbits := 32, es := 8, bt := 32, sub := true }
     arithClass s "div" 0x3f800000 0x40000000 (expectOp "div" (cfVal s 0x3f800000) (cfVal s 0x40000000)) = "" ∧
     div s 0x3f800000 0x40000000 = 0x3f000000 ∧
     arithClass s "div" 0x3f800000 0x40400000 (expectOp "div" (cfVal s 0x3f800000) (cfVal s 0x40400000)) = "cfloat.convert.wide_path") := by
  decide +kernel
