/-
  C03 — conversion from native numbers (posit clause): the field extraction performed by
  value<fbits>::operator=(long long / unsigned long long) denotes the source integer exactly; the rounding to the
  posit is then `convert_` (obligation of C01).
-/
import UVerif.Model.PositConv
import UVerif.Spec.Ieee
import UVerifProofs.Lemmas.Pow2
import UVerifProofs.Lemmas.Ieee
import UVerifProofs.Lemmas.PositArith
import UVerifProofs.Props.C01

open UVerif UVerif.Posit

/-- The (sign, scale, fraction) triple built from a non-zero integer of magnitude below 2^64 whose most significant bit
    position does not exceed the fraction width denotes exactly that integer — for every fraction width `fb ≤ 64`
    (all the widths the posit constructors instantiate: 7, 15, 31, 63, 64, 16, 32). -/
theorem C03_valueOfInt_exact (fb : Nat) (x : Int) (hx : x ≠ 0) (hfb : fb ≤ 64)
    (hfit : x.natAbs.log2 ≤ fb) (h64 : x.natAbs < 2 ^ 64) :
    (valueOfInt fb x).toRat = (x : ℚ) := by
  unfold valueOfInt
  simp only [hx, if_false]
  have hm0 : x.natAbs ≠ 0 := by omega
  set mag := x.natAbs with hmag
  have hlo : 2 ^ mag.log2 ≤ mag := Nat.log2_self_le hm0
  have hhi : mag < 2 ^ (mag.log2 + 1) := Nat.lt_log2_self
  have hsc : mag.log2 ≤ 63 := by
    by_contra hc
    have := Nat.pow_le_pow_right (show 0 < 2 by decide) (show 64 ≤ mag.log2 by omega)
    omega
  set sc := mag.log2 with hscdef
  -- the 64-bit word after shifting the hidden bit out
  have hf64 : (if sc = 0 then 0 else (mag <<< (64 - sc)) % 2 ^ 64) = (mag - 2 ^ sc) * 2 ^ (64 - sc) := by
    split
    · rename_i h0; rw [h0] at hlo hhi ⊢; simp at hlo hhi ⊢; omega
    · rw [Nat.shiftLeft_eq]
      have e1 : mag * 2 ^ (64 - sc) = 2 ^ 64 + (mag - 2 ^ sc) * 2 ^ (64 - sc) := by
        have : 2 ^ 64 = 2 ^ sc * 2 ^ (64 - sc) := by rw [← Nat.pow_add]; congr 1; omega
        rw [this, Nat.sub_mul]
        have := Nat.mul_le_mul_right (2 ^ (64 - sc)) hlo
        omega
      have e2 : (mag - 2 ^ sc) * 2 ^ (64 - sc) < 2 ^ 64 := by
        have : 2 ^ 64 = 2 ^ sc * 2 ^ (64 - sc) := by rw [← Nat.pow_add]; congr 1; omega
        rw [this]
        apply Nat.mul_lt_mul_of_pos_right _ (Nat.two_pow_pos _)
        rw [Nat.pow_succ] at hhi; omega
      rw [e1, Nat.add_mod_left, Nat.mod_eq_of_lt e2]
  rw [hf64]
  simp only [hfb, if_true, Nat.shiftRight_eq_div_pow]
  have hfr : (mag - 2 ^ sc) * 2 ^ (64 - sc) / 2 ^ (64 - fb) = (mag - 2 ^ sc) * 2 ^ (fb - sc) := by
    have : 2 ^ (64 - sc) = 2 ^ (fb - sc) * 2 ^ (64 - fb) := by rw [← Nat.pow_add]; congr 1; omega
    rw [this, ← Nat.mul_assoc, Nat.mul_div_cancel _ (Nat.two_pow_pos _)]
  rw [hfr]
  unfold Val.toRat
  simp only [Bool.false_eq_true, if_false]
  rw [pow2_natCast]
  have hxq : (x : ℚ) = if x < 0 then -(mag : ℚ) else (mag : ℚ) := by
    split
    · have : x = -(mag : Int) := by omega
      rw [this]; push_cast; ring
    · have : x = (mag : Int) := by omega
      rw [this]; push_cast; ring
  have hval : (1 + ((((mag - 2 ^ sc) * 2 ^ (fb - sc) : Nat)) : ℚ) / ((2 ^ fb : Nat) : ℚ)) * ((2 ^ sc : Nat) : ℚ) = (mag : ℚ) := by
    have hfbs : (2 ^ fb : Nat) = 2 ^ (fb - sc) * 2 ^ sc := by rw [← Nat.pow_add]; congr 1; omega
    rw [hfbs]
    push_cast [Nat.cast_sub hlo]
    have p1 : (0 : ℚ) < 2 ^ (fb - sc) := by positivity
    have p2 : (0 : ℚ) < 2 ^ sc := by positivity
    field_simp
    ring
  rw [hxq]
  by_cases hneg : x < 0
  · simp only [hneg, decide_true, if_true, hval]
  · simp only [hneg, decide_false, Bool.false_eq_true, if_false, hval]

/-- non-vacuity: −(2^40+5) through value<63> -/
example : (-(2 ^ 40 + 5) : Int) ≠ 0 ∧ 63 ≤ 64 ∧ ((-(2 ^ 40 + 5) : Int).natAbs).log2 ≤ 63 := by decide

/-- zero maps to the zero value, for every width -/
theorem C03_valueOfInt_zero (fb : Nat) : (valueOfInt fb 0).zero = true := by
  unfold valueOfInt; simp

/-- infinities and NaNs of the source become NaR; zero becomes zero — for every posit configuration -/
theorem C03_specials (n es mb : Nat) :
    fromSrc n es mb .inf = 2 ^ (n - 1) ∧ fromSrc n es mb .nan = 2 ^ (n - 1) ∧ fromSrc n es mb .zero = 0 := by
  simp [fromSrc]

/-- value denoted by an extracted (sign, scale, fraction) triple with `mb` fraction bits -/
abbrev srcVal := srcVal'

/-- The frexp-style field extraction of a finite non-zero IEEE source (normal OR subnormal, any exponent and
    mantissa width) denotes the source value exactly. -/
theorem C03_classifyIeee_exact (eb mb bits : Nat) (s : Bool) (sc : Int) (fr : Nat)
    (h : classifyIeee eb mb bits = .fin s sc fr) :
    ieeeVal eb mb bits = some (srcVal mb s sc fr) := C03_classifyIeee_exact' eb mb bits s sc fr h

/-- non-vacuity: the binary64 subnormal 0x0000000000000003 and the normal 0x4009000000000000 (3.125) are both
    classified as finite sources -/
example : classifyIeee 11 52 0x3 = .fin false (-1073) (2 ^ 51) ∧
          classifyIeee 11 52 0x4009000000000000 = .fin false 1 0x9000000000000 := by decide

/-! ### the complete conversion: exact field extraction followed by one correct rounding (uses C01 `convert_correct`) -/

section
open UVerif.Posit

/-- **float / double / any IEEE binary source → posit is correctly rounded.** For every posit configuration and every
    finite non-zero source pattern (normal or subnormal, any exponent/mantissa width — binary32 and binary64 are the
    instances the library uses), `convert_ieee754` returns the posit the Standard selects for the source's exact value. -/
theorem C03_posit_from_ieee (n es eb mb bits : Nat) (hn : 2 ≤ n) (s : Bool) (sc : Int) (fr : Nat)
    (h : classifyIeee eb mb bits = .fin s sc fr) (x : ℚ) (hx : ieeeVal eb mb bits = some x) :
    PositNearest n es x (fromSrc n es mb (classifyIeee eb mb bits)) := by
  have hex := C03_classifyIeee_exact' eb mb bits s sc fr h
  rw [hx] at hex
  injection hex with hex
  -- the extracted fraction fits in mb bits
  have hfr : fr < 2 ^ mb := by
    unfold classifyIeee at h
    simp only at h
    split at h
    · split at h <;> cases h
    · split at h
      · split at h
        · cases h
        · rename_i hM0
          injection h with _ _ hfr
          subst hfr
          set M := bits % 2 ^ mb with hM
          have hMlt : M < 2 ^ mb := Nat.mod_lt _ (Nat.two_pow_pos _)
          have hlo : 2 ^ M.log2 ≤ M := Nat.log2_self_le hM0
          have hhi : M < 2 ^ (M.log2 + 1) := Nat.lt_log2_self
          have hmsb : M.log2 < mb := by
            by_contra hc
            have := Nat.pow_le_pow_right (show 0 < 2 by decide) (show mb ≤ M.log2 by omega)
            omega
          rw [Nat.shiftLeft_eq]
          have e : 2 ^ mb = 2 ^ M.log2 * 2 ^ (mb - M.log2) := by rw [← Nat.pow_add]; congr 1; omega
          rw [e]
          apply Nat.mul_lt_mul_of_pos_right _ (Nat.two_pow_pos _)
          rw [Nat.pow_succ] at hhi; omega
      · injection h with _ _ hfr
        subst hfr
        exact Nat.mod_lt _ (Nat.two_pow_pos _)
  have hval : srcVal' mb s sc fr = (if s then -1 else 1) * ((2 : ℚ) ^ sc * (1 + (fr : ℚ) / 2 ^ mb)) := by
    unfold srcVal'
    simp only [UVerif.pow2_eq_zpow]
    push_cast
    cases s <;> simp <;> ring
  rw [h, hex, hval]
  unfold fromSrc
  exact C01_convert_correct n es hn s sc mb fr hfr

/-- **8…64-bit integer → posit is correctly rounded.** For every posit configuration, every fraction width the
    constructors instantiate and every non-zero integer that fits it, the posit constructed from the integer is the
    Standard's rounding of that integer. -/
theorem C03_posit_from_int (n es fb : Nat) (x : Int) (hn : 2 ≤ n) (hx : x ≠ 0) (hfb : fb ≤ 64)
    (hfit : x.natAbs.log2 ≤ fb) (h64 : x.natAbs < 2 ^ 64) :
    PositNearest n es (x : ℚ) (Posit.convert n es (valueOfInt fb x)) := by
  have hex := C03_valueOfInt_exact fb x hx hfb hfit h64
  rw [← hex]
  apply convert_val_correct n es hn
  -- the triple is finite, non-zero and its fraction fits
  unfold valueOfInt
  simp only [hx, if_false]
  refine ⟨rfl, rfl, ?_⟩
  simp only [hfb, if_true]
  have hm0 : x.natAbs ≠ 0 := by omega
  set mag := x.natAbs
  have hlo : 2 ^ mag.log2 ≤ mag := Nat.log2_self_le hm0
  have hhi : mag < 2 ^ (mag.log2 + 1) := Nat.lt_log2_self
  have hsc : mag.log2 ≤ 63 := by
    by_contra hc
    have := Nat.pow_le_pow_right (show 0 < 2 by decide) (show 64 ≤ mag.log2 by omega)
    omega
  rw [Nat.shiftRight_eq_div_pow]
  apply (Nat.div_lt_iff_lt_mul (Nat.two_pow_pos _)).2
  have e : 2 ^ fb * 2 ^ (64 - fb) = 2 ^ 64 := by rw [← Nat.pow_add]; congr 1; omega
  rw [e]
  split
  · exact Nat.two_pow_pos _
  · exact Nat.mod_lt _ (Nat.two_pow_pos _)

/-- non-vacuity: posit<16,1> from the int 1000003 (value<31>) -/
example : PositNearest 16 1 (1000003 : ℚ) (Posit.convert 16 1 (valueOfInt 31 1000003)) := by
  have := C03_posit_from_int 16 1 31 1000003 (by decide) (by decide) (by decide) (by decide) (by decide)
  simpa using this

end
