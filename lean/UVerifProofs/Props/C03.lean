import UVerif.Model.PositConv
theorem C03_placeholder : True := trivial
