/-
  C03 — conversion from native numbers (posit clause): the field extraction performed by
  value<fbits>::operator=(long long / unsigned long long) denotes the source integer exactly; the rounding to the
  posit is then `convert_` (obligation of C01).
-/
import UVerif.Model.PositConv
import UVerif.Spec.Ieee
import UVerifProofs.Lemmas.Pow2
import UVerifProofs.Lemmas.Ieee

open UVerif UVerif.Posit

/-- The (sign, scale, fraction) triple built from a non-zero integer of magnitude below 2^64 whose most significant bit
    position does not exceed the fraction width denotes exactly that integer — for every fraction width `fb ≤ 64`
    (all the widths the posit constructors instantiate: 7, 15, 31, 63, 64, 16, 32). -/
theorem C03_valueOfInt_exact (fb : Nat) (x : Int) (hx : x ≠ 0) (hfb : fb ≤ 64)
    (hfit : x.natAbs.log2 ≤ fb) (h64 : x.natAbs < 2 ^ 64) :
    (valueOfInt fb x).toRat = (x : ℚ) := by
  unfold valueOfInt
  simp only [hx, if_false]
  have hm0 : x.natAbs ≠ 0 := by omega
  set mag := x.natAbs with hmag
  have hlo : 2 ^ mag.log2 ≤ mag := Nat.log2_self_le hm0
  have hhi : mag < 2 ^ (mag.log2 + 1) := Nat.lt_log2_self
  have hsc : mag.log2 ≤ 63 := by
    by_contra hc
    have := Nat.pow_le_pow_right (show 0 < 2 by decide) (show 64 ≤ mag.log2 by omega)
    omega
  set sc := mag.log2 with hscdef
  -- the 64-bit word after shifting the hidden bit out
  have hf64 : (if sc = 0 then 0 else (mag <<< (64 - sc)) % 2 ^ 64) = (mag - 2 ^ sc) * 2 ^ (64 - sc) := by
    split
    · rename_i h0; rw [h0] at hlo hhi ⊢; simp at hlo hhi ⊢; omega
    · rw [Nat.shiftLeft_eq]
      have e1 : mag * 2 ^ (64 - sc) = 2 ^ 64 + (mag - 2 ^ sc) * 2 ^ (64 - sc) := by
        have : 2 ^ 64 = 2 ^ sc * 2 ^ (64 - sc) := by rw [← Nat.pow_add]; congr 1; omega
        rw [this, Nat.sub_mul]
        have := Nat.mul_le_mul_right (2 ^ (64 - sc)) hlo
        omega
      have e2 : (mag - 2 ^ sc) * 2 ^ (64 - sc) < 2 ^ 64 := by
        have : 2 ^ 64 = 2 ^ sc * 2 ^ (64 - sc) := by rw [← Nat.pow_add]; congr 1; omega
        rw [this]
        apply Nat.mul_lt_mul_of_pos_right _ (Nat.two_pow_pos _)
        rw [Nat.pow_succ] at hhi; omega
      rw [e1, Nat.add_mod_left, Nat.mod_eq_of_lt e2]
  rw [hf64]
  simp only [hfb, if_true, Nat.shiftRight_eq_div_pow]
  have hfr : (mag - 2 ^ sc) * 2 ^ (64 - sc) / 2 ^ (64 - fb) = (mag - 2 ^ sc) * 2 ^ (fb - sc) := by
    have : 2 ^ (64 - sc) = 2 ^ (fb - sc) * 2 ^ (64 - fb) := by rw [← Nat.pow_add]; congr 1; omega
    rw [this, ← Nat.mul_assoc, Nat.mul_div_cancel _ (Nat.two_pow_pos _)]
  rw [hfr]
  unfold Val.toRat
  simp only [Bool.false_eq_true, if_false]
  rw [pow2_natCast]
  have hxq : (x : ℚ) = if x < 0 then -(mag : ℚ) else (mag : ℚ) := by
    split
    · have : x = -(mag : Int) := by omega
      rw [this]; push_cast; ring
    · have : x = (mag : Int) := by omega
      rw [this]; push_cast; ring
  have hval : (1 + ((((mag - 2 ^ sc) * 2 ^ (fb - sc) : Nat)) : ℚ) / ((2 ^ fb : Nat) : ℚ)) * ((2 ^ sc : Nat) : ℚ) = (mag : ℚ) := by
    have hfbs : (2 ^ fb : Nat) = 2 ^ (fb - sc) * 2 ^ sc := by rw [← Nat.pow_add]; congr 1; omega
    rw [hfbs]
    push_cast [Nat.cast_sub hlo]
    have p1 : (0 : ℚ) < 2 ^ (fb - sc) := by positivity
    have p2 : (0 : ℚ) < 2 ^ sc := by positivity
    field_simp
    ring
  rw [hxq]
  by_cases hneg : x < 0
  · simp only [hneg, decide_true, if_true, hval]
  · simp only [hneg, decide_false, Bool.false_eq_true, if_false, hval]

/-- non-vacuity: −(2^40+5) through value<63> -/
example : (-(2 ^ 40 + 5) : Int) ≠ 0 ∧ 63 ≤ 64 ∧ ((-(2 ^ 40 + 5) : Int).natAbs).log2 ≤ 63 := by decide

/-- zero maps to the zero value, for every width -/
theorem C03_valueOfInt_zero (fb : Nat) : (valueOfInt fb 0).zero = true := by
  unfold valueOfInt; simp

/-- infinities and NaNs of the source become NaR; zero becomes zero — for every posit configuration -/
theorem C03_specials (n es mb : Nat) :
    fromSrc n es mb .inf = 2 ^ (n - 1) ∧ fromSrc n es mb .nan = 2 ^ (n - 1) ∧ fromSrc n es mb .zero = 0 := by
  simp [fromSrc]

/-- value denoted by an extracted (sign, scale, fraction) triple with `mb` fraction bits -/
abbrev srcVal := srcVal'

/-- The frexp-style field extraction of a finite non-zero IEEE source (normal OR subnormal, any exponent and
    mantissa width) denotes the source value exactly. -/
theorem C03_classifyIeee_exact (eb mb bits : Nat) (s : Bool) (sc : Int) (fr : Nat)
    (h : classifyIeee eb mb bits = .fin s sc fr) :
    ieeeVal eb mb bits = some (srcVal mb s sc fr) := C03_classifyIeee_exact' eb mb bits s sc fr h

/-- non-vacuity: the binary64 subnormal 0x0000000000000003 and the normal 0x4009000000000000 (3.125) are both
    classified as finite sources -/
example : classifyIeee 11 52 0x3 = .fin false (-1073) (2 ^ 51) ∧
          classifyIeee 11 52 0x4009000000000000 = .fin false 1 0x9000000000000 := by decide
