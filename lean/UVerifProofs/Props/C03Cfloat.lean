/-
  C03 (cfloat clauses) — conversion from native double/float/integers: theorems about Model.Cfloat.fromIeee,
  fromSigned, fromUnsigned vs Spec.Cfloat.
-/
import UVerifProofs.Lemmas.CfloatVal
import UVerifProofs.Lemmas.CfloatFromIeee
import UVerifProofs.Lemmas.CfloatFromInt
open UVerif UVerif.Cfloat UVerif.Generated

/-- exact value a finite IEEE source denotes, as an expectation -/
def C03_cfloat_expect (src : Val) : Expect :=
  match src with
  | .nan _ => .nan
  | .inf s => .inf s
  | .fin s x => if x = 0 then .zero (some s) else .real (if s then -x else x)

/-- full statement for double sources (false of the code: subnormal sources, sat+sup; NaN payloads were repaired) -/
def C03_cfloat_from_f64_full : Prop :=
  ∀ (c : Cfg) (bits : Nat), c.valid = true → bits < 2 ^ 64 →
    satisfies c (C03_cfloat_expect (ieeeVal 11 52 bits)) (fromIeee c 11 52 ieeeF64_qnanmask ieeeF64_snanmask bits) = true

def C03_cfloat_from_f32_full : Prop :=
  ∀ (c : Cfg) (bits : Nat), c.valid = true → bits < 2 ^ 32 →
    satisfies c (C03_cfloat_expect (ieeeVal 8 23 bits)) (fromIeee c 8 23 ieeeF32_qnanmask ieeeF32_snanmask bits) = true

/-- full statement for integer sources of every width -/
def C03_cfloat_from_int_full : Prop :=
  ∀ (c : Cfg) (w : Nat) (v : Int), c.valid = true → (w = 8 ∨ w = 16 ∨ w = 32 ∨ w = 64) →
    -(2 ^ (w - 1) : Int) ≤ v → v < 2 ^ (w - 1) → v ≠ 0 →
    nearestNZ c (v : ℚ) (fromSigned c w v) = true

theorem C03_fromIeee_of_special (c : Cfg) (seb sfb qm sm bits r : Nat) (h : ieeeSpecial c seb sfb qm sm bits = some r) :
    fromIeee c seb sfb qm sm bits = r := by
  unfold fromIeee; simp only [h]

/-- ±infinity sources give ±infinity in every configuration (double) -/
theorem C03_cfloat_from_f64_inf (c : Cfg) (hv : c.valid = true) (s : Bool) :
    satisfies c (.inf s) (fromIeee c 11 52 ieeeF64_qnanmask ieeeF64_snanmask ((if s then 2 ^ 63 else 0) + 0x7ff0000000000000)) = true := by
  have sf := setInf_facts c hv s
  have : fromIeee c 11 52 ieeeF64_qnanmask ieeeF64_snanmask ((if s then 2 ^ 63 else 0) + 0x7ff0000000000000) = setInf c s := by
    apply C03_fromIeee_of_special
    cases s
    · have h1 : ((0 + 0x7ff0000000000000) >>> 52) % 2 ^ 11 = 2 ^ 11 - 1 := by decide
      have h2 : (0 + 0x7ff0000000000000) % 2 ^ 52 = 0 := by decide
      have h3 : ¬ ((0 : Nat) = ((2 ^ 52 - 1) &&& ieeeF64_snanmask) ∨ (0 : Nat) = ((2 ^ 52 - 1) &&& (ieeeF64_qnanmask ||| ieeeF64_snanmask))) := by decide
      have h4 : ¬ ((0 : Nat) = ((2 ^ 52 - 1) &&& ieeeF64_qnanmask)) := by decide
      have h5 : (0 + 0x7ff0000000000000).testBit (11 + 52) = false := by decide
      unfold ieeeSpecial
      simp only [Bool.false_eq_true, if_false, h1, h2, h3, h4, h5, if_true]
    · have h1 : ((2 ^ 63 + 0x7ff0000000000000) >>> 52) % 2 ^ 11 = 2 ^ 11 - 1 := by decide
      have h2 : (2 ^ 63 + 0x7ff0000000000000) % 2 ^ 52 = 0 := by decide
      have h3 : ¬ ((0 : Nat) = ((2 ^ 52 - 1) &&& ieeeF64_snanmask) ∨ (0 : Nat) = ((2 ^ 52 - 1) &&& (ieeeF64_qnanmask ||| ieeeF64_snanmask))) := by decide
      have h4 : ¬ ((0 : Nat) = ((2 ^ 52 - 1) &&& ieeeF64_qnanmask)) := by decide
      have h5 : (2 ^ 63 + 0x7ff0000000000000).testBit (11 + 52) = true := by decide
      unfold ieeeSpecial
      simp only [if_true, h1, h2, h3, h4, h5, if_false]
  rw [this]
  exact sat_inf c hv _ _ sf.1 sf.2.1 sf.2.2

/-- the two NaN patterns the code recognises (signalling 0x7ff4…, quiet 0x7ff8…) give NaN encodings, every configuration -/
theorem C03_cfloat_from_f64_nan (c : Cfg) (hv : c.valid = true) :
    satisfies c .nan (fromIeee c 11 52 ieeeF64_qnanmask ieeeF64_snanmask 0x7ff8000000000000) = true ∧
    satisfies c .nan (fromIeee c 11 52 ieeeF64_qnanmask ieeeF64_snanmask 0x7ff4000000000000) = true := by
  have hq := qnan_facts c hv
  have hs := snan_facts c hv
  have e1 : fromIeee c 11 52 ieeeF64_qnanmask ieeeF64_snanmask 0x7ff8000000000000 = qnan c := by
    apply C03_fromIeee_of_special
    have h1 : (0x7ff8000000000000 >>> 52) % 2 ^ 11 = 2 ^ 11 - 1 := by decide
    have h3 : ¬ (0x7ff8000000000000 % 2 ^ 52 = ((2 ^ 52 - 1) &&& ieeeF64_snanmask) ∨ 0x7ff8000000000000 % 2 ^ 52 = ((2 ^ 52 - 1) &&& (ieeeF64_qnanmask ||| ieeeF64_snanmask))) := by decide
    have h4 : 0x7ff8000000000000 % 2 ^ 52 = ((2 ^ 52 - 1) &&& ieeeF64_qnanmask) := by decide
    unfold ieeeSpecial
    simp only [h1, h3, if_true, if_false]
    rw [if_pos h4]
  have e2 : fromIeee c 11 52 ieeeF64_qnanmask ieeeF64_snanmask 0x7ff4000000000000 = snan c := by
    apply C03_fromIeee_of_special
    have h1 : (0x7ff4000000000000 >>> 52) % 2 ^ 11 = 2 ^ 11 - 1 := by decide
    have h3 : (0x7ff4000000000000 % 2 ^ 52 = ((2 ^ 52 - 1) &&& ieeeF64_snanmask) ∨ 0x7ff4000000000000 % 2 ^ 52 = ((2 ^ 52 - 1) &&& (ieeeF64_qnanmask ||| ieeeF64_snanmask))) := by decide
    unfold ieeeSpecial
    simp only [h1, if_true]
    rw [if_pos h3]
  rw [e1, e2]
  exact ⟨sat_nan c hv _ hq.1 (isNan_of_isNanEnc c hv _ hq.2.1), sat_nan c hv _ hs.1 (isNan_of_isNanEnc c hv _ hs.2.1)⟩

/-- **every NaN source gives a NaN** (after the repair "must convert a NaN with any payload to a NaN"): for every valid
    configuration, every source format (seb exponent bits, sfb fraction bits, any pair of recognition masks) and every
    bit pattern with the exponent field all ones and a non-zero fraction — any payload, either sign — the result of
    convert_ieee754 is a canonical NaN encoding. Before the repair only three fraction patterns were recognised and
    every other NaN was converted as a number of magnitude 2^(2^(seb−1)): `cfloat 40 8 u32 100 fromd 7ff0000000000001
    => 7ffffffffe` (+inf). -/
theorem C03_cfloat_from_ieee_nan (c : Cfg) (hv : c.valid = true) (seb sfb qm sm bits : Nat)
    (he : (bits >>> sfb) % 2 ^ seb = 2 ^ seb - 1) (hf : bits % 2 ^ sfb ≠ 0) :
    satisfies c .nan (fromIeee c seb sfb qm sm bits) = true := by
  have hq := qnan_facts c hv
  have hs := snan_facts c hv
  have hQ := sat_nan c hv _ hq.1 (isNan_of_isNanEnc c hv _ hq.2.1)
  have hS := sat_nan c hv _ hs.1 (isNan_of_isNanEnc c hv _ hs.2.1)
  have key : ∃ r, ieeeSpecial c seb sfb qm sm bits = some r ∧ (r = qnan c ∨ r = snan c) := by
    unfold ieeeSpecial
    simp only [he, if_true]
    split_ifs
    · exact ⟨_, rfl, Or.inr rfl⟩
    · exact ⟨_, rfl, Or.inl rfl⟩
    · exact ⟨_, rfl, Or.inl rfl⟩
    · exact ⟨_, rfl, Or.inr rfl⟩
  obtain ⟨r, hr, hcase⟩ := key
  rw [C03_fromIeee_of_special c seb sfb qm sm bits r hr]
  rcases hcase with h | h <;> rw [h] <;> assumption

/-- double and float instances, incl. the former witness (signalling NaN with payload 1 into cfloat<40,8>) -/
theorem C03_cfloat_from_f64_nan_any (c : Cfg) (hv : c.valid = true) (bits : Nat)
    (he : (bits >>> 52) % 2 ^ 11 = 2 ^ 11 - 1) (hf : bits % 2 ^ 52 ≠ 0) :
    satisfies c .nan (fromIeee c 11 52 ieeeF64_qnanmask ieeeF64_snanmask bits) = true :=
  C03_cfloat_from_ieee_nan c hv 11 52 _ _ bits he hf

theorem C03_cfloat_from_f32_nan_any (c : Cfg) (hv : c.valid = true) (bits : Nat)
    (he : (bits >>> 23) % 2 ^ 8 = 2 ^ 8 - 1) (hf : bits % 2 ^ 23 ≠ 0) :
    satisfies c .nan (fromIeee c 8 23 ieeeF32_qnanmask ieeeF32_snanmask bits) = true :=
  C03_cfloat_from_ieee_nan c hv 8 23 _ _ bits he hf

example : let c : Cfg := { nbits := 40, es := 8, bt := 32, sub := true }
    (ieeeVal 11 52 0x7ff0000000000001).isNan = true ∧
    fromIeee c 11 52 ieeeF64_qnanmask ieeeF64_snanmask 0x7ff0000000000001 = snan c ∧
    fromIeee c 11 52 ieeeF64_qnanmask ieeeF64_snanmask 0xfff8000000000001 = qnan c := by
  decide +kernel

/-- still false in general: saturating configurations with supernormals return the infinity encoding for an
    out-of-range source (known finding cfloat.sat_sup.maxpos_is_inf): 16.0 into cfloat<6,2,sub,sup,sat> -/
theorem C03_cfloat_from_f64_full_false : ¬ C03_cfloat_from_f64_full := by
  intro h
  have := h { nbits := 6, es := 2, bt := 8, sub := true, sup := true, sat := true } 0x4030000000000000 (by decide) (by decide)
  revert this
  decide +kernel

/-- float subnormal sources inside bfloat_t's range return +0 (known finding) -/
theorem C03_cfloat_from_f32_subnormal_counterexample :
    let c : Cfg := { nbits := 16, es := 8, bt := 16, sub := true }
    fromIeee c 8 23 ieeeF32_qnanmask ieeeF32_snanmask 0x7fffff = 0 ∧
    satisfies c (C03_cfloat_expect (ieeeVal 8 23 0x7fffff)) 0 = false ∧
    satisfies c (C03_cfloat_expect (ieeeVal 8 23 0x7fffff)) 0x80 = true := by
  decide +kernel

theorem C03_cfloat_from_f32_full_false : ¬ C03_cfloat_from_f32_full := by
  intro h
  have := h { nbits := 16, es := 8, bt := 16, sub := true } 0x7fffff (by decide) (by decide)
  revert this
  decide +kernel

/-- integer round<> after the repair "must clear the fraction when rounding carries into the next binade": the former
    witness 127 ↦ 192 of cfloat<8,4> now gives 128 = 0x70, the nearest value -/
theorem C03_cfloat_from_int_carry_cfg :
    let c : Cfg := { nbits := 8, es := 4, sub := true }
    fromSigned c 8 127 = 0x70 ∧ cfVal c 0x70 = .fin false 128 ∧ nearestNZ c 127 0x70 = true := by
  decide +kernel

/-- integer round<> after the repair "sticky mask must include the bit below the round bit": the former witness
    −212 ↦ −192 of cfloat<7,4> (discarded bits .101 taken for a tie) now gives −224 = 0x7b, the nearest value -/
theorem C03_cfloat_from_int_sticky_cfg :
    let c : Cfg := { nbits := 7, es := 4 }
    fromSigned c 16 (-212) = 0x7b ∧ nearestNZ c (-212) 0x7b = true := by
  decide +kernel

/-- every non-zero `signed char` converts to the nearest value of cfloat<8,4,sub> (range ±480, spacing up to 32: ties,
    carries into the next binade and all discarded-bit patterns occur) through each of the four source widths — a
    finite test of the repaired `round<>` -/
theorem C03_cfloat_from_int_cfg_8_4 :
    ∀ k : Fin 256, let c : Cfg := { nbits := 8, es := 4, sub := true }
      let v : Int := (k.val : Int) - 128
      v = 0 ∨ (nearestNZ c (v : ℚ) (fromSigned c 8 v) = true ∧ nearestNZ c (v : ℚ) (fromSigned c 64 v) = true) := by
  decide +kernel

/-- the side condition of the integer theorem, decidable on the inputs: the target fits the 64-bit assembly of the
    routine, its fraction is narrower than the source type (so `round<>` rounds), and the integer's binade ⌊log2 |v|⌋ is
    a normal binade of the target at least two below the all-ones exponent (inside it: no overflow, no NaN/inf
    pattern, not the subnormal binade of es = 1 — the regions of the two findings that are recorded,
    cfloat.from_int.out_of_range and cfloat.from_int.subnormal_target) -/
def C03_cfloat_from_int_inRange (c : Cfg) (w mag : Nat) : Bool :=
  decide (c.nbits ≤ 64) && decide (c.fbits + 1 < w) &&
  decide (1 ≤ (Nat.log2 mag : Int) + c.bias) && decide ((Nat.log2 mag : Int) + c.bias + 1 < c.emax)

/-- **integer → cfloat is correctly rounded** (`convert_signed_integer` / `convert_unsigned_integer` + `round<>`, after
    the repairs of the sticky mask and of the rounding carry): every valid configuration, every source width w ≤ 64,
    every non-zero magnitude below 2^w of either sign inside `C03_cfloat_from_int_inRange`: the result is canonical
    and is the value nearest to ±mag, ties to even — in particular a carry into the next binade gives 2^(e+1) and
    discarded bits .101 are not taken for a tie. Via `fromIntMag_eq_assemble` (the routine = the rounding tail
    `assemble` on the significant mag·2^(w−1−msb)) and `assemble_round_normal`. -/
theorem C03_cfloat_from_int_mag_partial (c : Cfg) (hv : c.valid = true) (w : Nat) (neg : Bool) (mag : Nat)
    (hm0 : mag ≠ 0) (hmw : mag < 2 ^ w) (hw64 : w ≤ 64)
    (hr : C03_cfloat_from_int_inRange c w mag = true) :
    fromIntMag c w neg mag < 2 ^ c.nbits ∧
    nearestNZ c ((if neg then -1 else 1) * (mag : ℚ)) (fromIntMag c w neg mag) = true := by
  unfold C03_cfloat_from_int_inRange at hr
  simp only [Bool.and_eq_true, decide_eq_true_eq] at hr
  obtain ⟨⟨⟨hn64, hfw⟩, hlo⟩, hhi⟩ := hr
  obtain ⟨_, hfb1, _, _⟩ := valid_facts c hv
  have hb0 := bias_nonneg c
  rw [fromIntMag_eq_assemble c hv w neg mag hm0 hmw hw64 hn64 hfw hlo hhi]
  have hl1 := Nat.log2_self_le hm0
  have hl2 := Nat.lt_log2_self (n := mag)
  generalize Nat.log2 mag = msb at *
  have hmsbw : msb < w := by
    by_contra h
    have : 2 ^ w ≤ 2 ^ msb := Nat.pow_le_pow_right (by omega) (by omega)
    omega
  generalize ht : w - c.fbits - 1 = t
  generalize hk : w - msb - 1 = k
  have hpw : 2 ^ c.fbits * 2 ^ t = 2 ^ msb * 2 ^ k := by rw [← Nat.pow_add, ← Nat.pow_add]; congr 1; omega
  have hsig : (mag - 2 ^ msb) * 2 ^ k + 2 ^ c.fbits * 2 ^ t = mag * 2 ^ k := by
    rw [hpw, ← Nat.add_mul]; congr 1; omega
  rw [hsig]
  generalize hbi : ((msb : Int) + c.bias).toNat = biased
  have hbpos : 1 ≤ biased := by omega
  have hbe2 : biased + 1 < c.emax := by omega
  have hT := two_pow_pos t
  have hK := two_pow_pos k
  have hmk : 2 ^ msb * 2 ^ k ≤ mag * 2 ^ k := Nat.mul_le_mul_right _ hl1
  have hmk2 : mag * 2 ^ k < 2 ^ (msb + 1) * 2 ^ k := Nat.mul_lt_mul_of_pos_right hl2 hK
  have r1 : 2 ^ c.fbits ≤ (mag * 2 ^ k) >>> t := by
    rw [Nat.shiftRight_eq_div_pow, Nat.le_div_iff_mul_le hT, hpw]; exact hmk
  have r2 : (mag * 2 ^ k) >>> t < 2 ^ (c.fbits + 1) := by
    rw [Nat.shiftRight_eq_div_pow, Nat.div_lt_iff_lt_mul hT, Nat.pow_succ, Nat.mul_right_comm, hpw,
      Nat.mul_right_comm, ← Nat.pow_succ]
    exact hmk2
  obtain ⟨a1, a2⟩ := assemble_round_normal c hv neg biased (mag * 2 ^ k) t r1 r2 hbpos hbe2
  refine ⟨a1, ?_⟩
  have hval : ((mag * 2 ^ k : Nat) : ℚ) * pow2 ((biased : Int) - c.bias - (c.fbits : Int) - (t : Int)) = (mag : ℚ) := by
    have he : (biased : Int) - c.bias - (c.fbits : Int) - (t : Int) = -(k : Int) := by omega
    have hk0 : ((2 : ℚ) ^ k) ≠ 0 := by positivity
    rw [he, pow2_eq_zpow, zpow_neg, zpow_natCast]
    push_cast
    field_simp
  rw [hval] at a2
  exact a2

/-- signed sources of the four C++ widths: v ≠ 0 in the range of the type, |v| inside the side condition -/
theorem C03_cfloat_from_int_partial (c : Cfg) (hv : c.valid = true) (w : Nat) (v : Int)
    (hw : w = 8 ∨ w = 16 ∨ w = 32 ∨ w = 64)
    (hlo : -(2 ^ (w - 1) : Int) ≤ v) (hhi : v < 2 ^ (w - 1)) (hv0 : v ≠ 0)
    (hr : C03_cfloat_from_int_inRange c w v.natAbs = true) :
    fromSigned c w v < 2 ^ c.nbits ∧ nearestNZ c (v : ℚ) (fromSigned c w v) = true := by
  have hw64 : w ≤ 64 := by rcases hw with h | h | h | h <;> omega
  have hw1 : 1 ≤ w := by rcases hw with h | h | h | h <;> omega
  have hpw : (2 : Int) ^ w = 2 * 2 ^ (w - 1) := by
    rw [← pow_succ']; congr 1; omega
  have hle64 : (2 : Int) ^ w ≤ 2 ^ 64 := pow_le_pow_right₀ (by norm_num) hw64
  have h64 : (((2 ^ 64 : Nat) : Int)) = 2 ^ 64 := by norm_num
  have hmag : ofSigned 64 (if decide (v < 0) = true then -v else v) = v.natAbs := by
    unfold ofSigned
    have e : (if decide (v < 0) = true then -v else v) = (v.natAbs : Int) := by
      by_cases h : v < 0
      · rw [if_pos (by simpa using h)]; omega
      · rw [if_neg (by simpa using h)]; omega
    rw [e]
    have hlt : (v.natAbs : Int) < ((2 ^ 64 : Nat) : Int) := by rw [h64]; omega
    rw [Int.emod_eq_of_lt (by omega) hlt]
    exact Int.toNat_natCast _
  have hm0 : v.natAbs ≠ 0 := by omega
  have hmw : v.natAbs < 2 ^ w := by
    have : (v.natAbs : Int) < 2 ^ w := by omega
    exact_mod_cast this
  obtain ⟨p1, p2⟩ := C03_cfloat_from_int_mag_partial c hv w (decide (v < 0)) v.natAbs hm0 hmw hw64 hr
  unfold fromSigned
  simp only [hv0, if_false, hmag]
  refine ⟨p1, ?_⟩
  have hvq : ((if decide (v < 0) = true then -1 else 1) * (v.natAbs : ℚ)) = (v : ℚ) := by
    by_cases h : v < 0
    · have e : (v.natAbs : Int) = -v := by omega
      have e' : (v.natAbs : ℚ) = -(v : ℚ) := by rw [← Int.cast_natCast (R := ℚ) v.natAbs, e, Int.cast_neg]
      rw [if_pos (by simpa using h), e']; ring
    · have e : (v.natAbs : Int) = v := by omega
      have e' : (v.natAbs : ℚ) = (v : ℚ) := by rw [← Int.cast_natCast (R := ℚ) v.natAbs, e]
      rw [if_neg (by simpa using h), e']; ring
  rw [hvq] at p2
  exact p2

/-- unsigned sources -/
theorem C03_cfloat_from_uint_partial (c : Cfg) (hv : c.valid = true) (w : Nat) (v : Nat)
    (hw64 : w ≤ 64) (hv0 : v ≠ 0) (hvw : v < 2 ^ w)
    (hr : C03_cfloat_from_int_inRange c w v = true) :
    fromUnsigned c w v < 2 ^ c.nbits ∧ nearestNZ c (v : ℚ) (fromUnsigned c w v) = true := by
  have h64 : v < 2 ^ 64 := lt_of_lt_of_le hvw (Nat.pow_le_pow_right (by omega) hw64)
  unfold fromUnsigned
  rw [Nat.mod_eq_of_lt h64]
  have := C03_cfloat_from_int_mag_partial c hv w false v hv0 hvw hw64 hr
  simpa using this

/-- non-vacuity: inside the side condition lie the former carry witness (127 into cfloat<8,4>), 69 = 1000101b into
    cfloat<8,4> (discarded bits .101, the sticky-gap pattern), 2^62 + 2^38 + 1 into single precision (sticky far below) and
    |LLONG_MIN| -/
example : C03_cfloat_from_int_inRange { nbits := 8, es := 4, sub := true } 8 127 = true ∧
    C03_cfloat_from_int_inRange { nbits := 8, es := 4, sub := true } 16 69 = true ∧
    C03_cfloat_from_int_inRange { nbits := 32, es := 8, bt := 32, sub := true } 64 (2 ^ 62 + 2 ^ 38 + 1) = true ∧
    C03_cfloat_from_int_inRange { nbits := 32, es := 8, bt := 32, sub := true } 64 (2 ^ 63) = true := by
  decide +kernel

/-- **integers beyond the range are NOT handled** (finding cfloat.from_int.out_of_range, recorded: the repair that added
    the range test was withdrawn because static/cfloat/math/fractional.cpp depends on the old conversion): 127 into
    cfloat<8,2> without supernormals (largest finite value 3.875) rounds to 2^7, the biased exponent 8 does not fit the
    2-bit field and the encoding is 0 — the relation demands +inf = 0x7e; 100 gives the negative NaN pattern 0xf2 -/
theorem C03_cfloat_from_int_range_counterexample :
    let c : Cfg := { nbits := 8, es := 2 }
    fromSigned c 8 127 = 0 ∧ nearestNZ c 127 0 = false ∧ nearestNZ c 127 0x7e = true ∧
    fromSigned c 8 100 = 0xf2 ∧ nearestNZ c 100 0xf2 = false := by
  decide +kernel

/-- still false in general: es = 1 configurations have bias 0, the integer 1 lies in their subnormal binade and is
    written without its leading bit (known finding cfloat.from_int.subnormal_target): 1 into cfloat<6,1,sub,sup> gives 0 -/
theorem C03_cfloat_from_int_subnormal_counterexample :
    let c : Cfg := { nbits := 6, es := 1, sub := true, sup := true }
    fromSigned c 8 1 = 0 ∧ nearestNZ c 1 0 = false ∧ nearestNZ c 1 0x08 = true := by
  decide +kernel

theorem C03_cfloat_from_int_full_false : ¬ C03_cfloat_from_int_full := by
  intro h
  have := h { nbits := 8, es := 2 } 8 127 (by decide) (by decide) (by decide) (by decide) (by decide)
  revert this
  decide +kernel

/-- zero sources: the integer 0 gives +0 and ±0.0 give ±0 in every configuration and for every source width -/
theorem C03_cfloat_from_zero (c : Cfg) (hv : c.valid = true) (w : Nat) :
    fromSigned c w 0 = 0 ∧ fromUnsigned c w 0 = 0 ∧ (cfVal c 0).isZero = true := by
  have s0 := signBit_facts c hv false
  have e0 : signBit c false = 0 := by unfold signBit; simp
  rw [e0] at s0
  refine ⟨by unfold fromSigned; simp, by unfold fromUnsigned fromIntMag; simp, ?_⟩
  rw [cfVal_isZero c hv]; exact isZero_of_isZeroEnc c hv _ s0.2.1

/-- narrow = wide: an integer value converts to the same encoding through every signed type that holds it
    (finite lemma over a small configuration and all values of signed char; the general statement is
    `C03_cfloat_narrow_eq_wide_full`) -/
def C03_cfloat_narrow_eq_wide_full : Prop :=
  ∀ (c : Cfg) (v : Int) (w1 w2 : Nat), c.valid = true → (w1 = 8 ∨ w1 = 16 ∨ w1 = 32 ∨ w1 = 64) → (w2 = 8 ∨ w2 = 16 ∨ w2 = 32 ∨ w2 = 64) →
    -(2 ^ (w1 - 1) : Int) ≤ v → v < 2 ^ (w1 - 1) → -(2 ^ (w2 - 1) : Int) ≤ v → v < 2 ^ (w2 - 1) →
    fromSigned c w1 v = fromSigned c w2 v

theorem C03_cfloat_narrow_eq_wide_cfg_8_4 :
    ∀ k : Fin 256, let c : Cfg := { nbits := 8, es := 4, sub := true }
      let v : Int := (k.val : Int) - 128
      fromSigned c 8 v = fromSigned c 16 v ∧ fromSigned c 8 v = fromSigned c 32 v ∧ fromSigned c 8 v = fromSigned c 64 v := by
  decide +kernel


/-! ### rounding correctness of convert_ieee754 for normal sources / normal targets -/

/-- generic in the source format (seb exponent bits, sfb fraction bits): a normal source whose exponent is a normal
    exponent of the target at least two below the all-ones exponent, target fraction narrower than the source's:
    the result is in range and satisfies the IEEE rounding relation for the exact source value. -/
theorem C03_cfloat_from_ieee_normal_partial (c : Cfg) (hv : c.valid = true) (seb sfb qm sm bits : Nat)
    (hfb : c.fbits < sfb)
    (hlay : ¬ (c.nbits = 1 + seb + sfb ∧ c.es = seb))
    (hexp0 : (bits >>> sfb) % 2 ^ seb ≠ 0)
    (hexp1 : (bits >>> sfb) % 2 ^ seb ≠ 2 ^ seb - 1)
    (hlo : c.minExpNormal ≤ (((bits >>> sfb) % 2 ^ seb : Nat) : Int) - (((2 ^ (seb - 1) : Nat) : Int) - 1))
    (hhi : (((bits >>> sfb) % 2 ^ seb : Nat) : Int) - (((2 ^ (seb - 1) : Nat) : Int) - 1) + c.bias + 1 < c.emax) :
    satisfies c (C03_cfloat_expect (ieeeVal seb sfb bits)) (fromIeee c seb sfb qm sm bits) = true := by
  obtain ⟨_, hfb1, _, _⟩ := valid_facts c hv
  have hspec : ieeeSpecial c seb sfb qm sm bits = none := by
    unfold ieeeSpecial; simp only [hexp1, if_false]
  rw [fromIeee_normal_eq_assemble c hv seb sfb qm sm bits hspec hlay hexp0 hfb hlo hhi]
  generalize hre : (bits >>> sfb) % 2 ^ seb = rawExp at *
  generalize hrf : bits % 2 ^ sfb = rawFrac at *
  generalize hsg : bits.testBit (seb + sfb) = s at *
  have hrfl : rawFrac < 2 ^ sfb := by rw [← hrf]; exact Nat.mod_lt _ (two_pow_pos _)
  have hb0 := bias_nonneg c
  have hmn : c.minExpNormal = 1 - c.bias := rfl
  set t := sfb - c.fbits with ht
  have hpow : 2 ^ sfb = 2 ^ c.fbits * 2 ^ t := by rw [← Nat.pow_add]; congr 1; omega
  have hx : rawFrac < 2 ^ c.fbits * 2 ^ t := by rw [← hpow]; exact hrfl
  obtain ⟨sh1, sh2⟩ := shift_add_hidden rawFrac c.fbits t hx
  generalize rawFrac >>> t = y at sh1 sh2
  have h2f : 2 ^ (c.fbits + 1) = 2 ^ c.fbits + 2 ^ c.fbits := by rw [Nat.pow_succ]; omega
  set biased := ((rawExp : Int) - (((2 ^ (seb - 1) : Nat) : Int) - 1) + c.bias).toNat with hbiased
  obtain ⟨hb1, hb2⟩ := assemble_round_normal c hv s biased (rawFrac + 2 ^ c.fbits * 2 ^ t) t
    (by rw [sh1]; omega) (by rw [sh1, h2f]; omega) (by omega) (by omega)
  -- the source value
  have hval : ieeeVal seb sfb bits = .fin s ((1 + (rawFrac : ℚ) / ((2 ^ sfb : Nat) : ℚ)) * pow2 ((rawExp : Int) - (((2 ^ (seb - 1) : Nat) : Int) - 1))) := by
    unfold ieeeVal
    simp only [hre, hrf, hsg, hexp1, hexp0, if_false]
  have hpos : 0 < (1 + (rawFrac : ℚ) / ((2 ^ sfb : Nat) : ℚ)) * pow2 ((rawExp : Int) - (((2 ^ (seb - 1) : Nat) : Int) - 1)) :=
    normal_mag_pos rawFrac (2 ^ sfb) (two_pow_pos _) _
  rw [hval]
  unfold C03_cfloat_expect
  simp only [ne_of_gt hpos, if_false]
  unfold satisfies
  simp only [Bool.and_eq_true, decide_eq_true_eq]
  refine ⟨hb1, ?_⟩
  have hreal : (if s = true then -((1 + (rawFrac : ℚ) / ((2 ^ sfb : Nat) : ℚ)) * pow2 ((rawExp : Int) - (((2 ^ (seb - 1) : Nat) : Int) - 1)))
        else (1 + (rawFrac : ℚ) / ((2 ^ sfb : Nat) : ℚ)) * pow2 ((rawExp : Int) - (((2 ^ (seb - 1) : Nat) : Int) - 1)))
      = (if s = true then (-1 : ℚ) else 1) * (((rawFrac + 2 ^ c.fbits * 2 ^ t : Nat) : ℚ) *
          pow2 ((biased : Int) - c.bias - (c.fbits : Int) - (t : Int))) := by
    have hbi : (biased : Int) - c.bias = (rawExp : Int) - (((2 ^ (seb - 1) : Nat) : Int) - 1) := by omega
    have hsp : pow2 ((biased : Int) - c.bias - (c.fbits : Int) - (t : Int))
        = pow2 ((rawExp : Int) - (((2 ^ (seb - 1) : Nat) : Int) - 1)) / ((2 ^ sfb : Nat) : ℚ) := by
      rw [hbi, ← pow2_natCast, ← pow2_sub]; congr 1; push_cast; omega
    have hS : (0 : ℚ) < ((2 ^ sfb : Nat) : ℚ) := by exact_mod_cast two_pow_pos sfb
    rw [hsp, ← hpow]
    cases s <;> simp <;> field_simp <;> ring
  rw [hreal]; exact hb2

/-- double sources: every normal double whose exponent is a normal exponent of the target (two below the all-ones
    exponent at most), every valid configuration with fewer than 52 fraction bits -/
theorem C03_cfloat_from_f64_normal_partial (c : Cfg) (hv : c.valid = true) (bits : Nat) (hfb : c.fbits < 52)
    (hexp0 : (bits >>> 52) % 2 ^ 11 ≠ 0) (hexp1 : (bits >>> 52) % 2 ^ 11 ≠ 2047)
    (hlo : c.minExpNormal ≤ (((bits >>> 52) % 2 ^ 11 : Nat) : Int) - 1023)
    (hhi : (((bits >>> 52) % 2 ^ 11 : Nat) : Int) - 1023 + c.bias + 1 < c.emax) :
    satisfies c (C03_cfloat_expect (ieeeVal 11 52 bits)) (fromIeee c 11 52 ieeeF64_qnanmask ieeeF64_snanmask bits) = true := by
  obtain ⟨_, _, h3, _⟩ := valid_facts c hv
  refine C03_cfloat_from_ieee_normal_partial c hv 11 52 _ _ bits hfb ?_ hexp0 (by simpa using hexp1) (by simpa using hlo) (by simpa using hhi)
  intro hc
  unfold Cfg.fbits at hfb
  omega

/-- float sources, targets with fewer than 23 fraction bits -/
theorem C03_cfloat_from_f32_normal_partial (c : Cfg) (hv : c.valid = true) (bits : Nat) (hfb : c.fbits < 23)
    (hexp0 : (bits >>> 23) % 2 ^ 8 ≠ 0) (hexp1 : (bits >>> 23) % 2 ^ 8 ≠ 255)
    (hlo : c.minExpNormal ≤ (((bits >>> 23) % 2 ^ 8 : Nat) : Int) - 127)
    (hhi : (((bits >>> 23) % 2 ^ 8 : Nat) : Int) - 127 + c.bias + 1 < c.emax) :
    satisfies c (C03_cfloat_expect (ieeeVal 8 23 bits)) (fromIeee c 8 23 ieeeF32_qnanmask ieeeF32_snanmask bits) = true := by
  obtain ⟨_, _, h3, _⟩ := valid_facts c hv
  refine C03_cfloat_from_ieee_normal_partial c hv 8 23 _ _ bits hfb ?_ hexp0 (by simpa using hexp1) (by simpa using hlo) (by simpa using hhi)
  intro hc
  unfold Cfg.fbits at hfb
  omega

/-- non-vacuity: 0.1 (0x3fb999999999999a) into half precision: normal source, normal target, inexact -/
example : let c : Cfg := { nbits := 16, es := 5, bt := 16, sub := true }
    c.valid = true ∧ c.fbits < 52 ∧ (0x3fb999999999999a >>> 52) % 2 ^ 11 ≠ 0 ∧ (0x3fb999999999999a >>> 52) % 2 ^ 11 ≠ 2047 ∧
    c.minExpNormal ≤ (((0x3fb999999999999a >>> 52) % 2 ^ 11 : Nat) : Int) - 1023 ∧
    (((0x3fb999999999999a >>> 52) % 2 ^ 11 : Nat) : Int) - 1023 + c.bias + 1 < c.emax ∧
    fromIeee c 11 52 ieeeF64_qnanmask ieeeF64_snanmask 0x3fb999999999999a = 0x2e66 := by
  decide +kernel

/-! ### long double sources (x86-64 80-bit; transcript pattern sign | 15 | 63) — `fromLD` -/

/-- the full statement for long double sources (false of the pinned code: `C03_cfloat_from_f80_full_false`) -/
def C03_cfloat_from_f80_full : Prop :=
  ∀ (c : Cfg) (bits : Nat), c.valid = true → (c.nbits ≤ 64 ∨ 63 ≤ c.fbits) → bits < 2 ^ 79 →
    satisfies c (C03_cfloat_expect (ieeeVal 15 63 bits)) (fromLD c ieeeF80_qnanmask ieeeF80_snanmask ieeeF80_hmask bits) = true

theorem C03_fromLD_of_special (c : Cfg) (qm sm hm bits r : Nat) (h : ieeeSpecial c 15 63 qm sm bits = some r) :
    fromLD c qm sm hm bits = r := by
  unfold fromLD; simp only [h]

/-- every long double NaN (exponent field all ones, non-zero 63-bit fraction: any payload, quiet or signalling, either
    sign) gives a NaN encoding, in every configuration — also with the binary64 masks ieee754_parameter<long double> carries -/
theorem C03_cfloat_from_f80_nan_any (c : Cfg) (hv : c.valid = true) (qm sm hm bits : Nat)
    (he : (bits >>> 63) % 2 ^ 15 = 2 ^ 15 - 1) (hf : bits % 2 ^ 63 ≠ 0) :
    satisfies c .nan (fromLD c qm sm hm bits) = true := by
  have hq := qnan_facts c hv
  have hs := snan_facts c hv
  have hQ := sat_nan c hv _ hq.1 (isNan_of_isNanEnc c hv _ hq.2.1)
  have hS := sat_nan c hv _ hs.1 (isNan_of_isNanEnc c hv _ hs.2.1)
  have key : ∃ r, ieeeSpecial c 15 63 qm sm bits = some r ∧ (r = qnan c ∨ r = snan c) := by
    unfold ieeeSpecial
    simp only [he, if_true]
    split_ifs
    · exact ⟨_, rfl, Or.inr rfl⟩
    · exact ⟨_, rfl, Or.inl rfl⟩
    · exact ⟨_, rfl, Or.inl rfl⟩
    · exact ⟨_, rfl, Or.inr rfl⟩
  obtain ⟨r, hr, hcase⟩ := key
  rw [C03_fromLD_of_special c qm sm hm bits r hr]
  rcases hcase with h | h <;> rw [h] <;> assumption

/-- long double sources: every normal long double whose exponent is a normal exponent of the target (two below the
    all-ones exponent at most), every valid configuration of at most 64 bits with fewer than 63 fraction bits — the
    instance ⟨15, 63⟩ of `C03_cfloat_from_ieee_normal_partial`, transferred to the long double transcription by
    `fromLD_eq_fromIeee_normal` (whatever the hidden-bit mask is: it is only used in the target's subnormal range) -/
theorem C03_cfloat_from_f80_normal_partial (c : Cfg) (hv : c.valid = true) (qm sm hm bits : Nat) (hfb : c.fbits < 63) (hn64 : c.nbits ≤ 64)
    (hexp0 : (bits >>> 63) % 2 ^ 15 ≠ 0) (hexp1 : (bits >>> 63) % 2 ^ 15 ≠ 32767)
    (hlo : c.minExpNormal ≤ (((bits >>> 63) % 2 ^ 15 : Nat) : Int) - 16383)
    (hhi : (((bits >>> 63) % 2 ^ 15 : Nat) : Int) - 16383 + c.bias + 1 < c.emax) :
    satisfies c (C03_cfloat_expect (ieeeVal 15 63 bits)) (fromLD c qm sm hm bits) = true := by
  have hspec : ieeeSpecial c 15 63 qm sm bits = none := by
    unfold ieeeSpecial; simp only [show (2 : Nat) ^ 15 - 1 = 32767 by norm_num, hexp1, if_false]
  rw [fromLD_eq_fromIeee_normal c hv qm sm hm bits hspec hn64 hexp0 hfb (by simpa using hlo) (by simpa using hhi)]
  refine C03_cfloat_from_ieee_normal_partial c hv 15 63 _ _ bits hfb ?_ hexp0 (by simpa using hexp1) (by simpa using hlo) (by simpa using hhi)
  omega

/-- non-vacuity: 1 + 2^-11 + 2^-63 (pattern 1fff8010000000000001: more than binary64's 53 bits) into half precision is
    above the tie and rounds up; through double it would be the tie 1 + 2^-11 and stay at 3c00 -/
example : let c : Cfg := { nbits := 16, es := 5, bt := 16, sub := true }
    c.valid = true ∧ c.fbits < 63 ∧ c.nbits ≤ 64 ∧ (0x1fff8010000000000001 >>> 63) % 2 ^ 15 ≠ 0 ∧ (0x1fff8010000000000001 >>> 63) % 2 ^ 15 ≠ 32767 ∧
    c.minExpNormal ≤ (((0x1fff8010000000000001 >>> 63) % 2 ^ 15 : Nat) : Int) - 16383 ∧
    (((0x1fff8010000000000001 >>> 63) % 2 ^ 15 : Nat) : Int) - 16383 + c.bias + 1 < c.emax ∧
    fromLD c ieeeF80_qnanmask ieeeF80_snanmask ieeeF80_hmask 0x1fff8010000000000001 = 0x3c01 ∧
    fromLD c ieeeF80_qnanmask ieeeF80_snanmask ieeeF80_hmask 0x1fff8010000000000000 = 0x3c00 := by
  decide +kernel

/-- former finding cfloat.from_ld.hidden_mask (repaired: `ieee754_parameter<long double>::hmask` is the integer bit only):
    5/1024 = 2.5·minpos of cfloat<8,4,sub> is a tie and gives the even neighbour 2 (it gave 3 while hmask had bit 0 set —
    checked here with the old constant as well) -/
theorem C03_cfloat_from_f80_hidden_mask_cfg :
    let c : Cfg := { nbits := 8, es := 4, bt := 8, sub := true }
    ieeeF80_hmask = 2 ^ 63 ∧
    fromLD c ieeeF80_qnanmask ieeeF80_snanmask ieeeF80_hmask 0x1ffba000000000000000 = 2 ∧
    satisfies c (C03_cfloat_expect (ieeeVal 15 63 0x1ffba000000000000000)) 2 = true ∧
    fromLD c ieeeF80_qnanmask ieeeF80_snanmask (2 ^ 63 + 1) 0x1ffba000000000000000 = 3 ∧
    satisfies c (C03_cfloat_expect (ieeeVal 15 63 0x1ffba000000000000000)) 3 = false := by
  decide +kernel

/-- former finding cfloat.from_ld.shift64 (repaired: the lsb mask, the guard mask and the fraction shift are guarded for a
    count of 64): 2^-10 = minpos/2 of cfloat<8,4,sub> is a tie and gives 0, the next long double above it gives minpos, the
    largest long double below minpos gives minpos, 3/4·minpos gives minpos -/
theorem C03_cfloat_from_f80_shift64_cfg :
    let c : Cfg := { nbits := 8, es := 4, bt := 8, sub := true }
    fromLD c ieeeF80_qnanmask ieeeF80_snanmask ieeeF80_hmask 0x1ffa8000000000000000 = 0 ∧
    satisfies c (C03_cfloat_expect (ieeeVal 15 63 0x1ffa8000000000000000)) 0 = true ∧
    fromLD c ieeeF80_qnanmask ieeeF80_snanmask ieeeF80_hmask 0x1ffa8000000000000001 = 1 ∧
    satisfies c (C03_cfloat_expect (ieeeVal 15 63 0x1ffa8000000000000001)) 1 = true ∧
    fromLD c ieeeF80_qnanmask ieeeF80_snanmask ieeeF80_hmask 0x1ffaffffffffffffffff = 1 ∧
    fromLD c ieeeF80_qnanmask ieeeF80_snanmask ieeeF80_hmask 0x5ffac000000000000000 = 0x81 := by
  decide +kernel

/-- finite check over the whole subnormal range of cfloat<6,2,sub> (fbits 3): every long double k/64·minpos·… built from the
    target lattice — all multiples of minpos/8 from 0 to 2·minNormal, i.e. every value, tie and quarter point — is correctly rounded -/
theorem C03_cfloat_from_f80_subnormal_cfg_6_2 :
    ∀ k : Fin 129, let c : Cfg := { nbits := 6, es := 2, bt := 8, sub := true }
      let bits := ieeeEncode 15 63 (.fin false ((k.val : Rat) / 64))
      satisfies c (C03_cfloat_expect (ieeeVal 15 63 bits)) (fromLD c ieeeF80_qnanmask ieeeF80_snanmask ieeeF80_hmask bits) = true := by
  decide +kernel

/-- the full statement is still false: targets with fbits ≥ 63 have no subnormal handling on the block path (known finding
    cfloat.from_ld.wide_subnormal_target): 2^-1023 into cfloat<80,11,sub> gives 0 -/
theorem C03_cfloat_from_f80_full_false : ¬ C03_cfloat_from_f80_full := by
  intro h
  have := h { nbits := 80, es := 11, bt := 8, sub := true } 0x1e000000000000000000 (by decide) (by decide) (by decide)
  revert this
  decide +kernel

