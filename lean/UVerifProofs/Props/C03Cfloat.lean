/-
  C03 (cfloat clauses) — conversion from native double/float/integers: theorems about Model.Cfloat.fromIeee,
  fromSigned, fromUnsigned vs Spec.Cfloat.
-/
import UVerifProofs.Lemmas.CfloatVal
import UVerifProofs.Lemmas.CfloatFromIeee
open UVerif UVerif.Cfloat UVerif.Generated

/-- exact value a finite IEEE source denotes, as an expectation -/
def C03_cfloat_expect (src : Val) : Expect :=
  match src with
  | .nan _ => .nan
  | .inf s => .inf s
  | .fin s x => if x = 0 then .zero (some s) else .real (if s then -x else x)

/-- full statement for double sources (false of the pinned code: NaN payloads, subnormal sources, sat+sup) -/
def C03_cfloat_from_f64_full : Prop :=
  ∀ (c : Cfg) (bits : Nat), c.valid = true → bits < 2 ^ 64 →
    satisfies c (C03_cfloat_expect (ieeeVal 11 52 bits)) (fromIeee c 11 52 ieeeF64_qnanmask ieeeF64_snanmask bits) = true

def C03_cfloat_from_f32_full : Prop :=
  ∀ (c : Cfg) (bits : Nat), c.valid = true → bits < 2 ^ 32 →
    satisfies c (C03_cfloat_expect (ieeeVal 8 23 bits)) (fromIeee c 8 23 ieeeF32_qnanmask ieeeF32_snanmask bits) = true

/-- full statement for integer sources of every width -/
def C03_cfloat_from_int_full : Prop :=
  ∀ (c : Cfg) (w : Nat) (v : Int), c.valid = true → (w = 8 ∨ w = 16 ∨ w = 32 ∨ w = 64) →
    -(2 ^ (w - 1) : Int) ≤ v → v < 2 ^ (w - 1) → v ≠ 0 →
    nearestNZ c (v : ℚ) (fromSigned c w v) = true

theorem C03_fromIeee_of_special (c : Cfg) (seb sfb qm sm bits r : Nat) (h : ieeeSpecial c seb sfb qm sm bits = some r) :
    fromIeee c seb sfb qm sm bits = r := by
  unfold fromIeee; simp only [h]

/-- ±infinity sources give ±infinity in every configuration (double) -/
theorem C03_cfloat_from_f64_inf (c : Cfg) (hv : c.valid = true) (s : Bool) :
    satisfies c (.inf s) (fromIeee c 11 52 ieeeF64_qnanmask ieeeF64_snanmask ((if s then 2 ^ 63 else 0) + 0x7ff0000000000000)) = true := by
  have sf := setInf_facts c hv s
  have : fromIeee c 11 52 ieeeF64_qnanmask ieeeF64_snanmask ((if s then 2 ^ 63 else 0) + 0x7ff0000000000000) = setInf c s := by
    apply C03_fromIeee_of_special
    cases s
    · have h1 : ((0 + 0x7ff0000000000000) >>> 52) % 2 ^ 11 = 2 ^ 11 - 1 := by decide
      have h2 : (0 + 0x7ff0000000000000) % 2 ^ 52 = 0 := by decide
      have h3 : ¬ ((0 : Nat) = ((2 ^ 52 - 1) &&& ieeeF64_snanmask) ∨ (0 : Nat) = ((2 ^ 52 - 1) &&& (ieeeF64_qnanmask ||| ieeeF64_snanmask))) := by decide
      have h4 : ¬ ((0 : Nat) = ((2 ^ 52 - 1) &&& ieeeF64_qnanmask)) := by decide
      have h5 : (0 + 0x7ff0000000000000).testBit (11 + 52) = false := by decide
      unfold ieeeSpecial
      simp only [Bool.false_eq_true, if_false, h1, h2, h3, h4, h5, if_true]
    · have h1 : ((2 ^ 63 + 0x7ff0000000000000) >>> 52) % 2 ^ 11 = 2 ^ 11 - 1 := by decide
      have h2 : (2 ^ 63 + 0x7ff0000000000000) % 2 ^ 52 = 0 := by decide
      have h3 : ¬ ((0 : Nat) = ((2 ^ 52 - 1) &&& ieeeF64_snanmask) ∨ (0 : Nat) = ((2 ^ 52 - 1) &&& (ieeeF64_qnanmask ||| ieeeF64_snanmask))) := by decide
      have h4 : ¬ ((0 : Nat) = ((2 ^ 52 - 1) &&& ieeeF64_qnanmask)) := by decide
      have h5 : (2 ^ 63 + 0x7ff0000000000000).testBit (11 + 52) = true := by decide
      unfold ieeeSpecial
      simp only [if_true, h1, h2, h3, h4, h5, if_false]
  rw [this]
  exact sat_inf c hv _ _ sf.1 sf.2.1 sf.2.2

/-- the two NaN patterns the code recognises (signalling 0x7ff4…, quiet 0x7ff8…) give NaN encodings, every configuration -/
theorem C03_cfloat_from_f64_nan (c : Cfg) (hv : c.valid = true) :
    satisfies c .nan (fromIeee c 11 52 ieeeF64_qnanmask ieeeF64_snanmask 0x7ff8000000000000) = true ∧
    satisfies c .nan (fromIeee c 11 52 ieeeF64_qnanmask ieeeF64_snanmask 0x7ff4000000000000) = true := by
  have hq := qnan_facts c hv
  have hs := snan_facts c hv
  have e1 : fromIeee c 11 52 ieeeF64_qnanmask ieeeF64_snanmask 0x7ff8000000000000 = qnan c := by
    apply C03_fromIeee_of_special
    have h1 : (0x7ff8000000000000 >>> 52) % 2 ^ 11 = 2 ^ 11 - 1 := by decide
    have h3 : ¬ (0x7ff8000000000000 % 2 ^ 52 = ((2 ^ 52 - 1) &&& ieeeF64_snanmask) ∨ 0x7ff8000000000000 % 2 ^ 52 = ((2 ^ 52 - 1) &&& (ieeeF64_qnanmask ||| ieeeF64_snanmask))) := by decide
    have h4 : 0x7ff8000000000000 % 2 ^ 52 = ((2 ^ 52 - 1) &&& ieeeF64_qnanmask) := by decide
    unfold ieeeSpecial
    simp only [h1, h3, if_true, if_false]
    rw [if_pos h4]
  have e2 : fromIeee c 11 52 ieeeF64_qnanmask ieeeF64_snanmask 0x7ff4000000000000 = snan c := by
    apply C03_fromIeee_of_special
    have h1 : (0x7ff4000000000000 >>> 52) % 2 ^ 11 = 2 ^ 11 - 1 := by decide
    have h3 : (0x7ff4000000000000 % 2 ^ 52 = ((2 ^ 52 - 1) &&& ieeeF64_snanmask) ∨ 0x7ff4000000000000 % 2 ^ 52 = ((2 ^ 52 - 1) &&& (ieeeF64_qnanmask ||| ieeeF64_snanmask))) := by decide
    unfold ieeeSpecial
    simp only [h1, if_true]
    rw [if_pos h3]
  rw [e1, e2]
  exact ⟨sat_nan c hv _ hq.1 (isNan_of_isNanEnc c hv _ hq.2.1), sat_nan c hv _ hs.1 (isNan_of_isNanEnc c hv _ hs.2.1)⟩

/-- a NaN with any other payload is converted like a number of magnitude 2^1024: +inf for cfloat<40,8> (known finding) -/
theorem C03_cfloat_from_f64_nan_payload_counterexample :
    let c : Cfg := { nbits := 40, es := 8, bt := 32, sub := true }
    (ieeeVal 11 52 0x7ff0000000000001).isNan = true ∧
    fromIeee c 11 52 ieeeF64_qnanmask ieeeF64_snanmask 0x7ff0000000000001 = 0x7ffffffffe ∧ isInf c 0x7ffffffffe = true := by
  decide +kernel

theorem C03_cfloat_from_f64_full_false : ¬ C03_cfloat_from_f64_full := by
  intro h
  have := h { nbits := 40, es := 8, bt := 32, sub := true } 0x7ff0000000000001 (by decide) (by decide)
  revert this
  decide +kernel

/-- float subnormal sources inside bfloat_t's range return +0 (known finding) -/
theorem C03_cfloat_from_f32_subnormal_counterexample :
    let c : Cfg := { nbits := 16, es := 8, bt := 16, sub := true }
    fromIeee c 8 23 ieeeF32_qnanmask ieeeF32_snanmask 0x7fffff = 0 ∧
    satisfies c (C03_cfloat_expect (ieeeVal 8 23 0x7fffff)) 0 = false ∧
    satisfies c (C03_cfloat_expect (ieeeVal 8 23 0x7fffff)) 0x80 = true := by
  decide +kernel

theorem C03_cfloat_from_f32_full_false : ¬ C03_cfloat_from_f32_full := by
  intro h
  have := h { nbits := 16, es := 8, bt := 16, sub := true } 0x7fffff (by decide) (by decide)
  revert this
  decide +kernel

/-- integer round<>: the carry out of the rounded fraction is halved instead of cleared: 127 ↦ 192 in cfloat<8,4> -/
theorem C03_cfloat_from_int_carry_counterexample :
    let c : Cfg := { nbits := 8, es := 4, sub := true }
    fromSigned c 8 127 = 0x74 ∧ cfVal c 0x74 = .fin false 192 ∧ nearestNZ c 127 0x74 = false ∧ nearestNZ c 127 0x70 = true := by
  decide +kernel

/-- integer round<>: the sticky mask skips one bit: −212 ↦ −192 in cfloat<7,4> (nearest is −224) -/
theorem C03_cfloat_from_int_sticky_counterexample :
    let c : Cfg := { nbits := 7, es := 4 }
    fromSigned c 16 (-212) = 0x7a ∧ nearestNZ c (-212) 0x7a = false ∧ nearestNZ c (-212) 0x7b = true := by
  decide +kernel

theorem C03_cfloat_from_int_full_false : ¬ C03_cfloat_from_int_full := by
  intro h
  have := h { nbits := 8, es := 4, sub := true } 8 127 (by decide) (by decide) (by decide) (by decide) (by decide)
  revert this
  decide +kernel

/-- zero sources: the integer 0 gives +0 and ±0.0 give ±0 in every configuration and for every source width -/
theorem C03_cfloat_from_zero (c : Cfg) (hv : c.valid = true) (w : Nat) :
    fromSigned c w 0 = 0 ∧ fromUnsigned c w 0 = 0 ∧ (cfVal c 0).isZero = true := by
  have s0 := signBit_facts c hv false
  have e0 : signBit c false = 0 := by unfold signBit; simp
  rw [e0] at s0
  refine ⟨by unfold fromSigned; simp, by unfold fromUnsigned fromIntMag; simp, ?_⟩
  rw [cfVal_isZero c hv]; exact isZero_of_isZeroEnc c hv _ s0.2.1

/-- narrow = wide: an integer value converts to the same encoding through every signed type that holds it
    (finite lemma over a small configuration and all values of signed char; the general statement is
    `C03_cfloat_narrow_eq_wide_full`) -/
def C03_cfloat_narrow_eq_wide_full : Prop :=
  ∀ (c : Cfg) (v : Int) (w1 w2 : Nat), c.valid = true → (w1 = 8 ∨ w1 = 16 ∨ w1 = 32 ∨ w1 = 64) → (w2 = 8 ∨ w2 = 16 ∨ w2 = 32 ∨ w2 = 64) →
    -(2 ^ (w1 - 1) : Int) ≤ v → v < 2 ^ (w1 - 1) → -(2 ^ (w2 - 1) : Int) ≤ v → v < 2 ^ (w2 - 1) →
    fromSigned c w1 v = fromSigned c w2 v

theorem C03_cfloat_narrow_eq_wide_cfg_8_4 :
    ∀ k : Fin 256, let c : Cfg := { nbits := 8, es := 4, sub := true }
      let v : Int := (k.val : Int) - 128
      fromSigned c 8 v = fromSigned c 16 v ∧ fromSigned c 8 v = fromSigned c 32 v ∧ fromSigned c 8 v = fromSigned c 64 v := by
  decide +kernel


/-! ### rounding correctness of convert_ieee754 for normal sources / normal targets -/

/-- generic in the source format (seb exponent bits, sfb fraction bits): a normal source whose exponent is a normal
    exponent of the target at least two below the all-ones exponent, target fraction narrower than the source's:
    the result is in range and satisfies the IEEE rounding relation for the exact source value. -/
theorem C03_cfloat_from_ieee_normal_partial (c : Cfg) (hv : c.valid = true) (seb sfb qm sm bits : Nat)
    (hfb : c.fbits < sfb)
    (hlay : ¬ (c.nbits = 1 + seb + sfb ∧ c.es = seb))
    (hexp0 : (bits >>> sfb) % 2 ^ seb ≠ 0)
    (hexp1 : (bits >>> sfb) % 2 ^ seb ≠ 2 ^ seb - 1)
    (hlo : c.minExpNormal ≤ (((bits >>> sfb) % 2 ^ seb : Nat) : Int) - (((2 ^ (seb - 1) : Nat) : Int) - 1))
    (hhi : (((bits >>> sfb) % 2 ^ seb : Nat) : Int) - (((2 ^ (seb - 1) : Nat) : Int) - 1) + c.bias + 1 < c.emax) :
    satisfies c (C03_cfloat_expect (ieeeVal seb sfb bits)) (fromIeee c seb sfb qm sm bits) = true := by
  obtain ⟨_, hfb1, _, _⟩ := valid_facts c hv
  have hspec : ieeeSpecial c seb sfb qm sm bits = none := by
    unfold ieeeSpecial; simp only [hexp1, if_false]
  rw [fromIeee_normal_eq_assemble c hv seb sfb qm sm bits hspec hlay hexp0 hfb hlo hhi]
  generalize hre : (bits >>> sfb) % 2 ^ seb = rawExp at *
  generalize hrf : bits % 2 ^ sfb = rawFrac at *
  generalize hsg : bits.testBit (seb + sfb) = s at *
  have hrfl : rawFrac < 2 ^ sfb := by rw [← hrf]; exact Nat.mod_lt _ (two_pow_pos _)
  have hb0 := bias_nonneg c
  have hmn : c.minExpNormal = 1 - c.bias := rfl
  set t := sfb - c.fbits with ht
  have hpow : 2 ^ sfb = 2 ^ c.fbits * 2 ^ t := by rw [← Nat.pow_add]; congr 1; omega
  have hx : rawFrac < 2 ^ c.fbits * 2 ^ t := by rw [← hpow]; exact hrfl
  obtain ⟨sh1, sh2⟩ := shift_add_hidden rawFrac c.fbits t hx
  generalize rawFrac >>> t = y at sh1 sh2
  have h2f : 2 ^ (c.fbits + 1) = 2 ^ c.fbits + 2 ^ c.fbits := by rw [Nat.pow_succ]; omega
  set biased := ((rawExp : Int) - (((2 ^ (seb - 1) : Nat) : Int) - 1) + c.bias).toNat with hbiased
  obtain ⟨hb1, hb2⟩ := assemble_round_normal c hv s biased (rawFrac + 2 ^ c.fbits * 2 ^ t) t
    (by rw [sh1]; omega) (by rw [sh1, h2f]; omega) (by omega) (by omega)
  -- the source value
  have hval : ieeeVal seb sfb bits = .fin s ((1 + (rawFrac : ℚ) / ((2 ^ sfb : Nat) : ℚ)) * pow2 ((rawExp : Int) - (((2 ^ (seb - 1) : Nat) : Int) - 1))) := by
    unfold ieeeVal
    simp only [hre, hrf, hsg, hexp1, hexp0, if_false]
  have hpos : 0 < (1 + (rawFrac : ℚ) / ((2 ^ sfb : Nat) : ℚ)) * pow2 ((rawExp : Int) - (((2 ^ (seb - 1) : Nat) : Int) - 1)) :=
    normal_mag_pos rawFrac (2 ^ sfb) (two_pow_pos _) _
  rw [hval]
  unfold C03_cfloat_expect
  simp only [ne_of_gt hpos, if_false]
  unfold satisfies
  simp only [Bool.and_eq_true, decide_eq_true_eq]
  refine ⟨hb1, ?_⟩
  have hreal : (if s = true then -((1 + (rawFrac : ℚ) / ((2 ^ sfb : Nat) : ℚ)) * pow2 ((rawExp : Int) - (((2 ^ (seb - 1) : Nat) : Int) - 1)))
        else (1 + (rawFrac : ℚ) / ((2 ^ sfb : Nat) : ℚ)) * pow2 ((rawExp : Int) - (((2 ^ (seb - 1) : Nat) : Int) - 1)))
      = (if s = true then (-1 : ℚ) else 1) * (((rawFrac + 2 ^ c.fbits * 2 ^ t : Nat) : ℚ) *
          pow2 ((biased : Int) - c.bias - (c.fbits : Int) - (t : Int))) := by
    have hbi : (biased : Int) - c.bias = (rawExp : Int) - (((2 ^ (seb - 1) : Nat) : Int) - 1) := by omega
    have hsp : pow2 ((biased : Int) - c.bias - (c.fbits : Int) - (t : Int))
        = pow2 ((rawExp : Int) - (((2 ^ (seb - 1) : Nat) : Int) - 1)) / ((2 ^ sfb : Nat) : ℚ) := by
      rw [hbi, ← pow2_natCast, ← pow2_sub]; congr 1; push_cast; omega
    have hS : (0 : ℚ) < ((2 ^ sfb : Nat) : ℚ) := by exact_mod_cast two_pow_pos sfb
    rw [hsp, ← hpow]
    cases s <;> simp <;> field_simp <;> ring
  rw [hreal]; exact hb2

/-- double sources: every normal double whose exponent is a normal exponent of the target (two below the all-ones
    exponent at most), every valid configuration with fewer than 52 fraction bits -/
theorem C03_cfloat_from_f64_normal_partial (c : Cfg) (hv : c.valid = true) (bits : Nat) (hfb : c.fbits < 52)
    (hexp0 : (bits >>> 52) % 2 ^ 11 ≠ 0) (hexp1 : (bits >>> 52) % 2 ^ 11 ≠ 2047)
    (hlo : c.minExpNormal ≤ (((bits >>> 52) % 2 ^ 11 : Nat) : Int) - 1023)
    (hhi : (((bits >>> 52) % 2 ^ 11 : Nat) : Int) - 1023 + c.bias + 1 < c.emax) :
    satisfies c (C03_cfloat_expect (ieeeVal 11 52 bits)) (fromIeee c 11 52 ieeeF64_qnanmask ieeeF64_snanmask bits) = true := by
  obtain ⟨_, _, h3, _⟩ := valid_facts c hv
  refine C03_cfloat_from_ieee_normal_partial c hv 11 52 _ _ bits hfb ?_ hexp0 (by simpa using hexp1) (by simpa using hlo) (by simpa using hhi)
  intro hc
  unfold Cfg.fbits at hfb
  omega

/-- float sources, targets with fewer than 23 fraction bits -/
theorem C03_cfloat_from_f32_normal_partial (c : Cfg) (hv : c.valid = true) (bits : Nat) (hfb : c.fbits < 23)
    (hexp0 : (bits >>> 23) % 2 ^ 8 ≠ 0) (hexp1 : (bits >>> 23) % 2 ^ 8 ≠ 255)
    (hlo : c.minExpNormal ≤ (((bits >>> 23) % 2 ^ 8 : Nat) : Int) - 127)
    (hhi : (((bits >>> 23) % 2 ^ 8 : Nat) : Int) - 127 + c.bias + 1 < c.emax) :
    satisfies c (C03_cfloat_expect (ieeeVal 8 23 bits)) (fromIeee c 8 23 ieeeF32_qnanmask ieeeF32_snanmask bits) = true := by
  obtain ⟨_, _, h3, _⟩ := valid_facts c hv
  refine C03_cfloat_from_ieee_normal_partial c hv 8 23 _ _ bits hfb ?_ hexp0 (by simpa using hexp1) (by simpa using hlo) (by simpa using hhi)
  intro hc
  unfold Cfg.fbits at hfb
  omega

/-- non-vacuity: 0.1 (0x3fb999999999999a) into half precision: normal source, normal target, inexact -/
example : let c : Cfg := { nbits := 16, es := 5, bt := 16, sub := true }
    c.valid = true ∧ c.fbits < 52 ∧ (0x3fb999999999999a >>> 52) % 2 ^ 11 ≠ 0 ∧ (0x3fb999999999999a >>> 52) % 2 ^ 11 ≠ 2047 ∧
    c.minExpNormal ≤ (((0x3fb999999999999a >>> 52) % 2 ^ 11 : Nat) : Int) - 1023 ∧
    (((0x3fb999999999999a >>> 52) % 2 ^ 11 : Nat) : Int) - 1023 + c.bias + 1 < c.emax ∧
    fromIeee c 11 52 ieeeF64_qnanmask ieeeF64_snanmask 0x3fb999999999999a = 0x2e66 := by
  decide +kernel
