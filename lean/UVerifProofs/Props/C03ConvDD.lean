/-
  Property C03 — construction of dd / qd from native numbers (dd_impl.hpp:604-645, qd_impl.hpp:870-918).

  Values are in integer units of the format: `x.toInt` = value · 2^q (q = 1074 for binary64, 149 for binary32), so
  "the limbs sum to the source exactly" reads `hi.toInt + lo.toInt = source units`.

  PROVED (model UVerif.Model.DD / UVerif.Model.ConvDD over the exact-integer binary64 model):
    * dd(double) = (d, +0), dd(float) = (double(f), +0): exact, representable (`C03_dd_from_f64`, `C03_dd_from_f32`);
    * dd(int64) / dd(uint64): the head is the correctly rounded integer (`C03_dd_from_int64_head_rounded`), so the conversion
      is exact iff the integer is a double — in particular below 2^53 (`C03_dd_from_int_partial`);
    * FALSE in general: `C03_dd_from_int64_counterexample` (2^53 + 1 ↦ 2^53: the 106-bit significand would hold it);
    * qd(int64) is exact for every int64 (`C03_qd_from_i64_exact`: x0 + x1 = v) but leaves x2, x3 untouched
      (`C03_qd_from_int_stale_limbs_counterexample`); qd(uint64) is wrong as soon as the head is rounded UP
      (`C03_qd_from_u64_counterexample`: 2^53 + 3 ↦ 2^53 + 4 + 2^64) — exact below 2^53 (`C03_qd_from_u64_partial`).
-/
import UVerifProofs.Lemmas.ConvDD
import UVerif.Model.ConvDD

open UVerif UVerif.F64 UVerif.ConvDDLemmas

/-! ### dd -/

/-- `dd = double`: head = the double, tail = +0; the represented value is the source (also NaN / ±inf / −0 unchanged). -/
theorem C03_dd_from_f64 (x : F) :
    (DD.ofF x).hi = x ∧ (DD.ofF x).lo = pzero ∧ (DD.ofF x).hi.toInt + (DD.ofF x).lo.toInt = x.toInt := by
  refine ⟨rfl, rfl, ?_⟩
  simp [DD.ofF, pzero, F.toInt]

example : (DD.ofF (ofBits64 0x3ff8000000000000)).hi = ofBits64 0x3ff8000000000000 := (C03_dd_from_f64 _).1

/-- `dd = float`: the float widened exactly (units 2^-149 → 2^-1074), representable as a double, tail +0. -/
theorem C03_dd_from_f32 (x : F) (hx : x.Rep binary32) :
    (ConvDD.ddFromF32 x).hi.Rep binary64 ∧ (ConvDD.ddFromF32 x).lo = pzero ∧
    (ConvDD.ddFromF32 x).hi.toInt + (ConvDD.ddFromF32 x).lo.toInt = x.toInt * ((2 ^ (binary64.q - binary32.q) : Nat) : Int) := by
  obtain ⟨hfin, hval⟩ := widen32_toInt x hx.1
  refine ⟨⟨hfin, ?_⟩, rfl, ?_⟩
  · show IsFloat binary64.p (ConvDD.widen32 x).toInt
    rw [hval]
    exact isFloat_mul_two_pow (isFloatN_mono hx.2 (by decide)) _
  · show (ConvDD.widen32 x).toInt + pzero.toInt = _
    rw [hval, pzero_toInt, add_zero]

example : (F.fin false 12582912).Rep binary32 := ⟨rfl, isFloat_of_natAbs_lt (by decide)⟩

/-- `dd = integer` (every signed / unsigned type goes through int64 / uint64): exact whenever |v| < 2^p (2^53). -/
theorem C03_dd_from_int_partial (f : Fmt) (hp : 1 ≤ f.p) (hpt : f.p + f.q ≤ f.top) (v : Int) (hv : v.natAbs < 2 ^ f.p) :
    (DD.ofInt64 f v).hi.Rep f ∧ (DD.ofInt64 f v).lo = pzero ∧
    (DD.ofInt64 f v).hi.toInt + (DD.ofInt64 f v).lo.toInt = v * ((2 ^ f.q : Nat) : Int) := by
  unfold DD.ofInt64
  by_cases h0 : v = 0
  · subst h0; simp [pzero_rep, pzero_toInt]
  · rw [if_neg h0]
    obtain ⟨h1, h2, h3⟩ := ofInt_exact f hp hpt (z := v) hv
    refine ⟨⟨h1, h3⟩, rfl, ?_⟩
    show (ofInt f v).toInt + pzero.toInt = _
    rw [h2, pzero_toInt, add_zero]

example : 1 ≤ binary64.p := by decide
example : binary64.p + binary64.q ≤ binary64.top := by decide
example : ((12345678901234 : Int)).natAbs < 2 ^ binary64.p := by decide

/-- for every integer whose magnitude is in range (all 64-bit integers for binary64) the head is the correctly rounded
    value and the tail is +0 -/
theorem C03_dd_from_int64_head_rounded (f : Fmt) (hp : 1 ≤ f.p) (hpt : f.p ≤ f.top) (v : Int)
    (hr : v.natAbs * 2 ^ f.q ≤ maxMag f) :
    (DD.ofInt64 f v).hi.toInt = rnInt f.p (v * ((2 ^ f.q : Nat) : Int)) ∧ (DD.ofInt64 f v).lo = pzero := by
  unfold DD.ofInt64
  by_cases h0 : v = 0
  · subst h0; simp [pzero, F.toInt, rnInt_zero]
  · simp only [h0, if_false, and_true]
    exact (ofInt_spec f hp hpt hr).2

/-- the range guard holds for every 64-bit integer (signed or unsigned) in binary64 -/
theorem C03_int64_in_range (v : Int) (h1 : -(2 ^ 63 : Int) ≤ v) (h2 : v < (2 ^ 64 : Int)) :
    v.natAbs * 2 ^ binary64.q ≤ maxMag binary64 :=
  int_in_range binary64 (by decide) (by decide) 64 (by decide) (by omega)

/-- the full statement: every 64-bit integer is stored exactly (it fits the 106-bit significand) -/
def C03_dd_from_int64_full : Prop :=
  ∀ v : Int, -(2 ^ 63 : Int) ≤ v → v < (2 ^ 64 : Int) →
    (DD.ofInt64 binary64 v).hi.toInt + (DD.ofInt64 binary64 v).lo.toInt = v * ((2 ^ binary64.q : Nat) : Int)

/-- FALSE of the pinned code: 2^53 + 1 is stored as 2^53 (only `static_cast<double>(v)` is kept) -/
theorem C03_dd_from_int64_counterexample : ¬ C03_dd_from_int64_full := by
  intro h
  have := h (2 ^ 53 + 1) (by decide) (by decide)
  revert this
  decide +kernel

/-! ### qd -/

/-- `qd = double`: (d, 0, 0, 0) -/
theorem C03_qd_from_f64 (x : F) :
    ConvDD.qdFromF64 x = (x, pzero, pzero, pzero) := rfl

/-- `qd = float`: (double(f), 0, 0, 0), exact -/
theorem C03_qd_from_f32 (x : F) (hx : x.Rep binary32) :
    (ConvDD.qdFromF32 x).1.Rep binary64 ∧ (ConvDD.qdFromF32 x).2 = (pzero, pzero, pzero) ∧
    (ConvDD.qdFromF32 x).1.toInt = x.toInt * ((2 ^ (binary64.q - binary32.q) : Nat) : Int) := by
  obtain ⟨h1, _, h3⟩ := C03_dd_from_f32 x hx
  refine ⟨h1, rfl, ?_⟩
  have e : (ConvDD.ddFromF32 x).lo.toInt = 0 := pzero_toInt
  rw [e, add_zero] at h3
  exact h3

/-- `qd = uint64` below 2^53: exact, second limb +0 (the two lower limbs keep their old content `p2`, `p3`) -/
theorem C03_qd_from_u64_partial (v : Nat) (hv : v < 2 ^ 53) (hv0 : v ≠ 0) (p2 p3 : F) :
    (ConvDD.qdFromU64 v p2 p3).1.toInt = (v : Int) * ((2 ^ binary64.q : Nat) : Int) ∧
    (ConvDD.qdFromU64 v p2 p3).2.1.toInt = 0 ∧ (ConvDD.qdFromU64 v p2 p3).2.2 = (p2, p3) := by
  have hp53 : ConvDD.b64.p = 53 := by decide
  have hv' : v < 2 ^ ConvDD.b64.p := by rw [hp53]; exact hv
  obtain ⟨hx0, htr⟩ := toU64_ofInt_small v hv' hv0
  have hd : (v + 2 ^ 64 - v) % 2 ^ 64 = 0 := by
    rw [Nat.add_sub_cancel_left]; exact Nat.mod_self _
  have e : ConvDD.qdFromU64 v p2 p3 = (.fin false (v * 2 ^ ConvDD.b64.q), ofInt ConvDD.b64 ((0 : Nat) : Int), p2, p3) := by
    unfold ConvDD.qdFromU64
    rw [if_neg hv0]
    simp only
    rw [hx0, htr, hd]
  rw [e]
  refine ⟨?_, ?_, rfl⟩
  · simp [F.toInt]
  · simp [ofInt, pzero, F.toInt]

example : (12345 : Nat) < 2 ^ 53 ∧ (12345 : Nat) ≠ 0 := by decide

/-- the full statement for qd(uint64) -/
def C03_qd_from_u64_full : Prop :=
  ∀ v : Nat, v < 2 ^ 64 → v ≠ 0 →
    (ConvDD.qdFromU64 v pzero pzero).1.toInt + (ConvDD.qdFromU64 v pzero pzero).2.1.toInt = (v : Int) * ((2 ^ binary64.q : Nat) : Int)

/-- FALSE: 2^53 + 3 rounds up to 2^53 + 4; `v − uint64(x0)` wraps to 2^64 − 1 and becomes the second limb 2^64 -/
theorem C03_qd_from_u64_counterexample : ¬ C03_qd_from_u64_full := by
  intro h
  have := h (2 ^ 53 + 3) (by decide) (by decide)
  revert this
  decide +kernel

/-- assignment from an integer leaves x[2], x[3] as they were: the represented value is not the integer -/
theorem C03_qd_from_int_stale_limbs_counterexample :
    ¬ (∀ (v : Int) (p2 p3 : F), v ≠ 0 → (ConvDD.qdFromI64 v p2 p3).2.2 = (pzero, pzero)) := by
  intro h
  have := h 1 (F.fin false 1) pzero (by decide)
  revert this
  decide +kernel

/-- `qd = int64` (and every narrower signed type): the two leading limbs are the correctly rounded integer and the EXACT
    remainder, for every int64 — including those that round up to 2^63, where `static_cast<int64_t>(2^63)` is the x86
    "indefinite" value −2^63 and the wrapping subtraction happens to repair it. The lower limbs keep their old content. -/
theorem C03_qd_from_i64_exact (v : Int) (h1 : -(2 ^ 63 : Int) ≤ v) (h2 : v < (2 ^ 63 : Int)) (hv0 : v ≠ 0) (p2 p3 : F) :
    (ConvDD.qdFromI64 v p2 p3).1.Rep binary64 ∧ (ConvDD.qdFromI64 v p2 p3).2.1.Rep binary64 ∧
    (ConvDD.qdFromI64 v p2 p3).1.toInt + (ConvDD.qdFromI64 v p2 p3).2.1.toInt = v * ((2 ^ binary64.q : Nat) : Int) ∧
    (ConvDD.qdFromI64 v p2 p3).1.toInt = rnInt binary64.p (v * ((2 ^ binary64.q : Nat) : Int)) ∧
    (ConvDD.qdFromI64 v p2 p3).2.2 = (p2, p3) :=
  qdFromI64_exact v h1 h2 hv0 p2 p3

example : -(2 ^ 63 : Int) ≤ 9223372036854775807 ∧ (9223372036854775807 : Int) < 2 ^ 63 := by decide

/-! ### long double sources -/

/-- `dd = long double` (x87 extended, 64-bit significand): for a finite source that is a multiple of 2^-1074 (`x.toInt = z·2^K`
    in x87 units, K = 16445 − 1074), has at most 64 significant bits (every x87 value) and lies inside the double range,
    the head is the correctly rounded double and head + tail = the source EXACTLY: the remainder `rhs − truncated` has at most
    11 significant bits, so both the x87 subtraction and the second narrowing are exact. -/
theorem C03_dd_from_long_double_exact (x : F) (hf : x.isFinite = true) (z : Int)
    (h : x.toInt = z * ((2 ^ (ConvDD.x87.q - ConvDD.b64.q) : Nat) : Int))
    (h64 : IsFloat 64 z) (hr : z.natAbs ≤ maxMag binary64) :
    (ConvDD.ddFromLD x).hi.isFinite = true ∧ (ConvDD.ddFromLD x).lo.isFinite = true ∧
    (ConvDD.ddFromLD x).hi.toInt + (ConvDD.ddFromLD x).lo.toInt = z ∧
    (ConvDD.ddFromLD x).hi.toInt = rnInt binary64.p z :=
  ddFromLD_exact hf h h64 hr

-- 1 + 2^-63 (the smallest long double above 1): z = (2^63 + 1)·2^(1074 − 63)
example : IsFloat 64 (((2 ^ 63 + 1) * 2 ^ 1011 : Nat) : Int) := by
  unfold IsFloat; rw [Int.natAbs_natCast]
  exact isFloatN_mul_two_pow (isFloatN_of_lt (by decide)) 1011

/-- and so does qd (x[0], x[1] as dd, x[2] = x[3] = +0) -/
theorem C03_qd_from_long_double_exact (x : F) (hf : x.isFinite = true) (z : Int)
    (h : x.toInt = z * ((2 ^ (ConvDD.x87.q - ConvDD.b64.q) : Nat) : Int))
    (h64 : IsFloat 64 z) (hr : z.natAbs ≤ maxMag binary64) :
    (ConvDD.qdFromLD x).1.toInt + (ConvDD.qdFromLD x).2.1.toInt = z ∧ (ConvDD.qdFromLD x).2.2 = (pzero, pzero) :=
  ⟨(ddFromLD_exact hf h h64 hr).2.2.1, rfl⟩

/-- an infinite long double becomes (±inf, NaN): `rhs − truncated` is inf − inf -/
theorem C03_dd_from_long_double_inf_counterexample :
    ¬ (∀ s : Bool, (ConvDD.ddFromLD (.inf s)).lo.isFinite = true) := by
  intro h
  have := h false
  revert this
  decide
