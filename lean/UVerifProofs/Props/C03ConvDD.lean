/-
  Property C03 — construction of dd / qd from native numbers (dd_impl.hpp:604-645, qd_impl.hpp:870-918).

  Values are in integer units of the format: `x.toInt` = value · 2^q (q = 1074 for binary64, 149 for binary32), so
  "the limbs sum to the source exactly" reads `hi.toInt + lo.toInt = source units`.

  PROVED (model UVerif.Model.DD / UVerif.Model.ConvDD over the exact-integer binary64 model):
    * dd(double) = (d, +0), dd(float) = (double(f), +0): exact, representable (`C03_dd_from_f64`, `C03_dd_from_f32`);
    * dd(int64) / dd(uint64) and qd(int64) / qd(uint64) (after the repairs of convert_signed / convert_unsigned): for EVERY
      64-bit integer −2^63 ≤ v < 2^64 the head is the correctly rounded integer, the second limb the exact remainder, the
      limbs sum to v (`C03_dd_from_int64`, `C03_qd_from_int64`; qd also clears x[2], x[3]); the former counterexamples
      (2^53 + 1; 2^53 + 3 and 2^64 − 1 as uint64; a dirty qd target) are now positive witnesses;
    * dd / qd (long double): exact inside the double range on the 2^-1074 grid; ±inf, NaN and finite values that round to
      ±inf give (±inf | NaN, +0) (`C03_dd_from_long_double_nonfinite`).
-/
import UVerifProofs.Lemmas.ConvDD
import UVerif.Model.ConvDD

open UVerif UVerif.F64 UVerif.ConvDDLemmas

/-! ### dd -/

/-- `dd = double`: head = the double, tail = +0; the represented value is the source (also NaN / ±inf / −0 unchanged). -/
theorem C03_dd_from_f64 (x : F) :
    (DD.ofF x).hi = x ∧ (DD.ofF x).lo = pzero ∧ (DD.ofF x).hi.toInt + (DD.ofF x).lo.toInt = x.toInt := by
  refine ⟨rfl, rfl, ?_⟩
  simp [DD.ofF, pzero, F.toInt]

example : (DD.ofF (ofBits64 0x3ff8000000000000)).hi = ofBits64 0x3ff8000000000000 := (C03_dd_from_f64 _).1

/-- `dd = float`: the float widened exactly (units 2^-149 → 2^-1074), representable as a double, tail +0. -/
theorem C03_dd_from_f32 (x : F) (hx : x.Rep binary32) :
    (ConvDD.ddFromF32 x).hi.Rep binary64 ∧ (ConvDD.ddFromF32 x).lo = pzero ∧
    (ConvDD.ddFromF32 x).hi.toInt + (ConvDD.ddFromF32 x).lo.toInt = x.toInt * ((2 ^ (binary64.q - binary32.q) : Nat) : Int) := by
  obtain ⟨hfin, hval⟩ := widen32_toInt x hx.1
  refine ⟨⟨hfin, ?_⟩, rfl, ?_⟩
  · show IsFloat binary64.p (ConvDD.widen32 x).toInt
    rw [hval]
    exact isFloat_mul_two_pow (isFloatN_mono hx.2 (by decide)) _
  · show (ConvDD.widen32 x).toInt + pzero.toInt = _
    rw [hval, pzero_toInt, add_zero]

example : (F.fin false 12582912).Rep binary32 := ⟨rfl, isFloat_of_natAbs_lt (by decide)⟩

/-- **`dd = integer`** (every signed / unsigned type goes through `convert_signed(int64_t)` / `convert_unsigned(uint64_t)`):
    for EVERY 64-bit integer, signed or unsigned, both limbs are finite doubles, they sum to the integer EXACTLY, and the head
    is the correctly rounded integer (so the pair is normalised: the tail is the rounding error of the head).
    Any format with `p ≥ 33` and room for 2^65 units (binary64: `C03_fmt_binary64`). -/
theorem C03_dd_from_int64 (f : Fmt) (ok : f.Ok) (h33 : 33 ≤ f.p) (hk : 65 + f.q + 1 ≤ f.top)
    (v : Int) (h1 : -(2 ^ 63 : Int) ≤ v) (h2 : v < (2 ^ 64 : Int)) :
    (DD.ofInt64 f v).hi.Rep f ∧ (DD.ofInt64 f v).lo.Rep f ∧
    (DD.ofInt64 f v).hi.toInt + (DD.ofInt64 f v).lo.toInt = v * ((2 ^ f.q : Nat) : Int) ∧
    (DD.ofInt64 f v).hi.toInt = rnInt f.p (v * ((2 ^ f.q : Nat) : Int)) :=
  ofInt64_exact f ok h33 hk v h1 h2

/-- the format hypotheses hold for binary64 -/
theorem C03_fmt_binary64 : binary64.Ok ∧ 33 ≤ binary64.p ∧ 65 + binary64.q + 1 ≤ binary64.top :=
  ⟨binary64_ok, by decide, by decide⟩

/-- integers that are doubles (in particular |v| < 2^53) get a zero tail -/
theorem C03_dd_from_int_double (f : Fmt) (ok : f.Ok) (h33 : 33 ≤ f.p) (hk : 65 + f.q + 1 ≤ f.top)
    (v : Int) (h1 : -(2 ^ 63 : Int) ≤ v) (h2 : v < (2 ^ 64 : Int)) (hfl : IsFloat f.p (v * ((2 ^ f.q : Nat) : Int))) :
    (DD.ofInt64 f v).hi.toInt = v * ((2 ^ f.q : Nat) : Int) ∧ (DD.ofInt64 f v).lo.toInt = 0 := by
  obtain ⟨_, _, h3, h4⟩ := ofInt64_exact f ok h33 hk v h1 h2
  rw [rnInt_exact (by omega) hfl] at h4
  exact ⟨h4, by omega⟩

/-- the range guard of `ofInt` holds for every 64-bit integer (signed or unsigned) in binary64 -/
theorem C03_int64_in_range (v : Int) (h1 : -(2 ^ 63 : Int) ≤ v) (h2 : v < (2 ^ 64 : Int)) :
    v.natAbs * 2 ^ binary64.q ≤ maxMag binary64 :=
  int_in_range binary64 (by decide) (by decide) 64 (by decide) (by omega)

set_option exponentiation.threshold 5000 in
/-- the witness of the former finding `dd.from_int64.head_only`, now positive: 2^53 + 1 is stored as (2^53, 1);
    2^64 − 1 as (2^64, −1); −2^63 + 1 as (−2^63, 1) -/
theorem C03_dd_from_int64_witnesses :
    DD.ofInt64 binary64 (2 ^ 53 + 1) = ⟨ofBits64 0x4340000000000000, ofBits64 0x3ff0000000000000⟩ ∧
    DD.ofInt64 binary64 (2 ^ 64 - 1) = ⟨ofBits64 0x43f0000000000000, ofBits64 0xbff0000000000000⟩ ∧
    DD.ofInt64 binary64 (-(2 ^ 63) + 1) = ⟨ofBits64 0xc3e0000000000000, ofBits64 0x3ff0000000000000⟩ := by
  decide +kernel

/-! ### qd -/

/-- `qd = double`: (d, 0, 0, 0) -/
theorem C03_qd_from_f64 (x : F) :
    ConvDD.qdFromF64 x = (x, pzero, pzero, pzero) := rfl

/-- `qd = float`: (double(f), 0, 0, 0), exact -/
theorem C03_qd_from_f32 (x : F) (hx : x.Rep binary32) :
    (ConvDD.qdFromF32 x).1.Rep binary64 ∧ (ConvDD.qdFromF32 x).2 = (pzero, pzero, pzero) ∧
    (ConvDD.qdFromF32 x).1.toInt = x.toInt * ((2 ^ (binary64.q - binary32.q) : Nat) : Int) := by
  obtain ⟨h1, _, h3⟩ := C03_dd_from_f32 x hx
  refine ⟨h1, rfl, ?_⟩
  have e : (ConvDD.ddFromF32 x).lo.toInt = 0 := pzero_toInt
  rw [e, add_zero] at h3
  exact h3

/-- **`qd = integer`** (`convert_signed(int64_t)` / `convert_unsigned(uint64_t)` and every narrower type): for EVERY 64-bit
    integer the two leading limbs are the correctly rounded integer and the EXACT remainder, and the two lower limbs are
    cleared — whatever the target held before (the model does not read the old limbs at all). -/
theorem C03_qd_from_int64 (v : Int) (h1 : -(2 ^ 63 : Int) ≤ v) (h2 : v < (2 ^ 64 : Int)) :
    (ConvDD.qdFromInt v).1.Rep binary64 ∧ (ConvDD.qdFromInt v).2.1.Rep binary64 ∧
    (ConvDD.qdFromInt v).1.toInt + (ConvDD.qdFromInt v).2.1.toInt = v * ((2 ^ binary64.q : Nat) : Int) ∧
    (ConvDD.qdFromInt v).1.toInt = rnInt binary64.p (v * ((2 ^ binary64.q : Nat) : Int)) ∧
    (ConvDD.qdFromInt v).2.2 = (pzero, pzero) := by
  obtain ⟨r1, r2, r3, r4⟩ := ofInt64_exact binary64 binary64_ok (by decide) (by decide) v h1 h2
  exact ⟨r1, r2, r3, r4, rfl⟩

example : -(2 ^ 63 : Int) ≤ 9223372036854775807 ∧ (9223372036854775807 : Int) < 2 ^ 64 := by decide

set_option exponentiation.threshold 5000 in
/-- the witnesses of the former findings `qd.from_uint64.unsigned_difference` and `ub.qd.from_int64_max.cast_overflow`, now
    positive: 2^53 + 3 is (2^53 + 4, −1, 0, 0); 2^64 − 1 is (2^64, −1, 0, 0); LLONG_MAX = 2^63 − 1 is (2^63, −1, 0, 0) -/
theorem C03_qd_from_int64_witnesses :
    ConvDD.qdFromInt (2 ^ 53 + 3) = (ofBits64 0x4340000000000002, ofBits64 0xbff0000000000000, pzero, pzero) ∧
    ConvDD.qdFromInt (2 ^ 64 - 1) = (ofBits64 0x43f0000000000000, ofBits64 0xbff0000000000000, pzero, pzero) ∧
    ConvDD.qdFromInt (2 ^ 63 - 1) = (ofBits64 0x43e0000000000000, ofBits64 0xbff0000000000000, pzero, pzero) := by
  decide +kernel

/-! ### long double sources -/

/-- `dd = long double` (x87 extended, 64-bit significand): for a finite source that is a multiple of 2^-1074 (`x.toInt = z·2^K`
    in x87 units, K = 16445 − 1074), has at most 64 significant bits (every x87 value) and lies inside the double range,
    the head is the correctly rounded double and head + tail = the source EXACTLY: the remainder `rhs − truncated` has at most
    11 significant bits, so both the x87 subtraction and the second narrowing are exact. -/
theorem C03_dd_from_long_double_exact (x : F) (hf : x.isFinite = true) (z : Int)
    (h : x.toInt = z * ((2 ^ (ConvDD.x87.q - ConvDD.b64.q) : Nat) : Int))
    (h64 : IsFloat 64 z) (hr : z.natAbs ≤ maxMag binary64) :
    (ConvDD.ddFromLD x).hi.isFinite = true ∧ (ConvDD.ddFromLD x).lo.isFinite = true ∧
    (ConvDD.ddFromLD x).hi.toInt + (ConvDD.ddFromLD x).lo.toInt = z ∧
    (ConvDD.ddFromLD x).hi.toInt = rnInt binary64.p z :=
  ddFromLD_exact hf h h64 hr

-- 1 + 2^-63 (the smallest long double above 1): z = (2^63 + 1)·2^(1074 − 63)
example : IsFloat 64 (((2 ^ 63 + 1) * 2 ^ 1011 : Nat) : Int) := by
  unfold IsFloat; rw [Int.natAbs_natCast]
  exact isFloatN_mul_two_pow (isFloatN_of_lt (by decide)) 1011

/-- and so does qd (x[0], x[1] as dd, x[2] = x[3] = +0) -/
theorem C03_qd_from_long_double_exact (x : F) (hf : x.isFinite = true) (z : Int)
    (h : x.toInt = z * ((2 ^ (ConvDD.x87.q - ConvDD.b64.q) : Nat) : Int))
    (h64 : IsFloat 64 z) (hr : z.natAbs ≤ maxMag binary64) :
    (ConvDD.qdFromLD x).1.toInt + (ConvDD.qdFromLD x).2.1.toInt = z ∧ (ConvDD.qdFromLD x).2.2 = (pzero, pzero) :=
  ⟨(ddFromLD_exact hf h h64 hr).2.2.1, rfl⟩

/-- whenever the head `double(rhs)` is an infinity the tail is `+0` -/
theorem C03_dd_from_long_double_inf_head (x : F) (s : Bool) (h : ConvDD.narrowLD x = .inf s) :
    ConvDD.ddFromLD x = ⟨.inf s, pzero⟩ := by
  unfold ConvDD.ddFromLD
  simp only [h]
  simp [ConvDD.widenLD, ConvDD.narrowLD, F.isFinite]

/-- a long double that is not finite, or whose head overflows, gets a `+0` tail: `±inf ↦ (±inf, +0)`, `NaN ↦ (NaN, +0)`, and a
    finite source that rounds beyond the double range (`size (rnShr 53 n K) > top`, i.e. |x| ≥ 2^1024 − 2^970) `↦ (±inf, +0)`.
    (Before the repair the tail was `inf − inf = NaN` resp. `x − inf = ∓inf`.) -/
theorem C03_dd_from_long_double_nonfinite :
    (∀ s : Bool, ConvDD.ddFromLD (.inf s) = ⟨.inf s, pzero⟩ ∧ ConvDD.qdFromLD (.inf s) = (.inf s, pzero, pzero, pzero)) ∧
    ConvDD.ddFromLD .nan = ⟨.nan, pzero⟩ ∧
    (∀ (s : Bool) (n : Nat), ¬ size (rnShr ConvDD.b64.p n (ConvDD.x87.q - ConvDD.b64.q)) ≤ ConvDD.b64.top →
      ConvDD.ddFromLD (.fin s n) = ⟨.inf s, pzero⟩ ∧ ConvDD.qdFromLD (.fin s n) = (.inf s, pzero, pzero, pzero)) := by
  refine ⟨?_, ?_, ?_⟩
  · intro s
    simp [ConvDD.qdFromLD, ConvDD.ddFromLD, ConvDD.narrowLD, ConvDD.widenLD, F.isFinite]
  · simp [ConvDD.ddFromLD, ConvDD.narrowLD, ConvDD.widenLD, F.isFinite]
  · intro s n h
    have e : ConvDD.narrowLD (.fin s n) = .inf s := by
      simp only [ConvDD.narrowLD, roundShr, pack, h, if_false]
    have d := C03_dd_from_long_double_inf_head _ s e
    refine ⟨d, ?_⟩
    unfold ConvDD.qdFromLD
    rw [d]

set_option exponentiation.threshold 20000 in
/-- the witness of the former finding `dd.from_long_double.overflow_tail`: the largest finite long double below 2^1024
    (x87 pattern 43fe ffffffffffffffff) satisfies the overflow hypothesis -/
example : ¬ size (rnShr ConvDD.b64.p ((2 ^ 64 - 1) <<< (0x43fe - 1)) (ConvDD.x87.q - ConvDD.b64.q)) ≤ ConvDD.b64.top := by
  decide +kernel
