/-
  C03 (fixpnt clauses) — conversion from native signed / unsigned integers, float and double into
  `fixpnt<nbits, rbits, Modulo|Saturate, bt>`.

  The theorems are about the model `UVerif.ConvFixpnt.fromSigned / fromUnsigned / fromIeee`
  (lean/UVerif/Model/ConvFixpnt.lean, transcribed from fixpnt_impl.hpp:643-770) and hold for EVERY `nbits = n`,
  `rbits = r ≤ n`, every source width `sz` and every source value (the IEEE clauses: every exponent / fraction field
  width with fb + 1 < 64 and every normal bit pattern, nbits ≤ 64).  Right-hand sides are the executable specification
  `UVerif.ConvFixpntSpec.fromInt / fromRat` (lean/UVerif/Spec/ConvFixpnt.lean): the exact source value scaled by
  2^rbits, rounded to the nearest integer with ties to even, then wrapped (Modulo) or clamped (Saturate).

  Where the pinned code deviates from the property the full statement is kept as a `def … : Prop`, its negation is
  proved at a concrete witness, and the `_partial` theorem carries the guard as an explicit decidable hypothesis.
-/
import UVerifProofs.Lemmas.ConvFixpntFrom

open UVerif UVerif.ConvFixpntLemmas

/-! ### 1. signed integer sources, Modulo -/

/-- a signed integer `v` held in an `sz`-bit native type converts to the pattern of `v · 2^rbits` modulo `2^nbits`
    (the code copies the low min(sz, nbits − rbits) bits of |v| to position rbits and two's-complements a negative
    source); every nbits, rbits ≤ nbits, source width and value — including the most negative value of the type -/
theorem C03_fixpnt_from_signed_modulo (n r sz : Nat) (v : Int) (_hn : 0 < n) (hr : r ≤ n) (hsz : 0 < sz)
    (h1 : -((2 ^ (sz - 1) : Nat) : Int) ≤ v) (h2 : v < ((2 ^ (sz - 1) : Nat) : Int)) :
    ConvFixpnt.fromSigned n r false sz v = ConvFixpntSpec.fromInt n r false v :=
  fromSigned_modulo n r sz v hr hsz h1 h2

-- fixpnt<12,4,Modulo>(int −300): −300·16 = −4800 ≡ 0xd40 (mod 2^12); the hypotheses hold for a 32-bit int
example : ConvFixpnt.fromSigned 12 4 false 32 (-300) = 0xd40 ∧ ConvFixpntSpec.fromInt 12 4 false (-300) = 0xd40 := by decide
example : (0 < 12) ∧ (4 ≤ 12) ∧ (0 < 32) ∧ (-((2 ^ (32 - 1) : Nat) : Int) ≤ -300) ∧ ((-300 : Int) < ((2 ^ (32 - 1) : Nat) : Int)) := by
  decide

/-! ### 5. a narrower source type gives the same result -/

/-- Modulo: the result does not depend on the width of the native type that holds the value — a value that fits a
    narrower signed type converts to the same encoding from the narrower and from the wider type -/
theorem C03_fixpnt_from_narrow_eq_wide (n r sz1 sz2 : Nat) (v : Int) (hn : 0 < n) (hr : r ≤ n) (hsz : 0 < sz1)
    (hle : sz1 ≤ sz2) (h1 : -((2 ^ (sz1 - 1) : Nat) : Int) ≤ v) (h2 : v < ((2 ^ (sz1 - 1) : Nat) : Int)) :
    ConvFixpnt.fromSigned n r false sz1 v = ConvFixpnt.fromSigned n r false sz2 v := by
  have hp : ((2 ^ (sz1 - 1) : Nat) : Int) ≤ ((2 ^ (sz2 - 1) : Nat) : Int) := by
    exact_mod_cast Nat.pow_le_pow_right (by omega) (by omega : sz1 - 1 ≤ sz2 - 1)
  rw [C03_fixpnt_from_signed_modulo n r sz1 v hn hr hsz h1 h2,
    C03_fixpnt_from_signed_modulo n r sz2 v hn hr (by omega) (by omega) (by omega)]

-- fixpnt<12,4,Modulo>: int8_t(−100) and int64_t(−100)
example : ConvFixpnt.fromSigned 12 4 false 8 (-100) = 0x9c0 ∧ ConvFixpnt.fromSigned 12 4 false 64 (-100) = 0x9c0 := by decide
example : (0 < 8) ∧ (8 ≤ 64) ∧ (-((2 ^ (8 - 1) : Nat) : Int) ≤ -100) ∧ ((-100 : Int) < ((2 ^ (8 - 1) : Nat) : Int)) := by decide

/-- the same for unsigned sources with an integer part of at most 64 bits (the result does not mention `sz` at all) -/
theorem C03_fixpnt_from_narrow_eq_wide_unsigned (n r sz1 sz2 v : Nat) (hr : r ≤ n) (h64 : n - r ≤ 64) :
    ConvFixpnt.fromUnsigned n r false sz1 v = ConvFixpnt.fromUnsigned n r false sz2 v := by
  rw [fromUnsigned_modulo n r sz1 v hr h64, fromUnsigned_modulo n r sz2 v hr h64]

example : ConvFixpnt.fromUnsigned 12 4 false 8 200 = 0xc80 ∧ ConvFixpnt.fromUnsigned 12 4 false 64 200 = 0xc80 := by decide

/-! ### 2. unsigned integer sources, Modulo -/

/-- full statement for unsigned sources (false of the pinned code when nbits − rbits > 64) -/
def C03_fixpnt_from_unsigned_modulo_full : Prop :=
  ∀ (n r sz v : Nat), 0 < n → r ≤ n → 0 < sz → v < 2 ^ sz →
    ConvFixpnt.fromUnsigned n r false sz v = ConvFixpntSpec.fromInt n r false (v : Int)

/-- an unsigned integer converts to `v · 2^rbits` modulo `2^nbits` whenever the integer part of the target has at most
    64 bits (the loop bound `upperbound = nbits`) -/
theorem C03_fixpnt_from_unsigned_modulo (n r sz v : Nat) (_hn : 0 < n) (hr : r ≤ n) (_hsz : 0 < sz) (_hv : v < 2 ^ sz)
    (h64 : n - r ≤ 64) :
    ConvFixpnt.fromUnsigned n r false sz v = ConvFixpntSpec.fromInt n r false (v : Int) :=
  fromUnsigned_modulo n r sz v hr h64

-- fixpnt<12,4,Modulo>(unsigned 300): 4800 mod 4096 = 0x2c0
example : ConvFixpnt.fromUnsigned 12 4 false 32 300 = 0x2c0 ∧ ConvFixpntSpec.fromInt 12 4 false 300 = 0x2c0 := by decide

/-- nbits − rbits > 64: `upperbound = 64` is used as a bit index of the TARGET, only 64 − rbits source bits are copied.
    fixpnt<72,4,Modulo>(uint64_t 2^64 − 1) loses the top four bits of the source. -/
theorem C03_fixpnt_from_unsigned_wide_counterexample :
    ¬ (ConvFixpnt.fromUnsigned 72 4 false 64 (2 ^ 64 - 1) = ConvFixpntSpec.fromInt 72 4 false ((2 ^ 64 - 1 : Nat) : Int)) := by
  decide

theorem C03_fixpnt_from_unsigned_modulo_counterexample : ¬ C03_fixpnt_from_unsigned_modulo_full := by
  intro h
  exact C03_fixpnt_from_unsigned_wide_counterexample (h 72 4 64 (2 ^ 64 - 1) (by decide) (by decide) (by decide) (by decide))

/-! ### 3. integer sources, Saturate -/

/-- full statement for signed sources in Saturate mode (false of the pinned code) -/
def C03_fixpnt_from_signed_saturate_full : Prop :=
  ∀ (n r sz : Nat) (v : Int), 0 < n → r ≤ n → 0 < sz →
    -((2 ^ (sz - 1) : Nat) : Int) ≤ v → v < ((2 ^ (sz - 1) : Nat) : Int) →
    ConvFixpnt.fromSigned n r true sz v = ConvFixpntSpec.fromInt n r true v

/-- Saturate, signed source: the clamp of `v · 2^rbits` to [maxneg, maxpos], PROVIDED the integer part of maxpos fits
    the source type (nbits − rbits ≤ sz, and ≤ 64 for the `to_signed` loop bound) and `v` is not exactly the integer
    part of maxpos (unless rbits = 0, where that IS maxpos).  nbits = rbits is included (both thresholds are 0).
    Missing for the full statement: the range test is `v >= static_cast<Arith>(maxpos)` — against the integer part
    only, read into the source type — see the two counterexamples below. -/
theorem C03_fixpnt_from_signed_saturate_partial (n r sz : Nat) (v : Int) (hn : 0 < n) (hr : r ≤ n) (hsz : 0 < sz)
    (h1 : -((2 ^ (sz - 1) : Nat) : Int) ≤ v) (h2 : v < ((2 ^ (sz - 1) : Nat) : Int))
    (h64 : n - r ≤ 64) (hfit : n - r ≤ sz)
    (hg : r = 0 ∨ v = 0 ∨ v ≠ ((2 ^ (n - r - 1) : Nat) : Int) - 1) :
    ConvFixpnt.fromSigned n r true sz v = ConvFixpntSpec.fromInt n r true v :=
  fromSigned_saturate n r sz v hn hr hsz h1 h2 h64 hfit hg

-- fixpnt<8,4,Saturate>: int 6 is exact, int 8 and int −9 clamp; the guards hold for (8,4,int32,6)
example : ConvFixpnt.fromSigned 8 4 true 32 6 = 0x60 ∧ ConvFixpnt.fromSigned 8 4 true 32 8 = 0x7f ∧
    ConvFixpnt.fromSigned 8 4 true 32 (-9) = 0x80 := by decide
example : (8 - 4 ≤ 64) ∧ (8 - 4 ≤ 32) ∧ ((4 : Nat) = 0 ∨ (6 : Int) = 0 ∨ (6 : Int) ≠ ((2 ^ (8 - 4 - 1) : Nat) : Int) - 1) := by decide

/-- fixpnt<8,4,Saturate>(int 7): 7 = int(maxpos) passes `v >= int(maxpos)` and returns maxpos 0x7f = 7.9375
    although 7 = 0x70 is representable -/
theorem C03_fixpnt_from_signed_saturate_floor_counterexample :
    ConvFixpnt.fromSigned 8 4 true 32 7 = 0x7f ∧ ConvFixpntSpec.fromInt 8 4 true 7 = 0x70 := by decide

/-- fixpnt<40,4,Saturate>(int 5): the 36-bit integer part of maxpos does not fit `int`, `int(maxpos)` wraps to −1 and
    every non-negative int saturates to maxpos -/
theorem C03_fixpnt_from_signed_saturate_wrapped_counterexample :
    ConvFixpnt.fromSigned 40 4 true 32 5 = ConvFixpnt.maxposP 40 ∧ ConvFixpntSpec.fromInt 40 4 true 5 = 0x50 := by decide

theorem C03_fixpnt_from_signed_saturate_counterexample : ¬ C03_fixpnt_from_signed_saturate_full := by
  intro h
  have h7 := h 8 4 32 7 (by decide) (by decide) (by decide) (by decide) (by decide)
  rw [C03_fixpnt_from_signed_saturate_floor_counterexample.1, C03_fixpnt_from_signed_saturate_floor_counterexample.2] at h7
  exact absurd h7 (by decide)

/-- full statement for unsigned sources in Saturate mode (false of the pinned code) -/
def C03_fixpnt_from_unsigned_saturate_full : Prop :=
  ∀ (n r sz v : Nat), 0 < n → r ≤ n → 0 < sz → v < 2 ^ sz →
    ConvFixpnt.fromUnsigned n r true sz v = ConvFixpntSpec.fromInt n r true (v : Int)

/-- fixpnt<8,4,Saturate>(unsigned 1) = maxneg 0x80 (−8.0), not 0x10: `static_cast<unsigned>(maxneg)` is the raw
    pattern sign-extended to a huge unsigned number, so every source below the raw maxpos pattern is "≤ maxneg" -/
theorem C03_fixpnt_from_unsigned_saturate_counterexample : ¬ C03_fixpnt_from_unsigned_saturate_full := by
  intro h
  have h1 := h 8 4 32 1 (by decide) (by decide) (by decide) (by decide)
  have hm : ConvFixpnt.fromUnsigned 8 4 true 32 1 = 0x80 := by decide
  have hs : ConvFixpntSpec.fromInt 8 4 true ((1 : Nat) : Int) = 0x10 := by decide
  rw [hm, hs] at h1
  exact absurd h1 (by decide)

/-- the only region where the unsigned Saturate range test is right: a source at or above the RAW maxpos pattern
    2^(nbits−1) − 1 (nbits ≤ 64, the pattern fits the source type) saturates to maxpos, which is also the clamp of
    `v · 2^rbits`.  Every other non-zero source returns maxpos or maxneg as well (see the counterexamples):
    missing for the full statement is a range test against the VALUE of maxpos and no test against maxneg at all. -/
theorem C03_fixpnt_from_unsigned_saturate_partial (n r sz v : Nat) (hn : 0 < n) (hn64 : n ≤ 64) (_hr : r ≤ n)
    (_hsz : 0 < sz) (_hv : v < 2 ^ sz) (hfit : n - 1 ≤ sz) (htop : 2 ^ (n - 1) - 1 ≤ v) :
    ConvFixpnt.fromUnsigned n r true sz v = ConvFixpntSpec.fromInt n r true (v : Int) :=
  fromUnsigned_saturate_top n r sz v hn hn64 hfit htop

-- fixpnt<8,4,Saturate>(unsigned 200) = maxpos
example : ConvFixpnt.fromUnsigned 8 4 true 32 200 = 0x7f ∧ ConvFixpntSpec.fromInt 8 4 true 200 = 0x7f := by decide
example : (0 < 8) ∧ (8 ≤ 64) ∧ (4 ≤ 8) ∧ (200 < 2 ^ 32) ∧ (8 - 1 ≤ 32) ∧ (2 ^ (8 - 1) - 1 ≤ 200) := by decide

/-- a source type narrower than the raw maxpos pattern: fixpnt<16,0,Saturate>(uint8_t 255) = maxpos 32767, because
    `static_cast<uint8_t>(maxpos)` = 255 -/
theorem C03_fixpnt_from_unsigned_saturate_narrow_counterexample :
    ConvFixpnt.fromUnsigned 16 0 true 8 255 = 0x7fff ∧ ConvFixpntSpec.fromInt 16 0 true 255 = 0xff := by decide

/-! ### 4. float / double sources -/

/-- the exact value of a normal IEEE pattern with `ew` exponent bits and `fb` fraction bits, written out:
    (−1)^s · (2^fb + fraction) · 2^(exponent − bias − fb) -/
def C03_fixpnt_ieee_value (ew fb bits : Nat) : Rat :=
  let s := bits.testBit (ew + fb)
  let rawExp := (bits >>> fb) % 2 ^ ew
  let rawFrac := bits % 2 ^ fb
  let bias : Int := ((2 ^ (ew - 1) : Nat) : Int) - 1
  let m : Rat := dyadic ((2 ^ fb + rawFrac : Nat) : Int) ((rawExp : Int) - bias - (fb : Int))
  if s then -m else m

/-- bridge: for a normal pattern the written-out value is `SpecF64.valOf` (the spec of C13 / C10) -/
theorem C03_fixpnt_ieee_value_eq_valOf (ew fb bits : Nat) (hexp : 0 < (bits >>> fb) % 2 ^ ew) :
    C03_fixpnt_ieee_value ew fb bits = SpecF64.valOf (fb + 1) ew bits := by
  rw [valOf_normal ew fb bits hexp]
  unfold C03_fixpnt_ieee_value dyadic sgnQ
  simp only [Nat.add_comm (2 ^ fb) (bits % 2 ^ fb), Int.cast_natCast]

example : C03_fixpnt_ieee_value 11 52 0xc00c000000000000 = -7/2 := by decide +kernel

/-- a NORMAL finite float / double (any format with fb + 1 < 64 fraction+hidden bits: binary32 = (8,23),
    binary64 = (11,52)) converts, in Modulo mode and for nbits ≤ 64, to the multiple of 2^−rbits nearest to its exact
    value, ties to the even raw integer, wrapped modulo 2^nbits: all three branches of the code (result 0 when more
    than fb+1 bits would be shifted out, guard/round/sticky rounding, exact left shift with bit projection).
    (Subnormal sources are excluded: the code's `rawExponent == 0` fraction has no hidden bit and the biased exponent
    is still `0 − bias`, cf. the full statement below.) -/
theorem C03_fixpnt_from_ieee_modulo (n r ew fb bits : Nat) (hn : n ≤ 64) (_hr : r ≤ n) (hfb : fb + 1 < 64)
    (hnormal : 0 < (bits >>> fb) % 2 ^ ew) (_hfinite : (bits >>> fb) % 2 ^ ew < 2 ^ ew - 1) :
    ConvFixpnt.fromIeee n r false ew fb bits = ConvFixpntSpec.fromRat n r false (SpecF64.valOf (fb + 1) ew bits) :=
  fromIeee_modulo n r ew fb bits hn hfb hnormal

/-- the same with the value written out -/
theorem C03_fixpnt_from_ieee_modulo_explicit (n r ew fb bits : Nat) (hn : n ≤ 64) (hr : r ≤ n) (hfb : fb + 1 < 64)
    (hnormal : 0 < (bits >>> fb) % 2 ^ ew) (hfinite : (bits >>> fb) % 2 ^ ew < 2 ^ ew - 1) :
    ConvFixpnt.fromIeee n r false ew fb bits = ConvFixpntSpec.fromRat n r false (C03_fixpnt_ieee_value ew fb bits) := by
  rw [C03_fixpnt_ieee_value_eq_valOf ew fb bits hnormal]
  exact C03_fixpnt_from_ieee_modulo n r ew fb bits hn hr hfb hnormal hfinite

-- fixpnt<16,8,Modulo>(double −3.5) = 0xfc80; (float 0.001953125 = 2^-9) is a tie and rounds to even 0;
-- (double 300.0) wraps: 76800 mod 65536 = 0x2c00.  0xc00c… is normal and finite.
example : ConvFixpnt.fromIeee 16 8 false 11 52 0xc00c000000000000 = 0xfc80 := by decide +kernel
example : ConvFixpnt.fromIeee 16 8 false 8 23 0x3b000000 = 0 := by decide +kernel
example : ConvFixpnt.fromIeee 16 8 false 11 52 0x4072c00000000000 = 0x2c00 := by decide +kernel
example : (16 ≤ 64) ∧ (52 + 1 < 64) ∧ (0 < (0xc00c000000000000 >>> 52) % 2 ^ 11) ∧ ((0xc00c000000000000 >>> 52) % 2 ^ 11 < 2 ^ 11 - 1) := by
  decide

/-- nbits > 64, negative source: the result is built in a uint64_t and stored with `setbits(uint64_t)`, which does
    not sign-extend above bit 63.  fixpnt<72,4,Modulo>(double −1.0) = 0x00fffffffffffffff0, not 0xfffffffffffffffff0. -/
theorem C03_fixpnt_from_ieee_wide_negative_counterexample :
    ¬ (ConvFixpnt.fromIeee 72 4 false 11 52 0xbff0000000000000
        = ConvFixpntSpec.fromRat 72 4 false (SpecF64.valOf 53 11 0xbff0000000000000)) := by
  decide +kernel

/-- the statement for every finite source and every width (false of the pinned code for nbits > 64, see above) -/
def C03_fixpnt_from_ieee_modulo_full : Prop :=
  ∀ (n r ew fb bits : Nat), 0 < n → r ≤ n → 2 ≤ ew → fb + 1 < 64 → (bits >>> fb) % 2 ^ ew < 2 ^ ew - 1 →
    ConvFixpnt.fromIeee n r false ew fb bits = ConvFixpntSpec.fromRat n r false (SpecF64.valOf (fb + 1) ew bits)

theorem C03_fixpnt_from_ieee_modulo_counterexample : ¬ C03_fixpnt_from_ieee_modulo_full := by
  intro h
  exact C03_fixpnt_from_ieee_wide_negative_counterexample
    (h 72 4 11 52 0xbff0000000000000 (by decide) (by decide) (by decide) (by decide) (by decide))

/-- EVERY finite source — zeros, subnormals, normals — for nbits ≤ 64 and a format whose bias is at least rbits + 2
    (2^(ew−1) ≥ rbits + 3: float for rbits ≤ 125, double for every rbits ≤ 64).  Zero and subnormal sources take the
    `rawExponent == 0` path (no hidden bit, exponent −bias — off by one binade for subnormals) and land in the
    "shift out everything" branch; their exact value scaled by 2^rbits is below 1/2, so 0 is the correct rounding. -/
theorem C03_fixpnt_from_ieee_modulo_finite (n r ew fb bits : Nat) (hn : n ≤ 64) (_hr : r ≤ n) (hfb : fb + 1 < 64)
    (hbias : r + 3 ≤ 2 ^ (ew - 1)) (_hfinite : (bits >>> fb) % 2 ^ ew < 2 ^ ew - 1) :
    ConvFixpnt.fromIeee n r false ew fb bits = ConvFixpntSpec.fromRat n r false (SpecF64.valOf (fb + 1) ew bits) :=
  fromIeee_modulo_finite n r ew fb bits hn hfb hbias

-- the largest double subnormal 0x000fffffffffffff into fixpnt<64,64>: 0
example : ConvFixpnt.fromIeee 64 64 false 11 52 0x000fffffffffffff = 0 := by decide +kernel
example : (64 ≤ 64) ∧ (52 + 1 < 64) ∧ (64 + 3 ≤ 2 ^ (11 - 1)) ∧ ((0x000fffffffffffff >>> 52) % 2 ^ 11 < 2 ^ 11 - 1) := by decide

/-- without the bias guard the subnormal path is wrong: a toy format with 2 exponent bits (bias 1), 3 fraction bits:
    the subnormal 0b0_00_100 = 0.5 converts to fixpnt<8,4> as 0x04 (0.25) instead of 0x08 -/
theorem C03_fixpnt_from_ieee_subnormal_counterexample :
    ConvFixpnt.fromIeee 8 4 false 2 3 0b000100 = 0x04 ∧
    ConvFixpntSpec.fromRat 8 4 false (SpecF64.valOf 4 2 0b000100) = 0x08 := by decide +kernel

/-! float / double sources, Saturate -/

/-- full statement, Saturate, nbits ≤ 64 (false of the pinned code for nbits > 25) -/
def C03_fixpnt_from_ieee_saturate_full : Prop :=
  ∀ (n r ew fb bits : Nat), 0 < n → n ≤ 64 → r ≤ n → 2 ≤ ew → fb + 1 < 64 →
    0 < (bits >>> fb) % 2 ^ ew → (bits >>> fb) % 2 ^ ew < 2 ^ ew - 1 →
    ConvFixpnt.fromIeee n r true ew fb bits = ConvFixpntSpec.fromRat n r true (SpecF64.valOf (fb + 1) ew bits)

/-- Saturate, nbits ≤ 25: a normal finite float / double converts to the nearest multiple of 2^−rbits (ties to even)
    clamped to [maxneg, maxpos].  The range test compares the source with `float(maxpos)` and `float(maxneg)`
    (`to_native<float>`, an accumulation loop in SINGLE precision): for nbits − 1 ≤ 24 every partial sum is a
    binary32 number and both thresholds are exact.  Missing for the full statement: for nbits ≥ 26 `float(maxpos)`
    rounds up to 2^(nbits−1−rbits) and sources between maxpos and that power of two fall through to the wrapping tail. -/
theorem C03_fixpnt_from_ieee_saturate_partial (n r ew fb bits : Nat) (hn : 0 < n) (hn25 : n ≤ 25) (hr : r ≤ n)
    (hew : 2 ≤ ew) (hfb : fb + 1 < 64)
    (hnormal : 0 < (bits >>> fb) % 2 ^ ew) (hfinite : (bits >>> fb) % 2 ^ ew < 2 ^ ew - 1) :
    ConvFixpnt.fromIeee n r true ew fb bits = ConvFixpntSpec.fromRat n r true (SpecF64.valOf (fb + 1) ew bits) :=
  fromIeee_saturate n r ew fb bits hn hn25 hr hew hfb hnormal hfinite

-- fixpnt<16,8,Saturate>: double 300.0 clamps to maxpos, double −3.5 is exact, float −1e6 (0xc9742400) clamps to maxneg
example : ConvFixpnt.fromIeee 16 8 true 11 52 0x4072c00000000000 = 0x7fff := by decide +kernel
example : ConvFixpnt.fromIeee 16 8 true 11 52 0xc00c000000000000 = 0xfc80 := by decide +kernel
example : ConvFixpnt.fromIeee 16 8 true 8 23 0xc9742400 = 0x8000 := by decide +kernel
example : (0 < 16) ∧ (16 ≤ 25) ∧ (8 ≤ 16) ∧ (2 ≤ 11) ∧ (52 + 1 < 64) ∧ (0 < (0x4072c00000000000 >>> 52) % 2 ^ 11) ∧
    ((0x4072c00000000000 >>> 52) % 2 ^ 11 < 2 ^ 11 - 1) := by decide

/-- fixpnt<26,20,Saturate> from the double just below 32.0: float(maxpos) = float(32 − 2^−20) rounds up to 32.0f,
    the source is below it, passes the range test and wraps to maxneg 0x2000000 (−32.0); the property demands maxpos -/
theorem C03_fixpnt_from_ieee_saturate_wrap_counterexample :
    ConvFixpnt.fromIeee 26 20 true 11 52 0x403fffffffffffff = 0x2000000 ∧
    ConvFixpntSpec.fromRat 26 20 true (SpecF64.valOf 53 11 0x403fffffffffffff) = 0x1ffffff := by decide +kernel

theorem C03_fixpnt_from_ieee_saturate_counterexample : ¬ C03_fixpnt_from_ieee_saturate_full := by
  intro h
  have h1 := h 26 20 11 52 0x403fffffffffffff (by decide) (by decide) (by decide) (by decide) (by decide) (by decide) (by decide)
  rw [C03_fixpnt_from_ieee_saturate_wrap_counterexample.1, C03_fixpnt_from_ieee_saturate_wrap_counterexample.2] at h1
  exact absurd h1 (by decide)
