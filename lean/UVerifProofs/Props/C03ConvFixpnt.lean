/-
  C03 (fixpnt clauses) — conversion from native signed / unsigned integers, float and double into
  `fixpnt<nbits, rbits, Modulo|Saturate, bt>`.

  The theorems are about the model `UVerif.ConvFixpnt.fromSigned / fromUnsigned / fromIeee`
  (lean/UVerif/Model/ConvFixpnt.lean, transcribed from fixpnt_impl.hpp:643-770) and hold for EVERY `nbits = n`,
  `rbits = r ≤ n`, every source width `sz` and every source value (the IEEE clauses: every exponent / fraction field
  width with fb + 1 < 64 and every normal bit pattern, nbits ≤ 64).  Right-hand sides are the executable specification
  `UVerif.ConvFixpntSpec.fromInt / fromRat` (lean/UVerif/Spec/ConvFixpnt.lean): the exact source value scaled by
  2^rbits, rounded to the nearest integer with ties to even, then wrapped (Modulo) or clamped (Saturate).

  Repair wave: the Saturate range tests of the integer branches, the 64-bit loop bound of the unsigned branch, the missing
  sign extension above bit 63 and the clamp of values that round up beyond maxpos were repaired in the library (`fix:` commits,
  see NOTES_conv.md); the former `…_counterexample` theorems are now positive statements at the same witnesses (`…_witness`) and
  the former `…_partial` theorems are stated without their guards.
-/
import UVerifProofs.Lemmas.ConvFixpntFrom

open UVerif UVerif.ConvFixpntLemmas

/-! ### 1. signed integer sources, Modulo -/

/-- a signed integer `v` held in an `sz`-bit native type converts to the pattern of `v · 2^rbits` modulo `2^nbits`
    (the code copies the low min(sz, nbits − rbits) bits of |v| to position rbits and two's-complements a negative
    source); every nbits, rbits ≤ nbits, source width and value — including the most negative value of the type -/
theorem C03_fixpnt_from_signed_modulo (n r sz : Nat) (v : Int) (_hn : 0 < n) (hr : r ≤ n) (hsz : 0 < sz)
    (h1 : -((2 ^ (sz - 1) : Nat) : Int) ≤ v) (h2 : v < ((2 ^ (sz - 1) : Nat) : Int)) :
    ConvFixpnt.fromSigned n r false sz v = ConvFixpntSpec.fromInt n r false v :=
  fromSigned_modulo n r sz v hr hsz h1 h2

-- fixpnt<12,4,Modulo>(int −300): −300·16 = −4800 ≡ 0xd40 (mod 2^12); the hypotheses hold for a 32-bit int
example : ConvFixpnt.fromSigned 12 4 false 32 (-300) = 0xd40 ∧ ConvFixpntSpec.fromInt 12 4 false (-300) = 0xd40 := by decide
example : (0 < 12) ∧ (4 ≤ 12) ∧ (0 < 32) ∧ (-((2 ^ (32 - 1) : Nat) : Int) ≤ -300) ∧ ((-300 : Int) < ((2 ^ (32 - 1) : Nat) : Int)) := by
  decide

/-! ### 5. a narrower source type gives the same result -/

/-- Modulo: the result does not depend on the width of the native type that holds the value — a value that fits a
    narrower signed type converts to the same encoding from the narrower and from the wider type -/
theorem C03_fixpnt_from_narrow_eq_wide (n r sz1 sz2 : Nat) (v : Int) (hn : 0 < n) (hr : r ≤ n) (hsz : 0 < sz1)
    (hle : sz1 ≤ sz2) (h1 : -((2 ^ (sz1 - 1) : Nat) : Int) ≤ v) (h2 : v < ((2 ^ (sz1 - 1) : Nat) : Int)) :
    ConvFixpnt.fromSigned n r false sz1 v = ConvFixpnt.fromSigned n r false sz2 v := by
  have hp : ((2 ^ (sz1 - 1) : Nat) : Int) ≤ ((2 ^ (sz2 - 1) : Nat) : Int) := by
    exact_mod_cast Nat.pow_le_pow_right (by omega) (by omega : sz1 - 1 ≤ sz2 - 1)
  rw [C03_fixpnt_from_signed_modulo n r sz1 v hn hr hsz h1 h2,
    C03_fixpnt_from_signed_modulo n r sz2 v hn hr (by omega) (by omega) (by omega)]

-- fixpnt<12,4,Modulo>: int8_t(−100) and int64_t(−100)
example : ConvFixpnt.fromSigned 12 4 false 8 (-100) = 0x9c0 ∧ ConvFixpnt.fromSigned 12 4 false 64 (-100) = 0x9c0 := by decide
example : (0 < 8) ∧ (8 ≤ 64) ∧ (-((2 ^ (8 - 1) : Nat) : Int) ≤ -100) ∧ ((-100 : Int) < ((2 ^ (8 - 1) : Nat) : Int)) := by decide

/-- the same for unsigned sources held in a native type (v < 2^64): the result does not depend on the type's width -/
theorem C03_fixpnt_from_narrow_eq_wide_unsigned (n r sz1 sz2 v : Nat) (hr : r ≤ n) (hv : v < 2 ^ 64) :
    ConvFixpnt.fromUnsigned n r false sz1 v = ConvFixpnt.fromUnsigned n r false sz2 v := by
  rw [fromUnsigned_modulo_full n r sz1 v hr hv, fromUnsigned_modulo_full n r sz2 v hr hv]

example : ConvFixpnt.fromUnsigned 12 4 false 8 200 = 0xc80 ∧ ConvFixpnt.fromUnsigned 12 4 false 64 200 = 0xc80 := by decide

/-! ### 2. unsigned integer sources, Modulo -/

/-- an unsigned integer held in a native type of `sz ≤ 64` bits converts to `v · 2^rbits` modulo `2^nbits`, for EVERY
    configuration: when the integer part of the target is wider than 64 bits all 64 source bits are copied
    (loop bound `rbits + 64`) -/
theorem C03_fixpnt_from_unsigned_modulo (n r sz v : Nat) (_hn : 0 < n) (hr : r ≤ n) (_hsz : 0 < sz) (hsz64 : sz ≤ 64)
    (hv : v < 2 ^ sz) :
    ConvFixpnt.fromUnsigned n r false sz v = ConvFixpntSpec.fromInt n r false (v : Int) :=
  fromUnsigned_modulo_full n r sz v hr (Nat.lt_of_lt_of_le hv (Nat.pow_le_pow_right (by omega) hsz64))

-- fixpnt<12,4,Modulo>(unsigned 300): 4800 mod 4096 = 0x2c0
example : ConvFixpnt.fromUnsigned 12 4 false 32 300 = 0x2c0 ∧ ConvFixpntSpec.fromInt 12 4 false 300 = 0x2c0 := by decide

/-- the witness of the former defect `fixpnt.from_uint.more_than_64_integer_bits`:
    fixpnt<72,4,Modulo>(uint64_t 2^64 − 1) = 0x0ffffffffffffffff0, all 64 source bits -/
theorem C03_fixpnt_from_unsigned_wide_witness :
    ConvFixpnt.fromUnsigned 72 4 false 64 (2 ^ 64 - 1) = 0x0ffffffffffffffff0 ∧
    ConvFixpntSpec.fromInt 72 4 false ((2 ^ 64 - 1 : Nat) : Int) = 0x0ffffffffffffffff0 := by
  decide

/-! ### 3. integer sources, Saturate -/

/-- Saturate, signed source held in a native type of `sz ≤ 64` bits: the clamp of `v · 2^rbits` to [maxneg, maxpos] for EVERY
    configuration and EVERY value of the type.  The range test `v > int(maxpos)`, `v <= int(maxneg)` (integer parts) is only
    compiled when the integer part of the target fits the source type; otherwise every value of the type is in range. -/
theorem C03_fixpnt_from_signed_saturate (n r sz : Nat) (v : Int) (hn : 0 < n) (hr : r ≤ n) (hsz : 0 < sz) (hsz64 : sz ≤ 64)
    (h1 : -((2 ^ (sz - 1) : Nat) : Int) ≤ v) (h2 : v < ((2 ^ (sz - 1) : Nat) : Int)) :
    ConvFixpnt.fromSigned n r true sz v = ConvFixpntSpec.fromInt n r true v :=
  fromSigned_saturate n r sz v hn hr hsz hsz64 h1 h2

-- fixpnt<8,4,Saturate>: int 6 is exact, int 8 and int −9 clamp
example : ConvFixpnt.fromSigned 8 4 true 32 6 = 0x60 ∧ ConvFixpnt.fromSigned 8 4 true 32 8 = 0x7f ∧
    ConvFixpnt.fromSigned 8 4 true 32 (-9) = 0x80 := by decide
example : (0 < 8) ∧ (4 ≤ 8) ∧ (0 < 32) ∧ (32 ≤ 64) ∧ (-((2 ^ (32 - 1) : Nat) : Int) ≤ 6) ∧ ((6 : Int) < ((2 ^ (32 - 1) : Nat) : Int)) := by
  decide

/-- the witness of the former defect `fixpnt.from_int.saturate.floor_maxpos_returns_maxpos`:
    fixpnt<8,4,Saturate>(int 7) = 0x70 (7 = the integer part of maxpos is representable and is returned) -/
theorem C03_fixpnt_from_signed_saturate_floor_witness :
    ConvFixpnt.fromSigned 8 4 true 32 7 = 0x70 ∧ ConvFixpntSpec.fromInt 8 4 true 7 = 0x70 := by decide

/-- the witness of the former defect `fixpnt.from_int.saturate.threshold_exceeds_source_type`:
    fixpnt<40,4,Saturate>(int 5) = 0x50 (the 36-bit integer part holds every int: no range test) -/
theorem C03_fixpnt_from_signed_saturate_wide_witness :
    ConvFixpnt.fromSigned 40 4 true 32 5 = 0x50 ∧ ConvFixpntSpec.fromInt 40 4 true 5 = 0x50 := by decide

/-- a narrower signed type gives the same result in Saturate mode as well -/
theorem C03_fixpnt_from_narrow_eq_wide_saturate (n r sz1 sz2 : Nat) (v : Int) (hn : 0 < n) (hr : r ≤ n) (hsz : 0 < sz1)
    (hle : sz1 ≤ sz2) (hsz64 : sz2 ≤ 64) (h1 : -((2 ^ (sz1 - 1) : Nat) : Int) ≤ v) (h2 : v < ((2 ^ (sz1 - 1) : Nat) : Int)) :
    ConvFixpnt.fromSigned n r true sz1 v = ConvFixpnt.fromSigned n r true sz2 v := by
  have hp : ((2 ^ (sz1 - 1) : Nat) : Int) ≤ ((2 ^ (sz2 - 1) : Nat) : Int) := by
    exact_mod_cast Nat.pow_le_pow_right (by omega) (by omega : sz1 - 1 ≤ sz2 - 1)
  rw [C03_fixpnt_from_signed_saturate n r sz1 v hn hr hsz (by omega) h1 h2,
    C03_fixpnt_from_signed_saturate n r sz2 v hn hr (by omega) hsz64 (by omega) (by omega)]

example : ConvFixpnt.fromSigned 40 4 true 16 (-100) = ConvFixpnt.fromSigned 40 4 true 64 (-100) := by decide

/-- Saturate, unsigned source held in a native type of `sz ≤ 64` bits: the clamp of `v · 2^rbits` for EVERY configuration and
    value (compared with the integer part of maxpos, `(unsigned long long)(long long)(maxpos)`; no lower test) -/
theorem C03_fixpnt_from_unsigned_saturate (n r sz v : Nat) (hn : 0 < n) (hr : r ≤ n) (_hsz : 0 < sz) (hsz64 : sz ≤ 64)
    (hv : v < 2 ^ sz) :
    ConvFixpnt.fromUnsigned n r true sz v = ConvFixpntSpec.fromInt n r true (v : Int) :=
  fromUnsigned_saturate n r sz v hn hr (Nat.lt_of_lt_of_le hv (Nat.pow_le_pow_right (by omega) hsz64))

-- fixpnt<8,4,Saturate>: unsigned 200 and 8 clamp to maxpos, 7 is exact
example : ConvFixpnt.fromUnsigned 8 4 true 32 200 = 0x7f ∧ ConvFixpnt.fromUnsigned 8 4 true 32 8 = 0x7f ∧
    ConvFixpnt.fromUnsigned 8 4 true 32 7 = 0x70 := by decide

/-- the witnesses of the former defect `fixpnt.from_uint.saturate.raw_pattern_thresholds`:
    fixpnt<8,4,Saturate>(unsigned 1) = 0x10 (was maxneg), fixpnt<16,0,Saturate>(uint8_t 255) = 0xff (was maxpos) -/
theorem C03_fixpnt_from_unsigned_saturate_witness :
    ConvFixpnt.fromUnsigned 8 4 true 32 1 = 0x10 ∧ ConvFixpntSpec.fromInt 8 4 true ((1 : Nat) : Int) = 0x10 ∧
    ConvFixpnt.fromUnsigned 16 0 true 8 255 = 0xff ∧ ConvFixpntSpec.fromInt 16 0 true 255 = 0xff := by decide

/-! ### 4. float / double sources -/

/-- the exact value of a normal IEEE pattern with `ew` exponent bits and `fb` fraction bits, written out:
    (−1)^s · (2^fb + fraction) · 2^(exponent − bias − fb) -/
def C03_fixpnt_ieee_value (ew fb bits : Nat) : Rat :=
  let s := bits.testBit (ew + fb)
  let rawExp := (bits >>> fb) % 2 ^ ew
  let rawFrac := bits % 2 ^ fb
  let bias : Int := ((2 ^ (ew - 1) : Nat) : Int) - 1
  let m : Rat := dyadic ((2 ^ fb + rawFrac : Nat) : Int) ((rawExp : Int) - bias - (fb : Int))
  if s then -m else m

/-- bridge: for a normal pattern the written-out value is `SpecF64.valOf` (the spec of C13 / C10) -/
theorem C03_fixpnt_ieee_value_eq_valOf (ew fb bits : Nat) (hexp : 0 < (bits >>> fb) % 2 ^ ew) :
    C03_fixpnt_ieee_value ew fb bits = SpecF64.valOf (fb + 1) ew bits := by
  rw [valOf_normal ew fb bits hexp]
  unfold C03_fixpnt_ieee_value dyadic sgnQ
  simp only [Nat.add_comm (2 ^ fb) (bits % 2 ^ fb), Int.cast_natCast]

example : C03_fixpnt_ieee_value 11 52 0xc00c000000000000 = -7/2 := by decide +kernel

/-- a NORMAL finite float / double (any format with fb + 1 < 64 fraction+hidden bits: binary32 = (8,23),
    binary64 = (11,52)) converts, in Modulo mode and for EVERY nbits, to the multiple of 2^−rbits nearest to its exact
    value, ties to the even raw integer, wrapped modulo 2^nbits: all three branches of the code (result 0 when more
    than fb+1 bits would be shifted out, guard/round/sticky rounding, exact left shift with bit projection); a negative
    source is two's-complemented in all nbits.
    (Subnormal sources are excluded here: the code's `rawExponent == 0` fraction has no hidden bit and the biased exponent
    is still `0 − bias`, cf. `C03_fixpnt_from_ieee_modulo_finite`.) -/
theorem C03_fixpnt_from_ieee_modulo (n r ew fb bits : Nat) (_hr : r ≤ n) (hfb : fb + 1 < 64)
    (hnormal : 0 < (bits >>> fb) % 2 ^ ew) (_hfinite : (bits >>> fb) % 2 ^ ew < 2 ^ ew - 1) :
    ConvFixpnt.fromIeee n r false ew fb bits = ConvFixpntSpec.fromRat n r false (SpecF64.valOf (fb + 1) ew bits) :=
  fromIeee_modulo n r ew fb bits hfb hnormal

/-- the same with the value written out -/
theorem C03_fixpnt_from_ieee_modulo_explicit (n r ew fb bits : Nat) (hr : r ≤ n) (hfb : fb + 1 < 64)
    (hnormal : 0 < (bits >>> fb) % 2 ^ ew) (hfinite : (bits >>> fb) % 2 ^ ew < 2 ^ ew - 1) :
    ConvFixpnt.fromIeee n r false ew fb bits = ConvFixpntSpec.fromRat n r false (C03_fixpnt_ieee_value ew fb bits) := by
  rw [C03_fixpnt_ieee_value_eq_valOf ew fb bits hnormal]
  exact C03_fixpnt_from_ieee_modulo n r ew fb bits hr hfb hnormal hfinite

-- fixpnt<16,8,Modulo>(double −3.5) = 0xfc80; (float 0.001953125 = 2^-9) is a tie and rounds to even 0;
-- (double 300.0) wraps: 76800 mod 65536 = 0x2c00.  0xc00c… is normal and finite.
example : ConvFixpnt.fromIeee 16 8 false 11 52 0xc00c000000000000 = 0xfc80 := by decide +kernel
example : ConvFixpnt.fromIeee 16 8 false 8 23 0x3b000000 = 0 := by decide +kernel
example : ConvFixpnt.fromIeee 16 8 false 11 52 0x4072c00000000000 = 0x2c00 := by decide +kernel
example : (8 ≤ 16) ∧ (52 + 1 < 64) ∧ (0 < (0xc00c000000000000 >>> 52) % 2 ^ 11) ∧ ((0xc00c000000000000 >>> 52) % 2 ^ 11 < 2 ^ 11 - 1) := by
  decide

/-- the witness of the former defect `fixpnt.from_ieee.negative_nbits_gt_64`:
    fixpnt<72,4,Modulo>(double −1.0) = 0xfffffffffffffffff0 (sign-extended above bit 63) -/
theorem C03_fixpnt_from_ieee_wide_negative_witness :
    ConvFixpnt.fromIeee 72 4 false 11 52 0xbff0000000000000 = 0xfffffffffffffffff0 ∧
    ConvFixpntSpec.fromRat 72 4 false (SpecF64.valOf 53 11 0xbff0000000000000) = 0xfffffffffffffffff0 := by
  decide +kernel

/-- EVERY finite source — zeros, subnormals, normals — for EVERY nbits and a format whose bias is at least rbits + 2
    (2^(ew−1) ≥ rbits + 3: float for rbits ≤ 125, double for every rbits ≤ 1021).  Zero and subnormal sources take the
    `rawExponent == 0` path (no hidden bit, exponent −bias — off by one binade for subnormals) and land in the
    "shift out everything" branch; their exact value scaled by 2^rbits is below 1/2, so 0 is the correct rounding.
    This is the full C03 statement for fixpnt in Modulo arithmetic. -/
theorem C03_fixpnt_from_ieee_modulo_finite (n r ew fb bits : Nat) (_hr : r ≤ n) (hfb : fb + 1 < 64)
    (hbias : r + 3 ≤ 2 ^ (ew - 1)) (_hfinite : (bits >>> fb) % 2 ^ ew < 2 ^ ew - 1) :
    ConvFixpnt.fromIeee n r false ew fb bits = ConvFixpntSpec.fromRat n r false (SpecF64.valOf (fb + 1) ew bits) :=
  fromIeee_modulo_finite n r ew fb bits hfb hbias

-- the largest double subnormal 0x000fffffffffffff into fixpnt<64,64>: 0
example : ConvFixpnt.fromIeee 64 64 false 11 52 0x000fffffffffffff = 0 := by decide +kernel
example : (64 ≤ 64) ∧ (52 + 1 < 64) ∧ (64 + 3 ≤ 2 ^ (11 - 1)) ∧ ((0x000fffffffffffff >>> 52) % 2 ^ 11 < 2 ^ 11 - 1) := by decide

/-- without the bias guard the subnormal path is wrong (not reachable with float / double, whose bias is 127 / 1023): a toy
    format with 2 exponent bits (bias 1), 3 fraction bits: the subnormal 0b0_00_100 = 0.5 converts to fixpnt<8,4> as 0x04
    (0.25) instead of 0x08 -/
theorem C03_fixpnt_from_ieee_subnormal_counterexample :
    ConvFixpnt.fromIeee 8 4 false 2 3 0b000100 = 0x04 ∧
    ConvFixpntSpec.fromRat 8 4 false (SpecF64.valOf 4 2 0b000100) = 0x08 := by decide +kernel

/-! float / double sources, Saturate -/

/-- Saturate: a normal finite float / double converts to the nearest multiple of 2^−rbits (ties to even) clamped to
    [maxneg, maxpos], for EVERY nbits within the single-precision range of the thresholds (nbits − rbits ≤ 128, rbits ≤ 149; every
    configuration of the harness and of the library's tests).  The range test compares the source with `float(maxpos)` and
    `float(maxneg)` (`to_native<float>`, an accumulation loop in SINGLE precision): float(maxneg) is the exact power of two;
    float(maxpos) is exact for nbits ≤ 25 and rounds UP to 2^(nbits−1−rbits) above (`toNative_maxpos_wide`).  A source at or
    above float(maxpos) clamps; a source below it rounds to at most 2^(nbits−1), and a positive result that carried into the
    sign bit is replaced by maxpos (`if (!s && f.sign()) f.maxpos();`). -/
theorem C03_fixpnt_from_ieee_saturate (n r ew fb bits : Nat) (hn : 0 < n) (hr : r ≤ n) (hr149 : r ≤ 149) (hnr : n - r ≤ 128)
    (hew : 2 ≤ ew) (hfb : fb + 1 < 64)
    (hnormal : 0 < (bits >>> fb) % 2 ^ ew) (hfinite : (bits >>> fb) % 2 ^ ew < 2 ^ ew - 1) :
    ConvFixpnt.fromIeee n r true ew fb bits = ConvFixpntSpec.fromRat n r true (SpecF64.valOf (fb + 1) ew bits) :=
  fromIeee_saturate n r ew fb bits hn hr hr149 hnr hew hfb hnormal hfinite

-- fixpnt<16,8,Saturate>: double 300.0 clamps to maxpos, double −3.5 is exact, float −1e6 (0xc9742400) clamps to maxneg
example : ConvFixpnt.fromIeee 16 8 true 11 52 0x4072c00000000000 = 0x7fff := by decide +kernel
example : ConvFixpnt.fromIeee 16 8 true 11 52 0xc00c000000000000 = 0xfc80 := by decide +kernel
example : ConvFixpnt.fromIeee 16 8 true 8 23 0xc9742400 = 0x8000 := by decide +kernel
example : (0 < 16) ∧ (8 ≤ 16) ∧ (8 ≤ 149) ∧ (16 - 8 ≤ 128) ∧ (2 ≤ 11) ∧ (52 + 1 < 64) ∧ (0 < (0x4072c00000000000 >>> 52) % 2 ^ 11) ∧
    ((0x4072c00000000000 >>> 52) % 2 ^ 11 < 2 ^ 11 - 1) := by decide

/-- the witness of the former defect `fixpnt.from_ieee.saturate.float_threshold`: fixpnt<26,20,Saturate> from the double just
    below 32.0: float(maxpos) = 32.0f, the source is below it, rounds up to raw 2^25 and is now clamped to maxpos 0x1ffffff -/
theorem C03_fixpnt_from_ieee_saturate_wrap_witness :
    ConvFixpnt.fromIeee 26 20 true 11 52 0x403fffffffffffff = 0x1ffffff ∧
    ConvFixpntSpec.fromRat 26 20 true (SpecF64.valOf 53 11 0x403fffffffffffff) = 0x1ffffff := by decide +kernel
