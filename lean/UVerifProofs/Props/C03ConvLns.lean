/-
  C03 (lns clauses) — conversion from native double / float / integers: theorems about Model.ConvLns.convertIeee
  (convert_ieee754<Real>, lns_impl.hpp:555-702) and Lns.Model.convertF64 (its double instantiation), judged by
  Spec.ConvLns (nearest value in the log domain) and Spec.Lns.decode.
-/
import UVerif.Model.ConvLns
import UVerif.Spec.ConvLns
import UVerifProofs.Lemmas.LnsBits
import UVerifProofs.Lemmas.LnsOps
import UVerifProofs.Lemmas.LnsRound
import UVerifProofs.Lemmas.ConvLnsPow2
import UVerifProofs.Lemmas.ConvLnsRne
open UVerif UVerif.Lns UVerif.Lns.Model UVerif.IeeeBits UVerif.ConvLns UVerif.ConvLns.Spec UVerif.LnsLemmas

set_option linter.unusedSimpArgs false

/-- the generic model instantiated at double IS the double model that the add/sub detour of C09 uses -/
theorem C03_lns_convert_f64_eq (c : Cfg) (t : Thresholds) (v logv : Nat) :
    convertIeee natF64 c t v logv = convertF64 c t v logv := by
  rfl

/-! ### the special encodings written by the conversion -/

theorem C03_lns_maxposEnc {n : Nat} (hn : 2 ≤ n) : maxposEnc n = 2 ^ (n - 2) - 1 := by
  obtain ⟨p, hp, e2, e1, e0, e3⟩ := pow_n_var hn
  unfold maxposEnc setBit
  have h1 : (2 ^ n - 1).testBit (n - 1) = true := by
    rw [Nat.testBit_two_pow_sub_one]; simp; omega
  simp only [h1, if_true, Bool.false_eq_true, if_false]
  have h2 : 2 ^ n - 1 - 2 ^ (n - 1) = 2 ^ (n - 1) - 1 := by rw [e0, e1]; omega
  rw [h2]
  have h3 : (2 ^ (n - 1) - 1).testBit (n - 2) = true := by
    rw [Nat.testBit_two_pow_sub_one]; simp; omega
  simp only [h3, if_true]
  rw [e1, e2]; omega

theorem C03_lns_maxnegEnc {n : Nat} (hn : 2 ≤ n) : maxnegEnc n = 2 ^ (n - 1) + (2 ^ (n - 2) - 1) := by
  obtain ⟨p, hp, e2, e1, e0, e3⟩ := pow_n_var hn
  unfold maxnegEnc setBit
  have h1 : (2 ^ n - 1).testBit (n - 2) = true := by
    rw [Nat.testBit_two_pow_sub_one]; simp; omega
  simp only [h1, if_true, Bool.false_eq_true, if_false]
  rw [e0, e1, e2]; omega

/-- ±maxpos decode to the largest exponent -/
theorem C03_lns_decode_maxpos {n : Nat} (hn : 3 ≤ n) :
    decode n (maxposEnc n) = Val.num false (maxE n) ∧ decode n (maxnegEnc n) = Val.num true (maxE n) := by
  obtain ⟨p, hp, e2, e1, e0, e3⟩ := pow_n_var (show 2 ≤ n by omega)
  have hp2 : 2 ≤ p := by
    rw [← e2]; calc 2 = 2 ^ 1 := rfl
      _ ≤ 2 ^ (n - 2) := Nat.pow_le_pow_right (by omega) (by omega)
  have he : 2 ^ (n - 2) - 1 < 2 ^ (n - 1) := by rw [e2, e1]; omega
  have hne : 2 ^ (n - 2) - 1 ≠ 2 ^ (n - 2) := by rw [e2]; omega
  have hs : toSigned (n - 1) (2 ^ (n - 2) - 1) = maxE n := by
    rw [toSigned_eq (by omega) he, show n - 1 - 1 = n - 2 by omega, maxE_eq, e2]
    rw [if_pos (by omega)]; omega
  constructor
  · rw [C03_lns_maxposEnc (by omega)]
    have := (decode_num (n := n) (by omega) false he hne).2
    simpa [hs] using this
  · rw [C03_lns_maxnegEnc (by omega), Nat.add_comm]
    have := (decode_num (n := n) (by omega) true he hne).2
    simpa [hs] using this

/-! ### special sources: zeros, infinities, NaNs -/

/-- ±0.0 ↦ the zero encoding, whatever libm returns for log2(0) -/
theorem C03_lns_from_zero (c : Cfg) (hn : 2 ≤ c.nbits) (t : Thresholds) (lg : Nat) :
    convertF64 c t 0 lg = setZero c.nbits ∧ convertF64 c t 0x8000000000000000 lg = setZero c.nbits ∧
    decode c.nbits (setZero c.nbits) = Val.zero := by
  refine ⟨?_, ?_, decode_zeroEnc hn⟩
  · unfold convertF64; simp [signOf, expOf, fracOf, IeeeBits.isZero, f64]
  · unfold convertF64; simp [signOf, expOf, fracOf, IeeeBits.isZero, f64]

/-- ±infinity ↦ ±maxpos (lns has no infinity; `setinf`), in both behaviours -/
theorem C03_lns_from_inf (c : Cfg) (t : Thresholds) (lg : Nat) :
    convertF64 c t 0x7ff0000000000000 lg = maxposEnc c.nbits ∧ convertF64 c t 0xfff0000000000000 lg = maxnegEnc c.nbits := by
  have h1 : Nat.testBit 0x7ff0000000000000 63 = false := by decide
  have h2 : Nat.testBit 0xfff0000000000000 63 = true := by decide
  constructor
  · unfold convertF64; simp [signOf, expOf, fracOf, f64, h1]
  · unfold convertF64; simp [signOf, expOf, fracOf, f64, h2]

/-- **every NaN source — any payload, either sign, float or double — gives the NaN encoding** (code after the fix "lns
    convert_ieee754 must map every NaN payload to the NaN encoding": inside `unbiasedExponent == eallset` the three fraction
    patterns built from `ieee754_parameter<Real>::qnanmask/snanmask`, then fraction 0 = infinity, then `setnan()` for every
    remaining fraction).  `nt` = the native format with its two masks; nothing is assumed about the masks, the observed
    logarithm or the thresholds. -/
theorem C03_lns_from_nan_ieee (nt : Native) (c : Cfg) (t : Thresholds) (v lg : Nat)
    (hv : IeeeBits.isNaN nt.f v = true) :
    convertIeee nt c t v lg = setNaN c.nbits := by
  unfold IeeeBits.isNaN at hv
  have hE : (expOf nt.f v == nt.f.eAll) = true := by
    cases h : (expOf nt.f v == nt.f.eAll) <;> simp [h] at hv ⊢
  have hF : (fracOf nt.f v == 0) = false := by
    cases h : (fracOf nt.f v == 0) <;> simp [h, hE] at hv ⊢
    simp [beq_iff_eq] at h; exact absurd h hv
  unfold convertIeee
  simp only [hE, hF, Bool.true_and, Bool.false_eq_true, if_false, if_true, ite_self]

/-- double sources: every NaN (the three recognised fractions and every other payload) gives the NaN encoding, which
    decodes to NaN -/
theorem C03_lns_from_nan (c : Cfg) (hn : 2 ≤ c.nbits) (t : Thresholds) (v lg : Nat)
    (hv : IeeeBits.isNaN f64 v = true) :
    convertF64 c t v lg = setNaN c.nbits ∧ decode c.nbits (convertF64 c t v lg) = Val.nan := by
  have h : convertF64 c t v lg = setNaN c.nbits := by
    rw [← C03_lns_convert_f64_eq]; exact C03_lns_from_nan_ieee natF64 c t v lg hv
  refine ⟨h, ?_⟩
  rw [h, setNaN_eq hn]; exact decode_nanEnc hn

/-- the spec predicate of C03 accepts the conversion of every NaN source (float and double, every configuration with
    nbits ≥ 2, both behaviours) -/
theorem C03_lns_from_nan_spec (nt : Native) (c : Cfg) (hn : 2 ≤ c.nbits) (t : Thresholds) (v lg : Nat)
    (hv : IeeeBits.isNaN nt.f v = true) :
    fromOk c.nbits c.rbits c.wrap Src.nan (convertIeee nt c t v lg) = some true := by
  rw [C03_lns_from_nan_ieee nt c t v lg hv, setNaN_eq hn]
  obtain ⟨p, hp, e2, e1, e0, e3⟩ := pow_n_var hn
  unfold fromOk
  have hlt : ¬ (2 ^ (c.nbits - 1) + 2 ^ (c.nbits - 2) ≥ 2 ^ c.nbits) := by rw [e0, e1, e2]; omega
  simp only [hlt, if_false, decode_nanEnc hn]
  rfl

-- non-vacuity: the four patterns the old code recognised, and payloads it did not
example : IeeeBits.isNaN f64 0x7ff8000000000000 = true ∧ IeeeBits.isNaN f64 0x7ff4000000000000 = true ∧
    IeeeBits.isNaN f64 0x7ffc000000000000 = true ∧ IeeeBits.isNaN f64 0xfff8000000000000 = true ∧
    IeeeBits.isNaN f64 0x7ff0000000000001 = true ∧ IeeeBits.isNaN f64 0xfff123456789abcd = true ∧
    IeeeBits.isNaN natF32.f 0x7fc00000 = true ∧ IeeeBits.isNaN natF32.f 0x7f800001 = true ∧ IeeeBits.isNaN natF32.f 0xffc12345 = true := by
  decide

/-- float sources: the same exits of convert_ieee754<float> -/
theorem C03_lns_from_f32_special (c : Cfg) (t : Thresholds) (lg : Nat) :
    convertIeee natF32 c t 0 lg = setZero c.nbits ∧ convertIeee natF32 c t 0x80000000 lg = setZero c.nbits ∧
    convertIeee natF32 c t 0x7f800000 lg = maxposEnc c.nbits ∧ convertIeee natF32 c t 0xff800000 lg = maxnegEnc c.nbits ∧
    convertIeee natF32 c t 0x7fc00000 lg = setNaN c.nbits ∧ convertIeee natF32 c t 0x7fa00000 lg = setNaN c.nbits := by
  have h1 : Nat.testBit 0x7f800000 31 = false := by decide
  have h2 : Nat.testBit 0xff800000 31 = true := by decide
  refine ⟨?_, ?_, ?_, ?_, ?_, ?_⟩ <;>
    (unfold convertIeee; simp [signOf, expOf, fracOf, IeeeBits.isZero, natF32, f32, Fmt.eAll, h1, h2])

/-- the former witness of `lns.from_ieee.nan_payload` (`convlns 5 2 u8 S fromd 7ff0000000000001 7ff8000000000001 … => 0` on the
    code before the fix): the repaired code stores the NaN encoding 0x18 of lns<5,2>, which the spec predicate accepts -/
theorem C03_lns_from_nan_payload :
    let c : Cfg := ⟨5, 2, 8, false⟩
    let t : Thresholds := ⟨0x400ae89f995ad3ad, 0x3fd306fe0a31b715, 0x3fd172b83c7d517b⟩
    IeeeBits.isNaN f64 0x7ff0000000000001 = true ∧
    convertF64 c t 0x7ff0000000000001 0x7ff8000000000001 = 0x18 ∧ decode 5 0x18 = Val.nan ∧
    fromOk 5 2 false Src.nan 0x18 = some true ∧ fromOk 5 2 false Src.nan 0 = some false := by
  decide +kernel

/-! ### the property is FALSE of the pinned code in one input region (known finding `lns.from_ieee.log2_ulp_exceeds_source_ulps`) -/

/-- the full C03 statement for lns = double (for the libm values of the transcript line) -/
def C03_lns_from_f64_full : Prop :=
  ∀ (c : Cfg) (t : Thresholds) (v lg : Nat), 2 ≤ c.nbits → c.rbits < c.nbits → v < 2 ^ 64 →
    -- lg, t are what std::log2 / std::pow return for this source (an assumption about libm)
    fromOk c.nbits c.rbits c.wrap
      (if IeeeBits.isNaN f64 v then Src.nan else if IeeeBits.isInf f64 v then Src.inf (signOf f64 v)
       else if IeeeBits.isZero f64 v then Src.zero else Src.num (signOf f64 v) (mant f64 v) (ulpExp f64 v))
      (convertF64 c t v lg) = some true

/-- a double closer to a log-domain midpoint than one ulp of its native log2: -319001.376… in lns<16,8>; glibc's log2 returns
    exactly 18.283203125 = 4680.5 / 2^8, the tie goes to the even exponent 4680 although the source lies on the other side
    of the midpoint (witness: `convlns 16 8 u8 S fromd c113786581d3f66e 4032488000000000 … => 9248`) -/
theorem C03_lns_from_f64_full_false : ¬ C03_lns_from_f64_full := by
  intro h
  have := h ⟨16, 8, 8, false⟩ ⟨0x43efe9d96b2a23d9, 0x3bf00b1afa5abcbf, 0x3bf0058c86da1c0a⟩ 0xc113786581d3f66e 0x4032488000000000
    (by decide) (by decide) (by decide)
  revert this
  decide +kernel

/-- float sources: log2f has 24 significant bits, so a float next to a log-domain midpoint (but 2^28 double ulps away from
    it) is rounded to the wrong side: 2.1810155 = 0x400b95c2 lies ABOVE the midpoint 2^(4.5/4) of lns<5,2>, log2f returns
    exactly 1.125 and the tie goes to the even exponent 4 instead of 5
    (witness: `convlns 5 2 u8 S fromf 400b95c2 3f900000 405744fd 3e9837f0 3e8b95c2 => 4`) -/
theorem C03_lns_from_f32_midpoint_counterexample :
    let c : Cfg := ⟨5, 2, 8, false⟩
    let t : Thresholds := ⟨0x405744fd, 0x3e9837f0, 0x3e8b95c2⟩
    convertIeee natF32 c t 0x400b95c2 0x3f900000 = 4 ∧
    accepted 2 (mant f32 0x400b95c2) (ulpExp f32 0x400b95c2) = some (5, 5) ∧
    fromOk 5 2 false (Src.num false (mant f32 0x400b95c2) (ulpExp f32 0x400b95c2)) 4 = some false ∧
    fromOk 5 2 false (Src.num false (mant f32 0x400b95c2) (ulpExp f32 0x400b95c2)) 5 = some true := by
  decide +kernel

/-! ### exact powers of two -/
open UVerif.ConvLnsLemmas in
/-- **a power-of-two double inside the range whose log2 was observed exactly is stored exactly** (Wrapping: no pre-tests):
    2^e with -1022 ≤ e ≤ 1023, e ≠ 0, std::log2 returned the double e ⇒ exponent field e·2^rbits, sign preserved, and the
    encoding decodes to (-1)^neg · 2^(e·2^r / 2^r). -/
theorem C03_lns_from_pow2_exact (c : Cfg) (t : Thresholds) (neg : Bool) (e : Int)
    (hn : 2 ≤ c.nbits) (hn64 : c.nbits ≤ 64) (hw : c.wrap = true)
    (he1 : -1022 ≤ e) (he2 : e ≤ 1023) (he0 : e ≠ 0)
    (hr : c.rbits + Nat.log2 e.natAbs < 52)
    (hlo : minE c.nbits ≤ e * ((2 ^ c.rbits : Nat) : Int)) (hhi : e * ((2 ^ c.rbits : Nat) : Int) ≤ maxE c.nbits) :
    decode c.nbits (convertF64 c t (f64Pow2 neg e) (f64OfInt e)) = Val.num neg (e * ((2 ^ c.rbits : Nat) : Int)) := by
  rw [convertF64_pow2_wrap c t neg e hn hn64 hw he1 he2 he0 hr hlo hhi]
  exact (decode_encodeNum c.nbits hn neg _ hlo hhi).2

open UVerif.ConvLnsLemmas in
/-- the same for Saturating behaviour when none of the four range pre-tests fires (the value is strictly inside
    (minpos, maxpos) as the code sees it: the thresholds are the observed Real(maxpos), Real(minpos), Real(halfMinpos)) -/
theorem C03_lns_from_pow2_exact_sat (c : Cfg) (t : Thresholds) (neg : Bool) (e : Int)
    (hn : 2 ≤ c.nbits) (hn64 : c.nbits ≤ 64) (hw : c.wrap = false)
    (he1 : -1022 ≤ e) (he2 : e ≤ 1023) (he0 : e ≠ 0)
    (hr : c.rbits + Nat.log2 e.natAbs < 52)
    (hlo : minE c.nbits ≤ e * ((2 ^ c.rbits : Nat) : Int)) (hhi : e * ((2 ^ c.rbits : Nat) : Int) ≤ maxE c.nbits)
    (h1 : (IeeeBits.lt f64 0 (f64Pow2 neg e) && IeeeBits.le f64 t.mx (f64Pow2 neg e)) = false)
    (h2 : (IeeeBits.lt f64 (f64Pow2 neg e) 0 && IeeeBits.le f64 (f64Pow2 neg e) (negate f64 t.mx)) = false)
    (h3 : IeeeBits.le f64 (absB f64 (f64Pow2 neg e)) t.hm = false)
    (h4 : IeeeBits.le f64 (absB f64 (f64Pow2 neg e)) t.mn = false) :
    decode c.nbits (convertF64 c t (f64Pow2 neg e) (f64OfInt e)) = Val.num neg (e * ((2 ^ c.rbits : Nat) : Int)) := by
  rw [convertF64_pow2_sat c t neg e hn hn64 hw he1 he2 he0 hr hlo hhi h1 h2 h3 h4]
  exact (decode_encodeNum c.nbits hn neg _ hlo hhi).2

open UVerif.ConvLnsLemmas in
/-- ±1.0 (observed log2 = +0.0) is stored as exponent field 0 -/
theorem C03_lns_from_one (c : Cfg) (t : Thresholds) (neg : Bool) (hn : 2 ≤ c.nbits) (hw : c.wrap = true) :
    convertF64 c t (f64Pow2 neg 0) 0 = encodeNum c.nbits neg 0 :=
  convertF64_one c t neg hn hw

-- non-vacuity: lns<8,3> Wrapping, 2^5 ↦ exponent field 40, -2^-3 ↦ sign | -24
open UVerif.ConvLnsLemmas in
example : decode 8 (convertF64 ⟨8, 3, 8, true⟩ ⟨0, 0, 0⟩ (f64Pow2 false 5) (f64OfInt 5)) = Val.num false 40 ∧
    decode 8 (convertF64 ⟨8, 3, 8, true⟩ ⟨0, 0, 0⟩ (f64Pow2 true (-3)) (f64OfInt (-3))) = Val.num true (-24) := by
  decide +kernel

/-! ### the general statement about the code: nearest lattice point to the OBSERVED logarithm -/

open UVerif.ConvLnsLemmas in
/-- **lns = double stores round-half-even(2^rbits · log2|v|) of the OBSERVED logarithm, with the sign of v** — for every
    finite non-zero double v, every normal observed logarithm `logv` whose rounding shift sr = 1075 − exponent field − rbits
    lies in 1 … 63 (i.e. 2^(rbits-11) ≲ |logv| < 2^(52-rbits)), whenever the rounded exponent is inside the lns range
    (Wrapping behaviour: no pre-tests).  Hence the result is the lattice point nearest to the observed log2; correctness
    w.r.t. the exact source (property C03) then depends only on |std::log2(v) − log2 v|, which is the known finding
    `lns.from_ieee.log2_ulp_exceeds_source_ulps` when v is closer to a log-domain midpoint than that error. -/
theorem C03_lns_from_f64_nearest_of_observed_log (c : Cfg) (t : Thresholds) (v logv : Nat)
    (hn : 2 ≤ c.nbits) (hn64 : c.nbits ≤ 64) (hw : c.wrap = true)
    (hvE : expOf f64 v ≠ 2047) (hvz : IeeeBits.isZero f64 v = false)
    (hE1 : 1 ≤ expOf f64 logv) (hE2 : expOf f64 logv < 2047)
    (sr : Nat) (hsr : (sr : Int) = 1075 - (expOf f64 logv : Int) - (c.rbits : Int)) (h1 : 1 ≤ sr) (h63 : sr ≤ 63)
    (E : Int)
    (hE : E = (if signOf f64 logv then -1 else 1) * rne (((2 ^ c.rbits : Nat) : Rat) * |IeeeBits.toRat f64 logv|))
    (hlo : minE c.nbits ≤ E) (hhi : E ≤ maxE c.nbits) :
    convertF64 c t v logv < 2 ^ c.nbits ∧
    decode c.nbits (convertF64 c t v logv) = Val.num (IeeeBits.lt f64 v 0) E :=
  convertF64_nearest_observed_wrap c t v logv hn hn64 hw hvE hvz hE1 hE2 sr hsr h1 h63 E hE hlo hhi

open UVerif.ConvLnsLemmas in
/-- Saturating twin: the four range pre-tests (against the observed thresholds) do not fire -/
theorem C03_lns_from_f64_nearest_of_observed_log_sat (c : Cfg) (t : Thresholds) (v logv : Nat)
    (hn : 2 ≤ c.nbits) (hn64 : c.nbits ≤ 64) (hw : c.wrap = false)
    (hvE : expOf f64 v ≠ 2047) (hvz : IeeeBits.isZero f64 v = false)
    (g1 : (IeeeBits.lt f64 0 v && IeeeBits.le f64 t.mx v) = false)
    (g2 : (IeeeBits.lt f64 v 0 && IeeeBits.le f64 v (negate f64 t.mx)) = false)
    (g3 : IeeeBits.le f64 (absB f64 v) t.hm = false) (g4 : IeeeBits.le f64 (absB f64 v) t.mn = false)
    (hE1 : 1 ≤ expOf f64 logv) (hE2 : expOf f64 logv < 2047)
    (sr : Nat) (hsr : (sr : Int) = 1075 - (expOf f64 logv : Int) - (c.rbits : Int)) (h1 : 1 ≤ sr) (h63 : sr ≤ 63)
    (E : Int)
    (hE : E = (if signOf f64 logv then -1 else 1) * rne (((2 ^ c.rbits : Nat) : Rat) * |IeeeBits.toRat f64 logv|))
    (hlo : minE c.nbits ≤ E) (hhi : E ≤ maxE c.nbits) :
    convertF64 c t v logv < 2 ^ c.nbits ∧
    decode c.nbits (convertF64 c t v logv) = Val.num (IeeeBits.lt f64 v 0) E :=
  convertF64_nearest_observed_sat c t v logv hn hn64 hw hvE hvz g1 g2 g3 g4 hE1 hE2 sr hsr h1 h63 E hE hlo hhi

/-- integer sources: `convert_signed` / `convert_unsigned` are `convert_ieee754(double(v))`, so a value converts to the same
    encoding through every integer type that holds it (the model takes only sign and magnitude), and integers below 2^53
    are converted exactly like the double of the same value -/
theorem C03_lns_from_int_is_from_double (c : Cfg) (t : Thresholds) (neg : Bool) (mag lg : Nat) :
    fromInt c t neg mag lg = convertF64 c t (encodeRound f64 neg mag 0) lg := rfl
