/-
  C04 — read-back to native types (posit clause).
  `toIeee` is the model of to_double()/to_float() under the guard that all factors and their product are exact
  (fraction width ≤ mantissa width, scale in the normal exponent range).  Proved here, for every exponent/mantissa
  width and every triple: the IEEE pattern that is produced denotes exactly the triple's value, and re-extracting its
  fields (what posit(double) does first) returns the same triple — so the round trip loses nothing before the final
  `convert_`, whose correctness is C01's obligation.
-/
import UVerif.Model.PositConv
import UVerif.Spec.Ieee
import UVerifProofs.Lemmas.Pow2
import UVerifProofs.Lemmas.Ieee
import UVerifProofs.Lemmas.PositArith
import UVerifProofs.Lemmas.PositDecode
import UVerifProofs.Lemmas.PositCanon

open UVerif UVerif.Posit

/-- pack a (sign, scale, fraction on fb bits) triple as an IEEE pattern — the non-special branch of `toIeee` -/
def packIeee (eb mb : Nat) (s : Bool) (scale : Int) (fb frac : Nat) : Nat :=
  (if s then 1 else 0) * 2 ^ (eb + mb) + (scale + ((2 : Int) ^ (eb - 1) - 1)).toNat * 2 ^ mb + frac * 2 ^ (mb - fb)

/-- Re-extraction of a packed normal number returns the triple it was built from (fraction left-aligned to mb bits):
    all eb, mb, fb ≤ mb, frac < 2^fb, biased exponent in [1, 2^eb − 2]. -/
theorem C04_pack_classify (eb mb : Nat) (s : Bool) (scale : Int) (fb frac : Nat)
    (hfb : fb ≤ mb) (hfr : frac < 2 ^ fb)
    (hlo : 1 ≤ scale + ((2 : Int) ^ (eb - 1) - 1)) (hhi : scale + ((2 : Int) ^ (eb - 1) - 1) ≤ (2 : Int) ^ eb - 2) :
    classifyIeee eb mb (packIeee eb mb s scale fb frac) = .fin s scale (frac * 2 ^ (mb - fb)) := by
  unfold packIeee classifyIeee
  simp only
  generalize hB : (2 : Int) ^ (eb - 1) - 1 = B at *
  have hE : ∃ Eb : Nat, (scale + B).toNat = Eb ∧ (Eb : Int) = scale + B ∧ 1 ≤ Eb ∧ Eb + 2 ≤ 2 ^ eb := by
    refine ⟨(scale + B).toNat, rfl, by omega, by omega, ?_⟩
    have : ((2 ^ eb : Nat) : Int) = (2 : Int) ^ eb := by push_cast; rfl
    omega
  obtain ⟨Eb, hEb, hEbz, hE1, hE2⟩ := hE
  rw [hEb]
  have hF : frac * 2 ^ (mb - fb) < 2 ^ mb := by
    have : 2 ^ mb = 2 ^ fb * 2 ^ (mb - fb) := by rw [← Nat.pow_add]; congr 1; omega
    rw [this]; exact Nat.mul_lt_mul_of_pos_right hfr (Nat.two_pow_pos _)
  set F := frac * 2 ^ (mb - fb) with hFdef
  set S : Nat := if s then 1 else 0 with hS
  have hSle : S ≤ 1 := by rw [hS]; split <;> omega
  have hpm : 0 < 2 ^ mb := Nat.two_pow_pos _
  have hpe : 0 < 2 ^ eb := Nat.two_pow_pos _
  have hsplit : 2 ^ (eb + mb) = 2 ^ eb * 2 ^ mb := Nat.pow_add ..
  -- the three fields
  have hM : (S * 2 ^ (eb + mb) + Eb * 2 ^ mb + F) % 2 ^ mb = F := by
    rw [hsplit]
    have : S * (2 ^ eb * 2 ^ mb) + Eb * 2 ^ mb + F = F + 2 ^ mb * (S * 2 ^ eb + Eb) := by ring
    rw [this, Nat.add_mul_mod_self_left, Nat.mod_eq_of_lt hF]
  have hEf : ((S * 2 ^ (eb + mb) + Eb * 2 ^ mb + F) >>> mb) % 2 ^ eb = Eb := by
    rw [Nat.shiftRight_eq_div_pow, hsplit]
    have : S * (2 ^ eb * 2 ^ mb) + Eb * 2 ^ mb + F = F + 2 ^ mb * (Eb + 2 ^ eb * S) := by ring
    rw [this, Nat.add_mul_div_left _ _ hpm, Nat.div_eq_of_lt hF, Nat.zero_add, Nat.add_mul_mod_self_left,
      Nat.mod_eq_of_lt (by omega)]
  have hSg : (S * 2 ^ (eb + mb) + Eb * 2 ^ mb + F).testBit (eb + mb) = s := by
    rw [Nat.testBit_eq_decide_div_mod_eq]
    have hrest : Eb * 2 ^ mb + F < 2 ^ (eb + mb) := by
      rw [hsplit]
      have : (Eb + 1) * 2 ^ mb ≤ 2 ^ eb * 2 ^ mb := Nat.mul_le_mul_right _ (by omega)
      have : (Eb + 1) * 2 ^ mb = Eb * 2 ^ mb + 2 ^ mb := by ring
      omega
    have : S * 2 ^ (eb + mb) + Eb * 2 ^ mb + F = (Eb * 2 ^ mb + F) + 2 ^ (eb + mb) * S := by ring
    rw [this, Nat.add_mul_div_left _ _ (Nat.two_pow_pos _), Nat.div_eq_of_lt hrest, Nat.zero_add]
    rw [hS]; cases s <;> simp
  rw [hM, hEf, hSg]
  have h1 : ¬ Eb = 2 ^ eb - 1 := by omega
  have h2 : ¬ Eb = 0 := by omega
  simp only [h1, h2, if_false]
  congr 1
  omega

/-- The packed pattern denotes exactly the triple's value (so to_double() is exact under the guard). -/
theorem C04_pack_value (eb mb : Nat) (s : Bool) (scale : Int) (fb frac : Nat)
    (hfb : fb ≤ mb) (hfr : frac < 2 ^ fb)
    (hlo : 1 ≤ scale + ((2 : Int) ^ (eb - 1) - 1)) (hhi : scale + ((2 : Int) ^ (eb - 1) - 1) ≤ (2 : Int) ^ eb - 2) :
    ieeeVal eb mb (packIeee eb mb s scale fb frac)
      = some (let m : ℚ := (1 + (frac : ℚ) / ((2 ^ fb : Nat) : ℚ)) * pow2 scale; if s then -m else m) := by
  have hc := C04_pack_classify eb mb s scale fb frac hfb hfr hlo hhi
  have := C03_classifyIeee_exact' eb mb _ s scale _ hc
  rw [this]
  congr 1
  unfold srcVal'
  have hmb : (2 ^ mb : Nat) = 2 ^ fb * 2 ^ (mb - fb) := by rw [← Nat.pow_add]; congr 1; omega
  have : ((frac * 2 ^ (mb - fb) : Nat) : ℚ) / ((2 ^ mb : Nat) : ℚ) = (frac : ℚ) / ((2 ^ fb : Nat) : ℚ) := by
    rw [hmb]; push_cast
    have p1 : (0 : ℚ) < 2 ^ (mb - fb) := by positivity
    have p2 : (0 : ℚ) < 2 ^ fb := by positivity
    field_simp
  simp only [this]

/-- non-vacuity: posit-like triple (+, scale 3, frac 0b101 on 3 bits) packed as binary64 is 0x402a000000000000 = 13.0 -/
example : packIeee 11 52 false 3 3 5 = 0x402a000000000000 := by decide

/-- the model of to_double()/to_float() on a non-special encoding IS `packIeee` of the decoded triple -/
theorem C04_toIeee_eq_pack (n es eb mb a : Nat) (h0 : a % 2 ^ n ≠ 0) (h1 : a % 2 ^ n ≠ 2 ^ (n - 1)) :
    toIeee n es eb mb a =
      packIeee eb mb (decode n es (a % 2 ^ n)).sign (decode n es (a % 2 ^ n)).scale
        (decode n es (a % 2 ^ n)).fb (decode n es (a % 2 ^ n)).frac := by
  unfold toIeee packIeee
  simp only [h0, h1, if_false]

/-- special encodings: zero reads back as +0.0, NaR as a quiet NaN pattern -/
theorem C04_toIeee_special (n es eb mb : Nat) (hn : 0 < n) (hmb : 0 < mb) :
    toIeee n es eb mb 0 = 0 ∧ ieeeIsNaN eb mb (toIeee n es eb mb (2 ^ (n - 1))) = true := by
  have hlt : 2 ^ (n - 1) < 2 ^ n := Nat.pow_lt_pow_right (by decide) (by omega)
  have hp : 0 < 2 ^ (n - 1) := Nat.two_pow_pos _
  refine ⟨by unfold toIeee; simp, ?_⟩
  unfold toIeee ieeeIsNaN
  simp only [Nat.mod_eq_of_lt hlt]
  rw [if_neg (by omega)]
  simp only [if_true]
  have hq : 2 ^ (mb - 1) < 2 ^ mb := Nat.pow_lt_pow_right (by decide) (by omega)
  have hpe : 0 < 2 ^ eb := Nat.two_pow_pos _
  have hdisj : ((2 ^ eb - 1) <<< mb ||| 2 ^ (mb - 1)) = (2 ^ eb - 1) * 2 ^ mb + 2 ^ (mb - 1) := by
    rw [Nat.shiftLeft_eq, Nat.mul_comm]
    exact (Nat.two_pow_add_eq_or_of_lt hq _).symm ▸ rfl
  rw [hdisj]
  have e1 : ((2 ^ eb - 1) * 2 ^ mb + 2 ^ (mb - 1)) >>> mb = 2 ^ eb - 1 := by
    rw [Nat.shiftRight_eq_div_pow, Nat.add_comm, Nat.mul_comm, Nat.add_mul_div_left _ _ (Nat.two_pow_pos _),
      Nat.div_eq_of_lt hq, Nat.zero_add]
  have e2 : ((2 ^ eb - 1) * 2 ^ mb + 2 ^ (mb - 1)) % 2 ^ mb = 2 ^ (mb - 1) := by
    rw [Nat.add_comm, Nat.mul_comm, Nat.add_mul_mod_self_left, Nat.mod_eq_of_lt hq]
  rw [e1, e2, Nat.mod_eq_of_lt (by omega)]
  have : 2 ^ (mb - 1) ≠ 0 := by positivity
  simp [this]

/-! ### the full read-back statement (uses C01 `decode_value`, `convert_correct` and uniqueness of the rounding) -/

section
open UVerif.Posit

/-- **to_double()/to_float() is exact and round-trips.** For every posit configuration and every real-valued non-zero
    encoding whose fraction fits the native mantissa (`fbitsOf n es ≤ mb`) and whose scale is a normal native exponent,
    the native pattern denotes exactly the posit's value, and converting it back yields the original encoding. -/
theorem C04_posit_native_roundtrip (n es eb mb a : Nat) (hn : 2 ≤ n) (ha : a < 2 ^ n) (h0 : a ≠ 0)
    (hnar : a ≠ 2 ^ (n - 1)) (hfb : fbitsOf n es ≤ mb)
    (hlo : 1 ≤ (decode n es a).scale + ((2 : Int) ^ (eb - 1) - 1))
    (hhi : (decode n es a).scale + ((2 : Int) ^ (eb - 1) - 1) ≤ (2 : Int) ^ eb - 2) :
    ieeeVal eb mb (toIeee n es eb mb a) = positVal n es a ∧
    fromSrc n es mb (classifyIeee eb mb (toIeee n es eb mb a)) = a := by
  obtain ⟨hv, hz, hi, hf, hfbeq, ht⟩ := decode_value n es a hn ha h0 hnar
  have hmod : a % 2 ^ n = a := Nat.mod_eq_of_lt ha
  have hpk := C04_toIeee_eq_pack n es eb mb a (by rw [hmod]; exact h0) (by rw [hmod]; exact hnar)
  rw [hmod] at hpk
  set v := decode n es a with hvdef
  have hfb' : v.fb ≤ mb := by rw [hfbeq]; exact hfb
  have hval := C04_pack_value eb mb v.sign v.scale v.fb v.frac hfb' hf hlo hhi
  have hcls := C04_pack_classify eb mb v.sign v.scale v.fb v.frac hfb' hf hlo hhi
  rw [hpk]
  constructor
  · rw [hval, hv]
    congr 1
    unfold Val.toRat
    simp only [hz, Bool.false_eq_true, if_false]
  · rw [hcls]
    unfold fromSrc
    -- the re-extracted triple has the same value; convert_ of it is the unique correct rounding of that value, and so is `a`
    have hF : v.frac * 2 ^ (mb - v.fb) < 2 ^ mb := by
      have : 2 ^ mb = 2 ^ v.fb * 2 ^ (mb - v.fb) := by rw [← Nat.pow_add]; congr 1; omega
      rw [this]; exact Nat.mul_lt_mul_of_pos_right hf (Nat.two_pow_pos _)
    have hr := convert_correct n es hn v.sign v.scale mb (v.frac * 2 ^ (mb - v.fb)) hF
    have hsame : tripleVal v.sign v.scale mb (v.frac * 2 ^ (mb - v.fb)) = tripleVal v.sign v.scale v.fb v.frac := by
      unfold tripleVal
      congr 2
      have : (2 : ℚ) ^ mb = 2 ^ v.fb * 2 ^ (mb - v.fb) := by rw [← pow_add]; congr 1; omega
      rw [this]; push_cast
      have p1 : (0 : ℚ) < 2 ^ (mb - v.fb) := by positivity
      have p2 : (0 : ℚ) < 2 ^ v.fb := by positivity
      field_simp
    have hs := nearestB_self n es a hn ha _ hv
    rw [ht] at hs
    unfold tripleVal at hr hs hsame
    rw [hsame] at hr
    have hfr : (0 : ℚ) ≤ (v.frac : ℚ) / 2 ^ v.fb := by positivity
    have hfr1 : (v.frac : ℚ) / 2 ^ v.fb < 1 := by rw [div_lt_one (by positivity)]; exact_mod_cast hf
    exact nearestB_unique n es hn _ _ _ hfr hfr1 _ _ (convert_raw_lt n es (by omega) _ _ _ _) ha hr hs

/-- non-vacuity: posit<32,2> 0x4d3c0001 through binary64 (27 fraction bits ≤ 52, scale 1) -/
example : fbitsOf 32 2 ≤ 52 ∧ (decode 32 2 0x4d3c0001).scale = 1 := by decide

end
