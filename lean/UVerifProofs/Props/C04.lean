import UVerif.Model.PositConv
theorem C04_placeholder : True := trivial
