/-
  C04 — read-back to native types (posit clause).
  `toIeee` is the model of to_double()/to_float() under the guard that all factors and their product are exact
  (fraction width ≤ mantissa width, scale in the normal exponent range).  Proved here, for every exponent/mantissa
  width and every triple: the IEEE pattern that is produced denotes exactly the triple's value, and re-extracting its
  fields (what posit(double) does first) returns the same triple — so the round trip loses nothing before the final
  `convert_`, whose correctness is C01's obligation.
  Integer casts (`to_short()` … `to_ulong_long()` = `to_integer<Int>()`, the repair of D23): the model `toInteger` takes the
  integer part from the decoded fields; proved at the end of this file for every configuration and every real-valued
  encoding: the result is the exact value truncated toward zero whenever that fits the type (signed types: clamped otherwise).
-/
import UVerif.Model.PositConv
import UVerif.Spec.Ieee
import UVerifProofs.Lemmas.Pow2
import UVerifProofs.Lemmas.Ieee
import UVerifProofs.Lemmas.PositArith
import UVerifProofs.Lemmas.PositDecode
import UVerifProofs.Lemmas.PositCanon
import UVerifProofs.Lemmas.PositToInteger

open UVerif UVerif.Posit

/-- pack a (sign, scale, fraction on fb bits) triple as an IEEE pattern — the non-special branch of `toIeee` -/
def packIeee (eb mb : Nat) (s : Bool) (scale : Int) (fb frac : Nat) : Nat :=
  (if s then 1 else 0) * 2 ^ (eb + mb) + (scale + ((2 : Int) ^ (eb - 1) - 1)).toNat * 2 ^ mb + frac * 2 ^ (mb - fb)

/-- Re-extraction of a packed normal number returns the triple it was built from (fraction left-aligned to mb bits):
    all eb, mb, fb ≤ mb, frac < 2^fb, biased exponent in [1, 2^eb − 2]. -/
theorem C04_pack_classify (eb mb : Nat) (s : Bool) (scale : Int) (fb frac : Nat)
    (hfb : fb ≤ mb) (hfr : frac < 2 ^ fb)
    (hlo : 1 ≤ scale + ((2 : Int) ^ (eb - 1) - 1)) (hhi : scale + ((2 : Int) ^ (eb - 1) - 1) ≤ (2 : Int) ^ eb - 2) :
    classifyIeee eb mb (packIeee eb mb s scale fb frac) = .fin s scale (frac * 2 ^ (mb - fb)) := by
  unfold packIeee classifyIeee
  simp only
  generalize hB : (2 : Int) ^ (eb - 1) - 1 = B at *
  have hE : ∃ Eb : Nat, (scale + B).toNat = Eb ∧ (Eb : Int) = scale + B ∧ 1 ≤ Eb ∧ Eb + 2 ≤ 2 ^ eb := by
    refine ⟨(scale + B).toNat, rfl, by omega, by omega, ?_⟩
    have : ((2 ^ eb : Nat) : Int) = (2 : Int) ^ eb := by push_cast; rfl
    omega
  obtain ⟨Eb, hEb, hEbz, hE1, hE2⟩ := hE
  rw [hEb]
  have hF : frac * 2 ^ (mb - fb) < 2 ^ mb := by
    have : 2 ^ mb = 2 ^ fb * 2 ^ (mb - fb) := by rw [← Nat.pow_add]; congr 1; omega
    rw [this]; exact Nat.mul_lt_mul_of_pos_right hfr (Nat.two_pow_pos _)
  set F := frac * 2 ^ (mb - fb) with hFdef
  set S : Nat := if s then 1 else 0 with hS
  have hSle : S ≤ 1 := by rw [hS]; split <;> omega
  have hpm : 0 < 2 ^ mb := Nat.two_pow_pos _
  have hpe : 0 < 2 ^ eb := Nat.two_pow_pos _
  have hsplit : 2 ^ (eb + mb) = 2 ^ eb * 2 ^ mb := Nat.pow_add ..
  -- the three fields
  have hM : (S * 2 ^ (eb + mb) + Eb * 2 ^ mb + F) % 2 ^ mb = F := by
    rw [hsplit]
    have : S * (2 ^ eb * 2 ^ mb) + Eb * 2 ^ mb + F = F + 2 ^ mb * (S * 2 ^ eb + Eb) := by ring
    rw [this, Nat.add_mul_mod_self_left, Nat.mod_eq_of_lt hF]
  have hEf : ((S * 2 ^ (eb + mb) + Eb * 2 ^ mb + F) >>> mb) % 2 ^ eb = Eb := by
    rw [Nat.shiftRight_eq_div_pow, hsplit]
    have : S * (2 ^ eb * 2 ^ mb) + Eb * 2 ^ mb + F = F + 2 ^ mb * (Eb + 2 ^ eb * S) := by ring
    rw [this, Nat.add_mul_div_left _ _ hpm, Nat.div_eq_of_lt hF, Nat.zero_add, Nat.add_mul_mod_self_left,
      Nat.mod_eq_of_lt (by omega)]
  have hSg : (S * 2 ^ (eb + mb) + Eb * 2 ^ mb + F).testBit (eb + mb) = s := by
    rw [Nat.testBit_eq_decide_div_mod_eq]
    have hrest : Eb * 2 ^ mb + F < 2 ^ (eb + mb) := by
      rw [hsplit]
      have : (Eb + 1) * 2 ^ mb ≤ 2 ^ eb * 2 ^ mb := Nat.mul_le_mul_right _ (by omega)
      have : (Eb + 1) * 2 ^ mb = Eb * 2 ^ mb + 2 ^ mb := by ring
      omega
    have : S * 2 ^ (eb + mb) + Eb * 2 ^ mb + F = (Eb * 2 ^ mb + F) + 2 ^ (eb + mb) * S := by ring
    rw [this, Nat.add_mul_div_left _ _ (Nat.two_pow_pos _), Nat.div_eq_of_lt hrest, Nat.zero_add]
    rw [hS]; cases s <;> simp
  rw [hM, hEf, hSg]
  have h1 : ¬ Eb = 2 ^ eb - 1 := by omega
  have h2 : ¬ Eb = 0 := by omega
  simp only [h1, h2, if_false]
  congr 1
  omega

/-- The packed pattern denotes exactly the triple's value (so to_double() is exact under the guard). -/
theorem C04_pack_value (eb mb : Nat) (s : Bool) (scale : Int) (fb frac : Nat)
    (hfb : fb ≤ mb) (hfr : frac < 2 ^ fb)
    (hlo : 1 ≤ scale + ((2 : Int) ^ (eb - 1) - 1)) (hhi : scale + ((2 : Int) ^ (eb - 1) - 1) ≤ (2 : Int) ^ eb - 2) :
    ieeeVal eb mb (packIeee eb mb s scale fb frac)
      = some (let m : ℚ := (1 + (frac : ℚ) / ((2 ^ fb : Nat) : ℚ)) * pow2 scale; if s then -m else m) := by
  have hc := C04_pack_classify eb mb s scale fb frac hfb hfr hlo hhi
  have := C03_classifyIeee_exact' eb mb _ s scale _ hc
  rw [this]
  congr 1
  unfold srcVal'
  have hmb : (2 ^ mb : Nat) = 2 ^ fb * 2 ^ (mb - fb) := by rw [← Nat.pow_add]; congr 1; omega
  have : ((frac * 2 ^ (mb - fb) : Nat) : ℚ) / ((2 ^ mb : Nat) : ℚ) = (frac : ℚ) / ((2 ^ fb : Nat) : ℚ) := by
    rw [hmb]; push_cast
    have p1 : (0 : ℚ) < 2 ^ (mb - fb) := by positivity
    have p2 : (0 : ℚ) < 2 ^ fb := by positivity
    field_simp
  simp only [this]

/-- non-vacuity: posit-like triple (+, scale 3, frac 0b101 on 3 bits) packed as binary64 is 0x402a000000000000 = 13.0 -/
example : packIeee 11 52 false 3 3 5 = 0x402a000000000000 := by decide

/-- the model of to_double()/to_float() on a non-special encoding IS `packIeee` of the decoded triple -/
theorem C04_toIeee_eq_pack (n es eb mb a : Nat) (h0 : a % 2 ^ n ≠ 0) (h1 : a % 2 ^ n ≠ 2 ^ (n - 1)) :
    toIeee n es eb mb a =
      packIeee eb mb (decode n es (a % 2 ^ n)).sign (decode n es (a % 2 ^ n)).scale
        (decode n es (a % 2 ^ n)).fb (decode n es (a % 2 ^ n)).frac := by
  unfold toIeee packIeee
  simp only [h0, h1, if_false]

/-- special encodings: zero reads back as +0.0, NaR as a quiet NaN pattern -/
theorem C04_toIeee_special (n es eb mb : Nat) (hn : 0 < n) (hmb : 0 < mb) :
    toIeee n es eb mb 0 = 0 ∧ ieeeIsNaN eb mb (toIeee n es eb mb (2 ^ (n - 1))) = true := by
  have hlt : 2 ^ (n - 1) < 2 ^ n := Nat.pow_lt_pow_right (by decide) (by omega)
  have hp : 0 < 2 ^ (n - 1) := Nat.two_pow_pos _
  refine ⟨by unfold toIeee; simp, ?_⟩
  unfold toIeee ieeeIsNaN
  simp only [Nat.mod_eq_of_lt hlt]
  rw [if_neg (by omega)]
  simp only [if_true]
  have hq : 2 ^ (mb - 1) < 2 ^ mb := Nat.pow_lt_pow_right (by decide) (by omega)
  have hpe : 0 < 2 ^ eb := Nat.two_pow_pos _
  have hdisj : ((2 ^ eb - 1) <<< mb ||| 2 ^ (mb - 1)) = (2 ^ eb - 1) * 2 ^ mb + 2 ^ (mb - 1) := by
    rw [Nat.shiftLeft_eq, Nat.mul_comm]
    exact (Nat.two_pow_add_eq_or_of_lt hq _).symm ▸ rfl
  rw [hdisj]
  have e1 : ((2 ^ eb - 1) * 2 ^ mb + 2 ^ (mb - 1)) >>> mb = 2 ^ eb - 1 := by
    rw [Nat.shiftRight_eq_div_pow, Nat.add_comm, Nat.mul_comm, Nat.add_mul_div_left _ _ (Nat.two_pow_pos _),
      Nat.div_eq_of_lt hq, Nat.zero_add]
  have e2 : ((2 ^ eb - 1) * 2 ^ mb + 2 ^ (mb - 1)) % 2 ^ mb = 2 ^ (mb - 1) := by
    rw [Nat.add_comm, Nat.mul_comm, Nat.add_mul_mod_self_left, Nat.mod_eq_of_lt hq]
  rw [e1, e2, Nat.mod_eq_of_lt (by omega)]
  have : 2 ^ (mb - 1) ≠ 0 := by positivity
  simp [this]

/-! ### the full read-back statement (uses C01 `decode_value`, `convert_correct` and uniqueness of the rounding) -/

section
open UVerif.Posit

/-- **to_double()/to_float() is exact and round-trips.** For every posit configuration and every real-valued non-zero
    encoding whose fraction fits the native mantissa (`fbitsOf n es ≤ mb`) and whose scale is a normal native exponent,
    the native pattern denotes exactly the posit's value, and converting it back yields the original encoding. -/
theorem C04_posit_native_roundtrip (n es eb mb a : Nat) (hn : 2 ≤ n) (ha : a < 2 ^ n) (h0 : a ≠ 0)
    (hnar : a ≠ 2 ^ (n - 1)) (hfb : fbitsOf n es ≤ mb)
    (hlo : 1 ≤ (decode n es a).scale + ((2 : Int) ^ (eb - 1) - 1))
    (hhi : (decode n es a).scale + ((2 : Int) ^ (eb - 1) - 1) ≤ (2 : Int) ^ eb - 2) :
    ieeeVal eb mb (toIeee n es eb mb a) = positVal n es a ∧
    fromSrc n es mb (classifyIeee eb mb (toIeee n es eb mb a)) = a := by
  obtain ⟨hv, hz, hi, hf, hfbeq, ht⟩ := decode_value n es a hn ha h0 hnar
  have hmod : a % 2 ^ n = a := Nat.mod_eq_of_lt ha
  have hpk := C04_toIeee_eq_pack n es eb mb a (by rw [hmod]; exact h0) (by rw [hmod]; exact hnar)
  rw [hmod] at hpk
  set v := decode n es a with hvdef
  have hfb' : v.fb ≤ mb := by rw [hfbeq]; exact hfb
  have hval := C04_pack_value eb mb v.sign v.scale v.fb v.frac hfb' hf hlo hhi
  have hcls := C04_pack_classify eb mb v.sign v.scale v.fb v.frac hfb' hf hlo hhi
  rw [hpk]
  constructor
  · rw [hval, hv]
    congr 1
    unfold Val.toRat
    simp only [hz, Bool.false_eq_true, if_false]
  · rw [hcls]
    unfold fromSrc
    -- the re-extracted triple has the same value; convert_ of it is the unique correct rounding of that value, and so is `a`
    have hF : v.frac * 2 ^ (mb - v.fb) < 2 ^ mb := by
      have : 2 ^ mb = 2 ^ v.fb * 2 ^ (mb - v.fb) := by rw [← Nat.pow_add]; congr 1; omega
      rw [this]; exact Nat.mul_lt_mul_of_pos_right hf (Nat.two_pow_pos _)
    have hr := convert_correct n es hn v.sign v.scale mb (v.frac * 2 ^ (mb - v.fb)) hF
    have hsame : tripleVal v.sign v.scale mb (v.frac * 2 ^ (mb - v.fb)) = tripleVal v.sign v.scale v.fb v.frac := by
      unfold tripleVal
      congr 2
      have : (2 : ℚ) ^ mb = 2 ^ v.fb * 2 ^ (mb - v.fb) := by rw [← pow_add]; congr 1; omega
      rw [this]; push_cast
      have p1 : (0 : ℚ) < 2 ^ (mb - v.fb) := by positivity
      have p2 : (0 : ℚ) < 2 ^ v.fb := by positivity
      field_simp
    have hs := nearestB_self n es a hn ha _ hv
    rw [ht] at hs
    unfold tripleVal at hr hs hsame
    rw [hsame] at hr
    have hfr : (0 : ℚ) ≤ (v.frac : ℚ) / 2 ^ v.fb := by positivity
    have hfr1 : (v.frac : ℚ) / 2 ^ v.fb < 1 := by rw [div_lt_one (by positivity)]; exact_mod_cast hf
    exact nearestB_unique n es hn _ _ _ hfr hfr1 _ _ (convert_raw_lt n es (by omega) _ _ _ _) ha hr hs

/-- non-vacuity: posit<32,2> 0x4d3c0001 through binary64 (27 fraction bits ≤ 52, scale 1) -/
example : fbitsOf 32 2 ≤ 52 ∧ (decode 32 2 0x4d3c0001).scale = 1 := by decide

end

/-! ### posit → native integer: `to_integer<Int>()` (posit_impl.hpp after the repair of D23) -/

section
open UVerif.Posit UVerif.ConvPosInt

/-- `z` is a value of the native integer type with `digits` value bits (`numeric_limits<Int>::digits`), signed or unsigned -/
def C04IntFits (digits : ℕ) (sgn : Bool) (z : ℤ) : Prop :=
  (if sgn then -((2 ^ digits : ℕ) : ℤ) else 0) ≤ z ∧ z < ((2 ^ digits : ℕ) : ℤ)

instance (digits : ℕ) (sgn : Bool) (z : ℤ) : Decidable (C04IntFits digits sgn z) := by
  unfold C04IntFits; infer_instance

/-- **posit → integer is truncation toward zero.** For every posit configuration (n ≥ 2, any es — any number of fraction
    bits), every integer type (any `digits`, signed or unsigned) and every real-valued non-zero encoding whose exact value
    truncated toward zero fits the type, `to_integer<Int>()` returns exactly that integer. (Before the repair the casts
    went through double / float / long double and this was false for fbits > 52 / 23 / 63: finding D23.) -/
theorem C04_posit_to_integer_trunc (n es digits : ℕ) (sgn : Bool) (a : ℕ) (hn : 2 ≤ n) (ha : a < 2 ^ n) (h0 : a ≠ 0)
    (hnar : a ≠ 2 ^ (n - 1)) (x : ℚ) (hx : positVal n es a = some x) (hfit : C04IntFits digits sgn (truncZ x)) :
    toInteger n es digits sgn a = some (truncZ x) := by
  obtain ⟨hv, _, _, hf, _, ht⟩ := decode_value n es a hn ha h0 hnar
  rw [hx] at hv
  injection hv with hv
  have htz := truncZ_tripleVal (decode n es a).sign (decode n es a).scale (decode n es a).fb (decode n es a).frac
  rw [← ht, ← hv] at htz
  rw [toInteger_shape n es digits sgn a ha h0 hnar]
  unfold C04IntFits at hfit
  rw [htz] at hfit ⊢
  generalize hM : truncMag (decode n es a).scale (decode n es a).fb (decode n es a).frac = M at *
  generalize (decode n es a).sign = sg at hfit ⊢
  by_cases hneg : (decode n es a).scale < 0
  · have hM0 : M = 0 := by rw [← hM]; exact truncMag_neg hneg hf
    subst hM0
    simp [hneg]
  · obtain ⟨hlo, hhi⟩ := truncMag_bounds (sc := (decode n es a).scale) (by omega) hf
    rw [hM] at hlo hhi
    rw [if_neg hneg]
    have hpd : (0 : ℤ) < ((2 ^ digits : ℕ) : ℤ) := by exact_mod_cast Nat.two_pow_pos digits
    by_cases hsat : (decode n es a).scale ≥ (digits : ℤ)
    · have hge : 2 ^ digits ≤ 2 ^ (decode n es a).scale.toNat := Nat.pow_le_pow_right (by decide) (by omega)
      have hgeZ : ((2 ^ digits : ℕ) : ℤ) ≤ (M : ℤ) := by exact_mod_cast le_trans hge hlo
      rw [if_pos hsat]
      cases sg <;> cases sgn <;> simp only [if_true, if_false, Bool.false_eq_true] at hfit ⊢
      all_goals (congr 1; omega)
    · have hle : 2 ^ ((decode n es a).scale.toNat + 1) ≤ 2 ^ digits := Nat.pow_le_pow_right (by decide) (by omega)
      have h1 : (1 : ℤ) ≤ (M : ℤ) := by exact_mod_cast le_trans Nat.one_le_two_pow hlo
      rw [if_neg hsat]
      cases sg <;> cases sgn <;> simp only [if_true, if_false, Bool.false_eq_true] at hfit ⊢
      all_goals first | rfl | (exfalso; omega)

/-- **signed integer types: every real value is covered.** The result is the exact value truncated toward zero, clamped to
    [−2^digits, 2^digits − 1] — no hypothesis on the magnitude. -/
theorem C04_posit_to_integer_signed_clamp (n es digits : ℕ) (a : ℕ) (hn : 2 ≤ n) (ha : a < 2 ^ n) (h0 : a ≠ 0)
    (hnar : a ≠ 2 ^ (n - 1)) (x : ℚ) (hx : positVal n es a = some x) :
    toInteger n es digits true a = some (max (-((2 ^ digits : ℕ) : ℤ)) (min (((2 ^ digits : ℕ) : ℤ) - 1) (truncZ x))) := by
  by_cases hfit : C04IntFits digits true (truncZ x)
  · rw [C04_posit_to_integer_trunc n es digits true a hn ha h0 hnar x hx hfit]
    unfold C04IntFits at hfit
    simp only [if_true] at hfit
    congr 1
    omega
  · obtain ⟨hv, _, _, hf, _, ht⟩ := decode_value n es a hn ha h0 hnar
    rw [hx] at hv
    injection hv with hv
    have htz := truncZ_tripleVal (decode n es a).sign (decode n es a).scale (decode n es a).fb (decode n es a).frac
    rw [← ht, ← hv] at htz
    rw [toInteger_shape n es digits true a ha h0 hnar]
    unfold C04IntFits at hfit
    rw [htz] at hfit ⊢
    generalize hM : truncMag (decode n es a).scale (decode n es a).fb (decode n es a).frac = M at *
    generalize (decode n es a).sign = sg at hfit ⊢
    have hpd : (0 : ℤ) < ((2 ^ digits : ℕ) : ℤ) := by exact_mod_cast Nat.two_pow_pos digits
    by_cases hneg : (decode n es a).scale < 0
    · have hM0 : M = 0 := by rw [← hM]; exact truncMag_neg hneg hf
      subst hM0
      exfalso; apply hfit
      cases sg <;> simp
    · obtain ⟨hlo, hhi⟩ := truncMag_bounds (sc := (decode n es a).scale) (by omega) hf
      rw [hM] at hlo hhi
      rw [if_neg hneg]
      by_cases hsat : (decode n es a).scale ≥ (digits : ℤ)
      · have hge : 2 ^ digits ≤ 2 ^ (decode n es a).scale.toNat := Nat.pow_le_pow_right (by decide) (by omega)
        have hgeZ : ((2 ^ digits : ℕ) : ℤ) ≤ (M : ℤ) := by exact_mod_cast le_trans hge hlo
        rw [if_pos hsat]
        cases sg <;> simp only [if_true, if_false, Bool.false_eq_true] at hfit ⊢
        all_goals (congr 1; omega)
      · have hle : 2 ^ ((decode n es a).scale.toNat + 1) ≤ 2 ^ digits := Nat.pow_le_pow_right (by decide) (by omega)
        have hltZ : (M : ℤ) < ((2 ^ digits : ℕ) : ℤ) := by exact_mod_cast lt_of_lt_of_le hhi hle
        exfalso; apply hfit
        cases sg <;> simp only [if_true, if_false, Bool.false_eq_true] <;> omega

/-- zero converts to 0 for every type; its exact value is 0 -/
theorem C04_posit_to_integer_zero (n es digits : ℕ) (sgn : Bool) :
    toInteger n es digits sgn 0 = some 0 ∧ positVal n es 0 = some 0 ∧ truncZ 0 = 0 := by
  refine ⟨by unfold toInteger; simp, by unfold positVal; simp, by unfold truncZ; simp [Rat.floor]⟩

/-- the six integer kinds of the transcript (`to_short` … `to_ulong_long` on LP64) -/
theorem C04_posit_to_int_kind (n es : ℕ) (kind : String) (digits : ℕ) (sgn : Bool) (hk : intDigits kind = some (digits, sgn))
    (a : ℕ) (hn : 2 ≤ n) (ha : a < 2 ^ n) (h0 : a ≠ 0) (hnar : a ≠ 2 ^ (n - 1)) (x : ℚ) (hx : positVal n es a = some x)
    (hfit : C04IntFits digits sgn (truncZ x)) :
    toIntKind n es kind a = some (truncZ x) := by
  unfold toIntKind
  rw [hk]
  exact C04_posit_to_integer_trunc n es digits sgn a hn ha h0 hnar x hx hfit

/-- the old witness of D23: posit<64,3> 0xc000000000000008 = −0.99999999999999997… ↦ 0 for int and unsigned
    (`int(to_double())` returned −1) -/
example : toInteger 64 3 31 true 0xc000000000000008 = some 0 ∧ toInteger 64 3 32 false 0xc000000000000008 = some 0 := by decide

/-- non-trivial positive instances, posit<64,3> (58 fraction bits): 2^31 − 2^-25 ↦ 2147483647 (the double detour gave 2^31,
    out of range for int); 123456789 − 2^-29 ↦ 123456788 (the detour gave 123456789); the negative of the first ↦ −2147483647;
    the hypotheses of `C04_posit_to_integer_trunc` hold there (the truncated value, computed on naturals, fits int) -/
example : toInteger 64 3 31 true 0x7b7fffffffffffff = some 2147483647 ∧ toInteger 64 3 31 true 0x796b79a29fffffff = some 123456788 ∧
    toInteger 64 3 31 true 0x8480000000000001 = some (-2147483647) ∧ toInteger 64 3 32 false 0x7b80000000000001 = some 2147483648 ∧
    C04IntFits 31 true (truncDec 64 3 0x7b7fffffffffffff) ∧ ¬ C04IntFits 31 true (truncDec 64 3 0x7b80000000000000) := by decide

/-- saturation (signed, `C04_posit_to_integer_signed_clamp`): 2^31 and 2^31 + 2^-24 ↦ INT_MAX, −2^31 ↦ INT_MIN (exact) -/
example : toInteger 64 3 31 true 0x7b80000000000000 = some 2147483647 ∧ toInteger 64 3 31 true 0x7b80000000000001 = some 2147483647 ∧
    toInteger 64 3 31 true 0x8480000000000000 = some (-2147483648) := by decide

example : toIntKind 64 3 "i32" 0xc000000000000008 = some 0 ∧ toIntKind 64 3 "u64" 0x7b80000000000001 = some 2147483648 := by decide

end

