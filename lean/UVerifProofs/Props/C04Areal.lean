/-
  Property C04, areal clause — `areal::to_native<double|float>()` returns the value of the encoding with the uncertainty bit
  ignored (the lower bound of the encoded interval; NaN ↦ NaN, ±inf ↦ ±inf, the sign of zero is kept).

  Model: `UVerif.Areal.Model.toNative` — the loop over the fraction bits with native additions, the power-of-two factor and the
  native multiplication, each native operation being IEEE round-to-nearest-even on bit patterns (`IeeeBits.add`, `fmul`).

  Proved here
    C04_areal_lower_bound       for EVERY configuration and native format satisfying `NativeFits` (all intermediates representable)
                                and EVERY encoding: `toNativeOk` — finite encodings read back as exactly the value of the encoding
                                with the ubit cleared and with its sign (incl. ±0), ±inf ↦ ±inf, NaN ↦ NaN
    C04_areal_lower_bound_f64   instance: double, every areal<nbits,es,bt> with es ≤ 7 and fbits ≤ 52
    C04_areal_lower_bound_f32   instance: float,  every areal<nbits,es,bt> with es ≤ 7 and fbits ≤ 23
    C04_areal_specials          the special encodings written out (every configuration)
    C04_areal_cfg_*             finite regression anchors by kernel evaluation (not the property)
    C04_areal_roundtrip_f64     the round-trip half for double: for every areal<nbits,es,bt> with es ≤ 7, fbits ≤ 50, nbits ≤ 64 and
                                every encoding that is not an inf / NaN pattern: areal(to_native(b)) = b with the ubit cleared
                                (through C18_encloses_every_f64 and the uniqueness of the enclosing encoding)
    C04_areal_roundtrip_inf_qnan  ±inf and the quiet-NaN encoding round-trip (every configuration)
    C04_areal_roundtrip_snan                  the signalling-NaN encoding round-trips too (D13 repaired: every NaN payload is recognised)
  Not proved
    the float round trip (same argument with the float instance of the region lemma; checked per `tof` line by the driver).
  es ≥ 8 is outside: `1ull << -exponent` has a shift count ≥ 64 there (undefined behaviour, D13) — never executed.
-/
import UVerif.Spec.Areal
import UVerif.Model.Areal
import UVerifProofs.Lemmas.ArealNative
import UVerifProofs.Lemmas.ArealOrder
import UVerifProofs.Lemmas.ArealRoundTrip

set_option linter.unusedSimpArgs false
set_option linter.unusedVariables false
set_option linter.unnecessarySeqFocus false

open UVerif UVerif.Areal UVerif.ArealLemmas UVerif.IeeeLemmas
open UVerif.IeeeBits (Fmt f64 f32)

/-- what the property demands of `to_native` on one encoding -/
def toNativeOk (c : Model.Cfg) (f : Fmt) (b : Nat) : Bool :=
  let sc : Cfg := ⟨c.nbits, c.es⟩
  let d := Model.toNative c f b
  let lower := b - b % 2
  if isNaN sc b then IeeeBits.isNaN f d
  else if isInf sc b then IeeeBits.isInf f d && IeeeBits.signOf f d == signOf sc b
  else IeeeBits.isFinite f d && IeeeBits.signOf f d == signOf sc b &&
       dyadic (IeeeBits.mant f d) (IeeeBits.ulpExp f d) == magVal sc (magOf sc lower)

/-- C04, areal clause: for every configuration whose values fit the native format (`NativeFits`), `to_native` returns the
    value of the encoding with the uncertainty bit ignored, with the sign of the encoding; ±inf ↦ ±inf, NaN ↦ NaN. -/
theorem C04_areal_lower_bound (c : Model.Cfg) (f : Fmt) (hfit : NativeFits c f) (hF2 : 2 ≤ f.fbits)
    (hes : 1 ≤ c.es) (hn : c.es + 3 ≤ c.nbits) (b : Nat) (hb : b < 2 ^ c.nbits) :
    toNativeOk c f b = true := by
  have hf := hfit.ebits
  let sc : Cfg := ⟨c.nbits, c.es⟩
  obtain ⟨hF1, hN1, hN, hM, hNN⟩ := size_facts sc hes hn
  have hnb : sc.nbits = c.nbits := rfl
  rw [hnb] at hN hNN
  have h4 : 4 ≤ 2 ^ (c.nbits - 1) := by
    calc 4 = 2 ^ 2 := rfl
      _ ≤ 2 ^ (c.nbits - 1) := Nat.pow_le_pow_right (by omega) (by omega)
  have hmaglt : b % 2 ^ (c.nbits - 1) < 2 ^ (c.nbits - 1) := Nat.mod_lt _ (Nat.two_pow_pos _)
  unfold toNativeOk
  simp only []
  have hisNaN : isNaN sc b = decide (b % 2 ^ (c.nbits - 1) = 2 ^ (c.nbits - 1) - 1) := by
    unfold isNaN magOf nanMag; simp only [sc]; rw [Bool.eq_iff_iff]; simp
  have hisInf : isInf sc b = decide (b % 2 ^ (c.nbits - 1) = 2 ^ (c.nbits - 1) - 2) := by
    unfold isInf magOf infMag; simp only [sc]; rw [Bool.eq_iff_iff]; simp
  change (if isNaN sc b then _ else if isInf sc b then _ else _) = true
  rw [hisNaN, hisInf]
  obtain ⟨a1, a2⟩ := eAll_pos f hf
  by_cases hnan : b % 2 ^ (c.nbits - 1) = 2 ^ (c.nbits - 1) - 1
  · -- NaN
    simp only [hnan, decide_true, if_true]
    have hd : Model.toNative c f b = f.eAll * 2 ^ f.fbits +
        (if b.testBit (c.nbits - 1) then 2 ^ (f.fbits - 2) else 2 ^ (f.fbits - 1)) := by
      unfold Model.toNative
      simp only [hnan, beq_iff_eq, show ¬ (2 ^ (c.nbits - 1) - 1 = 0) by omega, if_false, if_true]
    rw [hd]
    have p1 : 2 ^ (f.fbits - 2) < 2 ^ f.fbits := Nat.pow_lt_pow_right (by omega) (by omega)
    have p2 : 2 ^ (f.fbits - 1) < 2 ^ f.fbits := Nat.pow_lt_pow_right (by omega) (by omega)
    have hp : (if b.testBit (c.nbits - 1) then 2 ^ (f.fbits - 2) else 2 ^ (f.fbits - 1)) < 2 ^ f.fbits := by
      split <;> assumption
    have hp0 : 0 < (if b.testBit (c.nbits - 1) then 2 ^ (f.fbits - 2) else 2 ^ (f.fbits - 1)) := by
      split <;> exact Nat.two_pow_pos _
    obtain ⟨q1, q2, q3⟩ := pattern_fields f false (E := f.eAll) a2 hp
    simp only [Bool.false_eq_true, if_false, Nat.zero_add] at q1 q2 q3
    unfold IeeeBits.isNaN
    rw [q1, q2]; simp; omega
  simp only [hnan, decide_false, Bool.false_eq_true, if_false]
  by_cases hinf : b % 2 ^ (c.nbits - 1) = 2 ^ (c.nbits - 1) - 2
  · -- infinity
    simp only [hinf, decide_true, if_true]
    have hd : Model.toNative c f b = IeeeBits.infBits f (b.testBit (c.nbits - 1)) := by
      unfold Model.toNative
      simp only [hinf, beq_iff_eq, show ¬ (2 ^ (c.nbits - 1) - 2 = 0) by omega,
        show ¬ (2 ^ (c.nbits - 1) - 2 = 2 ^ (c.nbits - 1) - 1) by omega, if_false, if_true]
    rw [hd]
    unfold IeeeBits.infBits
    obtain ⟨q1, q2, q3⟩ := pattern_fields f (b.testBit (c.nbits - 1)) (E := f.eAll) (fr := 0) a2 (Nat.two_pow_pos _)
    simp only [Nat.add_zero] at q1 q2 q3
    unfold IeeeBits.isInf
    rw [q1, q2, q3]; simp [signOf, sc]
  simp only [hinf, decide_false, Bool.false_eq_true, if_false]
  -- finite encodings
  obtain ⟨he, hfr, hdec⟩ := enc_decompose sc hes hn b hb
  have hFF : sc.fbits = c.fbits := rfl
  have hEE : sc.es = c.es := rfl
  -- magnitude in terms of the fields
  have hT : (expOf sc b + 1) * 2 ^ (sc.fbits + 1) ≤ 2 ^ sc.es * 2 ^ (sc.fbits + 1) := Nat.mul_le_mul_right _ (by omega)
  rw [Nat.add_mul, Nat.one_mul, ← hN] at hT
  have hu : (if b.testBit 0 then 1 else 0 : Nat) ≤ 1 := by split <;> omega
  have hmag : b % 2 ^ (c.nbits - 1) =
      expOf sc b * 2 ^ (sc.fbits + 1) + 2 * fracOf sc b + (if b.testBit 0 then 1 else 0) := by
    have hlt : expOf sc b * 2 ^ (sc.fbits + 1) + 2 * fracOf sc b + (if b.testBit 0 then 1 else 0) < 2 ^ (c.nbits - 1) := by
      rw [hM] at hT ⊢; omega
    conv_lhs => rw [hdec]
    rw [hnb]
    split
    · rw [Nat.add_assoc, Nat.add_assoc, Nat.add_mod_left, ← Nat.add_assoc]; exact Nat.mod_eq_of_lt hlt
    · rw [Nat.zero_add]; exact Nat.mod_eq_of_lt hlt
  have hnotlast : ¬ (expOf sc b = 2 ^ sc.es - 1 ∧ fracOf sc b = 2 ^ sc.fbits - 1) := by
    rintro ⟨h1, h2⟩
    have hE2 : 1 ≤ 2 ^ sc.es := Nat.two_pow_pos _
    have hQ2 : 1 ≤ 2 ^ sc.fbits := Nat.two_pow_pos _
    have hval : expOf sc b * 2 ^ (sc.fbits + 1) + 2 * fracOf sc b = 2 ^ (c.nbits - 1) - 2 := by
      rw [h1, h2, hN, hM]
      have hk : (2 ^ sc.es - 1) * (2 * 2 ^ sc.fbits) + 2 * 2 ^ sc.fbits = 2 ^ sc.es * (2 * 2 ^ sc.fbits) := by
        have : 2 ^ sc.es = (2 ^ sc.es - 1) + 1 := by omega
        nth_rewrite 2 [this]; ring
      generalize (2 ^ sc.es - 1) * (2 * 2 ^ sc.fbits) = X at *
      generalize 2 ^ sc.es * (2 * 2 ^ sc.fbits) = Y at *
      omega
    rw [hval] at hmag
    rcases Nat.lt_or_ge 0 (if b.testBit 0 then 1 else 0 : Nat) with h | h
    · exact hnan (by omega)
    · exact hinf (by omega)
  have hb2 : b % 2 = if b.testBit 0 then 1 else 0 := by
    rw [Nat.testBit_zero]; rcases Nat.mod_two_eq_zero_or_one b with h | h <;> simp [h]
  have hlower : magOf sc (b - b % 2) = expOf sc b * 2 ^ (sc.fbits + 1) + 2 * fracOf sc b := by
    unfold magOf
    rw [hnb, hb2]
    have hlt : expOf sc b * 2 ^ (sc.fbits + 1) + 2 * fracOf sc b < 2 ^ (c.nbits - 1) := by
      rw [hM] at hT ⊢; omega
    have : b - (if b.testBit 0 then 1 else 0) =
        (if b.testBit (sc.nbits - 1) then 2 ^ (sc.nbits - 1) else 0) +
          (expOf sc b * 2 ^ (sc.fbits + 1) + 2 * fracOf sc b) := by omega
    rw [this, hnb]
    split
    · rw [Nat.add_mod_left]; exact Nat.mod_eq_of_lt hlt
    · rw [Nat.zero_add]; exact Nat.mod_eq_of_lt hlt
  have hmv := magVal_fields sc he hfr
  rw [hlower, hmv]
  by_cases hzero : b % 2 ^ (c.nbits - 1) = 0
  · -- ±0
    have hd : Model.toNative c f b = (if b.testBit (c.nbits - 1) then 2 ^ (f.ebits + f.fbits) else 0) := by
      unfold Model.toNative
      simp only [hzero, beq_self_eq_true, if_true]
    rw [hd]
    have he0 : expOf sc b = 0 := by
      rcases Nat.eq_zero_or_pos (expOf sc b) with h | h
      · exact h
      · exfalso
        have : 2 ^ (sc.fbits + 1) ≤ expOf sc b * 2 ^ (sc.fbits + 1) := Nat.le_mul_of_pos_left _ h
        have := Nat.two_pow_pos (sc.fbits + 1)
        omega
    have hf0 : fracOf sc b = 0 := by rw [he0] at hmag; omega
    obtain ⟨q1, q2, q3⟩ := pattern_fields f (b.testBit (c.nbits - 1)) (E := 0) (fr := 0) (Nat.two_pow_pos _) (Nat.two_pow_pos _)
    simp only [Nat.zero_mul, Nat.add_zero] at q1 q2 q3
    have hfin : IeeeBits.isFinite f (if b.testBit (c.nbits - 1) then 2 ^ (f.ebits + f.fbits) else 0) = true := by
      unfold IeeeBits.isFinite; rw [q1]; simp; omega
    have hm : IeeeBits.mant f (if b.testBit (c.nbits - 1) then 2 ^ (f.ebits + f.fbits) else 0) = 0 := by
      unfold IeeeBits.mant; rw [q1, q2]; simp
    rw [hfin, q3, hm, he0, hf0]
    simp [signOf, sc, latT, dyadic_def]
  · obtain ⟨t1, t2, t3⟩ := toNative_finite c f hfit hes hn b hb hzero hnan hinf
    rw [t1, t2]
    have : dyadic ((IeeeBits.mant f (Model.toNative c f b) : Nat) : Int) (IeeeBits.ulpExp f (Model.toNative c f b)) =
        (latT sc (expOf sc b) (fracOf sc b) : Rat) * pow2 (latE sc (expOf sc b)) := by
      rw [dyadic_def]; push_cast; exact t3
    rw [this]
    simp [signOf, sc]

/-- C04 areal clause for `double`: every areal<nbits,es,bt> with es ≤ 7 and fbits ≤ 52, every encoding -/
theorem C04_areal_lower_bound_f64 (c : Model.Cfg) (hes : 1 ≤ c.es) (hes7 : c.es ≤ 7) (hn : c.es + 3 ≤ c.nbits)
    (hF : c.fbits ≤ 52) (b : Nat) (hb : b < 2 ^ c.nbits) : toNativeOk c f64 b = true := by
  have hfit : NativeFits c f64 := by
    apply nativeFits_of_small_es c f64 hes hes7 (by decide) hF (by decide)
    · have : eMin f64 = -1074 := by decide
      rw [this]; omega
    · decide
  exact C04_areal_lower_bound c f64 hfit (by decide) hes hn b hb

/-- C04 areal clause for `float`: es ≤ 7 and fbits ≤ 23 -/
theorem C04_areal_lower_bound_f32 (c : Model.Cfg) (hes : 1 ≤ c.es) (hes7 : c.es ≤ 7) (hn : c.es + 3 ≤ c.nbits)
    (hF : c.fbits ≤ 23) (b : Nat) (hb : b < 2 ^ c.nbits) : toNativeOk c f32 b = true := by
  have hfit : NativeFits c f32 := by
    apply nativeFits_of_small_es c f32 hes hes7 (by decide) hF (by decide)
    · have : eMin f32 = -149 := by decide
      rw [this]; omega
    · decide
  exact C04_areal_lower_bound c f32 hfit (by decide) hes hn b hb

/-- C04, areal clause, round trip through `double`: for every areal<nbits,es,bt> with es ≤ 7, fbits ≤ 52 and every encoding
    that is not an inf / NaN pattern, converting `to_native<double>()` back gives the encoding with the ubit cleared
    (the lower bound of the interval is an exact areal value and is recovered exactly). -/
theorem C04_areal_roundtrip_f64 (c : Model.Cfg) (hes : 1 ≤ c.es) (hes7 : c.es ≤ 7) (hn : c.es + 3 ≤ c.nbits)
    (hw : 1 ≤ c.w) (hW : c.nbits ≤ 64) (hst : c.nrBlocks = 1 ∨ c.nrBlocks ≤ 65 / c.w) (hsr : c.fbits ≤ 52)
    (b : Nat) (hb : b < 2 ^ c.nbits)
    (hnan : b % 2 ^ (c.nbits - 1) ≠ 2 ^ (c.nbits - 1) - 1) (hinf : b % 2 ^ (c.nbits - 1) ≠ 2 ^ (c.nbits - 1) - 2) :
    Model.assignF64 c (Model.toNative c f64 b) = b - b % 2 := by
  let sc : Cfg := specCfg c
  obtain ⟨hF1, hN1, hN, hM, hNN⟩ := size_facts sc hes hn
  have hnb : sc.nbits = c.nbits := rfl
  have hFF : sc.fbits = c.fbits := rfl
  rw [hnb] at hN hNN
  obtain ⟨he, hfr, hdec⟩ := enc_decompose sc hes hn b hb
  have hb2 : b % 2 = if b.testBit 0 then 1 else 0 := by
    rw [Nat.testBit_zero]; rcases Nat.mod_two_eq_zero_or_one b with h | h <;> simp [h]
  have hlow : b - b % 2 = (if b.testBit (c.nbits - 1) then 2 ^ (c.nbits - 1) else 0) +
      (expOf sc b * 2 ^ (sc.fbits + 1) + 2 * fracOf sc b) + (if false then 1 else 0) := by
    rw [hb2]; simp only [Bool.false_eq_true, if_false, Nat.add_zero]
    rw [hnb] at hdec; omega
  -- magnitude in terms of the fields, and (e, f) is not the all-ones pair
  have hT : (expOf sc b + 1) * 2 ^ (sc.fbits + 1) ≤ 2 ^ sc.es * 2 ^ (sc.fbits + 1) := Nat.mul_le_mul_right _ (by omega)
  rw [Nat.add_mul, Nat.one_mul, ← hN] at hT
  have hu : (if b.testBit 0 then 1 else 0 : Nat) ≤ 1 := by split <;> omega
  have hmag : b % 2 ^ (c.nbits - 1) =
      expOf sc b * 2 ^ (sc.fbits + 1) + 2 * fracOf sc b + (if b.testBit 0 then 1 else 0) := by
    have hlt : expOf sc b * 2 ^ (sc.fbits + 1) + 2 * fracOf sc b + (if b.testBit 0 then 1 else 0) < 2 ^ (c.nbits - 1) := by
      rw [hM] at hT ⊢; omega
    conv_lhs => rw [hdec]
    rw [hnb]
    split
    · rw [Nat.add_assoc, Nat.add_assoc, Nat.add_mod_left, ← Nat.add_assoc]; exact Nat.mod_eq_of_lt hlt
    · rw [Nat.zero_add]; exact Nat.mod_eq_of_lt hlt
  have hnotlast : ¬ (expOf sc b = 2 ^ sc.es - 1 ∧ fracOf sc b = 2 ^ sc.fbits - 1) := by
    rintro ⟨h1, h2⟩
    have hE2 : 1 ≤ 2 ^ sc.es := Nat.two_pow_pos _
    have hQ2 : 1 ≤ 2 ^ sc.fbits := Nat.two_pow_pos _
    have hval : expOf sc b * 2 ^ (sc.fbits + 1) + 2 * fracOf sc b = 2 ^ (c.nbits - 1) - 2 := by
      rw [h1, h2, hN, hM]
      have hk : (2 ^ sc.es - 1) * (2 * 2 ^ sc.fbits) + 2 * 2 ^ sc.fbits = 2 ^ sc.es * (2 * 2 ^ sc.fbits) := by
        have : 2 ^ sc.es = (2 ^ sc.es - 1) + 1 := by omega
        nth_rewrite 2 [this]; ring
      generalize (2 ^ sc.es - 1) * (2 * 2 ^ sc.fbits) = X at *
      generalize 2 ^ sc.es * (2 * 2 ^ sc.fbits) = Y at *
      omega
    rw [hval] at hmag
    rcases Nat.lt_or_ge 0 (if b.testBit 0 then 1 else 0 : Nat) with h | h
    · exact hnan (by omega)
    · exact hinf (by omega)
  -- the lower bound is enclosed by the ubit-free encoding
  have henc2 := encloses_lattice sc hes hn (b.testBit (c.nbits - 1)) false he hfr hnotlast
    (magVal sc (expOf sc b * 2 ^ (sc.fbits + 1) + 2 * fracOf sc b)) (fun _ => rfl) (by intro h; cases h)
  rw [hnb] at henc2
  rw [← hlow] at henc2
  by_cases hzero : b % 2 ^ (c.nbits - 1) = 0
  · -- ±0
    have hd : Model.toNative c f64 b = (if b.testBit (c.nbits - 1) then 2 ^ (f64.ebits + f64.fbits) else 0) := by
      unfold Model.toNative
      simp only [hzero, beq_self_eq_true, if_true]
    have hbz : b - b % 2 = (if b.testBit (c.nbits - 1) then 2 ^ (c.nbits - 1) else 0) := by
      have he0 : expOf sc b * 2 ^ (sc.fbits + 1) + 2 * fracOf sc b = 0 := by omega
      rw [hlow, he0]; simp
    rw [hd, hbz]
    cases b.testBit (c.nbits - 1)
    · simp [Model.assignF64]
    · have e1 : (2 ^ (f64.ebits + f64.fbits) >>> 52) % 2048 = 0 := by decide
      have e2 : 2 ^ (f64.ebits + f64.fbits) % 2 ^ 52 = 0 := by decide
      have e3 : (2 ^ (f64.ebits + f64.fbits)).testBit 63 = true := by decide
      have e2' : 2 ^ (f64.ebits + f64.fbits) % 4503599627370496 = 0 := by decide
      simp only [if_true]
      unfold Model.assignF64 Model.signBit
      simp [e1, e2, e2', e3]
  · obtain ⟨t1, t2, t3⟩ := toNative_finite c f64
      (nativeFits_of_small_es c f64 hes hes7 (by decide) (by have : f64.fbits = 52 := rfl; omega) (by decide)
        (by have : eMin f64 = -1074 := by decide
            rw [this]; omega) (by decide))
      hes hn b hb hzero hnan hinf
    have henc1 := C18_encloses_every_f64 c (Model.toNative c f64 b) hes hn hw hW hst
    -- the source value of d is the lattice value with the sign of b
    obtain ⟨g1, g2, g3⟩ := f64_fields (Model.toNative c f64 b)
    have hsrc : srcOfF64 (Model.toNative c f64 b) =
        .fin (b.testBit (c.nbits - 1)) (magVal sc (expOf sc b * 2 ^ (sc.fbits + 1) + 2 * fracOf sc b)) := by
      unfold srcOfF64
      have hne : ¬ ((Model.toNative c f64 b >>> 52) % 2048 = 2047) := by
        rw [g1]
        unfold IeeeBits.isFinite at t1
        have : (f64.eAll : Nat) = 2047 := by decide
        rw [← this]; simpa using t1
      simp only [hne, if_false]
      rw [g3, t2, magVal_fields sc he hfr]
      congr 1
    rw [hsrc] at henc1
    exact encloses_unique sc hes hn _ _ _ _ henc1 henc2

/-- round trip of the inf patterns and of the quiet-NaN encoding (every configuration) -/
theorem C04_areal_roundtrip_inf_qnan (c : Model.Cfg) (hn : 4 ≤ c.nbits) (s : Bool) :
    Model.assignF64 c (Model.toNative c f64 (Model.setinf c s)) = Model.setinf c s ∧
    Model.assignF64 c (Model.toNative c f64 (Model.setnanQuiet c)) = Model.setnanQuiet c := by
  have h4 : 4 ≤ 2 ^ (c.nbits - 1) := by
    calc 4 = 2 ^ 2 := rfl
      _ ≤ 2 ^ (c.nbits - 1) := Nat.pow_le_pow_right (by omega) (by omega)
  have hN : 2 ^ c.nbits = 2 * 2 ^ (c.nbits - 1) := by
    rw [show c.nbits = (c.nbits - 1) + 1 by omega, Nat.pow_succ]; simp; ring
  have tb : ∀ y, y < 2 ^ (c.nbits - 1) → (2 ^ (c.nbits - 1) + y).testBit (c.nbits - 1) = true := by
    intro y hy; rw [Nat.testBit_two_pow_add_eq, Nat.testBit_lt_two_pow hy]; rfl
  have tb0 : ∀ y, y < 2 ^ (c.nbits - 1) → y.testBit (c.nbits - 1) = false := fun y hy => Nat.testBit_lt_two_pow hy
  have md : ∀ y, y < 2 ^ (c.nbits - 1) → (2 ^ (c.nbits - 1) + y) % 2 ^ (c.nbits - 1) = y := by
    intro y hy; rw [Nat.add_mod_left]; exact Nat.mod_eq_of_lt hy
  have i1 : Model.assignF64 c (IeeeBits.infBits f64 false) = Model.setinf c false := by
    unfold Model.assignF64
    have e1 : (IeeeBits.infBits f64 false >>> 52) % 2048 = 2047 := by decide
    have e2 : IeeeBits.infBits f64 false % 2 ^ 52 = 0 := by decide
    have e3 : (IeeeBits.infBits f64 false).testBit 63 = false := by decide
    have e2' : IeeeBits.infBits f64 false % 4503599627370496 = 0 := by decide
    simp [e1, e2, e2', e3]
  have i2 : Model.assignF64 c (IeeeBits.infBits f64 true) = Model.setinf c true := by
    unfold Model.assignF64
    have e1 : (IeeeBits.infBits f64 true >>> 52) % 2048 = 2047 := by decide
    have e2 : IeeeBits.infBits f64 true % 2 ^ 52 = 0 := by decide
    have e3 : (IeeeBits.infBits f64 true).testBit 63 = true := by decide
    have e2' : IeeeBits.infBits f64 true % 4503599627370496 = 0 := by decide
    simp [e1, e2, e2', e3]
  have i3 : Model.assignF64 c (f64.eAll * 2 ^ f64.fbits + 2 ^ (f64.fbits - 1)) = Model.setnanQuiet c := by
    unfold Model.assignF64
    have e1 : ((f64.eAll * 2 ^ f64.fbits + 2 ^ (f64.fbits - 1)) >>> 52) % 2048 = 2047 := by decide
    have e2 : (f64.eAll * 2 ^ f64.fbits + 2 ^ (f64.fbits - 1)) % 2 ^ 52 = 0x8000000000000 := by decide
    have e2' : (f64.eAll * 2 ^ f64.fbits + 2 ^ (f64.fbits - 1)) % 4503599627370496 = 2251799813685248 := by decide
    simp [e1, e2, e2']
  constructor
  · cases s
    · have hd : Model.toNative c f64 (Model.setinf c false) = IeeeBits.infBits f64 false := by
        unfold Model.toNative Model.setinf
        have h1 : (2 ^ (c.nbits - 1) - 2) % 2 ^ (c.nbits - 1) = 2 ^ (c.nbits - 1) - 2 := Nat.mod_eq_of_lt (by omega)
        have h2 := tb0 (2 ^ (c.nbits - 1) - 2) (by omega)
        simp [h1, h2, show ¬ (2 ^ (c.nbits - 1) - 2 = 0) by omega,
          show ¬ (2 ^ (c.nbits - 1) - 2 = 2 ^ (c.nbits - 1) - 1) by omega]
      rw [hd, i1]
    · have hd : Model.toNative c f64 (Model.setinf c true) = IeeeBits.infBits f64 true := by
        unfold Model.toNative Model.setinf
        have hv : 2 ^ c.nbits - 2 = 2 ^ (c.nbits - 1) + (2 ^ (c.nbits - 1) - 2) := by omega
        have h1 := md (2 ^ (c.nbits - 1) - 2) (by omega)
        have h2 := tb (2 ^ (c.nbits - 1) - 2) (by omega)
        simp only [if_true, hv, h1, h2]
        simp [show ¬ (2 ^ (c.nbits - 1) - 2 = 0) by omega,
          show ¬ (2 ^ (c.nbits - 1) - 2 = 2 ^ (c.nbits - 1) - 1) by omega]
      rw [hd, i2]
  · have hd : Model.toNative c f64 (Model.setnanQuiet c) = f64.eAll * 2 ^ f64.fbits + 2 ^ (f64.fbits - 1) := by
      unfold Model.toNative Model.setnanQuiet
      have h1 : (2 ^ (c.nbits - 1) - 1) % 2 ^ (c.nbits - 1) = 2 ^ (c.nbits - 1) - 1 := Nat.mod_eq_of_lt (by omega)
      have h2 := tb0 (2 ^ (c.nbits - 1) - 1) (by omega)
      simp [h1, h2, show ¬ (2 ^ (c.nbits - 1) - 1 = 0) by omega]
    rw [hd, i3]

/-- the round trip of the signalling-NaN encoding (every configuration): `to_native` returns numeric_limits::signaling_NaN()
    (payload 0x4000000000000, quiet bit clear), which the repaired `operator=(double)` maps to the signalling NaN encoding
    (the pinned code converted it as a number: D13, former counterexample areal<6,2,uint8_t> 0b111111 ↦ 0b011101) -/
theorem C04_areal_roundtrip_snan (c : Model.Cfg) (hn : 4 ≤ c.nbits) :
    Model.assignF64 c (Model.toNative c f64 (Model.setnanSignalling c)) = Model.setnanSignalling c := by
  have h4 : 4 ≤ 2 ^ (c.nbits - 1) := by
    calc 4 = 2 ^ 2 := rfl
      _ ≤ 2 ^ (c.nbits - 1) := Nat.pow_le_pow_right (by omega) (by omega)
  have hN : 2 ^ c.nbits = 2 * 2 ^ (c.nbits - 1) := by
    rw [show c.nbits = (c.nbits - 1) + 1 by omega, Nat.pow_succ]; simp; ring
  have i3 : Model.assignF64 c (f64.eAll * 2 ^ f64.fbits + 2 ^ (f64.fbits - 2)) = Model.setnanSignalling c := by
    unfold Model.assignF64
    have e1 : ((f64.eAll * 2 ^ f64.fbits + 2 ^ (f64.fbits - 2)) >>> 52) % 2048 = 2047 := by decide
    have e2' : (f64.eAll * 2 ^ f64.fbits + 2 ^ (f64.fbits - 2)) % 4503599627370496 = 1125899906842624 := by decide
    have e3 : (1125899906842624 : Nat) &&& 2251799813685248 = 0 := by decide
    simp [e1, e2', e3]
  have hd : Model.toNative c f64 (Model.setnanSignalling c) = f64.eAll * 2 ^ f64.fbits + 2 ^ (f64.fbits - 2) := by
    unfold Model.toNative Model.setnanSignalling
    have hv : 2 ^ c.nbits - 1 = 2 ^ (c.nbits - 1) + (2 ^ (c.nbits - 1) - 1) := by omega
    have h1 : (2 ^ (c.nbits - 1) + (2 ^ (c.nbits - 1) - 1)) % 2 ^ (c.nbits - 1) = 2 ^ (c.nbits - 1) - 1 := by
      rw [Nat.add_mod_left]; exact Nat.mod_eq_of_lt (by omega)
    have h2 : (2 ^ (c.nbits - 1) + (2 ^ (c.nbits - 1) - 1)).testBit (c.nbits - 1) = true := by
      rw [Nat.testBit_two_pow_add_eq, Nat.testBit_lt_two_pow (by omega)]; rfl
    simp only [hv, h1, h2]
    simp [show ¬ (2 ^ (c.nbits - 1) - 1 = 0) by omega]
  rw [hd, i3]

-- the former counterexample, now positive: areal<6,2,uint8_t>, encoding 0b111111 round-trips
example : Model.assignF64 ⟨6, 2, 8⟩ (Model.toNative ⟨6, 2, 8⟩ f64 0x3f) = 0x3f := by decide +kernel

/-- special encodings, every configuration and both native types: ±0 keep their sign, ±inf, NaN -/
theorem C04_areal_specials (c : Model.Cfg) (f : Fmt) (hn : 4 ≤ c.nbits) (s : Bool) :
    Model.toNative c f (if s then 2 ^ (c.nbits - 1) else 0) = (if s then 2 ^ (f.ebits + f.fbits) else 0) ∧
    Model.toNative c f ((if s then 2 ^ (c.nbits - 1) else 0) + (2 ^ (c.nbits - 1) - 2)) = IeeeBits.infBits f s ∧
    (2 ≤ f.fbits → 1 ≤ f.ebits →
      IeeeBits.isNaN f (Model.toNative c f ((if s then 2 ^ (c.nbits - 1) else 0) + (2 ^ (c.nbits - 1) - 1))) = true) := by
  have h4 : 4 ≤ 2 ^ (c.nbits - 1) := by
    calc 4 = 2 ^ 2 := rfl
      _ ≤ 2 ^ (c.nbits - 1) := Nat.pow_le_pow_right (by omega) (by omega)
  have tb : ∀ y, y < 2 ^ (c.nbits - 1) → (2 ^ (c.nbits - 1) + y).testBit (c.nbits - 1) = true := by
    intro y hy; rw [Nat.testBit_two_pow_add_eq, Nat.testBit_lt_two_pow hy]; rfl
  have tb0 : ∀ y, y < 2 ^ (c.nbits - 1) → y.testBit (c.nbits - 1) = false := fun y hy => Nat.testBit_lt_two_pow hy
  have md : ∀ y, y < 2 ^ (c.nbits - 1) → (2 ^ (c.nbits - 1) + y) % 2 ^ (c.nbits - 1) = y := by
    intro y hy; rw [Nat.add_mod_left]; exact Nat.mod_eq_of_lt hy
  refine ⟨?_, ?_, ?_⟩
  · cases s
    · simp [Model.toNative]
    · have := tb 0 (by omega)
      have m := md 0 (by omega)
      simp only [Nat.add_zero] at this m
      simp [Model.toNative, this, m]
  · cases s
    · have h1 : (2 ^ (c.nbits - 1) - 2) % 2 ^ (c.nbits - 1) = 2 ^ (c.nbits - 1) - 2 := Nat.mod_eq_of_lt (by omega)
      have h2 := tb0 (2 ^ (c.nbits - 1) - 2) (by omega)
      have h3 : ¬ (2 ^ (c.nbits - 1) - 2 = 0) := by omega
      have h4' : ¬ (2 ^ (c.nbits - 1) - 2 = 2 ^ (c.nbits - 1) - 1) := by omega
      simp [Model.toNative, h1, h2, h3, h4']
    · have h1 := md (2 ^ (c.nbits - 1) - 2) (by omega)
      have h2 := tb (2 ^ (c.nbits - 1) - 2) (by omega)
      have h3 : ¬ (2 ^ (c.nbits - 1) - 2 = 0) := by omega
      have h4' : ¬ (2 ^ (c.nbits - 1) - 2 = 2 ^ (c.nbits - 1) - 1) := by omega
      simp [Model.toNative, h1, h2, h3, h4']
  · intro hF hE
    have hnan : ∀ p, 0 < p → p < 2 ^ f.fbits → IeeeBits.isNaN f (f.eAll * 2 ^ f.fbits + p) = true := by
      intro p hp0 hp
      unfold IeeeBits.isNaN IeeeBits.expOf IeeeBits.fracOf
      have hall : f.eAll < 2 ^ f.ebits := by unfold Fmt.eAll; have := Nat.two_pow_pos f.ebits; omega
      rw [Nat.shiftRight_eq_div_pow, Nat.add_comm, Nat.add_mul_div_right _ _ (Nat.two_pow_pos _),
        Nat.div_eq_of_lt hp, Nat.zero_add, Nat.mod_eq_of_lt hall, Nat.add_mul_mod_self_right, Nat.mod_eq_of_lt hp]
      simp; omega
    have p1 : 2 ^ (f.fbits - 2) < 2 ^ f.fbits := Nat.pow_lt_pow_right (by omega) (by omega)
    have p2 : 2 ^ (f.fbits - 1) < 2 ^ f.fbits := Nat.pow_lt_pow_right (by omega) (by omega)
    cases s
    · have h1 : (2 ^ (c.nbits - 1) - 1) % 2 ^ (c.nbits - 1) = 2 ^ (c.nbits - 1) - 1 := Nat.mod_eq_of_lt (by omega)
      have h2 := tb0 (2 ^ (c.nbits - 1) - 1) (by omega)
      have h3 : ¬ (2 ^ (c.nbits - 1) - 1 = 0) := by omega
      simp only [Bool.false_eq_true, if_false, Nat.zero_add, Model.toNative, h1, h2, beq_iff_eq, h3, beq_self_eq_true, if_true]
      exact hnan _ (Nat.two_pow_pos _) p2
    · have h1 := md (2 ^ (c.nbits - 1) - 1) (by omega)
      have h2 := tb (2 ^ (c.nbits - 1) - 1) (by omega)
      have h3 : ¬ (2 ^ (c.nbits - 1) - 1 = 0) := by omega
      simp only [if_true, Model.toNative, h1, h2, beq_iff_eq, h3, if_false, beq_self_eq_true]
      exact hnan _ (Nat.two_pow_pos _) p1

/-! ### finite lemmas: whole configurations by kernel evaluation (regression anchors, not the property) -/

theorem C04_areal_cfg_6_2 : ∀ b, b < 2 ^ 6 → toNativeOk ⟨6, 2, 8⟩ f64 b = true ∧ toNativeOk ⟨6, 2, 8⟩ f32 b = true := by
  decide +kernel

/-- es = 7 (exponents up to 2^64, the `ipow` branch of to_native): a sample of encodings of areal<10,7,uint8_t> -/
theorem C04_areal_cfg_10_7_sample :
    [0x000, 0x001, 0x002, 0x003, 0x004, 0x007, 0x008, 0x00b, 0x1fc, 0x1fd, 0x1fe, 0x1ff, 0x200, 0x203, 0x3f8, 0x3fb, 0x3fc,
     0x3fd, 0x3fe, 0x3ff, 0x0ff, 0x100, 0x101, 0x2aa, 0x155].all (fun b => toNativeOk ⟨10, 7, 8⟩ f64 b) = true := by
  decide +kernel

-- non-vacuity: a subnormal encoding with the ubit set, and the maxpos interval
example : Model.toNative ⟨8, 3, 8⟩ f64 0x07 = 0x3fb8000000000000 := by decide +kernel
example : Model.toNative ⟨8, 3, 8⟩ f64 0xfd = 0xc03c000000000000 := by decide +kernel
