/-
  C04 (cfloat clauses) — read-back to native types: theorems about Model.Cfloat.toNative vs Spec.Cfloat.cfVal.
-/
import UVerifProofs.Lemmas.CfloatVal
open UVerif UVerif.Cfloat

/-- `subnormal_exponent[es]` (regenerated from native/subnormal.hpp) is 2^(2 − 2^(es−1)) = 2^(1−bias) for
    es = 1 … 11; the entries for es ≥ 12 are 0.0 in the header (double cannot hold them) -/
theorem C04_tables_subnormal_exponent :
    ∀ es : Fin 12, 1 ≤ es.val →
      UVerif.Generated.subnormalExponent.getD es.val (0, 0) = (1, 2 - ((2 ^ (es.val - 1) : Nat) : Int)) := by
  decide

theorem C04_tables_subnormal_exponent_tail :
    ∀ es : Fin 21, 12 ≤ es.val → UVerif.Generated.subnormalExponent.getD es.val (0, 0) = (0, 0) := by
  decide

private theorem subn_scale (c : Cfg) (h1 : 1 ≤ c.es) (h2 : c.es ≤ 11) :
    dyadic (UVerif.Generated.subnormalExponent.getD c.es (0, 0)).1 (UVerif.Generated.subnormalExponent.getD c.es (0, 0)).2
      = pow2 (1 - c.bias) := by
  have := C04_tables_subnormal_exponent ⟨c.es, by omega⟩ h1
  simp only at this
  rw [this]
  unfold dyadic Cfg.bias
  simp only [Int.cast_one, one_mul]
  congr 1
  omega

/-- read-back is exact: for every configuration with es ≤ 11 (the range of the double table) and every encoding,
    the value computed by `to_native` is the value the encoding denotes — NaN ↦ NaN (same signalling flag),
    ±inf ↦ ±inf, zeros keep their sign, subnormals and (super)normals exactly. The conversion of that value to
    IEEE bits is exact whenever the native type holds it (checked per line by the driver). -/
theorem C04_cfloat_to_native (c : Cfg) (hv : c.valid = true) (hes : c.es ≤ 11) (b : Nat) :
    toNative c b = cfVal c b := by
  obtain ⟨h1, _, _, _⟩ := valid_facts c hv
  have hE := emax_pos c hv
  unfold toNative
  rcases cfVal_view c hv b with ⟨e, n⟩ | ⟨e, n, i, z⟩ | ⟨m, e, n, i, z⟩
  · have z : isZero c b = false := by
      rw [← cfVal_isZero c hv, e]; rfl
    simp only [z, n, Bool.false_eq_true, if_false, if_true, e]
  · simp only [z, n, i, Bool.false_eq_true, if_false, if_true, e]
  · by_cases hm : m = 0
    · have z' : isZero c b = true := by rw [z]; simp [hm]
      simp only [z', if_true, e, hm]
    · have z' : isZero c b = false := by rw [z]; simp [hm]
      simp only [z', n, i, Bool.false_eq_true, if_false]
      rcases cfVal_cases c b with ⟨_, _, e'⟩ | ⟨_, _, _, e'⟩ | ⟨he, _, _, e'⟩ | ⟨he, h0, e'⟩ | ⟨he, h0, e'⟩
      · rw [e] at e'; cases e'
      · rw [e] at e'; cases e'
      · cases hs : c.sup
        · rw [hs] at e'; rw [e] at e'; cases e'
        · rw [hs] at e'
          have h00 : c.expOf b ≠ 0 := by omega
          simp only [h00, and_false, if_false, hs, Bool.true_eq_false, not_true_eq_false, false_and]
          rw [e']; simp only [if_true]; congr 1; ring
      · cases hs : c.sub
        · -- no subnormals: exponent 0 is a zero, contradiction with m ≠ 0
          exfalso
          rw [hs] at e'; rw [e] at e'
          simp only [Bool.false_eq_true, if_false] at e'
          injection e' with _ e2; exact hm e2
        · rw [hs] at e'
          simp only [h0, and_self, if_true]
          rw [e']; simp only [if_true]
          rw [subn_scale c h1 hes]; congr 1; ring
      · have : ¬ (c.sub = true ∧ c.expOf b = 0) := fun hc => h0 hc.2
        have h2 : ¬ (¬ c.sup = true ∧ c.expOf b = c.emax) := fun hc => he hc.2
        simp only [this, h2, if_false]
        rw [e']; congr 1; ring

/-- non-vacuity: a subnormal, a normal and a supernormal encoding of cfloat<8,3,sub,sup> -/
example : let c : Cfg := { nbits := 8, es := 3, sub := true, sup := true }
    toNative c 0x03 = .fin false (3 / 64) ∧ toNative c 0x35 = .fin false (21 / 16) ∧ toNative c 0xf2 = .fin true 18 := by
  decide +kernel

/-- full statement of the round trip through double (false of the pinned code for IEEE-subnormal values) -/
def C04_cfloat_roundtrip_full : Prop :=
  ∀ (c : Cfg) (b : Nat), c.valid = true → b < 2 ^ c.nbits → c.fbits ≤ 52 → c.es ≤ 11 →
    (cfVal c b).isNan = false → (cfVal c b).isZero = false →
    fromIeee c 11 52 UVerif.Generated.ieeeF64_qnanmask UVerif.Generated.ieeeF64_snanmask (ieeeEncode 11 52 (toNative c b)) = b

/-- bfloat_t: the smallest subnormal 2^-133 reads back exactly as the float 0x00010000, but converting that float
    (an IEEE subnormal) back returns 0 — the "source is subnormal" branch of convert_ieee754 is unimplemented -/
theorem C04_cfloat_roundtrip_counterexample :
    let c : Cfg := { nbits := 16, es := 8, bt := 16, sub := true }
    ieeeEncode 8 23 (toNative c 1) = 0x10000 ∧
    fromIeee c 8 23 UVerif.Generated.ieeeF32_qnanmask UVerif.Generated.ieeeF32_snanmask 0x10000 = 0 := by
  decide +kernel

/-- the round trip holds on a whole small configuration (finite lemma, regression anchor) -/
theorem C04_cfloat_roundtrip_cfg_6_2 :
    ∀ b : Fin 64, let c : Cfg := { nbits := 6, es := 2, sub := true, sup := true }
      (cfVal c b.val).isNan = true ∨ (cfVal c b.val).isZero = true ∨
      fromIeee c 11 52 UVerif.Generated.ieeeF64_qnanmask UVerif.Generated.ieeeF64_snanmask (ieeeEncode 11 52 (toNative c b.val)) = b.val := by
  decide +kernel

/-- `to_int()` after the repair "to_int() must not round the value to float before truncating": the read-back the cast
    truncates is computed in double, where the former witness cfloat<40,8> 0x3fffffffff (1.99999999953…, 31 fraction
    bits) is exact — through float it was rounded to 2.0 and `int` returned 2 instead of 1 -/
theorem C04_cfloat_to_int_cfg_40_8 :
    let c : Cfg := { nbits := 40, es := 8, bt := 32, sub := true }
    toNativeIn c 11 52 0x3fffffffff = cfVal c 0x3fffffffff ∧
    truncZ (valToRat (toNativeIn c 11 52 0x3fffffffff)) = 1 ∧
    truncZ (valToRat (toNativeIn c 8 23 0x3fffffffff)) = 2 := by
  decide +kernel

/-! ### long double (x86-64 80-bit): `to_native<long double>` = `toNativeLD`, the round trip through `fromLD` -/

/-- read-back to long double, full statement: whenever long double holds the value of the encoding, to_native<long double>
    returns it. False of the pinned code for es > 11 (see the counterexample): 2^exponent comes from the double `ipow`. -/
def C04_cfloat_to_ld_full : Prop :=
  ∀ (c : Cfg) (b : Nat), c.valid = true → c.es ≤ 15 → b < 2 ^ c.nbits →
    ieeeVal 15 63 (ieeeEncode 15 63 (cfVal c b)) = cfVal c b → toNativeLD c b = cfVal c b

/-- zeros, NaNs and infinities are read back like through double / float (the first three branches of to_native are
    independent of the target type), every configuration -/
theorem C04_cfloat_to_ld_special (c : Cfg) (b : Nat) (h : isZero c b = true ∨ isNan c b = true ∨ isInf c b = true) :
    toNativeLD c b = toNative c b := by
  unfold toNativeLD toNative
  rcases h with h | h | h
  · simp [h]
  · by_cases hz : isZero c b = true
    · simp [hz]
    · simp [hz, h]
  · by_cases hz : isZero c b = true
    · simp [hz]
    · by_cases hn : isNan c b = true
      · simp [hz, hn]
      · simp [hz, hn, h]

/-- finite check (a test, not a theorem about all configurations): every encoding of cfloat<6,2> with subnormals and
    supernormals reads back exactly through long double -/
theorem C04_cfloat_to_ld_cfg_6_2 :
    ∀ b : Fin 64, let c : Cfg := { nbits := 6, es := 2, bt := 8, sub := true, sup := true }
      toNativeLD c b.val = cfVal c b.val := by
  decide +kernel

/-- known finding cfloat.to_native.ld_beyond_double: the smallest subnormal of cfloat<48,12> (2^-2081, a normal long
    double) reads back as +0 (`subnormal_exponent[12]` is 0.0), 2^1024 in cfloat<64,15> reads back as +inf and 2^-1075 as 0
    (`ipow` is a double) — long double holds all three -/
theorem C04_cfloat_to_ld_beyond_double_counterexample :
    (let c : Cfg := { nbits := 48, es := 12, bt := 16, sub := true, sup := true }
     toNativeLD c 1 = .fin false 0 ∧ cfVal c 1 ≠ .fin false 0 ∧ ieeeVal 15 63 (ieeeEncode 15 63 (cfVal c 1)) = cfVal c 1) ∧
    (let c : Cfg := { nbits := 64, es := 15, bt := 32, sub := true }
     toNativeLD c 0x43ff000000000000 = .inf false ∧ cfVal c 0x43ff000000000000 = .fin false (pow2 1024) ∧
     toNativeLD c 0x3bcc000000000000 = .fin false 0 ∧ cfVal c 0x3bcc000000000000 = .fin false (pow2 (-1075)) ∧
     toNativeLD c 0x3bcd000000000000 = .fin false (pow2 (-1074))) := by
  decide +kernel

theorem C04_cfloat_to_ld_full_false : ¬ C04_cfloat_to_ld_full := by
  intro h
  have := h { nbits := 64, es := 15, bt := 32, sub := true } 0x43ff000000000000 (by decide) (by decide) (by decide) (by decide +kernel)
  revert this
  decide +kernel

/-- former finding cfloat.from_ld.nan_masks (repaired: `ieee754_parameter<long double>::qnanmask / snanmask` address the
    63-bit fraction): the signalling NaN of cfloat<8,4> read back as a long double (fraction bit 61) converts back to the
    signalling NaN encoding, the quiet NaN to the quiet one (with the binary64 masks the signalling NaN came back quiet) -/
theorem C04_cfloat_ld_nan_roundtrip_cfg :
    let c : Cfg := { nbits := 8, es := 4, bt := 8, sub := true }
    toNativeLD c 0xff = .nan true ∧ toNativeLD c 0x7f = .nan false ∧
    fromLD c UVerif.Generated.ieeeF80_qnanmask UVerif.Generated.ieeeF80_snanmask UVerif.Generated.ieeeF80_hmask (0x7fff <<< 63 + 2 ^ 61) = 0xff ∧
    fromLD c UVerif.Generated.ieeeF80_qnanmask UVerif.Generated.ieeeF80_snanmask UVerif.Generated.ieeeF80_hmask (0x7fff <<< 63 + 2 ^ 62) = 0x7f ∧
    fromLD c 0x7FF8000000000000 0x7FF4000000000000 UVerif.Generated.ieeeF80_hmask (0x7fff <<< 63 + 2 ^ 61) = 0x7f := by
  decide +kernel
