/-
  Property C04 — read-back of dd / qd to native types (dd_impl.hpp:647-668, qd_impl.hpp:919-940).
  "double(dd) and double(qd) return the double nearest to the represented value."

  Values in integer units of binary64 (`x.toInt` = value · 2^1074).

  PROVED:
    * `C04_dd_to_f64`: double(dd) = hi + lo in ONE double addition = RN(hi + lo): finite, representable, and no double is
      nearer to the represented value — for every pair of finite limbs (normalised or not) whose sum does not overflow;
      `C04_dd_to_f64_exact` when hi + lo is a double (in particular lo = 0).
    * `C04_qd_to_f64_partial`: double(qd) = ((x0 + x1) + x2) + x3 is the nearest double when the two partial sums are doubles
      (single rounding); FALSE in general, even for normalised limbs: `C04_qd_to_f64_counterexample`
      (1, 2^-53, 2^-110, 0) reads 1, the nearest double is 1 + 2^-52.
    * `C04_dd_to_int64_partial`: (long long)dd of a double (lo = 0) inside the int64 range is the truncation toward zero;
      FALSE with a tail: `C04_dd_to_int64_counterexample` (62, −2^-51) reads 62, the value 61.999… truncates to 61.
-/
import UVerifProofs.Lemmas.ConvDD
import UVerif.Model.ConvDD

open UVerif UVerif.F64 UVerif.ConvDDLemmas

/-- `double(dd)`: one correctly rounded addition of the limbs.  `r` is the model's result; no representable `g` is nearer. -/
theorem C04_dd_to_f64 (f : Fmt) (hp : 1 ≤ f.p) (hpt : f.p ≤ f.top) (a : DD.DD)
    (hh : a.hi.isFinite = true) (hl : a.lo.isFinite = true)
    (hr : (a.hi.toInt + a.lo.toInt).natAbs ≤ maxMag f) :
    (DD.toDouble f a).Rep f ∧
    (DD.toDouble f a).toInt = rnInt f.p (a.hi.toInt + a.lo.toInt) ∧
    ∀ g : Int, IsFloat f.p g →
      (a.hi.toInt + a.lo.toInt - (DD.toDouble f a).toInt).natAbs ≤ (a.hi.toInt + a.lo.toInt - g).natAbs := by
  obtain ⟨h1, h2⟩ := add_spec f hp hpt hh hl hr
  refine ⟨h1, h2, ?_⟩
  intro g hg
  show (a.hi.toInt + a.lo.toInt - (F64.add f a.hi a.lo).toInt).natAbs ≤ _
  rw [h2]
  exact rnInt_nearest hp hg

example : (F.fin false (3 * 2 ^ 1074)).isFinite = true := rfl

/-- when the represented value is itself a double (e.g. lo = 0) the read-back is exact -/
theorem C04_dd_to_f64_exact (f : Fmt) (hp : 1 ≤ f.p) (hpt : f.p ≤ f.top) (a : DD.DD)
    (hh : a.hi.isFinite = true) (hl : a.lo.isFinite = true)
    (hr : (a.hi.toInt + a.lo.toInt).natAbs ≤ maxMag f) (hf : IsFloat f.p (a.hi.toInt + a.lo.toInt)) :
    (DD.toDouble f a).toInt = a.hi.toInt + a.lo.toInt :=
  (add_exact f hp hpt hh hl hr hf).2

/-- `double(qd)` when both partial sums x0 + x1 and x0 + x1 + x2 are doubles: a single rounding, hence the nearest double -/
theorem C04_qd_to_f64_partial (a : ConvDD.QD)
    (h0 : a.1.isFinite = true) (h1 : a.2.1.isFinite = true) (h2 : a.2.2.1.isFinite = true) (h3 : a.2.2.2.isFinite = true)
    (r1 : (a.1.toInt + a.2.1.toInt).natAbs ≤ maxMag binary64) (f1 : IsFloat binary64.p (a.1.toInt + a.2.1.toInt))
    (r2 : (a.1.toInt + a.2.1.toInt + a.2.2.1.toInt).natAbs ≤ maxMag binary64)
    (f2 : IsFloat binary64.p (a.1.toInt + a.2.1.toInt + a.2.2.1.toInt))
    (r3 : (a.1.toInt + a.2.1.toInt + a.2.2.1.toInt + a.2.2.2.toInt).natAbs ≤ maxMag binary64) :
    (ConvDD.qdToF64 a).toInt = rnInt binary64.p (a.1.toInt + a.2.1.toInt + a.2.2.1.toInt + a.2.2.2.toInt) ∧
    ∀ g : Int, IsFloat binary64.p g →
      (a.1.toInt + a.2.1.toInt + a.2.2.1.toInt + a.2.2.2.toInt - (ConvDD.qdToF64 a).toInt).natAbs
        ≤ (a.1.toInt + a.2.1.toInt + a.2.2.1.toInt + a.2.2.2.toInt - g).natAbs := by
  have hp : 1 ≤ binary64.p := by decide
  have hpt : binary64.p ≤ binary64.top := by decide
  obtain ⟨s1, v1⟩ := add_exact binary64 hp hpt h0 h1 r1 f1
  obtain ⟨s2, v2⟩ := add_exact binary64 hp hpt s1.1 h2 (by rw [v1]; exact r2) (by rw [v1]; exact f2)
  obtain ⟨_, v3⟩ := add_spec binary64 hp hpt s2.1 h3 (by rw [v2, v1]; exact r3)
  rw [v2, v1] at v3
  have e : (ConvDD.qdToF64 a).toInt = rnInt binary64.p (a.1.toInt + a.2.1.toInt + a.2.2.1.toInt + a.2.2.2.toInt) := v3
  refine ⟨e, ?_⟩
  intro g hg
  rw [e]
  exact rnInt_nearest hp hg

/-- the full statement for qd: nearest double for every finite qd in range -/
def C04_qd_to_f64_full : Prop :=
  ∀ a : ConvDD.QD, a.1.isFinite = true → a.2.1.isFinite = true → a.2.2.1.isFinite = true → a.2.2.2.isFinite = true →
    (a.1.toInt + a.2.1.toInt + a.2.2.1.toInt + a.2.2.2.toInt).natAbs ≤ maxMag binary64 →
    (ConvDD.qdToF64 a).toInt = rnInt binary64.p (a.1.toInt + a.2.1.toInt + a.2.2.1.toInt + a.2.2.2.toInt)

/-- FALSE of the pinned code, even for a normalised qd: (1, 2^-53, 2^-110, 0).  1 + 2^-53 is a tie and rounds to the even 1,
    the third limb (which makes the value exceed the midpoint) is then absorbed: the result is 1, the nearest double 1 + 2^-52. -/
theorem C04_qd_to_f64_counterexample : ¬ C04_qd_to_f64_full := by
  intro h
  have := h (ofBits64 0x3ff0000000000000, ofBits64 0x3ca0000000000000, ofBits64 0x3910000000000000, pzero)
    (by decide +kernel) (by decide +kernel) (by decide +kernel) (by decide +kernel) (by decide +kernel)
  revert this
  decide +kernel

/-- `(long long)dd` for a dd that is a double inside the int64 range: truncation toward zero of the value -/
theorem C04_dd_to_int64_partial (s : Bool) (n : Nat) (hn : n >>> binary64.q < 2 ^ 63) :
    DD.toInt64 binary64 ⟨.fin s n, pzero⟩ = (if s then -((n >>> binary64.q : Nat) : Int) else ((n >>> binary64.q : Nat) : Int)) := by
  have hz : toI64 binary64 pzero = 0 := by
    unfold toI64 truncInt pzero
    simp
  unfold DD.toInt64
  rw [hz, add_zero]
  unfold toI64 truncInt
  simp only
  generalize n >>> binary64.q = k at hn ⊢
  have hlt : (k : Int) < (2 ^ 63 : Int) := by exact_mod_cast hn
  have hk0 : (0 : Int) ≤ (k : Int) := Int.natCast_nonneg k
  cases s
  · simp only [Bool.false_eq_true, if_false]
    rw [if_pos ⟨by omega, hlt⟩]
    exact wrapI64_small (by omega) hlt
  · simp only [if_true]
    rw [if_pos ⟨by omega, by omega⟩]
    exact wrapI64_small (by omega) (by omega)

/-- the full statement: truncation toward zero of hi + lo for every normalised dd in range -/
def C04_dd_to_int64_full : Prop :=
  ∀ a : DD.DD, a.hi.isFinite = true → a.lo.isFinite = true →
    (a.hi.toInt + a.lo.toInt).natAbs < 2 ^ (63 + binary64.q) →
    DD.toInt64 binary64 a = Int.tdiv (a.hi.toInt + a.lo.toInt) ((2 ^ binary64.q : Nat) : Int)

/-- FALSE: (62, −2^-51) is 61.999…: the limbs are truncated separately (62 + 0), the value truncates to 61 -/
theorem C04_dd_to_int64_counterexample : ¬ C04_dd_to_int64_full := by
  intro h
  have := h ⟨ofBits64 0x404f000000000000, ofBits64 0xbcc0000000000000⟩ (by decide +kernel) (by decide +kernel) (by decide +kernel)
  revert this
  decide +kernel
