/-
  Property C04 — read-back of dd / qd to native types (dd_impl.hpp:647-668, qd_impl.hpp:919-940).
  "double(dd) and double(qd) return the double nearest to the represented value."

  Values in integer units of binary64 (`x.toInt` = value · 2^1074).

  PROVED:
    * `C04_dd_to_f64`: double(dd) = hi + lo in ONE double addition = RN(hi + lo): finite, representable, and no double is
      nearer to the represented value — for every pair of finite limbs (normalised or not) whose sum does not overflow;
      `C04_dd_to_f64_exact` when hi + lo is a double (in particular lo = 0).
    * `C04_qd_to_f64_partial`: double(qd) = ((x0 + x1) + x2) + x3 is the nearest double when the two partial sums are doubles
      (single rounding); FALSE in general, even for normalised limbs: `C04_qd_to_f64_counterexample`
      (1, 2^-53, 2^-110, 0) reads 1, the nearest double is 1 + 2^-52.
    * `C04_dd_to_int64`, `C04_dd_to_uint64` (after the repairs of convert_to_signed / convert_to_unsigned): integer reads of a
      normalised dd return the represented value truncated toward zero, for every value that fits (unsigned: up to 2^64);
      the former counterexample (62, −2^-51) now reads 61 (`C04_dd_to_int64_witnesses`);
      `C04_qd_to_int64`, `C04_qd_to_uint64`: the same for a normalised qd (all four limbs; the first limb with a fraction decides).
-/
import UVerifProofs.Lemmas.ConvDD
import UVerifProofs.Lemmas.ConvQDTrunc
import UVerif.Model.ConvDD

open UVerif UVerif.F64 UVerif.ConvDDLemmas

/-- `double(dd)`: one correctly rounded addition of the limbs.  `r` is the model's result; no representable `g` is nearer. -/
theorem C04_dd_to_f64 (f : Fmt) (hp : 1 ≤ f.p) (hpt : f.p ≤ f.top) (a : DD.DD)
    (hh : a.hi.isFinite = true) (hl : a.lo.isFinite = true)
    (hr : (a.hi.toInt + a.lo.toInt).natAbs ≤ maxMag f) :
    (DD.toDouble f a).Rep f ∧
    (DD.toDouble f a).toInt = rnInt f.p (a.hi.toInt + a.lo.toInt) ∧
    ∀ g : Int, IsFloat f.p g →
      (a.hi.toInt + a.lo.toInt - (DD.toDouble f a).toInt).natAbs ≤ (a.hi.toInt + a.lo.toInt - g).natAbs := by
  obtain ⟨h1, h2⟩ := add_spec f hp hpt hh hl hr
  refine ⟨h1, h2, ?_⟩
  intro g hg
  show (a.hi.toInt + a.lo.toInt - (F64.add f a.hi a.lo).toInt).natAbs ≤ _
  rw [h2]
  exact rnInt_nearest hp hg

example : (F.fin false (3 * 2 ^ 1074)).isFinite = true := rfl

/-- when the represented value is itself a double (e.g. lo = 0) the read-back is exact -/
theorem C04_dd_to_f64_exact (f : Fmt) (hp : 1 ≤ f.p) (hpt : f.p ≤ f.top) (a : DD.DD)
    (hh : a.hi.isFinite = true) (hl : a.lo.isFinite = true)
    (hr : (a.hi.toInt + a.lo.toInt).natAbs ≤ maxMag f) (hf : IsFloat f.p (a.hi.toInt + a.lo.toInt)) :
    (DD.toDouble f a).toInt = a.hi.toInt + a.lo.toInt :=
  (add_exact f hp hpt hh hl hr hf).2

/-- `double(qd)` when both partial sums x0 + x1 and x0 + x1 + x2 are doubles: a single rounding, hence the nearest double -/
theorem C04_qd_to_f64_partial (a : ConvDD.QD)
    (h0 : a.1.isFinite = true) (h1 : a.2.1.isFinite = true) (h2 : a.2.2.1.isFinite = true) (h3 : a.2.2.2.isFinite = true)
    (r1 : (a.1.toInt + a.2.1.toInt).natAbs ≤ maxMag binary64) (f1 : IsFloat binary64.p (a.1.toInt + a.2.1.toInt))
    (r2 : (a.1.toInt + a.2.1.toInt + a.2.2.1.toInt).natAbs ≤ maxMag binary64)
    (f2 : IsFloat binary64.p (a.1.toInt + a.2.1.toInt + a.2.2.1.toInt))
    (r3 : (a.1.toInt + a.2.1.toInt + a.2.2.1.toInt + a.2.2.2.toInt).natAbs ≤ maxMag binary64) :
    (ConvDD.qdToF64 a).toInt = rnInt binary64.p (a.1.toInt + a.2.1.toInt + a.2.2.1.toInt + a.2.2.2.toInt) ∧
    ∀ g : Int, IsFloat binary64.p g →
      (a.1.toInt + a.2.1.toInt + a.2.2.1.toInt + a.2.2.2.toInt - (ConvDD.qdToF64 a).toInt).natAbs
        ≤ (a.1.toInt + a.2.1.toInt + a.2.2.1.toInt + a.2.2.2.toInt - g).natAbs := by
  have hp : 1 ≤ binary64.p := by decide
  have hpt : binary64.p ≤ binary64.top := by decide
  obtain ⟨s1, v1⟩ := add_exact binary64 hp hpt h0 h1 r1 f1
  obtain ⟨s2, v2⟩ := add_exact binary64 hp hpt s1.1 h2 (by rw [v1]; exact r2) (by rw [v1]; exact f2)
  obtain ⟨_, v3⟩ := add_spec binary64 hp hpt s2.1 h3 (by rw [v2, v1]; exact r3)
  rw [v2, v1] at v3
  have e : (ConvDD.qdToF64 a).toInt = rnInt binary64.p (a.1.toInt + a.2.1.toInt + a.2.2.1.toInt + a.2.2.2.toInt) := v3
  refine ⟨e, ?_⟩
  intro g hg
  rw [e]
  exact rnInt_nearest hp hg

/-- the full statement for qd: nearest double for every finite qd in range -/
def C04_qd_to_f64_full : Prop :=
  ∀ a : ConvDD.QD, a.1.isFinite = true → a.2.1.isFinite = true → a.2.2.1.isFinite = true → a.2.2.2.isFinite = true →
    (a.1.toInt + a.2.1.toInt + a.2.2.1.toInt + a.2.2.2.toInt).natAbs ≤ maxMag binary64 →
    (ConvDD.qdToF64 a).toInt = rnInt binary64.p (a.1.toInt + a.2.1.toInt + a.2.2.1.toInt + a.2.2.2.toInt)

/-- FALSE of the pinned code, even for a normalised qd: (1, 2^-53, 2^-110, 0).  1 + 2^-53 is a tie and rounds to the even 1,
    the third limb (which makes the value exceed the midpoint) is then absorbed: the result is 1, the nearest double 1 + 2^-52. -/
theorem C04_qd_to_f64_counterexample : ¬ C04_qd_to_f64_full := by
  intro h
  have := h (ofBits64 0x3ff0000000000000, ofBits64 0x3ca0000000000000, ofBits64 0x3910000000000000, pzero)
    (by decide +kernel) (by decide +kernel) (by decide +kernel) (by decide +kernel) (by decide +kernel)
  revert this
  decide +kernel

/-- **`(long long)dd` is the represented value truncated toward zero** (after the repair of `convert_to_signed`): every finite
    dd whose head is a float of the format and whose tail is at most half an ulp of the head (normalised),
    `|hi + lo| < 2^63`; every format.  Integer heads with a fractional tail of the opposite sign — (62, −2^-51) ↦ 61 — are the
    case the limb-wise truncation got wrong. -/
theorem C04_dd_to_int64 (f : Fmt) (hp : 1 ≤ f.p) (a : DD.DD)
    (hh : a.hi.Rep f) (hl : a.lo.isFinite = true) (norm : 2 * a.lo.mag ≤ ulpNat f.p a.hi.mag)
    (hr : (a.hi.toInt + a.lo.toInt).natAbs < 2 ^ 63 * 2 ^ f.q) :
    DD.toInt64 f a = Int.tdiv (a.hi.toInt + a.lo.toInt) ((2 ^ f.q : Nat) : Int) := by
  obtain ⟨ah, al⟩ := a
  cases ah with
  | fin s n =>
    cases al with
    | fin t m =>
      have hfl : IsFloatN f.p n := by have := hh.2; unfold IsFloat at this; rwa [F.toInt_fin_natAbs] at this
      exact toInt64_trunc' f hp s t n m hfl norm hr
    | inf t => simp [F.isFinite] at hl
    | nan => simp [F.isFinite] at hl
  | inf s => have := hh.1; simp [F.isFinite] at this
  | nan => have := hh.1; simp [F.isFinite] at this

/-- **`(unsigned long long)dd`** likewise, for `−1 < hi + lo < 2^64` (values in [2^63, 2^64) included since the repair of
    `convert_to_unsigned`). -/
theorem C04_dd_to_uint64 (f : Fmt) (hp : 1 ≤ f.p) (a : DD.DD)
    (hh : a.hi.Rep f) (hl : a.lo.isFinite = true) (norm : 2 * a.lo.mag ≤ ulpNat f.p a.hi.mag)
    (hlo : -((2 ^ f.q : Nat) : Int) < a.hi.toInt + a.lo.toInt)
    (hhi : a.hi.toInt + a.lo.toInt < ((2 ^ 64 * 2 ^ f.q : Nat) : Int)) :
    ((DD.toUInt64 f a : Nat) : Int) = Int.tdiv (a.hi.toInt + a.lo.toInt) ((2 ^ f.q : Nat) : Int) := by
  obtain ⟨ah, al⟩ := a
  cases ah with
  | fin s n =>
    cases al with
    | fin t m =>
      have hfl : IsFloatN f.p n := by have := hh.2; unfold IsFloat at this; rwa [F.toInt_fin_natAbs] at this
      exact toUInt64_trunc' f hp s t n m hfl norm hlo hhi
    | inf t => simp [F.isFinite] at hl
    | nan => simp [F.isFinite] at hl
  | inf s => have := hh.1; simp [F.isFinite] at this
  | nan => have := hh.1; simp [F.isFinite] at this

set_option exponentiation.threshold 5000 in
/-- the witnesses of the former findings `dd.to_int64.limbwise_truncation` and `dd.to_uint64.via_int64`, now positive:
    (62, −2^-51) reads 61, (−62, 2^-51) reads −61; (0x43e2289706a809ff, 1024) — a value ≥ 2^63 — reads as itself -/
theorem C04_dd_to_int64_witnesses :
    DD.toInt64 binary64 ⟨ofBits64 0x404f000000000000, ofBits64 0xbcc0000000000000⟩ = 61 ∧
    DD.toInt64 binary64 ⟨ofBits64 0xc04f000000000000, ofBits64 0x3cc0000000000000⟩ = -61 ∧
    DD.toUInt64 binary64 ⟨ofBits64 0x43e2289706a809ff, ofBits64 0x4090000000000000⟩ = 0x9144b835404ffc00 := by
  decide +kernel

-- non-vacuity: the first witness satisfies every hypothesis of `C04_dd_to_int64`
set_option exponentiation.threshold 5000 in
example :
    let a : DD.DD := ⟨ofBits64 0x404f000000000000, ofBits64 0xbcc0000000000000⟩
    a.lo.isFinite = true ∧ 2 * a.lo.mag ≤ ulpNat binary64.p a.hi.mag ∧
    (a.hi.toInt + a.lo.toInt).natAbs < 2 ^ 63 * 2 ^ binary64.q := by
  decide +kernel

/-! ### qd integer reads -/

/-- `(long long)qd` of a qd whose two lower limbs are (signed) zeros is `(long long)dd` of the two leading limbs — hence, by
    `C04_dd_to_int64`, the represented value truncated toward zero when those are normalised and the value fits. -/
theorem C04_qd_to_int64_two_limbs (a : DD.DD) (z2 z3 : Bool)
    (hh : a.hi.Rep binary64) (hl : a.lo.isFinite = true) (norm : 2 * a.lo.mag ≤ ulpNat binary64.p a.hi.mag)
    (hr : (a.hi.toInt + a.lo.toInt).natAbs < 2 ^ 63 * 2 ^ binary64.q) :
    ConvDD.qdToInt 64 true (a.hi, a.lo, .fin z2 0, .fin z3 0)
      = ofSigned 64 (Int.tdiv (a.hi.toInt + a.lo.toInt) ((2 ^ binary64.q : Nat) : Int)) := by
  rw [← C04_dd_to_int64 binary64 (by decide) a hh hl norm hr]
  obtain ⟨ah, al⟩ := a
  cases ah with
  | fin s n =>
    cases al with
    | fin t m => exact qdToInt_two_limbs s t z2 z3 n m
    | inf t => simp [F.isFinite] at hl
    | nan => simp [F.isFinite] at hl
  | inf s => have := hh.1; simp [F.isFinite] at this
  | nan => have := hh.1; simp [F.isFinite] at this

set_option exponentiation.threshold 2000 in
/-- **`(long long)qd` is the represented value truncated toward zero** (after the repair of `qd::convert_to_signed`): every
    finite binary64 quad-double whose limbs are each at most half an ulp of the previous one (normalised) and whose value fits,
    `|x0 + x1 + x2 + x3| < 2^63`.  The loop sums the integer parts of the limbs and lets the FIRST limb with a fraction decide the
    ±1 correction; the integer core (`QdCore.core`, any unit) shows that this is `tdiv` of the sum. -/
theorem C04_qd_to_int64 (a : ConvDD.QD)
    (h0 : a.1.Rep binary64) (h1 : a.2.1.Rep binary64) (h2 : a.2.2.1.Rep binary64) (h3 : a.2.2.2.isFinite = true)
    (N1 : 2 * a.2.1.mag ≤ ulpNat binary64.p a.1.mag) (N2 : 2 * a.2.2.1.mag ≤ ulpNat binary64.p a.2.1.mag)
    (N3 : 2 * a.2.2.2.mag ≤ ulpNat binary64.p a.2.2.1.mag)
    (hr : (a.1.toInt + a.2.1.toInt + a.2.2.1.toInt + a.2.2.2.toInt).natAbs < 2 ^ 63 * 2 ^ binary64.q) :
    ConvDD.qdToInt 64 true a
      = ofSigned 64 (Int.tdiv (a.1.toInt + a.2.1.toInt + a.2.2.1.toInt + a.2.2.2.toInt) ((2 ^ binary64.q : Nat) : Int)) := by
  obtain ⟨x0, x1, x2, x3⟩ := a
  have fin_of : ∀ x : F, x.isFinite = true → ∃ s n, x = .fin s n := by
    intro x hx; cases x with
    | fin s n => exact ⟨s, n, rfl⟩
    | inf s => simp [F.isFinite] at hx
    | nan => simp [F.isFinite] at hx
  obtain ⟨s0, n0, rfl⟩ := fin_of x0 h0.1
  obtain ⟨s1, n1, rfl⟩ := fin_of x1 h1.1
  obtain ⟨s2, n2, rfl⟩ := fin_of x2 h2.1
  obtain ⟨s3, n3, rfl⟩ := fin_of x3 h3
  have fl : ∀ (s : Bool) (n : Nat), (F.fin s n).Rep binary64 → IsFloatN binary64.p n := by
    intro s n h; have := h.2; unfold IsFloat at this; rwa [F.toInt_fin_natAbs] at this
  have key := QdBridge.qdToInt_trunc s0 s1 s2 s3 n0 n1 n2 n3 (fl _ _ h0) (fl _ _ h1) (fl _ _ h2) N1 N2 N3 hr
  unfold QdBridge.UZ at key
  exact key

set_option exponentiation.threshold 2000 in
/-- **`(unsigned long long)qd`** likewise, for `−1 < x0 + x1 + x2 + x3 < 2^64` (values in [2^63, 2^64) included since the repair of
    `qd::convert_to_unsigned`). -/
theorem C04_qd_to_uint64 (a : ConvDD.QD)
    (h0 : a.1.Rep binary64) (h1 : a.2.1.Rep binary64) (h2 : a.2.2.1.Rep binary64) (h3 : a.2.2.2.isFinite = true)
    (N1 : 2 * a.2.1.mag ≤ ulpNat binary64.p a.1.mag) (N2 : 2 * a.2.2.1.mag ≤ ulpNat binary64.p a.2.1.mag)
    (N3 : 2 * a.2.2.2.mag ≤ ulpNat binary64.p a.2.2.1.mag)
    (hlo : -((2 ^ binary64.q : Nat) : Int) < a.1.toInt + a.2.1.toInt + a.2.2.1.toInt + a.2.2.2.toInt)
    (hhi : a.1.toInt + a.2.1.toInt + a.2.2.1.toInt + a.2.2.2.toInt < ((2 ^ 64 * 2 ^ binary64.q : Nat) : Int)) :
    ((ConvDD.qdToInt 64 false a : Nat) : Int)
      = Int.tdiv (a.1.toInt + a.2.1.toInt + a.2.2.1.toInt + a.2.2.2.toInt) ((2 ^ binary64.q : Nat) : Int) := by
  obtain ⟨x0, x1, x2, x3⟩ := a
  have fin_of : ∀ x : F, x.isFinite = true → ∃ s n, x = .fin s n := by
    intro x hx; cases x with
    | fin s n => exact ⟨s, n, rfl⟩
    | inf s => simp [F.isFinite] at hx
    | nan => simp [F.isFinite] at hx
  obtain ⟨s0, n0, rfl⟩ := fin_of x0 h0.1
  obtain ⟨s1, n1, rfl⟩ := fin_of x1 h1.1
  obtain ⟨s2, n2, rfl⟩ := fin_of x2 h2.1
  obtain ⟨s3, n3, rfl⟩ := fin_of x3 h3
  have fl : ∀ (s : Bool) (n : Nat), (F.fin s n).Rep binary64 → IsFloatN binary64.p n := by
    intro s n h; have := h.2; unfold IsFloat at this; rwa [F.toInt_fin_natAbs] at this
  have key := QdBridge.qdToUInt_trunc s0 s1 s2 s3 n0 n1 n2 n3 (fl _ _ h0) (fl _ _ h1) (fl _ _ h2) N1 N2 N3
    (by unfold QdBridge.UZ; exact hlo) hhi
  unfold QdBridge.UZ at key
  exact key

set_option exponentiation.threshold 5000 in
/-- the witness of the former finding `qd.to_int64.limbwise_truncation`, now positive, and a third-limb case:
    (2^52 + 2^31, −0.44…, 0, 0) reads 2^52 + 2^31 − 1;  (5, 0, −2^-80, 0) reads 4 -/
theorem C04_qd_to_int64_witnesses :
    ConvDD.qdToInt 64 true (ofBits64 0x4330000800000000, ofBits64 0xbfdc620000000000, pzero, pzero) = 0x00100007ffffffff ∧
    ConvDD.qdToInt 64 true (ofBits64 0x4014000000000000, pzero, ofBits64 0xbaf0000000000000, pzero) = 4 := by
  decide +kernel
