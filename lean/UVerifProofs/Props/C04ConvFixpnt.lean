/-
  Property C04, fixpnt clause — "read-back to a native floating-point type wide enough to hold the value is exact …; integer reads
  return the exact value truncated toward zero whenever that fits the integer type".

  The theorems are about the models `UVerif.ConvFixpnt.toNative / toSignedPat / toUnsignedPat` (lean/UVerif/Model/ConvFixpnt.lean,
  transcribed from `to_native<TargetFloat>`, `to_signed<NativeInt>`, `to_unsigned<NativeInt>`, fixpnt_impl.hpp:773-831) for EVERY
  nbits / rbits / encoding; the floating-point target is a format parameter `fmt` of the F64 model (binary64, binary32, …).
  Right-hand sides: `ConvFixpntSpec.value n r p` (= toSigned n p / 2^r, a Rat) and `ConvFixpntSpec.toInt n r p` (truncation toward zero).

  What holds of the code (after the repair wave: `fix:` commits "fixpnt conversion to a signed integer must truncate negative values
  toward zero" and "… to an unsigned integer must return the integer part of the value, not the raw bit pattern"):
    * `to_native` is exact whenever nbits ≤ the precision of the target (53 for double, 24 for float), the zero encoding reads +0;
    * `to_signed` returns the value truncated toward zero whenever the integer part fits the target type;
    * `to_unsigned` (= `to_signed<long long>` cast to the unsigned type) returns the truncated value of every non-negative
      encoding that fits the target type.
-/
import UVerifProofs.Lemmas.ConvFixpntTo
import UVerifProofs.Lemmas.ConvFixpntRoundtrip

open UVerif UVerif.F64 UVerif.ConvFixpnt UVerif.Limbs

variable {n r p sz : Nat}

/-- `to_native<TargetFloat>`: for a target format `fmt` (precision fmt.p, smallest subnormal 2^-fmt.q, overflow threshold 2^fmt.top
    units) with r ≤ fmt.q (the ulp 2^-r is representable), n ≤ fmt.p (the encoding fits the significand) and n + fmt.q − r ≤ fmt.top
    (no overflow): the result is finite, is a number of the format, and its exact value IS the value of the encoding.  Every partial sum
    of the accumulation loop has at most nbits significant bits, so every `value += multiplier` is exact. -/
theorem C04_fixpnt_to_native (fmt : Fmt) (ok : fmt.Ok) (hr : r ≤ fmt.q) (hn0 : 0 < n) (hn : n ≤ fmt.p)
    (htop : n + fmt.q - r ≤ fmt.top) (hp : p < 2 ^ n) :
    (toNative fmt n r p).Rep fmt ∧ F64.toRat fmt (toNative fmt n r p) = ConvFixpntSpec.value n r p := by
  obtain ⟨h1, h2, h3⟩ := toNative_spec fmt ok hr hn0 hn htop hp
  exact ⟨⟨h1, h2⟩, h3⟩

example : binary64.Ok ∧ (4 : Nat) ≤ binary64.q ∧ (8 : Nat) ≤ binary64.p ∧ 8 + binary64.q - 4 ≤ binary64.top ∧ 0xF8 < 2 ^ 8 :=
  ⟨binary64_ok, by decide, by decide, by decide, by decide⟩
-- fixpnt<8,4> 0xF8 = −0.5 : sign set, magnitude 2^1073 units of 2^-1074
example : toNative binary64 8 4 0xF8 = F.fin true (2 ^ 1073) := by decide +kernel

/-- double: every fixpnt of at most 53 bits reads back exactly (no overflow hypothesis: 53 + 1074 ≤ 2098) -/
theorem C04_fixpnt_to_double (hr : r ≤ 1074) (hn0 : 0 < n) (hn : n ≤ 53) (hp : p < 2 ^ n) :
    (toNative binary64 n r p).Rep binary64 ∧ F64.toRat binary64 (toNative binary64 n r p) = ConvFixpntSpec.value n r p := by
  have hq : binary64.q = 1074 := by decide
  have hP : binary64.p = 53 := by decide
  have hT : binary64.top = 2098 := by decide
  exact C04_fixpnt_to_native binary64 binary64_ok (by rw [hq]; exact hr) hn0 (by rw [hP]; exact hn) (by rw [hq, hT]; omega) hp

/-- float: every fixpnt of at most 24 bits reads back exactly (24 + 149 ≤ 277) -/
theorem C04_fixpnt_to_float (hr : r ≤ 149) (hn0 : 0 < n) (hn : n ≤ 24) (hp : p < 2 ^ n) :
    (toNative binary32 n r p).Rep binary32 ∧ F64.toRat binary32 (toNative binary32 n r p) = ConvFixpntSpec.value n r p := by
  have hq : binary32.q = 149 := by decide
  have hP : binary32.p = 24 := by decide
  have hT : binary32.top = 277 := by decide
  exact C04_fixpnt_to_native binary32 binary32_ok (by rw [hq]; exact hr) hn0 (by rw [hP]; exact hn) (by rw [hq, hT]; omega) hp

example : F64.toRat binary32 (toNative binary32 24 10 0x800001) = ConvFixpntSpec.value 24 10 0x800001 :=
  (C04_fixpnt_to_float (by decide) (by decide) (by decide) (by decide)).2

/-- sign of zero: the all-zero encoding reads +0 (the loop never touches the accumulator), for every format and configuration -/
theorem C04_fixpnt_to_native_zero (fmt : Fmt) (n r : Nat) : toNative fmt n r 0 = F.fin false 0 := toNative_zero fmt n r

/-- beyond the precision the accumulation rounds: fixpnt<26,0> 0x1ffffff = 2^25 − 1 read as float gives 2^25 (not exact);
    `n ≤ fmt.p` cannot be dropped -/
theorem C04_fixpnt_to_float_wide_counterexample :
    toNative binary32 26 0 0x1ffffff = F.fin false (2 ^ 25 * 2 ^ 149) ∧
    toNative binary32 26 0 0x1ffffff ≠ F.fin false ((2 ^ 25 - 1) * 2 ^ 149) := by decide +kernel

/-- the specification of the integer read in integer terms: truncation toward zero = `Int.tdiv` of the raw integer by 2^r -/
theorem C04_fixpnt_to_int_spec_int (n r p : Nat) : ConvFixpntSpec.toInt n r p = (toSigned n p).tdiv (((2 ^ r : Nat) : Int)) :=
  spec_toInt_eq n r p

/-- the integer-part bits of the encoding, sign-extended (the value of `ll` after the two loops of `to_signed`), are the FLOOR
    of the value — the step the repaired code adds turns it into the truncation -/
theorem C04_fixpnt_to_signed_floor_bits (hr : r < n) (hsz : n - r ≤ sz) (h64 : n - r ≤ 64) (hp : p < 2 ^ n) :
    toSigned sz (toSignedFloorPat n r sz p) = (ConvFixpntSpec.value n r p).floor := by
  rw [toSignedFloorPat_floor hr hsz h64 hp]
  unfold ConvFixpntSpec.value
  show _ = ⌊((toSigned n p : Int) : Rat) / ((2 ^ r : Nat) : Rat)⌋
  exact (Rat.floor_intCast_div_natCast _ _).symm

/-- `to_signed<NativeInt>` (NativeInt of `sz` bits, result read as an sz-bit two's complement pattern): whenever the integer part
    fits (n − r ≤ sz, and n − r ≤ 64 — above that the loop is cut at 64 bits) the result is the value TRUNCATED TOWARD ZERO,
    for every encoding: the loops copy the integer-part bits and sign-extend (floor), a negative value with a non-zero fraction is
    then incremented.  This is the full C04 clause for signed integer reads. -/
theorem C04_fixpnt_to_signed (hr : r < n) (hsz : n - r ≤ sz) (h64 : n - r ≤ 64) (hp : p < 2 ^ n) :
    toSigned sz (toSignedPat n r sz p) = ConvFixpntSpec.toInt n r p := by
  rw [spec_toInt_eq]; exact toSignedPat_trunc hr hsz h64 hp

example : (4 : Nat) < 8 ∧ 8 - 4 ≤ 32 ∧ 8 - 4 ≤ 64 ∧ 0xE8 < 2 ^ 8 := by decide
example : toSigned 32 (toSignedPat 8 4 32 0xE8) = -1 := by decide   -- −1.5 reads −1
example : toSigned 32 (toSignedPat 8 4 32 0xE0) = -2 := by decide   -- −2.0 reads −2
example : toSigned 32 (toSignedPat 8 4 32 0x18) = 1 := by decide    -- 1.5 reads 1

/-- no integer part at all (nbits = rbits, every value lies in [−1/2, 1/2)): the read is 0 = the truncation -/
theorem C04_fixpnt_to_signed_no_integer_part (n sz p : Nat) (hn : 0 < n) (hp : p < 2 ^ n) :
    toSigned sz (toSignedPat n n sz p) = ConvFixpntSpec.toInt n n p := by
  have h0 : toSignedPat n n sz p = 0 := by unfold toSignedPat; rw [if_pos (Nat.le_refl n)]
  have hz : toSigned sz 0 = 0 := by
    unfold toSigned; split
    · rfl
    · simp [Nat.zero_mod, Nat.two_pow_pos]
  rw [h0, hz, spec_toInt_eq]
  have hD : (0 : Int) < ((2 ^ n : Nat) : Int) := by exact_mod_cast Nat.two_pow_pos n
  obtain ⟨h1, h2⟩ := toSigned_range hn p
  have hM : M2 (n - 1) * 2 = ((2 ^ n : Nat) : Int) := by
    unfold M2
    have : 2 ^ n = 2 ^ (n - 1) * 2 := by rw [← Nat.pow_succ]; congr 1; omega
    rw [this]; push_cast; ring
  symm
  by_cases hx : 0 ≤ toSigned n p
  · exact Int.tdiv_eq_zero_of_lt hx (by omega)
  · have e : toSigned n p = -(-toSigned n p) := by ring
    rw [e, Int.neg_tdiv, Int.tdiv_eq_zero_of_lt (by omega) (by omega)]
    rfl

/-- the witness of the former defect `fixpnt.to_signed.floor_of_negative`: fixpnt<8,4> 0xF8 (= −0.5) read as int32 is 0 -/
theorem C04_fixpnt_to_signed_witness :
    toSigned 32 (toSignedPat 8 4 32 0xF8) = 0 ∧ (toSigned 8 0xF8).tdiv (((2 ^ 4 : Nat) : Int)) = 0 := by decide

/-- `to_unsigned<NativeInt>` = `static_cast<NativeInt>(to_signed<long long>())`: every NON-NEGATIVE encoding whose truncated value
    fits the unsigned target type (p / 2^r < 2^sz) is read as that value; n − r ≤ 64 as for the signed read.
    This is the full C04 clause for unsigned integer reads (a negative value does not fit an unsigned type). -/
theorem C04_fixpnt_to_unsigned (hr : r < n) (h64 : n - r ≤ 64) (hp : p < 2 ^ (n - 1)) (hsz : p / 2 ^ r < 2 ^ sz) :
    ((toUnsignedPat n r sz p : Nat) : Int) = ConvFixpntSpec.toInt n r p := by
  have hn0 : 0 < n := by omega
  have hlt : p < 2 ^ n := Nat.lt_of_lt_of_le hp (Nat.pow_le_pow_right (by omega) (by omega))
  rw [toUnsignedPat_nonneg hr h64 hp hsz, spec_toInt_eq, toSigned_of_lt hn0 hlt, if_pos hp,
    Int.tdiv_eq_ediv_of_nonneg (by omega), Int.natCast_ediv]

example : (4 : Nat) < 8 ∧ 8 - 4 ≤ 64 ∧ 0x18 < 2 ^ (8 - 1) ∧ 0x18 / 2 ^ 4 < 2 ^ 32 := by decide

/-- the witness of the former defect `fixpnt.to_unsigned.raw_pattern`: fixpnt<8,4> 0x18 (= 1.5) read as uint32 is 1 (was 24) -/
theorem C04_fixpnt_to_unsigned_witness :
    toUnsignedPat 8 4 32 0x18 = 1 ∧ (toSigned 8 0x18).tdiv (((2 ^ 4 : Nat) : Int)) = 1 := by decide

/-- … so the unsigned read is the encoding itself for rbits = 0 -/
theorem C04_fixpnt_to_unsigned_rbits0 (hn0 : 0 < n) (hn : n ≤ 64) (hp : p < 2 ^ (n - 1)) (hsz : p < 2 ^ sz) :
    toUnsignedPat n 0 sz p = p := by
  have := toUnsignedPat_nonneg (n := n) (r := 0) (sz := sz) (p := p) hn0 (by omega) hp (by simpa using hsz)
  simpa using this

example : (0 : Nat) < 12 ∧ 12 ≤ 64 ∧ 0x7ab < 2 ^ (12 - 1) ∧ 0x7ab < 2 ^ 16 ∧ toUnsignedPat 12 0 16 0x7ab = 0x7ab := by decide

/-! ### converting back returns the encoding -/

/-- fixpnt → double → fixpnt, Modulo: for nbits ≤ 53 the encoding comes back, for every rbits ≤ nbits and every encoding (maxneg
    included).  The double is normal with exponent ⌊log2|x|⌋ − rbits (x the raw integer), `convert` shifts the 53-bit significand
    right by 52 − ⌊log2|x|⌋ ≥ 0 — the discarded bits are zero, the guard/round/sticky rounding does nothing — stores the magnitude
    with `setbits` and two's-complements a negative result in nbits. -/
theorem C04_fixpnt_roundtrip_double_modulo (hr : r ≤ n) (hn0 : 0 < n) (hn : n ≤ 53) (hp : p < 2 ^ n) :
    fromIeee n r false 11 52 (toBits64 (toNative binary64 n r p)) = p :=
  roundtrip_double hr hn0 hn hp

example : (4 : Nat) ≤ 8 ∧ (8 : Nat) ≤ 53 ∧ 0x80 < 2 ^ 8 := by decide
example : toBits64 (toNative binary64 8 4 0xE8) = 0xBFF8000000000000 := by decide +kernel   -- −1.5

/-- fixpnt → double → fixpnt, Saturate: the same.  The double read from the encoding is ±X·2^−rbits exactly; the Saturate range
    test compares it with `float(maxpos)` / `float(maxneg)` (single precision: float(maxpos) is 2^(nbits−1−rbits) for
    nbits > 25), the value is inside [maxneg, maxpos], and the conversion is the clamp of the correctly rounded scaled value
    (`C03_fixpnt_from_ieee_saturate`) — the raw integer itself. -/
theorem C04_fixpnt_roundtrip_double_saturate (hr : r ≤ n) (hn0 : 0 < n) (hn : n ≤ 53) (hp : p < 2 ^ n) :
    fromIeee n r true 11 52 (toBits64 (toNative binary64 n r p)) = p :=
  roundtrip_double_sat hr hn0 hn hp

example : fromIeee 26 20 true 11 52 (toBits64 (toNative binary64 26 20 0x1ffffff)) = 0x1ffffff := by decide +kernel

/-- the full round-trip clause for double: both arithmetic modes, every nbits ≤ 53, rbits ≤ nbits, every encoding -/
theorem C04_fixpnt_roundtrip_full (n r : Nat) (sat : Bool) (p : Nat) (hr : r ≤ n) (hn0 : 0 < n) (hn : n ≤ 53) (hp : p < 2 ^ n) :
    fromIeee n r sat 11 52 (toBits64 (toNative binary64 n r p)) = p := by
  cases sat
  · exact C04_fixpnt_roundtrip_double_modulo hr hn0 hn hp
  · exact C04_fixpnt_roundtrip_double_saturate hr hn0 hn hp

/-- the exact structural result of `to_native`: sign and magnitude (in units of 2^-fmt.q) of the result -/
theorem C04_fixpnt_to_native_fin (fmt : Fmt) (ok : fmt.Ok) (hr : r ≤ fmt.q) (hn : n ≤ fmt.p)
    (htop : n + fmt.q - r ≤ fmt.top) (hp : p < 2 ^ n) :
    toNative fmt n r p =
      if signP n p then F.fin true (twosComp n p * 2 ^ (fmt.q - r)) else F.fin false (p * 2 ^ (fmt.q - r)) := by
  rw [toNative_eq]
  by_cases h : signP n p = true
  · rw [if_pos h, if_pos h]
    have hmlt : twosComp n p < 2 ^ n := by unfold twosComp; exact Nat.mod_lt _ (Nat.two_pow_pos n)
    rw [toNative_fin fmt ok hr hn htop hmlt]; rfl
  · rw [if_neg h, if_neg h, Nat.mod_eq_of_lt hp, toNative_fin fmt ok hr hn htop hp]
