/-
  Property C04, fixpnt clause — "read-back to a native floating-point type wide enough to hold the value is exact …; integer reads
  return the exact value truncated toward zero whenever that fits the integer type".

  The theorems are about the models `UVerif.ConvFixpnt.toNative / toSignedPat / toUnsignedPat` (lean/UVerif/Model/ConvFixpnt.lean,
  transcribed from `to_native<TargetFloat>`, `to_signed<NativeInt>`, `to_unsigned<NativeInt>`, fixpnt_impl.hpp:773-831) for EVERY
  nbits / rbits / encoding; the floating-point target is a format parameter `fmt` of the F64 model (binary64, binary32, …).
  Right-hand sides: `ConvFixpntSpec.value n r p` (= toSigned n p / 2^r, a Rat) and `ConvFixpntSpec.toInt n r p` (truncation toward zero).

  What holds of the pinned code:
    * `to_native` is exact whenever nbits ≤ the precision of the target (53 for double, 24 for float), the zero encoding reads +0;
    * `to_signed` returns the FLOOR of the value (whenever the integer part fits the target type) — that is the truncation toward
      zero only for values ≥ 0 and for integers;
    * `to_unsigned` returns the RAW bit pattern: exact only for rbits = 0.
-/
import UVerifProofs.Lemmas.ConvFixpntTo

open UVerif UVerif.F64 UVerif.ConvFixpnt UVerif.Limbs

variable {n r p sz : Nat}

/-- `to_native<TargetFloat>`: for a target format `fmt` (precision fmt.p, smallest subnormal 2^-fmt.q, overflow threshold 2^fmt.top
    units) with r ≤ fmt.q (the ulp 2^-r is representable), n ≤ fmt.p (the encoding fits the significand) and n + fmt.q − r ≤ fmt.top
    (no overflow): the result is finite, is a number of the format, and its exact value IS the value of the encoding.  Every partial sum
    of the accumulation loop has at most nbits significant bits, so every `value += multiplier` is exact. -/
theorem C04_fixpnt_to_native (fmt : Fmt) (ok : fmt.Ok) (hr : r ≤ fmt.q) (hn0 : 0 < n) (hn : n ≤ fmt.p)
    (htop : n + fmt.q - r ≤ fmt.top) (hp : p < 2 ^ n) :
    (toNative fmt n r p).Rep fmt ∧ F64.toRat fmt (toNative fmt n r p) = ConvFixpntSpec.value n r p := by
  obtain ⟨h1, h2, h3⟩ := toNative_spec fmt ok hr hn0 hn htop hp
  exact ⟨⟨h1, h2⟩, h3⟩

example : binary64.Ok ∧ (4 : Nat) ≤ binary64.q ∧ (8 : Nat) ≤ binary64.p ∧ 8 + binary64.q - 4 ≤ binary64.top ∧ 0xF8 < 2 ^ 8 :=
  ⟨binary64_ok, by decide, by decide, by decide, by decide⟩
-- fixpnt<8,4> 0xF8 = −0.5 : sign set, magnitude 2^1073 units of 2^-1074
example : toNative binary64 8 4 0xF8 = F.fin true (2 ^ 1073) := by decide +kernel

/-- double: every fixpnt of at most 53 bits reads back exactly (no overflow hypothesis: 53 + 1074 ≤ 2098) -/
theorem C04_fixpnt_to_double (hr : r ≤ 1074) (hn0 : 0 < n) (hn : n ≤ 53) (hp : p < 2 ^ n) :
    (toNative binary64 n r p).Rep binary64 ∧ F64.toRat binary64 (toNative binary64 n r p) = ConvFixpntSpec.value n r p := by
  have hq : binary64.q = 1074 := by decide
  have hP : binary64.p = 53 := by decide
  have hT : binary64.top = 2098 := by decide
  exact C04_fixpnt_to_native binary64 binary64_ok (by rw [hq]; exact hr) hn0 (by rw [hP]; exact hn) (by rw [hq, hT]; omega) hp

/-- float: every fixpnt of at most 24 bits reads back exactly (24 + 149 ≤ 277) -/
theorem C04_fixpnt_to_float (hr : r ≤ 149) (hn0 : 0 < n) (hn : n ≤ 24) (hp : p < 2 ^ n) :
    (toNative binary32 n r p).Rep binary32 ∧ F64.toRat binary32 (toNative binary32 n r p) = ConvFixpntSpec.value n r p := by
  have hq : binary32.q = 149 := by decide
  have hP : binary32.p = 24 := by decide
  have hT : binary32.top = 277 := by decide
  exact C04_fixpnt_to_native binary32 binary32_ok (by rw [hq]; exact hr) hn0 (by rw [hP]; exact hn) (by rw [hq, hT]; omega) hp

example : F64.toRat binary32 (toNative binary32 24 10 0x800001) = ConvFixpntSpec.value 24 10 0x800001 :=
  (C04_fixpnt_to_float (by decide) (by decide) (by decide) (by decide)).2

/-- sign of zero: the all-zero encoding reads +0 (the loop never touches the accumulator), for every format and configuration -/
theorem C04_fixpnt_to_native_zero (fmt : Fmt) (n r : Nat) : toNative fmt n r 0 = F.fin false 0 := toNative_zero fmt n r

/-- beyond the precision the accumulation rounds: fixpnt<26,0> 0x1ffffff = 2^25 − 1 read as float gives 2^25 (not exact);
    `n ≤ fmt.p` cannot be dropped -/
theorem C04_fixpnt_to_float_wide_counterexample :
    toNative binary32 26 0 0x1ffffff = F.fin false (2 ^ 25 * 2 ^ 149) ∧
    toNative binary32 26 0 0x1ffffff ≠ F.fin false ((2 ^ 25 - 1) * 2 ^ 149) := by decide +kernel

/-- `to_signed<NativeInt>` (NativeInt of `sz` bits, result read as an sz-bit two's complement pattern): whenever the integer part
    fits (n − r ≤ sz, and n − r ≤ 64 — above that the loop is cut at 64 bits) the result is the FLOOR of the value:
    the loop copies the integer-part bits and sign-extends, i.e. an arithmetic shift -/
theorem C04_fixpnt_to_signed_floor (hr : r < n) (hsz : n - r ≤ sz) (h64 : n - r ≤ 64) (hp : p < 2 ^ n) :
    toSigned sz (toSignedPat n r sz p) = toSigned n p / (((2 ^ r : Nat) : Int)) ∧
    toSigned sz (toSignedPat n r sz p) = (ConvFixpntSpec.value n r p).floor := by
  have h := toSignedPat_floor hr hsz h64 hp
  refine ⟨h, ?_⟩
  rw [h]
  unfold ConvFixpntSpec.value
  show _ = ⌊((toSigned n p : Int) : Rat) / ((2 ^ r : Nat) : Rat)⌋
  exact (Rat.floor_intCast_div_natCast _ _).symm

example : (4 : Nat) < 8 ∧ 8 - 4 ≤ 32 ∧ 8 - 4 ≤ 64 ∧ 0xE8 < 2 ^ 8 := by decide
example : toSigned 32 (toSignedPat 8 4 32 0xE8) = -2 := by decide   -- −1.5 reads −2

/-- the specification of the integer read in integer terms: truncation toward zero = `Int.tdiv` of the raw integer by 2^r -/
theorem C04_fixpnt_to_int_spec_int (n r p : Nat) : ConvFixpntSpec.toInt n r p = (toSigned n p).tdiv (((2 ^ r : Nat) : Int)) :=
  spec_toInt_eq n r p

/-- the full C04 clause for signed reads -/
def C04_fixpnt_to_signed_full : Prop :=
  ∀ n r sz p : Nat, r < n → n - r ≤ sz → n - r ≤ 64 → p < 2 ^ n →
    toSigned sz (toSignedPat n r sz p) = ConvFixpntSpec.toInt n r p

/-- `to_signed` agrees with the specification (truncation toward zero) for the values ≥ 0 and for the integers.
    Missing for the full statement: negative non-integers, where the code returns the floor (one below the truncation) — the full
    statement is false, see `C04_fixpnt_to_signed_counterexample`. -/
theorem C04_fixpnt_to_signed_trunc_partial (hr : r < n) (hsz : n - r ≤ sz) (h64 : n - r ≤ 64) (hp : p < 2 ^ n)
    (hv : 0 ≤ toSigned n p ∨ toSigned n p % (((2 ^ r : Nat) : Int)) = 0) :
    toSigned sz (toSignedPat n r sz p) = ConvFixpntSpec.toInt n r p := by
  rw [(C04_fixpnt_to_signed_floor hr hsz h64 hp).1, spec_toInt_eq]
  rcases hv with h | h
  · rw [Int.tdiv_eq_ediv_of_nonneg h]
  · have hd : (((2 ^ r : Nat) : Int)) ∣ toSigned n p := Int.dvd_of_emod_eq_zero h
    rw [Int.tdiv_eq_ediv_of_dvd hd]

example : (0 : Int) ≤ toSigned 8 0x18 ∨ toSigned 8 0x18 % (((2 ^ 4 : Nat) : Int)) = 0 := by decide
example : toSigned 8 0xE0 % (((2 ^ 4 : Nat) : Int)) = 0 ∧ toSigned 32 (toSignedPat 8 4 32 0xE0) = -2 := by decide

/-- fixpnt<8,4> 0xF8 (= −0.5) read as int32: the code returns −1 (floor), the truncation toward zero is 0 -/
theorem C04_fixpnt_to_signed_counterexample : ¬ C04_fixpnt_to_signed_full := by
  intro h
  have := h 8 4 32 0xF8 (by decide) (by decide) (by decide) (by decide)
  rw [spec_toInt_eq] at this
  revert this
  decide

theorem C04_fixpnt_to_signed_floor_counterexample :
    toSigned 32 (toSignedPat 8 4 32 0xF8) = -1 ∧ (toSigned 8 0xF8).tdiv (((2 ^ 4 : Nat) : Int)) = 0 := by decide

/-- the full C04 clause for unsigned reads -/
def C04_fixpnt_to_unsigned_full : Prop :=
  ∀ n r sz p : Nat, r < n → n < 64 → p < 2 ^ (n - 1) → n - r ≤ sz →
    ((toUnsignedPat n sz p : Nat) : Int) = ConvFixpntSpec.toInt n r p

/-- `to_unsigned` ignores the radix point: fixpnt<8,4> 0x18 (= 1.5) read as uint32 returns 24 (the raw pattern), the truncation is 1 -/
theorem C04_fixpnt_to_unsigned_counterexample : ¬ C04_fixpnt_to_unsigned_full := by
  intro h
  have := h 8 4 32 0x18 (by decide) (by decide) (by decide) (by decide)
  rw [spec_toInt_eq] at this
  revert this
  decide

theorem C04_fixpnt_to_unsigned_raw_counterexample :
    toUnsignedPat 8 32 0x18 = 24 ∧ (toSigned 8 0x18).tdiv (((2 ^ 4 : Nat) : Int)) = 1 := by decide

/-- … so the unsigned read is exact for rbits = 0 (n < 64): every non-negative value that fits the target type is returned -/
theorem C04_fixpnt_to_unsigned_rbits0 (hn0 : 0 < n) (hn : n < 64) (hp : p < 2 ^ (n - 1)) (hsz : p < 2 ^ sz) :
    ((toUnsignedPat n sz p : Nat) : Int) = ConvFixpntSpec.toInt n 0 p := by
  have hlt : p < 2 ^ n := Nat.lt_of_lt_of_le hp (Nat.pow_le_pow_right (by omega) (by omega))
  rw [toUnsignedPat_nonneg hn0 hn hp hsz, spec_toInt_eq, toSigned_of_lt hn0 hlt, if_pos hp]
  simp

example : (0 : Nat) < 12 ∧ 12 < 64 ∧ 0x7ab < 2 ^ (12 - 1) ∧ 0x7ab < 2 ^ 16 ∧ toUnsignedPat 12 16 0x7ab = 0x7ab := by decide

/-- more generally, the unsigned read of a non-negative value is value·2^rbits (the raw integer), whatever rbits is -/
theorem C04_fixpnt_to_unsigned_raw (hn0 : 0 < n) (hn : n < 64) (hp : p < 2 ^ (n - 1)) (hsz : p < 2 ^ sz) :
    toUnsignedPat n sz p = p := toUnsignedPat_nonneg hn0 hn hp hsz

/-! ### converting back returns the encoding -/

/-- the full round-trip clause for double: both arithmetic modes -/
def C04_fixpnt_roundtrip_full : Prop :=
  ∀ (n r : Nat) (sat : Bool) (p : Nat), r ≤ n → 0 < n → n ≤ 53 → p < 2 ^ n →
    fromIeee n r sat 11 52 (toBits64 (toNative binary64 n r p)) = p

/-- fixpnt → double → fixpnt, Modulo (the `sat = false` part of `C04_fixpnt_roundtrip_full`): for nbits ≤ 53 the encoding comes
    back, for every rbits ≤ nbits and every encoding (maxneg included).  The double is normal with exponent ⌊log2|x|⌋ − rbits
    (x the raw integer), `convert` shifts the 53-bit significand right by 52 − ⌊log2|x|⌋ ≥ 0 — the discarded bits are zero, the
    guard/round/sticky rounding does nothing — and two's-complements in 64 bits before `setbits`.
    Missing for the full statement: Saturate, where the range test compares with `float(maxpos)` / `float(maxneg)`, i.e. needs
    the (inexact for nbits > 24) single-precision accumulation of maxpos; sampled true (`…_cfg_…` below), not proved. -/
theorem C04_fixpnt_roundtrip_double_modulo (hr : r ≤ n) (hn0 : 0 < n) (hn : n ≤ 53) (hp : p < 2 ^ n) :
    fromIeee n r false 11 52 (toBits64 (toNative binary64 n r p)) = p :=
  roundtrip_double hr hn0 hn hp

example : (4 : Nat) ≤ 8 ∧ (8 : Nat) ≤ 53 ∧ 0x80 < 2 ^ 8 := by decide
example : toBits64 (toNative binary64 8 4 0xE8) = 0xBFF8000000000000 := by decide +kernel   -- −1.5

/-- a sample of the Saturate round trip (a test, not a theorem about all configurations) -/
theorem C04_fixpnt_roundtrip_cfg_saturate_8_4 :
    ∀ p ∈ [0x00, 0x01, 0x18, 0x7f, 0x80, 0x81, 0xE8, 0xF8, 0xff], fromIeee 8 4 true 11 52 (toBits64 (toNative binary64 8 4 p)) = p := by
  decide +kernel

/-- the exact structural result of `to_native`: sign and magnitude (in units of 2^-fmt.q) of the result -/
theorem C04_fixpnt_to_native_fin (fmt : Fmt) (ok : fmt.Ok) (hr : r ≤ fmt.q) (hn : n ≤ fmt.p)
    (htop : n + fmt.q - r ≤ fmt.top) (hp : p < 2 ^ n) :
    toNative fmt n r p =
      if signP n p then F.fin true (twosComp n p * 2 ^ (fmt.q - r)) else F.fin false (p * 2 ^ (fmt.q - r)) := by
  rw [toNative_eq]
  by_cases h : signP n p = true
  · rw [if_pos h, if_pos h]
    have hmlt : twosComp n p < 2 ^ n := by unfold twosComp; exact Nat.mod_lt _ (Nat.two_pow_pos n)
    rw [toNative_fin fmt ok hr hn htop hmlt]; rfl
  · rw [if_neg h, if_neg h, Nat.mod_eq_of_lt hp, toNative_fin fmt ok hr hn htop hp]
