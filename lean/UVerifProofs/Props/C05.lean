/-
  C05 — quire accumulation is exact, order-independent and partition-independent.
  Property theorems only; helper lemmas live in UVerifProofs/Lemmas/Quire.lean.
  Units: the signed content of a quire state is an integer multiple of 2^-hr (`QState.toInt`).
-/
import UVerifProofs.Lemmas.Quire
import UVerifProofs.Lemmas.Pow2
import UVerifProofs.Lemmas.PositArith
import UVerifProofs.Lemmas.QuireOperand
import Mathlib.Tactic.FieldSimp
import Mathlib.Algebra.BigOperators.Group.List.Basic

open UVerif UVerif.Quire

namespace UVerif.Quire

/-- an accumulation as the segment machinery sees it: sign and aligned magnitude -/
abbrev MOp := Bool × Nat

def MOp.val (o : MOp) : Int := if o.1 then -(o.2 : Int) else (o.2 : Int)

def runOps (L : Layout) (q : QState) (ops : List MOp) : QState :=
  ops.foldl (fun q o => accumulate L q o.1 o.2) q

def sumOps (ops : List MOp) : Int := (ops.map MOp.val).sum

/-- every prefix sum, started from `z`, stays strictly inside the accumulator -/
def Fits (L : Layout) : Int → List MOp → Prop
  | _, [] => True
  | z, o :: rest => (z + o.val).natAbs < 2 ^ L.tot ∧ Fits L (z + o.val) rest

/-- every operand lies in the range the quire accepts (scale ≤ half_range ⇒ below 2^(hr+ur)) -/
def InRange (L : Layout) (ops : List MOp) : Prop := ∀ o ∈ ops, o.2 < 2 ^ (L.hr + L.ur)

end UVerif.Quire

/-- **Exactness under every history.** For every layout (every nbits, es, capacity), every well-formed canonical
    starting state and every finite sequence of accumulations whose prefix sums stay inside the capacity, the
    three-segment ripple-carry/borrow machinery ends in the state whose signed content is the exact integer sum;
    the state stays well formed and canonical (zero has sign +). -/
theorem C05_history_exact (L : Layout) (ops : List MOp) :
    ∀ (q : QState), q.WF L → q.Canon L → InRange L ops → Fits L (q.toInt L) ops →
      (runOps L q ops).toInt L = q.toInt L + sumOps ops ∧ (runOps L q ops).WF L ∧ (runOps L q ops).Canon L := by
  induction ops with
  | nil => intro q hq hc _ _; simp [runOps, sumOps, hq, hc]
  | cons o rest ih =>
    intro q hq hc hr hf
    obtain ⟨hf1, hf2⟩ := hf
    have hA : o.2 < 2 ^ (L.hr + L.ur) := hr o (List.mem_cons_self)
    have hfit : q.sign = o.1 → q.mag L + o.2 < 2 ^ L.tot := by
      intro hs
      unfold QState.toInt MOp.val at hf1
      rw [hs] at hf1
      cases h1 : o.1 <;> simp [h1] at hf1 <;> omega
    obtain ⟨e, w, c⟩ := accumulate_spec L q o.1 o.2 hq hc hA hfit
    have e' : (accumulate L q o.1 o.2).toInt L = q.toInt L + o.val := e
    have := ih (accumulate L q o.1 o.2) w c (fun x hx => hr x (List.mem_cons_of_mem _ hx)) (by rw [e']; exact hf2)
    obtain ⟨e2, w2, c2⟩ := this
    refine ⟨?_, w2, c2⟩
    show (runOps L (accumulate L q o.1 o.2) rest).toInt L = _
    rw [e2, e']
    simp [sumOps, List.map_cons, List.sum_cons]; ring

/-- **Order independence, bit for bit.** Two histories that are permutations of each other, both within capacity,
    leave the quire in the *same state* (sign and all three segments), not merely the same value. -/
theorem C05_perm (L : Layout) (q : QState) (ops ops' : List MOp) (hq : q.WF L) (hc : q.Canon L)
    (hp : ops.Perm ops') (hr : InRange L ops) (hf : Fits L (q.toInt L) ops) (hf' : Fits L (q.toInt L) ops') :
    runOps L q ops = runOps L q ops' := by
  have hr' : InRange L ops' := fun o ho => hr o (hp.mem_iff.2 ho)
  obtain ⟨e, w, c⟩ := C05_history_exact L ops q hq hc hr hf
  obtain ⟨e', w', c'⟩ := C05_history_exact L ops' q hq hc hr' hf'
  apply state_ext L _ _ w w' c c'
  rw [e, e']
  congr 1
  exact (hp.map _).sum_eq

/-- **Partition independence.** Splitting a history into two partial quires and merging them with
    `quire += quire` (which goes through `to_value()`) gives the same state as accumulating everything in one
    quire — provided each run stays within capacity and the merged-in partial sum lies in the range of a
    posit product (the property's stated precondition for quire-to-quire addition). -/
theorem C05_partition (L : Layout) (l r : List MOp)
    (hl : InRange L l) (hr : InRange L r)
    (fl : Fits L 0 l) (fr : Fits L 0 r) (fall : Fits L 0 (l ++ r))
    (hrange : (runOps L {} r).mag L < 2 ^ (L.hr + L.ur))
    (hmerge : ((sumOps l) + (sumOps r)).natAbs < 2 ^ L.tot) :
    addQuire L (runOps L {} l) (runOps L {} r) = .ok (runOps L {} (l ++ r)) := by
  have w0 : ({} : QState).WF L := ⟨Nat.two_pow_pos _, Nat.two_pow_pos _, Nat.two_pow_pos _⟩
  have c0 : ({} : QState).Canon L := fun _ => rfl
  have z0 : ({} : QState).toInt L = 0 := by simp [QState.toInt, QState.mag]
  obtain ⟨el, wl, cl⟩ := C05_history_exact L l {} w0 c0 hl (by rw [z0]; exact fl)
  obtain ⟨er, wr, cr⟩ := C05_history_exact L r {} w0 c0 hr (by rw [z0]; exact fr)
  have hall : InRange L (l ++ r) := fun o ho => by
    rcases List.mem_append.1 ho with h | h
    · exact hl o h
    · exact hr o h
  obtain ⟨ea, wa, ca⟩ := C05_history_exact L (l ++ r) {} w0 c0 hall (by rw [z0]; exact fall)
  rw [z0, Int.zero_add] at el er ea
  set q1 := runOps L {} l
  set q2 := runOps L {} r
  unfold addQuire addValue
  by_cases hz : q2.mag L = 0
  · -- merging an empty partial quire changes nothing
    rw [toValue_zero L q2 hz]
    show Except.ok q1 = _
    congr 1
    apply state_ext L _ _ wl wa cl ca
    have : q2.toInt L = 0 := by unfold QState.toInt; rw [hz]; simp
    have h2 : sumOps r = 0 := by rw [← er]; exact this
    rw [el, ea]
    unfold sumOps at h2 ⊢
    rw [List.map_append, List.sum_append, h2, Int.add_zero]
  · obtain ⟨hzv, hal⟩ := aligned_toValue L q2 wr hz
    -- the scale of to_value() is within the accepted range because the magnitude is below 2^(hr+ur)
    have hscale : ¬ ((toValue L q2).scale > (L.hr : Int)) ∧ ¬ ((toValue L q2).scale < -(L.hr : Int)) := by
      unfold toValue
      simp only [hz, if_false]
      have hlo : 2 ^ (q2.mag L).log2 ≤ q2.mag L := Nat.log2_self_le hz
      have : (q2.mag L).log2 < L.hr + L.ur := by
        by_contra hcon
        have := Nat.pow_le_pow_right (show 0 < 2 by decide) (Nat.le_of_not_lt hcon)
        omega
      unfold Layout.ur at this
      constructor <;> omega
    rw [hzv]
    simp only [Bool.false_eq_true, if_false, hscale.1, hscale.2, hal]
    congr 1
    have hsgn : (toValue L q2).sign = q2.sign := by unfold toValue; simp only [hz, if_false]
    rw [hsgn]
    have hfit : q1.sign = q2.sign → q1.mag L + q2.mag L < 2 ^ L.tot := by
      intro hs
      rw [← el, ← er] at hmerge
      unfold QState.toInt at hmerge
      rw [hs] at hmerge
      cases h2 : q2.sign <;> simp [h2] at hmerge <;> omega
    obtain ⟨e, w, c⟩ := accumulate_spec L q1 q2.sign (q2.mag L) wl cl hrange hfit
    apply state_ext L _ _ w wa c ca
    rw [e, ea, el]
    have : (if q2.sign then -(q2.mag L : Int) else (q2.mag L : Int)) = sumOps r := by rw [← er]; rfl
    rw [this]
    simp [sumOps, List.map_append, List.sum_append]

/-- Non-vacuity: a concrete history on the quire<8,1,6> layout that changes sign twice and cancels to zero
    satisfies the hypotheses of `C05_history_exact`. -/
example : let L := layoutOf 8 1 6
    InRange L [(false, 5), (true, 9), (false, 4)] ∧ Fits L 0 [(false, 5), (true, 9), (false, 4)] := by
  refine ⟨?_, ?_⟩
  · intro o ho; simp at ho; rcases ho with rfl | rfl | rfl <;> decide
  · simp [Fits, MOp.val, layoutOf, Layout.tot, Layout.ur]

/-- The quire's own range test (`scale ≤ half_range`) implies the operand bits land below the capacity
    segment, which is the `InRange` hypothesis of the theorems above. -/
theorem C05_aligned_in_range (L : Layout) (fb frac : Nat) (scale : Int) (hf : frac < 2 ^ fb)
    (hs : scale ≤ (L.hr : Int)) : aligned L fb frac scale < 2 ^ (L.hr + L.ur) := by
  unfold aligned
  simp only [Nat.shiftLeft_eq, Nat.shiftRight_eq_div_pow]
  have hF : 2 ^ fb + frac < 2 ^ (fb + 1) := by rw [Nat.pow_succ]; omega
  split
  · rename_i h
    have hk : ((L.hr : Int) + scale - (fb : Int)).toNat + (fb + 1) ≤ L.hr + L.ur := by unfold Layout.ur; omega
    calc (2 ^ fb + frac) * 2 ^ ((L.hr : Int) + scale - (fb : Int)).toNat
        < 2 ^ (fb + 1) * 2 ^ ((L.hr : Int) + scale - (fb : Int)).toNat :=
          Nat.mul_lt_mul_of_pos_right hF (Nat.two_pow_pos _)
      _ = 2 ^ (((L.hr : Int) + scale - (fb : Int)).toNat + (fb + 1)) := by rw [← Nat.pow_add, Nat.add_comm]
      _ ≤ 2 ^ (L.hr + L.ur) := Nat.pow_le_pow_right (by decide) hk
  · rename_i h
    have hk : fb + 1 ≤ (-((L.hr : Int) + scale - (fb : Int))).toNat + (L.hr + L.ur) := by unfold Layout.ur; omega
    apply (Nat.div_lt_iff_lt_mul (Nat.two_pow_pos _)).2
    calc 2 ^ fb + frac < 2 ^ (fb + 1) := hF
      _ ≤ 2 ^ ((-((L.hr : Int) + scale - (fb : Int))).toNat + (L.hr + L.ur)) := Nat.pow_le_pow_right (by decide) hk
      _ = 2 ^ (L.hr + L.ur) * 2 ^ (-((L.hr : Int) + scale - (fb : Int))).toNat := by rw [← Nat.pow_add, Nat.add_comm]

/-- `operator+=(value)` on an accepted, non-zero operand is exactly one `accumulate` step. -/
theorem C05_addValue_is_accumulate (L : Layout) (q : QState) (v : Posit.Val) (hz : v.zero = false)
    (h1 : v.scale ≤ (L.hr : Int)) (h2 : -(L.hr : Int) ≤ v.scale) :
    addValue L q v = .ok (accumulate L q v.sign (aligned L v.fb v.frac v.scale)) := by
  unfold addValue
  simp only [hz, Bool.false_eq_true, if_false]
  rw [if_neg (by omega), if_neg (by omega)]

/-! ### the single rounding (uses C01 `convert_correct`) -/

/-- the exact rational content of a quire state: signed integer content times 2^-hr -/
def UVerif.Quire.QState.toRat (L : Layout) (q : QState) : ℚ := (q.toInt L : ℚ) * pow2 (-(L.hr : Int))

/-- **to_value() is exact.** For every layout and every well-formed non-empty state the (sign, scale, fraction) triple
    handed to the rounding step denotes exactly the quire's content. -/
theorem C05_to_value_exact (L : Layout) (q : QState) (hq : q.WF L) (hM : q.mag L ≠ 0) :
    (toValue L q).toRat = q.toRat L := by
  have hlt := mag_lt L q hq
  rw [tot_eq] at hlt
  unfold toValue QState.toRat QState.toInt
  simp only [hM, if_false]
  generalize q.mag L = M at *
  have hlo : 2 ^ M.log2 ≤ M := Nat.log2_self_le hM
  have hhi : M < 2 ^ (M.log2 + 1) := Nat.lt_log2_self
  have hmsb : M.log2 ≤ L.qbits := by
    by_contra hc
    have := Nat.pow_le_pow_right (show 0 < 2 by decide) (show L.qbits + 1 ≤ M.log2 by omega)
    omega
  generalize M.log2 = m at *
  unfold Posit.Val.toRat
  simp only [Bool.false_eq_true, if_false, Nat.shiftLeft_eq]
  have e1 : ((m : Int) - (L.hr : Int)) = (-(L.hr : Int)) + ((m : Nat) : Int) := by ring
  rw [e1, UVerif.pow2_add, UVerif.pow2_natCast]
  have hq2 : (2 ^ L.qbits : Nat) = 2 ^ (L.qbits - m) * 2 ^ m := by rw [← Nat.pow_add]; congr 1; omega
  have hval : (1 + (((M - 2 ^ m) * 2 ^ (L.qbits - m) : Nat) : ℚ) / ((2 ^ L.qbits : Nat) : ℚ)) * ((2 ^ m : Nat) : ℚ) = (M : ℚ) := by
    rw [hq2]
    push_cast [Nat.cast_sub hlo]
    have p1 : (0 : ℚ) < 2 ^ (L.qbits - m) := by positivity
    have p2 : (0 : ℚ) < 2 ^ m := by positivity
    field_simp
    ring
  have hp := UVerif.pow2_pos (-(L.hr : Int))
  cases hs : q.sign
  · simp only [Bool.false_eq_true, if_false]
    calc _ = (1 + (((M - 2 ^ m) * 2 ^ (L.qbits - m) : Nat) : ℚ) / ((2 ^ L.qbits : Nat) : ℚ)) * ((2 ^ m : Nat) : ℚ) * pow2 (-(L.hr : Int)) := by ring
      _ = _ := by rw [hval]; push_cast; ring
  · simp only [if_true]
    calc _ = -((1 + (((M - 2 ^ m) * 2 ^ (L.qbits - m) : Nat) : ℚ) / ((2 ^ L.qbits : Nat) : ℚ)) * ((2 ^ m : Nat) : ℚ) * pow2 (-(L.hr : Int))) := by ring
      _ = _ := by rw [hval]; push_cast; ring

/-- **One rounding.** Converting a well-formed non-empty quire to a posit returns the posit the Standard selects for the
    quire's exact content — for every posit configuration, every capacity. With `C05_history_exact` this makes fdp and the
    fused matrix products the correctly rounded exact results, independent of order and partitioning. -/
theorem C05_round_once (n es : Nat) (hn : 2 ≤ n) (L : Layout) (q : QState) (hq : q.WF L) (hM : q.mag L ≠ 0) :
    Posit.PositNearest n es (q.toRat L) (roundToPosit n es L q) := by
  rw [← C05_to_value_exact L q hq hM]
  unfold roundToPosit
  apply Posit.convert_val_correct n es hn
  have hlt := mag_lt L q hq
  rw [tot_eq] at hlt
  unfold toValue
  simp only [hM, if_false]
  refine ⟨rfl, rfl, ?_⟩
  simp only [Nat.shiftLeft_eq]
  have hlo : 2 ^ (q.mag L).log2 ≤ q.mag L := Nat.log2_self_le hM
  have hhi : q.mag L < 2 ^ ((q.mag L).log2 + 1) := Nat.lt_log2_self
  have hmsb : (q.mag L).log2 ≤ L.qbits := by
    by_contra hc
    have := Nat.pow_le_pow_right (show 0 < 2 by decide) (show L.qbits + 1 ≤ (q.mag L).log2 by omega)
    omega
  have e : 2 ^ L.qbits = 2 ^ (q.mag L).log2 * 2 ^ (L.qbits - (q.mag L).log2) := by rw [← Nat.pow_add]; congr 1; omega
  rw [e]
  apply Nat.mul_lt_mul_of_pos_right _ (Nat.two_pow_pos _)
  rw [Nat.pow_succ] at hhi; omega

/-! ### the operands of the property lose nothing at alignment; value-level exactness -/

/-- **A posit operand is accumulated without loss.** For every nbits ≥ 2 (the quire itself requires nbits ≥ 3), every es,
    every capacity and every real-valued non-zero encoding `a`: the bits that land in the quire denote exactly |a|
    (nothing falls below the quire's lsb), the scale lies within ±half_range, so `operator+=` never throws. -/
theorem C05_posit_operand_exact (n es cap a : Nat) (hn : 2 ≤ n) (ha : a < 2 ^ n) (h0 : a ≠ 0)
    (hnar : a ≠ 2 ^ (n - 1)) :
    Posit.positVal n es a = some (Posit.decode n es a).toRat ∧
    ((aligned (layoutOf n es cap) (Posit.decode n es a).fb (Posit.decode n es a).frac
        (Posit.decode n es a).scale : Nat) : ℚ) * 2 ^ (-((layoutOf n es cap).hr : Int))
      = |(Posit.decode n es a).toRat| ∧
    -((layoutOf n es cap).hr : Int) ≤ (Posit.decode n es a).scale ∧
    (Posit.decode n es a).scale ≤ ((layoutOf n es cap).hr : Int) ∧
    ∀ q, addValue (layoutOf n es cap) q (Posit.decode n es a) =
      .ok (accumulate (layoutOf n es cap) q (Posit.decode n es a).sign
        (aligned (layoutOf n es cap) (Posit.decode n es a).fb (Posit.decode n es a).frac
          (Posit.decode n es a).scale)) := by
  obtain ⟨N, rfl⟩ : ∃ N, n = N + 2 := ⟨n - 2, by omega⟩
  obtain ⟨hfin, _, hv, _⟩ := decode_abs N es a ha h0 hnar
  obtain ⟨e1, e2, e3⟩ := posit_operand_exact N es cap a ha h0 hnar
  exact ⟨hv, e1, e2, e3, fun q => C05_addValue_is_accumulate _ q _ hfin.nz e3 e2⟩

/-- non-vacuity: minpos of posit<16,2> (scale −56, regime fills the encoding) in the quire<16,2,30> -/
example := C05_posit_operand_exact 16 2 30 0x0001 (by decide) (by decide) (by decide) (by decide)

/-- **An exact posit product is accumulated without loss.** `quire_mul(a,b)` of two real-valued non-zero posits is the exact
    product, a whole multiple of 2^-half_range = minpos², with scale within ±half_range: nothing is dropped, nothing throws. -/
theorem C05_product_operand_exact (n es cap a b : Nat) (hn : 2 ≤ n) (ha : a < 2 ^ n) (ha0 : a ≠ 0)
    (hanar : a ≠ 2 ^ (n - 1)) (hb : b < 2 ^ n) (hb0 : b ≠ 0) (hbnar : b ≠ 2 ^ (n - 1)) :
    quireMul n es a b = Posit.moduleMul (Posit.fbitsOf n es) (Posit.decode n es a) (Posit.decode n es b) ∧
    (∀ x y, Posit.positVal n es a = some x → Posit.positVal n es b = some y →
      (quireMul n es a b).toRat = x * y) ∧
    ((aligned (layoutOf n es cap) (quireMul n es a b).fb (quireMul n es a b).frac
        (quireMul n es a b).scale : Nat) : ℚ) * 2 ^ (-((layoutOf n es cap).hr : Int))
      = |(quireMul n es a b).toRat| ∧
    -((layoutOf n es cap).hr : Int) ≤ (quireMul n es a b).scale ∧
    (quireMul n es a b).scale ≤ ((layoutOf n es cap).hr : Int) ∧
    ∀ q, addValue (layoutOf n es cap) q (quireMul n es a b) =
      .ok (accumulate (layoutOf n es cap) q (quireMul n es a b).sign
        (aligned (layoutOf n es cap) (quireMul n es a b).fb (quireMul n es a b).frac
          (quireMul n es a b).scale)) := by
  obtain ⟨N, rfl⟩ : ∃ N, n = N + 2 := ⟨n - 2, by omega⟩
  obtain ⟨hq, hfin, hval, e1, e2, e3⟩ := product_operand_exact N es cap a b ha ha0 hanar hb hb0 hbnar
  obtain ⟨_, _, hva, _⟩ := decode_abs N es a ha ha0 hanar
  obtain ⟨_, _, hvb, _⟩ := decode_abs N es b hb hb0 hbnar
  refine ⟨hq, ?_, e1, e2, e3, fun q => C05_addValue_is_accumulate _ q _ hfin.nz e3 e2⟩
  intro x y hx hy
  rw [hx] at hva; rw [hy] at hvb
  rw [hval, Option.some.inj hva, Option.some.inj hvb]

/-- non-vacuity: minpos·minpos of posit<16,2> = 2^-112 = one unit in the last place of the quire -/
example := C05_product_operand_exact 16 2 30 0x0001 0x0001 (by decide) (by decide) (by decide) (by decide)
  (by decide) (by decide) (by decide)

theorem C05_toRat_eq_qRat (L : Layout) (q : QState) : q.toRat L = qRat L q := by
  unfold QState.toRat qRat; rw [UVerif.pow2_eq_zpow]

/-- **Exactness of histories at the value level.** For every nbits ≥ 2, es, capacity, and every history of `q += p`, `q -= p`,
    `q += quire_mul(a,b)`, `q -= quire_mul(a,b)` on real-valued posits (exact values `rs`) whose prefix sums stay strictly inside
    the capacity (|Σ| < 2^(upper_range + capacity)): no step throws, the final quire content is exactly Σ rs, and the single
    rounding returns the posit the Standard selects for that exact sum. -/
theorem C05_history_exact_values (n es cap : Nat) (hn : 2 ≤ n) (ops : List Op) (rs : List ℚ)
    (hreal : RealOps n es ops rs)
    (hfit : FitsQ (2 ^ (((layoutOf n es cap).ur + (layoutOf n es cap).cap : Nat) : Int)) 0 rs) :
    ∃ q, ops.foldlM (step n es (layoutOf n es cap)) ({} : QState) = .ok q ∧
      q.WF (layoutOf n es cap) ∧ q.Canon (layoutOf n es cap) ∧
      q.toRat (layoutOf n es cap) = rs.sum ∧
      Posit.PositNearest n es rs.sum (roundToPosit n es (layoutOf n es cap) q) := by
  obtain ⟨N, rfl⟩ : ∃ N, n = N + 2 := ⟨n - 2, by omega⟩
  have w0 : ({} : QState).WF (layoutOf (N + 2) es cap) := ⟨Nat.two_pow_pos _, Nat.two_pow_pos _, Nat.two_pow_pos _⟩
  have c0 : ({} : QState).Canon (layoutOf (N + 2) es cap) := fun _ => rfl
  have z0 : qRat (layoutOf (N + 2) es cap) ({} : QState) = 0 := by simp [qRat, QState.toInt, QState.mag]
  obtain ⟨q, e, w, c, v⟩ := history_spec N es cap ops rs hreal {} w0 c0 (by rw [z0]; exact hfit)
  rw [z0, zero_add] at v
  refine ⟨q, e, w, c, by rw [C05_toRat_eq_qRat, v], ?_⟩
  by_cases hM : q.mag (layoutOf (N + 2) es cap) = 0
  · have hs : rs.sum = 0 := by
      rw [← v]; unfold qRat QState.toInt; rw [hM]; simp
    rw [hs]
    unfold roundToPosit Posit.convert
    rw [if_pos (toValue_zero _ q hM)]
    exact Posit.nearestB_zero (N + 2) es
  · have := C05_round_once (N + 2) es hn _ q w hM
    rw [C05_toRat_eq_qRat, v] at this
    exact this

/-- **fdp is the correctly rounded exact dot product.** If all factors are real-valued and the prefix sums of the exact
    products stay inside the capacity, `fdp` returns (without throwing) the posit the Standard selects for Σ xᵢ·yᵢ. -/
theorem C05_fdp_correctly_rounded (n es cap : Nat) (hn : 2 ≤ n) (xs : List (Nat × Nat)) (rs : List ℚ)
    (hreal : RealOps n es (xs.map fun ab => Op.addM ab.1 ab.2) rs)
    (hfit : FitsQ (2 ^ (((layoutOf n es cap).ur + (layoutOf n es cap).cap : Nat) : Int)) 0 rs) :
    ∃ p, fdp n es cap xs = .ok p ∧ Posit.PositNearest n es rs.sum p := by
  obtain ⟨q, e, _, _, _, hr⟩ := C05_history_exact_values n es cap hn _ rs hreal hfit
  refine ⟨roundToPosit n es (layoutOf n es cap) q, ?_, hr⟩
  unfold fdp
  simp only []
  rw [List.foldlM_map] at e
  rw [e]; rfl

/-- exact values of a real-valued history are a function of the operations -/
theorem C05_realOps_sum (n es : Nat) (ops : List Op) (rs : List ℚ) (h : RealOps n es ops rs) :
    rs.sum = (ops.map fun op => (opReal n es op).getD 0).sum := by
  unfold RealOps at h
  induction h with
  | nil => rfl
  | cons hr _ ih => simp only [List.map_cons, List.sum_cons, ih, hr, Option.getD_some]

/-- **Order independence at the value level.** Two real-valued histories that are permutations of each other, both within
    capacity, end in the same quire state, hence in the same rounded posit: the correctly rounded exact sum. -/
theorem C05_history_perm_values (n es cap : Nat) (hn : 2 ≤ n) (ops ops' : List Op) (rs rs' : List ℚ)
    (hp : ops.Perm ops') (hreal : RealOps n es ops rs) (hreal' : RealOps n es ops' rs')
    (hfit : FitsQ (2 ^ (((layoutOf n es cap).ur + (layoutOf n es cap).cap : Nat) : Int)) 0 rs)
    (hfit' : FitsQ (2 ^ (((layoutOf n es cap).ur + (layoutOf n es cap).cap : Nat) : Int)) 0 rs') :
    rs.sum = rs'.sum ∧
    ops.foldlM (step n es (layoutOf n es cap)) ({} : QState) =
      ops'.foldlM (step n es (layoutOf n es cap)) ({} : QState) := by
  have hsum : rs.sum = rs'.sum := by
    rw [C05_realOps_sum n es ops rs hreal, C05_realOps_sum n es ops' rs' hreal']
    exact (hp.map _).sum_eq
  obtain ⟨q, e, w, c, v, _⟩ := C05_history_exact_values n es cap hn ops rs hreal hfit
  obtain ⟨q', e', w', c', v', _⟩ := C05_history_exact_values n es cap hn ops' rs' hreal' hfit'
  refine ⟨hsum, ?_⟩
  rw [e, e']
  congr 1
  apply state_ext _ _ _ w w' c c'
  rw [C05_toRat_eq_qRat] at v v'
  have h : qRat (layoutOf n es cap) q = qRat (layoutOf n es cap) q' := by rw [v, v', hsum]
  unfold qRat at h
  have hu : (2 : ℚ) ^ (-((layoutOf n es cap).hr : Int)) ≠ 0 := ne_of_gt (Posit.two_zpow_pos _)
  have := mul_right_cancel₀ hu h
  exact_mod_cast this

/-- non-vacuity: posit<8,1>, quire capacity 6: 1 + 1·1.5 − 1, exact values [1, 3/2, −1] -/
example : ∃ q, [Op.addP 0x40, Op.addM 0x40 0x48, Op.subP 0x40].foldlM (step 8 1 (layoutOf 8 1 6)) ({} : QState) = .ok q ∧
    q.toRat (layoutOf 8 1 6) = 3 / 2 := by
  have hreal : RealOps 8 1 [Op.addP 0x40, Op.addM 0x40 0x48, Op.subP 0x40] [1, 3 / 2, -1] := by
    refine List.Forall₂.cons ?_ (List.Forall₂.cons ?_ (List.Forall₂.cons ?_ List.Forall₂.nil)) <;> decide +kernel
  have hfit : FitsQ (2 ^ (((layoutOf 8 1 6).ur + (layoutOf 8 1 6).cap : Nat) : Int)) 0 [1, 3 / 2, -1] := by
    have h31 : (((layoutOf 8 1 6).ur + (layoutOf 8 1 6).cap : Nat) : Int) = 31 := by decide
    rw [h31]
    refine ⟨?_, ?_, ?_, trivial⟩ <;> norm_num
  obtain ⟨q, e, _, _, v, _⟩ := C05_history_exact_values 8 1 6 (by decide) _ _ hreal hfit
  exact ⟨q, e, by rw [v]; norm_num⟩
