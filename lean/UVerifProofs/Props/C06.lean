/-
  C06 — comparisons, stepping and extremes (posit clause).
  The posit comparison operators compare the encodings as two's-complement integers
  (`twosComplementLessThan`); these theorems establish that the model's `<` is a strict total order on
  encodings with NaR least, that `==` is equality of encodings, and that increment and decrement move to the adjacent
  encoding.  That encoding order = real order of the decoded values (`C06_posVal_strictMono`) is the
  obligation of UVerifProofs/Lemmas/PositEnc.lean.
-/
import UVerif.Model.Posit
import Mathlib.Tactic.Ring
import Mathlib.Tactic.Linarith

open UVerif UVerif.Posit

theorem C06_posit_lt_irrefl (n a : Nat) : lt n a a = false := by
  unfold lt; simp

theorem C06_posit_lt_trans (n a b c : Nat) (h1 : lt n a b = true) (h2 : lt n b c = true) : lt n a c = true := by
  unfold lt at *; simp at *; omega

theorem C06_posit_lt_asymm (n a b : Nat) (h : lt n a b = true) : lt n b a = false := by
  unfold lt at *; simp at *; omega

theorem toSigned_eq (n a : Nat) (hn : 0 < n) (ha : a < 2 ^ n) :
    toSigned n a = if a < 2 ^ (n - 1) then (a : Int) else (a : Int) - ((2 ^ n : Nat) : Int) := by
  unfold toSigned
  have hn' : n ≠ 0 := by omega
  simp only [hn', if_false, Nat.mod_eq_of_lt ha]

theorem two_pow_split (n : Nat) (hn : 0 < n) : (2 ^ n : Nat) = 2 * 2 ^ (n - 1) := by
  rw [← Nat.pow_succ']; congr 1; omega

/-- signed reading is injective on n-bit patterns -/
theorem toSigned_inj (n a b : Nat) (hn : 0 < n) (ha : a < 2 ^ n) (hb : b < 2 ^ n)
    (h : toSigned n a = toSigned n b) : a = b := by
  rw [toSigned_eq n a hn ha, toSigned_eq n b hn hb] at h
  have h2 := two_pow_split n hn
  generalize 2 ^ (n - 1) = P at *
  generalize 2 ^ n = Q at *
  subst h2
  split at h <;> split at h <;> omega

/-- trichotomy: exactly one of a < b, a == b, b < a holds for n-bit encodings -/
theorem C06_posit_trichotomy (n a b : Nat) (hn : 0 < n) (ha : a < 2 ^ n) (hb : b < 2 ^ n) :
    (lt n a b = true ∧ eq n a b = false ∧ lt n b a = false) ∨
    (lt n a b = false ∧ eq n a b = true ∧ lt n b a = false) ∨
    (lt n a b = false ∧ eq n a b = false ∧ lt n b a = true) := by
  unfold lt eq
  simp only [Nat.mod_eq_of_lt ha, Nat.mod_eq_of_lt hb, decide_eq_true_eq, decide_eq_false_iff_not, beq_iff_eq,
    beq_eq_false_iff_ne]
  rcases Int.lt_trichotomy (toSigned n a) (toSigned n b) with h | h | h
  · left; refine ⟨h, ?_, by omega⟩; intro e; subst e; omega
  · right; left; exact ⟨by omega, toSigned_inj n a b hn ha hb h, by omega⟩
  · right; right; refine ⟨by omega, ?_, h⟩; intro e; subst e; omega

/-- NaR (the pattern 10…0) is less than every other encoding -/
theorem C06_posit_nar_least (n a : Nat) (hn : 0 < n) (ha : a < 2 ^ n) (hne : a ≠ 2 ^ (n - 1)) :
    lt n (2 ^ (n - 1)) a = true := by
  have h2 := two_pow_split n hn
  have hp : 0 < 2 ^ (n - 1) := Nat.two_pow_pos _
  have hlt : 2 ^ (n - 1) < 2 ^ n := by omega
  unfold lt
  rw [toSigned_eq n a hn ha, toSigned_eq n _ hn hlt]
  generalize 2 ^ (n - 1) = P at *
  generalize 2 ^ n = Q at *
  subst h2
  simp only [Nat.lt_irrefl, if_false, decide_eq_true_eq]
  split <;> omega

/-- increment moves to the next encoding in the signed order, except at maxpos where it wraps to NaR -/
theorem C06_posit_incr (n a : Nat) (hn : 0 < n) (ha : a < 2 ^ n) (hmax : a ≠ 2 ^ (n - 1) - 1) :
    toSigned n (incr n a) = toSigned n a + 1 := by
  have h2 := two_pow_split n hn
  have hp : 0 < 2 ^ (n - 1) := Nat.two_pow_pos _
  have hlt : incr n a < 2 ^ n := Nat.mod_lt _ (Nat.two_pow_pos _)
  rw [toSigned_eq n a hn ha, toSigned_eq n _ hn hlt]
  unfold incr
  by_cases hw : a + 1 < 2 ^ n
  · rw [Nat.mod_eq_of_lt hw]
    generalize 2 ^ (n - 1) = P at *
    generalize 2 ^ n = Q at *
    subst h2
    split <;> split <;> omega
  · have : a + 1 = 2 ^ n := by omega
    rw [this, Nat.mod_self]
    generalize 2 ^ (n - 1) = P at *
    generalize 2 ^ n = Q at *
    subst h2
    split <;> split <;> omega

/-- decrement is the inverse of increment on n-bit encodings -/
theorem C06_posit_decr_incr (n a : Nat) (ha : a < 2 ^ n) : decr n (incr n a) = a := by
  unfold incr decr
  have hp : 0 < 2 ^ n := Nat.two_pow_pos _
  by_cases hw : a + 1 < 2 ^ n
  · rw [Nat.mod_eq_of_lt hw]
    have : a + 1 + 2 ^ n - 1 = a + 2 ^ n := by omega
    rw [this, Nat.add_mod_right, Nat.mod_eq_of_lt ha]
  · have : a + 1 = 2 ^ n := by omega
    rw [this, Nat.mod_self]
    have : 0 + 2 ^ n - 1 = a := by omega
    rw [this, Nat.mod_eq_of_lt ha]

/-- non-vacuity: posit<8,·> encodings 0x7e < 0x7f, and 0x80 (NaR) below both -/
example : lt 8 0x7e 0x7f = true ∧ lt 8 0x80 0x7e = true ∧ incr 8 0x7e = 0x7f := by decide
