import UVerif.Model.PositConv
theorem C06_placeholder : True := trivial
