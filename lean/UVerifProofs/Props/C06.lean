/-
  C06 (posit clause) — comparison of posit encodings is the order of the real values
  (NaR below everything, equal only to itself); increment and decrement step to the adjacent value; extremes.
  All statements are for every nbits ≥ 2, every es, every encoding.
-/
import UVerif.Model.PositConv
import UVerifProofs.Lemmas.PositOrder
open UVerif UVerif.Posit

/-- the value of a magnitude encoding is strictly monotone in the encoding -/
theorem C06_posVal_strictMono (n es y₁ y₂ : ℕ) (hn : 2 ≤ n) (h0 : 0 < y₁) (h12 : y₁ < y₂)
    (h2 : y₂ < 2 ^ (n - 1)) : posVal n es y₁ < posVal n es y₂ :=
  posVal_strictMono n es y₁ y₂ hn h0 h12 h2

example : posVal 16 2 0x7001 < posVal 16 2 0x7002 :=
  C06_posVal_strictMono 16 2 _ _ (by decide) (by decide) (by decide) (by decide)

/-- `operator<` (two's complement comparison of the encodings) is the order of the values, NaR least -/
theorem C06_posit_order (n es a b : ℕ) (hn : 2 ≤ n) (ha : a < 2 ^ n) (hb : b < 2 ^ n) :
    Posit.lt n a b = true ↔ optLt (positVal n es a) (positVal n es b) := by
  rw [optLt_positVal_iff n es a b hn ha hb]; unfold Posit.lt; simp

/-- `operator==` (bit equality) is equality of values (NaR equal to itself only) -/
theorem C06_posit_eq (n es a b : ℕ) (hn : 2 ≤ n) (ha : a < 2 ^ n) (hb : b < 2 ^ n) :
    Posit.eq n a b = true ↔ positVal n es a = positVal n es b := by
  unfold Posit.eq
  rw [Nat.mod_eq_of_lt ha, Nat.mod_eq_of_lt hb]
  simp only [beq_iff_eq]
  exact ⟨fun h => by rw [h], positVal_injective n es a b hn ha hb⟩

/-- trichotomy: exactly the total order of the values -/
theorem C06_posit_trichotomy (n a b : ℕ) (hn : 2 ≤ n) (ha : a < 2 ^ n) (hb : b < 2 ^ n) :
    Posit.lt n a b = true ∨ Posit.eq n a b = true ∨ Posit.lt n b a = true := by
  unfold Posit.lt Posit.eq
  rw [Nat.mod_eq_of_lt ha, Nat.mod_eq_of_lt hb]
  simp only [decide_eq_true_eq, beq_iff_eq]
  rcases lt_trichotomy (toSigned n a) (toSigned n b) with h | h | h
  · exact Or.inl h
  · exact Or.inr (Or.inl (toSigned_injective n a b (by omega) ha hb h))
  · exact Or.inr (Or.inr h)

example : Posit.lt 16 0x8000 0xffff = true ∧ Posit.lt 16 0xffff 0x0001 = true := by decide

/-- `++` yields the next larger value: nothing lies strictly between; the only exception is maxpos -/
theorem C06_posit_step (n es a : ℕ) (hn : 2 ≤ n) (ha : a < 2 ^ n) (hmax : a ≠ maxposEnc n) :
    optLt (positVal n es a) (positVal n es (incr n a)) ∧
    ∀ c, c < 2 ^ n →
      ¬ (optLt (positVal n es a) (positVal n es c) ∧ optLt (positVal n es c) (positVal n es (incr n a))) := by
  have hs := toSigned_incr n a hn ha hmax
  constructor
  · rw [optLt_positVal_iff n es _ _ hn ha (incr_lt n a)]; omega
  · intro c hc
    rw [optLt_positVal_iff n es _ _ hn ha hc, optLt_positVal_iff n es _ _ hn hc (incr_lt n a)]
    omega

/-- at maxpos `++` wraps to NaR -/
theorem C06_posit_step_wrap (n es : ℕ) (hn : 2 ≤ n) :
    incr n (maxposEnc n) = 2 ^ (n - 1) ∧ positVal n es (2 ^ (n - 1)) = none := by
  have hp := two_pow_pred n (by omega)
  have hpos : 0 < 2 ^ (n - 1) := by positivity
  constructor
  · unfold incr maxposEnc
    rw [Nat.sub_add_cancel hpos, Nat.mod_eq_of_lt (by omega)]
  · unfold positVal
    simp only [Nat.mod_eq_of_lt (show 2 ^ (n - 1) < 2 ^ n by omega)]
    simp

/-- `--` yields the next smaller value; the only exception is NaR (which wraps to maxpos) -/
theorem C06_posit_step_decr (n es a : ℕ) (hn : 2 ≤ n) (ha : a < 2 ^ n) (hnar : a ≠ 2 ^ (n - 1)) :
    optLt (positVal n es (decr n a)) (positVal n es a) ∧
    ∀ c, c < 2 ^ n →
      ¬ (optLt (positVal n es (decr n a)) (positVal n es c) ∧ optLt (positVal n es c) (positVal n es a)) := by
  have hid := incr_decr n a ha
  have hne : decr n a ≠ maxposEnc n := by
    intro h
    rw [h, (C06_posit_step_wrap n es hn).1] at hid
    exact hnar hid.symm
  have := C06_posit_step n es (decr n a) hn (decr_lt n a) hne
  rw [hid] at this
  exact this

example : incr 16 0x7ffe = 0x7fff ∧ decr 16 0x0000 = 0xffff := by decide

/-- maxpos = 2^((n-2)·2^es) is the largest value, minpos = 2^(-(n-2)·2^es) the smallest positive one -/
theorem C06_posit_extremes (n es : ℕ) (hn : 2 ≤ n) :
    positVal n es (maxposEnc n) = some ((2 : ℚ) ^ (((n : ℤ) - 2) * ((2 ^ es : ℕ) : ℤ))) ∧
    positVal n es 1 = some ((2 : ℚ) ^ (-((n : ℤ) - 2) * ((2 ^ es : ℕ) : ℤ))) ∧
    (∀ a, a < 2 ^ n → ¬ optLt (positVal n es (maxposEnc n)) (positVal n es a)) ∧
    (∀ a, a < 2 ^ n → ¬ (optLt (positVal n es 0) (positVal n es a) ∧
        optLt (positVal n es a) (positVal n es 1))) := by
  have hp := two_pow_pred n (by omega)
  have hpos : 0 < 2 ^ (n - 1) := by positivity
  have h2 : 2 ≤ 2 ^ n := by
    calc 2 = 2 ^ 1 := rfl
      _ ≤ 2 ^ n := Nat.pow_le_pow_right (by norm_num) (by omega)
  have hmx : maxposEnc n < 2 ^ (n - 1) := by unfold maxposEnc; omega
  have h3 : 2 ≤ 2 ^ (n - 1) := by
    calc 2 = 2 ^ 1 := rfl
      _ ≤ 2 ^ (n - 1) := Nat.pow_le_pow_right (by norm_num) (by omega)
  refine ⟨?_, ?_, ?_, ?_⟩
  · rw [← posVal_maxpos n es hn]
    unfold positVal
    simp only [Nat.mod_eq_of_lt (show maxposEnc n < 2 ^ n by omega)]
    unfold maxposEnc at hmx ⊢
    rw [if_neg (by omega), if_neg (by omega), if_pos (by omega)]
  · rw [← posVal_minpos n es hn]
    unfold positVal
    simp only [Nat.mod_eq_of_lt (show 1 < 2 ^ n by omega)]
    rw [if_neg (by omega), if_neg (by omega), if_pos (by omega)]
  · intro a ha
    rw [optLt_positVal_iff n es _ _ hn (by omega) ha, toSigned_lo n _ (by omega) hmx]
    have := (toSigned_bounds n a (by omega) ha).2
    unfold maxposEnc; push_cast [Nat.cast_sub hpos] at this ⊢; omega
  · intro a ha
    rw [optLt_positVal_iff n es _ _ hn (by omega) ha, optLt_positVal_iff n es _ _ hn ha (by omega),
      toSigned_lo n 0 (by omega) hpos, toSigned_lo n 1 (by omega) (by omega)]
    push_cast; omega
