/-
  C06 (cfloat clauses) — comparisons, stepping, extremes of cfloat: theorems about Model.Cfloat vs Spec.Cfloat.
-/
import UVerifProofs.Lemmas.CfloatVal
import UVerifProofs.Lemmas.CfloatMul
import UVerifProofs.Lemmas.CfloatEq
import UVerifProofs.Lemmas.CfloatLt
import UVerifProofs.Lemmas.CfloatStep
open UVerif UVerif.Cfloat

/-- IEEE equality on denoted values: NaN unequal to everything, −0 = +0 -/
def C06_cfloat_specEq (x y : Val) : Bool :=
  match x, y with
  | .inf s, .inf t => s == t
  | .fin s m, .fin t k => (m == k) && (s == t || m == 0)
  | _, _ => false

/-- IEEE order on denoted values -/
def C06_cfloat_specLt (x y : Val) : Bool :=
  match x, y with
  | .nan _, _ => false
  | _, .nan _ => false
  | .inf s, .inf t => s && !t
  | .inf s, .fin _ _ => s
  | .fin _ _, .inf t => !t
  | .fin s m, .fin t k => decide ((if s then -m else m) < (if t then -k else k))

/-- full statement: `==` is IEEE value equality (NaN unequal to everything, −0 = +0, every encoding that denotes
    zero equal to every other) — FALSE of the code (D3, finding cfloat.eq.bitwise_zero: the repair d3ba933 was withdrawn,
    static/cfloat/logic/logic.cpp uses bit-pattern equality as its reference): `C06_cfloat_eq_full_false` -/
def C06_cfloat_eq_full : Prop :=
  ∀ (c : Cfg) (a b : Nat), c.valid = true → a < 2 ^ c.nbits → b < 2 ^ c.nbits →
    eq c a b = C06_cfloat_specEq (cfVal c a) (cfVal c b)

/-- full statement: `<` is the order of the denoted values -/
def C06_cfloat_lt_full : Prop :=
  ∀ (c : Cfg) (a b : Nat), c.valid = true → a < 2 ^ c.nbits → b < 2 ^ c.nbits →
    lt c a b = C06_cfloat_specLt (cfVal c a) (cfVal c b)

/-- `operator==` as the withdrawn repair d3ba933 had it (two encodings that `iszero()` classifies as zero are equal,
    otherwise as the code): used to state what the block-wise `==` gets right -/
def C06_cfloat_eqZ (c : Cfg) (a b : Nat) : Bool :=
  if isNan c a || isNan c b then false
  else if isZero c a && isZero c b then true
  else a == b

/-- the zero-collapsing equality is IEEE value equality for every valid configuration and every pair of canonical
    encodings: NaN (also the supernormal encodings that read as NaN without supernormals) unequal to everything incl.
    itself; all zero encodings equal; two infinities equal iff same sign; finite non-zero values equal iff the encodings
    are identical (the value map is injective there). -/
theorem C06_cfloat_eqZ_spec : ∀ (c : Cfg) (a b : Nat), c.valid = true → a < 2 ^ c.nbits → b < 2 ^ c.nbits →
    C06_cfloat_eqZ c a b = C06_cfloat_specEq (cfVal c a) (cfVal c b) := by
  intro c a b hv ha hb
  unfold C06_cfloat_eqZ
  rcases cfVal_view c hv a with ⟨ea, na⟩ | ⟨ea, na, ia, za⟩ | ⟨ma, ea, na, ia, za⟩
  · rw [ea, na]; simp [C06_cfloat_specEq]
  · rcases cfVal_view c hv b with ⟨eb, nb⟩ | ⟨eb, nb, ib, zb⟩ | ⟨mb, eb, nb, ib, zb⟩
    · rw [ea, eb, nb]; simp [C06_cfloat_specEq]
    · rw [ea, eb, na, nb, za]
      simp only [Bool.or_self, Bool.false_eq_true, if_false, Bool.false_and, C06_cfloat_specEq]
      -- two infinities: equal encodings iff equal signs
      have hia := (isInf_iff c hv a).mp ia
      have hib := (isInf_iff c hv b).mp ib
      by_cases hs : c.signOf a = c.signOf b
      · have : a = b := enc_eq_of_fields c hv a b ha hb hs (by rw [hia.1, hib.1]) (by rw [hia.2, hib.2])
        simp [this]
      · have : a ≠ b := fun h => hs (by rw [h])
        simp [this, hs]
    · rw [ea, eb, na, nb, za]
      simp only [Bool.or_self, Bool.false_eq_true, if_false, Bool.false_and, C06_cfloat_specEq]
      have : a ≠ b := by
        intro h; rw [h] at ia; rw [ia] at ib; cases ib
      simp [this]
  · rcases cfVal_view c hv b with ⟨eb, nb⟩ | ⟨eb, nb, ib, zb⟩ | ⟨mb, eb, nb, ib, zb⟩
    · rw [ea, eb, nb]; simp [C06_cfloat_specEq]
    · rw [ea, eb, na, nb, zb]
      simp only [Bool.or_self, Bool.false_eq_true, if_false, Bool.and_false, C06_cfloat_specEq]
      have : a ≠ b := by
        intro h; rw [h] at ia; rw [ia] at ib; cases ib
      simp [this]
    · rw [ea, eb, na, nb, za, zb]
      simp only [Bool.or_self, Bool.false_eq_true, if_false, C06_cfloat_specEq]
      have hma := cfVal_fin_fieldMag c hv a ma _ ea
      have hmb := cfVal_fin_fieldMag c hv b mb _ eb
      by_cases h0a : ma = 0
      · by_cases h0b : mb = 0
        · simp [h0a, h0b]
        · have hne : a ≠ b := by
            intro h; rw [h] at hma; rw [← hmb] at hma; exact h0b (hma ▸ h0a)
          simp [h0a, h0b, hne, Ne.symm h0b]
      · by_cases heq : a = b
        · subst heq
          have : mb = ma := by rw [hmb, hma]
          simp [h0a, this]
        · have hmne : ¬ (ma = mb ∧ (c.signOf a = c.signOf b ∨ ma = 0)) := by
            rintro ⟨hm, hs | hz⟩
            · rw [hma, hmb] at hm
              have hnz : fieldMag c (c.expOf a) (c.fracOf a) ≠ 0 := by rw [← hma]; exact h0a
              obtain ⟨he, hf⟩ := fieldMag_inj c _ _ _ _ (fracOf_lt c a) (fracOf_lt c b) hm hnz
              exact heq (enc_eq_of_fields c hv a b ha hb hs he hf)
            · exact h0a hz
          have lhs : (a == b) = false := by simpa using heq
          have rhs : (ma == mb && (c.signOf a == c.signOf b || ma == 0)) = false := by
            rw [Bool.eq_false_iff]; intro hc
            simp only [Bool.and_eq_true, Bool.or_eq_true, beq_iff_eq] at hc
            exact hmne hc
          simp only [h0a, decide_false, Bool.false_and, Bool.false_eq_true, if_false]
          rw [lhs, rhs]

/-- the input class of D3 (`cfloat.eq.bitwise_zero` in the driver): both operands denote zero and the encodings differ -/
def C06_cfloat_eq_zeroAlias (c : Cfg) (a b : Nat) : Bool :=
  (cfVal c a).isZero && (cfVal c b).isZero && a != b

/-- **`==` is value equality outside the class D3**: every valid configuration (any nbits, es, block type, flags), every
    pair of canonical encodings that are not two DIFFERENT encodings of zero. `!=` is the negation in the code and in the
    model's mask, so the same holds for it. -/
theorem C06_cfloat_eq_partial (c : Cfg) (hv : c.valid = true) (a b : Nat) (ha : a < 2 ^ c.nbits) (hb : b < 2 ^ c.nbits)
    (hx : C06_cfloat_eq_zeroAlias c a b = false) :
    eq c a b = C06_cfloat_specEq (cfVal c a) (cfVal c b) := by
  rw [← C06_cfloat_eqZ_spec c a b hv ha hb]
  unfold C06_cfloat_eq_zeroAlias at hx
  rw [cfVal_isZero c hv, cfVal_isZero c hv] at hx
  unfold eq C06_cfloat_eqZ
  by_cases hn : (isNan c a || isNan c b) = true
  · simp [hn]
  · simp only [hn, Bool.false_eq_true, if_false]
    by_cases hz : (isZero c a && isZero c b) = true
    · simp only [hz, if_true]
      rw [hz, Bool.true_and] at hx
      simpa using hx
    · simp [hz]

/-- soundness direction, no guard needed: when `==` answers true the operands denote equal non-NaN values -/
theorem C06_cfloat_eq_sound (c : Cfg) (hv : c.valid = true) (a b : Nat) (ha : a < 2 ^ c.nbits) (hb : b < 2 ^ c.nbits)
    (h : eq c a b = true) : C06_cfloat_specEq (cfVal c a) (cfVal c b) = true := by
  have hab : a = b := by
    unfold eq at h
    by_cases hn : (isNan c a || isNan c b) = true
    · rw [if_pos hn] at h; cases h
    · rw [if_neg hn] at h; simpa using h
  have hx : C06_cfloat_eq_zeroAlias c a b = false := by
    unfold C06_cfloat_eq_zeroAlias; subst hab; simp
  rw [← C06_cfloat_eq_partial c hv a b ha hb hx]; exact h

/-- D3: +0 == −0 is false although both denote zero; witness half-like cfloat<5,2> with subnormals
    (`cfloat 5 2 u8 100 cmp 0 10 => 2a`), and two exponent-0 aliases of zero without subnormals -/
theorem C06_cfloat_eq_counterexample :
    let c : Cfg := { nbits := 5, es := 2, sub := true }
    eq c 0x00 0x10 = false ∧ C06_cfloat_specEq (cfVal c 0x00) (cfVal c 0x10) = true ∧
    eq { c with sub := false } 0x01 0x12 = false ∧
    C06_cfloat_specEq (cfVal { c with sub := false } 0x01) (cfVal { c with sub := false } 0x12) = true ∧
    C06_cfloat_eq_zeroAlias c 0x00 0x10 = true := by
  decide +kernel

theorem C06_cfloat_eq_full_false : ¬ C06_cfloat_eq_full := by
  intro h
  have := h { nbits := 5, es := 2, sub := true } 0x00 0x10 (by decide) (by decide) (by decide)
  revert this
  decide +kernel

/-- D3 for every configuration: the two zero encodings are never `==` although both denote zero -/
theorem C06_cfloat_eq_signed_zero (c : Cfg) (hv : c.valid = true) :
    eq c 0 (signBit c true) = false ∧ (cfVal c 0).isZero = true ∧ (cfVal c (signBit c true)).isZero = true := by
  have sf := signBit_facts c hv true
  have s0 := signBit_facts c hv false
  have e0 : signBit c false = 0 := by unfold signBit; simp
  rw [e0] at s0
  have z1 : isZero c (signBit c true) = true := isZero_of_isZeroEnc c hv _ sf.2.1
  have z0 : isZero c 0 = true := isZero_of_isZeroEnc c hv _ s0.2.1
  refine ⟨?_, by rw [cfVal_isZero c hv, z0], by rw [cfVal_isZero c hv, z1]⟩
  unfold eq
  have hne : (0 == signBit c true) = false := by
    have : 0 < signBit c true := by unfold signBit; simp
    rw [beq_eq_false_iff_ne]; omega
  rw [hne]; simp

/-- non-vacuity of the guard: an ordinary pair, a zero with itself and a NaN with itself are outside the class -/
example : let c : Cfg := { nbits := 5, es := 2, sub := true }
    C06_cfloat_eq_zeroAlias c 0x04 0x05 = false ∧ C06_cfloat_eq_zeroAlias c 0x10 0x10 = false ∧
    eq c 0x10 0x10 = true ∧ eq c 0x0f 0x0f = false := by
  decide +kernel

/-- NaN operands are unordered: all of == < <= > >= are false (so != is true), every configuration -/
theorem C06_cfloat_nan_unordered (c : Cfg) (a b : Nat) (h : isNan c a = true ∨ isNan c b = true) :
    eq c a b = false ∧ lt c a b = false ∧ gt c a b = false ∧ le c a b = false ∧ ge c a b = false := by
  have hn : (isNan c a || isNan c b) = true := by
    rcases h with h | h <;> simp [h]
  unfold eq lt gt le ge
  simp [hn]

/-- `<=` and `>=` are the negations of `>` and `<` on non-NaN operands, `>` is `<` swapped (away from equal infinities) -/
theorem C06_cfloat_derived_ops (c : Cfg) (a b : Nat) (ha : isNan c a = false) (hb : isNan c b = false) :
    le c a b = !gt c a b ∧ ge c a b = !lt c a b := by
  unfold le ge
  simp [ha, hb]

/-- irreflexivity of `<` without subnormals, all widths: x < x is false for every encoding -/
theorem C06_cfloat_lt_irrefl_nosub (c : Cfg) (hs : c.sub = false) (a : Nat) : lt c a a = false := by
  unfold lt
  by_cases hn : isNan c a = true
  · simp [hn]
  · by_cases hi : isInf c a = true
    · simp [hi]
    · have hn' : isNan c a = false := by simpa using hn
      have hi' : isInf c a = false := by simpa using hi
      simp only [hn', hi', hs, Bool.or_self, Bool.false_eq_true, if_false, Bool.and_self, Bool.false_and]
      cases hz : isZero c a <;> cases hsg : c.signOf a <;> simp

/-! ### operator++ / operator-- (after the repairs of D6, isminnegencoding() and the stepping from zero) -/

/-- **++ and -- return canonical encodings** (no bit above nbits) for every valid configuration, every block type and
    every canonical operand, NaN and infinity operands included. This was false before the repair of D6
    (`--` on the all-ones encoding carried into bit nbits whenever the block is wider than the field:
    `cfloat 8 3 u32 100 dec ff => 100`); now the most significant block is masked. -/
theorem C06_cfloat_step_canonical (c : Cfg) (hv : c.valid = true) (a : Nat) (ha : a < 2 ^ c.nbits) :
    incr c a < 2 ^ c.nbits ∧ decr c a < 2 ^ c.nbits :=
  ⟨incr_lt c hv a ha, decr_lt c hv a ha⟩

/-- the former D6 witnesses (single block wider than nbits, and a partially filled top block of three): `--` on the
    all-ones encoding now wraps to 0 modulo 2^nbits -/
theorem C06_cfloat_dec_allones_cfg :
    decr { nbits := 5, es := 2, bt := 8, sub := true } 0x1f = 0 ∧
    decr { nbits := 8, es := 3, bt := 32, sub := true } 0xff = 0 ∧
    decr { nbits := 24, es := 5, bt := 32, sat := true } 0xffffff = 0 ∧
    decr { nbits := 20, es := 5, bt := 8, sub := true } 0xfffff = 0 := by
  decide +kernel

/-- a value is a zero of the configuration: +0, −0 and, without subnormals, every encoding with exponent field 0 -/
def C06_cfloat_isZeroValue (c : Cfg) (a : Nat) : Prop := (cfVal c a).isZero = true
instance (c : Cfg) (a : Nat) : Decidable (C06_cfloat_isZeroValue c a) := by unfold C06_cfloat_isZeroValue; infer_instance

/-- **stepping from zero**: for every valid configuration, every block type and EVERY encoding that denotes zero
    (+0, −0, and the exponent-0 aliases when the configuration has no subnormals) `++` returns the minpos encoding and
    `--` the minneg encoding (smallest subnormal with subnormals, smallest normal without). Before the repair `++(−0)`
    was the quiet-NaN pattern (`cfloat 8 3 u32 100 inc 80 => 7f`) and the aliases stepped to another alias
    (`cfloat 5 2 u8 000 inc 1 => 2`). -/
theorem C06_cfloat_step_zero (c : Cfg) (hv : c.valid = true) (hbt : 1 ≤ c.bt) (a : Nat)
    (hz : C06_cfloat_isZeroValue c a) :
    incr c a = minposEnc c ∧ decr c a = minnegEnc c := by
  unfold C06_cfloat_isZeroValue at hz
  rw [cfVal_isZero c hv] at hz
  exact ⟨incr_of_zero c hv hbt a hz, decr_of_zero c hv hbt a hz⟩

/-- the former witnesses, now positive: ++(−0) = minpos in cfloat<8,3,sub>; the zero aliases 0b00001, 0b10001, 0b10011 of
    cfloat<5,2> without subnormals step to ±minpos (0b00100 / 0b10100) -/
example : let c : Cfg := { nbits := 8, es := 3, bt := 32, sub := true }
    C06_cfloat_isZeroValue c 0x80 ∧ incr c 0x80 = 0x01 ∧ decr c 0x80 = 0x81 := by
  decide +kernel
example : let c : Cfg := { nbits := 5, es := 2, bt := 8 }
    C06_cfloat_isZeroValue c 0x01 ∧ incr c 0x01 = 0x04 ∧ decr c 0x13 = 0x14 ∧ incr c 0x11 = 0x04 := by
  decide +kernel

/-- **`isminnegencoding()` is exact for every number of blocks**: for every valid configuration, every block type and
    every canonical encoding the test is true exactly for the pattern 1.0…0.0…01 (sign bit and bit 0). For more than
    four blocks this was false before the repair of the loop bound (`cfloat 40 8 u8 111 inc 8080000001 => 0`: the block
    below the top one was never compared). -/
theorem C06_cfloat_isminneg_exact (c : Cfg) (hv : c.valid = true) (hbt : 1 ≤ c.bt) (b : Nat) (hb : b < 2 ^ c.nbits) :
    isMinNegEnc c b = (b == c.signMask + 1) :=
  isMinNegEnc_eq c hv hbt b hb

/-- the generic (more than four blocks) `isminnegencoding()` loop now inspects every middle block: the former witness
    0x80.80.00.00.01 of cfloat<40,8,uint8_t> is no longer taken for minneg and steps to the adjacent encoding, minneg
    itself still steps to +0 -/
theorem C06_cfloat_inc_minneg_manyblocks_cfg :
    let c : Cfg := { nbits := 40, es := 8, bt := 8, sub := true, sup := true, sat := true }
    isMinNegEnc c 0x8080000001 = false ∧ incr c 0x8080000001 = 0x8080000000 ∧
    isMinNegEnc c 0x8000000001 = true ∧ incr c 0x8000000001 = 0 ∧
    incr { nbits := 33, es := 8, bt := 8, sub := true } 0x1ad000001 = 0x1ad000000 := by
  decide +kernel

/-- extremes: maxpos/minpos encodings denote the largest / smallest positive values of the spec in a sample of
    configurations (finite lemma; the general statement is `C06_cfloat_extremes_full`) -/
def C06_cfloat_extremes_full : Prop :=
  ∀ (c : Cfg), c.valid = true → c.es ≥ 2 → (c.sat = false ∨ c.sup = false) →
    cfVal c (maxposEnc c) = .fin false (maxFinite c) ∧ cfVal c (maxnegEnc c) = .fin true (maxFinite c) ∧
    cfVal c (minposEnc c) = .fin false (if c.sub then pow2 (1 - c.bias - (c.fbits : Int)) else minNormal c)

theorem C06_cfloat_extremes_cfg_8_3 :
    ∀ sub sup : Bool, let c : Cfg := { nbits := 8, es := 3, sub := sub, sup := sup }
      cfVal c (maxposEnc c) = .fin false (maxFinite c) ∧ cfVal c (maxnegEnc c) = .fin true (maxFinite c) ∧
      cfVal c (minposEnc c) = .fin false (if c.sub then pow2 (1 - c.bias - (c.fbits : Int)) else minNormal c) := by
  decide +kernel

/-- saturating + supernormals: maxpos() is the infinity encoding (known finding), any width -/
theorem C06_cfloat_sat_sup_maxpos_is_inf (c : Cfg) (hv : c.valid = true) (h1 : c.sat = true) (h2 : c.sup = true) :
    isInf c (maxposEnc c) = true := by
  have hP := two_pow_pos (c.nbits - 1)
  have hp2 : 2 ≤ 2 ^ (c.nbits - 1) := by
    obtain ⟨_, _, _, h4⟩ := valid_facts c hv
    calc 2 = 2 ^ 1 := rfl
      _ ≤ 2 ^ (c.nbits - 1) := Nat.pow_le_pow_right (by omega) (by omega)
  unfold isInf absBits maxposEnc
  simp only [h1, h2, if_true]
  have : 2 ^ (c.nbits - 1) - 1 - 1 = 2 ^ (c.nbits - 1) - 2 := by omega
  rw [this, Nat.mod_eq_of_lt (by omega)]
  simp


/-! ### the order of normal values is the lexicographic order of (exponent field, fraction field) -/

theorem C06_cfloat_normal_value_lt (c : Cfg) (ea fa eb fb : Nat) (hfa : fa < 2 ^ c.fbits) (hfb : fb < 2 ^ c.fbits) :
    (1 + (fa : ℚ) / ((2 ^ c.fbits : Nat) : ℚ)) * pow2 ((ea : Int) - c.bias) < (1 + (fb : ℚ) / ((2 ^ c.fbits : Nat) : ℚ)) * pow2 ((eb : Int) - c.bias)
      ↔ ea < eb ∨ (ea = eb ∧ fa < fb) := by
  have hF : (0 : ℚ) < ((2 ^ c.fbits : Nat) : ℚ) := by exact_mod_cast two_pow_pos c.fbits
  have hfa' : (fa : ℚ) / ((2 ^ c.fbits : Nat) : ℚ) < 1 := by
    rw [div_lt_one hF]; exact_mod_cast hfa
  have hfb' : (fb : ℚ) / ((2 ^ c.fbits : Nat) : ℚ) < 1 := by
    rw [div_lt_one hF]; exact_mod_cast hfb
  have hfa0 : (0 : ℚ) ≤ (fa : ℚ) / ((2 ^ c.fbits : Nat) : ℚ) := by positivity
  have hfb0 : (0 : ℚ) ≤ (fb : ℚ) / ((2 ^ c.fbits : Nat) : ℚ) := by positivity
  -- strict separation of binades
  have sep : ∀ (e1 f1 e2 f2 : Nat), (f1 : ℚ) / ((2 ^ c.fbits : Nat) : ℚ) < 1 → (0 : ℚ) ≤ (f2 : ℚ) / ((2 ^ c.fbits : Nat) : ℚ) → e1 < e2 →
      (1 + (f1 : ℚ) / ((2 ^ c.fbits : Nat) : ℚ)) * pow2 ((e1 : Int) - c.bias) < (1 + (f2 : ℚ) / ((2 ^ c.fbits : Nat) : ℚ)) * pow2 ((e2 : Int) - c.bias) := by
    intro e1 f1 e2 f2 h1 h2 hlt
    have hp1 := pow2_pos ((e1 : Int) - c.bias)
    have hle : pow2 (((e1 : Int) - c.bias) + 1) ≤ pow2 ((e2 : Int) - c.bias) := pow2_le_pow2.mpr (by omega)
    rw [pow2_succ] at hle
    have hp2 := pow2_pos ((e2 : Int) - c.bias)
    nlinarith
  constructor
  · intro h
    rcases Nat.lt_trichotomy ea eb with hlt | heq | hgt
    · left; exact hlt
    · right
      refine ⟨heq, ?_⟩
      subst heq
      have hp := pow2_pos ((ea : Int) - c.bias)
      have h2 : (fa : ℚ) / ((2 ^ c.fbits : Nat) : ℚ) < (fb : ℚ) / ((2 ^ c.fbits : Nat) : ℚ) := by
        have := (mul_lt_mul_iff_of_pos_right hp).mp h
        linarith
      rw [div_lt_div_iff_of_pos_right hF] at h2
      exact_mod_cast h2
    · exfalso
      have := sep eb fb ea fa hfb' hfa0 hgt
      linarith
  · rintro (hlt | ⟨heq, hf⟩)
    · exact sep ea fa eb fb hfa' hfb0 hlt
    · subst heq
      have hp := pow2_pos ((ea : Int) - c.bias)
      have h2 : (fa : ℚ) / ((2 ^ c.fbits : Nat) : ℚ) < (fb : ℚ) / ((2 ^ c.fbits : Nat) : ℚ) := by
        rw [div_lt_div_iff_of_pos_right hF]; exact_mod_cast hf
      apply mul_lt_mul_of_pos_right _ hp
      linarith

/-- **`<` without subnormals is the order of the denoted values** for all finite operands with non-zero exponent
    field (every normal — and supernormal — value, both signs), every configuration without subnormals -/
theorem C06_cfloat_lt_nosub_partial (c : Cfg) (hv : c.valid = true) (hs : c.sub = false) (a b : Nat)
    (hna : normalOperand c a = true) (hnb : normalOperand c b = true) :
    lt c a b = C06_cfloat_specLt (cfVal c a) (cfVal c b) := by
  obtain ⟨na, ia, za, ea, va⟩ := normalOperand_facts c hv a hna
  obtain ⟨nb, ib, zb, eb, vb⟩ := normalOperand_facts c hv b hnb
  have hF := two_pow_pos c.fbits
  have hpa := normal_mag_pos (c.fracOf a) (2 ^ c.fbits) hF ((c.expOf a : Int) - c.bias)
  have hpb := normal_mag_pos (c.fracOf b) (2 ^ c.fbits) hF ((c.expOf b : Int) - c.bias)
  have hlex := C06_cfloat_normal_value_lt c (c.expOf a) (c.fracOf a) (c.expOf b) (c.fracOf b) (fracOf_lt c a) (fracOf_lt c b)
  have hlex' := C06_cfloat_normal_value_lt c (c.expOf b) (c.fracOf b) (c.expOf a) (c.fracOf a) (fracOf_lt c b) (fracOf_lt c a)
  have sca : scaleOf c a = (c.expOf a : Int) - c.bias := by unfold scaleOf; simp [ea]
  have scb : scaleOf c b = (c.expOf b : Int) - c.bias := by unfold scaleOf; simp [eb]
  rw [va, vb]
  unfold lt C06_cfloat_specLt
  simp only [na, nb, ia, ib, za, zb, hs, sca, scb, Bool.or_self, Bool.false_eq_true, if_false, Bool.and_self, Bool.false_and]
  generalize (1 + (c.fracOf a : ℚ) / ((2 ^ c.fbits : Nat) : ℚ)) * pow2 ((c.expOf a : Int) - c.bias) = x at *
  generalize (1 + (c.fracOf b : ℚ) / ((2 ^ c.fbits : Nat) : ℚ)) * pow2 ((c.expOf b : Int) - c.bias) = y at *
  cases hsa : c.signOf a <;> cases hsb : c.signOf b <;>
    simp only [Bool.and_true, Bool.and_false, Bool.not_true, Bool.not_false, Bool.false_eq_true, if_false, if_true, Bool.true_and, Bool.false_and]
  · -- + +
    by_cases h1 : (c.expOf a : Int) - c.bias < (c.expOf b : Int) - c.bias
    · have : c.expOf a < c.expOf b := by omega
      simp [h1, hlex.mpr (Or.inl this)]
    · by_cases h2 : (c.expOf a : Int) - c.bias > (c.expOf b : Int) - c.bias
      · have : c.expOf b < c.expOf a := by omega
        have hyx := hlex'.mpr (Or.inl this)
        simp [h1, h2, not_lt.mpr (le_of_lt hyx)]
      · have heq : c.expOf a = c.expOf b := by omega
        simp only [h1, h2, decide_false, decide_true, Bool.false_eq_true, if_false, Bool.and_false]
        by_cases hf : c.fracOf a < c.fracOf b
        · simp [hf, hlex.mpr (Or.inr ⟨heq, hf⟩)]
        · have : ¬ x < y := by
            intro hc; rcases hlex.mp hc with h | h
            · omega
            · exact hf h.2
          simp [hf, this]
  · -- + -
    have : ¬ x < -y := by linarith
    simp [this]
  · -- - +
    have : -x < y := by linarith
    simp [this]
  · -- - -
    by_cases h1 : (c.expOf a : Int) - c.bias > (c.expOf b : Int) - c.bias
    · have : c.expOf b < c.expOf a := by omega
      have hyx := hlex'.mpr (Or.inl this)
      have : -x < -y := by linarith
      simp [h1, this]
    · by_cases h2 : (c.expOf a : Int) - c.bias < (c.expOf b : Int) - c.bias
      · have : c.expOf a < c.expOf b := by omega
        have hxy := hlex.mpr (Or.inl this)
        have : ¬ (-x < -y) := by linarith
        simp [h1, h2, this]
      · have heq : c.expOf b = c.expOf a := by omega
        simp only [h1, h2, decide_false, Bool.false_eq_true, if_false, Bool.and_false]
        by_cases hf : c.fracOf a > c.fracOf b
        · have hyx := hlex'.mpr (Or.inr ⟨heq, hf⟩)
          have : -x < -y := by linarith
          simp [hf, this]
        · have : ¬ (-x < -y) := by
            intro hc
            have hyx : y < x := by linarith
            rcases hlex'.mp hyx with h | h
            · omega
            · exact hf h.2
          simp [hf, this]

/-- non-vacuity: −1.25 < −1.0 and 3.5 > 2.0 in cfloat<8,3> without subnormals -/
example : let c : Cfg := { nbits := 8, es := 3 }
    normalOperand c 0xb4 = true ∧ normalOperand c 0xb0 = true ∧ lt c 0xb4 0xb0 = true ∧ lt c 0x4c 0x40 = false := by
  decide +kernel


/-- **`<` with subnormals (the subtraction-based path) is the order of the denoted values** for all finite operands
    with non-zero exponent fields whose difference is zero or lies in the normal range below the top binades
    (`addInRangeAll cfg a (−b)`, the side condition of the subtraction theorem), fbits ≤ 58, es ≥ 2: the rounded
    difference is a zero iff the operands are equal, otherwise it has the sign of the exact difference (a difference
    of representable values is a non-zero multiple of the smallest subnormal, so it never rounds to zero). -/
theorem C06_cfloat_lt_sub_partial (c : Cfg) (hv : c.valid = true) (hsub : c.sub = true) (hes2 : 2 ≤ c.es) (a b : Nat)
    (hnarrow : c.fbits + 6 < 65)
    (hna : normalOperand c a = true) (hnb : normalOperand c b = true)
    (hr : addInRangeAll c a (negate c b) = true) :
    lt c a b = C06_cfloat_specLt (cfVal c a) (cfVal c b) := by
  have := lt_sub_normal c hv hsub hes2 a b hnarrow hna hnb hr
  rw [this]; rfl

/-- non-vacuity: −1.25 < 1.0, 1.3125 < 1.75 and ¬(1.75 < 1.75) in cfloat<8,3,sub> -/
example : let c : Cfg := { nbits := 8, es := 3, sub := true }
    normalOperand c 0xb4 = true ∧ normalOperand c 0x30 = true ∧ addInRangeAll c 0xb4 (negate c 0x30) = true ∧ lt c 0xb4 0x30 = true ∧
    addInRangeAll c 0x35 (negate c 0x3c) = true ∧ lt c 0x35 0x3c = true ∧
    addInRangeAll c 0x3c (negate c 0x3c) = true ∧ lt c 0x3c 0x3c = false := by
  decide +kernel
