/-
  Property C06, lns clause — the comparison operators of lns<nbits,rbits,bt,Behavior> agree with the real order of the values
  (NaN unordered; zero above every negative and below every positive number), for every nbits ≥ 2 and every block width.
  (C06 as a whole belongs to other families as well: merge `UVerifProofs.Props.C06Lns` into C06's `proof_modules`;
  the `cmp` lines of `h_lns … order` are its correspondence stream.)

    C06_lns_lt    `operator<`  = strict real order of the decoded values
    C06_lns_eq    `operator==` = equality of the decoded values, false with a NaN operand
    C06_lns_cmp   the mask of all six operators (== != < <= > >=) = the mask derived from the real order
-/
import UVerif.Spec.Lns
import UVerif.Model.Lns
import UVerifProofs.Lemmas.LnsBits
import UVerifProofs.Lemmas.LnsBlocks
import UVerifProofs.Lemmas.LnsOps

set_option linter.unusedSimpArgs false
set_option linter.unusedVariables false
set_option linter.unnecessarySeqFocus false

open UVerif UVerif.Lns UVerif.Lns.Model UVerif.LnsLemmas

/-- lns `operator<` is the order of the real values (NaN unordered, zero below every positive and above every negative
    number), for every nbits ≥ 2, every block width. -/
theorem C06_lns_lt (c : Cfg) (hn : 2 ≤ c.nbits) (hw : 1 ≤ c.w) (a b : Nat) (ha : a < 2 ^ c.nbits) (hb : b < 2 ^ c.nbits) :
    lt c a b = lnsRealLt (decode c.nbits a) (decode c.nbits b) := by
  unfold lt
  simp only [isNaN_eq hn hw ha, isNaN_eq hn hw hb, sign_eq hw]
  by_cases h1 : a = 2 ^ (c.nbits - 1) + 2 ^ (c.nbits - 2)
  · simp [h1, decode_nanEnc hn, lnsRealLt]
  by_cases h2 : b = 2 ^ (c.nbits - 1) + 2 ^ (c.nbits - 2)
  · simp only [h1, h2, decide_false, decide_true, Bool.false_or, if_true, decode_nanEnc hn]
    cases decode c.nbits a <;> rfl
  simp only [h1, h2, decide_false, Bool.or_false, Bool.false_eq_true, if_false]
  rw [assign_narrow (show ¬ c.nbits - 1 > c.nbits by omega), assign_narrow (show ¬ c.nbits - 1 > c.nbits by omega)]
  obtain ⟨la, za⟩ := field_of c.nbits a hn ha h1
  obtain ⟨lb, zb⟩ := field_of c.nbits b hn hb h2
  have hlt := bbLt_eq (show 1 ≤ c.nbits - 1 by omega) la lb
  have hgt : bbGt (c.nbits - 1) (a % 2 ^ (c.nbits - 1)) (b % 2 ^ (c.nbits - 1)) =
      decide (toSigned (c.nbits - 1) (b % 2 ^ (c.nbits - 1)) < toSigned (c.nbits - 1) (a % 2 ^ (c.nbits - 1))) := by
    unfold bbGt bbLe
    rw [hlt]
    have hinj := (toSigned_inj (show 1 ≤ c.nbits - 1 by omega) la lb).symm
    rw [Bool.eq_iff_iff]
    simp only [Bool.not_eq_true', Bool.or_eq_false_iff, decide_eq_false_iff_not, beq_eq_false_iff_ne, ne_eq,
      decide_eq_true_eq]
    rw [hinj]; omega
  rw [hlt, hgt]
  obtain ⟨p, hp, e2, e1, e0, e3⟩ := pow_n_var hn
  obtain ⟨_, ra2⟩ := exp_range hn la
  obtain ⟨_, rb2⟩ := exp_range hn lb
  rw [e2] at ra2 rb2
  by_cases h3 : a = 2 ^ (c.nbits - 2)
  · obtain ⟨ma, sa, ta⟩ := za h3
    rw [e2] at ta
    have hza : decode c.nbits a = Val.zero := by rw [h3]; exact decode_zeroEnc hn
    rw [hza]
    by_cases h4 : b = 2 ^ (c.nbits - 2)
    · obtain ⟨mb, sb, tb⟩ := zb h4
      rw [e2] at tb
      have hzb : decode c.nbits b = Val.zero := by rw [h4]; exact decode_zeroEnc hn
      rw [hzb, sa, sb, ta, tb]; simp [lnsRealLt]
    · obtain ⟨lb1, lb2, hdb⟩ := decode_numeric hn hb h4 h2
      have rb1 := exp_range_strict hn lb1 lb2
      rw [e2] at rb1
      rw [hdb, sa, ta]
      cases hsb : b.testBit (c.nbits - 1) <;> simp [lnsRealLt, hsb] <;> omega
  · obtain ⟨la1, la2, hda⟩ := decode_numeric hn ha h3 h1
    have ra1 := exp_range_strict hn la1 la2
    rw [e2] at ra1
    by_cases h4 : b = 2 ^ (c.nbits - 2)
    · obtain ⟨mb, sb, tb⟩ := zb h4
      rw [e2] at tb
      rw [hda]
      rw [show decode c.nbits b = Val.zero by rw [h4]; exact decode_zeroEnc hn, sb, tb]
      cases hsa : a.testBit (c.nbits - 1) <;> simp [lnsRealLt, hsa] <;> omega
    · obtain ⟨lb1, lb2, hdb⟩ := decode_numeric hn hb h4 h2
      rw [hda, hdb]
      cases hsa : a.testBit (c.nbits - 1) <;> cases hsb : b.testBit (c.nbits - 1) <;> simp [lnsRealLt, hsa, hsb]

/-- lns `operator==`: false with a NaN operand, otherwise equality of the decoded values -/
theorem C06_lns_eq (c : Cfg) (hn : 2 ≤ c.nbits) (hw : 1 ≤ c.w) (a b : Nat) (ha : a < 2 ^ c.nbits) (hb : b < 2 ^ c.nbits) :
    eq c a b = lnsRealEq (decode c.nbits a) (decode c.nbits b) := by
  unfold eq
  simp only [isNaN_eq hn hw ha, isNaN_eq hn hw hb]
  by_cases h1 : a = 2 ^ (c.nbits - 1) + 2 ^ (c.nbits - 2)
  · simp [h1, decode_nanEnc hn, lnsRealEq]
  by_cases h2 : b = 2 ^ (c.nbits - 1) + 2 ^ (c.nbits - 2)
  · simp only [h1, h2, decide_false, decide_true, Bool.false_or, if_true, decode_nanEnc hn]
    cases decode c.nbits a <;> rfl
  simp only [h1, h2, decide_false, Bool.or_false, Bool.false_eq_true, if_false]
  have hna : decode c.nbits a ≠ Val.nan := by
    intro h
    by_cases h3 : a = 2 ^ (c.nbits - 2)
    · rw [h3, decode_zeroEnc hn] at h; cases h
    · obtain ⟨_, _, hd⟩ := decode_numeric hn ha h3 h1; rw [hd] at h; cases h
  have hnb : decode c.nbits b ≠ Val.nan := by
    intro h
    by_cases h3 : b = 2 ^ (c.nbits - 2)
    · rw [h3, decode_zeroEnc hn] at h; cases h
    · obtain ⟨_, _, hd⟩ := decode_numeric hn hb h3 h2; rw [hd] at h; cases h
  have : lnsRealEq (decode c.nbits a) (decode c.nbits b) = decide (decode c.nbits a = decode c.nbits b) := by
    unfold lnsRealEq
    cases hda : decode c.nbits a <;> cases hdb : decode c.nbits b <;>
      first | rfl | exact absurd hda hna | exact absurd hdb hnb
  rw [this, Bool.eq_iff_iff]
  simp only [beq_iff_eq, decide_eq_true_eq]
  exact ⟨fun h => by rw [h], decode_inj hn ha hb⟩

/-- all six lns comparison operators agree with the real order of the decoded values -/
theorem C06_lns_cmp (c : Cfg) (hn : 2 ≤ c.nbits) (hw : 1 ≤ c.w) (a b : Nat) (ha : a < 2 ^ c.nbits) (hb : b < 2 ^ c.nbits) :
    cmpMask c a b = lnsCmpSpec (decode c.nbits a) (decode c.nbits b) := by
  unfold cmpMask lnsCmpSpec
  rw [C06_lns_lt c hn hw a b ha hb, C06_lns_lt c hn hw b a hb ha, C06_lns_eq c hn hw a b ha hb]
  have hn1 : isNaN c.nbits c.w a = (decode c.nbits a == Val.nan) := by
    rw [isNaN_eq hn hw ha, Bool.eq_iff_iff]; simp only [decide_eq_true_eq, beq_iff_eq]
    constructor
    · intro h; rw [h, decode_nanEnc hn]
    · intro h; exact decode_inj hn ha (nanEnc_lt hn) (by rw [h, decode_nanEnc hn])
  have hn2 : isNaN c.nbits c.w b = (decode c.nbits b == Val.nan) := by
    rw [isNaN_eq hn hw hb, Bool.eq_iff_iff]; simp only [decide_eq_true_eq, beq_iff_eq]
    constructor
    · intro h; rw [h, decode_nanEnc hn]
    · intro h; exact decode_inj hn hb (nanEnc_lt hn) (by rw [h, decode_nanEnc hn])
  rw [hn1, hn2]
  -- trichotomy on non-NaN values: ¬(b < a) ⇔ a < b ∨ a = b
  cases hda : decode c.nbits a <;> cases hdb : decode c.nbits b <;> simp [lnsRealLt, lnsRealEq] <;>
    (try (rename_i s1 e1 s2 e2; cases s1 <;> cases s2 <;> simp <;> (try split_ifs) <;> omega)) <;>
    (try (rename_i s1 e1; cases s1 <;> simp))
