/-
  Property C07 — fixpnt arithmetic is exact modulo / saturating, products and quotients rounded to nearest even.

  The theorems are about the limb-list model `UVerif.Fixpnt.*` (lean/UVerif/Model/Fixpnt.lean on top of the
  blockbinary model in lean/UVerif/Model/Limbs.lean, transcribed from fixpnt_impl.hpp and blockbinary.hpp) and hold
  for EVERY size `n`, EVERY `rbits` and EVERY limb width `w` allowed by blockbinary's static_assert
  (`uint64_t` only as a single block, `C07_Supported`).  Right-hand sides are the executable specification
  `UVerif.FixpntSpec.*` (lean/UVerif/Spec/Fixpnt.lean): exact `Int`/`Rat` arithmetic on the raw integers
  (value · 2^rbits), then wrap (Modulo) or clamp (Saturate).
-/
import UVerifProofs.Lemmas.Fixpnt

open UVerif UVerif.Limbs

/-- limb widths covered for an intermediate of `m` bits: every width, `uint64_t` only when `m` bits fit one block -/
def C07_Supported (w m : Nat) : Prop := 0 < w ∧ Fixpnt.Ok w m

example : C07_Supported 8 65 := ⟨by decide, Or.inl (by decide)⟩
example : C07_Supported 32 10 := ⟨by decide, Or.inl (by decide)⟩

variable {w n : Nat} {a b : List Nat}

/-- addition: the exact sum of the raw integers, wrapped in Modulo mode, clamped to [maxneg, maxpos] in Saturate mode
    (`uradd` into nbits+1 bits and the two comparisons) -/
theorem C07_add (h : C07_Supported w (n + 1)) (hn : 0 < n) (sat : Bool) (ha : Canon w n a) (hb : Canon w n b) :
    Canon w n (Fixpnt.add w n sat a b) ∧
    toNat w (Fixpnt.add w n sat a b) = FixpntSpec.add n sat (toNat w a) (toNat w b) :=
  Fixpnt.add_spec h.1 hn h.2 sat ha hb

-- fixpnt<9,4,Saturate,uint8_t>: maxpos + maxpos clamps to maxpos; Modulo wraps to −2
example : toNat 8 (Fixpnt.add 8 9 true [0xff, 0] [0xff, 0]) = 0xff := by decide
example : toNat 8 (Fixpnt.add 8 9 false [0xff, 0] [0xff, 0]) = 0x1fe := by decide

theorem C07_sub (h : C07_Supported w (n + 1)) (hn : 0 < n) (sat : Bool) (ha : Canon w n a) (hb : Canon w n b) :
    Canon w n (Fixpnt.sub w n sat a b) ∧
    toNat w (Fixpnt.sub w n sat a b) = FixpntSpec.sub n sat (toNat w a) (toNat w b) :=
  Fixpnt.sub_spec h.1 hn h.2 sat ha hb

example : toNat 16 (Fixpnt.sub 16 17 true [0, 1] [1, 0]) = 0x10000 := by decide   -- maxneg − ulp stays maxneg

/-- `++` / `--`: one ulp up / down, wrapped or clamped -/
theorem C07_inc_dec (h : C07_Supported w (n + 1)) (hn : 1 < n) (sat : Bool) (ha : Canon w n a) :
    (Canon w n (Fixpnt.inc w n sat a) ∧ toNat w (Fixpnt.inc w n sat a) = FixpntSpec.inc n sat (toNat w a)) ∧
    (Canon w n (Fixpnt.dec w n sat a) ∧ toNat w (Fixpnt.dec w n sat a) = FixpntSpec.dec n sat (toNat w a)) :=
  ⟨Fixpnt.inc_spec h.1 hn h.2 sat ha, Fixpnt.dec_spec h.1 hn h.2 sat ha⟩

/-- unary minus: the exact negation of the raw integer, wrapped in Modulo arithmetic (−maxneg = maxneg, the ring value) and
    clamped in Saturate arithmetic (−maxneg ↦ maxpos).  Before the repair "fix: fixpnt unary minus in Modulo arithmetic must
    wrap maxneg to maxneg, not flip it to maxpos" the code clamped in both modes. -/
theorem C07_neg (h : C07_Supported w n) (hn : 0 < n) (sat : Bool) (ha : Canon w n a) :
    Canon w n (Fixpnt.neg w n sat a) ∧ toNat w (Fixpnt.neg w n sat a) = FixpntSpec.neg n sat (toNat w a) :=
  Fixpnt.neg_spec h.1 hn h.2 sat ha

/-- the former counterexample, now the positive statement at the same witness: Modulo negation of maxneg is maxneg
    (fixpnt<4,2,Modulo,uint8_t>), Saturate negation of maxneg is maxpos -/
theorem C07_neg_cfg_maxneg :
    toNat 8 (Fixpnt.neg 8 4 false [0x8]) = FixpntSpec.neg 4 false 0x8 ∧ toNat 8 (Fixpnt.neg 8 4 false [0x8]) = 0x8 ∧
    toNat 8 (Fixpnt.neg 8 4 true [0x8]) = FixpntSpec.neg 4 true 0x8 ∧ toNat 8 (Fixpnt.neg 8 4 true [0x8]) = 0x7 := by decide

/-- negation as signed values: exact whenever −a is representable, and in Saturate mode never wrapping -/
theorem C07_saturate_never_wraps_neg (h : C07_Supported w n) (hn : 0 < n) (ha : Canon w n a) :
    toInt w n (Fixpnt.neg w n true a) = FixpntSpec.clamp n (-(toInt w n a)) := by
  unfold toInt
  rw [(C07_neg h hn true ha).2]
  unfold FixpntSpec.neg FixpntSpec.finish FixpntSpec.val
  simp only [if_true]
  generalize -(toSigned n (toNat w a)) = z
  apply toSigned_ofSigned_fits hn
  · unfold FixpntSpec.clamp FixpntSpec.maxposZ FixpntSpec.maxnegZ M2
    have : (0 : Int) < ((2 ^ (n - 1) : Nat) : Int) := by exact_mod_cast Nat.two_pow_pos (n - 1)
    split
    · omega
    · split <;> omega
  · unfold FixpntSpec.clamp FixpntSpec.maxposZ FixpntSpec.maxnegZ M2
    have : (0 : Int) < ((2 ^ (n - 1) : Nat) : Int) := by exact_mod_cast Nat.two_pow_pos (n - 1)
    split
    · omega
    · split <;> omega

/-- the comparison operators are the order of the values -/
theorem C07_cmp (h : C07_Supported w n) (hn : 0 < n) (ha : Canon w n a) (hb : Canon w n b) :
    Fixpnt.cmpMask w n a b = FixpntSpec.cmpMask n (toNat w a) (toNat w b) :=
  Fixpnt.cmpMask_spec h.1 hn h.2 ha hb

/-- a Saturate result never wraps: it is the exact result when that is representable, and the nearest bound otherwise
    (sum, difference, negation, ++ and −−) -/
theorem C07_saturate_never_wraps_addsub (h : C07_Supported w (n + 1)) (hn : 0 < n) (ha : Canon w n a) (hb : Canon w n b) :
    toInt w n (Fixpnt.add w n true a b) = FixpntSpec.clamp n (toInt w n a + toInt w n b) ∧
    toInt w n (Fixpnt.sub w n true a b) = FixpntSpec.clamp n (toInt w n a - toInt w n b) := by
  have hcl : ∀ z : Int, toSigned n (ofSigned n (FixpntSpec.clamp n z)) = FixpntSpec.clamp n z := by
    intro z
    apply toSigned_ofSigned_fits hn
    · unfold FixpntSpec.clamp FixpntSpec.maxposZ FixpntSpec.maxnegZ M2
      have : (0 : Int) < ((2 ^ (n - 1) : Nat) : Int) := by exact_mod_cast Nat.two_pow_pos (n - 1)
      split
      · omega
      · split <;> omega
    · unfold FixpntSpec.clamp FixpntSpec.maxposZ FixpntSpec.maxnegZ M2
      have : (0 : Int) < ((2 ^ (n - 1) : Nat) : Int) := by exact_mod_cast Nat.two_pow_pos (n - 1)
      split
      · omega
      · split <;> omega
  constructor
  · unfold toInt
    rw [(C07_add h hn true ha hb).2]
    unfold FixpntSpec.add FixpntSpec.finish FixpntSpec.val
    simp only [if_true]
    exact hcl _
  · unfold toInt
    rw [(C07_sub h hn true ha hb).2]
    unfold FixpntSpec.sub FixpntSpec.finish FixpntSpec.val
    simp only [if_true]
    exact hcl _

/-- multiplication: the exact product of the raw integers (`urmul2` into 2·nbits), divided by 2^rbits and rounded to
    nearest, ties to even (`roundingMode(rbits)` on the two's-complement pattern, arithmetic `>>=`, `++`), then wrapped
    (Modulo) or clamped (Saturate — the saturation test sits before the rounding increment in the code; harmless) -/
theorem C07_mul {r : Nat} (h : C07_Supported w (2 * n)) (hn : 0 < n) (hr : r ≤ n) (sat : Bool) (ha : Canon w n a) (hb : Canon w n b) :
    Canon w n (Fixpnt.mul w n r sat a b) ∧
    toNat w (Fixpnt.mul w n r sat a b) = FixpntSpec.mul n r sat (toNat w a) (toNat w b) :=
  Fixpnt.mul_spec h.1 hn hr h.2 sat ha hb

-- fixpnt<9,4,Saturate,uint16_t>: maxpos · (1 + 1ulp) clamps to maxpos, maxpos · maxneg clamps to maxneg
example : toNat 16 (Fixpnt.mul 16 9 4 true [0x0ff] [0x011]) = 0x0ff := by decide
example : toNat 16 (Fixpnt.mul 16 9 4 true [0x0ff] [0x100]) = 0x100 := by decide
-- fixpnt<8,4,Modulo,uint8_t>: 1.5 · 0.75 = 1.125 exactly; 0.1875 · 0.5 = 0.09375 is a tie between 1/16 and 2/16 → even
example : toNat 8 (Fixpnt.mul 8 8 4 false [0x18] [0x0c]) = 0x12 := by decide
example : toNat 8 (Fixpnt.mul 8 8 4 false [0x03] [0x08]) = 0x02 := by decide

/-- a Saturate product never wraps: it is the clamp of the correctly rounded exact product -/
theorem C07_saturate_never_wraps_mul {r : Nat} (h : C07_Supported w (2 * n)) (hn : 0 < n) (hr : r ≤ n) (ha : Canon w n a) (hb : Canon w n b) :
    toInt w n (Fixpnt.mul w n r true a b) = FixpntSpec.clamp n (rne (FixpntSpec.mulExact n r (toNat w a) (toNat w b))) := by
  unfold toInt
  rw [(C07_mul h hn hr true ha hb).2]
  unfold FixpntSpec.mul FixpntSpec.finish
  simp only [if_true]
  generalize rne (FixpntSpec.mulExact n r (toNat w a) (toNat w b)) = z
  apply toSigned_ofSigned_fits hn
  · unfold FixpntSpec.clamp FixpntSpec.maxposZ FixpntSpec.maxnegZ M2
    have : (0 : Int) < ((2 ^ (n - 1) : Nat) : Int) := by exact_mod_cast Nat.two_pow_pos (n - 1)
    split
    · omega
    · split <;> omega
  · unfold FixpntSpec.clamp FixpntSpec.maxposZ FixpntSpec.maxnegZ M2
    have : (0 : Int) < ((2 ^ (n - 1) : Nat) : Int) := by exact_mod_cast Nat.two_pow_pos (n - 1)
    split
    · omega
    · split <;> omega

/-- division in Modulo mode: the exact quotient a·2^rbits / b (b ≠ 0) rounded to the nearest multiple of 2^-rbits with
    ties to even, wrapped into nbits.  The code scales |a| by 2^(2(rbits+nbits)) and |b| by 2^(rbits+nbits) in a
    (4·nbits+2·rbits)-bit blockbinary, divides (`longdivision`, or the native fast path when that size is one exact block),
    rounds the nbits extra quotient bits with `roundingMode(nbits)`, and restores the sign.  The remainder of the long
    division is never looked at: with nbits extra bits the truncated quotient already decides the rounding, because
    |b| ≤ 2^(nbits−1) (`div_no_tie`). -/
theorem C07_div_modulo {r : Nat} (h : C07_Supported w (2 * n + 2 * r + 2 * n + 1)) (hn : 0 < n) (hr : r ≤ n)
    (ha : Canon w n a) (hb : Canon w n b) (hb0 : toNat w b ≠ 0) :
    Canon w n (Fixpnt.div w n r false a b) ∧
      toNat w (Fixpnt.div w n r false a b) = FixpntSpec.div n r false (toNat w a) (toNat w b) :=
  Fixpnt.div_spec h.1 hn hr h.2 ha hb hb0

-- fixpnt<8,4,Modulo,uint8_t>: 1.0 / 3.0 = 0.333… → 5/16 (0x05); 0.1875 / 2.0 = 0.09375 is a tie → 2/16 (even)
set_option maxRecDepth 16384 in
example : toNat 8 (Fixpnt.div 8 8 4 false [0x10] [0x30]) = 0x05 := by decide
set_option maxRecDepth 16384 in
example : toNat 8 (Fixpnt.div 8 8 4 false [0x03] [0x20]) = 0x02 := by decide
set_option maxRecDepth 16384 in
example : toNat 8 (Fixpnt.div 8 8 4 false [0xf0] [0x30]) = 0xfb := by decide   -- −1.0 / 3.0 → −5/16

/-- D11: Saturate division is a stub that returns the left operand: 0.25 / 0.5 in fixpnt<4,2,Saturate,uint8_t>
    (raw 1 / raw 2) returns raw 1 = 0.25; the exact quotient 0.5 is raw 2 -/
theorem C07_div_saturate_counterexample :
    Fixpnt.div 8 4 2 true [0x1] [0x2] = [0x1] ∧ ¬ (Fixpnt.div 8 4 2 true [0x1] [0x2] = [0x2]) := by decide

/-! ### further non-vacuity examples: the hypotheses of the theorems above are satisfiable on non-trivial instances -/

example : C07_Supported 8 (2 * 8 + 2 * 4 + 2 * 8 + 1) ∧ Canon 8 8 [0x10] ∧ toNat 8 [0x30] ≠ 0 := ⟨⟨by decide, Or.inl (by decide)⟩, by decide, by decide⟩
example : C07_Supported 16 (2 * 9) ∧ (4 : Nat) ≤ 9 := ⟨⟨by decide, Or.inl (by decide)⟩, by decide⟩
example : Fixpnt.cmpMask 8 9 [0xff, 0] [0x00, 1] = FixpntSpec.cmpMask 9 0xff 0x100 := by decide
