/-
  Property C08 — integer<nbits, bt> is the two's-complement ring modulo 2^nbits; division truncates.

  The theorems are about the limb-list model `UVerif.Integer.*` (lean/UVerif/Model/Integer.lean, transcribed from
  include/universal/number/integer/integer_impl.hpp) and hold for EVERY size `n ≥ 1` and EVERY limb width `w ≥ 1`
  (`C08_Supported`) — multi-block `uint64_t` included since the repair of the `+=` carry chain.  Only `operator*=` keeps a
  restriction (`C08_MulSupported`): its 64-bit accumulator holds `a_i·b_j + r + carry` only for limbs of at most 32 bits.
  Right-hand sides are the executable specification `UVerif.IntegerSpec.*` (lean/UVerif/Spec/Integer.lean) that the
  driver evaluates on the implementation's output: exact `Int` arithmetic on the signed readings, wrapped into n bits.
-/
import UVerifProofs.Lemmas.Integer

open UVerif UVerif.Limbs

/-- sizes and limb widths covered: all of them -/
def C08_Supported (w n : Nat) : Prop := 0 < w ∧ 0 < n

/-- sizes and limb widths on which the MODEL of `operator*=` stands for the code: everything except more than one `uint64_t`
    block (there `segment += a_i * b_j` overflows the 64-bit accumulator and `segment >>= 64` is undefined; known finding
    `integer.u64.multiblock_mul`, not exercised by the streams) -/
def C08_MulSupported (w n : Nat) : Prop := 0 < w ∧ 0 < n ∧ (w ≠ 64 ∨ nrBlocks w n = 1)

example : C08_Supported 8 129 := ⟨by decide, by decide⟩
example : C08_Supported 64 129 := ⟨by decide, by decide⟩
example : C08_MulSupported 32 129 := ⟨by decide, by decide, Or.inl (by decide)⟩
example : C08_MulSupported 64 64 := ⟨by decide, by decide, Or.inr (by decide)⟩
example : Canon 8 12 [0xff, 0x0f] := by decide

variable {w n : Nat} {a b : List Nat}

/-- addition: canonical result, `toNat` equals the specification, i.e. the exact sum wrapped into n bits -/
theorem C08_add (h : C08_Supported w n) (ha : Canon w n a) (hb : Canon w n b) :
    Canon w n (Integer.add w n a b) ∧
    toNat w (Integer.add w n a b) = IntegerSpec.add n (toNat w a) (toNat w b) ∧
    toInt w n (Integer.add w n a b) = toSigned n (ofSigned n (toInt w n a + toInt w n b)) := by
  obtain ⟨hw, hn⟩ := h
  obtain ⟨hc, hv⟩ := Integer.add_spec hw hn ha.shape hb.shape
  have e : toNat w (Integer.add w n a b) = IntegerSpec.add n (toNat w a) (toNat w b) := by
    rw [hv]; unfold IntegerSpec.add IntegerSpec.wrap IntegerSpec.val; rw [ofSigned_add]
  exact ⟨hc, e, by unfold toInt; rw [e]; rfl⟩

-- a three-limb carry chain with wrap-around: 0xffffff + 1 = 0 in integer<24, uint8_t>
example : toNat 8 (Integer.add 8 24 [0xff, 0xff, 0xff] [1, 0, 0]) = IntegerSpec.add 24 0xffffff 1 := by decide

theorem C08_sub (h : C08_Supported w n) (ha : Canon w n a) (hb : Canon w n b) :
    Canon w n (Integer.sub w n a b) ∧
    toNat w (Integer.sub w n a b) = IntegerSpec.sub n (toNat w a) (toNat w b) ∧
    toInt w n (Integer.sub w n a b) = toSigned n (ofSigned n (toInt w n a - toInt w n b)) := by
  obtain ⟨hw, hn⟩ := h
  obtain ⟨hc, hv⟩ := Integer.sub_spec hw hn ha.shape hb.shape
  have e : toNat w (Integer.sub w n a b) = IntegerSpec.sub n (toNat w a) (toNat w b) := by
    rw [hv]; unfold IntegerSpec.sub IntegerSpec.wrap IntegerSpec.val; rw [ofSigned_sub]
  exact ⟨hc, e, by unfold toInt; rw [e]; rfl⟩

example : toNat 16 (Integer.sub 16 17 [0, 0] [1, 0]) = IntegerSpec.sub 17 0 1 := by decide

theorem C08_neg (h : C08_Supported w n) (ha : Canon w n a) :
    Canon w n (Integer.neg w n a) ∧
    toNat w (Integer.neg w n a) = IntegerSpec.neg n (toNat w a) ∧
    toInt w n (Integer.neg w n a) = toSigned n (ofSigned n (-(toInt w n a))) := by
  obtain ⟨hw, hn⟩ := h
  obtain ⟨hc, hv⟩ := Integer.neg_spec hw hn ha.shape
  have e : toNat w (Integer.neg w n a) = IntegerSpec.neg n (toNat w a) := by
    rw [hv]; unfold IntegerSpec.neg IntegerSpec.wrap IntegerSpec.val; rw [ofSigned_neg]
  exact ⟨hc, e, by unfold toInt; rw [e]; rfl⟩

-- the most negative value is its own negation
example : toNat 8 (Integer.neg 8 9 [0, 1]) = 0x100 := by decide

theorem C08_inc (h : C08_Supported w n) (ha : Canon w n a) :
    Canon w n (Integer.inc w n a) ∧ toNat w (Integer.inc w n a) = IntegerSpec.inc n (toNat w a) := by
  obtain ⟨hw, hn⟩ := h
  obtain ⟨hc, hv⟩ := Integer.inc_spec hw hn ha.shape
  refine ⟨hc, ?_⟩
  rw [hv]; unfold IntegerSpec.inc IntegerSpec.wrap IntegerSpec.val
  rw [ofSigned_add_const, ← ofSigned_natCast]; rfl

theorem C08_dec (h : C08_Supported w n) (ha : Canon w n a) :
    Canon w n (Integer.dec w n a) ∧ toNat w (Integer.dec w n a) = IntegerSpec.dec n (toNat w a) := by
  obtain ⟨hw, hn⟩ := h
  obtain ⟨hc, hv⟩ := Integer.dec_spec hw hn ha.shape
  refine ⟨hc, ?_⟩
  unfold IntegerSpec.dec IntegerSpec.wrap IntegerSpec.val
  apply eq_ofSigned_of_modEq hc.2.2
  rw [hv]
  refine (modEq_natMod _ _).trans ?_
  have h1 : 1 ≤ 2 ^ n := Nat.one_le_two_pow
  rw [Nat.cast_add, Nat.cast_sub h1]
  have h2 : (((2 ^ n : Nat) : Int)) ≡ 0 [ZMOD M2 n] := by
    rw [Int.modEq_iff_dvd]; exact ⟨-1, by unfold M2; ring⟩
  have := ((modEq_toSigned n (toNat w a)).symm.add (h2.sub (Int.ModEq.refl 1)))
  simpa [sub_eq_add_neg] using this

/-- multiplication (single-block product or sign-magnitude schoolbook in nbits+1): the exact product wrapped — for every limb
    width whose partial products fit the 64-bit accumulator (`C08_MulSupported`; the hypothesis restricts where the model
    stands for the code, the statement about the model holds for every `w`) -/
theorem C08_mul (h : C08_MulSupported w n) (ha : Canon w n a) (hb : Canon w n b) :
    Canon w n (Integer.mul w n a b) ∧
    toNat w (Integer.mul w n a b) = IntegerSpec.mul n (toNat w a) (toNat w b) ∧
    toInt w n (Integer.mul w n a b) = toSigned n (ofSigned n (toInt w n a * toInt w n b)) := by
  obtain ⟨hw, hn, _⟩ := h
  obtain ⟨hc, hv⟩ := Integer.mul_spec hw hn ha hb
  have e : toNat w (Integer.mul w n a b) = IntegerSpec.mul n (toNat w a) (toNat w b) := by
    rw [hv]; unfold IntegerSpec.mul IntegerSpec.wrap IntegerSpec.val; rw [ofSigned_mul]
  exact ⟨hc, e, by unfold toInt; rw [e]; rfl⟩

-- maxneg · maxneg and (−1)·(−1) across three limbs
example : toNat 8 (Integer.mul 8 17 [0, 0, 1] [0, 0, 1]) = IntegerSpec.mul 17 0x10000 0x10000 := by decide
example : toNat 8 (Integer.mul 8 17 [0xff, 0xff, 1] [0xff, 0xff, 1]) = 1 := by decide

/-- the former witness of the dropped carry: `integer<128, uint64_t>`: (2^64 − 1) + 1 = 2^64, and the witness recorded in
    known_findings.json (two 128-bit operands just below 2^127 whose sum wraps) -/
theorem C08_add_u64_multiblock_cfg_carry :
    toNat 64 (Integer.add 64 128 [2 ^ 64 - 1, 0] [1, 0]) = IntegerSpec.add 128 (2 ^ 64 - 1) 1 ∧
    toNat 64 (Integer.add 64 128 [0xfffffffffffffffd, 0x7fffffffffffffff] [0xffffffffffffffed, 0x7fffffffffffffff])
      = 0xffffffffffffffffffffffffffffffea := by decide

/-! ### bitwise operators -/

theorem C08_bitwise (h : C08_Supported w n) (ha : Canon w n a) (hb : Canon w n b) :
    (Canon w n (Integer.band w n a b) ∧ toNat w (Integer.band w n a b) = IntegerSpec.band n (toNat w a) (toNat w b)) ∧
    (Canon w n (Integer.bor w n a b) ∧ toNat w (Integer.bor w n a b) = IntegerSpec.bor n (toNat w a) (toNat w b)) ∧
    (Canon w n (Integer.bxor w n a b) ∧ toNat w (Integer.bxor w n a b) = IntegerSpec.bxor n (toNat w a) (toNat w b)) ∧
    (Canon w n (Integer.flip w n a) ∧ toNat w (Integer.flip w n a) = IntegerSpec.bnot n (toNat w a)) :=
  ⟨Integer.band_spec h.1 h.2 ha.shape hb.shape, Integer.bor_spec h.1 h.2 ha.shape hb.shape,
   Integer.bxor_spec h.1 h.2 ha.shape hb.shape, Integer.bnot_spec h.1 h.2 ha⟩

example : toNat 16 (Integer.bxor 16 17 [0xffff, 1] [0x00ff, 0]) = IntegerSpec.bxor 17 0x1ffff 0xff := by decide

/-! ### comparisons -/

/-- `== != < <= > >=` are the comparisons of the signed values -/
theorem C08_cmp (h : C08_Supported w n) (ha : Canon w n a) (hb : Canon w n b) :
    Integer.cmpMask w n a b = IntegerSpec.cmpMask n (toNat w a) (toNat w b) ∧
    Integer.lt w n a b = decide (toInt w n a < toInt w n b) ∧
    Integer.eq a b = decide (toInt w n a = toInt w n b) :=
  ⟨Integer.cmpMask_spec h.1 h.2 ha hb, Integer.lt_spec h.1 h.2 ha hb, Integer.eq_spec ha hb⟩

/-! ### shifts -/

/-- left shift (block shift + bit shift + MSU mask) by any count k ≥ 0 (beyond nbits included): `a · 2^k` wrapped -/
theorem C08_shl (h : C08_Supported w n) (ha : Canon w n a) (k : Int) (hk : 0 ≤ k) :
    Canon w n (Integer.shl w n a k) ∧ toNat w (Integer.shl w n a k) = IntegerSpec.shl n (toNat w a) k :=
  Integer.shl_spec h.1 h.2 ha k (Or.inl hk)

example : toNat 8 (Integer.shl 8 17 [0x81, 0x00, 0x01] 9) = IntegerSpec.shl 17 0x10081 9 := by decide

/-- the full statement about `>>` over the whole count range of the property -/
def C08_shr_full : Prop := ∀ (w n : Nat) (a : List Nat) (k : Int), C08_Supported w n → Canon w n a →
    toNat w (Integer.shr w n a k) = IntegerSpec.shr n (toNat w a) k

/-- arithmetic right shift: floor division by 2^k with sign extension, for every count below nbits, and for every
    count at all when the value is non-negative; a negative count shifts left.  What is missing for `C08_shr_full`: a negative
    value shifted by nbits or more, where the code returns 0 instead of −1 (D8, `C08_shr_count_ge_nbits`, `C08_shr_counterexample`) -/
theorem C08_shr_partial (h : C08_Supported w n) (ha : Canon w n a) (k : Int) (hg : k < n ∨ 0 ≤ toInt w n a) :
    Canon w n (Integer.shr w n a k) ∧ toNat w (Integer.shr w n a k) = IntegerSpec.shr n (toNat w a) k ∧
    toInt w n (Integer.shr w n a k) = toSigned n (IntegerSpec.shr n (toNat w a) k) := by
  obtain ⟨hc, hv⟩ := Integer.shr_spec h.1 h.2 ha k (Or.inr hg)
  exact ⟨hc, hv, by unfold toInt; rw [hv]⟩

/-- `<<` with a negative count is the same right shift, under the same restriction -/
theorem C08_shl_negative_count_partial (h : C08_Supported w n) (ha : Canon w n a) (k : Int) (hg : -k < n ∨ 0 ≤ toInt w n a) :
    Canon w n (Integer.shl w n a k) ∧ toNat w (Integer.shl w n a k) = IntegerSpec.shl n (toNat w a) k :=
  Integer.shl_spec h.1 h.2 ha k (Or.inr hg)

/-- the excluded region, stated positively: a right shift by nbits or more returns the canonical zero for EVERY value
    (`if (bitsToShift >= nbits) { setzero(); return *this; }`), whatever the limb width -/
theorem C08_shr_count_ge_nbits (h : C08_Supported w n) (ha : Canon w n a) (k : Int) (hk : (n : Int) ≤ k) :
    Canon w n (Integer.shr w n a k) ∧ toNat w (Integer.shr w n a k) = 0 := by
  rw [Integer.shr_eq_shl_neg]
  obtain ⟨hc, hv⟩ := Integer.shl_int_spec h.1 h.2 ha (-k)
  refine ⟨hc, ?_⟩
  have hn := h.2
  rw [hv, if_neg (by omega), if_pos (by omega), if_neg (by omega)]

example : toNat 8 (Integer.shr 8 17 [0x00, 0x80, 0x01] 9) = IntegerSpec.shr 17 0x18000 9 := by decide
-- counts at and beyond nbits: −128 >> 8 and −128 >> 9 are 0 in the code (the arithmetic shift gives −1), 64 >> 8 = 0   (integer<8>)
example : toNat 8 (Integer.shr 8 8 [0x80] 8) = 0 ∧ toNat 8 (Integer.shr 8 8 [0x80] 9) = 0 ∧ toNat 8 (Integer.shr 8 8 [0x40] 8) = 0 := by decide
example : (8 : Int) < 17 ∨ (0 : Int) ≤ toInt 8 17 [0x00, 0x80, 0x01] := Or.inl (by decide)

/-- D8: `integer<8>(−128) >> 8` is 0 in the code (`setzero()`), the arithmetic shift gives −1 -/
theorem C08_shr_counterexample : ¬ C08_shr_full := by
  intro hfull
  have := hfull 8 8 [0x80] 8 ⟨by decide, by decide⟩ (by decide)
  revert this
  decide

/-! ### conversions -/

/-- converting constructor between sizes: the value is preserved whenever it fits the target (always when
    widening: sign extension); otherwise it is reduced modulo 2^m -/
theorem C08_convert {m : Nat} (hw : 0 < w) (hn : 0 < n) (hm : 0 < m) (ha : Canon w n a) :
    Canon w m (Integer.resize w m n a) ∧
    toNat w (Integer.resize w m n a) = ofSigned m (toInt w n a) ∧
    IntegerSpec.resizeOk n m (toNat w a) (toNat w (Integer.resize w m n a)) = true ∧
    (IntegerSpec.fits m (toInt w n a) = true → toInt w m (Integer.resize w m n a) = toInt w n a) ∧
    (n ≤ m → toInt w m (Integer.resize w m n a) = toInt w n a) := by
  obtain ⟨hc, hv⟩ := Integer.resize_spec (n := m) hw hm hn ha
  have hfit : IntegerSpec.fits m (toInt w n a) = true → toInt w m (Integer.resize w m n a) = toInt w n a := by
    intro hf
    unfold IntegerSpec.fits at hf
    simp only [Bool.and_eq_true, decide_eq_true_eq] at hf
    unfold toInt at hf ⊢
    rw [hv]
    exact toSigned_ofSigned_fits hm hf.1.2 hf.2
  refine ⟨hc, hv, ?_, hfit, ?_⟩
  · unfold IntegerSpec.resizeOk IntegerSpec.wrap IntegerSpec.val
    rw [hv]
    simp [ofSigned_lt]
  · intro hle
    apply hfit
    obtain ⟨r1, r2⟩ := toSigned_range hn (toNat w a)
    have hmono : M2 (n - 1) ≤ M2 (m - 1) := by unfold M2; exact_mod_cast Nat.pow_le_pow_right (by omega) (by omega)
    unfold IntegerSpec.fits toInt
    simp only [Bool.and_eq_true, decide_eq_true_eq]
    exact ⟨⟨hm, by unfold M2 at *; omega⟩, by unfold M2 at *; omega⟩

example : toNat 8 (Integer.resize 8 17 9 [0x00, 0x01]) = 0x1ff00 := by decide   -- −256 widened from 9 to 17 bits

/-- construction from a native signed / unsigned 64-bit integer: the value modulo 2^n (so preserved when it fits) -/
theorem C08_from_native (hw : 0 < w) (hn : 0 < n) (v : Int) (u : Nat) (hu : u < 2 ^ 64) :
    (Canon w n (Integer.convertSigned w n v) ∧ toNat w (Integer.convertSigned w n v) = ofSigned n v ∧
      IntegerSpec.fromIntOk n v (toNat w (Integer.convertSigned w n v)) = true) ∧
    (Canon w n (Integer.convertUnsigned w n u) ∧ toNat w (Integer.convertUnsigned w n u) = ofSigned n (u : Int) ∧
      IntegerSpec.fromIntOk n (u : Int) (toNat w (Integer.convertUnsigned w n u)) = true) := by
  obtain ⟨hc, hv⟩ := Integer.convertSigned_spec (w := w) hw hn v
  have hcu : Canon w n (Integer.convertUnsigned w n u) ∧ toNat w (Integer.convertUnsigned w n u) = u % 2 ^ n := by
    unfold Integer.convertUnsigned
    rw [Nat.mod_eq_of_lt hu]
    exact canon_ofNat hw hn (Nat.mod_lt _ (Nat.two_pow_pos n))
  refine ⟨⟨hc, hv, ?_⟩, ⟨hcu.1, ?_, ?_⟩⟩
  · unfold IntegerSpec.fromIntOk IntegerSpec.wrap; rw [hv]; simp [ofSigned_lt]
  · rw [hcu.2, ofSigned_natCast]
  · unfold IntegerSpec.fromIntOk IntegerSpec.wrap; rw [hcu.2, ofSigned_natCast]; simp [Nat.mod_lt _ (Nat.two_pow_pos n)]

/-! ### division and remainder -/

/-- `/` and `%` (native fast path for the exact-fit single block — a divisor −1 is negated in the block type, so the most
    negative value / −1 wraps instead of trapping —, `idiv` long division in nbits+1 otherwise): quotient and remainder of the
    division that truncates toward zero, wrapped into n bits, for every b ≠ 0 and every a -/
theorem C08_divrem (h : C08_Supported w n) (ha : Canon w n a) (hb : Canon w n b) (hb0 : toNat w b ≠ 0) :
    Canon w n (Integer.divrem w n a b false) ∧ Canon w n (Integer.divrem w n a b true) ∧
      toNat w (Integer.divrem w n a b false) = IntegerSpec.div n (toNat w a) (toNat w b) ∧
      toNat w (Integer.divrem w n a b true) = IntegerSpec.rem n (toNat w a) (toNat w b) ∧
      toInt w n (Integer.divrem w n a b false) = toSigned n (ofSigned n (Int.tdiv (toInt w n a) (toInt w n b))) ∧
      toInt w n (Integer.divrem w n a b true) = toSigned n (ofSigned n (Int.tmod (toInt w n a) (toInt w n b))) := by
  obtain ⟨c1, c2, v1, v2⟩ := Integer.divrem_spec h.1 h.2 ha hb hb0
  exact ⟨c1, c2, v1, v2, by unfold toInt; rw [v1]; rfl, by unfold toInt; rw [v2]; rfl⟩

/-- what the specification's quotient and remainder satisfy: a = (a/b)·b + a%b, |a%b| < |b|, and the remainder is
    the signed value itself when it fits (it always does: |a%b| < |b| ≤ 2^(n−1)) -/
theorem C08_divrem_euclid (x y : Int) (hy : y ≠ 0) :
    y * Int.tdiv x y + Int.tmod x y = x ∧ |Int.tmod x y| < |y| :=
  ⟨Int.mul_tdiv_add_tmod x y, Integer.abs_tmod_lt x y hy⟩

-- long division with a two-limb dividend, negative divisor: −30000 / 7 and −30000 % 7 in integer<17, uint8_t>
example : toNat 8 (Integer.divrem 8 17 (ofNat 8 (nrBlocks 8 17) (ofSigned 17 (-30000))) (ofNat 8 (nrBlocks 8 17) 7) false)
    = ofSigned 17 (-4285) := by decide
example : toNat 8 (Integer.divrem 8 17 (ofNat 8 (nrBlocks 8 17) (ofSigned 17 (-30000))) (ofNat 8 (nrBlocks 8 17) 7) true)
    = ofSigned 17 (-5) := by decide

/-- the former trap witnesses: INT_MIN / −1 and INT_MIN % −1 on the exact-fit native fast path (integer<32, uint32_t>,
    integer<64, uint64_t>) wrap to the most negative value and to 0 -/
theorem C08_div_native_cfg_maxneg_by_minus1 :
    Integer.divrem 32 32 [0x80000000] [0xffffffff] false = [0x80000000] ∧
    Integer.divrem 32 32 [0x80000000] [0xffffffff] true = [0] ∧
    Integer.divrem 64 64 [0x8000000000000000] [0xffffffffffffffff] false = [0x8000000000000000] ∧
    Integer.divrem 64 64 [0x8000000000000000] [0xffffffffffffffff] true = [0] := by decide

/-! ### read-back to native integers -/

/-- `long long(x)` is the signed value modulo 2^64 and `unsigned long long(x)` the pattern modulo 2^64, so both
    preserve the value whenever it fits the target type -/
theorem C08_to_native (hw : 0 < w) (hn : 0 < n) (ha : Canon w n a) :
    Integer.toI64 w n a = ofSigned 64 (toInt w n a) ∧
    IntegerSpec.toI64Ok n (toNat w a) (Integer.toI64 w n a) = true ∧
    Integer.toU64 w n a = toNat w a % 2 ^ 64 ∧
    IntegerSpec.toU64Ok n (toNat w a) (Integer.toU64 w n a) = true := by
  have h1 := Integer.toI64_spec hw hn ha
  have h2 := Integer.toU64_spec hw hn ha
  refine ⟨h1, ?_, h2, ?_⟩
  · unfold IntegerSpec.toI64Ok IntegerSpec.wrap IntegerSpec.val
    rw [h1]
    have := ofSigned_lt 64 (toSigned n (toNat w a))
    simp
    exact this
  · unfold IntegerSpec.toU64Ok IntegerSpec.val
    rw [h2]
    have hlt : toNat w a % 2 ^ 64 < 2 ^ 64 := Nat.mod_lt _ (Nat.two_pow_pos 64)
    simp only [hlt, decide_true, Bool.true_and, Bool.or_eq_true, Bool.not_eq_true', Bool.and_eq_false_iff, decide_eq_false_iff_not,
      beq_iff_eq, decide_eq_true_eq]
    by_cases hx : 0 ≤ toSigned n (toNat w a) ∧ toSigned n (toNat w a) < ((2 ^ 64 : Nat) : Int)
    · right
      have hA := ha.2.2
      rw [toSigned_of_lt hn hA] at hx ⊢
      by_cases hs : toNat w a < 2 ^ (n - 1)
      · rw [if_pos hs] at hx ⊢
        have : toNat w a < 2 ^ 64 := by exact_mod_cast hx.2
        rw [Nat.mod_eq_of_lt this]
      · rw [if_neg hs] at hx
        have : ((toNat w a : Nat) : Int) < ((2 ^ n : Nat) : Int) := by exact_mod_cast hA
        omega
    · left
      by_cases h0 : 0 ≤ toSigned n (toNat w a)
      · right; intro h; exact hx ⟨h0, h⟩
      · left; exact h0

example : Integer.toI64 8 12 [0x00, 0x08] = ofSigned 64 (-2048) := by decide

/-! ### further non-vacuity examples: the hypotheses of the theorems above are satisfiable on non-trivial instances -/

example : Integer.cmpMask 8 12 [0xff, 0x0f] [0x01, 0x00] = IntegerSpec.cmpMask 12 0xfff 1 := by decide
example : Canon 16 17 [0x8ad0, 0x1] ∧ toNat 16 [0x8ad0, 0x1] ≠ 0 := by decide
example : toNat 8 (Integer.convertSigned 8 12 (-5)) = 0xffb ∧ IntegerSpec.fits 12 (-5) = true := by decide
