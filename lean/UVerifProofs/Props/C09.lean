/-
  Property C09 — lns multiplies / divides exactly in the log domain with saturate / wrap semantics.

  All theorems are about `UVerif.Lns.Model` (the transcription of lns_impl.hpp) and the spec `UVerif.Lns`
  (exact `Int` exponent arithmetic), for EVERY nbits ≥ 2, every rbits, every block width w ≥ 1, both behaviours and
  every pair of canonical operand encodings.  rbits does not occur in the statements: `*`, `/` and negation act on the
  fixed-point exponent as an integer, the position of the radix point is irrelevant.

  Proved here
    C09_mul_sat, C09_div_sat      Saturating `*=`, `/=` = exact exponent sum / difference, clamp to maxpos, flush to zero,
                                  sign product, zero absorbing, NaN propagating (all inside `mulDivSat`)
    C09_mul_wrap                  Wrapping `*=` = exponent sum modulo 2^(nbits-1), sign product, specials
    C09_div_wrap                  Wrapping `/=` = exponent difference modulo 2^(nbits-1), sign product, specials (full
                                  statement; holds since the repair 848b03b `lexp -= rexp` — before it the code added)
    C09_neg                       unary minus flips the sign of numbers and fixes zero and NaN
    C09_nan_propagates_mul/div, C09_zero_absorbing_mul, C09_sign_product_sat   readable corollaries
    C09_blocktype_independent_*   the result does not depend on the block width (u8/u16/u32/… all agree)
    C09_addsub_spec_sound         the interval evaluation behind the add/sub spec predicate is sound w.r.t. the exact real sum
    C09_log_rounding_is_rne, C09_log_scaled_value   add/sub: on the main path convert_ieee754 writes rne(2^rbits·|log2 v|) of
                                  the OBSERVED logarithm (guard/round/sticky = round-half-even; the scaled quotient is exact)
  Stated, not proved
    C09_add_faithful_full         `+`/`-` return a neighbour of the exact real sum.  The implementation goes through
                                  binary64 with std::pow / std::log2; the statement is decided per transcript line by the
                                  certified interval evaluation in `UVerif.Lns.addSubOk`, not proved for all operands
                                  (it needs an accuracy hypothesis on libm and is FALSE in Wrapping behaviour out of range,
                                  D10, and for configurations whose range exceeds binary64).
-/
import UVerif.Spec.Lns
import UVerif.Model.Lns
import UVerifProofs.Lemmas.LnsBits
import UVerifProofs.Lemmas.LnsBlocks
import UVerifProofs.Lemmas.LnsOps
import UVerifProofs.Lemmas.LnsRound
import UVerifProofs.Lemmas.ArealVal
import UVerifProofs.Lemmas.LnsMagSound

set_option linter.unusedSimpArgs false
set_option linter.unusedVariables false
set_option linter.unnecessarySeqFocus false

open UVerif UVerif.Lns UVerif.Lns.Model UVerif.LnsLemmas

/-- C09, Saturating multiplication: for every nbits ≥ 2, rbits, block width and operand pair the modelled
    `operator*=` returns a canonical encoding whose decoded value is what the property demands. -/
theorem C09_mul_sat (c : Cfg) (hn : 2 ≤ c.nbits) (hw : 1 ≤ c.w) (hs : c.wrap = false) (a b : Nat)
    (ha : a < 2 ^ c.nbits) (hb : b < 2 ^ c.nbits) :
    mul c a b < 2 ^ c.nbits ∧
    mulDivSat c.nbits false (decode c.nbits a) (decode c.nbits b) = some (decode c.nbits (mul c a b)) := by
  unfold mul
  simp only [isNaN_eq hn hw ha, isNaN_eq hn hw hb, isZero_eq hn hw ha, isZero_eq hn hw hb, sign_eq hw, hs]
  by_cases h1 : a = 2 ^ (c.nbits - 1) + 2 ^ (c.nbits - 2)
  · simp only [h1, decide_true, if_true]
    exact ⟨nanEnc_lt hn, by rw [decode_nanEnc hn]; rfl⟩
  simp only [h1, decide_false, Bool.false_eq_true, if_false]
  by_cases h2 : b = 2 ^ (c.nbits - 1) + 2 ^ (c.nbits - 2)
  · simp only [h2, decide_true, if_true, setNaN_eq hn]
    refine ⟨nanEnc_lt hn, ?_⟩
    rw [decode_nanEnc hn]
    cases decode c.nbits a <;> rfl
  simp only [h2, decide_false, Bool.false_eq_true, if_false]
  by_cases h3 : a = 2 ^ (c.nbits - 2)
  · simp only [h3, decide_true, if_true]
    refine ⟨zeroEnc_lt hn, ?_⟩
    rw [decode_zeroEnc hn]
    obtain hb' | hb' : b = 2 ^ (c.nbits - 2) ∨ b ≠ 2 ^ (c.nbits - 2) := by omega
    · rw [hb', decode_zeroEnc hn]; rfl
    · obtain ⟨_, _, hd⟩ := decode_numeric hn hb hb' h2
      rw [hd]; rfl
  simp only [h3, decide_false, Bool.false_eq_true, if_false]
  obtain ⟨la1, la2, hda⟩ := decode_numeric hn ha h3 h1
  by_cases h4 : b = 2 ^ (c.nbits - 2)
  · simp only [h4, decide_true, if_true, setZero]
    refine ⟨zeroEnc_lt hn, ?_⟩
    rw [decode_zeroEnc hn, hda]; rfl
  simp only [h4, decide_false, Bool.false_eq_true, if_false]
  obtain ⟨lb1, lb2, hdb⟩ := decode_numeric hn hb h4 h2
  -- numeric × numeric
  simp only [Bool.not_false, if_true]
  rw [assign_narrow (show ¬ c.nbits - 1 > c.nbits by omega), assign_narrow (show ¬ c.nbits - 1 > c.nbits by omega)]
  obtain ⟨s1, s2⟩ := uradd_sum hn la1 lb1
  obtain ⟨_, ra2⟩ := exp_range hn la1
  obtain ⟨_, rb2⟩ := exp_range hn lb1
  have ra1 := exp_range_strict hn la1 la2
  have rb1 := exp_range_strict hn lb1 lb2
  obtain ⟨t1, t2⟩ := satTail_decode hn s1 (a.testBit (c.nbits - 1) != b.testBit (c.nbits - 1))
    (by rw [s2]; omega) (by rw [s2]; omega)
  refine ⟨t1, ?_⟩
  rw [t2, s2, hda, hdb]
  rfl

/-- C09, Saturating division -/
theorem C09_div_sat (c : Cfg) (hn : 2 ≤ c.nbits) (hw : 1 ≤ c.w) (hs : c.wrap = false) (a b : Nat)
    (ha : a < 2 ^ c.nbits) (hb : b < 2 ^ c.nbits) :
    div c a b < 2 ^ c.nbits ∧
    ∀ v, mulDivSat c.nbits true (decode c.nbits a) (decode c.nbits b) = some v → decode c.nbits (div c a b) = v := by
  unfold div
  simp only [isNaN_eq hn hw ha, isNaN_eq hn hw hb, isZero_eq hn hw ha, isZero_eq hn hw hb, sign_eq hw, hs]
  -- the zero-divisor test is the first one (code after the fix of `exc.lns.div.nan_by_zero`): x / 0 is NaN; the property
  -- constrains it only for x = NaN (NaN propagates)
  by_cases h4 : b = 2 ^ (c.nbits - 2)
  · simp only [h4, decide_true, if_true, setNaN_eq hn]
    refine ⟨nanEnc_lt hn, ?_⟩
    rw [decode_zeroEnc hn, decode_nanEnc hn]
    intro v hv
    cases hd : decode c.nbits a <;> rw [hd] at hv <;> simp [mulDivSat] at hv
    exact hv
  simp only [h4, decide_false, Bool.false_eq_true, if_false]
  by_cases h1 : a = 2 ^ (c.nbits - 1) + 2 ^ (c.nbits - 2)
  · simp only [h1, decide_true, if_true]
    refine ⟨nanEnc_lt hn, ?_⟩
    rw [decode_nanEnc hn]; intro v hv; simpa [mulDivSat] using hv
  simp only [h1, decide_false, Bool.false_eq_true, if_false]
  by_cases h2 : b = 2 ^ (c.nbits - 1) + 2 ^ (c.nbits - 2)
  · simp only [h2, decide_true, if_true, setNaN_eq hn]
    refine ⟨nanEnc_lt hn, ?_⟩
    rw [decode_nanEnc hn]
    intro v hv
    cases hd : decode c.nbits a <;> rw [hd] at hv <;> simpa [mulDivSat] using hv
  simp only [h2, decide_false, Bool.false_eq_true, if_false]
  obtain ⟨lb1, lb2, hdb⟩ := decode_numeric hn hb h4 h2
  by_cases h3 : a = 2 ^ (c.nbits - 2)
  · simp only [h3, decide_true, if_true]
    refine ⟨zeroEnc_lt hn, ?_⟩
    rw [decode_zeroEnc hn, hdb]
    intro v hv; simpa [mulDivSat] using hv
  simp only [h3, decide_false, Bool.false_eq_true, if_false]
  obtain ⟨la1, la2, hda⟩ := decode_numeric hn ha h3 h1
  simp only [Bool.not_false, if_true]
  rw [assign_narrow (show ¬ c.nbits - 1 > c.nbits by omega), assign_narrow (show ¬ c.nbits - 1 > c.nbits by omega)]
  obtain ⟨s1, s2⟩ := ursub_diff hn la1 lb1
  obtain ⟨_, ra2⟩ := exp_range hn la1
  obtain ⟨_, rb2⟩ := exp_range hn lb1
  have ra1 := exp_range_strict hn la1 la2
  have rb1 := exp_range_strict hn lb1 lb2
  obtain ⟨t1, t2⟩ := satTail_decode hn s1 (a.testBit (c.nbits - 1) != b.testBit (c.nbits - 1))
    (by rw [s2]; omega) (by rw [s2]; omega)
  refine ⟨t1, ?_⟩
  rw [t2, s2, hda, hdb]
  intro v hv
  simpa [mulDivSat] using hv

/-- C09, Wrapping multiplication: exponent field = exact sum reduced modulo 2^(nbits-1), sign = product of signs,
    zero absorbing, NaN propagating — for every configuration and operand pair. -/
theorem C09_mul_wrap (c : Cfg) (hn : 2 ≤ c.nbits) (hw : 1 ≤ c.w) (hs : c.wrap = true) (a b : Nat)
    (ha : a < 2 ^ c.nbits) (hb : b < 2 ^ c.nbits) :
    mulDivWrapOk c.nbits false (decode c.nbits a) (decode c.nbits b) (mul c a b) = true := by
  unfold mul
  simp only [isNaN_eq hn hw ha, isNaN_eq hn hw hb, isZero_eq hn hw ha, isZero_eq hn hw hb, sign_eq hw, hs]
  by_cases h1 : a = 2 ^ (c.nbits - 1) + 2 ^ (c.nbits - 2)
  · simp [h1, decode_nanEnc hn, mulDivWrapOk]
  simp only [h1, decide_false, Bool.false_eq_true, if_false]
  by_cases h2 : b = 2 ^ (c.nbits - 1) + 2 ^ (c.nbits - 2)
  · simp only [h2, decide_true, if_true, setNaN_eq hn, decode_nanEnc hn]
    cases decode c.nbits a <;> simp [mulDivWrapOk, decode_nanEnc hn]
  simp only [h2, decide_false, Bool.false_eq_true, if_false]
  by_cases h3 : a = 2 ^ (c.nbits - 2)
  · simp only [h3, decide_true, if_true, decode_zeroEnc hn]
    by_cases h4 : b = 2 ^ (c.nbits - 2)
    · simp [h4, decode_zeroEnc hn, mulDivWrapOk]
    · obtain ⟨_, _, hdb⟩ := decode_numeric hn hb h4 h2
      simp [hdb, mulDivWrapOk, decode_zeroEnc hn]
  simp only [h3, decide_false, Bool.false_eq_true, if_false]
  obtain ⟨la1, la2, hda⟩ := decode_numeric hn ha h3 h1
  by_cases h4 : b = 2 ^ (c.nbits - 2)
  · simp [h4, setZero, decode_zeroEnc hn, hda, mulDivWrapOk]
  simp only [h4, decide_false, Bool.false_eq_true, if_false]
  obtain ⟨lb1, lb2, hdb⟩ := decode_numeric hn hb h4 h2
  simp only [Bool.not_true, Bool.false_eq_true, if_false]
  rw [assign_narrow (show ¬ c.nbits - 1 > c.nbits by omega), assign_narrow (show ¬ c.nbits - 1 > c.nbits by omega)]
  have hv : (a % 2 ^ (c.nbits - 1) + b % 2 ^ (c.nbits - 1)) % 2 ^ (c.nbits - 1) < 2 ^ (c.nbits - 1) :=
    Nat.mod_lt _ (Nat.two_pow_pos _)
  obtain ⟨w1, w2, w3⟩ := wrapTail hn hv (a.testBit (c.nbits - 1) != b.testBit (c.nbits - 1))
  rw [hda, hdb]
  simp only [mulDivWrapOk, wrapFields, Bool.false_eq_true, if_false]
  rw [ofSigned_add (by omega) la1 lb1]
  simp only [Bool.and_eq_true, decide_eq_true_eq, beq_iff_eq]
  exact ⟨⟨w1, w2⟩, w3⟩

/-- C09, Wrapping division: exponent field = exact DIFFERENCE reduced modulo 2^(nbits-1), sign = product of signs,
    0/x = 0, NaN propagating, x/0 unconstrained — for every configuration and operand pair
    (the full statement; the code was repaired in commit 848b03b, before that it added the exponents). -/
theorem C09_div_wrap (c : Cfg) (hn : 2 ≤ c.nbits) (hw : 1 ≤ c.w) (hs : c.wrap = true) (a b : Nat)
    (ha : a < 2 ^ c.nbits) (hb : b < 2 ^ c.nbits) :
    mulDivWrapOk c.nbits true (decode c.nbits a) (decode c.nbits b) (div c a b) = true := by
  by_cases hnum : a ≠ 2 ^ (c.nbits - 1) + 2 ^ (c.nbits - 2) ∧ b ≠ 2 ^ (c.nbits - 1) + 2 ^ (c.nbits - 2) ∧
      a ≠ 2 ^ (c.nbits - 2) ∧ b ≠ 2 ^ (c.nbits - 2)
  · -- numeric / numeric: exponent fields subtracted modulo 2^(nbits-1)
    obtain ⟨h1, h2, h3, h4⟩ := hnum
    obtain ⟨la1, la2, hda⟩ := decode_numeric hn ha h3 h1
    obtain ⟨lb1, lb2, hdb⟩ := decode_numeric hn hb h4 h2
    obtain ⟨d1, d2, d3⟩ := div_wrap_numeric c hn hw hs a b ha hb h1 h2 h3 h4
    rw [hda, hdb]
    simp only [mulDivWrapOk, wrapFields, if_true, Bool.and_eq_true, decide_eq_true_eq, beq_iff_eq]
    rw [ofSigned_sub (by omega) la1 lb1, d2, d3, add_twosComp_mod lb1]
    exact ⟨⟨d1, rfl⟩, rfl⟩
  · -- a zero or NaN operand: the prologue
    unfold div
    simp only [isNaN_eq hn hw ha, isNaN_eq hn hw hb, isZero_eq hn hw ha, isZero_eq hn hw hb, sign_eq hw, hs]
    by_cases h4 : b = 2 ^ (c.nbits - 2)
    · simp only [h4, decide_true, if_true, setNaN_eq hn, decode_zeroEnc hn]
      cases decode c.nbits a <;> simp [mulDivWrapOk, decode_nanEnc hn]
    simp only [h4, decide_false, Bool.false_eq_true, if_false]
    by_cases h1 : a = 2 ^ (c.nbits - 1) + 2 ^ (c.nbits - 2)
    · simp [h1, decode_nanEnc hn, mulDivWrapOk]
    simp only [h1, decide_false, Bool.false_eq_true, if_false]
    by_cases h2 : b = 2 ^ (c.nbits - 1) + 2 ^ (c.nbits - 2)
    · simp only [h2, decide_true, if_true, setNaN_eq hn, decode_nanEnc hn]
      cases decode c.nbits a <;> simp [mulDivWrapOk, decode_nanEnc hn]
    simp only [h2, decide_false, Bool.false_eq_true, if_false]
    obtain ⟨_, _, hdb⟩ := decode_numeric hn hb h4 h2
    by_cases h3 : a = 2 ^ (c.nbits - 2)
    · simp [h3, decode_zeroEnc hn, hdb, mulDivWrapOk]
    · exact absurd ⟨h1, h2, h3, h4⟩ hnum

/-- unary minus: numbers change sign, zero and NaN are fixed points -/
theorem C09_neg (c : Cfg) (hn : 2 ≤ c.nbits) (hw : 1 ≤ c.w) (a : Nat) (ha : a < 2 ^ c.nbits) :
    neg c a < 2 ^ c.nbits ∧
    decode c.nbits (neg c a) = (match decode c.nbits a with
      | Val.num s e => Val.num (!s) e
      | v => v) := by
  unfold neg
  simp only [isNaN_eq hn hw ha, isZero_eq hn hw ha, sign_eq hw]
  by_cases h1 : a = 2 ^ (c.nbits - 1) + 2 ^ (c.nbits - 2)
  · simp [h1, decode_nanEnc hn, nanEnc_lt hn]
  by_cases h3 : a = 2 ^ (c.nbits - 2)
  · simp [h3, decode_zeroEnc hn, zeroEnc_lt hn]
  simp only [h1, h3, decide_false, Bool.or_false, Bool.false_eq_true, if_false]
  obtain ⟨la1, la2, hda⟩ := decode_numeric hn ha h3 h1
  have hs := setSign_eq hn ha (!a.testBit (c.nbits - 1))
  unfold setSign at hs
  rw [hs, hda]
  obtain ⟨d1, d2⟩ := decode_num hn (!a.testBit (c.nbits - 1)) la1 la2
  exact ⟨d1, d2⟩

/-- NaN propagates through Saturating `*` -/
theorem C09_nan_propagates_mul (c : Cfg) (hn : 2 ≤ c.nbits) (hw : 1 ≤ c.w) (hs : c.wrap = false) (a b : Nat)
    (ha : a < 2 ^ c.nbits) (hb : b < 2 ^ c.nbits)
    (h : decode c.nbits a = Val.nan ∨ decode c.nbits b = Val.nan) : decode c.nbits (mul c a b) = Val.nan := by
  have := (C09_mul_sat c hn hw hs a b ha hb).2
  rcases h with h | h <;> rw [h] at this
  · simpa [mulDivSat] using this.symm
  · cases hd : decode c.nbits a <;> rw [hd] at this <;> simpa [mulDivSat] using this.symm

/-- NaN propagates through Saturating `/` -/
theorem C09_nan_propagates_div (c : Cfg) (hn : 2 ≤ c.nbits) (hw : 1 ≤ c.w) (hs : c.wrap = false) (a b : Nat)
    (ha : a < 2 ^ c.nbits) (hb : b < 2 ^ c.nbits)
    (h : decode c.nbits a = Val.nan ∨ decode c.nbits b = Val.nan) : decode c.nbits (div c a b) = Val.nan := by
  have := (C09_div_sat c hn hw hs a b ha hb).2
  rcases h with h | h
  · exact this _ (by rw [h]; rfl)
  · refine this _ ?_
    rw [h]; cases decode c.nbits a <;> rfl

/-- zero is absorbing for Saturating `*` (unless the other operand is NaN) -/
theorem C09_zero_absorbing_mul (c : Cfg) (hn : 2 ≤ c.nbits) (hw : 1 ≤ c.w) (hs : c.wrap = false) (a b : Nat)
    (ha : a < 2 ^ c.nbits) (hb : b < 2 ^ c.nbits) (hna : decode c.nbits a ≠ Val.nan) (hnb : decode c.nbits b ≠ Val.nan)
    (h : decode c.nbits a = Val.zero ∨ decode c.nbits b = Val.zero) : decode c.nbits (mul c a b) = Val.zero := by
  have := (C09_mul_sat c hn hw hs a b ha hb).2
  rcases h with h | h
  · rw [h] at this
    cases hd : decode c.nbits b <;> rw [hd] at this <;> first | (simpa [mulDivSat] using this.symm) | exact absurd hd hnb
  · rw [h] at this
    cases hd : decode c.nbits a <;> rw [hd] at this <;> first | (simpa [mulDivSat] using this.symm) | exact absurd hd hna

/-- the sign of a Saturating product / quotient of two numbers is the product of the signs (when the result is a number) -/
theorem C09_sign_product_sat (c : Cfg) (hn : 2 ≤ c.nbits) (hw : 1 ≤ c.w) (hs : c.wrap = false) (a b : Nat)
    (ha : a < 2 ^ c.nbits) (hb : b < 2 ^ c.nbits) (sa sb s : Bool) (ea eb e : Int)
    (hda : decode c.nbits a = Val.num sa ea) (hdb : decode c.nbits b = Val.num sb eb) :
    (decode c.nbits (mul c a b) = Val.num s e → s = (sa != sb)) ∧
    (decode c.nbits (div c a b) = Val.num s e → s = (sa != sb)) := by
  have hm := (C09_mul_sat c hn hw hs a b ha hb).2
  have hd := (C09_div_sat c hn hw hs a b ha hb).2
  rw [hda, hdb] at hm hd
  constructor
  · intro h; rw [h] at hm
    simp only [mulDivSat, satResult, Option.some.injEq] at hm
    split_ifs at hm <;> cases hm <;> rfl
  · intro h
    have := hd _ rfl
    rw [h] at this
    simp only [satResult] at this
    split_ifs at this <;> cases this <;> rfl

/-- BlockType independence of `*`: every block width gives the same encoding -/
theorem C09_blocktype_independent_mul (n r w₁ w₂ : Nat) (wr : Bool) (hn : 2 ≤ n) (h₁ : 1 ≤ w₁) (h₂ : 1 ≤ w₂) (a b : Nat)
    (ha : a < 2 ^ n) (hb : b < 2 ^ n) : mul ⟨n, r, w₁, wr⟩ a b = mul ⟨n, r, w₂, wr⟩ a b := by
  unfold mul
  simp only [isNaN_eq hn h₁ ha, isNaN_eq hn h₁ hb, isZero_eq hn h₁ ha, isZero_eq hn h₁ hb, sign_eq h₁,
    isNaN_eq hn h₂ ha, isNaN_eq hn h₂ hb, isZero_eq hn h₂ ha, isZero_eq hn h₂ hb, sign_eq h₂]

/-- BlockType independence of `/` -/
theorem C09_blocktype_independent_div (n r w₁ w₂ : Nat) (wr : Bool) (hn : 2 ≤ n) (h₁ : 1 ≤ w₁) (h₂ : 1 ≤ w₂) (a b : Nat)
    (ha : a < 2 ^ n) (hb : b < 2 ^ n) : div ⟨n, r, w₁, wr⟩ a b = div ⟨n, r, w₂, wr⟩ a b := by
  unfold div
  simp only [isNaN_eq hn h₁ ha, isNaN_eq hn h₁ hb, isZero_eq hn h₁ ha, isZero_eq hn h₁ hb, sign_eq h₁,
    isNaN_eq hn h₂ ha, isNaN_eq hn h₂ hb, isZero_eq hn h₂ ha, isZero_eq hn h₂ hb, sign_eq h₂]

/-- add/sub, conversion back from the `double` detour: the guard/round/sticky code of convert_ieee754 is
    round-half-to-even of (significand of log2) / 2^shiftRight … -/
theorem C09_log_rounding_is_rne (x sr : Nat) (hsr : 1 ≤ sr) :
    (roundGRS x sr : Int) = rne ((x : Rat) / ((2 ^ sr : Nat) : Rat)) := by
  rw [roundGRS_eq_rneShr x sr hsr, rne_div_two_pow]

/-- … and that quotient is exactly 2^rbits · |log2 value|: for a normal double `logv` (biased exponent ue ≥ 1) with
    shiftRight = 1075 - ue - rbits > 0, (fraction + 2^52) / 2^shiftRight = 2^rbits · |logv|.  Together: on the main path the
    exponent magnitude the model writes is rne(2^rbits · |log2|), so the result is always one of the two lattice neighbours
    of the OBSERVED logarithm; faithfulness w.r.t. the exact sum then only depends on the accuracy of libm. -/
theorem C09_log_scaled_value (logv rbits : Nat) (hue : 1 ≤ IeeeBits.expOf IeeeBits.f64 logv)
    (sr : Nat) (hsr : (sr : Int) = 1075 - (IeeeBits.expOf IeeeBits.f64 logv : Int) - (rbits : Int)) :
    ((IeeeBits.fracOf IeeeBits.f64 logv + 2 ^ 52 : Nat) : Rat) / ((2 ^ sr : Nat) : Rat) =
      ((2 ^ rbits : Nat) : Rat) * |IeeeBits.toRat IeeeBits.f64 logv| := by
  have hm : IeeeBits.mant IeeeBits.f64 logv = IeeeBits.fracOf IeeeBits.f64 logv + 2 ^ 52 := by
    unfold IeeeBits.mant; rw [if_neg (by omega)]; rfl
  have hu : IeeeBits.ulpExp IeeeBits.f64 logv = (IeeeBits.expOf IeeeBits.f64 logv : Int) - 1075 := by
    unfold IeeeBits.ulpExp
    have : Nat.max (IeeeBits.expOf IeeeBits.f64 logv) 1 = IeeeBits.expOf IeeeBits.f64 logv := Nat.max_eq_left hue
    rw [this]
    have hb : (IeeeBits.f64.bias : Int) = 1023 := by decide
    have hf : (IeeeBits.f64.fbits : Int) = 52 := by decide
    rw [hb, hf]; ring
  have habs : |IeeeBits.toRat IeeeBits.f64 logv| =
      ((IeeeBits.fracOf IeeeBits.f64 logv + 2 ^ 52 : Nat) : Rat) * pow2 ((IeeeBits.expOf IeeeBits.f64 logv : Int) - 1075) := by
    unfold IeeeBits.toRat
    simp only [ArealLemmas.dyadic_def, hm, hu]
    have hnn : (0 : Rat) ≤ (((IeeeBits.fracOf IeeeBits.f64 logv + 2 ^ 52 : Nat) : Int) : Rat) *
        pow2 ((IeeeBits.expOf IeeeBits.f64 logv : Int) - 1075) :=
      mul_nonneg (by positivity) (le_of_lt (ArealLemmas.pow2_pos _))
    split
    · rw [abs_neg, abs_of_nonneg hnn]; push_cast; ring
    · rw [abs_of_nonneg hnn]; push_cast; ring
  rw [habs]
  have hp : pow2 ((IeeeBits.expOf IeeeBits.f64 logv : Int) - 1075) * ((2 ^ sr : Nat) : Rat) * ((2 ^ rbits : Nat) : Rat) = 1 := by
    rw [← ArealLemmas.pow2_natCast, ← ArealLemmas.pow2_natCast, ← ArealLemmas.pow2_add, ← ArealLemmas.pow2_add]
    have : (IeeeBits.expOf IeeeBits.f64 logv : Int) - 1075 + (sr : Int) + (rbits : Int) = 0 := by omega
    rw [this, ArealLemmas.pow2_eq_zpow]; simp
  have hsrpos : (0 : Rat) < ((2 ^ sr : Nat) : Rat) := by exact_mod_cast Nat.two_pow_pos sr
  rw [div_eq_iff (ne_of_gt hsrpos)]
  calc ((IeeeBits.fracOf IeeeBits.f64 logv + 2 ^ 52 : Nat) : Rat)
      = ((IeeeBits.fracOf IeeeBits.f64 logv + 2 ^ 52 : Nat) : Rat) *
          (pow2 ((IeeeBits.expOf IeeeBits.f64 logv : Int) - 1075) * ((2 ^ sr : Nat) : Rat) * ((2 ^ rbits : Nat) : Rat)) := by
        rw [hp, mul_one]
    _ = _ := by ring

/-- add/sub, the spec side: the certified interval evaluation that the driver's predicate `addSubOk` rests on is SOUND.
    In any linearly ordered field that contains u = 2^(1/2^rbits) (u > 0, u^(2^rbits) = 2) the answer of `magOf` locates the
    exact real magnitude u^Ea + u^Eb resp. |u^Ea - u^Eb| on the lattice {u^G}: `.zero` ⇒ it is 0, `.at G` ⇒ it is u^G,
    `.between G` ⇒ u^G ≤ it < u^(G+1).  (So a transcript line is never judged against a wrong bracket; `.undecided` is
    reported as a failure, never accepted.) -/
theorem C09_addsub_spec_sound {α : Type*} [Field α] [LinearOrder α] [IsStrictOrderedRing α]
    (u : α) (hu : 0 < u) (rbits : Nat) (hur : u ^ (2 ^ rbits) = 2) (Ea Eb : Int) (sub : Bool) :
    match magOf rbits Ea Eb sub with
    | .zero => LnsSound.realMag u Ea Eb sub = 0
    | .at G => LnsSound.realMag u Ea Eb sub = u ^ G
    | .between G => u ^ G ≤ LnsSound.realMag u Ea Eb sub ∧ LnsSound.realMag u Ea Eb sub < u ^ (G + 1)
    | .undecided => True :=
  LnsSound.magOf_sound u hu rbits hur Ea Eb sub

/-- the add/sub clause as the property states it (decided per line by the driver, not proved): for the observed libm values
    of the transcript line the model's result is adjacent to the exact real sum. -/
def C09_add_faithful_full : Prop :=
  ∀ (c : Cfg) (t : Thresholds) (isSub : Bool) (a b da db lg : Nat),
    2 ≤ c.nbits → c.rbits < c.nbits → c.wrap = false →
    -- da, db, lg, t are what std::pow / std::log2 return for these operands (an assumption about libm)
    addSubOk c.nbits (addSubExpect c.rbits isSub (decode c.nbits a) (decode c.nbits b))
      (decode c.nbits (addSub c t isSub da db lg).2) = true

/-! ### non-vacuity: the hypotheses are satisfiable on non-trivial instances -/

-- lns<8,4,uint8_t> Saturating: 2^(3.5) · 2^(3.75) clamps to maxpos (exponent 63 = 0x3f), negative × positive is negative
example : mul ⟨8, 4, 8, false⟩ 0xb8 0x3c = 0xbf ∧ decode 8 0xbf = Val.num true 63 := by decide
-- lns<9,4,uint8_t> (two blocks, special bits NOT together): 2^(-7.9375)·2^(-7.9375) flushes to zero
example : mul ⟨9, 4, 8, false⟩ 0x81 0x81 = 0x80 ∧ decode 9 0x80 = Val.zero := by decide
-- lns<16,8,uint8_t> Wrapping: exponent sum wraps
example : mul ⟨16, 8, 8, true⟩ 0x3fff 0x0002 = 0x4001 := by decide
-- Wrapping division: 2^(1.125) / 2^(0.1875) = 2^(0.9375) (0x12 - 0x03 = 0x0f); and a difference that wraps
example : div ⟨8, 4, 8, true⟩ 0x12 0x03 = 0x0f ∧ div ⟨8, 4, 8, true⟩ 0x41 0x3f = 0x02 := by decide
