/-
  C10 — dd / qd results are normalised and within their documented error bounds.

  What is PROVED here (on the model of UVerif.Model.DD — the statement sequence of dd_impl.hpp over Model.F64):
    * weak normalisation `|lo| ≤ ulp(hi)` of dd `+ − ×` (what the closing three_sum guarantees; `p ≥ 6`);
    * a relative error bound `3·2^(−2p)` for dd `+ −`;
    * the exactness clauses: the dd sum and product of two doubles are exact with a correctly rounded head, `x − x = 0`,
      multiplication by a power of two is exact (subnormal tails included);
    * special values: NaN and infinity propagation of `+ − × ÷` like doubles; division agrees with double division on EVERY
      special-value case (`C10_special_div_like_doubles`: finite/inf, x/±0 signs, inf/inf, 0/0), `sqrt(+inf) = +inf`
      (after the repairs of operator/= and sqrt);
    * the property's normalisation clause `|lo| ≤ ½ulp(hi)` is FALSE of the pinned code (D21): counterexample
      theorems by evaluation of the model at the witnesses replayed in every run.
  What is NOT proved: the numeric error constants k·2^-106 / k·2^-212 (measured exactly on rationals for every
  transcript line; see the tag histogram) except for the dd sum/difference (`C10_dd_add_error_bound`: 3·2^(−2p)).
  Property theorems only; proofs in UVerifProofs/Lemmas/{F64Round,F64Eft,F64Lift,F64Split,F64Dekker,F64ProdLift,F64ProdAll,
  DDLemmas,DDProdAll,DDNorm,DDNormMul,DDNormMulLift}.lean.
-/
import UVerifProofs.Lemmas.DDLemmas
import UVerifProofs.Lemmas.F64ProdLift
import UVerifProofs.Lemmas.DDNorm
import UVerifProofs.Lemmas.DDProdAll
import UVerifProofs.Lemmas.DDNormMulLift
import UVerif.Spec.F64
open UVerif UVerif.F64

/-! ### exactness clauses -/

/-- the dd sum of two doubles equals the exact sum, and its head is the correctly rounded sum
    (guard: `2(|a| + |b|) ≤ maxMag`, i.e. no overflow with one binade to spare). -/
theorem C10_dd_of_two_doubles_exact (f : Fmt) (ok : f.Ok) (a b : F) (ha : a.Rep f) (hb : b.Rep f)
    (hg : 2 * (a.mag + b.mag) ≤ maxMag f) :
    (DD.add f (DD.ofF a) (DD.ofF b)).hi.Rep f ∧ (DD.add f (DD.ofF a) (DD.ofF b)).lo.Rep f ∧
    (DD.add f (DD.ofF a) (DD.ofF b)).hi.toInt + (DD.add f (DD.ofF a) (DD.ofF b)).lo.toInt = a.toInt + b.toInt ∧
    (DD.add f (DD.ofF a) (DD.ofF b)).hi.toInt = rnInt f.p (a.toInt + b.toInt) :=
  DDLemmas.add_of_doubles f ok ha hb hg

/-- the dd PRODUCT of two doubles (`dd(a) * dd(b)` through `dd::operator*=`: two_prod of the heads, two_prods with the
    zero tails, two three_sums) equals the exact product and its head is the correctly rounded product — for ALL
    representable doubles (zero, subnormal, normal, below or above SPLIT_THRESHOLD) under the guards of `C13_two_prod`:
    `|a|, |b| < 2^(top−1)`, no underflow (`q ≤ (size a − p) + (size b − p)`), three binades of headroom below overflow.
    Stated in integer units, times `2^q`. -/
theorem C10_dd_product_of_two_doubles_exact (f : Fmt) (ok : f.Ok) (h4 : 4 ≤ f.p)
    (hfmt : f.p + 2 * (splitBits f + 1) ≤ f.top) (a b : F) (ha : a.Rep f) (hb : b.Rep f)
    (hla : a.mag < 2 ^ (f.top - 1)) (hlb : b.mag < 2 ^ (f.top - 1))
    (hq : f.q ≤ (size a.mag - f.p) + (size b.mag - f.p))
    (hrange : 8 * 2 ^ (size a.mag + size b.mag) ≤ maxMag f * 2 ^ f.q) :
    ((DD.mul f (DD.ofF a) (DD.ofF b)).hi.toInt + (DD.mul f (DD.ofF a) (DD.ofF b)).lo.toInt) * ((2 ^ f.q : Nat) : Int)
      = a.toInt * b.toInt ∧
    (DD.mul f (DD.ofF a) (DD.ofF b)).hi.toInt * ((2 ^ f.q : Nat) : Int) = rnInt f.p (a.toInt * b.toInt) := by
  have hp : 1 ≤ f.p := by omega
  have da : ((2 ^ (size a.mag - f.p) : Nat) : Int) ∣ a.toInt := by
    rw [F.mag_eq_natAbs]; exact isFloat_quantum_dvd hp ha.2
  have db : ((2 ^ (size b.mag - f.p) : Nat) : Int) ∣ b.toInt := by
    rw [F.mag_eq_natAbs]; exact isFloat_quantum_dvd hp hb.2
  exact DDLemmas.mul_of_doubles_all f ok h4 hfmt ha hb hla hlb da db hq hrange

/-- the free function `add(double, double)` (a single two_sum): exact for `|a| + |b| ≤ maxMag`. -/
theorem C10_add_d2_exact (f : Fmt) (ok : f.Ok) (a b : F) (ha : a.Rep f) (hb : b.Rep f)
    (hg : a.mag + b.mag ≤ maxMag f) :
    (DD.addDD f a b).hi.toInt + (DD.addDD f a b).lo.toInt = a.toInt + b.toInt ∧
    (DD.addDD f a b).hi.toInt = rnInt f.p (a.toInt + b.toInt) := by
  have h := twoSum_spec f ok ha hb hg
  have hna : a.isNaN = false := by
    have := ha.1; cases a <;> simp_all [F.isFinite, F.isNaN]
  have hnb : b.isNaN = false := by
    have := hb.1; cases b <;> simp_all [F.isFinite, F.isNaN]
  unfold DD.addDD
  simp only [hna, hnb, Bool.or_self, Bool.false_eq_true, if_false]
  exact ⟨h.2.2.1, h.2.2.2⟩

/-- the free function `mul(double, double)` (a single two_prod): exact with a correctly rounded head, ALL representable
    operands, guards of `C13_two_prod`. -/
theorem C10_mul_d2_exact (f : Fmt) (ok : f.Ok) (h4 : 4 ≤ f.p) (hfmt : f.p + 2 * (splitBits f + 1) ≤ f.top)
    (a b : F) (ha : a.Rep f) (hb : b.Rep f)
    (hla : a.mag < 2 ^ (f.top - 1)) (hlb : b.mag < 2 ^ (f.top - 1))
    (hq : f.q ≤ (size a.mag - f.p) + (size b.mag - f.p))
    (hrange : 8 * 2 ^ (size a.mag + size b.mag) ≤ maxMag f * 2 ^ f.q) :
    ((DD.mulDD f a b).hi.toInt + (DD.mulDD f a b).lo.toInt) * ((2 ^ f.q : Nat) : Int) = a.toInt * b.toInt ∧
    (DD.mulDD f a b).hi.toInt * ((2 ^ f.q : Nat) : Int) = rnInt f.p (a.toInt * b.toInt) := by
  have h := twoProd_spec_all f ok h4 hfmt ha hb hla hlb hq hrange
  have hna : a.isNaN = false := by
    have := ha.1; cases a <;> simp_all [F.isFinite, F.isNaN]
  have hnb : b.isNaN = false := by
    have := hb.1; cases b <;> simp_all [F.isFinite, F.isNaN]
  unfold DD.mulDD
  simp only [hna, hnb, Bool.or_self, Bool.false_eq_true, if_false]
  exact ⟨h.2.2.1, h.2.2.2⟩

/-- `x − x` is zero for every finite dd operand (normalised or not). -/
theorem C10_sub_self (f : Fmt) (ok : f.Ok) (x : DD.DD) (hh : x.hi.Rep f) (hl : x.lo.Rep f)
    (hmh : x.hi.mag ≤ maxMag f) (hml : x.lo.mag ≤ maxMag f) :
    (DD.sub f x x).hi.toInt = 0 ∧ (DD.sub f x x).lo.toInt = 0 ∧
    (DD.sub f x x).hi.isFinite = true ∧ (DD.sub f x x).lo.isFinite = true :=
  DDLemmas.sub_self f ok hh hl hmh hml

/-- **multiplication of a dd value by a power of two `(±2^k, 0)` is exact** — every finite dd value: the head any
    representable double, the tail zero or any representable double (SUBNORMAL tails included), `|lo| ≤ |hi|`.
    Guards: no underflow of the two limb products (`2^eh ∣ hi`, `q ≤ eh + k`; for a non-zero tail `2^el ∣ lo`,
    `q ≤ el + k` — with `el = 0` for a subnormal tail this says `2^k ≥ 1` in real terms), `|hi|, |c| < 2^(top−1)`, three
    binades of headroom below overflow (where the statement is FALSE: `C10_mul_pow2_near_overflow_counterexample`).
    `c.mag = 2^k` in integer units.  Stated in integer units, times `2^q`. -/
theorem C10_mul_pow2_exact (f : Fmt) (ok : f.Ok) (h4 : 4 ≤ f.p) (hfmt : f.p + 2 * (splitBits f + 1) ≤ f.top)
    (x : DD.DD) (c : F) (hh : x.hi.Rep f) (hl : x.lo.Rep f) (hc : c.Rep f) (eh el k : Nat)
    (hlh : x.hi.mag < 2 ^ (f.top - 1)) (hlc : c.mag < 2 ^ (f.top - 1)) (hlo : x.lo.mag ≤ x.hi.mag)
    (dh : ((2 ^ eh : Nat) : Int) ∣ x.hi.toInt) (hcm : c.mag = 2 ^ k) (hqh : f.q ≤ eh + k)
    (hlow : x.lo.toInt = 0 ∨ (((2 ^ el : Nat) : Int) ∣ x.lo.toInt ∧ f.q ≤ el + k))
    (hrange : 8 * 2 ^ (size x.hi.mag + size c.mag) ≤ maxMag f * 2 ^ f.q) :
    ((DD.mul f x (DD.ofF c)).hi.toInt + (DD.mul f x (DD.ofF c)).lo.toInt) * ((2 ^ f.q : Nat) : Int)
      = (x.hi.toInt + x.lo.toInt) * c.toInt :=
  DDLemmas.mul_pow2_all f ok h4 hfmt hh hl hc hlh hlc hlo dh hcm hqh hlow hrange

set_option exponentiation.threshold 5000 in
set_option maxRecDepth 100000 in
/-- non-vacuity of `C10_mul_pow2_exact` with a SUBNORMAL tail: x = (2^-1021·(1+2^-52), 3·2^-1074), c = 2^10 (binary64). -/
example :
    let x : DD.DD := ⟨ofBits64 0x0020000000000001, ofBits64 0x0000000000000003⟩
    let c := ofBits64 0x4090000000000000
    x.hi.mag < 2 ^ (binary64.top - 1) ∧ c.mag < 2 ^ (binary64.top - 1) ∧ x.lo.mag ≤ x.hi.mag ∧
    ((2 ^ 1 : Nat) : Int) ∣ x.hi.toInt ∧ c.mag = 2 ^ 1084 ∧ binary64.q ≤ 1 + 1084 ∧
    ((2 ^ 0 : Nat) : Int) ∣ x.lo.toInt ∧ binary64.q ≤ 0 + 1084 ∧
    8 * 2 ^ (size x.hi.mag + size c.mag) ≤ maxMag binary64 * 2 ^ binary64.q ∧
    (DD.mul binary64 x (DD.ofF c)).lo = ofBits64 0x0000000000000400 := by
  decide

/-- **weak normalisation of the dd sum and difference** — what the closing three_sum of `dd::operator+=` / `-=`
    guarantees: for normalised operands (`2|lo| ≤ ulp(hi)`), every format with `p ≥ 6`, no overflow
    (`16·(|a.hi|+|a.lo|+|b.hi|+|b.lo|) ≤ maxMag`; underflow is harmless for + and −):  `|lo| ≤ ulp(hi)`.
    Massive cancellation of the heads and subnormal values are included.  (The property's `|lo| ≤ ½ulp(hi)` is false:
    `C10_dd_add_strict_normalisation_counterexample`.) -/
theorem C10_dd_weakly_normalised (f : Fmt) (ok : f.Ok) (h6 : 6 ≤ f.p) (a b : DD.DD)
    (hah : a.hi.Rep f) (hal : a.lo.Rep f) (hbh : b.hi.Rep f) (hbl : b.lo.Rep f)
    (na : 2 * a.lo.mag ≤ ulpNat f.p a.hi.mag) (nb : 2 * b.lo.mag ≤ ulpNat f.p b.hi.mag)
    (hg : 16 * (a.hi.mag + a.lo.mag + b.hi.mag + b.lo.mag) ≤ maxMag f) :
    (DD.add f a b).lo.mag ≤ ulpNat f.p (DD.add f a b).hi.mag ∧
    (DD.sub f a b).lo.mag ≤ ulpNat f.p (DD.sub f a b).hi.mag :=
  ⟨DD_add_weak f ok h6 hah hal hbh hbl na nb hg, DD_sub_weak f ok h6 hah hal hbh hbl na nb hg⟩

/-- **proved relative-error bound for the dd sum and difference**: for normalised operands, `p ≥ 6`, no overflow:
    `|exact − (hi + lo)| ≤ 3·2^(−2p)·|exact|` — i.e. 3·2^-106 for binary64 — whatever the cancellation between the
    operands (the error is the discarded third output of the closing three_sum plus the rounding of the second-order
    term `t1' + t2`; underflow is harmless).  Stated without division: `2^p·2^p·|err| ≤ 3·|exact|` in integer units. -/
theorem C10_dd_add_error_bound (f : Fmt) (ok : f.Ok) (h6 : 6 ≤ f.p) (a b : DD.DD)
    (hah : a.hi.Rep f) (hal : a.lo.Rep f) (hbh : b.hi.Rep f) (hbl : b.lo.Rep f)
    (na : 2 * a.lo.mag ≤ ulpNat f.p a.hi.mag) (nb : 2 * b.lo.mag ≤ ulpNat f.p b.hi.mag)
    (hg : 16 * (a.hi.mag + a.lo.mag + b.hi.mag + b.lo.mag) ≤ maxMag f) :
    2 ^ f.p * (2 ^ f.p * (a.hi.toInt + a.lo.toInt + b.hi.toInt + b.lo.toInt
        - ((DD.add f a b).hi.toInt + (DD.add f a b).lo.toInt)).natAbs)
      ≤ 3 * (a.hi.toInt + a.lo.toInt + b.hi.toInt + b.lo.toInt).natAbs ∧
    2 ^ f.p * (2 ^ f.p * (a.hi.toInt + a.lo.toInt - (b.hi.toInt + b.lo.toInt)
        - ((DD.sub f a b).hi.toInt + (DD.sub f a b).lo.toInt)).natAbs)
      ≤ 3 * (a.hi.toInt + a.lo.toInt - (b.hi.toInt + b.lo.toInt)).natAbs :=
  ⟨DD_add_err f ok h6 hah hal hbh hbl na nb hg, DD_sub_err f ok h6 hah hal hbh hbl na nb hg⟩

/-- the same on integer units, no magnitude hypothesis. -/
theorem C10_dd_add_error_bound_int (p : Nat) (hp6 : 6 ≤ p) (A a B b : Int)
    (hA : IsFloat p A) (ha : IsFloat p a) (hB : IsFloat p B) (hb : IsFloat p b)
    (na : 2 * a.natAbs ≤ Q p A) (nb : 2 * b.natAbs ≤ Q p B) :
    2 ^ p * (2 ^ p * (A + a + B + b - ((ddAddInt p A a B b).1 + (ddAddInt p A a B b).2)).natAbs)
      ≤ 3 * (A + a + B + b).natAbs :=
  ddAddInt_err hp6 hA ha hB hb na nb

/-- the integer-unit form: no magnitude hypothesis at all (no upper exponent bound). -/
theorem C10_dd_weakly_normalised_int (p : Nat) (hp6 : 6 ≤ p) (A a B b : Int)
    (hA : IsFloat p A) (ha : IsFloat p a) (hB : IsFloat p B) (hb : IsFloat p b)
    (na : 2 * a.natAbs ≤ Q p A) (nb : 2 * b.natAbs ≤ Q p B) :
    (ddAddInt p A a B b).2.natAbs ≤ Q p (ddAddInt p A a B b).1 :=
  ddAddInt_weak hp6 hA ha hB hb na nb

/-- **weak normalisation of the dd product** — what the closing three_sum of `dd::operator*=` guarantees: for
    normalised operands (`2|lo| ≤ ulp(hi)`), every format with `p ≥ 6` and room for the rescaled split,
    `|a.hi|, |b.hi| < 2^(top−1)`, six binades of headroom below overflow, and for each of the four partial products
    `hi·hi, hi·lo, lo·hi, lo·lo` either a factor is zero or the product does not underflow
    (`q ≤ (size x − p) + (size y − p)`):  `|lo| ≤ ulp(hi)`.  Zero, subnormal and normal limbs, below or above
    SPLIT_THRESHOLD. -/
theorem C10_dd_mul_weakly_normalised (f : Fmt) (ok : f.Ok) (h6 : 6 ≤ f.p) (hfmt : f.p + 2 * (splitBits f + 1) ≤ f.top)
    (a b : DD.DD) (hah : a.hi.Rep f) (hal : a.lo.Rep f) (hbh : b.hi.Rep f) (hbl : b.lo.Rep f)
    (na : 2 * a.lo.mag ≤ ulpNat f.p a.hi.mag) (nb : 2 * b.lo.mag ≤ ulpNat f.p b.hi.mag)
    (hla : a.hi.mag < 2 ^ (f.top - 1)) (hlb : b.hi.mag < 2 ^ (f.top - 1))
    (qhh : a.hi.toInt = 0 ∨ b.hi.toInt = 0 ∨ f.q ≤ (size a.hi.mag - f.p) + (size b.hi.mag - f.p))
    (qhl : a.hi.toInt = 0 ∨ b.lo.toInt = 0 ∨ f.q ≤ (size a.hi.mag - f.p) + (size b.lo.mag - f.p))
    (qlh : a.lo.toInt = 0 ∨ b.hi.toInt = 0 ∨ f.q ≤ (size a.lo.mag - f.p) + (size b.hi.mag - f.p))
    (qll : a.lo.toInt = 0 ∨ b.lo.toInt = 0 ∨ f.q ≤ (size a.lo.mag - f.p) + (size b.lo.mag - f.p))
    (hrange : 64 * 2 ^ (size a.hi.mag + size b.hi.mag) ≤ maxMag f * 2 ^ f.q) :
    (DD.mul f a b).lo.mag ≤ ulpNat f.p (DD.mul f a b).hi.mag :=
  DD_mul_weak f ok h6 hfmt hah hal hbh hbl na nb hla hlb qhh qhl qlh qll hrange

/-- the integer-unit core of it: the closing three_sum of the product receives a second-order third input. -/
theorem C10_dd_mul_weakly_normalised_int (p : Nat) (hp6 : 6 ≤ p) (p0 p1 p2 p3 p4 p5 p6 q4 : Int)
    (h0 : p0 = rnInt p (p0 + p1)) (h2 : p2 = rnInt p (p2 + p4)) (h3 : p3 = rnInt p (p3 + p5)) (h6 : p6 = rnInt p q4)
    (r2 : 2 ^ p * (p2 + p4).natAbs ≤ (p0 + p1).natAbs) (r3 : 2 ^ p * (p3 + p5).natAbs ≤ (p0 + p1).natAbs)
    (r4 : 2 ^ p * q4.natAbs ≤ (p2 + p4).natAbs) :
    (ddMulTail p p0 p1 p2 p3 p4 p5 p6).2.natAbs ≤ Q p (ddMulTail p p0 p1 p2 p3 p4 p5 p6).1 :=
  ddMulTail_weak hp6 h0 h2 h3 h6 r2 r3 r4

/-! ### special values -/

/-- NaN operands give NaN results, for all four operators. -/
theorem C10_special_propagate_nan (f : Fmt) (a b : DD.DD) (h : a.hi = .nan ∨ b.hi = .nan) :
    (DD.add f a b).hi = .nan ∧ (DD.sub f a b).hi = .nan ∧ (DD.mul f a b).hi = .nan ∧ (DD.div f a b).hi = .nan := by
  obtain ⟨ah, al⟩ := a
  obtain ⟨bh, bl⟩ := b
  simp only at h
  rcases h with h | h
  · subst h
    refine ⟨?_, ?_, ?_, ?_⟩
    · simp [DD.add, twoSum, F64.add, F.isFinite]
    · simp [DD.sub, DD.add, DD.DD.neg, twoSum, F64.add, F.isFinite]
    · simp [DD.mul, twoProd, F64.mul, F.isFinite]
    · simp [DD.div, DD.DD.isnan, F.isNaN]
  · subst h
    refine ⟨?_, ?_, ?_, ?_⟩
    · cases ah <;> simp [DD.add, twoSum, F64.add, F.isFinite]
    · cases ah <;> simp [DD.sub, DD.add, DD.DD.neg, F.neg, twoSum, F64.add, F.isFinite]
    · cases ah <;> simp [DD.mul, twoProd, F64.mul, F.isFinite]
    · cases ah <;> simp [DD.div, DD.DD.isnan, F.isNaN]

/-- an infinite operand and a finite one: `±inf` comes out of `+` and `−` as for doubles;
    `inf ± inf` is `inf` or NaN as for doubles. -/
theorem C10_special_propagate_inf_add (f : Fmt) (a b : DD.DD) (s : Bool) :
    (a.hi = .inf s → b.hi.isFinite = true → (DD.add f a b).hi = .inf s ∧ (DD.sub f a b).hi = .inf s) ∧
    (b.hi = .inf s → a.hi.isFinite = true → (DD.add f a b).hi = .inf s ∧ (DD.sub f a b).hi = .inf (!s)) ∧
    (∀ t, a.hi = .inf s → b.hi = .inf t →
      (DD.add f a b).hi = (if s = t then .inf s else .nan) ∧ (DD.sub f a b).hi = (if s = !t then .inf s else .nan)) := by
  obtain ⟨ah, al⟩ := a
  obtain ⟨bh, bl⟩ := b
  refine ⟨?_, ?_, ?_⟩
  · intro h1 h2
    simp only at h1 h2
    subst h1
    cases bh <;> simp_all [DD.add, DD.sub, DD.DD.neg, F.neg, twoSum, F64.add, F.isFinite]
  · intro h1 h2
    simp only at h1 h2
    subst h1
    cases ah <;> simp_all [DD.add, DD.sub, DD.DD.neg, F.neg, twoSum, F64.add, F.isFinite]
  · intro t h1 h2
    simp only at h1 h2
    subst h1; subst h2
    constructor
    · by_cases hst : s = t <;> simp [DD.add, twoSum, F64.add, F.isFinite, hst]
    · by_cases hst : s = !t <;> simp [DD.sub, DD.add, DD.DD.neg, F.neg, twoSum, F64.add, F.isFinite, hst]

/-- infinity times / divided by a non-zero finite value is a signed infinity, infinity times zero is NaN,
    infinity over infinity is NaN — as for doubles. -/
theorem C10_special_propagate_inf_mul (f : Fmt) (a b : DD.DD) (s t : Bool) (m : Nat) :
    (a.hi = .inf s → b.hi = .fin t m → m ≠ 0 → (DD.mul f a b).hi = .inf (s != t) ∧ (DD.div f a b).hi = .inf (s != t)) ∧
    (a.hi = .inf s → b.hi = .fin t 0 → (DD.mul f a b).hi = .nan) ∧
    (a.hi = .inf s → b.hi = .inf t → (DD.mul f a b).hi = .inf (s != t) ∧ (DD.div f a b).hi = .nan) := by
  obtain ⟨ah, al⟩ := a
  obtain ⟨bh, bl⟩ := b
  refine ⟨?_, ?_, ?_⟩
  · intro h1 h2 hm
    simp only at h1 h2
    subst h1; subst h2
    constructor
    · simp [DD.mul, twoProd, F64.mul, F.isFinite, hm]
    · have hz : feq (F.fin t m) pzero = false := by
        cases t <;> simp [feq, pzero, F.toInt] <;> omega
      simp [DD.div, DD.DD.isnan, DD.DD.iszero, F.isNaN, hz, F64.div, F.isFinite]
  · intro h1 h2
    simp only at h1 h2
    subst h1; subst h2
    simp [DD.mul, twoProd, F64.mul, F.isFinite]
  · intro h1 h2
    simp only at h1 h2
    subst h1; subst h2
    constructor
    · simp [DD.mul, twoProd, F64.mul, F.isFinite]
    · simp [DD.div, DD.DD.isnan, DD.DD.iszero, F.isNaN, feq, pzero, F64.div, F.isFinite]

/-! ### witnesses by evaluation: the repaired special values, and where the code is not normalised (D21) -/

namespace C10W
/-- D21 witness operands (transcript `dd add 3d7f59a6c5a55a6c ba0e336faa370217 bd7f59a6c5a55a6d ba18c48fffffffff`). -/
def a : DD.DD := ⟨ofBits64 0x3d7f59a6c5a55a6c, ofBits64 0xba0e336faa370217⟩
def b : DD.DD := ⟨ofBits64 0xbd7f59a6c5a55a6d, ofBits64 0xba18c48fffffffff⟩
def two : DD.DD := ⟨ofBits64 0x4000000000000000, pzero⟩
def pinf : DD.DD := ⟨.inf false, pzero⟩
end C10W

/-- strict normalisation of a finite dd value of the model: `2·|lo| ≤ ulp(hi)` in integer units. -/
def ddStrictNorm (p : Nat) (x : DD.DD) : Bool := 2 * x.lo.mag ≤ ulpNat p x.hi.mag
/-- weak normalisation: `|lo| ≤ ulp(hi)`. -/
def ddWeakNorm (p : Nat) (x : DD.DD) : Bool := x.lo.mag ≤ ulpNat p x.hi.mag

set_option exponentiation.threshold 5000 in
set_option maxRecDepth 100000 in
/-- D21: the sum of two normalised dd operands is NOT always normalised (no final quick_two_sum):
    at the witness the model (which reproduces the compiled operator bit for bit) returns
    `hi = 0xba39f791f546e042, lo = 0xb6e4000000000000` with `ulp(hi)/2 < |lo| ≤ ulp(hi)`. -/
theorem C10_dd_add_strict_normalisation_counterexample :
    ddStrictNorm 53 C10W.a = true ∧ ddStrictNorm 53 C10W.b = true ∧
    ¬ (ddStrictNorm 53 (DD.add binary64 C10W.a C10W.b) = true) ∧
    ddWeakNorm 53 (DD.add binary64 C10W.a C10W.b) = true ∧
    toBits64 (DD.add binary64 C10W.a C10W.b).hi = 0xba39f791f546e042 ∧
    toBits64 (DD.add binary64 C10W.a C10W.b).lo = 0xb6e4000000000000 := by decide

/-- **division behaves like double division on every special-value case**: whenever an operand's head is NaN or ±inf, or the
    divisor's head is ±0, the head of the dd quotient is exactly what `a.hi / b.hi` gives in double arithmetic — NaN for
    NaN operands, 0/0 and inf/inf; the signed infinity for `inf / finite`, `inf / ±0` and `x / ±0`; the signed zero for
    `finite / ±inf` — and the tail is `+0` in the zero / infinity cases.  (Before the repairs `finite / inf` was NaN and `x / 0`
    was `+inf` whatever the signs.) -/
theorem C10_special_div_like_doubles (f : Fmt) (a b : DD.DD)
    (h : a.hi.isFinite = false ∨ b.hi.isFinite = false ∨ b.hi.isZero = true) :
    (DD.div f a b).hi = F64.div f a.hi b.hi := by
  obtain ⟨ah, al⟩ := a
  obtain ⟨bh, bl⟩ := b
  simp only at h
  cases ah with
  | nan => simp [DD.div, DD.DD.isnan, F.isNaN, F64.div]
  | inf s =>
    cases bh with
    | nan => simp [DD.div, DD.DD.isnan, F.isNaN, F64.div]
    | inf t => simp [DD.div, DD.DD.isnan, DD.DD.iszero, F.isNaN, feq, pzero, F64.div, F.isFinite]
    | fin t m =>
      by_cases hm : m = 0
      · subst hm
        simp [DD.div, DD.DD.isnan, DD.DD.iszero, F.isNaN, feq, pzero, F64.div, F.isFinite, F.toInt, F.sign]
      · have hz : feq (F.fin t m) pzero = false := by
          cases t <;> simp [feq, pzero, F.toInt] <;> omega
        simp [DD.div, DD.DD.isnan, DD.DD.iszero, F.isNaN, hz, F64.div, F.isFinite]
  | fin s n =>
    cases bh with
    | nan => simp [DD.div, DD.DD.isnan, F.isNaN, F64.div]
    | inf t => simp [DD.div, DD.DD.isnan, DD.DD.iszero, F.isNaN, feq, pzero, F64.div, F.isFinite]
    | fin t m =>
      have hm : m = 0 := by
        rcases h with h | h | h
        · simp [F.isFinite] at h
        · simp [F.isFinite] at h
        · cases m with
          | zero => rfl
          | succ k => simp [F.isZero] at h
      subst hm
      have hzb : feq (F.fin t 0) pzero = true := by cases t <;> simp [feq, pzero, F.toInt]
      by_cases hn : n = 0
      · subst hn
        have hza : feq (F.fin s 0) pzero = true := by cases s <;> simp [feq, pzero, F.toInt]
        simp [DD.div, DD.DD.isnan, DD.DD.iszero, F.isNaN, hza, hzb, F64.div, DD.qnan]
      · have hza : feq (F.fin s n) pzero = false := by
          cases s <;> simp [feq, pzero, F.toInt] <;> omega
        simp [DD.div, DD.DD.isnan, DD.DD.iszero, F.isNaN, hza, hzb, F64.div, hn, F.sign]

/-- the three cases that the repairs changed, spelled out: `finite / ±inf` is the zero signed like the quotient with a `+0`
    tail; `±inf / ±0` is the infinity signed like the quotient; `sqrt(+inf) = +inf`. -/
theorem C10_special_div_sqrt_inf (f : Fmt) (s t : Bool) (n : Nat) (al bl : F) :
    DD.div f ⟨.fin s n, al⟩ ⟨.inf t, bl⟩ = ⟨.fin (s != t) 0, pzero⟩ ∧
    DD.div f ⟨.inf s, al⟩ ⟨.fin t 0, bl⟩ = ⟨.inf (s != t), pzero⟩ ∧
    DD.sqrt f ⟨.inf false, al⟩ = ⟨.inf false, al⟩ := by
  refine ⟨?_, ?_, ?_⟩
  · simp [DD.div, DD.DD.isnan, DD.DD.iszero, F.isNaN, feq, pzero, F64.div, F.isFinite]
  · have hzb : feq (F.fin t 0) pzero = true := by cases t <;> simp [feq, pzero, F.toInt]
    have hza : feq (F.inf s) pzero = false := by simp [feq, pzero]
    simp [DD.div, DD.DD.isnan, DD.DD.iszero, F.isNaN, hza, hzb, F.sign]
  · simp [DD.sqrt, DD.DD.iszero, feq, pzero]

set_option exponentiation.threshold 5000 in
set_option maxRecDepth 100000 in
/-- the witnesses of the former findings `dd.div.inf_divisor`, `dd.sqrt.inf`, `dd.div.zero_divisor_sign`, now positive:
    `2 / +inf = +0`, `sqrt(+inf) = +inf`, `−inf / +0 = −inf` — each equal to what double arithmetic gives. -/
theorem C10_special_like_doubles_witnesses :
    (DD.div binary64 C10W.two C10W.pinf).hi = pzero ∧
    F64.div binary64 C10W.two.hi C10W.pinf.hi = pzero ∧
    (DD.sqrt binary64 C10W.pinf).hi = .inf false ∧
    F64.sqrt binary64 C10W.pinf.hi = .inf false ∧
    (DD.div binary64 ⟨.inf true, pzero⟩ ⟨pzero, pzero⟩).hi = .inf true ∧
    F64.div binary64 (.inf true) pzero = .inf true := by decide

set_option exponentiation.threshold 5000 in
set_option maxRecDepth 100000 in
/-- `DBL_MAX × 0.5` (a power of two, exact and in range) comes back as NaN: the 26-bit head produced by
    `split` overflows (class `dd.mul.near_overflow`). -/
theorem C10_mul_pow2_near_overflow_counterexample :
    (DD.mul binary64 ⟨ofBits64 0x7fefffffffffffff, pzero⟩ ⟨ofBits64 0x3fe0000000000000, pzero⟩).hi = .nan ∧
    F64.mul binary64 (ofBits64 0x7fefffffffffffff) (ofBits64 0x3fe0000000000000) = ofBits64 0x7fdfffffffffffff := by decide

set_option exponentiation.threshold 5000 in
set_option maxRecDepth 100000 in
/-- non-vacuity of `C10_dd_of_two_doubles_exact`: 1 + 2^-60 as a dd is (1, 2^-60). -/
example :
    (DD.add binary64 (DD.ofF (ofBits64 0x3ff0000000000000)) (DD.ofF (ofBits64 0x3c30000000000000))).hi = ofBits64 0x3ff0000000000000 ∧
    (DD.add binary64 (DD.ofF (ofBits64 0x3ff0000000000000)) (DD.ofF (ofBits64 0x3c30000000000000))).lo = ofBits64 0x3c30000000000000 := by
  decide

set_option exponentiation.threshold 5000 in
set_option maxRecDepth 100000 in
/-- non-vacuity: the D21 witness operands satisfy every hypothesis of `C10_dd_weakly_normalised` /
    `C10_dd_add_error_bound` (binary64), and there the weak bound is attained strictly above `ulp/2`. -/
example :
    2 * C10W.a.lo.mag ≤ ulpNat 53 C10W.a.hi.mag ∧ 2 * C10W.b.lo.mag ≤ ulpNat 53 C10W.b.hi.mag ∧
    16 * (C10W.a.hi.mag + C10W.a.lo.mag + C10W.b.hi.mag + C10W.b.lo.mag) ≤ maxMag binary64 ∧
    ulpNat 53 (DD.add binary64 C10W.a C10W.b).hi.mag < 2 * (DD.add binary64 C10W.a C10W.b).lo.mag := by decide

