/-
  C10 — dd / qd results are normalised and within their documented error bounds.

  What is PROVED here (every format with `p ≥ 2`, every operand, on the model of UVerif.Model.DD — the
  statement sequence of dd_impl.hpp over Model.F64):
    * the exactness clauses: the dd sum of two doubles is exact with a correctly rounded head, `x − x = 0`;
    * special values: NaN and infinity propagation of `+ − × ÷` like doubles — and the two places where the
      pinned code does NOT behave like doubles (finite/inf, sqrt(+inf), x/0 sign), as counterexample theorems;
    * the property's normalisation clause `|lo| ≤ ½ulp(hi)` is FALSE of the pinned code (D21): counterexample
      theorems by evaluation of the model at the witnesses replayed in every run.
  What is NOT proved: the numeric error constants k·2^-106 / k·2^-212 (measured exactly on rationals for every
  transcript line; see the tag histogram), `C10_mul_pow2_exact_full` and `C10_dd_weakly_normalised_full` (kept below
  as `def … : Prop`).
  Property theorems only; proofs in UVerifProofs/Lemmas/{F64Round,F64Eft,F64Lift,DDLemmas}.lean.
-/
import UVerifProofs.Lemmas.DDLemmas
import UVerifProofs.Lemmas.F64ProdLift
import UVerif.Spec.F64
open UVerif UVerif.F64

/-! ### exactness clauses -/

/-- the dd sum of two doubles equals the exact sum, and its head is the correctly rounded sum
    (guard: `2(|a| + |b|) ≤ maxMag`, i.e. no overflow with one binade to spare). -/
theorem C10_dd_of_two_doubles_exact (f : Fmt) (ok : f.Ok) (a b : F) (ha : a.Rep f) (hb : b.Rep f)
    (hg : 2 * (a.mag + b.mag) ≤ maxMag f) :
    (DD.add f (DD.ofF a) (DD.ofF b)).hi.Rep f ∧ (DD.add f (DD.ofF a) (DD.ofF b)).lo.Rep f ∧
    (DD.add f (DD.ofF a) (DD.ofF b)).hi.toInt + (DD.add f (DD.ofF a) (DD.ofF b)).lo.toInt = a.toInt + b.toInt ∧
    (DD.add f (DD.ofF a) (DD.ofF b)).hi.toInt = rnInt f.p (a.toInt + b.toInt) :=
  DDLemmas.add_of_doubles f ok ha hb hg

/-- the dd PRODUCT of two doubles (`dd(a) * dd(b)` through `dd::operator*=`: two_prod of the heads, two_prods with the
    zero tails, two three_sums) equals the exact product and its head is the correctly rounded product — for NORMAL
    doubles, no underflow (`q ≤ ea + eb`), both at most SPLIT_THRESHOLD, three binades of headroom
    (the guards of `C13_two_prod_partial`; stated in integer units, times `2^q`). -/
theorem C10_dd_product_of_two_doubles_exact (f : Fmt) (ok : f.Ok) (h4 : 4 ≤ f.p) (a b : F) (ha : a.Rep f) (hb : b.Rep f)
    (ea eb : Nat)
    (ha5 : 2 ^ (f.p - 1 + ea) ≤ a.mag) (ha6 : a.mag < 2 ^ (f.p + ea))
    (hb5 : 2 ^ (f.p - 1 + eb) ≤ b.mag) (hb6 : b.mag < 2 ^ (f.p + eb))
    (hq : f.q ≤ ea + eb)
    (htha : a.mag ≤ maxMag f >>> (splitBits f + 1)) (hthb : b.mag ≤ maxMag f >>> (splitBits f + 1))
    (hrange : 8 * 2 ^ (f.p + ea + (f.p + eb)) ≤ maxMag f * 2 ^ f.q) :
    ((DD.mul f (DD.ofF a) (DD.ofF b)).hi.toInt + (DD.mul f (DD.ofF a) (DD.ofF b)).lo.toInt) * ((2 ^ f.q : Nat) : Int)
      = a.toInt * b.toInt ∧
    (DD.mul f (DD.ofF a) (DD.ofF b)).hi.toInt * ((2 ^ f.q : Nat) : Int) = rnInt f.p (a.toInt * b.toInt) :=
  DDLemmas.mul_of_doubles f ok h4 ha hb ha5 ha6 hb5 hb6 hq htha hthb hrange

/-- the free function `add(double, double)` (a single two_sum): exact for `|a| + |b| ≤ maxMag`. -/
theorem C10_add_d2_exact (f : Fmt) (ok : f.Ok) (a b : F) (ha : a.Rep f) (hb : b.Rep f)
    (hg : a.mag + b.mag ≤ maxMag f) :
    (DD.addDD f a b).hi.toInt + (DD.addDD f a b).lo.toInt = a.toInt + b.toInt ∧
    (DD.addDD f a b).hi.toInt = rnInt f.p (a.toInt + b.toInt) := by
  have h := twoSum_spec f ok ha hb hg
  have hna : a.isNaN = false := by
    have := ha.1; cases a <;> simp_all [F.isFinite, F.isNaN]
  have hnb : b.isNaN = false := by
    have := hb.1; cases b <;> simp_all [F.isFinite, F.isNaN]
  unfold DD.addDD
  simp only [hna, hnb, Bool.or_self, Bool.false_eq_true, if_false]
  exact ⟨h.2.2.1, h.2.2.2⟩

/-- the free function `mul(double, double)` (a single two_prod): the dd product of two NORMAL doubles is exact and
    its head is the correctly rounded product — no underflow (`q ≤ ea + eb`), both factors at most SPLIT_THRESHOLD,
    three binades of headroom below overflow (see `C13_two_prod_partial`). -/
theorem C10_mul_d2_exact (f : Fmt) (ok : f.Ok) (h4 : 4 ≤ f.p) (a b : F) (ha : a.Rep f) (hb : b.Rep f) (ea eb : Nat)
    (ha5 : 2 ^ (f.p - 1 + ea) ≤ a.mag) (ha6 : a.mag < 2 ^ (f.p + ea))
    (hb5 : 2 ^ (f.p - 1 + eb) ≤ b.mag) (hb6 : b.mag < 2 ^ (f.p + eb))
    (hq : f.q ≤ ea + eb)
    (htha : a.mag ≤ maxMag f >>> (splitBits f + 1)) (hthb : b.mag ≤ maxMag f >>> (splitBits f + 1))
    (hrange : 8 * 2 ^ (f.p + ea + (f.p + eb)) ≤ maxMag f * 2 ^ f.q) :
    ((DD.mulDD f a b).hi.toInt + (DD.mulDD f a b).lo.toInt) * ((2 ^ f.q : Nat) : Int) = a.toInt * b.toInt ∧
    (DD.mulDD f a b).hi.toInt * ((2 ^ f.q : Nat) : Int) = rnInt f.p (a.toInt * b.toInt) := by
  have h := twoProd_spec f ok h4 ha hb ha5 ha6 hb5 hb6 hq htha hthb hrange
  have hna : a.isNaN = false := by
    have := ha.1; cases a <;> simp_all [F.isFinite, F.isNaN]
  have hnb : b.isNaN = false := by
    have := hb.1; cases b <;> simp_all [F.isFinite, F.isNaN]
  unfold DD.mulDD
  simp only [hna, hnb, Bool.or_self, Bool.false_eq_true, if_false]
  exact ⟨h.2.2.1, h.2.2.2⟩

/-- `x − x` is zero for every finite dd operand (normalised or not). -/
theorem C10_sub_self (f : Fmt) (ok : f.Ok) (x : DD.DD) (hh : x.hi.Rep f) (hl : x.lo.Rep f)
    (hmh : x.hi.mag ≤ maxMag f) (hml : x.lo.mag ≤ maxMag f) :
    (DD.sub f x x).hi.toInt = 0 ∧ (DD.sub f x x).lo.toInt = 0 ∧
    (DD.sub f x x).hi.isFinite = true ∧ (DD.sub f x x).lo.isFinite = true :=
  DDLemmas.sub_self f ok hh hl hmh hml

/-- multiplication of a dd value by `(±2^k, 0)` is exact — PARTIAL: head and tail of `x` NORMAL doubles (a zero tail
    is `C10_dd_product_of_two_doubles_exact`), no underflow of the tail product (`q ≤ el + ec`), all three doubles at
    most SPLIT_THRESHOLD, three binades of headroom below overflow.  Stated in integer units, times `2^q`. -/
theorem C10_mul_pow2_exact_partial (f : Fmt) (ok : f.Ok) (h4 : 4 ≤ f.p) (x : DD.DD) (c : F)
    (hh : x.hi.Rep f) (hl : x.lo.Rep f) (hc : c.Rep f) (eh el ec : Nat)
    (hh5 : 2 ^ (f.p - 1 + eh) ≤ x.hi.mag) (hh6 : x.hi.mag < 2 ^ (f.p + eh))
    (hl5 : 2 ^ (f.p - 1 + el) ≤ x.lo.mag) (hl6 : x.lo.mag < 2 ^ (f.p + el)) (hle : el ≤ eh)
    (hcm : c.mag = 2 ^ (f.p - 1 + ec)) (hq : f.q ≤ el + ec)
    (hthh : x.hi.mag ≤ maxMag f >>> (splitBits f + 1)) (hthl : x.lo.mag ≤ maxMag f >>> (splitBits f + 1))
    (hthc : c.mag ≤ maxMag f >>> (splitBits f + 1))
    (hrange : 8 * 2 ^ (f.p + eh + (f.p + ec)) ≤ maxMag f * 2 ^ f.q) :
    ((DD.mul f x (DD.ofF c)).hi.toInt + (DD.mul f x (DD.ofF c)).lo.toInt) * ((2 ^ f.q : Nat) : Int)
      = (x.hi.toInt + x.lo.toInt) * c.toInt :=
  DDLemmas.mul_pow2 f ok h4 hh hl hc hh5 hh6 hl5 hl6 hle hcm hq hthh hthl hthc hrange

set_option exponentiation.threshold 5000 in
set_option maxRecDepth 100000 in
/-- non-vacuity of `C10_mul_pow2_exact_partial`: x = (1 + 2^-52, 2^-54·1.5), c = 2^10 in binary64. -/
example :
    let x : DD.DD := ⟨ofBits64 0x3ff0000000000001, ofBits64 0x3c98000000000000⟩
    let c := ofBits64 0x4090000000000000
    2 ^ (53 - 1 + 1022) ≤ x.hi.mag ∧ x.hi.mag < 2 ^ (53 + 1022) ∧ 2 ^ (53 - 1 + 968) ≤ x.lo.mag ∧ x.lo.mag < 2 ^ (53 + 968) ∧
    c.mag = 2 ^ (53 - 1 + 1032) ∧ binary64.q ≤ 968 + 1032 ∧
    8 * 2 ^ (53 + 1022 + (53 + 1032)) ≤ maxMag binary64 * 2 ^ binary64.q ∧
    (DD.mul binary64 x (DD.ofF c)).lo = ofBits64 0x3d38000000000000 := by
  decide

/-- multiplication by a power of two is exact — full statement, NOT proved (the head product is covered by
    `C13_two_prod_partial`; the tail `x.lo` may be subnormal, where the bit-width half of Veltkamp's theorem is not
    proved; checked on every `dd mul … 2^k` transcript line instead, and FALSE near overflow:
    `C10_mul_pow2_near_overflow_counterexample`). -/
def C10_mul_pow2_exact_full : Prop :=
  ∀ (f : Fmt), f.Ok → ∀ (x : DD.DD) (k : Nat) (s : Bool), x.hi.Rep f → x.lo.Rep f →
    8 * x.hi.mag * 2 ^ k ≤ maxMag f →
    (DD.mul f x (DD.ofF (.fin s (2 ^ (k + f.q))))).hi.toInt + (DD.mul f x (DD.ofF (.fin s (2 ^ (k + f.q))))).lo.toInt
      = (x.hi.toInt + x.lo.toInt) * (if s then -(2 ^ k : Int) else (2 ^ k : Int))

/-- what the closing three_sum does guarantee — full statement, NOT proved (measured: the transcript classes
    `dd.<op>.weakly_normalised` accept exactly `ulp(hi)/2 < |lo| ≤ ulp(hi)`; anything worse is a violation). -/
def C10_dd_weakly_normalised_full : Prop :=
  ∀ (f : Fmt), f.Ok → ∀ (a b : DD.DD), a.hi.Rep f → a.lo.Rep f → b.hi.Rep f → b.lo.Rep f →
    2 * a.lo.mag ≤ ulpNat f.p a.hi.mag → 2 * b.lo.mag ≤ ulpNat f.p b.hi.mag →
    4 * (a.hi.mag + b.hi.mag) ≤ maxMag f →
    (DD.add f a b).lo.mag ≤ ulpNat f.p (DD.add f a b).hi.mag

/-! ### special values -/

/-- NaN operands give NaN results, for all four operators. -/
theorem C10_special_propagate_nan (f : Fmt) (a b : DD.DD) (h : a.hi = .nan ∨ b.hi = .nan) :
    (DD.add f a b).hi = .nan ∧ (DD.sub f a b).hi = .nan ∧ (DD.mul f a b).hi = .nan ∧ (DD.div f a b).hi = .nan := by
  obtain ⟨ah, al⟩ := a
  obtain ⟨bh, bl⟩ := b
  simp only at h
  rcases h with h | h
  · subst h
    refine ⟨?_, ?_, ?_, ?_⟩
    · simp [DD.add, twoSum, F64.add, F.isFinite]
    · simp [DD.sub, DD.add, DD.DD.neg, twoSum, F64.add, F.isFinite]
    · simp [DD.mul, twoProd, F64.mul, F.isFinite]
    · simp [DD.div, DD.DD.isnan, F.isNaN]
  · subst h
    refine ⟨?_, ?_, ?_, ?_⟩
    · cases ah <;> simp [DD.add, twoSum, F64.add, F.isFinite]
    · cases ah <;> simp [DD.sub, DD.add, DD.DD.neg, F.neg, twoSum, F64.add, F.isFinite]
    · cases ah <;> simp [DD.mul, twoProd, F64.mul, F.isFinite]
    · cases ah <;> simp [DD.div, DD.DD.isnan, F.isNaN]

/-- an infinite operand and a finite one: `±inf` comes out of `+` and `−` as for doubles;
    `inf ± inf` is `inf` or NaN as for doubles. -/
theorem C10_special_propagate_inf_add (f : Fmt) (a b : DD.DD) (s : Bool) :
    (a.hi = .inf s → b.hi.isFinite = true → (DD.add f a b).hi = .inf s ∧ (DD.sub f a b).hi = .inf s) ∧
    (b.hi = .inf s → a.hi.isFinite = true → (DD.add f a b).hi = .inf s ∧ (DD.sub f a b).hi = .inf (!s)) ∧
    (∀ t, a.hi = .inf s → b.hi = .inf t →
      (DD.add f a b).hi = (if s = t then .inf s else .nan) ∧ (DD.sub f a b).hi = (if s = !t then .inf s else .nan)) := by
  obtain ⟨ah, al⟩ := a
  obtain ⟨bh, bl⟩ := b
  refine ⟨?_, ?_, ?_⟩
  · intro h1 h2
    simp only at h1 h2
    subst h1
    cases bh <;> simp_all [DD.add, DD.sub, DD.DD.neg, F.neg, twoSum, F64.add, F.isFinite]
  · intro h1 h2
    simp only at h1 h2
    subst h1
    cases ah <;> simp_all [DD.add, DD.sub, DD.DD.neg, F.neg, twoSum, F64.add, F.isFinite]
  · intro t h1 h2
    simp only at h1 h2
    subst h1; subst h2
    constructor
    · by_cases hst : s = t <;> simp [DD.add, twoSum, F64.add, F.isFinite, hst]
    · by_cases hst : s = !t <;> simp [DD.sub, DD.add, DD.DD.neg, F.neg, twoSum, F64.add, F.isFinite, hst]

/-- infinity times / divided by a non-zero finite value is a signed infinity, infinity times zero is NaN,
    infinity over infinity is NaN — as for doubles. -/
theorem C10_special_propagate_inf_mul (f : Fmt) (a b : DD.DD) (s t : Bool) (m : Nat) :
    (a.hi = .inf s → b.hi = .fin t m → m ≠ 0 → (DD.mul f a b).hi = .inf (s != t) ∧ (DD.div f a b).hi = .inf (s != t)) ∧
    (a.hi = .inf s → b.hi = .fin t 0 → (DD.mul f a b).hi = .nan) ∧
    (a.hi = .inf s → b.hi = .inf t → (DD.mul f a b).hi = .inf (s != t) ∧ (DD.div f a b).hi = .nan) := by
  obtain ⟨ah, al⟩ := a
  obtain ⟨bh, bl⟩ := b
  refine ⟨?_, ?_, ?_⟩
  · intro h1 h2 hm
    simp only at h1 h2
    subst h1; subst h2
    constructor
    · simp [DD.mul, twoProd, F64.mul, F.isFinite, hm]
    · have hz : feq (F.fin t m) pzero = false := by
        cases t <;> simp [feq, pzero, F.toInt] <;> omega
      simp [DD.div, DD.DD.isnan, DD.DD.iszero, F.isNaN, hz, F64.div, F.isFinite]
  · intro h1 h2
    simp only at h1 h2
    subst h1; subst h2
    simp [DD.mul, twoProd, F64.mul, F.isFinite]
  · intro h1 h2
    simp only at h1 h2
    subst h1; subst h2
    constructor
    · simp [DD.mul, twoProd, F64.mul, F.isFinite]
    · simp [DD.div, DD.DD.isnan, DD.DD.iszero, F.isNaN, feq, pzero, F64.div, F.isFinite]

/-! ### where the pinned code is NOT like doubles / not normalised: counterexamples by evaluation -/

namespace C10W
/-- D21 witness operands (transcript `dd add 3d7f59a6c5a55a6c ba0e336faa370217 bd7f59a6c5a55a6d ba18c48fffffffff`). -/
def a : DD.DD := ⟨ofBits64 0x3d7f59a6c5a55a6c, ofBits64 0xba0e336faa370217⟩
def b : DD.DD := ⟨ofBits64 0xbd7f59a6c5a55a6d, ofBits64 0xba18c48fffffffff⟩
def two : DD.DD := ⟨ofBits64 0x4000000000000000, pzero⟩
def pinf : DD.DD := ⟨.inf false, pzero⟩
end C10W

/-- strict normalisation of a finite dd value of the model: `2·|lo| ≤ ulp(hi)` in integer units. -/
def ddStrictNorm (p : Nat) (x : DD.DD) : Bool := 2 * x.lo.mag ≤ ulpNat p x.hi.mag
/-- weak normalisation: `|lo| ≤ ulp(hi)`. -/
def ddWeakNorm (p : Nat) (x : DD.DD) : Bool := x.lo.mag ≤ ulpNat p x.hi.mag

set_option exponentiation.threshold 5000 in
set_option maxRecDepth 100000 in
/-- D21: the sum of two normalised dd operands is NOT always normalised (no final quick_two_sum):
    at the witness the model (which reproduces the compiled operator bit for bit) returns
    `hi = 0xba39f791f546e042, lo = 0xb6e4000000000000` with `ulp(hi)/2 < |lo| ≤ ulp(hi)`. -/
theorem C10_dd_add_strict_normalisation_counterexample :
    ddStrictNorm 53 C10W.a = true ∧ ddStrictNorm 53 C10W.b = true ∧
    ¬ (ddStrictNorm 53 (DD.add binary64 C10W.a C10W.b) = true) ∧
    ddWeakNorm 53 (DD.add binary64 C10W.a C10W.b) = true ∧
    toBits64 (DD.add binary64 C10W.a C10W.b).hi = 0xba39f791f546e042 ∧
    toBits64 (DD.add binary64 C10W.a C10W.b).lo = 0xb6e4000000000000 := by decide

set_option exponentiation.threshold 5000 in
set_option maxRecDepth 100000 in
/-- finite / infinity is NaN in the pinned dd division (doubles: a signed zero); `sqrt(+inf)` is NaN
    (doubles: +inf); `−inf / +0` is `+inf` (doubles: −inf). -/
theorem C10_special_not_like_doubles_counterexample :
    (DD.div binary64 C10W.two C10W.pinf).hi = .nan ∧
    F64.div binary64 C10W.two.hi C10W.pinf.hi = pzero ∧
    (DD.sqrt binary64 C10W.pinf).hi = .nan ∧
    F64.sqrt binary64 C10W.pinf.hi = .inf false ∧
    (DD.div binary64 ⟨.inf true, pzero⟩ ⟨pzero, pzero⟩).hi = .inf false ∧
    F64.div binary64 (.inf true) pzero = .inf true := by decide

set_option exponentiation.threshold 5000 in
set_option maxRecDepth 100000 in
/-- `DBL_MAX × 0.5` (a power of two, exact and in range) comes back as NaN: the 26-bit head produced by
    `split` overflows (class `dd.mul.near_overflow`). -/
theorem C10_mul_pow2_near_overflow_counterexample :
    (DD.mul binary64 ⟨ofBits64 0x7fefffffffffffff, pzero⟩ ⟨ofBits64 0x3fe0000000000000, pzero⟩).hi = .nan ∧
    F64.mul binary64 (ofBits64 0x7fefffffffffffff) (ofBits64 0x3fe0000000000000) = ofBits64 0x7fdfffffffffffff := by decide

set_option exponentiation.threshold 5000 in
set_option maxRecDepth 100000 in
/-- non-vacuity of `C10_dd_of_two_doubles_exact`: 1 + 2^-60 as a dd is (1, 2^-60). -/
example :
    (DD.add binary64 (DD.ofF (ofBits64 0x3ff0000000000000)) (DD.ofF (ofBits64 0x3c30000000000000))).hi = ofBits64 0x3ff0000000000000 ∧
    (DD.add binary64 (DD.ofF (ofBits64 0x3ff0000000000000)) (DD.ofF (ofBits64 0x3c30000000000000))).lo = ofBits64 0x3c30000000000000 := by
  decide
