/-
  Property C11 — every alternative implementation of a posit configuration agrees bit-for-bit with the generic one.
  Reference: the generic model (UVerif.Model.Posit / PositConv), tied to the generic build by the `fast generic …` transcripts.
  The `decide` theorems range over the lookup tables that gen/extract_tables.py regenerates from the CURRENT headers
  (lean/UVerif/Generated/FastTables.lean): if a table changes, this module no longer builds (the driver library still does).

  Word-level routines: `posit8_mulp8` (fast posit<8,0>::operator*= and the pure-C multiplication) is proved equal to the
  generic `Posit.mul 8 0` on every pair of encodings (`C11_fast8_0_mul_eq_generic`, Lemmas/FastMul8.lean: sign reduction of
  both sides by argument — the generic side for every nbits, es — and the 127 × 127 magnitude products by kernel evaluation).
  NOT proved in Lean: the other 65 536-pair statements "fast posit<8,0|8,2> + − ÷ = generic" and × of <8,2> (≈3–5 min of
  kernel time per operator; no compiled evaluation is used) — they are established by the exhaustive transcripts of every
  run; and the general statements for the 16/32-bit word algorithms (posit<16,2>/<32,2>::integer_assign, posit<32,2>::
  operator*=), which after the repairs of the fast classes are stated as open `def … : Prop`, anchored by finite `_cfg_`
  samples that sit on the repaired branches, and otherwise only covered by the structured transcripts.
-/
import UVerif.Model.Posit
import UVerif.Model.PositConvFP
import UVerif.Model.FastPosit
import UVerif.Model.PositC
import UVerif.Driver.Fast
import UVerifProofs.Lemmas.Fast
import UVerifProofs.Lemmas.FastConv
import UVerifProofs.Lemmas.FastRepair
import UVerifProofs.Lemmas.FastMul8

open UVerif UVerif.Posit UVerif.Fast UVerif.Generated UVerif.Driver

/-! ### table-driven specialisations: every table entry equals the generic model -/

theorem C11_tables_agree_2_0 :
    (∀ i < 16, tab posit_2_0_addition_lookup i = Posit.add 2 0 (i / 4) (i % 4)) ∧
    (∀ i < 16, tab posit_2_0_subtraction_lookup i = Posit.sub 2 0 (i / 4) (i % 4)) ∧
    (∀ i < 16, tab posit_2_0_multiplication_lookup i = Posit.mul 2 0 (i / 4) (i % 4)) ∧
    (∀ i < 16, tab posit_2_0_division_lookup i = Posit.div 2 0 (i / 4) (i % 4)) ∧
    (∀ i < 4, tab posit_2_0_reciprocal_lookup i = Posit.reciprocal 2 0 i) ∧
    (∀ i < 16, (tab posit_2_0_less_than_lookup i ≠ 0) = (Posit.lt 2 (i / 4) (i % 4) = true)) := by decide +kernel

theorem C11_tables_agree_3_0 :
    (∀ i < 64, tab posit_3_0_addition_lookup i = Posit.add 3 0 (i / 8) (i % 8)) ∧
    (∀ i < 64, tab posit_3_0_subtraction_lookup i = Posit.sub 3 0 (i / 8) (i % 8)) ∧
    (∀ i < 64, tab posit_3_0_multiplication_lookup i = Posit.mul 3 0 (i / 8) (i % 8)) ∧
    (∀ i < 64, tab posit_3_0_division_lookup i = Posit.div 3 0 (i / 8) (i % 8)) ∧
    (∀ i < 8, tab posit_3_0_reciprocal_lookup i = Posit.reciprocal 3 0 i) ∧
    (∀ i < 64, (tab posit_3_0_less_than_lookup i ≠ 0) = (Posit.lt 3 (i / 8) (i % 8) = true)) := by decide +kernel

theorem C11_tables_agree_4_0_add : ∀ i < 256, tab posit_4_0_addition_lookup i = Posit.add 4 0 (i / 16) (i % 16) := by decide +kernel
theorem C11_tables_agree_4_0_sub : ∀ i < 256, tab posit_4_0_subtraction_lookup i = Posit.sub 4 0 (i / 16) (i % 16) := by decide +kernel
theorem C11_tables_agree_4_0_mul : ∀ i < 256, tab posit_4_0_multiplication_lookup i = Posit.mul 4 0 (i / 16) (i % 16) := by decide +kernel
theorem C11_tables_agree_4_0_div : ∀ i < 256, tab posit_4_0_division_lookup i = Posit.div 4 0 (i / 16) (i % 16) := by decide +kernel
theorem C11_tables_agree_4_0_rec : ∀ i < 16, tab posit_4_0_reciprocal_lookup i = Posit.reciprocal 4 0 i := by decide +kernel
/-- posit<4,0>::operator< ("subtract and test the sign", NaR handled separately) is the generic order -/
theorem C11_tables_agree_4_0_lt : ∀ a < 16, ∀ b < 16, tableLt 4 0 a b = Posit.lt 4 a b := by decide +kernel

/-- the tables have the sizes the index computation `(a << nbits) | b` assumes -/
theorem C11_tables_sizes :
    posit_2_0_addition_lookup.size = 16 ∧ posit_3_0_addition_lookup.size = 64 ∧ posit_3_1_addition_lookup.size = 64 ∧
    posit_4_0_addition_lookup.size = 256 ∧ posit_4_0_subtraction_lookup.size = 256 ∧ posit_4_0_multiplication_lookup.size = 256 ∧
    posit_4_0_division_lookup.size = 256 ∧ posit_4_0_reciprocal_lookup.size = 16 := by decide +kernel

/-! ### posit<3,1> (D14): the tables agree with the generic model EXACTLY on the listed indices `(a << 3) | b` and nowhere else -/

theorem C11_tables_3_1_add_agree_exactly_on :
    ∀ i < 64, (tab posit_3_1_addition_lookup i = Posit.add 3 1 (i / 8) (i % 8)) ↔
      i ∈ [0, 1, 3, 10, 11, 19, 22, 27, 30, 31, 50, 51, 57, 58, 59] := by decide +kernel
theorem C11_tables_3_1_sub_agree_exactly_on :
    ∀ i < 64, (tab posit_3_1_subtraction_lookup i = Posit.sub 3 1 (i / 8) (i % 8)) ↔ i ∈ [0, 13, 17, 29, 30, 31, 61] := by decide +kernel
theorem C11_tables_3_1_mul_agree_exactly_on :
    ∀ i < 64, (tab posit_3_1_multiplication_lookup i = Posit.mul 3 1 (i / 8) (i % 8)) ↔
      i ∈ [0, 1, 2, 8, 10, 16, 19, 24, 25, 27, 40, 45, 46, 48, 54, 56] := by decide +kernel
theorem C11_tables_3_1_div_agree_exactly_on :
    ∀ i < 64, (tab posit_3_1_division_lookup i = Posit.div 3 1 (i / 8) (i % 8)) ↔ i ∈ [1, 2, 9, 10, 46, 47, 53, 54, 55] := by decide +kernel
theorem C11_tables_3_1_rec_agree_exactly_on :
    ∀ i < 8, (tab posit_3_1_reciprocal_lookup i = Posit.reciprocal 3 1 i) ↔ i ∈ [2] := by decide +kernel
/-- one concrete witness per table: 1 + 0.25, 1 − 4, 0.25 · 4, 1 / 0.25, 1/0.25 -/
theorem C11_tables_3_1_counterexamples :
    tab posit_3_1_addition_lookup (tabIndex 3 2 1) ≠ Posit.add 3 1 2 1 ∧
    tab posit_3_1_subtraction_lookup (tabIndex 3 2 3) ≠ Posit.sub 3 1 2 3 ∧
    tab posit_3_1_multiplication_lookup (tabIndex 3 1 3) ≠ Posit.mul 3 1 1 3 ∧
    tab posit_3_1_division_lookup (tabIndex 3 2 1) ≠ Posit.div 3 1 2 1 ∧
    tab posit_3_1_reciprocal_lookup 1 ≠ Posit.reciprocal 3 1 1 := by decide +kernel
/-- `operator<` of posit<3,1> (`int8_t(lhs._bits << 5) < int8_t(rhs._bits << 5)`) is the generic order on all 64 pairs
    (the former witness 1 < −1 included) -/
theorem C11_lt_3_1_agree : ∀ a < 8, ∀ b < 8, tableLt 3 1 a b = Posit.lt 3 a b := by decide +kernel
example : tableLt 3 1 2 6 = false ∧ Posit.lt 3 2 6 = false := by decide +kernel

/-! ### the six relational operators derived from `<` and `==` (all specialisations): sound for every width -/

/-- `>` as swapped `<`, `<=` as `< || ==`, `>=` as `!<` produce the same six answers as the generic operators whenever
    `<` itself is the generic (signed-integer) order — for every nbits and all encodings. -/
theorem C11_cmp_derivation_sound (n a b : Nat) : cmpMaskOf (Posit.lt n) n a b = cmpMaskModel n a b := by
  unfold cmpMaskOf cmpMaskModel Posit.eq Posit.lt
  have hiff := toSigned_eq_iff n a b
  by_cases h1 : toSigned n a < toSigned n b
  · have hne : ¬ (a % 2 ^ n = b % 2 ^ n) := fun h => by have := hiff.mpr h; omega
    have h2 : ¬ (toSigned n b < toSigned n a) := by omega
    simp [h1, h2, hne]
  · by_cases h2 : toSigned n b < toSigned n a
    · have hne : ¬ (a % 2 ^ n = b % 2 ^ n) := fun h => by have := hiff.mpr h; omega
      simp [h1, h2, hne]
    · have heq : a % 2 ^ n = b % 2 ^ n := hiff.mp (by omega)
      simp [h1, h2, heq]
example : cmpMaskOf (Posit.lt 16) 16 0x8000 0x7fff = 0xe := by decide +kernel

/-! ### hand-written integer assignment of the tiny posits: equal to the generic conversion for EVERY integer (unbounded) -/

/-- any integer whose magnitude has more than (nbits-2)·2^es binary digits after the leading one converts to ±maxpos in the
    generic model — every nbits, es (the clamp half of C03, used for the three theorems below) -/
theorem C11_generic_fromInt_clamps (n es : Nat) (x : Int) (hx : x ≠ 0) (h : (n - 2) * 2 ^ es < x.natAbs.log2) :
    fromInt n es x = if x < 0 then twosComp n (maxposEnc n) else maxposEnc n := fromInt_large n es x hx h
example : fromInt 16 1 (2 ^ 40) = 0x7fff ∧ fromInt 16 1 (-(2 ^ 40)) = 0x8001 := by decide +kernel

/-- posit<2,0>::operator=(long long) = generic, all x -/
theorem C11_assign_int_2_0_agree (x : Int) : assignInt_2_0 x = fromInt 2 0 x := assignInt_2_0_eq_generic x
/-- posit<3,0>::operator=(long long) = generic, all x (`operator=(int)` widens its argument and calls it) -/
theorem C11_assign_int_3_0_agree (x : Int) : assignInt_3_0 x = fromInt 3 0 x := assignInt_3_0_eq_generic x
/-- posit<4,0>::operator=(long long) = generic, all x (3 is the tie between 2 and 4 and goes to the even encoding 2) -/
theorem C11_assign_int_4_0_agree (x : Int) : assignInt_4_0 x = fromInt 4 0 x := assignInt_4_0_eq_generic x
/-- posit<8,0>::integer_assign IS the generic conversion for every long long except LLONG_MIN (whose negation overflows).
    (Before the repair of the guard `v > 48 || v == rhs` this held on the negative half only.) -/
theorem C11_fast8_0_integer_assign_agree (x : Int) (hlo : -(2:Int)^63 < x) (hhi : x < (2:Int)^63) :
    integerAssign8 x = fromInt 8 0 x := integerAssign8_eq_generic x hlo hhi
example : integerAssign8 (-1000000) = fromInt 8 0 (-1000000) := C11_fast8_0_integer_assign_agree _ (by decide) (by decide)
example : integerAssign8 1 = 0x40 ∧ integerAssign8 3 = fromInt 8 0 3 ∧ integerAssign8 48 = 0x7E ∧ integerAssign8 49 = 0x7F := by decide +kernel

/-- posit<3,1>::operator=(int) stores EVERY positive integer as encoding 1 (= 0.25); the generic conversion never yields 1
    for a positive integer (1 ↦ 2, ≥ 3 ↦ 3): the routine is wrong on the whole positive half-line -/
theorem C11_assign_int_3_1_disagrees_on_every_positive (x : Int) (h : 1 ≤ x) : assignInt_3_1 x = 1 ∧ fromInt 3 1 x ≠ 1 :=
  assignInt_3_1_pos x h
/-! ### unsigned long (long) sources: clamp to LLONG_MAX, then the signed routine — equal to the generic unsigned conversion
    for EVERY natural number (posit<4,0>, <8,0>, <16,1>; the driver uses the same clamp for <8,2> and <16,2>) -/

theorem C11_fast_4_0_unsigned_agree (x : Nat) : assignInt_4_0 (clampU x) = fromUInt 4 0 x :=
  clamp_agree 4 0 assignInt_4_0 (by decide) (fun y _ _ => assignInt_4_0_eq_generic y) x
theorem C11_fast_8_0_unsigned_agree (x : Nat) : integerAssign8 (clampU x) = fromUInt 8 0 x :=
  clamp_agree 8 0 integerAssign8 (by decide) (fun y h0 h1 => integerAssign8_eq_generic y (by omega) h1) x
theorem C11_fast_16_1_unsigned_agree (x : Nat) : fromInt 16 1 (clampU x) = fromUInt 16 1 x :=
  clamp_agree 16 1 (fromInt 16 1) (by decide) (fun _ _ _ => rfl) x
example : assignInt_4_0 (clampU 0x8000000000000000) = 7 ∧ integerAssign8 (clampU 0xffffffffffffffff) = 0x7F := by decide +kernel

/-! ### integer conversions of the fast 8-bit classes (D14) -/

/-- posit<8,2>::integer_assign (still the unrepaired text): the guard `v > 48 || v == rhs` sends EVERY positive `long long`
    to maxpos (unbounded in the argument). -/
theorem C11_fast8_2_integer_assign_positive_is_maxpos (x : Int) (h0 : 0 < x) (h1 : x < (2:Int)^63) : integerAssign8_2 x = 0x7F :=
  integerAssign8_2_pos x h0 h1
example : integerAssign8_2 1 = 0x7F ∧ fromInt 8 2 1 = 0x40 := by decide +kernel

/-- the generic conversion of 1 is the encoding of 1.0, so the fast posit<8,2> disagrees on 1 -/
theorem C11_fast_convert_counterexample_8_2_int : integerAssign8_2 1 ≠ fromInt 8 2 1 := by decide +kernel
/-- posit<8,2>: negative integers are encoded with the es = 0 layout: −2 ↦ 0xA0 (which is −16 in posit<8,2>), generic 0xB8 -/
theorem C11_fast_convert_counterexample_8_2_negative : integerAssign8_2 (-2) = 0xA0 ∧ fromInt 8 2 (-2) = 0xB8 := by decide +kernel
/-- posit<8,2>::float_assign truncates: 0.1f ↦ 0x24, generic (rounded) 0x25 -/
theorem C11_fast_convert_counterexample_8_2_float : floatAssign_8_2 0x3dcccccd = 0x24 ∧ fromFloat 8 2 0x3dcccccd = 0x25 := by decide +kernel
/-- posit<16,2>::integer_assign (round bit 42+k, tie on the last encoding bit, four top encodings by threshold): the former
    witness 0x31222 ↦ 0x7cc5 and a sample that sits on every branch of the routine — powers of two, ties with an even and an
    odd last bit, the tie 1.5·2^47 whose last bit is an exponent bit, the four thresholds 2^48, 2^49, 2^51, 2^54 and their
    neighbours, both signs (regression anchor, NOT the property) -/
theorem C11_cfg_16_2_integer_assign_samples :
    ∀ x ∈ ([0x31222, 1, 2, 3, 0x7fffffff, 0x1800, 0x1801, 0x2800, 0x27ff, 0xc00000000000, 0xbfffffffffff, 0xc00000000001,
            0xffffffffffff, 0x1000000000000, 0x2000000000000, 0x2000000000001, 0x7ffffffffffff, 0x8000000000000,
            0x40000000000000, 0x40000000000001, 0x7fffffffffffffff, -0x31222, -3, -0xc00000000000, -0x2000000000001,
            -0x40000000000001] : List Int),
      integerAssign_16_2 x = fromInt 16 2 x := by decide +kernel
/-- the full statement (open: not proved; covered by the structured transcripts, 4.4·10^6 dense sources in the repair run) -/
def C11_fast_16_2_integer_assign_full : Prop := ∀ x : Int, -(2:Int)^63 < x → x < (2:Int)^63 → integerAssign_16_2 x = fromInt 16 2 x
/-- posit<32,2>::integer_assign(long) works on all 64 bits of its argument: the former witness 2^32 ↦ 0x7fc00000 and a sample
    on the branches (regression anchor, NOT the property) -/
theorem C11_cfg_32_2_integer_assign_samples :
    ∀ x ∈ ([0x100000000, 1, 2, 3, 0x7fffffff, 0x80000000, 0xffffffff, 0x100000001, 0x1fffffffe, 0x180000001, 0xfffffffff,
            0x20000000000001, 0x7fffffffffffffff, 0x4000000000000000, 0x6000000000000001, -0x100000000, -0x80000000,
            -0x7fffffffffffffff, -0x123456789abcdef] : List Int),
      integerAssign_32_2 x = fromInt 32 2 x := by decide +kernel
def C11_fast_32_2_integer_assign_full : Prop := ∀ x : Int, -(2:Int)^63 < x → x < (2:Int)^63 → integerAssign_32_2 x = fromInt 32 2 x
/-- posit<2,0>::float_assign = generic conversion for EVERY bit pattern of EVERY binary format (float, double, …): a non-zero
    source is never rounded to 0 (the former witness 0.1f ↦ 1 included) -/
theorem C11_assign_fp_2_0_agree (eb fb bits : Nat) : assignFP_2_0 eb fb bits = fromFP 2 0 eb fb bits := assignFP_2_0_eq_generic eb fb bits
example : assignFP_2_0 8 23 0x3dcccccd = 1 ∧ fromFloat 2 0 0x3dcccccd = 1 := by decide +kernel
/-- posit<2,0>::to_double = generic read-back on all four encodings (NaR reads as NaN) -/
theorem C11_to_double_2_0_agree : ∀ a < 4, toDouble_2_0 a = toDouble 2 0 a := by decide +kernel
/-- posit<3,0>: `posit_3_0_values_lookup` (regenerated from the header) holds the generic read-back of every encoding, NaN for NaR -/
theorem C11_tables_values_3_0 :
    ∀ a < 8, (match FP.decode 8 23 (toFloatBits_3_0 a) with | .nan => none | _ => some (toFloatBits_3_0 a)) = toFloat 3 0 a := by
  decide +kernel

/-! ### a word-level routine: posit8_mulp8 = generic multiplication (every pair of posit<8,0> encodings) -/

/-- generic multiplication reduces to the magnitudes of its operands, two's-complemented when the signs differ — for every
    nbits ≥ 2 and es (from C01_mul, C01_abs_exact and the uniqueness of the Standard's rounding) -/
theorem C11_generic_mul_sign_abs (n es a b : Nat) (hn : 2 ≤ n) (ha : a < 2 ^ n) (hb : b < 2 ^ n)
    (ha0 : a ≠ 0) (hb0 : b ≠ 0) (han : a ≠ 2 ^ (n - 1)) (hbn : b ≠ 2 ^ (n - 1)) :
    Posit.mul n es a b =
      if decide (2 ^ (n - 1) ≤ a) != decide (2 ^ (n - 1) ≤ b)
      then twosComp n (Posit.mul n es (Posit.abs n a) (Posit.abs n b))
      else Posit.mul n es (Posit.abs n a) (Posit.abs n b) :=
  Posit.mul_sign_abs n es a b hn ha hb ha0 hb0 han hbn
example : Posit.mul 16 1 0xc800 0x5000 = twosComp 16 (Posit.mul 16 1 0x3800 0x5000) :=
  C11_generic_mul_sign_abs 16 1 0xc800 0x5000 (by decide) (by decide) (by decide) (by decide) (by decide) (by decide) (by decide)

/-- `posit8_mulp8` — the integer-only routine behind fast `posit<8,0>::operator*=` (posit_8_0.hpp calls it) and the pure-C
    posit8 API: decode_regime by shifting, 8×8→16-bit fraction product, carry normalisation, `posit8_round` with
    bitNPlusOne / moreBits — returns exactly the generic `posit<8,0>` product for every pair of encodings.
    Structure of the proof: both sides reduce to magnitudes by argument; the 127 × 127 magnitude table is checked by kernel
    evaluation (Lemmas/FastMul8.lean, 8 chunks); no argument about decode_regime / posit8_round themselves. -/
theorem C11_fast8_0_mul_eq_generic (a b : Nat) (ha : a < 256) (hb : b < 256) : PositC.mulp8 a b = Posit.mul 8 0 a b :=
  PositC.mulp8_eq_generic a b ha hb
example : PositC.mulp8 0x5c 0xa3 = Posit.mul 8 0 0x5c 0xa3 := C11_fast8_0_mul_eq_generic _ _ (by decide) (by decide)

/-! ### posit<32,2>::operator*=: `round_mul` uses the low exponent bit as sticky when the regime fills the word (repaired) -/

/-- 0.5 · maxpos = 2^119 lies above the Standard midpoint 2^118 between 2^116 and maxpos = 2^120: generic rounds up to maxpos,
    and so does the fast `round_mul` (bitNPlusOne = exp bit 1, moreBits = exp bit 0). The former counterexample, now positive. -/
theorem C11_fast_mul_32_2_witness :
    mul_32_2 0x38000000 0x7fffffff = 0x7fffffff ∧ Posit.mul 32 2 0x38000000 0x7fffffff = 0x7fffffff := by decide +kernel
/-- sample of products on which the transcription and the generic model agree: ordinary ones and the ones whose exact value
    sits at the ends of the regime range — 2^119 (three factorisations, both signs), the tie 2^118 (stays at 2^116), 2^117,
    2^-117, 2^-118, 2^-119 (regression anchor, NOT the property) -/
theorem C11_cfg_32_2_mul_samples :
    ∀ p ∈ [(0x40000000, 0x40000000), (0x48000000, 0x38000000), (0x7ffffffd, 0x00000003), (0x12345678, 0x6789abcd),
           (0xc0000000, 0x40000001), (0x00000001, 0x00000001), (0x7fffffff, 0x7fffffff), (0x5a5a5a5a, 0xa5a5a5a5),
           (0x7ffffffe, 0x58000000), (0x58000000, 0x7ffffffe), (0x80000002, 0x58000000), (0x7fffffff, 0x38000000),
           (0x7ffffffe, 0x50000000), (0x7ffffffe, 0x48000000), (0x7ffffffe, 0x58000001), (0x7ffffffd, 0x60000000),
           (0x00000002, 0x38000000), (0x00000002, 0x30000000), (0x00000002, 0x28000000), (0x00000003, 0x28000000)],
      mul_32_2 p.1 p.2 = Posit.mul 32 2 p.1 p.2 := by decide +kernel
/-- the full statement (open: not proved — it was false before the repair of `round_mul`; covered by the structured
    transcripts, which include every factorisation of the ten extreme scales) -/
def C11_fast_mul_32_2_full : Prop := ∀ a b, a < 2 ^ 32 → b < 2 ^ 32 → mul_32_2 a b = Posit.mul 32 2 a b

/-! ### pure C posit8 -/

/-- posit8_cmpp8 returns −1 / 0 / 1 according to the signed order of the encodings = the generic three-way comparison,
    for every pair (the former witness minpos vs −minpos included) -/
theorem C11_purec_cmpp8_agree (a b : Nat) :
    PositC.cmpp8 a b = (if Posit.lt 8 b a then 1 else if Posit.lt 8 a b then -1 else 0) := cmpp8_eq_generic a b
example : PositC.cmpp8 0x01 0xFF = 1 ∧ Posit.lt 8 0xFF 0x01 = true := by decide +kernel
/-- posit8_equal … posit8_greaterOrEqual (signed compares) give the six generic answers for every pair -/
theorem C11_purec_relational_agree (a b : Nat) : PositC.relMask8 a b = cmpMaskModel 8 a b := relMask8_eq_generic a b
example : PositC.relMask8 0x01 0xFF = 0x32 ∧ cmpMaskModel 8 0x01 0xFF = 0x32 := by decide +kernel
/-- posit8_fromsi (no `v == rhs` clause) IS the generic conversion, for every int except INT_MIN (whose negation overflows) -/
theorem C11_purec_fromsi_agree (x : Int) (h1 : -(2:Int)^31 < x) (h2 : x < (2:Int)^31) : PositC.fromsi x = fromInt 8 0 x :=
  fromsi_eq_generic x h1 h2
example : PositC.fromsi 1 = 0x40 ∧ PositC.fromsi 123456 = 0x7F := by decide +kernel

/-! ### the C shim: marshal / unmarshal is the identity on encodings (every byte count, every value) -/

theorem C11_shim_marshal_unmarshal (k v : Nat) (h : v < 2 ^ (8 * k)) : PositC.marshal 8 (PositC.unmarshal 8 k v) = v := by
  rw [PositC.marshal_unmarshal, Nat.mod_eq_of_lt h]
theorem C11_shim_unmarshal_marshal (l : List Nat) (h : ∀ b ∈ l, b < 2 ^ 8) : PositC.unmarshal 8 l.length (PositC.marshal 8 l) = l :=
  PositC.unmarshal_marshal 8 l h
/-- posit4_t: one byte, four bits -/
theorem C11_shim_marshal_unmarshal_4 (v : Nat) (h : v < 16) : PositC.marshal 4 (PositC.unmarshal 4 1 v) = v := by
  rw [PositC.marshal_unmarshal]; exact Nat.mod_eq_of_lt (by simpa using h)
example : PositC.unmarshal 8 4 0x12345678 = [0x78, 0x56, 0x34, 0x12] := by decide
