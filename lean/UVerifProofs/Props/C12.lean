/-
  Property C12 — results do not depend on the storage BlockType (blockbinary-based types: integer, fixpnt, blockbinary).

  The limb model takes the block width `w` as a parameter.  Every operator theorem of C07/C08 has the form
  `toNat w (op_w …) = spec n (toNat w …)` with a right-hand side that does not mention `w`; block-type
  independence is therefore a corollary: encode the same n-bit patterns with two limb widths, run the limb loops of
  each instantiation, decode — the values (hence the nbits encodings) coincide.
-/
import UVerifProofs.Props.C08
import UVerifProofs.Props.C07

open UVerif UVerif.Limbs

/-- the limbs of an n-bit pattern `A` in blocks of `w` bits (what `setblock`/`setbits` store) -/
def C12_enc (w n A : Nat) : List Nat := ofNat w (nrBlocks w n) A

theorem C12_enc_canon {w n A : Nat} (hw : 0 < w) (hn : 0 < n) (hA : A < 2 ^ n) :
    Canon w n (C12_enc w n A) ∧ toNat w (C12_enc w n A) = A := canon_ofNat hw hn hA

/-- the encoding is unique: a canonical limb list is the encoding of its value -/
theorem C12_enc_unique {w n : Nat} (hw : 0 < w) (hn : 0 < n) {a : List Nat} (ha : Canon w n a) :
    a = C12_enc w n (toNat w a) := by
  obtain ⟨hc, hv⟩ := C12_enc_canon hw hn ha.2.2
  exact toNat_inj ha.2.1 hc.2.1 (by rw [ha.1, hc.1]) hv.symm

section
variable {w₁ w₂ n : Nat} {A B : Nat}

/-- generic form: an operator whose value is given by a width-free specification is block-type independent -/
theorem C12_of_spec2 (op : (w : Nat) → List Nat → List Nat → List Nat) (spec : Nat → Nat → Nat)
    (hop : ∀ w, C08_Supported w n → ∀ a b, Canon w n a → Canon w n b → toNat w (op w a b) = spec (toNat w a) (toNat w b))
    (h₁ : C08_Supported w₁ n) (h₂ : C08_Supported w₂ n) (hA : A < 2 ^ n) (hB : B < 2 ^ n) :
    toNat w₁ (op w₁ (C12_enc w₁ n A) (C12_enc w₁ n B)) = toNat w₂ (op w₂ (C12_enc w₂ n A) (C12_enc w₂ n B)) := by
  obtain ⟨ca1, va1⟩ := C12_enc_canon h₁.1 h₁.2 hA
  obtain ⟨cb1, vb1⟩ := C12_enc_canon h₁.1 h₁.2 hB
  obtain ⟨ca2, va2⟩ := C12_enc_canon h₂.1 h₂.2 hA
  obtain ⟨cb2, vb2⟩ := C12_enc_canon h₂.1 h₂.2 hB
  rw [hop w₁ h₁ _ _ ca1 cb1, hop w₂ h₂ _ _ ca2 cb2, va1, vb1, va2, vb2]

theorem C12_of_spec1 (op : (w : Nat) → List Nat → List Nat) (spec : Nat → Nat)
    (hop : ∀ w, C08_Supported w n → ∀ a, Canon w n a → toNat w (op w a) = spec (toNat w a))
    (h₁ : C08_Supported w₁ n) (h₂ : C08_Supported w₂ n) (hA : A < 2 ^ n) :
    toNat w₁ (op w₁ (C12_enc w₁ n A)) = toNat w₂ (op w₂ (C12_enc w₂ n A)) := by
  obtain ⟨ca1, va1⟩ := C12_enc_canon h₁.1 h₁.2 hA
  obtain ⟨ca2, va2⟩ := C12_enc_canon h₂.1 h₂.2 hA
  rw [hop w₁ h₁ _ ca1, hop w₂ h₂ _ ca2, va1, va2]

/-- integer `+ −`, unary minus, `++ −−`, `& | ^ ~`, comparisons: the same value for every block type, multi-block `uint64_t`
    included (the carry chain of its `+=` is repaired) -/
theorem C12_blocktype_independent_integer (h₁ : C08_Supported w₁ n) (h₂ : C08_Supported w₂ n) (hA : A < 2 ^ n) (hB : B < 2 ^ n) :
    toNat w₁ (Integer.add w₁ n (C12_enc w₁ n A) (C12_enc w₁ n B)) = toNat w₂ (Integer.add w₂ n (C12_enc w₂ n A) (C12_enc w₂ n B)) ∧
    toNat w₁ (Integer.sub w₁ n (C12_enc w₁ n A) (C12_enc w₁ n B)) = toNat w₂ (Integer.sub w₂ n (C12_enc w₂ n A) (C12_enc w₂ n B)) ∧
    toNat w₁ (Integer.band w₁ n (C12_enc w₁ n A) (C12_enc w₁ n B)) = toNat w₂ (Integer.band w₂ n (C12_enc w₂ n A) (C12_enc w₂ n B)) ∧
    toNat w₁ (Integer.bor w₁ n (C12_enc w₁ n A) (C12_enc w₁ n B)) = toNat w₂ (Integer.bor w₂ n (C12_enc w₂ n A) (C12_enc w₂ n B)) ∧
    toNat w₁ (Integer.bxor w₁ n (C12_enc w₁ n A) (C12_enc w₁ n B)) = toNat w₂ (Integer.bxor w₂ n (C12_enc w₂ n A) (C12_enc w₂ n B)) ∧
    toNat w₁ (Integer.neg w₁ n (C12_enc w₁ n A)) = toNat w₂ (Integer.neg w₂ n (C12_enc w₂ n A)) ∧
    toNat w₁ (Integer.flip w₁ n (C12_enc w₁ n A)) = toNat w₂ (Integer.flip w₂ n (C12_enc w₂ n A)) ∧
    toNat w₁ (Integer.inc w₁ n (C12_enc w₁ n A)) = toNat w₂ (Integer.inc w₂ n (C12_enc w₂ n A)) ∧
    toNat w₁ (Integer.dec w₁ n (C12_enc w₁ n A)) = toNat w₂ (Integer.dec w₂ n (C12_enc w₂ n A)) ∧
    Integer.cmpMask w₁ n (C12_enc w₁ n A) (C12_enc w₁ n B) = Integer.cmpMask w₂ n (C12_enc w₂ n A) (C12_enc w₂ n B) := by
  refine ⟨?_, ?_, ?_, ?_, ?_, ?_, ?_, ?_, ?_, ?_⟩
  · exact C12_of_spec2 (fun w => Integer.add w n) (IntegerSpec.add n) (fun w h a b ha hb => (C08_add h ha hb).2.1) h₁ h₂ hA hB
  · exact C12_of_spec2 (fun w => Integer.sub w n) (IntegerSpec.sub n) (fun w h a b ha hb => (C08_sub h ha hb).2.1) h₁ h₂ hA hB
  · exact C12_of_spec2 (fun w => Integer.band w n) (IntegerSpec.band n) (fun w h a b ha hb => (C08_bitwise h ha hb).1.2) h₁ h₂ hA hB
  · exact C12_of_spec2 (fun w => Integer.bor w n) (IntegerSpec.bor n) (fun w h a b ha hb => (C08_bitwise h ha hb).2.1.2) h₁ h₂ hA hB
  · exact C12_of_spec2 (fun w => Integer.bxor w n) (IntegerSpec.bxor n) (fun w h a b ha hb => (C08_bitwise h ha hb).2.2.1.2) h₁ h₂ hA hB
  · exact C12_of_spec1 (fun w => Integer.neg w n) (IntegerSpec.neg n) (fun w h a ha => (C08_neg h ha).2.1) h₁ h₂ hA
  · exact C12_of_spec1 (fun w => Integer.flip w n) (IntegerSpec.bnot n) (fun w h a ha => (C08_bitwise h ha ha).2.2.2.2) h₁ h₂ hA
  · exact C12_of_spec1 (fun w => Integer.inc w n) (IntegerSpec.inc n) (fun w h a ha => (C08_inc h ha).2) h₁ h₂ hA
  · exact C12_of_spec1 (fun w => Integer.dec w n) (IntegerSpec.dec n) (fun w h a ha => (C08_dec h ha).2) h₁ h₂ hA
  · obtain ⟨ca1, va1⟩ := C12_enc_canon h₁.1 h₁.2 hA
    obtain ⟨cb1, vb1⟩ := C12_enc_canon h₁.1 h₁.2 hB
    obtain ⟨ca2, va2⟩ := C12_enc_canon h₂.1 h₂.2 hA
    obtain ⟨cb2, vb2⟩ := C12_enc_canon h₂.1 h₂.2 hB
    rw [(C08_cmp h₁ ca1 cb1).1, (C08_cmp h₂ ca2 cb2).1, va1, vb1, va2, vb2]

/-- integer `×`: the same value for every block type whose partial products fit the 64-bit accumulator -/
theorem C12_blocktype_independent_integer_mul (h₁ : C08_MulSupported w₁ n) (h₂ : C08_MulSupported w₂ n) (hA : A < 2 ^ n) (hB : B < 2 ^ n) :
    toNat w₁ (Integer.mul w₁ n (C12_enc w₁ n A) (C12_enc w₁ n B)) = toNat w₂ (Integer.mul w₂ n (C12_enc w₂ n A) (C12_enc w₂ n B)) := by
  obtain ⟨ca1, va1⟩ := C12_enc_canon h₁.1 h₁.2.1 hA
  obtain ⟨cb1, vb1⟩ := C12_enc_canon h₁.1 h₁.2.1 hB
  obtain ⟨ca2, va2⟩ := C12_enc_canon h₂.1 h₂.2.1 hA
  obtain ⟨cb2, vb2⟩ := C12_enc_canon h₂.1 h₂.2.1 hB
  rw [(C08_mul h₁ ca1 cb1).2.1, (C08_mul h₂ ca2 cb2).2.1, va1, vb1, va2, vb2]

/-- integer shifts with any signed count: the same value for every block type — the region of D8 included: a right shift by
    nbits or more returns 0 in every instantiation (`Integer.shl_int_spec`: the value does not mention the limb width) -/
theorem C12_blocktype_independent_integer_shl (h₁ : C08_Supported w₁ n) (h₂ : C08_Supported w₂ n) (hA : A < 2 ^ n) (k : Int) :
    toNat w₁ (Integer.shl w₁ n (C12_enc w₁ n A) k) = toNat w₂ (Integer.shl w₂ n (C12_enc w₂ n A) k) := by
  obtain ⟨ca1, va1⟩ := C12_enc_canon h₁.1 h₁.2 hA
  obtain ⟨ca2, va2⟩ := C12_enc_canon h₂.1 h₂.2 hA
  rw [(Integer.shl_int_spec h₁.1 h₁.2 ca1 k).2, (Integer.shl_int_spec h₂.1 h₂.2 ca2 k).2, va1, va2]

theorem C12_blocktype_independent_integer_shr (h₁ : C08_Supported w₁ n) (h₂ : C08_Supported w₂ n) (hA : A < 2 ^ n) (k : Int) :
    toNat w₁ (Integer.shr w₁ n (C12_enc w₁ n A) k) = toNat w₂ (Integer.shr w₂ n (C12_enc w₂ n A) k) := by
  obtain ⟨ca1, va1⟩ := C12_enc_canon h₁.1 h₁.2 hA
  obtain ⟨ca2, va2⟩ := C12_enc_canon h₂.1 h₂.2 hA
  rw [Integer.shr_eq_shl_neg, Integer.shr_eq_shl_neg,
    (Integer.shl_int_spec h₁.1 h₁.2 ca1 (-k)).2, (Integer.shl_int_spec h₂.1 h₂.2 ca2 (-k)).2, va1, va2]

/-- size conversion: same value for every block type -/
theorem C12_blocktype_independent_integer_convert {m : Nat} (h₁ : 0 < w₁) (h₂ : 0 < w₂) (hn : 0 < n) (hm : 0 < m) (hA : A < 2 ^ n) :
    toNat w₁ (Integer.resize w₁ m n (C12_enc w₁ n A)) = toNat w₂ (Integer.resize w₂ m n (C12_enc w₂ n A)) := by
  obtain ⟨ca1, va1⟩ := C12_enc_canon h₁ hn hA
  obtain ⟨ca2, va2⟩ := C12_enc_canon h₂ hn hA
  rw [(C08_convert h₁ hn hm ca1).2.1, (C08_convert h₂ hn hm ca2).2.1]
  unfold toInt
  rw [va1, va2]

end

-- the three real block types on a size that ends in a partially filled block for all of them
example : toNat 8 (Integer.mul 8 33 (C12_enc 8 33 0x1fffffffe) (C12_enc 8 33 3))
        = toNat 32 (Integer.mul 32 33 (C12_enc 32 33 0x1fffffffe) (C12_enc 32 33 3)) := by decide

/-! ### fixpnt and blockbinary -/

section
variable {w₁ w₂ n : Nat} {A B : Nat}

/-- fixpnt `+ − ×`, unary minus, `++ −−`, comparisons in both arithmetic modes: the same value for every block type
    allowed for the widest intermediate (2·nbits bits for the product) -/
theorem C12_blocktype_independent_fixpnt {r : Nat} (h₁ : C07_Supported w₁ (2 * n)) (h₂ : C07_Supported w₂ (2 * n))
    (hn : 1 < n) (hr : r ≤ n) (sat : Bool) (hA : A < 2 ^ n) (hB : B < 2 ^ n) :
    toNat w₁ (Fixpnt.add w₁ n sat (C12_enc w₁ n A) (C12_enc w₁ n B)) = toNat w₂ (Fixpnt.add w₂ n sat (C12_enc w₂ n A) (C12_enc w₂ n B)) ∧
    toNat w₁ (Fixpnt.sub w₁ n sat (C12_enc w₁ n A) (C12_enc w₁ n B)) = toNat w₂ (Fixpnt.sub w₂ n sat (C12_enc w₂ n A) (C12_enc w₂ n B)) ∧
    toNat w₁ (Fixpnt.mul w₁ n r sat (C12_enc w₁ n A) (C12_enc w₁ n B)) = toNat w₂ (Fixpnt.mul w₂ n r sat (C12_enc w₂ n A) (C12_enc w₂ n B)) ∧
    toNat w₁ (Fixpnt.neg w₁ n sat (C12_enc w₁ n A)) = toNat w₂ (Fixpnt.neg w₂ n sat (C12_enc w₂ n A)) ∧
    toNat w₁ (Fixpnt.inc w₁ n sat (C12_enc w₁ n A)) = toNat w₂ (Fixpnt.inc w₂ n sat (C12_enc w₂ n A)) ∧
    toNat w₁ (Fixpnt.dec w₁ n sat (C12_enc w₁ n A)) = toNat w₂ (Fixpnt.dec w₂ n sat (C12_enc w₂ n A)) ∧
    Fixpnt.cmpMask w₁ n (C12_enc w₁ n A) (C12_enc w₁ n B) = Fixpnt.cmpMask w₂ n (C12_enc w₂ n A) (C12_enc w₂ n B) := by
  have hn0 : 0 < n := by omega
  obtain ⟨ca1, va1⟩ := C12_enc_canon h₁.1 hn0 hA
  obtain ⟨cb1, vb1⟩ := C12_enc_canon h₁.1 hn0 hB
  obtain ⟨ca2, va2⟩ := C12_enc_canon h₂.1 hn0 hA
  obtain ⟨cb2, vb2⟩ := C12_enc_canon h₂.1 hn0 hB
  have k1 : C07_Supported w₁ (n + 1) := ⟨h₁.1, h₁.2.mono (by omega)⟩
  have k2 : C07_Supported w₂ (n + 1) := ⟨h₂.1, h₂.2.mono (by omega)⟩
  have j1 : C07_Supported w₁ n := ⟨h₁.1, h₁.2.mono (by omega)⟩
  have j2 : C07_Supported w₂ n := ⟨h₂.1, h₂.2.mono (by omega)⟩
  refine ⟨?_, ?_, ?_, ?_, ?_, ?_, ?_⟩
  · rw [(C07_add k1 hn0 sat ca1 cb1).2, (C07_add k2 hn0 sat ca2 cb2).2, va1, vb1, va2, vb2]
  · rw [(C07_sub k1 hn0 sat ca1 cb1).2, (C07_sub k2 hn0 sat ca2 cb2).2, va1, vb1, va2, vb2]
  · rw [(C07_mul h₁ hn0 hr sat ca1 cb1).2, (C07_mul h₂ hn0 hr sat ca2 cb2).2, va1, vb1, va2, vb2]
  · rw [(C07_neg j1 hn0 sat ca1).2, (C07_neg j2 hn0 sat ca2).2, va1, va2]
  · rw [(C07_inc_dec k1 hn sat ca1).1.2, (C07_inc_dec k2 hn sat ca2).1.2, va1, va2]
  · rw [(C07_inc_dec k1 hn sat ca1).2.2, (C07_inc_dec k2 hn sat ca2).2.2, va1, va2]
  · rw [C07_cmp j1 hn0 ca1 cb1, C07_cmp j2 hn0 ca2 cb2, va1, vb1, va2, vb2]

/-- blockbinary primitives behind fixpnt: `+=`, `-=`, two's complement, `urmul2` (as signed values), `roundingMode`,
    arithmetic `>>=` — the same for every block type -/
theorem C12_blocktype_independent_blockbinary (h₁ : C07_Supported w₁ (2 * n)) (h₂ : C07_Supported w₂ (2 * n))
    (hn : 0 < n) (hA : A < 2 ^ n) (hB : B < 2 ^ n) (t : Nat) (ht : t < n) :
    toNat w₁ (BB.add w₁ n (C12_enc w₁ n A) (C12_enc w₁ n B)) = toNat w₂ (BB.add w₂ n (C12_enc w₂ n A) (C12_enc w₂ n B)) ∧
    toNat w₁ (BB.sub w₁ n (C12_enc w₁ n A) (C12_enc w₁ n B)) = toNat w₂ (BB.sub w₂ n (C12_enc w₂ n A) (C12_enc w₂ n B)) ∧
    toNat w₁ (BB.twosC w₁ n (C12_enc w₁ n A)) = toNat w₂ (BB.twosC w₂ n (C12_enc w₂ n A)) ∧
    toInt w₁ (2 * n) (BB.urmul2 w₁ n (C12_enc w₁ n A) (C12_enc w₁ n B)) = toInt w₂ (2 * n) (BB.urmul2 w₂ n (C12_enc w₂ n A) (C12_enc w₂ n B)) ∧
    BB.roundingMode w₁ n (C12_enc w₁ n A) t = BB.roundingMode w₂ n (C12_enc w₂ n A) t ∧
    toInt w₁ n (BB.shr w₁ n (C12_enc w₁ n A) (t : Int)) = toInt w₂ n (BB.shr w₂ n (C12_enc w₂ n A) (t : Int)) ∧
    BB.lt w₁ n (C12_enc w₁ n A) (C12_enc w₁ n B) = BB.lt w₂ n (C12_enc w₂ n A) (C12_enc w₂ n B) := by
  obtain ⟨ca1, va1⟩ := C12_enc_canon h₁.1 hn hA
  obtain ⟨cb1, vb1⟩ := C12_enc_canon h₁.1 hn hB
  obtain ⟨ca2, va2⟩ := C12_enc_canon h₂.1 hn hA
  obtain ⟨cb2, vb2⟩ := C12_enc_canon h₂.1 hn hB
  have j1 : Fixpnt.Ok w₁ n := h₁.2.mono (by omega)
  have j2 : Fixpnt.Ok w₂ n := h₂.2.mono (by omega)
  refine ⟨?_, ?_, ?_, ?_, ?_, ?_, ?_⟩
  · rw [(BB.add_spec h₁.1 hn j1 ca1.shape cb1.shape).2, (BB.add_spec h₂.1 hn j2 ca2.shape cb2.shape).2, va1, vb1, va2, vb2]
  · rw [(BB.sub_spec h₁.1 hn j1 ca1.shape cb1.shape).2, (BB.sub_spec h₂.1 hn j2 ca2.shape cb2.shape).2, va1, vb1, va2, vb2]
  · rw [(BB.twosC_spec h₁.1 hn j1 ca1.shape).2, (BB.twosC_spec h₂.1 hn j2 ca2.shape).2, va1, va2]
  · rw [(BB.urmul2_spec h₁.1 hn h₁.2 ca1 cb1).2, (BB.urmul2_spec h₂.1 hn h₂.2 ca2 cb2).2]
    unfold toInt; rw [va1, vb1, va2, vb2]
  · rw [BB.roundingMode_spec h₁.1 ca1.2.1 ht, BB.roundingMode_spec h₂.1 ca2.2.1 ht, va1, va2]
  · rw [(BB.shr_spec h₁.1 hn ca1 ht).2, (BB.shr_spec h₂.1 hn ca2 ht).2]
    unfold toInt; rw [va1, va2]
  · rw [BB.lt_spec h₁.1 hn j1 ca1 cb1, BB.lt_spec h₂.1 hn j2 ca2 cb2, va1, vb1, va2, vb2]

end

/-- blockbinary `operator<<=` — which is also `fixpnt::operator<<=` (`_block <<= shift`) — with any signed count: the result
    is canonical (no bit at or above nbits; the MSU is masked on both exits since fd17b6d) and the raw storage is the same for
    every block type -/
theorem C12_bb_shl {w₁ w₂ n A : Nat} (h₁ : 0 < w₁) (h₂ : 0 < w₂) (hn : 0 < n) (hA : A < 2 ^ n) (k : Int) :
    Canon w₁ n (BB.shl w₁ n (C12_enc w₁ n A) k) ∧ Canon w₂ n (BB.shl w₂ n (C12_enc w₂ n A) k) ∧
    toNat w₁ (BB.shl w₁ n (C12_enc w₁ n A) k) = toNat w₂ (BB.shl w₂ n (C12_enc w₂ n A) k) := by
  obtain ⟨ca1, va1⟩ := C12_enc_canon h₁ hn hA
  obtain ⟨ca2, va2⟩ := C12_enc_canon h₂ hn hA
  obtain ⟨c1, v1⟩ := BB.shl_int_spec h₁ hn ca1 k
  obtain ⟨c2, v2⟩ := BB.shl_int_spec h₂ hn ca2 k
  exact ⟨c1, c2, by rw [v1, v2, va1, va2]⟩

-- the former D7 witness: blockbinary<8> 0x4b << 7 is 0x80 in uint8_t and in uint16_t blocks
example : toNat 8 (BB.shl 8 8 (C12_enc 8 8 0x4b) 7) = 0x80 ∧ toNat 16 (BB.shl 16 8 (C12_enc 16 8 0x4b) 7) = 0x80 := by decide

/-- fixpnt Modulo division and integer `/`, `%`: the same result for every block type (b ≠ 0) -/
theorem C12_blocktype_independent_div {w₁ w₂ n r A B : Nat}
    (h₁ : C07_Supported w₁ (2 * n + 2 * r + 2 * n + 1)) (h₂ : C07_Supported w₂ (2 * n + 2 * r + 2 * n + 1))
    (hn : 0 < n) (hr : r ≤ n) (hA : A < 2 ^ n) (hB : B < 2 ^ n) (hB0 : B ≠ 0) :
    toNat w₁ (Fixpnt.div w₁ n r false (C12_enc w₁ n A) (C12_enc w₁ n B))
      = toNat w₂ (Fixpnt.div w₂ n r false (C12_enc w₂ n A) (C12_enc w₂ n B)) := by
  obtain ⟨ca1, va1⟩ := C12_enc_canon h₁.1 hn hA
  obtain ⟨cb1, vb1⟩ := C12_enc_canon h₁.1 hn hB
  obtain ⟨ca2, va2⟩ := C12_enc_canon h₂.1 hn hA
  obtain ⟨cb2, vb2⟩ := C12_enc_canon h₂.1 hn hB
  obtain ⟨_, v1⟩ := C07_div_modulo h₁ hn hr ca1 cb1 (by rw [vb1]; exact hB0)
  obtain ⟨_, v2⟩ := C07_div_modulo h₂ hn hr ca2 cb2 (by rw [vb2]; exact hB0)
  rw [v1, v2, va1, vb1, va2, vb2]

/-- integer `/` and `%`: the same value for every block type and EVERY operand pair with b ≠ 0 — the exact-fit instantiation
    (native fast path) agrees with the long division of the others on most negative / −1 too (it used to trap there) -/
theorem C12_blocktype_independent_integer_divrem {w₁ w₂ n A B : Nat} (h₁ : C08_Supported w₁ n) (h₂ : C08_Supported w₂ n)
    (hA : A < 2 ^ n) (hB : B < 2 ^ n) (hB0 : B ≠ 0) (rem : Bool) :
    toNat w₁ (Integer.divrem w₁ n (C12_enc w₁ n A) (C12_enc w₁ n B) rem)
      = toNat w₂ (Integer.divrem w₂ n (C12_enc w₂ n A) (C12_enc w₂ n B) rem) := by
  obtain ⟨ca1, va1⟩ := C12_enc_canon h₁.1 h₁.2 hA
  obtain ⟨cb1, vb1⟩ := C12_enc_canon h₁.1 h₁.2 hB
  obtain ⟨ca2, va2⟩ := C12_enc_canon h₂.1 h₂.2 hA
  obtain ⟨cb2, vb2⟩ := C12_enc_canon h₂.1 h₂.2 hB
  obtain ⟨_, _, v1, u1, _⟩ := C08_divrem h₁ ca1 cb1 (by rw [vb1]; exact hB0)
  obtain ⟨_, _, v2, u2, _⟩ := C08_divrem h₂ ca2 cb2 (by rw [vb2]; exact hB0)
  cases rem
  · rw [v1, v2, va1, vb1, va2, vb2]
  · rw [u1, u2, va1, vb1, va2, vb2]

/-- the former trap witness, now block-type independent: integer<32>: most-negative / −1 wraps to the most negative value with
    `uint8_t` blocks (long division) and with one `uint32_t` block (native fast path, divisor −1 negated) alike -/
theorem C12_native_cfg_maxneg_by_minus1 :
    Integer.divrem 8 32 (C12_enc 8 32 0x80000000) (C12_enc 8 32 0xffffffff) false = C12_enc 8 32 0x80000000 ∧
    Integer.divrem 32 32 (C12_enc 32 32 0x80000000) (C12_enc 32 32 0xffffffff) false = C12_enc 32 32 0x80000000 ∧
    BB.divrem 32 32 (C12_enc 32 32 0x80000000) (C12_enc 32 32 0xffffffff) false = C12_enc 32 32 0x80000000 ∧
    BB.divrem 32 32 (C12_enc 32 32 0x80000000) (C12_enc 32 32 0xffffffff) true = C12_enc 32 32 0 := by
  refine ⟨?_, ?_, ?_, ?_⟩ <;> decide

/-- blockbinary `*=`, `/=`, `%=`: the same value for every block type (divisor ≠ 0; every operand pair, the native fast path of
    the exact-fit instantiation included) -/
theorem C12_blocktype_independent_blockbinary_muldiv {w₁ w₂ n A B : Nat}
    (h₁ : C07_Supported w₁ (n + 1)) (h₂ : C07_Supported w₂ (n + 1)) (hn : 0 < n) (hA : A < 2 ^ n) (hB : B < 2 ^ n) (hB0 : B ≠ 0)
    (rem : Bool) :
    toNat w₁ (BB.mul w₁ n (C12_enc w₁ n A) (C12_enc w₁ n B)) = toNat w₂ (BB.mul w₂ n (C12_enc w₂ n A) (C12_enc w₂ n B)) ∧
    toNat w₁ (BB.divrem w₁ n (C12_enc w₁ n A) (C12_enc w₁ n B) rem)
      = toNat w₂ (BB.divrem w₂ n (C12_enc w₂ n A) (C12_enc w₂ n B) rem) := by
  obtain ⟨ca1, va1⟩ := C12_enc_canon h₁.1 hn hA
  obtain ⟨cb1, vb1⟩ := C12_enc_canon h₁.1 hn hB
  obtain ⟨ca2, va2⟩ := C12_enc_canon h₂.1 hn hA
  obtain ⟨cb2, vb2⟩ := C12_enc_canon h₂.1 hn hB
  have j1 : Fixpnt.Ok w₁ n := h₁.2.mono (by omega)
  have j2 : Fixpnt.Ok w₂ n := h₂.2.mono (by omega)
  constructor
  · rw [(BB.mul_spec h₁.1 hn j1 ca1 cb1).2, (BB.mul_spec h₂.1 hn j2 ca2 cb2).2, va1, vb1, va2, vb2]
  · obtain ⟨_, _, v1, u1⟩ := BB.divrem_spec h₁.1 hn j1 (fun _ => h₁.2) ca1 cb1 (by rw [vb1]; exact hB0)
    obtain ⟨_, _, v2, u2⟩ := BB.divrem_spec h₂.1 hn j2 (fun _ => h₂.2) ca2 cb2 (by rw [vb2]; exact hB0)
    unfold toInt at v1 u1 v2 u2
    cases rem
    · rw [v1, v2, va1, vb1, va2, vb2]
    · rw [u1, u2, va1, vb1, va2, vb2]

/-! ### further non-vacuity examples: the hypotheses of the theorems above are satisfiable on non-trivial instances -/

example : C12_enc 8 17 0x1abcd = [0xcd, 0xab, 0x01] ∧ C12_enc 16 17 0x1abcd = [0xabcd, 0x1] ∧ C12_enc 32 17 0x1abcd = [0x1abcd] := by decide
