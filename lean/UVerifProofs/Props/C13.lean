/-
  C13 — error-free transformations are error-free.

  Setting (UVerif.Model.F64): a float of precision `p` is an INTEGER number of units of the smallest
  subnormal; `IsFloat p z` says `z` has at most `p` significant bits; `rnInt p` is round-to-nearest-even on
  integer units (gradual underflow is built in: every integer below `2^p` is a float and sums of floats are
  integers).  All theorems are for EVERY precision `p ≥ 2` (binary64 is `p = 53`), every operand, and — for the
  `…_int` forms — without an upper exponent bound; the model-level forms (`quickTwoSum`, `twoSum`, `twoDiff`,
  `threeSum` of Model.F64, the functions the driver runs against the compiled header) add the overflow
  decision and carry an explicit in-range guard.

  Property theorems only; the proofs are in UVerifProofs/Lemmas/F64{Round,Eft,Lift,Split,Dekker,ProdLift,ProdAll}.lean.
-/
import UVerifProofs.Lemmas.F64ProdAll
open UVerif UVerif.F64

/-! ### rounding lemmas for RN -/

/-- `|RN z − z| ≤ ½ ulp(z)`: twice the error is at most the quantum `2^(size|z| − p)` of `z`'s binade. -/
theorem C13_RN_half_ulp (p : Nat) (z : Int) : 2 * (z - rnInt p z).natAbs ≤ 2 ^ (size z.natAbs - p) :=
  rnInt_close p z

/-- RN returns a float. -/
theorem C13_RN_isFloat (p : Nat) (z : Int) : IsFloat p (rnInt p z) := rnInt_isFloat p z

/-- RN is a NEAREST float: no float is closer to `z`. -/
theorem C13_RN_nearest (p : Nat) (hp : 1 ≤ p) (z f : Int) (hf : IsFloat p f) :
    (z - rnInt p z).natAbs ≤ (z - f).natAbs := rnInt_nearest hp hf

/-- RN is monotone. -/
theorem C13_RN_monotone (p : Nat) (hp : 1 ≤ p) (a b : Int) (h : a ≤ b) : rnInt p a ≤ rnInt p b :=
  rnInt_mono hp h

/-- RN is exact on representable values. -/
theorem C13_RN_exact (p : Nat) (hp : 1 ≤ p) (z : Int) (h : IsFloat p z) : rnInt p z = z := rnInt_exact hp h

/-- RN is odd: `RN(−z) = −RN(z)`. -/
theorem C13_RN_neg (p : Nat) (z : Int) : rnInt p (-z) = -rnInt p z := rnInt_neg p z

/-- Sterbenz: the difference of two floats within a factor two of each other is a float. -/
theorem C13_sterbenz (p : Nat) (hp : 1 ≤ p) (x y : Int) (hx : IsFloat p x) (hy : IsFloat p y)
    (h0 : 0 ≤ y) (h1 : y ≤ x) (h2 : x ≤ 2 * y) : IsFloat p (x - y) := sterbenz hp hx hy h0 h1 h2

/-- the rounding error of a float addition is itself a float (also in the subnormal range). -/
theorem C13_sum_error_representable (p : Nat) (hp : 1 ≤ p) (a b : Int) (ha : IsFloat p a) (hb : IsFloat p b) :
    IsFloat p (a + b - rnInt p (a + b)) := sum_error_isFloat hp ha hb

example : IsFloat 53 (2 ^ 60 + 2 ^ 8) ∧ ¬ IsFloat 53 (2 ^ 60 + 1) := by
  constructor
  · exact ⟨8, by decide, by decide⟩
  · intro h
    have := isFloat_quantum_dvd (p := 53) (by decide) h
    revert this; decide

/-! ### quick_two_sum (Dekker) -/

/-- Dekker's FastTwoSum on integer units: for floats with `|b| ≤ |a|`, with `s = RN(a+b)`,
    `z = RN(s−a)`, `r = RN(b−z)`:  `z` is exact and `s + r = a + b`. -/
theorem C13_quick_two_sum_int (p : Nat) (hp : 1 ≤ p) (a b : Int) (ha : IsFloat p a) (hb : IsFloat p b)
    (hab : b.natAbs ≤ a.natAbs) :
    rnInt p (a + b) + rnInt p (b - rnInt p (rnInt p (a + b) - a)) = a + b :=
  (fast_two_sum hp ha hb hab).2

/-- `quick_two_sum` of the model (the statement sequence of error_free_ops.hpp over Model.F64):
    for representable `a`, `b` with `|a| ≥ |b|` and `|a| + |b| ≤ maxMag` (in particular both at most half the
    largest finite value): both outputs are finite floats, `s + r = a + b` exactly and `s = RN(a + b)`. -/
theorem C13_quick_two_sum (f : Fmt) (ok : f.Ok) (a b : F) (ha : a.Rep f) (hb : b.Rep f)
    (hab : b.mag ≤ a.mag) (hg : a.mag + b.mag ≤ maxMag f) :
    (quickTwoSum f a b).1.Rep f ∧ (quickTwoSum f a b).2.Rep f ∧
    (quickTwoSum f a b).1.toInt + (quickTwoSum f a b).2.toInt = a.toInt + b.toInt ∧
    (quickTwoSum f a b).1.toInt = rnInt f.p (a.toInt + b.toInt) :=
  quickTwoSum_spec f ok ha hb hab hg

/-! ### two_sum, two_diff (Knuth), generic twoSum -/

/-- Knuth's TwoSum on integer units, NO magnitude hypothesis, every `p ≥ 2`. -/
theorem C13_two_sum_int (p : Nat) (hp2 : 2 ≤ p) (a b : Int) (ha : IsFloat p a) (hb : IsFloat p b) :
    rnInt p (a + b) +
      rnInt p (rnInt p (a - rnInt p (rnInt p (a + b) - rnInt p (rnInt p (a + b) - a))) +
               rnInt p (b - rnInt p (rnInt p (a + b) - a))) = a + b :=
  two_sum hp2 ha hb

/-- `two_sum` of the model: `s + r = a + b` exactly and `s = RN(a+b)`, for all representable operands with
    `|a| + |b| ≤ maxMag` (covers the property's guard `|a|, |b| ≤ max/2`); subnormal operands and results included. -/
theorem C13_two_sum (f : Fmt) (ok : f.Ok) (a b : F) (ha : a.Rep f) (hb : b.Rep f)
    (hg : a.mag + b.mag ≤ maxMag f) :
    (twoSum f a b).1.Rep f ∧ (twoSum f a b).2.Rep f ∧
    (twoSum f a b).1.toInt + (twoSum f a b).2.toInt = a.toInt + b.toInt ∧
    (twoSum f a b).1.toInt = rnInt f.p (a.toInt + b.toInt) :=
  twoSum_spec f ok ha hb hg

/-- `two_diff` of the model: `s + r = a − b` exactly and `s = RN(a−b)`. -/
theorem C13_two_diff (f : Fmt) (ok : f.Ok) (a b : F) (ha : a.Rep f) (hb : b.Rep f)
    (hg : a.mag + b.mag ≤ maxMag f) :
    (twoDiff f a b).1.Rep f ∧ (twoDiff f a b).2.Rep f ∧
    (twoDiff f a b).1.toInt + (twoDiff f a b).2.toInt = a.toInt - b.toInt ∧
    (twoDiff f a b).1.toInt = rnInt f.p (a.toInt - b.toInt) :=
  twoDiff_spec f ok ha hb hg

/-- the generic `twoSum<Scalar>` of numerics/twosum.hpp instantiated at any format of the model
    (binary64 for `double`; `Fmt.ieee 11 5`, `Fmt.ieee 8 8`, … for cfloat types with subnormals). -/
theorem C13_twoSum_generic (f : Fmt) (ok : f.Ok) (a b : F) (ha : a.Rep f) (hb : b.Rep f)
    (hg : a.mag + b.mag ≤ maxMag f) :
    (twoSumGeneric f a b).1.toInt + (twoSumGeneric f a b).2.toInt = a.toInt + b.toInt ∧
    (twoSumGeneric f a b).1.toInt = rnInt f.p (a.toInt + b.toInt) := by
  have h := twoSum_spec f ok ha hb hg
  have hfin : (add f a b).isFinite = true := by
    have := h.1.1
    unfold twoSum at this
    by_cases hc : (add f a b).isFinite = true
    · exact hc
    · simp [hc] at this
  rw [twoSumGeneric_eq_twoSum f hfin]
  exact ⟨h.2.2.1, h.2.2.2⟩

/-! ### three_sum (composition) -/

/-- `three_sum` of the model: `x' + y' + z' = x + y + z` exactly; guard `2(|x|+|y|+|z|) ≤ maxMag` excludes the
    overflow of the intermediate sums (the per-operand guard of the property does not: class
    `eft.three_sum.overflow`). -/
theorem C13_three_sum (f : Fmt) (ok : f.Ok) (x y z : F) (hx : x.Rep f) (hy : y.Rep f) (hz : z.Rep f)
    (hg : 2 * (x.mag + y.mag + z.mag) ≤ maxMag f) :
    (threeSum f x y z).1.Rep f ∧ (threeSum f x y z).2.1.Rep f ∧ (threeSum f x y z).2.2.Rep f ∧
    (threeSum f x y z).1.toInt + (threeSum f x y z).2.1.toInt + (threeSum f x y z).2.2.toInt
      = x.toInt + y.toInt + z.toInt :=
  threeSum_spec f ok hx hy hz hg

/-- `three_sum2` of the model (the two-output form used by the qd renormalisation paths; not one of the functions the
    property calls error-free, stated so that its single rounding is explicit): `r0 = RN(z + RN(x + y))` and
    `r1 = RN(x + y + z − r0)`, i.e. the two `two_sum` residuals are exact and only their sum is rounded — once.
    Same in-range guard as `C13_three_sum`. -/
theorem C13_three_sum2 (f : Fmt) (ok : f.Ok) (x y z : F) (hx : x.Rep f) (hy : y.Rep f) (hz : z.Rep f)
    (hg : 2 * (x.mag + y.mag + z.mag) ≤ maxMag f) :
    (threeSum2 f x y z).1.Rep f ∧ (threeSum2 f x y z).2.Rep f ∧
    (threeSum2 f x y z).1.toInt = rnInt f.p (z.toInt + rnInt f.p (x.toInt + y.toInt)) ∧
    (threeSum2 f x y z).2.toInt
      = rnInt f.p (x.toInt + y.toInt + z.toInt - (threeSum2 f x y z).1.toInt) :=
  threeSum2_spec f ok hx hy hz hg

/-- consequence: whenever the exact residual is itself a float (always the case when `x + y` is exact, for
    instance), `three_sum2` is error-free: `r0 + r1 = x + y + z`. -/
theorem C13_three_sum2_exact (f : Fmt) (ok : f.Ok) (x y z : F) (hx : x.Rep f) (hy : y.Rep f) (hz : z.Rep f)
    (hg : 2 * (x.mag + y.mag + z.mag) ≤ maxMag f)
    (hres : IsFloat f.p (x.toInt + y.toInt + z.toInt - (threeSum2 f x y z).1.toInt)) :
    (threeSum2 f x y z).1.toInt + (threeSum2 f x y z).2.toInt = x.toInt + y.toInt + z.toInt := by
  have hp : 1 ≤ f.p := by have := ok.hp2; omega
  have h := (threeSum2_spec f ok hx hy hz hg).2.2.2
  rw [rnInt_exact hp hres] at h
  omega

/-! ### split (Veltkamp) -/

/-- Veltkamp's splitting on integer units — for EVERY precision `p ≥ 1`, every splitting point `s ≥ 1` and every
    float `x` (any sign, subnormal or not): with `γ = RN((2^s+1)·x)`, `d = RN(γ − x)` the values `hi := γ − d` and
    `lo := x − hi` are floats, so the remaining two roundings of the algorithm are exact and `hi + lo = x`. -/
theorem C13_split_int (p s : Nat) (hp : 1 ≤ p) (hs : 1 ≤ s) (x : Int) (hx : IsFloat p x) :
    rnInt p (rnInt p ((((2 ^ s : Nat) : Int) + 1) * x) - rnInt p (rnInt p ((((2 ^ s : Nat) : Int) + 1) * x) - x)) +
    rnInt p (x - rnInt p (rnInt p ((((2 ^ s : Nat) : Int) + 1) * x) - rnInt p (rnInt p ((((2 ^ s : Nat) : Int) + 1) * x) - x)))
      = x := by
  obtain ⟨h1, h2⟩ := veltkamp_sum hp hs hx (s := s)
  rw [rnInt_exact hp h1, rnInt_exact hp h2]
  ring

/-- **`split` of the model, BOTH branches** (`|a| ≤ SPLIT_THRESHOLD`, and the `ldexp`-rescaled branch above it):
    for every representable `a` with `|a| < 2^(top−1)` (in particular `|a| ≤ max/2`), subnormal `a` included, in every
    format with `p ≥ 2` and room for the rescaling (`p + 2(BITS+1) ≤ top`; binary64: 53 + 56 ≤ 2098):
    both outputs are finite floats, they are the Veltkamp parts `vHi`, `vLo` of `a`, and `hi + lo = a` exactly. -/
theorem C13_split (f : Fmt) (ok : f.Ok) (hfmt : f.p + 2 * (splitBits f + 1) ≤ f.top) (a : F) (ha : a.Rep f)
    (hlt : a.mag < 2 ^ (f.top - 1)) :
    (split f a).1.Rep f ∧ (split f a).2.Rep f ∧ (split f a).1.toInt + (split f a).2.toInt = a.toInt ∧
    (split f a).1.toInt = vHi f.p (splitBits f) a.toInt ∧ (split f a).2.toInt = vLo f.p (splitBits f) a.toInt := by
  have hp : 1 ≤ f.p := by have := ok.hp2; omega
  have hsb : 1 ≤ splitBits f := by unfold splitBits; have := ok.hp2; omega
  obtain ⟨h1, h2, h3, h4, _, _⟩ := split_val_all f ok hfmt ha hlt
  refine ⟨h1, h2, ?_, h3, h4⟩
  rw [h3, h4, vLo_eq hp hsb ha.2]; ring

/-- bit-width half of Veltkamp's theorem for NORMAL floats of either sign (`2^(p−1+e) ≤ |x| < 2^(p+e)`, `s ≥ 1`,
    `s + 1 ≤ p`): `hi` is a multiple of `2^(e+s)` of magnitude at most `2^(p+e)` — it fits `p − s` bits — and `lo` is a
    multiple of `2^e` of magnitude at most `2^(s−1+e)` — it fits `s − 1` bits. -/
theorem C13_split_widths (p s e : Nat) (hs : 1 ≤ s) (hsp : s + 1 ≤ p) (x : Int) (hx : IsFloat p x)
    (hlo : 2 ^ (p - 1 + e) ≤ x.natAbs) (hhi : x.natAbs < 2 ^ (p + e)) :
    x = vHi p s x + vLo p s x ∧
    ((2 ^ (e + s) : Nat) : Int) ∣ vHi p s x ∧ (vHi p s x).natAbs ≤ 2 ^ (p + e) ∧
    ((2 ^ e : Nat) : Int) ∣ vLo p s x ∧ (vLo p s x).natAbs ≤ 2 ^ (s - 1 + e) :=
  veltkamp_widths hs hsp hx hlo hhi

/-! ### two_prod, two_sqr (Dekker's product with the Veltkamp split; no FMA macro is defined) -/

/-- **Dekker's product on the integer model, ALL floats** (zero, subnormal, normal — the statement is scale free, so
    underflow does not enter): `s = ⌈p/2⌉`, `p ≥ s + 2` (p = 53, s = 27 for binary64).  `vHi`, `vLo`, `dekkerR` are the
    values as computed, every operation rounded:  `RN(a·b) + r = a·b` exactly. -/
theorem C13_two_prod_int (p s : Nat) (hps1 : p ≤ 2 * s) (hps2 : 2 * s ≤ p + 1) (hs2 : s + 2 ≤ p) (hs : 1 ≤ s)
    (a b : Int) (ha : IsFloat p a) (hb : IsFloat p b) :
    rnInt p (a * b) + dekkerR p s a b = a * b :=
  dekker_two_prod_all hps1 hps2 hs2 hs ha hb

/-- `two_sqr` on the integer model, all floats. -/
theorem C13_two_sqr_int (p s : Nat) (hps1 : p ≤ 2 * s) (hps2 : 2 * s ≤ p + 1) (hs2 : s + 2 ≤ p) (hs : 1 ≤ s)
    (a : Int) (ha : IsFloat p a) :
    rnInt p (a * a) + dekkerSqrR p s a = a * a :=
  dekker_two_sqr_all hps1 hps2 hs2 hs ha

example : (53 ≤ 2 * 27 ∧ 2 * 27 ≤ 53 + 1 ∧ 27 + 2 ≤ 53) ∧ splitBits binary64 = 27 ∧
    binary64.p + 2 * (splitBits binary64 + 1) ≤ binary64.top := by decide

/-- **`two_prod` of the model** (the statement sequence of error_free_ops.hpp: `mul`, two `split`s — either branch —,
    four partial products, four additions over Model.F64) for ALL representable operands: zero, subnormal or normal,
    below or above SPLIT_THRESHOLD.  Guards:
      * `|a|, |b| < 2^(top−1)`                      (the property's `|x| ≤ max/2`);
      * no underflow: `q ≤ (size a − p) + (size b − p)` — the quanta of the operands multiply to at least one unit
        (binary64: implied by `|a·b| ≥ 2^-968`, in particular by the property's `2^-900`);
      * `8·2^(size a + size b) ≤ maxMag·2^q`       (binary64: implied by `|a·b| ≤ 2^1019`, in particular by `2^1000`);
      * format: `p ≥ 4`, `p + 2(BITS+1) ≤ top`.
    Then `p` and `r` are finite floats, `p = RN(a·b)` and `p + r = a·b` exactly (integer units, times `2^q`). -/
theorem C13_two_prod (f : Fmt) (ok : f.Ok) (h4 : 4 ≤ f.p) (hfmt : f.p + 2 * (splitBits f + 1) ≤ f.top)
    (a b : F) (ha : a.Rep f) (hb : b.Rep f)
    (hla : a.mag < 2 ^ (f.top - 1)) (hlb : b.mag < 2 ^ (f.top - 1))
    (hq : f.q ≤ (size a.mag - f.p) + (size b.mag - f.p))
    (hrange : 8 * 2 ^ (size a.mag + size b.mag) ≤ maxMag f * 2 ^ f.q) :
    (twoProd f a b).1.Rep f ∧ (twoProd f a b).2.Rep f ∧
    ((twoProd f a b).1.toInt + (twoProd f a b).2.toInt) * ((2 ^ f.q : Nat) : Int) = a.toInt * b.toInt ∧
    (twoProd f a b).1.toInt * ((2 ^ f.q : Nat) : Int) = rnInt f.p (a.toInt * b.toInt) :=
  twoProd_spec_all f ok h4 hfmt ha hb hla hlb hq hrange

/-- **`two_sqr` of the model**, all representable operands (one more binade of headroom for `2·hi`). -/
theorem C13_two_sqr (f : Fmt) (ok : f.Ok) (h4 : 4 ≤ f.p) (hfmt : f.p + 2 * (splitBits f + 1) ≤ f.top)
    (a : F) (ha : a.Rep f) (hla : a.mag < 2 ^ (f.top - 2))
    (hq : f.q ≤ (size a.mag - f.p) + (size a.mag - f.p))
    (hrange : 8 * 2 ^ (size a.mag + size a.mag) ≤ maxMag f * 2 ^ f.q) :
    (twoSqr f a).1.Rep f ∧ (twoSqr f a).2.Rep f ∧
    ((twoSqr f a).1.toInt + (twoSqr f a).2.toInt) * ((2 ^ f.q : Nat) : Int) = a.toInt * a.toInt ∧
    (twoSqr f a).1.toInt * ((2 ^ f.q : Nat) : Int) = rnInt f.p (a.toInt * a.toInt) :=
  twoSqr_spec_all f ok h4 hfmt ha hla hq hrange

set_option exponentiation.threshold 5000 in
set_option maxRecDepth 100000 in
/-- the hypotheses of `C13_two_prod` are satisfiable on instances that the earlier partial theorem excluded:
    binary64, a SUBNORMAL `a = 3·2^-1074` times `b = 2^200·(1 + 2^-52)`, and an `a = 2^1000` ABOVE SPLIT_THRESHOLD
    times `b = 1.5·2^-30`; both residuals are as the theorem says. -/
example :
    let a := ofBits64 0x0000000000000003
    let b := ofBits64 0x4c70000000000001
    let c := ofBits64 0x7e70000000000000
    let d := ofBits64 0x3e18000000000001
    a.mag < 2 ^ (binary64.top - 1) ∧ b.mag < 2 ^ (binary64.top - 1) ∧
    binary64.q ≤ (size a.mag - 53) + (size b.mag - 53) ∧
    8 * 2 ^ (size a.mag + size b.mag) ≤ maxMag binary64 * 2 ^ binary64.q ∧
    (twoProd binary64 a b).2.toInt ≠ 0 ∧
    maxMag binary64 >>> (splitBits binary64 + 1) < c.mag ∧ c.mag < 2 ^ (binary64.top - 1) ∧
    binary64.q ≤ (size c.mag - 53) + (size d.mag - 53) ∧
    8 * 2 ^ (size c.mag + size d.mag) ≤ maxMag binary64 * 2 ^ binary64.q ∧
    ((twoProd binary64 c d).1.toInt + (twoProd binary64 c d).2.toInt) * 2 ^ binary64.q = c.toInt * d.toInt := by
  decide

/-! ### non-vacuity and finite anchors on the binary64 instance -/

set_option exponentiation.threshold 5000 in
set_option maxRecDepth 100000 in
/-- a concrete tie in binary64: `two_sum(1, 2^-53) = (1, 2^-53)` (finite test of the model). -/
theorem C13_cfg_two_sum_tie :
    (twoSum binary64 (ofBits64 0x3ff0000000000000) (ofBits64 0x3ca0000000000000)) =
      (ofBits64 0x3ff0000000000000, ofBits64 0x3ca0000000000000) := by decide

set_option exponentiation.threshold 5000 in
set_option maxRecDepth 100000 in
/-- the overflow corner the per-operand guard does not exclude: `three_sum(max/2, max/2, max/2) = (inf, 0, 0)`. -/
theorem C13_three_sum_overflow_counterexample :
    threeSum binary64 (ofBits64 0x7fdfffffffffffff) (ofBits64 0x7fdfffffffffffff) (ofBits64 0x7fdfffffffffffff)
      = (.inf false, pzero, pzero) := by decide

set_option exponentiation.threshold 5000 in
set_option maxRecDepth 100000 in
/-- why `three_sum2` is not among the functions the property calls error-free: in binary64, `x = 1`, `y = 2^-60`,
    `z = 2^53 + 2` satisfy the guard of `C13_three_sum2`, the model returns `(2^53 + 4, −1)` — `r0` correctly rounded (a tie
    to even), `r1 = RN(−1 + 2^-60)` — and `r0 + r1 ≠ x + y + z`: the residual `−(1 − 2^-60)` needs 60 bits. The correspondence
    stream `eft.three_sum2` compares the compiled header with exactly this model. -/
theorem C13_three_sum2_not_error_free_counterexample :
    let x := ofBits64 0x3ff0000000000000
    let y := ofBits64 0x3c30000000000000
    let z := ofBits64 0x4340000000000001
    2 * (x.mag + y.mag + z.mag) ≤ maxMag binary64 ∧
    (threeSum2 binary64 x y z) = (ofBits64 0x4340000000000002, ofBits64 0xbff0000000000000) ∧
    (threeSum2 binary64 x y z).1.toInt + (threeSum2 binary64 x y z).2.toInt ≠ x.toInt + y.toInt + z.toInt := by
  decide

set_option exponentiation.threshold 5000 in
set_option maxRecDepth 100000 in
/-- the hypotheses of `C13_two_sum` are satisfiable on a non-trivial instance
    (binary64, a = 1 + 2^-52, b = −(1 − 2^-53) · 2^-30: inexact sum, operands of different binades). -/
example : ∃ a b : F, a.Rep binary64 ∧ b.Rep binary64 ∧ a.mag + b.mag ≤ maxMag binary64 ∧
    (twoSum binary64 a b).2.toInt ≠ 0 := by
  refine ⟨ofBits64 0x3ff0000000000001, ofBits64 0xbe0fffffffffffff, ?_, ?_, ?_, ?_⟩
  · refine ⟨by decide, ?_⟩
    exact isFloat_of_dvd_of_le (e := 1022) (by decide) (by decide)
  · refine ⟨by decide, ?_⟩
    exact isFloat_of_dvd_of_le (e := 991) (by decide) (by decide)
  · decide
  · decide

set_option exponentiation.threshold 5000 in
set_option maxRecDepth 100000 in
/-- finite anchors for the statements that are not proved in general: `two_prod`, `two_sqr` and both branches of
    `split` on concrete binary64 operands (evaluation of the model; the same lines are in every transcript). -/
theorem C13_cfg_two_prod_split_samples :
    -- two_prod(1 + 2^-52, 1 + 2^-52) = (1 + 2^-51, 2^-104)
    twoProd binary64 (ofBits64 0x3ff0000000000001) (ofBits64 0x3ff0000000000001)
      = (ofBits64 0x3ff0000000000002, ofBits64 0x3970000000000000) ∧
    twoSqr binary64 (ofBits64 0x3ff0000000000001) = (ofBits64 0x3ff0000000000002, ofBits64 0x3970000000000000) ∧
    -- main branch and rescaled branch of split
    (split binary64 (ofBits64 0x3ff123456789abcd)).1.toInt + (split binary64 (ofBits64 0x3ff123456789abcd)).2.toInt
      = (ofBits64 0x3ff123456789abcd).toInt ∧
    (split binary64 (ofBits64 0x7fd123456789abcd)).1.toInt + (split binary64 (ofBits64 0x7fd123456789abcd)).2.toInt
      = (ofBits64 0x7fd123456789abcd).toInt := by decide
