/-
  Property C14 — elastic types compute exactly.  Theorems about the executable model in
  UVerif/Model/Elastic.lean (which transcribes the pinned C++ loops), for EVERY limb width `w ≥ 1`, every
  limb-vector length and every sign combination unless a hypothesis says otherwise.
  `Canon w x` = limbs fit the block type and there is no most-significant zero limb (the class invariant).
-/
import UVerifProofs.Lemmas.ElasticHistory
import UVerifProofs.Lemmas.ElasticRatOps
import UVerifProofs.Lemmas.ElasticParse
import UVerifProofs.Lemmas.ElasticDecMisc
import UVerifProofs.Lemmas.ElasticU64
open UVerif UVerif.EInt

/-! ### einteger `+` : exact for all signs, all sizes -/

/-- `operator+=`: the integer sum, canonical result — all four sign combinations, any lengths. -/
theorem C14_eint_add (w : Nat) (hw : 0 < w) (x r : EI) (hx : Canon w x) (hr : Canon w r) :
    toInt w (add w x r) = toInt w x + toInt w r ∧ Canon w (add w x r) :=
  add_spec w hw x r hx hr

example : Canon 8 ⟨true, [255, 255, 3]⟩ ∧ Canon 8 ⟨false, [1, 0, 4]⟩ := by
  refine ⟨⟨?_, ?_⟩, ⟨?_, ?_⟩⟩ <;> simp [LimbsOk, NoLeadingZero]

/-! ### einteger `-` : exact for all signs, all sizes -/

/-- `operator-=`: the integer difference, canonical result — all four sign combinations (a negative left operand with a
    non-negative right operand is `-(|a| + b)`), any lengths. -/
theorem C14_eint_sub (w : Nat) (hw : 0 < w) (x r : EI) (hx : Canon w x) (hr : Canon w r) :
    toInt w (sub w x r) = toInt w x - toInt w r ∧ Canon w (sub w x r) :=
  sub_spec w hw x r hx hr

/-- regression anchor (a test): the former D16 witness `(-1) - 1` on uint16_t limbs. -/
theorem C14_eint_sub_cfg_d16 : toInt 16 (sub 16 ⟨true, [1]⟩ ⟨false, [1]⟩) = -2 := by decide

/-- the model writes the `uint64_t` steps of `+= -= *=` arithmetically; for the permitted block types (w ≤ 32) the
    wrapping 64-bit computation of the C++ gives exactly the same limb and the same carry / borrow / segment. -/
theorem C14_eint_u64_steps (w a b c seg blk : Nat) (hw : w ≤ 32) (ha : a < 2 ^ w) (hb : b < 2 ^ w) (hc : c ≤ 1)
    (hs : seg < 2 ^ w) (hk : blk < 2 ^ w) :
    (((a + 2 ^ 64 - b - c) % 2 ^ 64 % 2 ^ w, (a + 2 ^ 64 - b - c) % 2 ^ 64 / 2 ^ w % 2)
        = if b + c ≤ a then (a - b - c, 0) else (a + 2 ^ w - b - c, 1)) ∧
    (a + b + c < 2 ^ 64 ∧ (a + b + c) / 2 ^ w ≤ 1) ∧
    (seg + a * b + blk < 2 ^ 64 ∧ (seg + a * b + blk) / 2 ^ w < 2 ^ w) :=
  ⟨sub_step_u64 w a b c hw ha hb hc, add_step_u64 w a b c hw ha hb hc, mul_step_u64 w seg a b blk hw hs ha hb hk⟩

/-! ### einteger `*` -/

/-- `operator*=` (schoolbook rows, the carry of row i stored in limb i+rl when it is non-zero — the loop as repaired by
    commit b19930a): exact product and canonical result (no most-significant zero limb) for any limb width, any
    limb-vector lengths, any signs. -/
theorem C14_eint_mul (w : Nat) (x r : EI) (hx : Canon w x) (hr : Canon w r) :
    toInt w (EInt.mul w x r) = toInt w x * toInt w r ∧ Canon w (EInt.mul w x r) :=
  mulFixed_spec w x r hx hr

example : toInt 8 (EInt.mul 8 ⟨true, [255, 255, 7]⟩ ⟨false, [255, 1]⟩) = toInt 8 ⟨true, [255, 255, 7]⟩ * toInt 8 ⟨false, [255, 1]⟩ := by
  decide

/-- regression anchor (a test): the former D16a witness 65535 · 511 on uint8_t limbs. -/
theorem C14_eint_mul_cfg_d16a :
    toInt 8 (EInt.mul 8 ⟨false, [255, 255]⟩ ⟨false, [255, 1]⟩) = 33488385 := by decide

/-! ### einteger shifts -/

/-- `operator<<=`: multiplies by 2^k, keeps the sign, and leaves no most-significant zero limb (also for a count of
    whole limbs) — any limb width, any state whose limbs fit the block type. -/
theorem C14_eint_shift (w : Nat) (hw : 0 < w) (x : EI) (k : Nat) (hx : LimbsOk w x.limbs) :
    toInt w (shl w x k) = toInt w x * 2 ^ k ∧ LimbsOk w (shl w x k).limbs ∧ (k ≠ 0 → NoLeadingZero (shl w x k).limbs) := by
  obtain ⟨h1, h2, h3, h4⟩ := shl_spec w hw x k hx
  refine ⟨?_, h3, h4⟩
  simp only [toInt, h1, h2]
  split <;> push_cast <;> ring

/-- regression anchor (a test): `5 << 8` on uint8_t limbs is the limb vector [0, 5] (no trailing zero limb). -/
theorem C14_eint_shl_cfg : (shl 8 ⟨false, [5]⟩ 8).limbs = [0, 5] ∧ (shl 8 ⟨false, []⟩ 24).limbs = [] := by decide

example : toInt 16 (shl 16 ⟨true, [65535, 3]⟩ 37) = toInt 16 ⟨true, [65535, 3]⟩ * 2 ^ 37 := by decide

/-- `operator>>=`: the magnitude is divided by 2^k (truncation toward zero) for EVERY shift count — whole limbs, bits,
    counts up to and beyond nbits() —, the result has no most-significant zero limb. Any limb width, any length. -/
theorem C14_eint_shift_right (w : Nat) (hw : 0 < w) (x : EI) (k : Nat) (hx : LimbsOk w x.limbs) :
    toNat w (shr w x k).limbs = toNat w x.limbs / 2 ^ k ∧ LimbsOk w (shr w x k).limbs ∧
    (k ≠ 0 → NoLeadingZero (shr w x k).limbs) :=
  ⟨(shr_spec w hw x k hx).1, (shr_spec w hw x k hx).2.1, (shr_spec w hw x k hx).2.2.1⟩

/-- regression anchors (a test): the former witnesses 0x030201 >> 16 = 3 and 200 >> 8 = 0 on uint8_t limbs. -/
theorem C14_eint_shr_cfg :
    (shr 8 ⟨false, [1, 2, 3]⟩ 16).limbs = [3] ∧ (shr 8 ⟨false, [200]⟩ 8).limbs = [] := by decide

/-! ### einteger comparisons -/

/-- `== != < <= > >=` agree with the integer order on canonical operands of ANY sign (a zero whose sign flag is set
    compares as zero), any limb width / length. -/
theorem C14_eint_cmp (w : Nat) (a b : EI) (ha : Canon w a) (hb : Canon w b) :
    EInt.cmpMask a b = ElasticSpec.cmpMask (toInt w a) (toInt w b) :=
  cmpMask_spec w ha hb

example : Canon 32 ⟨true, [7, 4294967295]⟩ ∧ Canon 32 ⟨true, []⟩ := by
  simp [Canon, LimbsOk, NoLeadingZero]

/-- regression anchors (a test): the former D16 witnesses `-2 < -1`, `1 == -1`. -/
theorem C14_eint_cmp_cfg_d16 :
    ltE ⟨true, [2]⟩ ⟨true, [1]⟩ = true ∧ eqE ⟨false, [1]⟩ ⟨true, [1]⟩ = false ∧ ltE ⟨true, [1]⟩ ⟨false, [1]⟩ = true := by decide

/-! ### einteger `/` and `%` -/

/-- full statement (truncating division, `a == (a/b)*b + a%b`) for divisors of any length: STATED, not proved — the
    Knuth-D branch of reduce() (divisors of two or more limbs) is covered by the correspondence streams and the spec
    predicate only; the theorem below covers single-limb divisors. -/
def C14_eint_divrem_full : Prop :=
  ∀ (w : Nat), 0 < w → ∀ (a b : EI), Canon w a → Canon w b → toInt w b ≠ 0 →
    toInt w (EInt.div w a b) = Int.tdiv (toInt w a) (toInt w b) ∧
    toInt w (EInt.rem w a b) = Int.tmod (toInt w a) (toInt w b)

/-- reduce() with a single-limb divisor (native branch and long division by one limb), operands of ANY sign:
    quotient and remainder are the truncating pair (quotient sign = xor, remainder follows the dividend), both
    results are canonical and a zero result carries no sign flag. Any limb width, any dividend length. -/
theorem C14_eint_divrem_partial (w : Nat) (a b : EI) (d : Nat) (ha : Canon w a) (hb : b.limbs = [d])
    (hd0 : 0 < d) (hd : d < 2 ^ w) :
    toInt w (EInt.div w a b) = Int.tdiv (toInt w a) (toInt w b) ∧
    toInt w (EInt.rem w a b) = Int.tmod (toInt w a) (toInt w b) ∧
    Canon w (EInt.div w a b) ∧ Canon w (EInt.rem w a b) ∧
    (toNat w (EInt.div w a b).limbs = 0 → (EInt.div w a b).sign = false) ∧
    (toNat w (EInt.rem w a b).limbs = 0 → (EInt.rem w a b).sign = false) := by
  obtain ⟨hq, _, hr, hcq, hcr, hqs, hrs, _⟩ := reduce_single_limb w a b d ha hb hd0 hd
  have hbv : toInt w b = UVerif.EDec.sgn b.sign d := by simp [toInt, UVerif.EDec.sgn, hb, toNat]
  have hav : toInt w a = UVerif.EDec.sgn a.sign (toNat w a.limbs) := rfl
  refine ⟨?_, ?_, hcq, hcr, ?_, ?_⟩
  · show toInt w (reduce w a b).q = _
    rw [hbv, hav, UVerif.EDec.tdiv_sgn]
    simp only [toInt, hqs, hq, UVerif.EDec.sgn]
    by_cases h0 : toNat w a.limbs / d = 0
    · simp [h0]
    · simp [h0]
  · show toInt w (reduce w a b).r = _
    rw [hbv, hav, UVerif.EDec.tmod_sgn]
    simp only [toInt, hrs, hr, UVerif.EDec.sgn]
    by_cases h0 : toNat w a.limbs % d = 0
    · simp [h0]
    · simp [h0]
  · intro h0
    show (reduce w a b).q.sign = false
    rw [hqs, ← hq]
    have : toNat w (reduce w a b).q.limbs = 0 := h0
    simp [this]
  · intro h0
    show (reduce w a b).r.sign = false
    rw [hrs, ← hr]
    have : toNat w (reduce w a b).r.limbs = 0 := h0
    simp [this]

example : Canon 8 ⟨true, [232, 3, 9]⟩ ∧ (⟨true, [7]⟩ : EI).limbs = [7] ∧ 0 < 7 ∧ 7 < 2 ^ 8 := by
  simp [Canon, LimbsOk, NoLeadingZero]

/-- regression anchors (a test): the former D16 sign witnesses `-256 / 56 = -4`, `-1 % 6 = -1`, `-300 % 3 = 0` (no sign). -/
theorem C14_eint_divrem_cfg_d16 :
    toInt 8 (EInt.div 8 ⟨true, [0, 1]⟩ ⟨false, [56]⟩) = -4 ∧ toInt 8 (EInt.rem 8 ⟨true, [1]⟩ ⟨false, [6]⟩) = -1 ∧
    EInt.rem 8 ⟨true, [44, 1]⟩ ⟨false, [3]⟩ = ⟨false, []⟩ := by decide

/-- regression anchors (a test): former Knuth-D witnesses — `13108 % 256 = 52` on uint8_t limbs, and the classical
    add-back case `0x7fff800000000000 / 0x800000000001` on uint16_t limbs. -/
theorem C14_eint_divrem_cfg_knuth :
    toInt 8 (EInt.rem 8 ⟨false, [52, 51]⟩ ⟨false, [0, 1]⟩) = 52 ∧
    toInt 16 (EInt.div 16 ⟨false, [0, 0, 32768, 32767]⟩ ⟨false, [1, 0, 32768]⟩) = 65534 ∧
    toInt 16 (EInt.rem 16 ⟨false, [0, 0, 32768, 32767]⟩ ⟨false, [1, 0, 32768]⟩) = Int.tmod 9223231299366420480 140737488355329 := by
  decide

/-! ### histories -/

/-- HISTORY (einteger): along ANY chain of `+= -= *= negate <<=` with canonical operands (`Op.Ok` asks nothing else),
    the object denotes the exact integer value of the chain and stays canonical, whatever growth or shrinkage the
    limb vector went through. Any limb width, any chain length, any signs. -/
theorem C14_history (w : Nat) (hw : 0 < w) (ops : List EInt.Op) (x : EI) (hx : Canon w x) (hok : EInt.OkAll w x ops) :
    toInt w (EInt.runAll w x ops) = EInt.exactAll w (toInt w x) ops ∧ Canon w (EInt.runAll w x ops) :=
  EInt.history_spec w hw ops x hx hok

example : EInt.OkAll 8 ⟨false, [255, 255]⟩
    [.add ⟨true, [255, 255]⟩, .sub ⟨false, [7]⟩, .mulF ⟨true, [255, 255, 1]⟩, .neg, .shl 16, .sub ⟨false, [1]⟩] := by
  simp [EInt.OkAll, EInt.Op.Ok, EInt.Op.run, Canon, LimbsOk, NoLeadingZero]

/-- HISTORY (edecimal): any chain of `+= -= *= /= %= negate` with canonical operands (non-zero divisors): exact integer
    value, canonical digits, and never a "negative zero" — no restriction on signs/sizes. -/
theorem C14_edec_history (ops : List EDec.Op) (x : EDec.ED) (hx : EDec.ECanon x) (hn : EDec.NZ x) (hok : ∀ o ∈ ops, o.Ok) :
    EDec.toInt (EDec.runAll x ops) = EDec.exactAll (EDec.toInt x) ops ∧ EDec.ECanon (EDec.runAll x ops) ∧
    EDec.NZ (EDec.runAll x ops) :=
  EDec.history_spec ops x hx hn hok

/-! ### einteger decimal text (also the einteger clause of C16) -/

/-- `convert_to_string` (decimal): the digits printed are the decimal expansion of the magnitude — read most
    significant first they evaluate to it, each is a decimal digit, the first is not 0 — preceded by `-`
    exactly when the sign flag is set; an object without limbs prints `0`.  For the three block types. -/
theorem C14_eint_to_string (w : Nat) (hw : w = 8 ∨ w = 16 ∨ w = 32) (x : EI) (hx : Canon w x) :
    msVal (toDecimalDigits w x) = toNat w x.limbs ∧ DigitsOk (toDecimalDigits w x) ∧
    (toDecimalDigits w x).head? ≠ some 0 ∧
    toDecimal w x = (if x.limbs = [] then "0"
      else (if x.sign then "-" else "") ++ String.ofList ((toDecimalDigits w x).map digitChar)) := by
  obtain ⟨h1, h2, h3⟩ := toDecimalDigits_spec w hw x hx
  refine ⟨h1, h2, h3, ?_⟩
  unfold toDecimal
  by_cases he : x.limbs = []
  · simp [he]
  · have hl : ¬ x.limbs.length = 0 := fun h => he (List.length_eq_zero_iff.mp h)
    simp only [hl, he, if_false]
    have hne : toDecimalDigits w x ≠ [] := by
      intro h0
      rw [h0] at h1
      have hpos := toNat_ge_of_noLeadingZero w x.limbs he hx.2
      have : 0 < (2 ^ w) ^ (x.limbs.length - 1) := Nat.pow_pos (Nat.two_pow_pos w)
      simp [msVal] at h1
      omega
    have : (toDecimalDigits w x).isEmpty = false := by
      cases h : toDecimalDigits w x with
      | nil => exact absurd h hne
      | cons _ _ => rfl
    simp only [this, Bool.false_eq_true, if_false]
    cases x.sign <;> simp

example : toDecimal 16 ⟨true, [722, 18838]⟩ = "-1234567890" := by decide

/-- `parse` (decimal branch): an optional `-` followed
    by decimal digits `ds` yields exactly the integer the string denotes, as a canonical object. Limb width ≥ 4 bits
    (the digit 9 and the factor 10 must fit one limb), any number of digits. -/
theorem C14_eint_parse (w : Nat) (hw : 4 ≤ w) (ds : List Nat) (hds : DigitsOk ds) (neg : Bool) :
    toNat w (parseChars w ((if neg then ['-'] else []) ++ ds.map digitChar)).limbs = msVal ds ∧
    (parseChars w ((if neg then ['-'] else []) ++ ds.map digitChar)).sign = neg ∧
    Canon w (parseChars w ((if neg then ['-'] else []) ++ ds.map digitChar)) :=
  parse_spec w hw ds hds neg

example : toInt 8 (parseDec 8 "-98765432109876543210") = -98765432109876543210 := by decide

/-- edecimal text: `operator<<` writes `-` iff the flag is set, then the stored digits most significant first;
    for a canonical object these digits are the decimal expansion of the magnitude. -/
theorem C14_edec_to_string (x : EDec.ED) (hx : EDec.ECanon x) :
    EDec.toDecimal x = (if x.neg then "-" else "") ++ String.ofList (x.d.reverse.map EDec.digitChar) ∧
    msVal x.d.reverse = EDec.toNat x.d ∧ (∀ d ∈ x.d.reverse, d < 10) ∧
    (x.d.length = 1 ∨ x.d.reverse.head? ≠ some 0) := by
  refine ⟨rfl, ?_, fun d hd => hx.1 d (List.mem_reverse.mp hd), ?_⟩
  · rw [msVal_reverse]
    have : ∀ l : List Nat, lsVal l = EDec.toNat l := by
      intro l; induction l with
      | nil => rfl
      | cons a l ih => simp [lsVal, EDec.toNat, ih]
    exact this _
  · rcases hx.2.2 with h | h
    · exact Or.inl h
    · right; rw [List.head?_reverse]; exact h

/-! ### edecimal `+ - *` (any sizes, any signs) -/

open UVerif.EDec in
/-- edecimal `+=`: the integer sum; the result is canonical (decimal digits, unpadded). -/
theorem C14_edec_add (x r : ED) (hx : ECanon x) (hr : ECanon r) :
    EDec.toInt (EDec.add x r) = EDec.toInt x + EDec.toInt r ∧ ECanon (EDec.add x r) := add_spec hx hr

open UVerif.EDec in
/-- edecimal `-=`: the integer difference. -/
theorem C14_edec_sub (x r : ED) (hx : ECanon x) (hr : ECanon r) :
    EDec.toInt (EDec.sub x r) = EDec.toInt x - EDec.toInt r ∧ ECanon (EDec.sub x r) := sub_spec hx hr

open UVerif.EDec in
/-- edecimal `*=`: the integer product. -/
theorem C14_edec_mul (x r : ED) (hx : ECanon x) (hr : ECanon r) :
    EDec.toInt (EDec.mul x r) = EDec.toInt x * EDec.toInt r ∧ ECanon (EDec.mul x r) := mul_spec hx hr

open UVerif.EDec in
example : ECanon ⟨true, [9, 9, 9, 0, 1]⟩ ∧ ECanon ⟨false, [0]⟩ := by
  refine ⟨⟨?_, ?_, ?_⟩, ⟨?_, ?_, ?_⟩⟩ <;> simp [DOk]

open UVerif.EDec in
/-- edecimal `== != < <= > >=` agree with the integer order (canonical operands that are not "negative zero"). -/
theorem C14_edec_cmp (a b : ED) (ha : ECanon a) (hb : ECanon b) (hna : NZ a) (hnb : NZ b) :
    EDec.cmpMask a b = ElasticSpec.cmpMask (EDec.toInt a) (EDec.toInt b) := EDec.cmpMask_spec ha hb hna hnb

open UVerif.EDec in
/-- edecimal digit shifts: `<<` multiplies the magnitude by 10^k (zero stays the single digit `0`, a canonical object stays
    canonical), `>>` divides it by 10^k (toward zero); the sign flag is kept by `<<`. -/
theorem C14_edec_shift (x : ED) (k : Nat) (hx : DOk x.d) :
    EDec.toNat (EDec.shl x k).d = EDec.toNat x.d * 10 ^ k ∧ (EDec.shl x k).neg = x.neg ∧
    (ECanon x → ECanon (EDec.shl x k)) ∧
    EDec.toNat (EDec.shr x k).d = EDec.toNat x.d / 10 ^ k :=
  ⟨(EDec.shl_spec x k).1, (EDec.shl_spec x k).2.1, (EDec.shl_spec x k).2.2, EDec.shr_spec x k hx⟩

/-- regression anchor (a test): `0 << 3` prints `0`. -/
theorem C14_edec_shl_cfg : EDec.toDecimal (EDec.shl ⟨false, [0]⟩ 3) = "0" := by decide

/-- negation: the value is negated (einteger flips the flag; edecimal flips it unless the value is zero, so `-0` does not
    arise). -/
theorem C14_neg (w : Nat) (x : EI) (y : EDec.ED) :
    toInt w (EInt.neg x) = -toInt w x ∧ EDec.toInt (EDec.neg y) = -EDec.toInt y ∧
    (EDec.ECanon y → EDec.ECanon (EDec.neg y)) ∧ (EDec.NZ y → EDec.NZ (EDec.neg y)) := by
  refine ⟨?_, EDec.neg_spec y, EDec.ecanon_neg, EDec.neg_nz⟩
  simp only [EInt.neg, toInt]; by_cases h : x.sign = true <;> simp [h]

/-- regression anchor (a test): `-0` prints `0`. -/
theorem C14_edec_neg_cfg : EDec.toDecimal (EDec.neg ⟨false, [0]⟩) = "0" := by decide

/-! ### edecimal `/` and `%` -/

open UVerif.EDec in
/-- `decint_divide` (long division by subtract-and-count, `findLargestMultiple`): quotient and remainder are the
    truncating pair, with canonical digit vectors and NO negative zero (`NZ`: a zero result never carries the sign
    flag, so it prints `0`) — any sizes, any signs of dividend and divisor. -/
theorem C14_edec_divrem (x y : ED) (hx : ECanon x) (hy : ECanon y) (hnx : NZ x) (hy0 : EDec.toInt y ≠ 0) :
    EDec.toInt (EDec.div x y) = Int.tdiv (EDec.toInt x) (EDec.toInt y) ∧
    EDec.toInt (EDec.rem x y) = Int.tmod (EDec.toInt x) (EDec.toInt y) ∧
    ECanon (EDec.div x y) ∧ ECanon (EDec.rem x y) ∧ NZ (EDec.div x y) ∧ NZ (EDec.rem x y) := by
  have h0 : EDec.toNat y.d ≠ 0 := by
    intro h; apply hy0; simp [EDec.toInt, h]
  obtain ⟨h1, h2, h3, h4, _, _, h7, h8⟩ := divide_spec hx hy hnx h0
  exact ⟨h1, h2, h3, h4, h7, h8⟩

open UVerif.EDec in
/-- the identity the property names: `a == (a/b)*b + a%b`. -/
theorem C14_edec_divrem_identity (x y : ED) (hx : ECanon x) (hy : ECanon y) (hnx : NZ x) (hy0 : EDec.toInt y ≠ 0) :
    EDec.toInt x = EDec.toInt (EDec.div x y) * EDec.toInt y + EDec.toInt (EDec.rem x y) := by
  obtain ⟨h1, h2, _⟩ := C14_edec_divrem x y hx hy hnx hy0
  rw [h1, h2, Int.mul_comm]
  exact (Int.mul_tdiv_add_tmod _ _).symm

open UVerif.EDec in
example : ECanon ⟨true, [7, 6, 5, 4, 3, 2, 1]⟩ ∧ NZ ⟨true, [7, 6, 5, 4, 3, 2, 1]⟩ ∧ EDec.toInt ⟨true, [9, 8, 7]⟩ ≠ 0 := by
  refine ⟨⟨?_, ?_, ?_⟩, ?_, ?_⟩ <;> simp [DOk, NZ, EDec.toNat, EDec.toInt]

open UVerif.EDec in
/-- regression anchor (a test): the former D17 witness `-9 % 3` now prints `0`. -/
theorem C14_edec_rem_cfg_d17 : EDec.toDecimal (EDec.rem ⟨true, [9]⟩ ⟨false, [3]⟩) = "0" := by decide

open UVerif.EDec in
/-- finite regression anchors (a test, not the property): a 7-digit by 3-digit division with every sign combination. -/
theorem C14_edec_divrem_cfg_7_3 :
    (EDec.toInt (EDec.div ⟨false, [7, 6, 5, 4, 3, 2, 1]⟩ ⟨false, [9, 8, 7]⟩) = Int.tdiv 1234567 789 ∧
     EDec.toInt (EDec.rem ⟨false, [7, 6, 5, 4, 3, 2, 1]⟩ ⟨false, [9, 8, 7]⟩) = Int.tmod 1234567 789) ∧
    (EDec.toInt (EDec.div ⟨true, [7, 6, 5, 4, 3, 2, 1]⟩ ⟨false, [9, 8, 7]⟩) = Int.tdiv (-1234567) 789 ∧
     EDec.toInt (EDec.rem ⟨true, [7, 6, 5, 4, 3, 2, 1]⟩ ⟨false, [9, 8, 7]⟩) = Int.tmod (-1234567) 789) ∧
    (EDec.toInt (EDec.div ⟨false, [7, 6, 5, 4, 3, 2, 1]⟩ ⟨true, [9, 8, 7]⟩) = Int.tdiv 1234567 (-789) ∧
     EDec.toInt (EDec.rem ⟨true, [7, 6, 5, 4, 3, 2, 1]⟩ ⟨true, [9, 8, 7]⟩) = Int.tmod (-1234567) (-789)) := by
  decide

/-! ### erational -/

/- `ERCanon x`: numerator and denominator are canonical non-negative edecimals ("managed as positive numbers"),
   the denominator is non-zero; the sign lives in `x.neg`. -/

open UVerif.ERat UVerif.EDec in
/-- erational `+ - * /` (cross multiplication + `normalize()` = Euclid on edecimals): the exact rational result.
    Any sizes, any sign combination; `/` for a non-zero divisor. -/
theorem C14_erat_ops (x r : ER) (hx : ERCanon x) (hr : ERCanon r) :
    toRat (ERat.add x r) = toRat x + toRat r ∧ toRat (ERat.sub x r) = toRat x - toRat r ∧
    toRat (ERat.mul x r) = toRat x * toRat r ∧
    (0 < EDec.toNat r.num.d → toRat (ERat.div x r) = toRat x / toRat r) :=
  ⟨(addsub_spec false hx hr).value, (addsub_spec true hx hr).value, (mul_spec' hx hr).value,
   fun h => (div_spec' hx hr h).value⟩

open UVerif.ERat UVerif.EDec in
/-- every result is in lowest terms. -/
theorem C14_erat_lowest_terms (x r : ER) (hx : ERCanon x) (hr : ERCanon r) :
    Nat.gcd (EDec.toNat (ERat.add x r).num.d) (EDec.toNat (ERat.add x r).den.d) = 1 ∧
    Nat.gcd (EDec.toNat (ERat.sub x r).num.d) (EDec.toNat (ERat.sub x r).den.d) = 1 ∧
    Nat.gcd (EDec.toNat (ERat.mul x r).num.d) (EDec.toNat (ERat.mul x r).den.d) = 1 ∧
    (0 < EDec.toNat r.num.d → Nat.gcd (EDec.toNat (ERat.div x r).num.d) (EDec.toNat (ERat.div x r).den.d) = 1) :=
  ⟨(addsub_spec false hx hr).lowest, (addsub_spec true hx hr).lowest, (mul_spec' hx hr).lowest,
   fun h => (div_spec' hx hr h).lowest⟩

open UVerif.ERat UVerif.EDec in
/-- every result has a positive denominator (flag clear, value > 0) and a canonical numerator/denominator. -/
theorem C14_erat_positive_denominator (x r : ER) (hx : ERCanon x) (hr : ERCanon r) :
    ERCanon (ERat.add x r) ∧ ERCanon (ERat.sub x r) ∧ ERCanon (ERat.mul x r) ∧
    (0 < EDec.toNat r.num.d → ERCanon (ERat.div x r)) :=
  ⟨(addsub_spec false hx hr).canon, (addsub_spec true hx hr).canon, (mul_spec' hx hr).canon,
   fun h => (div_spec' hx hr h).canon⟩

open UVerif.ERat UVerif.EDec in
example : ERCanon ⟨true, ⟨false, [5, 2]⟩, ⟨false, [2, 1]⟩⟩ ∧ 0 < EDec.toNat (⟨false, [5, 2]⟩ : ED).d := by
  refine ⟨⟨⟨⟨?_, ?_, ?_⟩, rfl⟩, ⟨⟨?_, ?_, ?_⟩, rfl⟩, ?_⟩, ?_⟩ <;> simp [DOk, EDec.toNat]

open UVerif.ERat UVerif.EDec in
/-- HISTORY (erational): any chain of `+ - * /` with canonical operands and non-zero divisors. -/
theorem C14_erat_history (ops : List ERat.Op) (x : ER) (hx : ERCanon x) (hok : ∀ o ∈ ops, o.Ok) :
    toRat (ERat.runAll x ops) = ERat.exactAll (toRat x) ops ∧ ERCanon (ERat.runAll x ops) ∧
      (ops ≠ [] → Nat.gcd (EDec.toNat (ERat.runAll x ops).num.d) (EDec.toNat (ERat.runAll x ops).den.d) = 1) :=
  ERat.history_spec ops x hx hok

open UVerif.ERat UVerif.EDec in
/-- ZERO IS UNIQUE: every `+ − × ÷` result that is zero is printed `0/1` (no sign, numerator 0, denominator 1) —
    also when an operand is the object `-0/d`. Holds since commit 5d744db (normalize() clears the sign of a zero). -/
theorem C14_erat_zero_unique (x r : ER) (hx : ERCanon x) (hr : ERCanon r) :
    (toRat x + toRat r = 0 → toText (ERat.add x r) = "0/1") ∧
    (toRat x - toRat r = 0 → toText (ERat.sub x r) = "0/1") ∧
    (toRat x * toRat r = 0 → toText (ERat.mul x r) = "0/1") ∧
    (0 < EDec.toNat r.num.d → toRat x / toRat r = 0 → toText (ERat.div x r) = "0/1") :=
  ⟨fun h => good_zero_text (addsub_spec false hx hr) (by simpa using h),
   fun h => good_zero_text (addsub_spec true hx hr) (by simpa using h),
   fun h => good_zero_text (mul_spec' hx hr) h,
   fun h0 h => good_zero_text (div_spec' hx hr h0) h⟩

open UVerif.ERat UVerif.EDec in
/-- the same along histories: after any chain of operations, a zero value is printed `0/1`. -/
theorem C14_erat_zero_unique_history (ops : List ERat.Op) (x : ER) (hx : ERCanon x) (hok : ∀ o ∈ ops, o.Ok)
    (hne : ops ≠ []) (hz : ERat.exactAll (toRat x) ops = 0) : toText (ERat.runAll x ops) = "0/1" :=
  good_zero_text (ERat.history_good ops x hx hok hne) hz

open UVerif.ERat UVerif.EDec in
/-- regression anchors (a test): the former D17 witnesses. -/
theorem C14_erat_zero_cfg_d17 :
    toText (ERat.mul ⟨false, ⟨false, [0]⟩, ⟨false, [1]⟩⟩ ⟨true, ⟨false, [2]⟩, ⟨false, [3]⟩⟩) = "0/1" ∧
    toText (ERat.mul ⟨false, ⟨false, [1]⟩, ⟨false, [1]⟩⟩ ⟨true, ⟨false, [0]⟩, ⟨false, [1]⟩⟩) = "0/1" ∧
    toText (ERat.div ⟨true, ⟨false, [0]⟩, ⟨false, [1]⟩⟩ ⟨false, ⟨false, [2]⟩, ⟨false, [3]⟩⟩) = "0/1" := by decide

open UVerif.ERat UVerif.EDec in
/-- finite regression anchors (a test, not the property): 1/3 + (-1/6) = 1/6, (3/4)·(2/9) = 1/6, (1/2)−(1/2) = 0/1,
    (-5/12) / (10/9) = -3/8, each in lowest terms with a positive denominator. -/
theorem C14_erat_ops_cfg_small :
    toText (ERat.add ⟨false, ⟨false, [1]⟩, ⟨false, [3]⟩⟩ ⟨true, ⟨false, [1]⟩, ⟨false, [6]⟩⟩) = "1/6" ∧
    toText (ERat.mul ⟨false, ⟨false, [3]⟩, ⟨false, [4]⟩⟩ ⟨false, ⟨false, [2]⟩, ⟨false, [9]⟩⟩) = "1/6" ∧
    toText (ERat.sub ⟨false, ⟨false, [1]⟩, ⟨false, [2]⟩⟩ ⟨false, ⟨false, [1]⟩, ⟨false, [2]⟩⟩) = "0/1" ∧
    toText (ERat.div ⟨true, ⟨false, [5]⟩, ⟨false, [2, 1]⟩⟩ ⟨false, ⟨false, [0, 1]⟩, ⟨false, [9]⟩⟩) = "-3/8" := by
  decide

/-! ### the checked certificate for quotient / remainder -/

/-- if `q·b + r = a` and `0 ≤ r < b` for non-negative `a` and positive `b`, then `(q, r)` is THE truncating
    quotient/remainder pair. (This is what the driver's spec predicate relies on when it judges `/` and `%`.) -/
theorem C14_divrem_certificate (a b q r : Nat) (hb : 0 < b) (h : q * b + r = a) (hr : r < b) :
    q = a / b ∧ r = a % b := by
  subst h
  constructor
  · rw [Nat.add_comm, Nat.add_mul_div_right _ _ hb, Nat.div_eq_of_lt hr, Nat.zero_add]
  · rw [Nat.add_comm, Nat.add_mul_mod_self_right, Nat.mod_eq_of_lt hr]

