/-
  C15 — conversions between configurations (posit clause): posit<n2,es2>(posit<n1,es1>) is
  decode (exact, C01 `decode_value`) followed by one `convert_` rounding (C01 `convert_correct`).
  Proved here: the special values survive every such conversion, for all configurations.
-/
import UVerif.Model.Posit
import UVerifProofs.Lemmas.PositArith
import UVerifProofs.Lemmas.PositDecode
open UVerif UVerif.Posit

/-- NaR converts to NaR between any two posit configurations -/
theorem C15_posit_nar (n1 es1 n2 es2 : Nat) (h1 : 0 < n1) :
    Posit.convert n2 es2 (decode n1 es1 (2 ^ (n1 - 1))) = 2 ^ (n2 - 1) := by
  have hp : 0 < 2 ^ (n1 - 1) := Nat.two_pow_pos _
  have hlt : 2 ^ (n1 - 1) < 2 ^ n1 := Nat.pow_lt_pow_right (by decide) (by omega)
  unfold decode
  simp only [Nat.mod_eq_of_lt hlt]
  rw [if_neg (by omega)]
  simp only [if_true]
  unfold Posit.convert
  simp

/-- zero converts to zero between any two posit configurations -/
theorem C15_posit_zero (n1 es1 n2 es2 : Nat) :
    Posit.convert n2 es2 (decode n1 es1 0) = 0 := by
  unfold decode Posit.convert
  simp

example : Posit.convert 16 2 (decode 8 1 0x80) = 0x8000 := by decide

/-! ### rounding between configurations (uses C01's `decode_value` and `convert_correct`) -/

section
open UVerif.Posit

/-- **posit<n1,es1> → posit<n2,es2> is one correct rounding.** For every pair of configurations and every
    real-valued source encoding, the converting constructor (`to_value()` then `convert`) returns the posit the
    Standard selects for the source's exact value. -/
theorem C15_posit_to_posit (n1 es1 n2 es2 a : Nat) (h1 : 2 ≤ n1) (h2 : 2 ≤ n2) (ha : a < 2 ^ n1)
    (h0 : a ≠ 0) (hnar : a ≠ 2 ^ (n1 - 1)) (x : ℚ) (hx : positVal n1 es1 a = some x) :
    PositNearest n2 es2 x (Posit.convert n2 es2 (decode n1 es1 a)) := by
  obtain ⟨hv, hz, hi, hf, _, _⟩ := decode_value n1 es1 a h1 ha h0 hnar
  rw [hx] at hv
  injection hv with hv
  rw [hv]
  exact convert_val_correct n2 es2 h2 _ ⟨hz, hi, hf⟩

/-- **identity on representable values / widen-then-narrow.** If the source value is exactly representable in the
    target (in particular after widening), converting back returns the original encoding: the round trip
    posit<n1,es1> → posit<n2,es2> → posit<n1,es1> is the identity whenever the first step was exact. -/
theorem C15_posit_roundtrip (n1 es1 n2 es2 a : Nat) (h1 : 2 ≤ n1) (h2 : 2 ≤ n2) (ha : a < 2 ^ n1)
    (h0 : a ≠ 0) (hnar : a ≠ 2 ^ (n1 - 1)) (x : ℚ) (hx : positVal n1 es1 a = some x)
    (b : Nat) (hblt : b < 2 ^ n2)
    (hexact : positVal n2 es2 b = some x) (hb0 : b ≠ 0) (hbnar : b ≠ 2 ^ (n2 - 1))
    (hback : Posit.convert n1 es1 (decode n2 es2 b) < 2 ^ n1) :
    Posit.convert n1 es1 (decode n2 es2 b) = a := by
  have hr := C15_posit_to_posit n2 es2 n1 es1 b h2 h1 hblt hb0 hbnar x hexact
  have hs := nearestB_self n1 es1 a h1 ha x hx
  -- both `a` and the converted-back encoding are correct roundings of x: the relation has one solution
  obtain ⟨hv, hz, hi, hf, _, ht⟩ := decode_value n1 es1 a h1 ha h0 hnar
  rw [hx] at hv; injection hv with hv
  rw [hv, ht] at hr hs
  unfold tripleVal valS at hr hs
  have hfr : (0 : ℚ) ≤ ((decode n1 es1 a).frac : ℚ) / 2 ^ (decode n1 es1 a).fb := by positivity
  have hfr1 : ((decode n1 es1 a).frac : ℚ) / 2 ^ (decode n1 es1 a).fb < 1 := by
    rw [div_lt_one (by positivity)]; exact_mod_cast hf
  exact nearestB_unique n1 es1 h1 _ _ _ hfr hfr1 _ _ hback ha hr hs

end
