import UVerif.Model.Posit
theorem C15_placeholder : True := trivial
