/-
  C15 — conversions between configurations (posit clause): posit<n2,es2>(posit<n1,es1>) is
  decode (exact, C01 `decode_value`) followed by one `convert_` rounding (C01 `convert_correct`).
  Proved here: the special values survive every such conversion, for all configurations.
-/
import UVerif.Model.Posit
open UVerif UVerif.Posit

/-- NaR converts to NaR between any two posit configurations -/
theorem C15_posit_nar (n1 es1 n2 es2 : Nat) (h1 : 0 < n1) :
    Posit.convert n2 es2 (decode n1 es1 (2 ^ (n1 - 1))) = 2 ^ (n2 - 1) := by
  have hp : 0 < 2 ^ (n1 - 1) := Nat.two_pow_pos _
  have hlt : 2 ^ (n1 - 1) < 2 ^ n1 := Nat.pow_lt_pow_right (by decide) (by omega)
  unfold decode
  simp only [Nat.mod_eq_of_lt hlt]
  rw [if_neg (by omega)]
  simp only [if_true]
  unfold Posit.convert
  simp

/-- zero converts to zero between any two posit configurations -/
theorem C15_posit_zero (n1 es1 n2 es2 : Nat) :
    Posit.convert n2 es2 (decode n1 es1 0) = 0 := by
  unfold decode Posit.convert
  simp

example : Posit.convert 16 2 (decode 8 1 0x80) = 0x8000 := by decide
