/-
  C15 (cfloat → cfloat) — theorems about Model.ConvCfloat.cf2cf (the converting constructor, cfloat_impl.hpp:368-402):
  a composition of the C04 read-back theorem (`C04_cfloat_to_native`: double(rhs) is the exact value for es ≤ 11,
  fbits ≤ 52) and the C03 conversion theorem (`C03_cfloat_from_f64_normal_partial`: convert_ieee754<double> is the
  target's correct rounding for normal doubles landing in the target's normal range).
-/
import UVerif.Model.ConvCfloat
import UVerifProofs.Props.C03Cfloat
import UVerifProofs.Props.C04Cfloat
open UVerif UVerif.Cfloat UVerif.Generated

/-- the expectation of C15: as C03's, but a zero of either sign is accepted for a zero source (the property speaks about
    VALUES; the constructor writes +0 for every zero, see `C15_cfloat_negzero_sign_dropped`) -/
def C15_cfloat_expect (src : Val) : Expect :=
  match src with
  | .nan _ => .nan
  | .inf s => .inf s
  | .fin s x => if x = 0 then .zero none else .real (if s then -x else x)

/-- the full statement of C15 for cfloat: for every pair of valid configurations and every source encoding the result is
    the target's rounding of the exact source value (NaN ↦ NaN, ±inf ↦ ±inf, zero ↦ zero).
    FALSE of the pinned code (see the counterexamples below). -/
def C15_cfloat_to_cfloat_full : Prop :=
  ∀ (c1 c2 : Cfg) (a : Nat), c1.valid = true → c2.valid = true → a < 2 ^ c1.nbits →
    satisfies c2 (C15_cfloat_expect (cfVal c1 a)) (cf2cf c1 c2 a) = true

/-- same type: the copy constructor -/
theorem C15_cfloat_same_type (c : Cfg) (a : Nat) : cf2cf c c a = a := by
  unfold cf2cf; simp

/-- **composition theorem.** Distinct types, source with es ≤ 11 and at most 52 fraction bits (so that `double(rhs)` is
    exact), a finite non-zero source value that the double holds exactly (`hhold`, decidable), the double is a normal
    number (`hexp0`, `hexp1`) whose exponent is a normal exponent of the target at least two below its all-ones
    exponent (`hlo`, `hhi`), target with fewer than 52 fraction bits:
    the result is the target's correct rounding (IeeeNearest, ties to even) of the EXACT source value. -/
theorem C15_cfloat_to_cfloat (c1 c2 : Cfg) (hv1 : c1.valid = true) (hv2 : c2.valid = true) (hne : c1 ≠ c2) (a : Nat)
    (hes : c1.es ≤ 11) (hfb1 : c1.fbits ≤ 52)
    (hnan : isNan c1 a = false) (hinf : isInf c1 a = false) (hz : isZero c1 a = false)
    (hhold : ieeeVal 11 52 (ieeeEncode 11 52 (cfVal c1 a)) = cfVal c1 a)
    (hfb : c2.fbits < 52)
    (hexp0 : (ieeeEncode 11 52 (cfVal c1 a) >>> 52) % 2 ^ 11 ≠ 0)
    (hexp1 : (ieeeEncode 11 52 (cfVal c1 a) >>> 52) % 2 ^ 11 ≠ 2047)
    (hlo : c2.minExpNormal ≤ (((ieeeEncode 11 52 (cfVal c1 a) >>> 52) % 2 ^ 11 : Nat) : Int) - 1023)
    (hhi : (((ieeeEncode 11 52 (cfVal c1 a) >>> 52) % 2 ^ 11 : Nat) : Int) - 1023 + c2.bias + 1 < c2.emax) :
    satisfies c2 (C03_cfloat_expect (cfVal c1 a)) (cf2cf c1 c2 a) = true := by
  have h := C03_cfloat_from_f64_normal_partial c2 hv2 (ieeeEncode 11 52 (cfVal c1 a)) hfb hexp0 hexp1 hlo hhi
  rw [hhold] at h
  unfold cf2cf toDoubleBits
  simp only [hne, hnan, hinf, hz, if_false, Bool.false_eq_true, hes, hfb1, and_self, if_true]
  rw [C04_cfloat_to_native c1 hv1 hes a]
  exact h

/-- non-vacuity: half-precision 0.1 (0x2e66) into cfloat<8,4,sub>: every hypothesis holds, the result is inexact -/
example : let c1 : Cfg := { nbits := 16, es := 5, bt := 32, sub := true }
    let c2 : Cfg := { nbits := 8, es := 4, bt := 32, sub := true }
    c1.valid = true ∧ c2.valid = true ∧ c1 ≠ c2 ∧ c1.es ≤ 11 ∧ c1.fbits ≤ 52 ∧
    isNan c1 0x2e66 = false ∧ isInf c1 0x2e66 = false ∧ isZero c1 0x2e66 = false ∧
    ieeeVal 11 52 (ieeeEncode 11 52 (cfVal c1 0x2e66)) = cfVal c1 0x2e66 ∧ c2.fbits < 52 ∧
    (ieeeEncode 11 52 (cfVal c1 0x2e66) >>> 52) % 2 ^ 11 ≠ 0 ∧ (ieeeEncode 11 52 (cfVal c1 0x2e66) >>> 52) % 2 ^ 11 ≠ 2047 ∧
    c2.minExpNormal ≤ (((ieeeEncode 11 52 (cfVal c1 0x2e66) >>> 52) % 2 ^ 11 : Nat) : Int) - 1023 ∧
    (((ieeeEncode 11 52 (cfVal c1 0x2e66) >>> 52) % 2 ^ 11 : Nat) : Int) - 1023 + c2.bias + 1 < c2.emax ∧
    cf2cf c1 c2 0x2e66 = 0x1d := by
  decide +kernel

/-! ### special values, and the regions in which the full statement is false -/

/-- special sources: NaN ↦ NaN (signalling iff the source's sign bit is set), ±inf ↦ ±inf, every zero ↦ +0 -/
theorem C15_cfloat_specials (c1 c2 : Cfg) (hv2 : c2.valid = true) (hne : c1 ≠ c2) (a : Nat) :
    (isNan c1 a = true → cf2cf c1 c2 a = setNan c2 (c1.signOf a) ∧ satisfies c2 .nan (cf2cf c1 c2 a) = true) ∧
    (isNan c1 a = false → isInf c1 a = true →
        cf2cf c1 c2 a = setInf c2 (c1.signOf a) ∧ satisfies c2 (.inf (c1.signOf a)) (cf2cf c1 c2 a) = true) ∧
    (isNan c1 a = false → isInf c1 a = false → isZero c1 a = true →
        cf2cf c1 c2 a = 0 ∧ satisfies c2 (.zero none) (cf2cf c1 c2 a) = true ∧ satisfies c2 (.zero (some false)) (cf2cf c1 c2 a) = true) := by
  refine ⟨?_, ?_, ?_⟩
  · intro hn
    have e : cf2cf c1 c2 a = setNan c2 (c1.signOf a) := by unfold cf2cf; simp [hne, hn]
    refine ⟨e, ?_⟩
    rw [e]
    cases c1.signOf a
    · have hq := qnan_facts c2 hv2
      exact sat_nan c2 hv2 _ hq.1 (isNan_of_isNanEnc c2 hv2 _ hq.2.1)
    · have hs := snan_facts c2 hv2
      exact sat_nan c2 hv2 _ hs.1 (isNan_of_isNanEnc c2 hv2 _ hs.2.1)
  · intro hn hi
    have e : cf2cf c1 c2 a = setInf c2 (c1.signOf a) := by unfold cf2cf; simp [hne, hn, hi]
    refine ⟨e, ?_⟩
    rw [e]
    have sf := setInf_facts c2 hv2 (c1.signOf a)
    exact sat_inf c2 hv2 _ _ sf.1 sf.2.1 sf.2.2
  · intro hn hi hz
    have e : cf2cf c1 c2 a = 0 := by unfold cf2cf; simp [hne, hn, hi, hz]
    have s0 := signBit_facts c2 hv2 false
    have e0 : signBit c2 false = 0 := by unfold signBit; simp
    rw [e0] at s0
    have hz0 := isZero_of_isZeroEnc c2 hv2 _ s0.2.1
    refine ⟨e, ?_, ?_⟩
    · rw [e]; exact sat_zero_any c2 hv2 0 s0.1 hz0
    · rw [e]; exact sat_zero c2 hv2 0 false s0.1 hz0 s0.2.2

/-- the sign of a negative zero is dropped (`setzero()`): -0 ↦ +0. Value-wise the conversion is still exact; as an
    encoding it is not the identity. -/
theorem C15_cfloat_negzero_sign_dropped :
    let c1 : Cfg := { nbits := 8, es := 3, bt := 8, sub := true }
    let c2 : Cfg := { nbits := 16, es := 5, bt := 8, sub := true }
    cfVal c1 0x80 = .fin true 0 ∧ cf2cf c1 c2 0x80 = 0 ∧ cfVal c2 0 = .fin false 0 ∧
    satisfies c2 (C03_cfloat_expect (cfVal c1 0x80)) (cf2cf c1 c2 0x80) = false := by
  decide +kernel

/-- saturating + supernormal targets: an overflowing source value gives the encoding that reads back as infinity
    (witness `convcf 6 2 100 6 1 111 u8 c2c 17 => 1e`) -/
theorem C15_cfloat_sat_sup_counterexample :
    let c1 : Cfg := { nbits := 6, es := 2, bt := 8, sub := true }
    let c2 : Cfg := { nbits := 6, es := 1, bt := 8, sub := true, sup := true, sat := true }
    cfVal c1 0x17 = .fin false (15/4) ∧ cf2cf c1 c2 0x17 = 0x1e ∧ isInf c2 0x1e = true ∧
    satisfies c2 (.real (15/4)) 0x1e = false ∧ satisfies c2 (.real (15/4)) (ieeeRound c2 (15/4)) = true := by
  decide +kernel

theorem C15_cfloat_to_cfloat_full_false : ¬ C15_cfloat_to_cfloat_full := by
  intro h
  have := h { nbits := 6, es := 2, bt := 8, sub := true } { nbits := 6, es := 1, bt := 8, sub := true, sup := true, sat := true } 0x17
    (by decide) (by decide) (by decide)
  revert this
  decide +kernel

/-- a source wider than a double: cfloat<80,15> 1.5625 + 2^-53 + 2^-64 lies above the tie 1.5625 of cfloat<8,4,sub,sat>
    (nearest: 1.625 = 0x3d); inside to_native<double> the fraction sum drops 2^-64, 1 + f is then a tie in double and
    rounds to 1.5625, which is a tie of the target and rounds to even: 0x3c
    (witness `convcf 80 15 100 8 4 101 u32 c2c 3fff9000000000000801 => 3c`) -/
theorem C15_cfloat_wide_source_counterexample :
    let c1 : Cfg := { nbits := 80, es := 15, bt := 32, sub := true }
    let c2 : Cfg := { nbits := 8, es := 4, bt := 32, sub := true, sat := true }
    cf2cf c1 c2 0x3fff9000000000000801 = 0x3c ∧
    satisfies c2 (C03_cfloat_expect (cfVal c1 0x3fff9000000000000801)) 0x3c = false ∧
    satisfies c2 (C03_cfloat_expect (cfVal c1 0x3fff9000000000000801)) 0x3d = true := by
  decide +kernel

/-- es ≥ 12 sources after the repair "ipow() must not underflow to 0 …": 2^-1026 is a (subnormal) double and a value
    of cfloat<64,11>; ipow(-1026) is now exact and the former witness converts to 0x1000000000000 = 2^-1026
    (`convcf 80 15 100 64 11 100 u32 c2c 3bfd0000000000000000` gave 0), as does the smallest subnormal double 2^-1074 -/
theorem C15_cfloat_ipow_subnormal_cfg :
    let c1 : Cfg := { nbits := 80, es := 15, bt := 32, sub := true }
    let c2 : Cfg := { nbits := 64, es := 11, bt := 32, sub := true }
    cfVal c1 0x3bfd0000000000000000 = .fin false (pow2 (-1026)) ∧
    cf2cf c1 c2 0x3bfd0000000000000000 = 0x1000000000000 ∧ cfVal c2 0x1000000000000 = .fin false (pow2 (-1026)) ∧
    cf2cf c1 c2 0x3bcd0000000000000000 = 1 ∧ cfVal c2 1 = .fin false (pow2 (-1074)) := by
  decide +kernel
