/-
  C15 (cfloat → cfloat), identity and round trip: a source value that is a (normal) value of the target converts to exactly
  that value, and widening followed by narrowing returns the original value — corollaries of the composition theorem
  `C15_cfloat_to_cfloat` and of the uniqueness of the nearest value (`nearestNZ_of_representable_normal`).
-/
import UVerifProofs.Props.C15ConvCfloat
import UVerifProofs.Lemmas.CfloatIdentity
open UVerif UVerif.Cfloat UVerif.Generated

/-- **identity on representable values**: under the hypotheses of `C15_cfloat_to_cfloat`, if some normal encoding r0 of the
    target denotes the source value, the converted encoding denotes the source value -/
theorem C15_cfloat_identity (c1 c2 : Cfg) (hv1 : c1.valid = true) (hv2 : c2.valid = true) (hne : c1 ≠ c2) (a : Nat)
    (hes : c1.es ≤ 11) (hfb1 : c1.fbits ≤ 52)
    (hnan : isNan c1 a = false) (hinf : isInf c1 a = false) (hz : isZero c1 a = false)
    (hhold : ieeeVal 11 52 (ieeeEncode 11 52 (cfVal c1 a)) = cfVal c1 a)
    (hfb : c2.fbits < 52)
    (hexp0 : (ieeeEncode 11 52 (cfVal c1 a) >>> 52) % 2 ^ 11 ≠ 0)
    (hexp1 : (ieeeEncode 11 52 (cfVal c1 a) >>> 52) % 2 ^ 11 ≠ 2047)
    (hlo : c2.minExpNormal ≤ (((ieeeEncode 11 52 (cfVal c1 a) >>> 52) % 2 ^ 11 : Nat) : Int) - 1023)
    (hhi : (((ieeeEncode 11 52 (cfVal c1 a) >>> 52) % 2 ^ 11 : Nat) : Int) - 1023 + c2.bias + 1 < c2.emax)
    (r0 : Nat) (he1 : 1 ≤ c2.expOf r0) (he2 : c2.expOf r0 < c2.emax) (hr0 : cfVal c2 r0 = cfVal c1 a) :
    cfVal c2 (cf2cf c1 c2 a) = cfVal c1 a :=
  cf2cf_identity_of_representable c1 c2 hv1 hv2 hne a hes hfb1 hnan hinf hz hhold hfb hexp0 hexp1 hlo hhi r0 he1 he2 hr0

/-- **widening followed by narrowing returns the original value**: the hypotheses of the identity theorem for the way
    there, and for the way back es ≤ 11 of the wide type, fewer than 52 fraction bits of the narrow type, the source a normal
    encoding whose exponent is a normal exponent of its own type two below the all-ones exponent -/
theorem C15_cfloat_widen_narrow (c1 c2 : Cfg) (hv1 : c1.valid = true) (hv2 : c2.valid = true) (hne : c1 ≠ c2) (a : Nat)
    (hes : c1.es ≤ 11) (hfb1 : c1.fbits ≤ 52)
    (hnan : isNan c1 a = false) (hinf : isInf c1 a = false) (hz : isZero c1 a = false)
    (hhold : ieeeVal 11 52 (ieeeEncode 11 52 (cfVal c1 a)) = cfVal c1 a)
    (hfb : c2.fbits < 52)
    (hexp0 : (ieeeEncode 11 52 (cfVal c1 a) >>> 52) % 2 ^ 11 ≠ 0)
    (hexp1 : (ieeeEncode 11 52 (cfVal c1 a) >>> 52) % 2 ^ 11 ≠ 2047)
    (hlo : c2.minExpNormal ≤ (((ieeeEncode 11 52 (cfVal c1 a) >>> 52) % 2 ^ 11 : Nat) : Int) - 1023)
    (hhi : (((ieeeEncode 11 52 (cfVal c1 a) >>> 52) % 2 ^ 11 : Nat) : Int) - 1023 + c2.bias + 1 < c2.emax)
    (r0 : Nat) (he1 : 1 ≤ c2.expOf r0) (he2 : c2.expOf r0 < c2.emax) (hr0 : cfVal c2 r0 = cfVal c1 a)
    (hes' : c2.es ≤ 11) (hfb' : c1.fbits < 52)
    (hlo' : c1.minExpNormal ≤ (((ieeeEncode 11 52 (cfVal c1 a) >>> 52) % 2 ^ 11 : Nat) : Int) - 1023)
    (hhi' : (((ieeeEncode 11 52 (cfVal c1 a) >>> 52) % 2 ^ 11 : Nat) : Int) - 1023 + c1.bias + 1 < c1.emax)
    (ha1 : 1 ≤ c1.expOf a) (ha2 : c1.expOf a < c1.emax) :
    cfVal c1 (cf2cf c2 c1 (cf2cf c1 c2 a)) = cfVal c1 a :=
  cf2cf_widen_narrow c1 c2 hv1 hv2 hne a hes hfb1 hnan hinf hz hhold hfb hexp0 hexp1 hlo hhi r0 he1 he2 hr0 hes' hfb' hlo' hhi' ha1 ha2

/-- the full widen-then-narrow statement (every pair in which the target holds every source value); FALSE of the pinned code
    for es = 11 pairs whose values reach binary64's subnormal range (`cfloat.from_ieee.subnormal_source`) -/
def C15_cfloat_widen_narrow_full : Prop :=
  ∀ (c1 c2 : Cfg) (a : Nat), c1.valid = true → c2.valid = true → a < 2 ^ c1.nbits →
    (∃ r < 2 ^ c2.nbits, cfVal c2 r = cfVal c1 a) →          -- the target holds the source value ("widening" for this value)
    (cfVal c1 a).isNan = false → (cfVal c1 a).isZero = false →
    cfVal c1 (cf2cf c2 c1 (cf2cf c1 c2 a)) = cfVal c1 a

/-- a subnormal value of cfloat<64,11> held by cfloat<72,11,sub,sup>: the conversion into cfloat<64,11> is exact, the way back
    goes through a subnormal double and the unimplemented branch of convert_ieee754 returns +0
    (witness `convcf 72 11 110 64 11 100 u32 rt 800c9129d980000000 => 800c9129d9800000 0`) -/
theorem C15_cfloat_widen_narrow_counterexample :
    let c1 : Cfg := { nbits := 72, es := 11, bt := 32, sub := true, sup := true }
    let c2 : Cfg := { nbits := 64, es := 11, bt := 32, sub := true }
    cf2cf c1 c2 0x800c9129d980000000 = 0x800c9129d9800000 ∧
    cfVal c2 0x800c9129d9800000 = cfVal c1 0x800c9129d980000000 ∧
    cf2cf c2 c1 0x800c9129d9800000 = 0 := by
  decide +kernel

/-- the round trip on a whole small pair (finite lemma, regression anchor): cfloat<6,2,sub> → cfloat<8,3,sub,sup> → back -/
theorem C15_cfloat_widen_narrow_cfg_6_2_8_3 :
    ∀ a : Fin 64, let c1 : Cfg := { nbits := 6, es := 2, bt := 8, sub := true }
      let c2 : Cfg := { nbits := 8, es := 3, bt := 8, sub := true, sup := true }
      (cfVal c1 a.val).isNan = true ∨ cfVal c1 (cf2cf c2 c1 (cf2cf c1 c2 a.val)) = cfVal c1 a.val ∨ (cfVal c1 a.val).isZero = true := by
  decide +kernel
