/-
  Property C15, fixpnt clause — `fixpnt<n2,r2> = fixpnt<n1,r1>` "yields the target value nearest to the source value".

  The theorems are about the limb-list model `UVerif.ConvFixpnt.resize w n1 r1 n2 r2 sat src prev` (lean/UVerif/Model/ConvFixpnt.lean,
  transcribed from the size adapter fixpnt_impl.hpp:172-230 on top of the blockbinary model of lean/UVerif/Model/Limbs.lean) and hold
  for EVERY pair of sizes, EVERY limb width `w` allowed by blockbinary's static_assert (`C15_fixpnt_Supported`).  Right-hand sides
  are the executable specification `UVerif.ConvFixpntSpec.resize n1 r1 n2 r2 sat p`: round-half-even of value·2^r2, then
  wrap (sat = false, Modulo) or clamp (sat = true, Saturate).

  The adapter was repaired by four commits (D12 and its neighbours):
    * "fix: fixpnt size adapter must align the radix point when the target is at least as wide (rounding code was disabled, no upshift)",
    * "fix: fixpnt size adapter assigned nothing when narrowing to at least as many fraction bits",
    * "fix: fixpnt size adapter dropping every source bit turned small negative values into +1 ulp (>>= by the full width loses the sign)",
    * "fix: fixpnt size adapter never saturated: a Saturate target wrapped values that do not fit",
  and the full property `C15_fixpnt_resize_full` is now a THEOREM (it was a `def … : Prop` with a proved negation): for every pair of
  configurations and both arithmetic modes the adapter returns the specified encoding.  The former counterexample theorems
  (`…_D12_counterexample`, `…_widen_rawcopy_…`, `…_narrow_noop_…`, `…_narrow_fullshift_…`, `…_saturate_wraps_…`) are restated as
  the positive statements at the same witnesses (`…_witness`).
-/
import UVerifProofs.Lemmas.ConvFixpntResize

open UVerif UVerif.Limbs UVerif.ConvFixpnt

/-- limb widths covered for a blockbinary of `m` bits: every width, `uint64_t` only when `m` bits fit one block -/
def C15_fixpnt_Supported (w m : Nat) : Prop := 0 < w ∧ Fixpnt.Ok w m

example : C15_fixpnt_Supported 8 40 := ⟨by decide, Or.inl (by decide)⟩
example : C15_fixpnt_Supported 64 64 := ⟨by decide, Or.inr (by decide)⟩

/-- the widest blockbinary the adapter instantiates besides source and target: `rawbb` of the rounding branch (src_nbits, one bit
    more when every source bit is dropped) and the comparison width src_nbits + max(rbits − src_rbits, 0) of the Saturate branch -/
def C15_fixpnt_width (n1 r1 r2 : Nat) : Nat := wideWidth n1 r1 r2

example : C15_fixpnt_width 12 6 2 = 12 ∧ C15_fixpnt_width 8 8 0 = 9 ∧ C15_fixpnt_width 4 1 4 = 7 := by decide

variable {w n1 n2 r r1 r2 : Nat} {src : List Nat}

/-- THE FULL PROPERTY (was `def C15_fixpnt_resize_full : Prop` with `C15_fixpnt_resize_D12_counterexample : ¬ …`): for every pair of
    configurations, every supported limb width and BOTH arithmetic modes the adapter returns a canonical encoding, the specified one:
    the source value rounded to the nearest multiple of 2^-r2 (ties to even), wrapped (Modulo) or clamped (Saturate). -/
theorem C15_fixpnt_resize_full :
    ∀ (w n1 r1 n2 r2 : Nat) (sat : Bool) (src prev : List Nat),
      C15_fixpnt_Supported w (C15_fixpnt_width n1 r1 r2) → 0 < n1 → 0 < n2 → r1 ≤ n1 → r2 ≤ n2 → Canon w n1 src → Canon w n2 prev →
      Canon w n2 (resize w n1 r1 n2 r2 sat src prev) ∧
      toNat w (resize w n1 r1 n2 r2 sat src prev) = ConvFixpntSpec.resize n1 r1 n2 r2 sat (toNat w src) := by
  intro w n1 r1 n2 r2 sat src prev h hn1 hn2 hr1 _ hs _
  exact resize_spec h.1 hn1 hn2 (by omega) h.2 sat hs prev

-- the hypotheses are satisfiable on every kind of pair: widening with more fraction bits, narrowing with as many, all bits dropped
example : C15_fixpnt_Supported 8 (C15_fixpnt_width 4 1 4) ∧ Canon 8 4 [0x3] ∧ Canon 8 8 [0xff] := ⟨⟨by decide, Or.inl (by decide)⟩, by decide, by decide⟩
example : C15_fixpnt_Supported 16 (C15_fixpnt_width 16 16 0) ∧ Canon 16 16 [0xe000] ∧ Canon 16 5 [0x1f] := ⟨⟨by decide, Or.inl (by decide)⟩, by decide, by decide⟩

/-- the target's previous content is never read (it survived the narrowing no-op of the unrepaired adapter) -/
theorem C15_fixpnt_resize_prev_irrelevant (sat : Bool) (prev prev' : List Nat) :
    resize w n1 r1 n2 r2 sat src prev = resize w n1 r1 n2 r2 sat src prev' := rfl

/-- widening, same rbits: `_block = a.bits()` sign-extends, the explicit sign-extension loop repeats it.  The result is canonical
    and is the specified encoding in BOTH arithmetic modes (the value is in range, so wrap = clamp = identity).
    No limb-width guard and no bound on `r` are needed. -/
theorem C15_fixpnt_resize_widen_same_rbits (hw : 0 < w) (hn1 : 0 < n1) (hle : n1 ≤ n2) (hs : Canon w n1 src) (sat : Bool)
    (prev : List Nat) :
    Canon w n2 (resize w n1 r n2 r sat src prev) ∧
    toNat w (resize w n1 r n2 r sat src prev) = ConvFixpntSpec.resize n1 r n2 r sat (toNat w src) := by
  have e : resize w n1 r n2 r sat src prev = resizeM w n1 r n2 r src := by
    unfold resize
    simp only
    rw [if_neg (by simp; omega)]
  obtain ⟨hc, hv⟩ := resize_up_spec (r1 := r) (r2 := r) hw hn1 (by omega : 0 < n2) (le_refl r) hs
  rw [e]
  refine ⟨hc, ?_⟩
  rw [hv, spec_widen_same r hn1 hle, Nat.sub_self, Nat.pow_zero, Nat.cast_one, mul_one]

-- fixpnt<12,4,·,uint8_t> −1.5 (0xfe8) → fixpnt<20,4,·,uint8_t>: 0xfffe8, three limbs
example : Canon 8 12 [0xe8, 0x0f] ∧ resize 8 12 4 20 4 true [0xe8, 0x0f] [0, 0, 0] = [0xe8, 0xff, 0x0f] := by decide

/-- a widening that has room for the additional fraction bits (n1 + (r2 − r1) ≤ n2, r1 ≤ r2) keeps the VALUE, in both modes:
    this was false of the unrepaired adapter for every r2 ≠ r1 (D12: 1.5 became 0.1875) -/
theorem C15_fixpnt_resize_widen_value (hw : 0 < w) (hn1 : 0 < n1) (hr : r1 ≤ r2) (hle : n1 + (r2 - r1) ≤ n2) (hs : Canon w n1 src)
    (sat : Bool) (prev : List Nat) :
    ConvFixpntSpec.value n2 r2 (toNat w (resize w n1 r1 n2 r2 sat src prev)) = ConvFixpntSpec.value n1 r1 (toNat w src) := by
  have hn2 : 0 < n2 := by omega
  have e : resize w n1 r1 n2 r2 sat src prev = resizeM w n1 r1 n2 r2 src := by
    unfold resize
    simp only
    rw [if_neg (by simp; omega)]
  rw [e, (resize_up_spec hw hn1 hn2 hr hs).2]
  obtain ⟨z1, z2⟩ := aligned_fits hn1 (show r1 - r2 ≤ n1 by omega) (toNat w src)
  have ea : alignedZ n1 r1 r2 (toNat w src) = toSigned n1 (toNat w src) * ((2 ^ (r2 - r1) : Nat) : Int) := by
    unfold alignedZ; simp only; rw [if_pos hr]
  rw [ea] at z1 z2
  have := BB.M2_mono (show n1 + (r2 - r1) - 1 ≤ n2 - 1 by omega)
  unfold ConvFixpntSpec.value
  rw [toSigned_ofSigned_fits hn2 (by omega) (by omega)]
  have e2 : (2 : Rat) ^ r2 = 2 ^ (r2 - r1) * 2 ^ r1 := by rw [← pow_add]; congr 1; omega
  have h2 : (2 : Rat) ^ r1 ≠ 0 := pow_ne_zero _ (by norm_num)
  have h3 : (2 : Rat) ^ (r2 - r1) ≠ 0 := pow_ne_zero _ (by norm_num)
  push_cast
  rw [e2]
  field_simp

/-- … in particular with the same rbits -/
theorem C15_fixpnt_resize_widen_same_rbits_value (hw : 0 < w) (hn1 : 0 < n1) (hle : n1 ≤ n2) (hs : Canon w n1 src) (sat : Bool)
    (prev : List Nat) :
    ConvFixpntSpec.value n2 r (toNat w (resize w n1 r n2 r sat src prev)) = ConvFixpntSpec.value n1 r (toNat w src) :=
  C15_fixpnt_resize_widen_value hw hn1 (le_refl r) (by omega) hs sat prev

example : ConvFixpntSpec.value 20 4 (toNat 8 (resize 8 12 4 20 4 false [0xe8, 0x0f] [0, 0, 0])) = ConvFixpntSpec.value 12 4 0xfe8 :=
  C15_fixpnt_resize_widen_same_rbits_value (by decide) (by decide) (by decide) (by decide) _ _

-- D12's witness: fixpnt<4,1> 1.5 → fixpnt<8,4> keeps 1.5
example : ConvFixpntSpec.value 8 4 (toNat 8 (resize 8 4 1 8 4 false [0x3] [0xff])) = ConvFixpntSpec.value 4 1 0x3 :=
  C15_fixpnt_resize_widen_value (by decide) (by decide) (by decide) (by decide) (by decide) _ _

/-- C15 "widening followed by narrowing back returns the original value": convert to any configuration with at least as many
    fraction bits and room for them, convert back — the original encoding, limb for limb, in both modes, whatever the two targets
    held before.  (`C15_fixpnt_Supported w n2`: the way back rounds in a block of n2 bits.) -/
theorem C15_fixpnt_widen_narrow_roundtrip (h : C15_fixpnt_Supported w n2) (hn1 : 0 < n1) (hr : r1 ≤ r2) (hr2 : r2 ≤ n2)
    (hle : n1 + (r2 - r1) ≤ n2) (hs : Canon w n1 src) (sat : Bool) (prev prev' : List Nat) :
    resize w n2 r2 n1 r1 sat (resize w n1 r1 n2 r2 sat src prev) prev' = src := by
  have hw := h.1
  have hn2 : 0 < n2 := by omega
  have hwide : wideWidth n2 r2 r1 = n2 := by
    unfold wideWidth rawWidth
    rw [if_neg (by omega)]
    omega
  have hup : wideWidth n1 r1 r2 = n1 + (r2 - r1) := by
    unfold wideWidth rawWidth
    rw [if_neg (by omega)]
    omega
  -- the way up is exact …
  have e : resize w n1 r1 n2 r2 sat src prev = resizeM w n1 r1 n2 r2 src := by
    unfold resize
    simp only
    rw [if_neg (by simp; omega)]
  obtain ⟨c1, v1⟩ := resize_up_spec hw hn1 hn2 hr hs
  rw [← e] at c1 v1
  obtain ⟨z1, z2⟩ := aligned_fits hn1 (show r1 - r2 ≤ n1 by omega) (toNat w src)
  have ea : alignedZ n1 r1 r2 (toNat w src) = toSigned n1 (toNat w src) * ((2 ^ (r2 - r1) : Nat) : Int) := by
    unfold alignedZ; simp only; rw [if_pos hr]
  rw [ea] at z1 z2
  have hmono := BB.M2_mono (show n1 + (r2 - r1) - 1 ≤ n2 - 1 by omega)
  have hX : toSigned n2 (toNat w (resize w n1 r1 n2 r2 sat src prev)) = toSigned n1 (toNat w src) * ((2 ^ (r2 - r1) : Nat) : Int) := by
    rw [v1]; exact toSigned_ofSigned_fits hn2 (by omega) (by omega)
  -- … and the way back divides it out again
  obtain ⟨c2, v2⟩ := resize_spec (n1 := n2) (r1 := r2) (n2 := n1) (r2 := r1) hw hn2 hn1 (by omega) (by rw [hwide]; exact h.2) sat c1 prev'
  apply toNat_inj c2.2.1 hs.2.1 (by rw [c2.1, hs.1])
  rw [v2, spec_eq_aligned]
  have hD : (0 : Int) < ((2 ^ (r2 - r1) : Nat) : Int) := by exact_mod_cast Nat.two_pow_pos _
  have hal : alignedZ n2 r2 r1 (toNat w (resize w n1 r1 n2 r2 sat src prev)) = toSigned n1 (toNat w src) := by
    unfold alignedZ
    simp only
    rw [hX]
    by_cases heq : r2 ≤ r1
    · rw [if_pos heq, show r2 - r1 = 0 by omega, show r1 - r2 = 0 by omega]
      simp
    · rw [if_neg heq, Int.mul_ediv_cancel _ (ne_of_gt hD), Int.mul_emod_left]
      unfold rneInc
      rw [if_neg (by omega)]
      simp
  rw [hal]
  obtain ⟨x1, x2⟩ := toSigned_range hn1 (toNat w src)
  unfold FixpntSpec.finish
  cases sat
  · simp only [Bool.false_eq_true, if_false]
    exact ofSigned_toSigned_of_lt hs.2.2
  · simp only [if_true]
    rw [clamp_of_range x1 x2]
    exact ofSigned_toSigned_of_lt hs.2.2

-- fixpnt<12,4,Saturate,uint8_t> −1.5 → fixpnt<24,10,Saturate,uint8_t> → back
example : resize 8 24 10 12 4 true (resize 8 12 4 24 10 true [0xe8, 0x0f] [0, 0, 0]) [0xff, 0x0f] = [0xe8, 0x0f] :=
  C15_fixpnt_widen_narrow_roundtrip ⟨by decide, Or.inl (by decide)⟩ (by decide) (by decide) (by decide) (by decide) (by decide) _ _ _

/-- narrowing with fewer fraction bits, Modulo (unchanged statement, it held of the unrepaired adapter): `roundingMode(r1−r2)` on
    the two's-complement pattern, arithmetic `>>= (r1−r2)`, `++` when rounding up, narrowing `assign`: the source value rounded to the
    nearest multiple of 2^-r2 with ties to even, then wrapped into n2 bits.  (With r1 − r2 < n1 the repaired code still rounds in a
    block of n1 bits; r1 − r2 = n1 is covered by `C15_fixpnt_resize_full`.) -/
theorem C15_fixpnt_resize_narrow_modulo (h : C15_fixpnt_Supported w n1) (hn2 : 0 < n2) (hlt : n2 < n1) (hr : r2 < r1)
    (hd : r1 - r2 < n1) (hs : Canon w n1 src) (prev : List Nat) :
    Canon w n2 (resize w n1 r1 n2 r2 false src prev) ∧
    toNat w (resize w n1 r1 n2 r2 false src prev) = ConvFixpntSpec.resize n1 r1 n2 r2 false (toNat w src) := by
  have hwide : wideWidth n1 r1 r2 = n1 := by
    unfold wideWidth rawWidth
    rw [if_neg (by omega)]
    omega
  exact resize_spec h.1 (by omega) hn2 (by omega) (by rw [hwide]; exact h.2) false hs prev

-- fixpnt<12,6,Modulo,uint8_t> → fixpnt<7,2,Modulo,uint8_t>:
--   0x068 = 1.625 is a tie between 1.5 (raw 6) and 1.75 (raw 7) → even: 6;  0x078 = 1.875 a tie between 7 and 8 → 8
--   0xf98 = −1.625 → −6 = 0x7a;  0x7ff = 31.98… rounds to raw 128 which wraps to 0
example : C15_fixpnt_Supported 8 12 ∧ Canon 8 12 [0x68, 0x00] ∧ (6 : Nat) - 2 < 12 := ⟨⟨by decide, Or.inl (by decide)⟩, by decide, by decide⟩
example : resize 8 12 6 7 2 false [0x68, 0x00] [0] = [0x06] := by decide
example : resize 8 12 6 7 2 false [0x78, 0x00] [0] = [0x08] := by decide
example : resize 8 12 6 7 2 false [0x98, 0x0f] [0] = [0x7a] := by decide
example : resize 8 12 6 7 2 false [0xff, 0x07] [0] = [0x00] := by decide
-- … and a Saturate target clamps 31.98… to maxpos 0x3f, −32 to maxneg 0x40
example : resize 8 12 6 7 2 true [0xff, 0x07] [0] = [0x3f] := by decide
example : resize 8 12 6 7 2 true [0x00, 0x08] [0] = [0x40] := by decide

/-- Saturate narrowing (was `…_narrow_saturate_partial`, restricted to sources whose rounded value fits the target): the source
    value rounded to the nearest multiple of 2^-r2, ties to even, then CLAMPED to [maxneg, maxpos] — every source -/
theorem C15_fixpnt_resize_narrow_saturate (h : C15_fixpnt_Supported w n1) (hn2 : 0 < n2) (hlt : n2 < n1) (hr : r2 < r1)
    (hd : r1 - r2 < n1) (hs : Canon w n1 src) (prev : List Nat) :
    Canon w n2 (resize w n1 r1 n2 r2 true src prev) ∧
    toNat w (resize w n1 r1 n2 r2 true src prev) = ConvFixpntSpec.resize n1 r1 n2 r2 true (toNat w src) := by
  have hwide : wideWidth n1 r1 r2 = n1 := by
    unfold wideWidth rawWidth
    rw [if_neg (by omega)]
    omega
  exact resize_spec h.1 (by omega) hn2 (by omega) (by rw [hwide]; exact h.2) true hs prev

example : C15_fixpnt_Supported 8 8 ∧ Canon 8 8 [0x7f] ∧ (4 : Nat) - 2 < 8 := ⟨⟨by decide, Or.inl (by decide)⟩, by decide, by decide⟩

/-! ### the former counterexamples, now positive: the repaired adapter returns the specified encoding at the recorded witnesses -/

/-- D12's witness (was `C15_fixpnt_resize_D12_counterexample` / `…_widen_rawcopy_counterexample`): fixpnt<4,1> 0x3 (= 1.5) →
    fixpnt<8,4> on uint8_t is 0x18 (= 1.5) in both modes; the unrepaired adapter copied the raw bits (0x03 = 0.1875) -/
theorem C15_fixpnt_resize_D12_witness :
    resize 8 4 1 8 4 false [0x3] [0x0] = [0x18] ∧ resizeZ 4 1 8 4 false 0x3 = 0x18 ∧
    resize 8 4 1 8 4 true [0x3] [0x0] = [0x18] ∧ resizeZ 4 1 8 4 true 0x3 = 0x18 := by decide

/-- widening to FEWER fraction bits (the code that sat inside `#ifdef TODO`): fixpnt<6,3> 0x0d (= 1.625) → fixpnt<8,2>: a tie between
    raw 6 and 7 → 6;  0x33 (= −1.625) → raw −6 = 0xfa -/
theorem C15_fixpnt_resize_widen_round_witness :
    resize 8 6 3 8 2 false [0x0d] [0x0] = [0x06] ∧ resizeZ 6 3 8 2 false 0x0d = 0x06 ∧
    resize 8 6 3 8 2 false [0x33] [0x0] = [0xfa] ∧ resizeZ 6 3 8 2 false 0x33 = 0xfa := by decide

/-- narrowing to at least as many fraction bits (was `…_narrow_noop_counterexample`; the unrepaired adapter assigned nothing and the
    target kept 0x5): fixpnt<8,4> 0x18 (= 1.5) → fixpnt<4,4> is 1.5·2^4 = 24 wrapped into 4 bits (0x8), → fixpnt<4,6> is 96 wrapped (0x0);
    a Saturate target holds maxpos 0x7 -/
theorem C15_fixpnt_resize_narrow_noop_witness :
    resize 8 8 4 4 4 false [0x18] [0x5] = [0x8] ∧ resizeZ 8 4 4 4 false 0x18 = 0x8 ∧
    resize 8 8 4 4 6 false [0x18] [0x5] = [0x0] ∧ resizeZ 8 4 4 6 false 0x18 = 0x0 ∧
    resize 8 8 4 4 4 true [0x18] [0x5] = [0x7] ∧ resizeZ 8 4 4 4 true 0x18 = 0x7 := by decide

/-- narrowing by the full width (was `…_narrow_fullshift_counterexample`, result +1): fixpnt<8,8> 0xE0 (= −0.125) → fixpnt<4,0> is 0;
    the rounding runs in a 9-bit block, `>>= 8` keeps the sign (−1), `roundingMode(8)` reads the sign-extension bit as lsb and rounds
    up: −1 + 1 = 0.  0x80 (= −0.5, the tie) → 0 as well; two limbs on uint8_t. -/
theorem C15_fixpnt_resize_narrow_fullshift_witness :
    resize 8 8 8 4 0 false [0xE0] [0x0] = [0x0] ∧ resizeZ 8 8 4 0 false 0xE0 = 0x0 ∧ resizeZ 8 8 4 0 true 0xE0 = 0x0 ∧
    resize 8 8 8 4 0 false [0x80] [0x0] = [0x0] ∧ resizeZ 8 8 4 0 false 0x80 = 0x0 ∧
    resize 8 8 8 16 0 true [0xE0] [0x0, 0x0] = [0x0, 0x0] := by decide

/-- … for EVERY source: a value whose bits are all fraction bits lies in [−1/2, 1/2) and rounds (ties to even) to 0 -/
theorem C15_fixpnt_resize_fullshift_zero (h : C15_fixpnt_Supported w (n1 + 1)) (hn1 : 0 < n1) (hn2 : 0 < n2) (hs : Canon w n1 src)
    (sat : Bool) (prev : List Nat) :
    toNat w (resize w n1 n1 n2 0 sat src prev) = 0 := by
  have hwide : wideWidth n1 n1 0 = n1 + 1 := by
    unfold wideWidth rawWidth
    rw [if_pos (by omega)]
    omega
  rw [(resize_spec h.1 hn1 hn2 (by omega) (by rw [hwide]; exact h.2) sat hs prev).2, spec_eq_aligned]
  have hz : alignedZ n1 n1 0 (toNat w src) = 0 := by
    unfold alignedZ
    simp only
    rw [if_neg (by omega)]
    obtain ⟨x1, x2⟩ := toSigned_range hn1 (toNat w src)
    have hD : (0 : Int) < ((2 ^ (n1 - 0) : Nat) : Int) := by exact_mod_cast Nat.two_pow_pos _
    have hDM : ((2 ^ (n1 - 0) : Nat) : Int) = 2 * M2 (n1 - 1) := by
      rw [Nat.sub_zero]
      have := M2_succ (n1 - 1); rwa [Nat.sub_add_cancel hn1] at this
    exact rne_drop_all hD (by omega) (by omega)
  rw [hz]
  unfold FixpntSpec.finish FixpntSpec.clamp FixpntSpec.maxposZ FixpntSpec.maxnegZ
  have hp : (0 : Int) < ((2 ^ (n2 - 1) : Nat) : Int) := by exact_mod_cast Nat.two_pow_pos _
  cases sat
  · simp [ofSigned]
  · simp only [if_true]
    rw [if_neg (by omega), if_neg (by omega)]
    simp [ofSigned]

example : C15_fixpnt_Supported 32 (32 + 1) ∧ Canon 32 32 [0xe0000000] := ⟨⟨by decide, Or.inl (by decide)⟩, by decide⟩

/-- a Saturate target clamps (was `…_saturate_wraps_counterexample`, result 0x20 = maxneg): fixpnt<8,4> 0x7f (= 7.9375) →
    fixpnt<6,2,Saturate> is maxpos 0x1f (7.75), 0x80 (= −8) → maxneg 0x20; Modulo still wraps the rounded raw integer 32 to 0x20 -/
theorem C15_fixpnt_resize_saturate_witness :
    resize 8 8 4 6 2 true [0x7f] [0x0] = [0x1f] ∧ resizeZ 8 4 6 2 true 0x7f = 0x1f ∧
    resize 8 8 4 6 2 true [0x80] [0x0] = [0x20] ∧ resizeZ 8 4 6 2 true 0x80 = 0x20 ∧
    resize 8 8 4 6 2 false [0x7f] [0x0] = [0x20] ∧ resizeZ 8 4 6 2 false 0x7f = 0x20 := by decide

/-- `resizeZ` in the witnesses above IS the specification (`ConvFixpntSpec.resize`, stated on Rat) -/
theorem C15_fixpnt_resize_spec_int (n1 r1 n2 r2 : Nat) (sat : Bool) (p : Nat) :
    ConvFixpntSpec.resize n1 r1 n2 r2 sat p = resizeZ n1 r1 n2 r2 sat p := spec_resize_eq n1 r1 n2 r2 sat p
