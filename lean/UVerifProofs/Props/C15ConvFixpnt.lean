/-
  Property C15, fixpnt clause — `fixpnt<n2,r2> = fixpnt<n1,r1>` "yields the target value nearest to the source value".

  The theorems are about the limb-list model `UVerif.ConvFixpnt.resize w n1 r1 n2 r2 src prev` (lean/UVerif/Model/ConvFixpnt.lean,
  transcribed from the size adapter fixpnt_impl.hpp:172-211 on top of the blockbinary model of lean/UVerif/Model/Limbs.lean) and hold
  for EVERY pair of sizes, EVERY limb width `w` allowed by blockbinary's static_assert (`C15_fixpnt_Supported`).  Right-hand sides
  are the executable specification `UVerif.ConvFixpntSpec.resize n1 r1 n2 r2 sat p`: round-half-even of value·2^r2, then
  wrap (sat = false, Modulo) or clamp (sat = true, Saturate).

  What holds of the pinned code:
    * widening with the SAME number of fraction bits is sign extension: the value is preserved (both modes);
    * narrowing (n2 < n1) with FEWER fraction bits (r2 < r1, r1 − r2 < n1) is correctly rounded, ties to even, then WRAPPED.
  What does not (D12 and neighbours, counterexample theorems below):
    * widening with more fraction bits copies the raw bits (the radix point moves: 1.5 becomes 0.1875);
    * narrowing to at least as many fraction bits does nothing at all (the target keeps its previous content);
    * narrowing with r1 − r2 = n1 shifts by the full width (`>>=` returns 0 for every value) and then increments;
    * a Saturate target never clamps.
-/
import UVerifProofs.Lemmas.ConvFixpntResize

open UVerif UVerif.Limbs UVerif.ConvFixpnt

/-- limb widths covered for a source of `m` bits: every width, `uint64_t` only when `m` bits fit one block -/
def C15_fixpnt_Supported (w m : Nat) : Prop := 0 < w ∧ Fixpnt.Ok w m

example : C15_fixpnt_Supported 8 40 := ⟨by decide, Or.inl (by decide)⟩
example : C15_fixpnt_Supported 64 64 := ⟨by decide, Or.inr (by decide)⟩

variable {w n1 n2 r r1 r2 : Nat} {src : List Nat}

/-- widening, same rbits: `_block = a.bits()` sign-extends, the explicit sign-extension loop repeats it.  The result is canonical
    and is the specified encoding in BOTH arithmetic modes (the value is in range, so wrap = clamp = identity).
    No limb-width guard and no bound on `r` are needed. -/
theorem C15_fixpnt_resize_widen_same_rbits (hw : 0 < w) (hn1 : 0 < n1) (hle : n1 ≤ n2) (hs : Canon w n1 src) (sat : Bool)
    (prev : List Nat) :
    Canon w n2 (resize w n1 r n2 r src prev) ∧
    toNat w (resize w n1 r n2 r src prev) = ConvFixpntSpec.resize n1 r n2 r sat (toNat w src) := by
  obtain ⟨hc, hv⟩ := resize_widen_spec r hw hn1 hle hs prev
  exact ⟨hc, by rw [hv, spec_widen_same r hn1 hle]⟩

-- fixpnt<12,4,·,uint8_t> −1.5 (0xfe8) → fixpnt<20,4,·,uint8_t>: 0xfffe8, three limbs
example : Canon 8 12 [0xe8, 0x0f] ∧ resize 8 12 4 20 4 [0xe8, 0x0f] [0, 0, 0] = [0xe8, 0xff, 0x0f] := by decide

/-- … and therefore the VALUE is preserved by a widening with the same rbits -/
theorem C15_fixpnt_resize_widen_same_rbits_value (hw : 0 < w) (hn1 : 0 < n1) (hle : n1 ≤ n2) (hs : Canon w n1 src)
    (prev : List Nat) :
    ConvFixpntSpec.value n2 r (toNat w (resize w n1 r n2 r src prev)) = ConvFixpntSpec.value n1 r (toNat w src) := by
  rw [(resize_widen_spec r hw hn1 hle hs prev).2]
  unfold ConvFixpntSpec.value
  obtain ⟨h1, h2⟩ := toSigned_range hn1 (toNat w src)
  have := BB.M2_mono (show n1 - 1 ≤ n2 - 1 by omega)
  rw [toSigned_ofSigned_fits (by omega) (by omega) (by omega)]

example : ConvFixpntSpec.value 20 4 (toNat 8 (resize 8 12 4 20 4 [0xe8, 0x0f] [0, 0, 0])) = ConvFixpntSpec.value 12 4 0xfe8 :=
  C15_fixpnt_resize_widen_same_rbits_value (by decide) (by decide) (by decide) (by decide) _

/-- narrowing with fewer fraction bits, Modulo: `roundingMode(r1−r2)` on the two's-complement pattern, arithmetic `>>= (r1−r2)`,
    `++` when rounding up, narrowing `assign`: the source value rounded to the nearest multiple of 2^-r2 with ties to even, then
    wrapped into n2 bits.  `r1 − r2 < n1` excludes the full-width shift (see `C15_fixpnt_resize_narrow_fullshift_counterexample`). -/
theorem C15_fixpnt_resize_narrow_modulo (h : C15_fixpnt_Supported w n1) (hn2 : 0 < n2) (hlt : n2 < n1) (hr : r2 < r1)
    (hd : r1 - r2 < n1) (hs : Canon w n1 src) (prev : List Nat) :
    Canon w n2 (resize w n1 r1 n2 r2 src prev) ∧
    toNat w (resize w n1 r1 n2 r2 src prev) = ConvFixpntSpec.resize n1 r1 n2 r2 false (toNat w src) :=
  resize_narrow_spec h.1 hn2 hlt hr hd h.2 hs prev

-- fixpnt<12,6,Modulo,uint8_t> → fixpnt<7,2,Modulo,uint8_t>:
--   0x068 = 1.625 is a tie between 1.5 (raw 6) and 1.75 (raw 7) → even: 6;  0x078 = 1.875 a tie between 7 and 8 → 8
--   0xf98 = −1.625 → −6 = 0x7a;  0x7ff = 31.98… rounds to raw 128 which wraps to 0
example : C15_fixpnt_Supported 8 12 ∧ Canon 8 12 [0x68, 0x00] ∧ (6 : Nat) - 2 < 12 := ⟨⟨by decide, Or.inl (by decide)⟩, by decide, by decide⟩
example : resize 8 12 6 7 2 [0x68, 0x00] [0] = [0x06] := by decide
example : resize 8 12 6 7 2 [0x78, 0x00] [0] = [0x08] := by decide
example : resize 8 12 6 7 2 [0x98, 0x0f] [0] = [0x7a] := by decide
example : resize 8 12 6 7 2 [0xff, 0x07] [0] = [0x00] := by decide

/-- the full property: for every pair of configurations and both modes the adapter returns the specified encoding -/
def C15_fixpnt_resize_full : Prop :=
  ∀ (w n1 r1 n2 r2 : Nat) (sat : Bool) (src prev : List Nat),
    C15_fixpnt_Supported w n1 → 0 < n1 → 0 < n2 → r1 ≤ n1 → r2 ≤ n2 → Canon w n1 src → Canon w n2 prev →
    toNat w (resize w n1 r1 n2 r2 src prev) = ConvFixpntSpec.resize n1 r1 n2 r2 sat (toNat w src)

/-- D12: widening copies the raw bits and ignores the change of rbits.  fixpnt<4,1> 0x3 (= 1.5) → fixpnt<8,4> on uint8_t:
    the adapter returns 0x03 (= 0.1875), the specified encoding is 0x18 (in both modes).  So the round trip through the adapter
    (widen to more fraction bits, narrow back) is not the identity either, and the full property is false. -/
theorem C15_fixpnt_resize_D12_counterexample : ¬ C15_fixpnt_resize_full := by
  intro h
  have := h 8 4 1 8 4 false [0x3] [0x0] ⟨by decide, Or.inl (by decide)⟩ (by decide) (by decide) (by decide) (by decide)
    (by decide) (by decide)
  rw [spec_resize_eq] at this
  revert this
  decide

theorem C15_fixpnt_resize_widen_rawcopy_counterexample :
    resize 8 4 1 8 4 [0x3] [0x0] = [0x03] ∧ resizeZ 4 1 8 4 false 0x3 = 0x18 ∧ resizeZ 4 1 8 4 true 0x3 = 0x18 := by decide

/-- narrowing to at least as many fraction bits (`r1 > r2` is false) does nothing: the target keeps its previous content.
    fixpnt<8,4> 0x18 (= 1.5) → fixpnt<4,4> holding 0x5, and → fixpnt<4,6>: the result is 0x5; the specification wraps 1.5·2^4 = 24
    into 4 bits (0x8), resp. 1.5·2^6 = 96 (0x0) -/
theorem C15_fixpnt_resize_narrow_noop_counterexample :
    resize 8 8 4 4 4 [0x18] [0x5] = [0x5] ∧ resizeZ 8 4 4 4 false 0x18 = 0x8 ∧
    resize 8 8 4 4 6 [0x18] [0x5] = [0x5] ∧ resizeZ 8 4 4 6 false 0x18 = 0x0 := by decide

/-- … for EVERY source and previous content -/
theorem C15_fixpnt_resize_narrow_noop (hlt : n2 < n1) (hr : r1 ≤ r2) (prev : List Nat) : resize w n1 r1 n2 r2 src prev = prev := by
  unfold resize
  rw [if_neg (by omega), if_neg (by omega)]

/-- narrowing by the full width: fixpnt<8,8> 0xE0 (= −0.125) → fixpnt<4,0>.  `>>= 8` of an 8-bit blockbinary returns 0 for every
    value (no sign fill), `roundingMode(8)` reads bit 7 as guard and says "up": the result is +1; the specification is 0 -/
theorem C15_fixpnt_resize_narrow_fullshift_counterexample :
    resize 8 8 8 4 0 [0xE0] [0x0] = [0x1] ∧ resizeZ 8 8 4 0 false 0xE0 = 0x0 ∧ resizeZ 8 8 4 0 true 0xE0 = 0x0 := by decide

/-- a Saturate target never clamps: fixpnt<8,4> 0x7f (= 7.9375) → fixpnt<6,2,Saturate> (maxpos = 7.75 = 0x1f): the rounded raw
    integer 32 wraps to 0x20 = maxneg (−8); the specification clamps to 0x1f -/
theorem C15_fixpnt_resize_saturate_wraps_counterexample :
    resize 8 8 4 6 2 [0x7f] [0x0] = [0x20] ∧ resizeZ 8 4 6 2 true 0x7f = 0x1f ∧ resizeZ 8 4 6 2 false 0x7f = 0x20 := by decide

/-- `resizeZ` in the counterexamples above IS the specification (`ConvFixpntSpec.resize`, stated on Rat) -/
theorem C15_fixpnt_resize_spec_int (n1 r1 n2 r2 : Nat) (sat : Bool) (p : Nat) :
    ConvFixpntSpec.resize n1 r1 n2 r2 sat p = resizeZ n1 r1 n2 r2 sat p := spec_resize_eq n1 r1 n2 r2 sat p

/-- Saturate narrowing, the part that holds: whenever the rounded value fits the target the Modulo result is the Saturate
    specification as well -/
theorem C15_fixpnt_resize_narrow_saturate_partial (h : C15_fixpnt_Supported w n1) (hn2 : 0 < n2) (hlt : n2 < n1) (hr : r2 < r1)
    (hd : r1 - r2 < n1) (hs : Canon w n1 src) (prev : List Nat)
    (hfit : ConvFixpntSpec.resize n1 r1 n2 r2 true (toNat w src) = ConvFixpntSpec.resize n1 r1 n2 r2 false (toNat w src)) :
    toNat w (resize w n1 r1 n2 r2 src prev) = ConvFixpntSpec.resize n1 r1 n2 r2 true (toNat w src) := by
  rw [hfit]; exact (C15_fixpnt_resize_narrow_modulo h hn2 hlt hr hd hs prev).2

example : ConvFixpntSpec.resize 12 6 7 2 true 0x068 = ConvFixpntSpec.resize 12 6 7 2 false 0x068 := by
  rw [spec_resize_eq, spec_resize_eq]; decide

/-- the two regions in which the size adapter is right, in one statement (Modulo): widening with the same number of fraction
    bits, and narrowing to fewer fraction bits (not by the full width) — the complement is D12 and its neighbours above -/
theorem C15_fixpnt_resize_partial (h : C15_fixpnt_Supported w n1) (hn1 : 0 < n1) (hn2 : 0 < n2) (hs : Canon w n1 src) (prev : List Nat)
    (hreg : (n1 ≤ n2 ∧ r1 = r2) ∨ (n2 < n1 ∧ r2 < r1 ∧ r1 - r2 < n1)) :
    Canon w n2 (resize w n1 r1 n2 r2 src prev) ∧
    toNat w (resize w n1 r1 n2 r2 src prev) = ConvFixpntSpec.resize n1 r1 n2 r2 false (toNat w src) := by
  rcases hreg with ⟨hle, rfl⟩ | ⟨hlt, hr, hd⟩
  · exact C15_fixpnt_resize_widen_same_rbits h.1 hn1 hle hs false prev
  · exact C15_fixpnt_resize_narrow_modulo h hn2 hlt hr hd hs prev

example : (12 ≤ 20 ∧ 4 = 4) ∨ (20 < 12 ∧ 4 < 4 ∧ 4 - 4 < 12) := Or.inl ⟨by decide, rfl⟩
