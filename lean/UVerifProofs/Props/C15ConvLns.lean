/-
  C15 (lns → lns) — theorems about Model.ConvLns.lnsToLns, the converting constructor `*this = double(rhs)`
  (lns_impl.hpp:111-114): a composition  to_ieee754<double> ; convert_ieee754<double>  through binary64.
-/
import UVerif.Model.ConvLns
import UVerif.Spec.ConvLns
import UVerifProofs.Props.C03ConvLns
open UVerif UVerif.Lns UVerif.Lns.Model UVerif.IeeeBits UVerif.ConvLns UVerif.ConvLns.Spec UVerif.LnsLemmas

/-- same type: the copy constructor, the identity -/
theorem C15_lns_same_type (c : Cfg) (t : Thresholds) (a d lg : Nat) : lnsToLns c c t a d lg = a := by
  unfold lnsToLns; simp

/-- **composition.** Between different types the result is `convert_ieee754<double>` applied to the observed `double(rhs)`:
    every theorem about lns = double (C03_lns_…) transfers to lns → lns. -/
theorem C15_lns_to_lns (c1 c2 : Cfg) (t : Thresholds) (a d lg : Nat)
    (hne : ¬ (c1.nbits = c2.nbits ∧ c1.rbits = c2.rbits ∧ c1.w = c2.w ∧ c1.wrap = c2.wrap)) :
    lnsToLns c1 c2 t a d lg = convertF64 c2 t d lg := by
  unfold lnsToLns; rw [if_neg hne]

/-- NaN ↦ NaN and zero ↦ zero: `double(rhs)` of the special encodings does not depend on libm (TargetFloat(NAN), 0.0) -/
theorem C15_lns_to_lns_special (c1 c2 : Cfg) (hn : 2 ≤ c2.nbits) (t : Thresholds) (a d lg : Nat)
    (hne : ¬ (c1.nbits = c2.nbits ∧ c1.rbits = c2.rbits ∧ c1.w = c2.w ∧ c1.wrap = c2.wrap))
    (hd : toIeeeSpecial f64 c1 a = some d) :
    (isNaN c1.nbits c1.w a = true → decode c2.nbits (lnsToLns c1 c2 t a d lg) = Val.nan) ∧
    (isNaN c1.nbits c1.w a = false → decode c2.nbits (lnsToLns c1 c2 t a d lg) = Val.zero) := by
  rw [C15_lns_to_lns c1 c2 t a d lg hne]
  unfold toIeeeSpecial at hd
  constructor
  · intro h
    rw [h] at hd; simp only [if_true, Option.some.injEq] at hd
    have hq : quietNaN f64 = 0x7ff8000000000000 := by decide
    have hnan : IeeeBits.isNaN f64 0x7ff8000000000000 = true := by decide
    rw [← hd, hq]
    exact (C03_lns_from_nan c2 hn t _ lg hnan).2
  · intro h
    rw [h] at hd; simp only [Bool.false_eq_true, if_false] at hd
    split at hd
    · simp only [Option.some.injEq] at hd
      rw [← hd, (C03_lns_from_zero c2 hn t lg).1]
      exact (C03_lns_from_zero c2 hn t lg).2.2
    · cases hd

/-- the full C15 statement for lns (for the libm values of the transcript line): every source encoding converts to the
    target value nearest in the log domain.  FALSE of the pinned code for sources outside binary64's range. -/
def C15_lns_to_lns_full : Prop :=
  ∀ (c1 c2 : Cfg) (t : Thresholds) (a d lg : Nat), 2 ≤ c1.nbits → 2 ≤ c2.nbits → c1.rbits < c1.nbits → c2.rbits < c2.nbits →
    a < 2 ^ c1.nbits →
    -- d = double(rhs), lg = log2 |d|, t: what libm returns (an assumption about libm; here: the transcript's values)
    l2lOk c2.nbits c1.rbits c2.rbits c2.wrap (decode c1.nbits a) (lnsToLns c1 c2 t a d lg) = true

/-- lns<28,12> holds 2^16383.99…; `double(rhs)` is +infinity and the conversion into lns<32,16> (which holds the value
    exactly, exponent field 0x3ffffff·16) saturates to maxpos
    (witness: `convlns 32 16 u8 S l2l 28 12 3ffffff 7ff0000000000000 7ff0000000000000 7ff0000000000000 0 0 => 3fffffff`) -/
theorem C15_lns_double_range_counterexample :
    let c1 : Cfg := ⟨28, 12, 8, false⟩
    let c2 : Cfg := ⟨32, 16, 8, false⟩
    let t : Thresholds := ⟨0x7ff0000000000000, 0, 0⟩
    decode 28 0x3ffffff = Val.num false 67108863 ∧
    lnsToLns c1 c2 t 0x3ffffff 0x7ff0000000000000 0x7ff0000000000000 = 0x3fffffff ∧
    rescale 12 16 67108863 = (1073741808, 1073741808) ∧
    l2lOk 32 12 16 false (decode 28 0x3ffffff) 0x3fffffff = false ∧
    l2lOk 32 12 16 false (decode 28 0x3ffffff) 0x3ffffff0 = true := by
  decide +kernel

/-- rescaling in the log domain: widening the fraction (r2 ≥ r1) is exact, and a multiple of the step is kept exactly -/
theorem C15_lns_rescale_exact (r1 r2 : Nat) (E1 : Int) (h : r1 ≤ r2) :
    rescale r1 r2 E1 = (E1 * ((2 ^ (r2 - r1) : Nat) : Int), E1 * ((2 ^ (r2 - r1) : Nat) : Int)) := by
  unfold rescale; simp [h]

theorem C15_lns_rescale_multiple (r1 r2 : Nat) (E2 : Int) (h : r2 < r1) :
    rescale r1 r2 (E2 * ((2 ^ (r1 - r2) : Nat) : Int)) = (E2, E2) := by
  unfold rescale
  have hD : (0 : Int) < ((2 ^ (r1 - r2) : Nat) : Int) := by exact_mod_cast Nat.two_pow_pos _
  have hnot : ¬ r2 ≥ r1 := by omega
  simp only [hnot, if_false]
  rw [Int.mul_ediv_cancel _ (ne_of_gt hD), Int.mul_emod_left]
  simp

open UVerif.ConvLnsLemmas in
/-- **lns → lns on powers of two is exact**: a source holding ±2^e (-1022 ≤ e ≤ 1023, e ≠ 0), whose `double(rhs)` is the
    exact power of two and whose log2 is observed exactly, converts to the target exponent field e·2^r2 — the identity on
    values — whenever that is inside the target's range (Wrapping targets: no pre-tests). -/
theorem C15_lns_to_lns_pow2 (c1 c2 : Cfg) (t : Thresholds) (a : Nat) (neg : Bool) (e : Int)
    (hne : ¬ (c1.nbits = c2.nbits ∧ c1.rbits = c2.rbits ∧ c1.w = c2.w ∧ c1.wrap = c2.wrap))
    (hn : 2 ≤ c2.nbits) (hn64 : c2.nbits ≤ 64) (hw : c2.wrap = true)
    (he1 : -1022 ≤ e) (he2 : e ≤ 1023) (he0 : e ≠ 0)
    (hr : c2.rbits + Nat.log2 e.natAbs < 52)
    (hlo : minE c2.nbits ≤ e * ((2 ^ c2.rbits : Nat) : Int)) (hhi : e * ((2 ^ c2.rbits : Nat) : Int) ≤ maxE c2.nbits) :
    decode c2.nbits (lnsToLns c1 c2 t a (f64Pow2 neg e) (f64OfInt e)) = Val.num neg (e * ((2 ^ c2.rbits : Nat) : Int)) := by
  rw [C15_lns_to_lns c1 c2 t a _ _ hne]
  exact C03_lns_from_pow2_exact c2 t neg e hn hn64 hw he1 he2 he0 hr hlo hhi

open UVerif.ConvLnsLemmas in
/-- the general composition: the target stores round-half-even(2^r2 · observed log2 |double(rhs)|) (Wrapping targets) -/
theorem C15_lns_to_lns_nearest_of_observed_log (c1 c2 : Cfg) (t : Thresholds) (a d logv : Nat)
    (hne : ¬ (c1.nbits = c2.nbits ∧ c1.rbits = c2.rbits ∧ c1.w = c2.w ∧ c1.wrap = c2.wrap))
    (hn : 2 ≤ c2.nbits) (hn64 : c2.nbits ≤ 64) (hw : c2.wrap = true)
    (hvE : expOf f64 d ≠ 2047) (hvz : IeeeBits.isZero f64 d = false)
    (hE1 : 1 ≤ expOf f64 logv) (hE2 : expOf f64 logv < 2047)
    (sr : Nat) (hsr : (sr : Int) = 1075 - (expOf f64 logv : Int) - (c2.rbits : Int)) (h1 : 1 ≤ sr) (h63 : sr ≤ 63)
    (E : Int)
    (hE : E = (if signOf f64 logv then -1 else 1) * rne (((2 ^ c2.rbits : Nat) : Rat) * |IeeeBits.toRat f64 logv|))
    (hlo : minE c2.nbits ≤ E) (hhi : E ≤ maxE c2.nbits) :
    decode c2.nbits (lnsToLns c1 c2 t a d logv) = Val.num (IeeeBits.lt f64 d 0) E := by
  rw [C15_lns_to_lns c1 c2 t a d logv hne]
  exact (C03_lns_from_f64_nearest_of_observed_log c2 t d logv hn hn64 hw hvE hvz hE1 hE2 sr hsr h1 h63 E hE hlo hhi).2
