/-
  C15 — conversions between families: the posit ↔ integer adapters `convert_i2p` / `convert_p2i`
  (include/universal/adapters/adapt_integer_and_posit.hpp).

  The theorems are about the model `UVerif.ConvPosInt.{i2p,p2i}` (lean/UVerif/Model/ConvPosInt.lean), which sits on the limb
  model of `integer<ibits, bt>` and on the posit model, and hold for EVERY posit configuration (n ≥ 2, es), EVERY integer
  size ibits ≥ 2 and EVERY limb width except the multi-block `uint64_t` instantiation (`C15_Supported`, as in C08).
  Right-hand sides are the executable specification the driver evaluates on the implementation's output
  (lean/UVerif/Spec/ConvPosInt.lean): the Posit-Standard rounding relation for i2p, truncation toward zero wrapped into
  ibits bits for p2i.

  Both full statements hold of the repaired adapters (`C15_i2p_full`, `C15_i2p_unsigned_full`, `C15_p2i_full`):
    i2p  — one correct rounding of EVERY integer (more significant bits than the `bitblock<nbits>` holds are collected in a
           sticky bit; clamp to ±maxpos), IntegerNumber and the unsigned number types alike;
    p2i  — truncation toward zero, reduced modulo 2^ibits, of EVERY real-valued posit.
  Nothing is left outside: since the repair of `integer::operator+=` (carry between 64-bit blocks) the multi-block `uint64_t`
  integer is covered too; `C15_p2i_u64_multiblock_cfg_neg2p120` and `C15_i2p_u64_multiblock_cfg_5` are the former
  counterexamples, now positive.
-/
import UVerifProofs.Lemmas.ConvPosIntI2P
import UVerifProofs.Lemmas.ConvPosIntP2I
import UVerifProofs.Lemmas.ConvPosIntWhole
import UVerifProofs.Lemmas.PositCanon

open UVerif UVerif.Limbs UVerif.Posit UVerif.ConvPosInt

/-- sizes and limb widths covered: every limb width and every size of at least two bits -/
def C15_Supported (w ibits : Nat) : Prop := 0 < w ∧ 2 ≤ ibits

example : C15_Supported 8 100 := ⟨by decide, by decide⟩
example : C15_Supported 64 200 := ⟨by decide, by decide⟩
example : C15_Supported 64 64 := ⟨by decide, by decide⟩

variable {w ibits n es : Nat}

/-! ### integer → posit -/

/-- **integer → posit is one correct rounding.** For every integer size, limb width, posit configuration and every non-zero
    integer — however many significant bits it has — `convert_i2p` returns the posit the Standard selects for the exact integer
    value: nearest, ties to even, never 0 / NaR, clamped to ±maxpos. -/
theorem C15_i2p {a : List Nat} (h : C15_Supported w ibits) (hn : 2 ≤ n) (ha : Canon w ibits a)
    (hx : toInt w ibits a ≠ 0) :
    ∃ r, i2p w ibits n es a = .enc r ∧ PositNearest n es ((toInt w ibits a : Int) : ℚ) r ∧
      ConvPosIntSpec.i2pOk ibits n es (toNat w a) r = true := by
  obtain ⟨hw, hib⟩ := h
  have hr := i2pVal_round n es hn (toInt w ibits a) hx
  refine ⟨Posit.convert n es (i2pVal n (toInt w ibits a)), i2p_eq hw hib ha hx, hr, ?_⟩
  unfold ConvPosIntSpec.i2pOk ConvPosIntSpec.intVal
  have e : toSigned ibits (toNat w a) = toInt w ibits a := rfl
  rw [e, hr]
  simp [convert_lt n es (by omega)]

/-- non-vacuity: integer<16, uint8_t> −300 into posit<8,1> (the result −256 is a rounding, 0x84);
    512 into posit<8,0> (ten significant bits, maxpos = 64: clamped, 0x7f);
    posit<8,2> around 512 … 1024 has one fraction bit (512, 768, 1024) and the integers have more significant bits than the
    `bitblock<8>` holds: 640 is a tie (→ 512, even), 641 = tie + a dropped bit (→ 768), 896 is a tie (→ 1024, even);
    2^33 into posit<32,2> (0x7fc80000) -/
example : C15_Supported 8 16 ∧ Canon 8 16 [0xd4, 0xfe] ∧ toInt 8 16 [0xd4, 0xfe] = -300 ∧
    i2p 8 16 8 1 [0xd4, 0xfe] = .enc 0x84 :=
  ⟨⟨by decide, by decide⟩, by decide, by decide, by decide⟩
example : i2p 8 16 8 0 [0, 2] = .enc 0x7f := by decide
example : i2p 8 16 8 2 [0x80, 0x02] = .enc 0x72 ∧ i2p 8 16 8 2 [0x81, 0x02] = .enc 0x73 ∧
    i2p 8 16 8 2 [0x80, 0x03] = .enc 0x74 := by decide
example : i2p 32 64 32 2 [0, 2] = .enc 0x7fc80000 := by decide

/-- zero converts to zero -/
theorem C15_i2p_zero {a : List Nat} (h : C15_Supported w ibits) (ha : Canon w ibits a) (hx : toInt w ibits a = 0) :
    i2p w ibits n es a = .enc 0 := by
  obtain ⟨hw, hib⟩ := h
  have hn0 : 0 < ibits := by omega
  have hA : toNat w a = 0 := by
    have := ofSigned_toSigned_of_lt ha.2.2
    unfold toInt at hx
    rw [hx] at this
    simpa [ofSigned] using this.symm
  obtain ⟨hz, hzv⟩ := Integer.convertSigned_zero (w := w) hw hn0
  have hzero : Integer.eq a (Integer.convertSigned w ibits 0) = true := by
    rw [Integer.eq_spec ha hz, hzv, hA]; simp
  unfold i2p i2pCore
  simp only
  rw [hzero]
  unfold Posit.convert
  simp

example : i2p 16 24 16 1 [0, 0] = .enc 0 := by decide

/-- **the full statement: every integer converts to the Standard's rounding of its value** (zero included) -/
theorem C15_i2p_full (w ibits n es : Nat) (a : List Nat) (h : C15_Supported w ibits) (hn : 2 ≤ n) (ha : Canon w ibits a) :
    ∃ r, i2p w ibits n es a = .enc r ∧ ConvPosIntSpec.i2pOk ibits n es (toNat w a) r = true := by
  by_cases hx : toInt w ibits a = 0
  · refine ⟨0, C15_i2p_zero h ha hx, ?_⟩
    unfold ConvPosIntSpec.i2pOk ConvPosIntSpec.intVal
    have e : toSigned ibits (toNat w a) = toInt w ibits a := rfl
    have hz : positVal n es 0 = some 0 := by unfold positVal; simp
    have := nearestB_self n es 0 hn (Nat.two_pow_pos _) 0 hz
    rw [e, hx]
    simp only [Int.cast_zero, this, Bool.and_true, decide_eq_true_eq]
    exact Nat.two_pow_pos _
  · obtain ⟨r, hr, _, hok⟩ := C15_i2p (es := es) h hn ha hx
    exact ⟨r, hr, hok⟩

/-- multi-block `uint64_t` (the former counterexample of the dropped carry): 5 in integer<100, uint64_t> converts to 5 -/
theorem C15_i2p_u64_multiblock_cfg_5 :
    i2p 64 100 16 1 [5, 0] = .enc 0x6200 ∧ ConvPosIntSpec.i2pOk 100 16 1 5 0x6200 = true := by decide +kernel

/-! ### integer<ibits, bt, WholeNumber | NaturalNumber> → posit -/

/-- **unsigned number types: one correct rounding of every value, the top bit included** — and for every limb width: the
    conversion of an unsigned integer reaches no limb arithmetic (`w < 0` is a block scan, no two's complement is taken). -/
theorem C15_i2p_unsigned {a : List Nat} (hw : 0 < w) (hib : 0 < ibits) (hn : 2 ≤ n) (ha : Canon w ibits a)
    (hx : toNat w a ≠ 0) :
    ∃ r, i2pWhole w ibits n es a = .enc r ∧ PositNearest n es ((toNat w a : Nat) : ℚ) r ∧
      ConvPosIntSpec.i2pOkK true ibits n es (toNat w a) r = true := by
  have hr := i2pVal_round n es hn ((toNat w a : Nat) : Int) (by exact_mod_cast hx)
  have hr' : nearestB n es ((toNat w a : Nat) : ℚ) (Posit.convert n es (i2pVal n ((toNat w a : Nat) : Int))) = true := by
    exact_mod_cast hr
  refine ⟨_, i2pWhole_eq hw hib ha hx, hr', ?_⟩
  unfold ConvPosIntSpec.i2pOkK ConvPosIntSpec.intValK
  simp only [if_true, Nat.mod_eq_of_lt ha.2.2, Int.cast_natCast, hr', Bool.and_true, decide_eq_true_eq]
  exact convert_lt n es (by omega) _

/-- non-vacuity: integer<8, uint8_t, WholeNumber> 100 and 200 (top bit set) into posit<16,1> -/
example : Canon 8 8 [100] ∧ i2pWhole 8 8 16 1 [100] = .enc 0x7920 := ⟨by decide, by decide⟩
example : Canon 8 8 [0xc8] ∧ i2pWhole 8 8 16 1 [0xc8] = .enc 0x7b20 := ⟨by decide, by decide⟩

/-- unsigned zero converts to zero -/
theorem C15_i2p_unsigned_zero {a : List Nat} (hw : 0 < w) (hib : 0 < ibits) (ha : Canon w ibits a) (hx : toNat w a = 0) :
    i2pWhole w ibits n es a = .enc 0 := by
  obtain ⟨hz, hzv⟩ := Integer.convertSigned_zero (w := w) hw hib
  have hzero : Integer.eq a (Integer.convertSigned w ibits 0) = true := by
    rw [Integer.eq_spec ha hz, hzv, hx]; simp
  unfold i2pWhole i2pCore
  simp only
  rw [hzero]
  unfold Posit.convert
  simp

/-- **the full statement for the unsigned number types**: every value of integer<ibits, bt, WholeNumber|NaturalNumber>
    converts to the Standard's rounding of its plain binary value -/
theorem C15_i2p_unsigned_full (w ibits n es : Nat) (a : List Nat) (hw : 0 < w) (hib : 0 < ibits) (hn : 2 ≤ n)
    (ha : Canon w ibits a) :
    ∃ r, i2pWhole w ibits n es a = .enc r ∧ ConvPosIntSpec.i2pOkK true ibits n es (toNat w a) r = true := by
  by_cases hx : toNat w a = 0
  · refine ⟨0, C15_i2p_unsigned_zero hw hib ha hx, ?_⟩
    unfold ConvPosIntSpec.i2pOkK ConvPosIntSpec.intValK
    have hz : positVal n es 0 = some 0 := by unfold positVal; simp
    have := nearestB_self n es 0 hn (Nat.two_pow_pos _) 0 hz
    simp only [if_true, hx, Nat.zero_mod, Nat.cast_zero, Int.cast_zero, this, Bool.and_true, decide_eq_true_eq]
    exact Nat.two_pow_pos _
  · obtain ⟨r, hr, _, hok⟩ := C15_i2p_unsigned (es := es) hw hib hn ha hx
    exact ⟨r, hr, hok⟩

/-! ### posit → integer -/

/-- **posit → integer is truncation toward zero, reduced modulo 2^ibits.** For every posit configuration, integer size,
    limb width and every real-valued posit, the raw storage produced by `convert_p2i` is canonical and holds the exact posit
    value truncated toward zero, wrapped into ibits bits (so: the exact value whenever it fits; the identity on integers that
    fit) — independently of the limb width. -/
theorem C15_p2i {p : Nat} (h : C15_Supported w ibits) (hn : 2 ≤ n) (hp : p < 2 ^ n) (h0 : p ≠ 0)
    (hnar : p ≠ 2 ^ (n - 1)) (x : ℚ) (hx : positVal n es p = some x) :
    Canon w ibits (p2i w ibits n es p) ∧
    toNat w (p2i w ibits n es p) = ofSigned ibits (truncZ x) ∧
    ConvPosIntSpec.p2iOk n es ibits p (toNat w (p2i w ibits n es p)) = true := by
  obtain ⟨hw, hib⟩ := h
  obtain ⟨hc, hv⟩ := p2i_spec (w := w) (ibits := ibits) (es := es) hw hib hn hp h0 hnar
  have hdv := (decode_value n es p hn hp h0 hnar).1
  rw [hx] at hdv
  injection hdv with hdv
  rw [← hdv] at hv
  refine ⟨hc, hv, ?_⟩
  unfold ConvPosIntSpec.p2iOk ConvPosIntSpec.p2iExpect
  rw [hx, hv]
  simp

/-- non-vacuity (`truncDec` is the truncated value computed on the decoded triple, `truncZ_positVal`):
    posit<8,0> 12.0 (0x7a: scale 3 < fbits 5) into integer<12>;
    posit<16,1> 1.5·2^20 (0x7ff2: scale 20 ≥ fbits 12) into integer<8>: left shift, wraps to 0;
    posit<8,0> −12.0 (0x86) into integer<16, uint16_t>: 0xfff4;
    posit<8,0> −1 (0xc0: negative, scale 0) into integer<8>: 0xff;
    posit<8,0> 2.0 (0x60: fbits 5, scale 1) into integer<4> and posit<16,1> 3.0 (0x5800: fbits 12) into integer<8>: an
    integer no wider than the significand, the bits below the radix point are dropped before the copy;
    posit<64,3> 100 into integer<32, uint32_t> -/
example : truncDec 8 0 0x7a = 12 ∧ toNat 8 (p2i 8 12 8 0 0x7a) = 12 := by decide
example : truncDec 16 1 0x7ff2 = 1572864 ∧ toNat 8 (p2i 8 8 16 1 0x7ff2) = 0 := by decide
example : truncDec 8 0 0x86 = -12 ∧ toNat 16 (p2i 16 16 8 0 0x86) = 0xfff4 := by decide
example : truncDec 8 0 0xc0 = -1 ∧ toNat 8 (p2i 8 8 8 0 0xc0) = 0xff := by decide
example : truncDec 8 0 0x60 = 2 ∧ toNat 8 (p2i 8 4 8 0 0x60) = 2 ∧
    truncDec 16 1 0x5800 = 3 ∧ toNat 8 (p2i 8 8 16 1 0x5800) = 3 := by decide
example : toNat 32 (p2i 32 32 64 3 0x5a40000000000000) = 100 := by decide

/-- **posit 0 → integer 0 (and NaR → 0) for every nbits ≥ 2**: the adapter tests `iszero() || isnar()` before it looks at the
    scale (which is 0 for these patterns when nbits = 2, negative otherwise). -/
theorem C15_p2i_zero {w ibits n es : Nat} (h : C15_Supported w ibits) (hn : 2 ≤ n) (p : Nat) (hp : p = 0 ∨ p = 2 ^ (n - 1)) :
    p2i w ibits n es p = Integer.convertSigned w ibits 0 ∧ toNat w (p2i w ibits n es p) = 0 := by
  have hlt : p < 2 ^ n := by
    rcases hp with rfl | rfl
    · exact Nat.two_pow_pos _
    · exact Nat.pow_lt_pow_right (by decide) (by omega)
  have he : p2i w ibits n es p = Integer.convertSigned w ibits 0 := by
    unfold p2i
    simp only [Nat.mod_eq_of_lt hlt]
    rw [if_pos (by rcases hp with h | h; exact Or.inl h; exact Or.inr (Or.inl h))]
  refine ⟨he, ?_⟩
  rw [he]
  exact (Integer.convertSigned_zero (w := w) h.1 (by have := h.2; omega)).2

example : toNat 16 (p2i 16 32 16 1 0) = 0 ∧ toNat 16 (p2i 16 32 16 1 0x8000) = 0 := by decide
/-- posit<2,es>: zero and NaR convert to 0, ±1 to ±1 -/
example : toNat 8 (p2i 8 4 2 0 0) = 0 ∧ toNat 8 (p2i 8 4 2 0 2) = 0 ∧ toNat 8 (p2i 8 4 2 0 1) = 1 ∧
    toNat 8 (p2i 8 4 2 0 3) = 0xf := by decide

/-- truncation is the identity on integers -/
theorem truncZ_intCast (z : Int) : truncZ (z : ℚ) = z := by
  unfold truncZ
  split
  · exact Rat.floor_intCast z
  · rw [Rat.ceil_eq_neg_floor_neg]
    have : (-(z : ℚ)).floor = -z := by
      rw [← Rat.intCast_neg]; exact Rat.floor_intCast (-z)
    rw [this]; ring

/-- **the full statement: every real-valued posit (zero included) converts to its truncation, wrapped** -/
theorem C15_p2i_full (w ibits n es p : Nat) (x : ℚ) (h : C15_Supported w ibits) (hn : 2 ≤ n) (hp : p < 2 ^ n)
    (hx : positVal n es p = some x) :
    toNat w (p2i w ibits n es p) = ofSigned ibits (truncZ x) := by
  by_cases h0 : p = 0
  · subst h0
    have hz : positVal n es 0 = some 0 := by unfold positVal; simp
    rw [hz] at hx
    injection hx with hx
    have ht : truncZ (0 : ℚ) = 0 := by simpa using truncZ_intCast 0
    rw [(C15_p2i_zero (es := es) h hn 0 (Or.inl rfl)).2, ← hx, ht]
    simp [ofSigned]
  · have hnar : p ≠ 2 ^ (n - 1) := by
      intro hbn; subst hbn
      have : positVal n es (2 ^ (n - 1)) = none := by
        unfold positVal
        have hpp := Nat.two_pow_pos (n - 1)
        simp only [Nat.mod_eq_of_lt hp]
        rw [if_neg (by omega)]; simp
      rw [this] at hx; cases hx
    exact (C15_p2i (w := w) h hn hp h0 hnar x hx).2.1

/-- multi-block `uint64_t` (the former counterexample of the dropped carry): posit<32,2> −2^120 (0x80000001) into
    integer<128, uint64_t> is −2^120 for 64-bit and for 32-bit blocks -/
theorem C15_p2i_u64_multiblock_cfg_neg2p120 :
    truncDec 32 2 0x80000001 = -(2 ^ 120 : Int) ∧
    toNat 64 (p2i 64 128 32 2 0x80000001) = ofSigned 128 (-(2 ^ 120 : Int)) ∧
    toNat 32 (p2i 32 128 32 2 0x80000001) = ofSigned 128 (-(2 ^ 120 : Int)) := by decide +kernel

/-! ### round trips -/

/-- **integer → posit → integer is the identity whenever the first leg was exact** (the integer is a value of the posit). -/
theorem C15_int_posit_int {a : List Nat} {r : Nat} (h : C15_Supported w ibits) (hn : 2 ≤ n) (ha : Canon w ibits a)
    (hr : r < 2 ^ n) (hr0 : r ≠ 0) (hrnar : r ≠ 2 ^ (n - 1))
    (hexact : positVal n es r = some ((toInt w ibits a : Int) : ℚ)) :
    toNat w (p2i w ibits n es r) = toNat w a := by
  obtain ⟨_, hv, _⟩ := C15_p2i (w := w) h hn hr hr0 hrnar _ hexact
  rw [hv, truncZ_intCast]
  unfold toInt
  exact ofSigned_toSigned_of_lt ha.2.2

/-- −1 → posit<8,0> (0xc0) → integer<8> gives −1 back -/
example : toInt 8 8 [0xff] = -1 ∧ rti 8 8 8 0 [0xff] = (.enc 0xc0, some [0xff]) := by decide

/-- **posit → integer → posit is the identity** whenever the posit's value is an integer `z` that fits integer<ibits>. -/
theorem C15_posit_int_posit {p : Nat} (h : C15_Supported w ibits) (hn : 2 ≤ n) (hp : p < 2 ^ n) (h0 : p ≠ 0)
    (hnar : p ≠ 2 ^ (n - 1)) (z : Int) (hx : positVal n es p = some (z : ℚ))
    (hfits : IntegerSpec.fits ibits z = true) :
    i2p w ibits n es (p2i w ibits n es p) = .enc p := by
  obtain ⟨hc, hv, _⟩ := C15_p2i (w := w) h hn hp h0 hnar _ hx
  rw [truncZ_intCast] at hv
  have hib0 : 0 < ibits := by have := h.2; omega
  have hti : toInt w ibits (p2i w ibits n es p) = z := by
    unfold toInt; rw [hv]
    unfold IntegerSpec.fits at hfits
    simp only [Bool.and_eq_true, decide_eq_true_eq] at hfits
    exact toSigned_ofSigned_fits hib0 hfits.1.2 hfits.2
  -- z ≠ 0 because a non-zero encoding has a non-zero value
  obtain ⟨hdv, hz, hi, hf, _, ht⟩ := decode_value n es p hn hp h0 hnar
  have hz0 : z ≠ 0 := by
    intro hz0
    rw [hx] at hdv
    injection hdv with hdv
    rw [hz0, ht] at hdv
    exact tripleVal_ne_zero _ _ _ _ (by simpa using hdv.symm)
  obtain ⟨r, hr, hnear, hok⟩ := C15_i2p (es := es) h hn hc (by rw [hti]; exact hz0)
  rw [hr]
  congr 1
  -- both r and p are correct roundings of z: the relation has one solution
  rw [hti] at hnear
  have hs := nearestB_self n es p hn hp (z : ℚ) hx
  rw [hx] at hdv
  injection hdv with hdv
  have hrlt : r < 2 ^ n := by
    unfold ConvPosIntSpec.i2pOk at hok
    simp only [Bool.and_eq_true, decide_eq_true_eq] at hok
    exact hok.1
  unfold PositNearest at hnear
  rw [hdv, ht] at hnear hs
  unfold tripleVal valS at hnear hs
  have hfr : (0 : ℚ) ≤ ((decode n es p).frac : ℚ) / 2 ^ (decode n es p).fb := by positivity
  have hfr1 : ((decode n es p).frac : ℚ) / 2 ^ (decode n es p).fb < 1 := by
    rw [div_lt_one (by positivity)]; exact_mod_cast hf
  exact nearestB_unique n es hn _ _ _ hfr hfr1 _ _ hrlt hp hnear hs

/-- non-vacuity: posit<8,0> 12.0 ↔ integer<12, uint8_t>; posit<8,0> −1 ↔ integer<8>; posit<16,1> 2^18 ↔ integer<32, uint16_t>
    (19 significant bits: more than the `bitblock<16>` fraction holds) -/
example : truncDec 8 0 0x7a = 12 ∧ IntegerSpec.fits 12 12 = true ∧
    i2p 8 12 8 0 (p2i 8 12 8 0 0x7a) = .enc 0x7a := by decide
example : truncDec 8 0 0xc0 = -1 ∧ i2p 8 8 8 0 (p2i 8 8 8 0 0xc0) = .enc 0xc0 := by decide
example : truncDec 16 1 0x7fe0 = 2 ^ 18 ∧ i2p 16 32 16 1 (p2i 16 32 16 1 0x7fe0) = .enc 0x7fe0 := by decide

/-- **identity on representable values (integer → posit).** If the integer's value is a value of posit<n,es> — `b` is its
    encoding — `convert_i2p` returns exactly `b`. -/
theorem C15_i2p_exact_of_representable {w ibits n es : Nat} {a : List Nat} {b : Nat} (h : C15_Supported w ibits) (hn : 2 ≤ n)
    (ha : Canon w ibits a) (hx : toInt w ibits a ≠ 0)
    (hb : b < 2 ^ n) (hrep : positVal n es b = some ((toInt w ibits a : Int) : ℚ)) :
    i2p w ibits n es a = .enc b := by
  obtain ⟨r, hr, hnear, hok⟩ := C15_i2p (es := es) h hn ha hx
  rw [hr]; congr 1
  have hb0 : b ≠ 0 := by
    intro hb0; subst hb0
    have : positVal n es 0 = some 0 := by unfold positVal; simp
    rw [this] at hrep
    injection hrep with hrep
    exact hx (by exact_mod_cast hrep.symm)
  have hbnar : b ≠ 2 ^ (n - 1) := by
    intro hbn; subst hbn
    have : positVal n es (2 ^ (n - 1)) = none := by
      unfold positVal
      have hlt : 2 ^ (n - 1) < 2 ^ n := Nat.pow_lt_pow_right (by decide) (by omega)
      have hp := Nat.two_pow_pos (n - 1)
      simp only [Nat.mod_eq_of_lt hlt]
      rw [if_neg (by omega)]; simp
    rw [this] at hrep; cases hrep
  obtain ⟨hdv, _, _, hf, _, ht⟩ := decode_value n es b hn hb hb0 hbnar
  have hs := nearestB_self n es b hn hb _ hrep
  rw [hrep] at hdv
  injection hdv with hdv
  have hrlt : r < 2 ^ n := by
    unfold ConvPosIntSpec.i2pOk at hok
    simp only [Bool.and_eq_true, decide_eq_true_eq] at hok
    exact hok.1
  unfold PositNearest at hnear
  rw [hdv, ht] at hnear hs
  unfold tripleVal valS at hnear hs
  have hfr : (0 : ℚ) ≤ ((decode n es b).frac : ℚ) / 2 ^ (decode n es b).fb := by positivity
  have hfr1 : ((decode n es b).frac : ℚ) / 2 ^ (decode n es b).fb < 1 := by
    rw [div_lt_one (by positivity)]; exact_mod_cast hf
  exact nearestB_unique n es hn _ _ _ hfr hfr1 _ _ hrlt hb hnear hs

/-- **integer → posit → integer is the identity on representable values**: the integer is a value of the posit (encoding `b`) -/
theorem C15_int_posit_int_representable {w ibits n es : Nat} {a : List Nat} {b : Nat} (h : C15_Supported w ibits) (hn : 2 ≤ n)
    (ha : Canon w ibits a) (hx : toInt w ibits a ≠ 0)
    (hb : b < 2 ^ n) (hrep : positVal n es b = some ((toInt w ibits a : Int) : ℚ)) :
    rti w ibits n es a = (.enc b, some (p2i w ibits n es b)) ∧ toNat w (p2i w ibits n es b) = toNat w a := by
  have he := C15_i2p_exact_of_representable h hn ha hx hb hrep
  have hb0 : b ≠ 0 := by
    intro hb0; subst hb0
    have : positVal n es 0 = some 0 := by unfold positVal; simp
    rw [this] at hrep
    injection hrep with hrep
    exact hx (by exact_mod_cast hrep.symm)
  have hbnar : b ≠ 2 ^ (n - 1) := by
    intro hbn; subst hbn
    have : positVal n es (2 ^ (n - 1)) = none := by
      unfold positVal
      have hlt : 2 ^ (n - 1) < 2 ^ n := Nat.pow_lt_pow_right (by decide) (by omega)
      have hp := Nat.two_pow_pos (n - 1)
      simp only [Nat.mod_eq_of_lt hlt]
      rw [if_neg (by omega)]; simp
    rw [this] at hrep; cases hrep
  refine ⟨?_, C15_int_posit_int h hn ha hb hb0 hbnar hrep⟩
  unfold rti
  rw [he]

-- non-vacuity: 12 in integer<12, uint8_t> is the value of posit<8,0> 0x7a; 2^18 in integer<32, uint16_t> of posit<16,1> 0x7fe0
example : toInt 8 12 [12, 0] = 12 ∧ truncDec 8 0 0x7a = 12 ∧
    rti 8 12 8 0 [12, 0] = (.enc 0x7a, some [12, 0]) := by decide
example : toInt 16 32 [0, 4] = 2 ^ 18 ∧ truncDec 16 1 0x7fe0 = 2 ^ 18 ∧
    rti 16 32 16 1 [0, 4] = (.enc 0x7fe0, some [0, 4]) := by decide

/-! ### block-type independence (C12 for the adapters) -/

/-- the integer produced by p2i does not depend on the limb width -/
theorem C15_p2i_blocktype_independent {w' p : Nat} (h : C15_Supported w ibits) (h' : C15_Supported w' ibits) (hn : 2 ≤ n)
    (hp : p < 2 ^ n) (h0 : p ≠ 0) (hnar : p ≠ 2 ^ (n - 1)) :
    toNat w (p2i w ibits n es p) = toNat w' (p2i w' ibits n es p) := by
  obtain ⟨hdv, _⟩ := decode_value n es p hn hp h0 hnar
  rw [(C15_p2i (w := w) h hn hp h0 hnar _ hdv).2.1, (C15_p2i (w := w') h' hn hp h0 hnar _ hdv).2.1]
