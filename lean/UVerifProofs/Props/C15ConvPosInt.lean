/-
  C15 — conversions between families: the posit ↔ integer adapters `convert_i2p` / `convert_p2i`
  (include/universal/adapters/adapt_integer_and_posit.hpp).

  The theorems are about the model `UVerif.ConvPosInt.{i2p,p2i}` (lean/UVerif/Model/ConvPosInt.lean), which sits on the limb
  model of `integer<ibits, bt>` and on the posit model, and hold for EVERY posit configuration (n ≥ 2, es), EVERY integer
  size ibits ≥ 2 and EVERY limb width except the multi-block `uint64_t` instantiation (`C15_Supported`, as in C08).
  Right-hand sides are the executable specification the driver evaluates on the implementation's output
  (lean/UVerif/Spec/ConvPosInt.lean): the Posit-Standard rounding relation for i2p, truncation toward zero wrapped into
  ibits bits for p2i.

  Both full statements are FALSE of the pinned code; they are kept as `def … : Prop`, refuted at concrete witnesses, and
  proved on the complement of the defect regions:
    i2p  — correct rounding whenever |x| < 2^(n+1)                      (`C15_i2p`);   otherwise std::out_of_range (`C15_i2p_throws`)
    p2i  — truncation (wrapped) on `C15_P2IGood`                        (`C15_p2i`);   outside: negative posits in (−2,−1],
           integers no wider than the significand with a right shift, posit<2,es> zero (counterexamples below)
-/
import UVerifProofs.Lemmas.ConvPosIntI2P
import UVerifProofs.Lemmas.ConvPosIntP2I
import UVerifProofs.Lemmas.ConvPosIntWhole
import UVerifProofs.Lemmas.PositCanon

open UVerif UVerif.Limbs UVerif.Posit UVerif.ConvPosInt

/-- sizes and limb widths covered: everything except more than one `uint64_t` block -/
def C15_Supported (w ibits : Nat) : Prop := 0 < w ∧ 2 ≤ ibits ∧ (w ≠ 64 ∨ nrBlocks w ibits = 1)

example : C15_Supported 8 100 := ⟨by decide, by decide, Or.inl (by decide)⟩
example : C15_Supported 64 64 := ⟨by decide, by decide, Or.inr (by decide)⟩

variable {w ibits n es : Nat}

/-! ### integer → posit -/

/-- **integer → posit is one correct rounding below the exception boundary.** For every integer size, limb width, posit
    configuration and every non-zero integer with |x| < 2^(n+1) (most significant bit position ≤ nbits, so that no fraction bit
    falls off the `bitblock<nbits>`), `convert_i2p` returns the posit the Standard selects for the exact integer value:
    nearest, ties to even, never 0 / NaR, clamped to ±maxpos. -/
theorem C15_i2p {a : List Nat} (h : C15_Supported w ibits) (hn : 2 ≤ n) (ha : Canon w ibits a)
    (hx : toInt w ibits a ≠ 0) (hfit : (toInt w ibits a).natAbs < 2 ^ (n + 1)) :
    ∃ r, i2p w ibits n es a = .enc r ∧ PositNearest n es ((toInt w ibits a : Int) : ℚ) r ∧
      ConvPosIntSpec.i2pOk ibits n es (toNat w a) r = true := by
  obtain ⟨hw, hib, h64⟩ := h
  have hne : (toInt w ibits a).natAbs ≠ 0 := by omega
  have hlog : (toInt w ibits a).natAbs.log2 ≤ n := by
    have := (Nat.log2_lt hne (k := n + 1)).mpr hfit
    omega
  refine ⟨Posit.convert n es (i2pVal n (toInt w ibits a)), ?_, ?_, ?_⟩
  · rw [i2p_eq hw hib h64 ha hx, if_neg (by omega)]
  · obtain ⟨hfin, hval⟩ := i2pVal_exact n (toInt w ibits a) hx hlog
    have := convert_val_correct n es hn _ hfin
    rw [hval] at this
    exact this
  · obtain ⟨hfin, hval⟩ := i2pVal_exact n (toInt w ibits a) hx hlog
    have h1 := convert_val_correct n es hn _ hfin
    rw [hval] at h1
    unfold ConvPosIntSpec.i2pOk ConvPosIntSpec.intVal
    have e : toSigned ibits (toNat w a) = toInt w ibits a := rfl
    rw [e, h1]
    simp [convert_lt n es (by omega)]

/-- non-vacuity: integer<16, uint8_t> −300 into posit<8,1> (|x| < 2^9; the result −256 is a rounding, 0x84) -/
example : C15_Supported 8 16 ∧ Canon 8 16 [0xd4, 0xfe] ∧ toInt 8 16 [0xd4, 0xfe] = -300 ∧
    i2p 8 16 8 1 [0xd4, 0xfe] = .enc 0x84 :=
  ⟨⟨by decide, by decide, Or.inl (by decide)⟩, by decide, by decide, by decide⟩

/-- zero converts to zero -/
theorem C15_i2p_zero {a : List Nat} (h : C15_Supported w ibits) (ha : Canon w ibits a) (hx : toInt w ibits a = 0) :
    i2p w ibits n es a = .enc 0 := by
  obtain ⟨hw, hib, h64⟩ := h
  have hn0 : 0 < ibits := by omega
  have hA : toNat w a = 0 := by
    have := ofSigned_toSigned_of_lt ha.2.2
    unfold toInt at hx
    rw [hx] at this
    simpa [ofSigned] using this.symm
  obtain ⟨hz, hzv⟩ := Integer.convertSigned_zero (w := w) hw hn0
  have hzero : Integer.eq a (Integer.convertSigned w ibits 0) = true := by
    rw [Integer.eq_spec ha hz, hzv, hA]; simp
  have hneg : Integer.isneg w ibits a = false := by
    rw [Integer.isneg_spec hw hn0 h64 ha]
    unfold toInt at hx
    rw [hx]; simp
  unfold i2p
  simp only
  rw [intScale_spec hw hib h64 ha, hx, hneg, hzero]
  simp only [Bool.false_eq_true, if_false]
  have hm : msbPos w a = -1 := by unfold msbPos; simp [hA]
  rw [hm, if_neg (by omega)]
  unfold Posit.convert
  simp

example : i2p 16 24 16 1 [0, 0] = .enc 0 := by decide

/-- **the exception.** From |x| ≥ 2^(n+1) on, the fraction loop indexes position −1 of a `bitblock<nbits>`:
    the conversion throws std::out_of_range instead of rounding (or clamping to maxpos). -/
theorem C15_i2p_throws {a : List Nat} (h : C15_Supported w ibits) (ha : Canon w ibits a)
    (hbig : 2 ^ (n + 1) ≤ (toInt w ibits a).natAbs) : i2p w ibits n es a = .exc := by
  obtain ⟨hw, hib, h64⟩ := h
  have hp := Nat.two_pow_pos (n + 1)
  have hne : (toInt w ibits a).natAbs ≠ 0 := by omega
  have hx : toInt w ibits a ≠ 0 := by omega
  have hlog : ¬ (toInt w ibits a).natAbs.log2 < n + 1 := by
    rw [Nat.log2_lt hne]; omega
  rw [i2p_eq hw hib h64 ha hx, if_pos (by omega)]

/-- the full statement: every integer converts to the Standard's rounding of its value -/
def C15_i2p_full : Prop :=
  ∀ (w ibits n es : Nat) (a : List Nat), C15_Supported w ibits → 2 ≤ n → Canon w ibits a →
    ∃ r, i2p w ibits n es a = .enc r ∧ ConvPosIntSpec.i2pOk ibits n es (toNat w a) r = true

/-- … is false of the pinned code: integer<16>(512) → posit<8,0> throws (maxpos of posit<8,0> is 64: the answer is 0x7f) -/
theorem C15_i2p_full_counterexample : ¬ C15_i2p_full := by
  intro hall
  obtain ⟨r, hr, _⟩ := hall 8 16 8 0 [0, 2] ⟨by decide, by decide, Or.inl (by decide)⟩ (by decide) (by decide)
  have : i2p 8 16 8 0 [0, 2] = .exc := by decide
  rw [this] at hr
  cases hr

/-- multi-block `uint64_t`: `scale(integer)` never returns, for any value (here 5 in integer<100, uint64_t>) — the
    restriction `C15_Supported` cannot be dropped -/
theorem C15_i2p_u64_multiblock_counterexample : i2p 64 100 16 1 [5, 0] = .hang := by decide +kernel

/-! ### integer<ibits, bt, WholeNumber | NaturalNumber> → posit -/

/-- **unsigned number types: one correct rounding below the top bit and below the exception boundary.** For a value
    0 < x < 2^(ibits−1) with x < 2^(n+1), `convert_i2p` of an unsigned integer returns the posit the Standard selects. -/
theorem C15_i2p_unsigned {a : List Nat} (h : C15_Supported w ibits) (hn : 2 ≤ n) (ha : Canon w ibits a)
    (hx : toNat w a ≠ 0) (htop : toNat w a < 2 ^ (ibits - 1)) (hfit : toNat w a < 2 ^ (n + 1)) :
    ∃ r, i2pWhole w ibits n es a = .enc r ∧ PositNearest n es ((toNat w a : Nat) : ℚ) r ∧
      ConvPosIntSpec.i2pOkK true ibits n es (toNat w a) r = true := by
  obtain ⟨hw, hib, h64⟩ := h
  have hti : toInt w ibits a = ((toNat w a : Nat) : Int) := Integer.toSigned_small (by omega) htop
  obtain ⟨r, hr, hnear, hok⟩ := C15_i2p (es := es) ⟨hw, hib, h64⟩ hn ha (by rw [hti]; exact_mod_cast hx)
    (by rw [hti]; simpa using hfit)
  refine ⟨r, ?_, ?_, ?_⟩
  · rw [i2pWhole_eq_i2p hw hib h64 ha htop]; exact hr
  · rw [hti] at hnear; exact_mod_cast hnear
  · unfold ConvPosIntSpec.i2pOk ConvPosIntSpec.intVal at hok
    unfold ConvPosIntSpec.i2pOkK ConvPosIntSpec.intValK
    have e : toSigned ibits (toNat w a) = toInt w ibits a := rfl
    rw [e, hti] at hok
    simp only [if_true, Nat.mod_eq_of_lt ha.2.2]
    exact hok

example : C15_Supported 8 8 ∧ Canon 8 8 [100] ∧ i2pWhole 8 8 16 1 [100] = .enc 0x7920 :=
  ⟨⟨by decide, by decide, Or.inl (by decide)⟩, by decide, by decide⟩

/-- the full statement for the unsigned number types -/
def C15_i2p_unsigned_full : Prop :=
  ∀ (w ibits n es : Nat) (a : List Nat), C15_Supported w ibits → 2 ≤ n → Canon w ibits a → toNat w a < 2 ^ (n + 1) →
    ∃ r, i2pWhole w ibits n es a = .enc r ∧ ConvPosIntSpec.i2pOkK true ibits n es (toNat w a) r = true

/-- … is false of the pinned code: `scale(integer)` reads bit nbits−1 as a sign whatever the number type, so
    integer<8, uint8_t, WholeNumber>(200) → posit<16,1> is converted with the scale of 256 − 200 = 56 and comes out as 50
    (0x7640) instead of 200 (0x7b20) -/
theorem C15_i2p_unsigned_full_counterexample : ¬ C15_i2p_unsigned_full := by
  intro hall
  obtain ⟨r, hr, hok⟩ := hall 8 8 16 1 [0xc8] ⟨by decide, by decide, Or.inl (by decide)⟩ (by decide) (by decide) (by decide)
  have h1 : i2pWhole 8 8 16 1 [0xc8] = .enc 0x7640 := by decide
  rw [h1] at hr
  injection hr with hr
  subst hr
  revert hok
  decide +kernel

/-! ### posit → integer -/

/-- the regions in which `convert_p2i` is right, on the decoded (sign, scale): |x| < 1 (scale < 0); positive x in [1,2)
    (scale 0); scale > 0 with either a left shift (scale ≥ fbits) or an integer wider than the significand -/
abbrev C15_P2IGood (ibits n es p : Nat) : Prop :=
  P2IGood ibits (fbitsOf n es) (decode n es p).sign (decode n es p).scale

/-- **posit → integer is truncation toward zero, reduced modulo 2^ibits, on the good regions.** For every posit
    configuration, integer size, limb width and every real-valued posit in `C15_P2IGood`, the raw storage produced by
    `convert_p2i` is canonical and holds the exact posit value truncated toward zero, wrapped into ibits bits (so: the
    exact value whenever it fits; the identity on integers that fit) — independently of the limb width. -/
theorem C15_p2i {p : Nat} (h : C15_Supported w ibits) (hn : 2 ≤ n) (hp : p < 2 ^ n) (h0 : p ≠ 0)
    (hnar : p ≠ 2 ^ (n - 1)) (hgood : C15_P2IGood ibits n es p) (x : ℚ) (hx : positVal n es p = some x) :
    Canon w ibits (p2i w ibits n es p) ∧
    toNat w (p2i w ibits n es p) = ofSigned ibits (truncZ x) ∧
    ConvPosIntSpec.p2iOk n es ibits p (toNat w (p2i w ibits n es p)) = true := by
  obtain ⟨hw, hib, h64⟩ := h
  obtain ⟨hc, hv⟩ := p2i_spec hw hib h64 hn hp h0 hnar hgood
  have hdv := (decode_value n es p hn hp h0 hnar).1
  rw [hx] at hdv
  injection hdv with hdv
  rw [← hdv] at hv
  refine ⟨hc, hv, ?_⟩
  unfold ConvPosIntSpec.p2iOk ConvPosIntSpec.p2iExpect
  rw [hx, hv]
  simp

/-- non-vacuity (`truncDec` is the truncated value computed on the decoded triple, `truncZ_positVal`):
    posit<8,0> 12.0 (0x7a: scale 3 < fbits 5) into integer<12>: the integer is wider than the significand;
    posit<16,1> 1.5·2^20 (0x7ff2: scale 20 ≥ fbits 12) into integer<8>: left shift, wraps to 0;
    posit<8,0> −12.0 (0x86) into integer<16, uint16_t>: 0xfff4 -/
example : C15_P2IGood 12 8 0 0x7a ∧ truncDec 8 0 0x7a = 12 ∧ toNat 8 (p2i 8 12 8 0 0x7a) = 12 := by decide
example : C15_P2IGood 8 16 1 0x7ff2 ∧ truncDec 16 1 0x7ff2 = 1572864 ∧ toNat 8 (p2i 8 8 16 1 0x7ff2) = 0 := by decide
example : C15_P2IGood 16 8 0 0x86 ∧ truncDec 8 0 0x86 = -12 ∧ toNat 16 (p2i 16 16 8 0 0x86) = 0xfff4 := by decide

/-- **posit 0 → integer 0 (and NaR → 0) for every nbits ≥ 3**: `scale(p)` of these patterns is negative, so the adapter
    takes the `v = 0` branch. (For nbits = 2 the scale is 0 and the result is 1: `C15_p2i_nbits2_zero_counterexample`.) -/
theorem C15_p2i_zero {w ibits n es : Nat} (h : C15_Supported w ibits) (hn : 3 ≤ n) (p : Nat) (hp : p = 0 ∨ p = 2 ^ (n - 1)) :
    p2i w ibits n es p = Integer.convertSigned w ibits 0 ∧ toNat w (p2i w ibits n es p) = 0 := by
  obtain ⟨N, rfl⟩ : ∃ N, n = N + 3 := ⟨n - 3, by omega⟩
  simp only [show N + 3 - 1 = N + 2 from rfl] at hp
  have hlt : p < 2 ^ (N + 3) := by
    rcases hp with rfl | rfl
    · exact Nat.two_pow_pos _
    · exact Nat.pow_lt_pow_right (by decide) (by omega)
  have hsc : positScale (N + 3) es p < 0 := by
    rw [positScale_special hp]
    have : (0 : Int) < ((2 ^ es : Nat) : Int) := by exact_mod_cast Nat.two_pow_pos es
    have h1 : (0 : Int) < ((N + 1 : Nat) : Int) := by omega
    rw [neg_mul]
    exact neg_neg_of_pos (mul_pos h1 this)
  have he : p2i w ibits (N + 3) es p = Integer.convertSigned w ibits 0 := by
    unfold p2i
    simp only [Nat.mod_eq_of_lt hlt]
    rw [if_pos hsc]
  refine ⟨he, ?_⟩
  rw [he]
  exact (Integer.convertSigned_zero (w := w) h.1 (by have := h.2.1; omega)).2

example : toNat 16 (p2i 16 32 16 1 0) = 0 ∧ toNat 16 (p2i 16 32 16 1 0x8000) = 0 := by decide


/-- the good regions of `C15_p2i`, stated on the posit's VALUE: |x| < 1, or 1 ≤ x < 2, or |x| ≥ 2 together with
    |x| ≥ 2^fbits (no fraction bit below the integer ulp: a left shift) or ibits > fbits + 1 -/
theorem C15_p2i_good_of_value {ibits n es p : Nat} (hn : 2 ≤ n) (hp : p < 2 ^ n) (h0 : p ≠ 0) (hnar : p ≠ 2 ^ (n - 1))
    (x : ℚ) (hx : positVal n es p = some x)
    (h : |x| < 1 ∨ (1 ≤ x ∧ x < 2) ∨ (2 ≤ |x| ∧ ((2 : ℚ) ^ fbitsOf n es ≤ |x| ∨ fbitsOf n es + 1 < ibits))) :
    C15_P2IGood ibits n es p := by
  obtain ⟨hdv, _, _, hf, hfb, hval⟩ := decode_value n es p hn hp h0 hnar
  rw [hx] at hdv
  injection hdv with hdv
  rw [hval] at hdv
  set d := decode n es p with hd
  set f : ℚ := (d.frac : ℚ) / 2 ^ d.fb with hfdef
  have hf0 : 0 ≤ f := by positivity
  have hf1 : f < 1 := by rw [hfdef, div_lt_one (by positivity)]; exact_mod_cast hf
  have hpos : 0 < valS d.scale f := valS_pos hf0
  have hlo : (2 : ℚ) ^ d.scale ≤ valS d.scale f := by
    unfold valS; have := two_zpow_pos d.scale; nlinarith
  have hhi : valS d.scale f < (2 : ℚ) ^ (d.scale + 1) := by
    unfold valS; rw [zpow_add_one₀ (by norm_num)]; have := two_zpow_pos d.scale; nlinarith
  have habs : |x| = valS d.scale f := by
    rw [hdv]; unfold tripleVal
    cases d.sign
    · simp only [Bool.false_eq_true, if_false, one_mul]; exact abs_of_pos hpos
    · simp only [if_true, neg_one_mul, abs_neg]; exact abs_of_pos hpos
  have mono : ∀ {a b : Int}, a ≤ b → (2 : ℚ) ^ a ≤ (2 : ℚ) ^ b := fun hab => zpow_le_zpow_right₀ (by norm_num) hab
  unfold C15_P2IGood P2IGood
  rw [← hd]
  rcases h with h | ⟨h1, h2⟩ | ⟨h2, h3⟩
  · left
    by_contra hc
    have := mono (show (0 : Int) ≤ d.scale by omega)
    rw [zpow_zero] at this
    rw [habs] at h; linarith
  · right; left
    have hsg : d.sign = false := by
      by_contra hc
      have : d.sign = true := by cases hs : d.sign <;> simp_all
      rw [hdv] at h1; unfold tripleVal at h1; rw [this] at h1
      simp only [if_true, neg_one_mul] at h1; linarith
    have hxv : x = valS d.scale f := by
      rw [hdv]; unfold tripleVal; rw [hsg]; simp [hfdef]
    refine ⟨?_, hsg⟩
    by_contra hc
    rcases lt_or_gt_of_ne hc with hlt | hgt
    · have := mono (show d.scale + 1 ≤ 0 by omega)
      rw [zpow_zero] at this
      rw [hxv] at h1; linarith
    · have := mono (show (1 : Int) ≤ d.scale by omega)
      rw [zpow_one] at this
      rw [hxv] at h2; linarith
  · right; right
    rw [habs] at h2 h3
    have hs1 : 0 < d.scale := by
      by_contra hc
      have := mono (show d.scale + 1 ≤ 1 by omega)
      rw [zpow_one] at this; linarith
    refine ⟨hs1, ?_⟩
    rcases h3 with h3 | h3
    · left
      by_contra hc
      have := mono (show d.scale + 1 ≤ ((fbitsOf n es : Nat) : Int) by omega)
      rw [zpow_natCast] at this; linarith
    · right; exact h3


/-- the full statement: every real-valued posit converts to its truncation, wrapped -/
def C15_p2i_full : Prop :=
  ∀ (w ibits n es p : Nat) (x : ℚ), C15_Supported w ibits → 2 ≤ n → p < 2 ^ n → positVal n es p = some x →
    toNat w (p2i w ibits n es p) = ofSigned ibits (truncZ x)

/-- … is false of the pinned code: posit<8,0> −1 (0xc0) → integer<8> gives +1 (`if (_scale == 0) v = 1`) -/
theorem C15_p2i_full_counterexample : ¬ C15_p2i_full := by
  intro hall
  have hv := (decode_value 8 0 0xc0 (by decide) (by decide) (by decide) (by decide)).1
  have := hall 8 8 8 0 0xc0 _ ⟨by decide, by decide, Or.inl (by decide)⟩ (by decide) (by decide) hv
  rw [truncZ_positVal (by decide) (by decide) (by decide) (by decide) hv] at this
  revert this
  decide

/-- a negative posit of scale 0 comes out as +1: outside `C15_P2IGood` and wrong (the value is −1) -/
theorem C15_p2i_negative_scale0_counterexample :
    ¬ C15_P2IGood 8 8 0 0xc0 ∧ truncDec 8 0 0xc0 = -1 ∧ toNat 8 (p2i 8 8 8 0 0xc0) = 1 := by decide

/-- an integer no wider than the significand with a right shift: posit<8,0> 2.0 (0x60; fbits 5, scale 1) → integer<4>
    gives 0, and posit<16,1> 3.0 (0x5800; fbits 12) → integer<8> gives 0 -/
theorem C15_p2i_narrow_integer_counterexample :
    ¬ C15_P2IGood 4 8 0 0x60 ∧ truncDec 8 0 0x60 = 2 ∧ toNat 8 (p2i 8 4 8 0 0x60) = 0 ∧
    ¬ C15_P2IGood 8 16 1 0x5800 ∧ truncDec 16 1 0x5800 = 3 ∧ toNat 8 (p2i 8 8 16 1 0x5800) = 0 := by decide

/-- posit<2,es>: the scale of the zero pattern is 0, so posit zero converts to 1 -/
theorem C15_p2i_nbits2_zero_counterexample : toNat 8 (p2i 8 4 2 0 0) = 1 := by decide

/-- multi-block `uint64_t`: the negation (`flip(); += 1`) drops the carry out of the low block, so a negative result whose
    magnitude has 64 zero low bits is off by 2^64: posit<32,2> −2^120 (0x80000001) into integer<128, uint64_t> -/
theorem C15_p2i_u64_multiblock_counterexample :
    truncDec 32 2 0x80000001 = -(2 ^ 120 : Int) ∧
    toNat 64 (p2i 64 128 32 2 0x80000001) ≠ ofSigned 128 (-(2 ^ 120 : Int)) ∧
    toNat 32 (p2i 32 128 32 2 0x80000001) = ofSigned 128 (-(2 ^ 120 : Int)) := by decide +kernel

/-! ### round trips -/

/-- truncation is the identity on integers -/
theorem truncZ_intCast (z : Int) : truncZ (z : ℚ) = z := by
  unfold truncZ
  split
  · exact Rat.floor_intCast z
  · rw [Rat.ceil_eq_neg_floor_neg]
    have : (-(z : ℚ)).floor = -z := by
      rw [← Rat.intCast_neg]; exact Rat.floor_intCast (-z)
    rw [this]; ring

/-- **integer → posit → integer is the identity whenever the first leg was exact** (the integer is a value of the posit)
    and the posit lies in `C15_P2IGood`. -/
theorem C15_int_posit_int {a : List Nat} {r : Nat} (h : C15_Supported w ibits) (hn : 2 ≤ n) (ha : Canon w ibits a)
    (hr : r < 2 ^ n) (hr0 : r ≠ 0) (hrnar : r ≠ 2 ^ (n - 1))
    (hexact : positVal n es r = some ((toInt w ibits a : Int) : ℚ)) (hgood : C15_P2IGood ibits n es r) :
    toNat w (p2i w ibits n es r) = toNat w a := by
  obtain ⟨_, hv, _⟩ := C15_p2i (w := w) h hn hr hr0 hrnar hgood _ hexact
  rw [hv, truncZ_intCast]
  unfold toInt
  exact ofSigned_toSigned_of_lt ha.2.2

/-- … and the round trip fails exactly where p2i is wrong: −1 → posit<8,0> → integer gives +1 -/
theorem C15_int_posit_int_counterexample :
    toInt 8 8 [0xff] = -1 ∧ i2p 8 8 8 0 [0xff] = .enc 0xc0 ∧ truncDec 8 0 0xc0 = -1 ∧ toNat 8 (p2i 8 8 8 0 0xc0) = 1 := by decide

/-- **posit → integer → posit is the identity** whenever the posit's value is an integer `z` that fits integer<ibits>, lies
    below the exception boundary of i2p and the posit is in `C15_P2IGood`. -/
theorem C15_posit_int_posit {p : Nat} (h : C15_Supported w ibits) (hn : 2 ≤ n) (hp : p < 2 ^ n) (h0 : p ≠ 0)
    (hnar : p ≠ 2 ^ (n - 1)) (hgood : C15_P2IGood ibits n es p) (z : Int) (hx : positVal n es p = some (z : ℚ))
    (hfits : IntegerSpec.fits ibits z = true) (hsmall : z.natAbs < 2 ^ (n + 1)) :
    i2p w ibits n es (p2i w ibits n es p) = .enc p := by
  obtain ⟨hc, hv, _⟩ := C15_p2i (w := w) h hn hp h0 hnar hgood _ hx
  rw [truncZ_intCast] at hv
  have hib0 : 0 < ibits := by have := h.2.1; omega
  have hti : toInt w ibits (p2i w ibits n es p) = z := by
    unfold toInt; rw [hv]
    unfold IntegerSpec.fits at hfits
    simp only [Bool.and_eq_true, decide_eq_true_eq] at hfits
    exact toSigned_ofSigned_fits hib0 hfits.1.2 hfits.2
  -- z ≠ 0 because a non-zero encoding has a non-zero value
  obtain ⟨hdv, hz, hi, hf, _, ht⟩ := decode_value n es p hn hp h0 hnar
  have hz0 : z ≠ 0 := by
    intro hz0
    rw [hx] at hdv
    injection hdv with hdv
    rw [hz0, ht] at hdv
    exact tripleVal_ne_zero _ _ _ _ (by simpa using hdv.symm)
  obtain ⟨r, hr, hnear, hok⟩ := C15_i2p (es := es) h hn hc (by rw [hti]; exact hz0) (by rw [hti]; exact hsmall)
  rw [hr]
  congr 1
  -- both r and p are correct roundings of z: the relation has one solution
  rw [hti] at hnear
  have hs := nearestB_self n es p hn hp (z : ℚ) hx
  rw [hx] at hdv
  injection hdv with hdv
  have hrlt : r < 2 ^ n := by
    unfold ConvPosIntSpec.i2pOk at hok
    simp only [Bool.and_eq_true, decide_eq_true_eq] at hok
    exact hok.1
  unfold PositNearest at hnear
  rw [hdv, ht] at hnear hs
  unfold tripleVal valS at hnear hs
  have hfr : (0 : ℚ) ≤ ((decode n es p).frac : ℚ) / 2 ^ (decode n es p).fb := by positivity
  have hfr1 : ((decode n es p).frac : ℚ) / 2 ^ (decode n es p).fb < 1 := by
    rw [div_lt_one (by positivity)]; exact_mod_cast hf
  exact nearestB_unique n es hn _ _ _ hfr hfr1 _ _ hrlt hp hnear hs

/-- non-vacuity: posit<8,0> 12.0 ↔ integer<12, uint8_t> -/
example : C15_P2IGood 12 8 0 0x7a ∧ truncDec 8 0 0x7a = 12 ∧ IntegerSpec.fits 12 12 = true ∧
    i2p 8 12 8 0 (p2i 8 12 8 0 0x7a) = .enc 0x7a := by decide

/-- **identity on representable values (integer → posit).** If the integer's value is a value of posit<n,es> — `b` is its
    encoding — and lies below the exception boundary, `convert_i2p` returns exactly `b`. -/
theorem C15_i2p_exact_of_representable {w ibits n es : Nat} {a : List Nat} {b : Nat} (h : C15_Supported w ibits) (hn : 2 ≤ n)
    (ha : Canon w ibits a) (hx : toInt w ibits a ≠ 0) (hfit : (toInt w ibits a).natAbs < 2 ^ (n + 1))
    (hb : b < 2 ^ n) (hrep : positVal n es b = some ((toInt w ibits a : Int) : ℚ)) :
    i2p w ibits n es a = .enc b := by
  obtain ⟨r, hr, hnear, hok⟩ := C15_i2p (es := es) h hn ha hx hfit
  rw [hr]; congr 1
  have hb0 : b ≠ 0 := by
    intro hb0; subst hb0
    have : positVal n es 0 = some 0 := by unfold positVal; simp
    rw [this] at hrep
    injection hrep with hrep
    exact hx (by exact_mod_cast hrep.symm)
  have hbnar : b ≠ 2 ^ (n - 1) := by
    intro hbn; subst hbn
    have : positVal n es (2 ^ (n - 1)) = none := by
      unfold positVal
      have hlt : 2 ^ (n - 1) < 2 ^ n := Nat.pow_lt_pow_right (by decide) (by omega)
      have hp := Nat.two_pow_pos (n - 1)
      simp only [Nat.mod_eq_of_lt hlt]
      rw [if_neg (by omega)]; simp
    rw [this] at hrep; cases hrep
  obtain ⟨hdv, _, _, hf, _, ht⟩ := decode_value n es b hn hb hb0 hbnar
  have hs := nearestB_self n es b hn hb _ hrep
  rw [hrep] at hdv
  injection hdv with hdv
  have hrlt : r < 2 ^ n := by
    unfold ConvPosIntSpec.i2pOk at hok
    simp only [Bool.and_eq_true, decide_eq_true_eq] at hok
    exact hok.1
  unfold PositNearest at hnear
  rw [hdv, ht] at hnear hs
  unfold tripleVal valS at hnear hs
  have hfr : (0 : ℚ) ≤ ((decode n es b).frac : ℚ) / 2 ^ (decode n es b).fb := by positivity
  have hfr1 : ((decode n es b).frac : ℚ) / 2 ^ (decode n es b).fb < 1 := by
    rw [div_lt_one (by positivity)]; exact_mod_cast hf
  exact nearestB_unique n es hn _ _ _ hfr hfr1 _ _ hrlt hb hnear hs

/-- **integer → posit → integer is the identity on representable values**: the integer is a value of the posit (encoding `b`),
    below the exception boundary, and `b` lies in `C15_P2IGood` -/
theorem C15_int_posit_int_representable {w ibits n es : Nat} {a : List Nat} {b : Nat} (h : C15_Supported w ibits) (hn : 2 ≤ n)
    (ha : Canon w ibits a) (hx : toInt w ibits a ≠ 0) (hfit : (toInt w ibits a).natAbs < 2 ^ (n + 1))
    (hb : b < 2 ^ n) (hrep : positVal n es b = some ((toInt w ibits a : Int) : ℚ)) (hgood : C15_P2IGood ibits n es b) :
    rti w ibits n es a = (.enc b, some (p2i w ibits n es b)) ∧ toNat w (p2i w ibits n es b) = toNat w a := by
  have he := C15_i2p_exact_of_representable h hn ha hx hfit hb hrep
  have hb0 : b ≠ 0 := by
    intro hb0; subst hb0
    have : positVal n es 0 = some 0 := by unfold positVal; simp
    rw [this] at hrep
    injection hrep with hrep
    exact hx (by exact_mod_cast hrep.symm)
  have hbnar : b ≠ 2 ^ (n - 1) := by
    intro hbn; subst hbn
    have : positVal n es (2 ^ (n - 1)) = none := by
      unfold positVal
      have hlt : 2 ^ (n - 1) < 2 ^ n := Nat.pow_lt_pow_right (by decide) (by omega)
      have hp := Nat.two_pow_pos (n - 1)
      simp only [Nat.mod_eq_of_lt hlt]
      rw [if_neg (by omega)]; simp
    rw [this] at hrep; cases hrep
  refine ⟨?_, C15_int_posit_int h hn ha hb hb0 hbnar hrep hgood⟩
  unfold rti
  rw [he]

-- non-vacuity: 12 in integer<12, uint8_t> is the value of posit<8,0> 0x7a
example : toInt 8 12 [12, 0] = 12 ∧ truncDec 8 0 0x7a = 12 ∧ C15_P2IGood 12 8 0 0x7a ∧
    rti 8 12 8 0 [12, 0] = (.enc 0x7a, some [12, 0]) := by decide

/-! ### block-type independence (C12 for the adapters) -/

/-- on the good regions the integer produced by p2i does not depend on the limb width -/
theorem C15_p2i_blocktype_independent {w' p : Nat} (h : C15_Supported w ibits) (h' : C15_Supported w' ibits) (hn : 2 ≤ n)
    (hp : p < 2 ^ n) (h0 : p ≠ 0) (hnar : p ≠ 2 ^ (n - 1)) (hgood : C15_P2IGood ibits n es p) :
    toNat w (p2i w ibits n es p) = toNat w' (p2i w' ibits n es p) := by
  obtain ⟨hdv, _⟩ := decode_value n es p hn hp h0 hnar
  rw [(C15_p2i (w := w) h hn hp h0 hnar hgood _ hdv).2.1, (C15_p2i (w := w') h' hn hp h0 hnar hgood _ hdv).2.1]
